import SpyneModel.Binary
namespace SpyneModel

theorem hexVal_hexDigit : ∀ n, n < 16 → hexVal? (hexDigit n) = some n := by decide

theorem b64Val_b64Char : ∀ url, ∀ n, n < 64 → b64Val? url (b64Char url n) = some n := by decide

theorem b64Char_ne_pad : ∀ url, ∀ n, n < 64 → b64Char url n ≠ '=' := by decide

theorem hexdec_hexenc (bs : List Nat) (h : bytesOk bs) : hexdec (hexenc bs) = some bs := by
  induction bs with
  | nil => simp [hexenc, hexdec]
  | cons b bs ih =>
    have hb : b < 256 := h b (by simp)
    have ih' := ih (fun x hx => h x (by simp [hx]))
    simp [hexenc, hexdec, hexVal_hexDigit (b / 16) (by omega), hexVal_hexDigit (b % 16) (by omega), ih']
    omega

theorem xsdHexBinary_hexenc (bs : List Nat) (h : bytesOk bs) : xsdHexBinary (hexenc bs) = true := by
  induction bs with
  | nil => simp [hexenc, xsdHexBinary]
  | cons b bs ih =>
    have hb : b < 256 := h b (by simp)
    have ih' := ih (fun x hx => h x (by simp [hx]))
    simp [hexenc, xsdHexBinary, hexVal_hexDigit (b / 16) (by omega), hexVal_hexDigit (b % 16) (by omega), ih']



theorem b64dec_b64enc (url : Bool) (bs : List Nat) (h : bytesOk bs) : b64dec url (b64enc url bs) = some bs := by
  fun_induction b64enc url bs with
  | case1 => simp [b64dec]
  | case2 a =>
    have ha : a < 256 := h a (by simp)
    simp [b64dec, b64Val_b64Char url (a / 4) (by omega), b64Val_b64Char url (a % 4 * 16) (by omega)]
    omega
  | case3 a b =>
    have ha : a < 256 := h a (by simp)
    have hb : b < 256 := h b (by simp)
    have n3 := b64Char_ne_pad url (b % 16 * 4) (by omega)
    simp [b64dec, n3, b64Val_b64Char url (a / 4) (by omega), b64Val_b64Char url (a % 4 * 16 + b / 16) (by omega),
      b64Val_b64Char url (b % 16 * 4) (by omega)]
    omega
  | case4 a b c r ih =>
    have ha : a < 256 := h a (by simp)
    have hb : b < 256 := h b (by simp)
    have hc : c < 256 := h c (by simp)
    have ih' := ih (fun x hx => h x (by simp [hx]))
    have n3 := b64Char_ne_pad url (b % 16 * 4 + c / 64) (by omega)
    have n4 := b64Char_ne_pad url (c % 64) (by omega)
    rw [b64dec]
    · simp [b64Val_b64Char url (a / 4) (by omega), b64Val_b64Char url (a % 4 * 16 + b / 16) (by omega),
        b64Val_b64Char url (b % 16 * 4 + c / 64) (by omega), b64Val_b64Char url (c % 64) (by omega), ih']
      omega
    all_goals (intros; simp_all)


theorem xsdBase64Binary_b64enc (bs : List Nat) (h : bytesOk bs) : xsdBase64Binary (b64enc false bs) = true := by
  fun_induction b64enc false bs with
  | case1 => simp [xsdBase64Binary]
  | case2 a =>
    have ha : a < 256 := h a (by simp)
    simp [xsdBase64Binary, b64Val_b64Char false (a / 4) (by omega), b64Val_b64Char false (a % 4 * 16) (by omega)]
  | case3 a b =>
    have ha : a < 256 := h a (by simp)
    have hb : b < 256 := h b (by simp)
    have n3 := b64Char_ne_pad false (b % 16 * 4) (by omega)
    simp [xsdBase64Binary, n3, b64Val_b64Char false (a / 4) (by omega),
      b64Val_b64Char false (a % 4 * 16 + b / 16) (by omega), b64Val_b64Char false (b % 16 * 4) (by omega)]
  | case4 a b c r ih =>
    have ha : a < 256 := h a (by simp)
    have hb : b < 256 := h b (by simp)
    have hc : c < 256 := h c (by simp)
    have ih' := ih (fun x hx => h x (by simp [hx]))
    have n3 := b64Char_ne_pad false (b % 16 * 4 + c / 64) (by omega)
    have n4 := b64Char_ne_pad false (c % 64) (by omega)
    rw [xsdBase64Binary]
    · simp [b64Val_b64Char false (a / 4) (by omega), b64Val_b64Char false (a % 4 * 16 + b / 16) (by omega),
        b64Val_b64Char false (b % 16 * 4 + c / 64) (by omega), b64Val_b64Char false (c % 64) (by omega), ih']
    all_goals (intros; simp_all)

theorem b64Val_lt : ∀ url c x, b64Val? url c = some x → x < 64 := by
  intro url c x h
  unfold b64Val? at h
  simp only [Bool.and_eq_true, decide_eq_true_eq] at h
  cases url <;> simp only [if_true, if_false, Bool.false_eq_true] at h <;>
  · split at h
    · injection h with e; omega
    · split at h
      · injection h with e; omega
      · split at h
        · injection h with e; omega
        · split at h
          · injection h with e; omega
          · split at h
            · injection h with e; omega
            · cases h

/-- (kept here, upstream of both `Proofs.LeafGood` and `Proofs.Prim2`, so that the auxiliary match lemmas of `b64dec`
    that its proof makes Lean generate exist once; generated independently in two modules they clash on import) -/
theorem b64dec_bytes (url : Bool) (s : Text) (bs : List Nat) (h : b64dec url s = some bs) :
    bs.all (fun b => decide (b < 256)) = true := by
  fun_induction b64dec url s generalizing bs with
  | case1 => injection h with e; subst e; rfl
  | case2 c1 c2 v1 v2 h1 h2 =>
    injection h with e; subst e
    have := b64Val_lt url c1 v1 (by assumption); have := b64Val_lt url c2 v2 (by assumption)
    simp; omega
  | case3 => cases h
  | case4 c1 c2 c3 _ v1 v2 v3 h1 h2 h3 =>
    injection h with e; subst e
    have := b64Val_lt url c1 v1 (by assumption); have := b64Val_lt url c2 v2 (by assumption); have := b64Val_lt url c3 v3 (by assumption)
    simp; omega
  | case5 => cases h
  | case6 c1 c2 c3 c4 r _ _ v1 v2 v3 v4 bs' h1 h2 h3 h4 hr ih =>
    injection h with e; subst e
    have := b64Val_lt url c1 v1 (by assumption); have := b64Val_lt url c2 v2 (by assumption); have := b64Val_lt url c3 v3 (by assumption)
    have := b64Val_lt url c4 v4 (by assumption)
    have := ih bs' (by assumption)
    simp_all; omega
  | case7 => cases h
  | case8 => cases h

end SpyneModel
