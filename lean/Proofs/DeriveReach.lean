/-
  C15 proofs, part 8: a field added to a class afterwards is in the class and in every customised variant.
-/
import Proofs.DeriveMain
namespace SpyneModel.Derive

def HasField (name : String) (g : Heap) (v : Nat) : Prop :=
  ∃ vc, g.cls[v]? = some vc ∧ name ∈ keysOf vc.fields

theorem mem_keys_odictSet {β : Type} (d : List (String × β)) (k : String) (v : β) : k ∈ keysOf (odictSet d k v) := by
  induction d with
  | nil => simp [odictSet, keysOf]
  | cons p rest ih =>
    simp only [odictSet]
    split
    · rename_i he
      have : p.1 = k := by simpa using he
      simp [keysOf, this]
    · simp only [keysOf, List.map_cons, List.mem_cons]
      right; exact ih

theorem mem_listInsertAt {β : Type} (l : List β) (i : Nat) (x : β) : x ∈ listInsertAt l i x := by
  induction l generalizing i with
  | nil => cases i <;> simp [listInsertAt]
  | cons y l ih =>
    cases i with
    | zero => simp [listInsertAt]
    | succ i => simp only [listInsertAt, List.mem_cons]; right; exact ih i

theorem mem_keys_odictInsert {β : Type} (d : List (String × β)) (i : Nat) (k : String) (v : β) :
    k ∈ keysOf (odictInsert d i k v) := by
  unfold odictInsert keysOf
  exact List.mem_map.mpr ⟨(k, v), mem_listInsertAt _ _ _, rfl⟩

theorem bind_ok_inv {α β : Type} (m : M α) (f : α → M β) (h h' : Heap) (b : β) (hr : (m >>= f) h = .ok h' b) :
    ∃ hm a, m h = .ok hm a ∧ f a hm = .ok h' b := by
  simp only [Bind.bind, M.bind] at hr
  cases hm : m h with
  | ok g a => rw [hm] at hr; exact ⟨g, a, rfl, hr⟩
  | err g e => rw [hm] at hr; cases hr

theorem exists_of_ext {n na : Nat} {T : List Nat} {g g2 : Heap} (e : Ext n na T g g2) (v : Nat) (hv : v < n)
    (hx : ∃ vc, g.cls[v]? = some vc) : ∃ vc, g2.cls[v]? = some vc := by
  obtain ⟨vc, hvc⟩ := hx
  have := e.core v hv
  rw [hvc] at this
  cases h2 : g2.cls[v]? with
  | none => simp [h2] at this
  | some x => exact ⟨x, rfl⟩

theorem updCls_has (name : String) (g g2 : Heap) (v : Nat) (f : Cls → Cls) (hf : ∀ cl, name ∈ keysOf (f cl).fields)
    (hx : ∃ vc, g.cls[v]? = some vc) (hr : updCls v f g = .ok g2 ()) : HasField name g2 v := by
  obtain ⟨vc, hvc⟩ := hx
  simp only [SpyneModel.Derive.updCls] at hr
  cases hr
  have hlt : v < g.cls.length := by
    rcases Nat.lt_or_ge v g.cls.length with hl | hl
    · exact hl
    · rw [List.getElem?_eq_none hl] at hvc; cases hvc
  refine ⟨f vc, ?_, hf vc⟩
  simp [Heap.updCls, hvc, List.getElem?_set_self hlt]

/-- an implementation part that puts `name` into the field table of its target -/
structure ImplHas (name : String) (impl : Nat → M Unit) : Prop extends Impl impl where
  has : ∀ v g g2, impl v g = .ok g2 () → (∃ vc, g.cls[v]? = some vc) → HasField name g2 v

theorem implHas_append (F : Facts15) [DeepCopy F] (fuel : Nat) (name : String) (t : Nat) :
    ImplHas name (appendImpl F fuel name t) := by
  refine ⟨impl_append F fuel name t, ?_⟩
  intro v g g2 hr hx
  unfold appendImpl at hr
  obtain ⟨g1, t2, h1, hr⟩ := bind_ok_inv _ _ _ _ _ hr
  have e1 := (good_delayedBoth (n := g.cls.length) (na := g.attrs.length) (T := []) F fuel F.delayAppend v name t false g
    (Nat.le_refl _) (Nat.le_refl _)).1
  rw [h1] at e1
  have hlt : v < g.cls.length := by
    obtain ⟨vc, hvc⟩ := hx
    rcases Nat.lt_or_ge v g.cls.length with hl | hl
    · exact hl
    · rw [List.getElem?_eq_none hl] at hvc; cases hvc
  have hx2 := exists_of_ext e1 v hlt hx
  exact updCls_has name g1 g2 v _ (fun cl => mem_keys_odictSet _ _ _) hx2 hr

theorem implHas_insert (F : Facts15) [DeepCopy F] (fuel idx : Nat) (name : String) (t : Nat) :
    ImplHas name (insertImpl F fuel idx name t) := by
  refine ⟨impl_insert F fuel idx name t, ?_⟩
  intro v g g2 hr hx
  unfold insertImpl at hr
  obtain ⟨g1, t2, h1, hr⟩ := bind_ok_inv _ _ _ _ _ hr
  have e1 := (good_delayedBoth (n := g.cls.length) (na := g.attrs.length) (T := []) F fuel F.delayInsert v name t true g
    (Nat.le_refl _) (Nat.le_refl _)).1
  rw [h1] at e1
  have hlt : v < g.cls.length := by
    obtain ⟨vc, hvc⟩ := hx
    rcases Nat.lt_or_ge v g.cls.length with hl | hl
    · exact hl
    · rw [List.getElem?_eq_none hl] at hvc; cases hvc
  have hx2 := exists_of_ext e1 v hlt hx
  exact updCls_has name g1 g2 v _ (fun cl => mem_keys_odictInsert _ _ _ _) hx2 hr

/-- one more implementation step does not take the field away from anybody -/
theorem hasField_step (name : String) (impl : Nat → M Unit) (hi : ImplHas name impl) (g g2 : Heap) (w v : Nat)
    (hr : impl w g = .ok g2 ()) (hv : HasField name g v) : HasField name g2 v := by
  by_cases e : w = v
  · subst e
    obtain ⟨vc, hvc, _⟩ := hv
    exact hi.has w g g2 hr ⟨vc, hvc⟩
  · obtain ⟨vc, hvc, hn⟩ := hv
    have hlt : v < g.cls.length := by
      rcases Nat.lt_or_ge v g.cls.length with hl | hl
      · exact hl
      · rw [List.getElem?_eq_none hl] at hvc; cases hvc
    have ex := (hi.good g.cls.length g.attrs.length [w] w (Or.inr (by simp)) g (Nat.le_refl _) (Nat.le_refl _)).1
    rw [hr] at ex
    have := ex.cls v hlt (by simp; exact fun x => e x.symm)
    simp only [Res.heap] at this
    exact ⟨vc, by rw [this]; exact hvc, hn⟩

theorem loop_has (name : String) (impl : Nat → M Unit) (hi : ImplHas name impl) :
    ∀ (vs : List Nat) (g g' : Heap), Inv g → AllVar g vs →
      forEach (evolveVariant impl) vs g = .ok g' () →
      (∀ v, v ∈ vs → HasField name g' v) ∧ (∀ v, HasField name g v → HasField name g' v) := by
  intro vs
  induction vs with
  | nil =>
    intro g g' _ _ hr
    rw [forEach_nil] at hr
    cases hr
    exact ⟨fun _ hv => by simp at hv, fun _ x => x⟩
  | cons w vs ih =>
    intro g g' ig av hr
    rw [forEach_cons] at hr
    have av1 : AllVar g [w] := fun x hx => av x (by simp at hx; simp [hx])
    rw [evolveVariant_variant impl hi.toImpl g ig w av1] at hr
    cases hw : impl w g with
    | err g2 e => rw [hw] at hr; cases hr
    | ok g2 u =>
      cases u
      rw [hw] at hr
      simp only at hr
      have k : Inv g2 := by
        have := (hi.keeps w g ig trivial).1
        rw [hw] at this; exact this
      have e0 := (hi.good g.cls.length g.attrs.length [w] w (Or.inr (by simp)) g (Nat.le_refl _) (Nat.le_refl _)).1
      rw [hw] at e0
      have av2 : AllVar g2 vs :=
        allVar_of_core g g2 vs _ _ _ e0 (Nat.le_refl _) (fun x hx => av x (by simp [hx]))
      obtain ⟨r1, r2⟩ := ih g2 g' k av2 hr
      have hww : HasField name g2 w := by
        obtain ⟨vc, hvc, _, _⟩ := av w (by simp)
        exact hi.has w g g2 hw ⟨vc, hvc⟩
      refine ⟨?_, fun v hv => r2 v (hasField_step name impl hi g g2 w v hw hv)⟩
      intro v hv
      simp only [List.mem_cons] at hv
      rcases hv with rfl | hv
      · exact r2 _ hww
      · exact r1 v hv

/-- REACH: after a successful `append_field`/`insert_field` on a class of the family, the class and every model
    that was a customised variant of it before the call have the field -/
theorem evolve_reaches (name : String) (impl : Nat → M Unit) (hi : ImplHas name impl) (h h' : Heap) (ih : Inv h)
    (c : Nat) (cl : Cls) (hc : h.cls[c]? = some cl) (hk : cl.kind.isComplex = true)
    (hr : evolve impl c h = .ok h' ()) :
    HasField name h' c ∧ ∀ v vc, h.cls[v]? = some vc → vc.kind.isComplex = true → vc.orig = some c →
      HasField name h' v := by
  unfold evolve at hr
  obtain ⟨h1, u, hr1, hr⟩ := bind_ok_inv _ _ _ _ _ hr
  cases u
  simp only [Bind.bind, M.bind, SpyneModel.Derive.getHeap] at hr
  have k : Inv h1 := by
    have := (hi.keeps c h ih trivial).1
    rw [hr1] at this; exact this
  have e := (hi.good h.cls.length h.attrs.length [c] c (Or.inr (by simp)) h (Nat.le_refl _) (Nat.le_refl _)).1
  rw [hr1] at e
  simp only [Res.heap] at e
  have hclt : c < h.cls.length := by
    rcases Nat.lt_or_ge c h.cls.length with hl | hl
    · exact hl
    · rw [List.getElem?_eq_none hl] at hc; cases hc
  -- in `h1` the class is still of the family and the old variants are still its variants
  have hcore := e.core c hclt
  rw [hc] at hcore
  cases hc1 : h1.cls[c]? with
  | none => simp [hc1] at hcore
  | some cl1 =>
    simp only [hc1, Option.map_some, Option.some.injEq, Cls.core, Prod.mk.injEq] at hcore
    have hk1 : cl1.kind.isComplex = true := by rw [hcore.1]; exact hk
    have av : AllVar h1 (variantsOf h1 c) := by
      intro v hv
      obtain ⟨vc, a1, a2, a3⟩ := (variants_exact h1 k c cl1 hc1 hk1 v).mp hv
      exact ⟨vc, a1, a2, by rw [a3]; simp⟩
    obtain ⟨r1, r2⟩ := loop_has name impl hi (variantsOf h1 c) h1 h' k av hr
    have hcc : HasField name h1 c := hi.has c h h1 hr1 ⟨cl, hc⟩
    refine ⟨r2 c hcc, ?_⟩
    intro v vc hv hkv hov
    apply r1
    have hvlt : v < h.cls.length := by
      rcases Nat.lt_or_ge v h.cls.length with hl | hl
      · exact hl
      · rw [List.getElem?_eq_none hl] at hv; cases hv
    have hcv := e.core v hvlt
    rw [hv] at hcv
    cases hv1 : h1.cls[v]? with
    | none => simp [hv1] at hcv
    | some vc1 =>
      simp only [hv1, Option.map_some, Option.some.injEq, Cls.core, Prod.mk.injEq] at hcv
      exact (variants_exact h1 k c cl1 hc1 hk1 v).mpr ⟨vc1, hv1, by rw [hcv.1]; exact hkv, by rw [hcv.2.2]; exact hov⟩

end SpyneModel.Derive
