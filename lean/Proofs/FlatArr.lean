/-
  C03 helper lemmas, part 2: `_s2cmi`, the idxmap invariant, and the array as a keyed store.

  The idxmap `m` of a list maps the sparse index of an element to its position. Invariant:
  the keys are distinct, every key is mapped to its rank (the number of smaller keys), and the list
  is as long as the map. `_s2cmi` + `list.insert` keep it, whatever index arrives next.
-/
import Proofs.FlatBasic
import SpyneModel.FlatSpec
namespace SpyneModel.Flat
open SpyneModel

def mkeys (m : List (Nat × Nat)) : List Nat := m.map Prod.fst

/-- number of keys smaller than `i` -/
def rank (ks : List Nat) (i : Nat) : Nat := ks.countP (fun k => decide (k < i))

structure ArrInv (m : List (Nat × Nat)) (n : Nat) : Prop where
  nodup : (mkeys m).Nodup
  ranked : ∀ kc, kc ∈ m → kc.2 = rank (mkeys m) kc.1
  len : n = m.length

theorem ArrInv.empty : ArrInv [] 0 := ⟨by simp [mkeys], by simp, rfl⟩

/-! ### rank -/

theorem rank_perm {ks ks' : List Nat} (h : ks.Perm ks') (i : Nat) : rank ks i = rank ks' i :=
  h.countP_eq _

theorem rank_append_single (ks : List Nat) (j i : Nat) :
    rank (ks ++ [j]) i = rank ks i + (if j < i then 1 else 0) := by
  simp [rank, List.countP_append, List.countP_cons]

theorem rank_mono (ks : List Nat) {i j : Nat} (h : i ≤ j) : rank ks i ≤ rank ks j := by
  induction ks with
  | nil => simp [rank]
  | cons k ks ih =>
    simp only [rank, List.countP_cons] at *
    by_cases h1 : k < i
    · have : k < j := by omega
      simp [h1, this]; omega
    · by_cases h2 : k < j <;> simp [h1, h2] <;> omega

/-- a key that is present and smaller than `i` is counted by `rank · i` but not by its own rank -/
theorem rank_lt_of_mem (ks : List Nat) {k i : Nat} (hk : k ∈ ks) (h : k < i) : rank ks k < rank ks i := by
  induction ks with
  | nil => simp at hk
  | cons a ks ih =>
    simp only [rank, List.countP_cons] at *
    rcases List.mem_cons.mp hk with rfl | hk'
    · have := rank_mono ks (Nat.le_of_lt h)
      simp only [rank] at this
      simp [h]; omega
    · have := ih hk'
      by_cases h1 : a < k
      · have : a < i := by omega
        simp [h1, this]; omega
      · by_cases h2 : a < i <;> simp [h1, h2] <;> omega

/-- in a list of distinct keys, a key that is larger than `i` sees `i` only after it was added -/
theorem rank_le_of_lt (ks : List Nat) {k i : Nat} (h : i < k) : rank ks i ≤ rank ks k :=
  rank_mono ks (Nat.le_of_lt h)

theorem rank_le_length (ks : List Nat) (i : Nat) : rank ks i ≤ ks.length := List.countP_le_length

theorem rank_lt_length_of_mem (ks : List Nat) (hn : ks.Nodup) {k : Nat} (hk : k ∈ ks) : rank ks k < ks.length := by
  induction ks with
  | nil => simp at hk
  | cons a ks ih =>
    simp only [List.nodup_cons] at hn
    simp only [rank, List.countP_cons, List.length_cons] at *
    rcases List.mem_cons.mp hk with rfl | hk'
    · have := rank_le_length ks k
      simp only [rank] at this
      simp; omega
    · have := ih hn.2 hk'
      split <;> omega

/-- there is a largest key below `i`, if there is any key below `i` -/
theorem exists_max_below (ks : List Nat) (i : Nat) (h : ∃ x, x ∈ ks ∧ x < i) :
    ∃ k, k ∈ ks ∧ k < i ∧ ∀ x, x ∈ ks → x < i → x ≤ k := by
  induction ks with
  | nil => obtain ⟨x, hx, _⟩ := h; simp at hx
  | cons a ks ih =>
    by_cases hr : ∃ x, x ∈ ks ∧ x < i
    · obtain ⟨k, hk, hki, hmax⟩ := ih hr
      by_cases ha : a < i ∧ k < a
      · refine ⟨a, List.mem_cons_self, ha.1, ?_⟩
        intro x hx hxi
        rcases List.mem_cons.mp hx with rfl | hx'
        · exact Nat.le_refl _
        · have := hmax x hx' hxi; omega
      · refine ⟨k, List.mem_cons_of_mem _ hk, hki, ?_⟩
        intro x hx hxi
        rcases List.mem_cons.mp hx with rfl | hx'
        · omega
        · exact hmax x hx' hxi
    · obtain ⟨x, hx, hxi⟩ := h
      rcases List.mem_cons.mp hx with rfl | hx'
      · refine ⟨x, List.mem_cons_self, hxi, ?_⟩
        intro y hy hyi
        rcases List.mem_cons.mp hy with rfl | hy'
        · exact Nat.le_refl _
        · exact absurd ⟨y, hy', hyi⟩ hr
      · exact absurd ⟨x, hx', hxi⟩ hr

/-- the largest key below `i` has rank one less than `i` would have -/
theorem rank_of_max_below (ks : List Nat) (hn : ks.Nodup) {k i : Nat} (hk : k ∈ ks) (hki : k < i)
    (hmax : ∀ x, x ∈ ks → x < i → x ≤ k) : rank ks i = rank ks k + 1 := by
  induction ks with
  | nil => simp at hk
  | cons a ks ih =>
    simp only [List.nodup_cons] at hn
    simp only [rank, List.countP_cons] at *
    rcases List.mem_cons.mp hk with rfl | hk'
    · -- the head is the maximum: every other key below `i` is below it
      have hsame : ks.countP (fun x => decide (x < i)) = ks.countP (fun x => decide (x < k)) := by
        apply List.countP_congr
        intro x hx
        have hxk : x ≠ k := fun e => hn.1 (e ▸ hx)
        have := hmax x (List.mem_cons_of_mem _ hx)
        simp only [decide_eq_true_eq]
        constructor <;> intro h' <;> omega
      simp [hki, hsame]
    · have hak : a ≠ k := fun e => hn.1 (e ▸ hk')
      have := ih hn.2 hk' (fun x hx hxi => hmax x (List.mem_cons_of_mem _ hx) hxi)
      have ha := hmax a List.mem_cons_self
      by_cases h1 : a < i
      · have : a < k := by have := ha h1; omega
        simp [h1, this]; omega
      · have : ¬ a < k := by omega
        simp [h1, this]; omega

/-! ### the map -/

theorem mapGet_mem {m : List (Nat × Nat)} {i c : Nat} (h : mapGet m i = some c) : (i, c) ∈ m := by
  induction m with
  | nil => simp [mapGet] at h
  | cons kv r ih =>
    obtain ⟨k, v⟩ := kv
    simp only [mapGet] at h
    split at h
    · rename_i hk
      simp only [Option.some.injEq] at h
      simp [hk, h]
    · exact List.mem_cons_of_mem _ (ih h)

theorem mapGet_of_mem {m : List (Nat × Nat)} (hn : (mkeys m).Nodup) {i c : Nat} (h : (i, c) ∈ m) :
    mapGet m i = some c := by
  induction m with
  | nil => simp at h
  | cons kv r ih =>
    obtain ⟨k, v⟩ := kv
    simp only [mkeys, List.map_cons, List.nodup_cons] at hn
    simp only [mapGet]
    rcases List.mem_cons.mp h with h | h
    · simp only [Prod.mk.injEq] at h
      simp [h.1, h.2]
    · have : k ≠ i := by
        intro e
        exact hn.1 (e ▸ List.mem_map_of_mem (f := Prod.fst) h)
      simp only [this, if_false]
      exact ih hn.2 h

theorem mapGet_none_iff {m : List (Nat × Nat)} {i : Nat} : mapGet m i = none ↔ i ∉ mkeys m := by
  induction m with
  | nil => simp [mapGet, mkeys]
  | cons kv r ih =>
    obtain ⟨k, v⟩ := kv
    simp only [mapGet, mkeys, List.map_cons, List.mem_cons, not_or]
    split
    · rename_i h; simp [h]
    · rename_i h
      simp only [mkeys] at ih
      rw [ih]
      constructor
      · intro h'; exact ⟨fun e => h e.symm, h'⟩
      · intro h'; exact h'.2

theorem ArrInv.get {m : List (Nat × Nat)} {n : Nat} (h : ArrInv m n) {i : Nat} (hi : i ∈ mkeys m) :
    mapGet m i = some (rank (mkeys m) i) := by
  obtain ⟨kc, hkc, rfl⟩ := List.mem_map.mp hi
  have := h.ranked kc hkc
  exact mapGet_of_mem h.nodup (by rw [← this]; exact hkc)

theorem ArrInv.get_lt {m : List (Nat × Nat)} {n : Nat} (h : ArrInv m n) {i c : Nat} (hg : mapGet m i = some c) :
    c < n ∧ c = rank (mkeys m) i ∧ i ∈ mkeys m := by
  have hm := mapGet_mem hg
  have hi : i ∈ mkeys m := List.mem_map_of_mem (f := Prod.fst) hm
  have hc := h.ranked _ hm
  simp only at hc
  refine ⟨?_, hc, hi⟩
  have := rank_lt_length_of_mem _ h.nodup hi
  simp only [mkeys, List.length_map] at this
  rw [hc, h.len]
  exact this

/-! ### `_s2cmi` -/

theorem s2cmiPos_fold_le (m : List (Nat × Nat)) (i a B : Nat) (ha : a ≤ B)
    (h : ∀ kc, kc ∈ m → kc.1 < i → kc.2 + 1 ≤ B) :
    m.foldl (fun acc iv => if iv.1 ≥ i then acc else max acc (iv.2 + 1)) a ≤ B := by
  induction m generalizing a with
  | nil => simpa
  | cons kv r ih =>
    simp only [List.foldl_cons]
    apply ih
    · split
      · exact ha
      · rename_i hk
        have := h kv List.mem_cons_self (by omega)
        omega
    · intro kc hkc; exact h kc (List.mem_cons_of_mem _ hkc)

theorem s2cmiPos_fold_ge (m : List (Nat × Nat)) (i a : Nat) :
    a ≤ m.foldl (fun acc iv => if iv.1 ≥ i then acc else max acc (iv.2 + 1)) a ∧
    ∀ kc, kc ∈ m → kc.1 < i →
      kc.2 + 1 ≤ m.foldl (fun acc iv => if iv.1 ≥ i then acc else max acc (iv.2 + 1)) a := by
  induction m generalizing a with
  | nil => simp
  | cons kv r ih =>
    simp only [List.foldl_cons]
    constructor
    · by_cases hge : kv.1 ≥ i
      · simp only [hge, if_true]; exact (ih a).1
      · simp only [hge, if_false]
        have := (ih (max a (kv.2 + 1))).1
        omega
    · intro kc hkc hlt
      rcases List.mem_cons.mp hkc with rfl | hkc'
      · have hn : ¬ kc.1 ≥ i := by omega
        simp only [hn, if_false]
        have := (ih (max a (kc.2 + 1))).1
        omega
      · exact (ih _).2 kc hkc' hlt

/-- what `_s2cmi` returns is the rank of the new index: the heart of "index order" -/
theorem s2cmiPos_eq_rank {m : List (Nat × Nat)} {n : Nat} (h : ArrInv m n) (i : Nat) :
    s2cmiPos m i = rank (mkeys m) i := by
  apply Nat.le_antisymm
  · apply s2cmiPos_fold_le
    · exact Nat.zero_le _
    · intro kc hkc hlt
      have := h.ranked kc hkc
      have hk : kc.1 ∈ mkeys m := List.mem_map_of_mem (f := Prod.fst) hkc
      have := rank_lt_of_mem (mkeys m) hk hlt
      omega
  · by_cases hex : ∃ x, x ∈ mkeys m ∧ x < i
    · obtain ⟨k, hk, hki, hmax⟩ := exists_max_below _ _ hex
      have hr := rank_of_max_below _ h.nodup hk hki hmax
      obtain ⟨kc, hkc, rfl⟩ := List.mem_map.mp hk
      have := (s2cmiPos_fold_ge m i 0).2 kc hkc hki
      have hc := h.ranked kc hkc
      simp only [s2cmiPos]
      omega
    · have : rank (mkeys m) i = 0 := by
        simp only [rank, List.countP_eq_zero, decide_eq_true_eq]
        intro x hx hxi
        exact hex ⟨x, hx, hxi⟩
      omega

theorem s2cmi_keys (m : List (Nat × Nat)) (i : Nat) : mkeys (s2cmi m i).2 = mkeys m ++ [i] := by
  simp only [s2cmi, mkeys, List.map_append, List.map_map, List.map_cons, List.map_nil]
  congr 1
  apply List.map_congr_left
  intro kv _
  simp only [Function.comp]
  split <;> rfl

/-- `_s2cmi` keeps the invariant and adds the new index with its rank -/
theorem ArrInv.after_s2cmi {m : List (Nat × Nat)} {n : Nat} (h : ArrInv m n) {i : Nat} (hi : i ∉ mkeys m) :
    ArrInv (s2cmi m i).2 (n + 1) ∧ (s2cmi m i).1 = rank (mkeys m) i := by
  have hpos := s2cmiPos_eq_rank h i
  refine ⟨⟨?_, ?_, ?_⟩, hpos⟩
  · rw [s2cmi_keys]
    exact List.nodup_append.mpr ⟨h.nodup, by simp, by
      intro a ha b hb
      simp only [List.mem_singleton] at hb
      subst hb
      intro e; subst e; exact hi ha⟩
  · intro kc hkc
    rw [s2cmi_keys, rank_append_single]
    simp only [s2cmi, List.mem_append, List.mem_map, List.mem_singleton] at hkc
    rcases hkc with ⟨kv, hkv, rfl⟩ | rfl
    · have hr := h.ranked kv hkv
      have hk : kv.1 ∈ mkeys m := List.mem_map_of_mem (f := Prod.fst) hkv
      have hne : kv.1 ≠ i := fun e => hi (e ▸ hk)
      by_cases hge : kv.1 ≥ i
      · have : i < kv.1 := by omega
        simp [hge, this, hr]
      · have : ¬ i < kv.1 := by omega
        simp [hge, this, hr]
    · simp [s2cmi, hpos]
  · simp [s2cmi, h.len]

/-! ### the list as a store keyed by the sparse index -/

/-- the element with sparse index `i`, `dflt` when there is none yet -/
def arrGet {α : Type} (m : List (Nat × Nat)) (items : List α) (dflt : α) (i : Nat) : α :=
  match mapGet m i with
  | some c => items.getD c dflt
  | none => dflt

/-- put `v` at sparse index `i`: in place when the index is known, else `_s2cmi` + `list.insert` -/
def arrPut {α : Type} (m : List (Nat × Nat)) (items : List α) (i : Nat) (v : α) :
    List (Nat × Nat) × List α :=
  match mapGet m i with
  | some c => (m, setAt items c v)
  | none => ((s2cmi m i).2, pyInsert items (s2cmi m i).1 v)

theorem setAt_length {α : Type} (l : List α) (i : Nat) (x : α) : (setAt l i x).length = l.length := by
  induction l generalizing i with
  | nil => rfl
  | cons a r ih => cases i <;> simp [setAt, ih]

theorem setAt_getD_same {α : Type} (l : List α) (i : Nat) (x d : α) (h : i < l.length) :
    (setAt l i x).getD i d = x := by
  induction l generalizing i with
  | nil => simp at h
  | cons a r ih =>
    cases i with
    | zero => simp [setAt]
    | succ i => simp only [setAt, List.getD_cons_succ]; exact ih i (by simpa using h)

theorem setAt_getD_ne {α : Type} (l : List α) (i j : Nat) (x d : α) (h : j ≠ i) :
    (setAt l i x).getD j d = l.getD j d := by
  induction l generalizing i j with
  | nil => rfl
  | cons a r ih =>
    cases i with
    | zero =>
      cases j with
      | zero => exact absurd rfl h
      | succ j => simp [setAt]
    | succ i =>
      cases j with
      | zero => simp [setAt]
      | succ j => simp only [setAt, List.getD_cons_succ]; exact ih i j (by omega)

theorem pyInsert_length {α : Type} (l : List α) (p : Nat) (x : α) (h : p ≤ l.length) :
    (pyInsert l p x).length = l.length + 1 := by
  simp [pyInsert]; omega

theorem pyInsert_getD_lt {α : Type} (l : List α) (p j : Nat) (x d : α) (h : j < p) (hp : p ≤ l.length) :
    (pyInsert l p x).getD j d = l.getD j d := by
  simp only [pyInsert, List.getD_eq_getElem?_getD]
  rw [List.getElem?_append_left (by simp; omega)]
  simp [List.getElem?_take, h]

theorem pyInsert_getD_eq {α : Type} (l : List α) (p : Nat) (x d : α) (hp : p ≤ l.length) :
    (pyInsert l p x).getD p d = x := by
  simp only [pyInsert, List.getD_eq_getElem?_getD]
  rw [List.getElem?_append_right (by simp; omega)]
  simp [Nat.min_eq_left hp]

theorem pyInsert_getD_gt {α : Type} (l : List α) (p j : Nat) (x d : α) (h : p ≤ j) (hp : p ≤ l.length) :
    (pyInsert l p x).getD (j + 1) d = l.getD j d := by
  simp only [pyInsert, List.getD_eq_getElem?_getD]
  rw [List.getElem?_append_right (by simp; omega)]
  simp only [List.length_take, Nat.min_eq_left hp]
  have : j + 1 - p = (j - p) + 1 := by omega
  rw [this, List.getElem?_cons_succ, List.getElem?_drop]
  congr 2
  omega

theorem arrPut_inv {α : Type} {m : List (Nat × Nat)} {items : List α} (h : ArrInv m items.length)
    (i : Nat) (v : α) : ArrInv (arrPut m items i v).1 (arrPut m items i v).2.length := by
  unfold arrPut
  cases hg : mapGet m i with
  | some c => simpa [setAt_length] using h
  | none =>
    have hi := mapGet_none_iff.mp hg
    obtain ⟨hinv, hpos⟩ := h.after_s2cmi hi
    have hle : (s2cmi m i).1 ≤ items.length := by
      rw [hpos, h.len]
      have := rank_le_length (mkeys m) i
      simpa [mkeys] using this
    simpa [pyInsert_length _ _ _ hle] using hinv

theorem arrPut_keys {α : Type} (m : List (Nat × Nat)) (items : List α) (i : Nat) (v : α) :
    mkeys (arrPut m items i v).1 = if i ∈ mkeys m then mkeys m else mkeys m ++ [i] := by
  unfold arrPut
  cases hg : mapGet m i with
  | some c =>
    have : i ∈ mkeys m := List.mem_map_of_mem (f := Prod.fst) (mapGet_mem hg)
    simp [this]
  | none =>
    have hi := mapGet_none_iff.mp hg
    simp [hi, s2cmi_keys]

theorem arrGet_arrPut_same {α : Type} {m : List (Nat × Nat)} {items : List α} (h : ArrInv m items.length)
    (i : Nat) (v d : α) : arrGet (arrPut m items i v).1 (arrPut m items i v).2 d i = v := by
  unfold arrPut
  cases hg : mapGet m i with
  | some c =>
    simp only [arrGet, hg]
    exact setAt_getD_same _ _ _ _ (h.get_lt hg).1
  | none =>
    have hi := mapGet_none_iff.mp hg
    obtain ⟨hinv, hpos⟩ := h.after_s2cmi hi
    have hle : (s2cmi m i).1 ≤ items.length := by
      rw [hpos, h.len]
      have := rank_le_length (mkeys m) i
      simpa [mkeys] using this
    have hmem : i ∈ mkeys (s2cmi m i).2 := by simp [s2cmi_keys]
    have hget := hinv.get hmem
    rw [s2cmi_keys, rank_append_single] at hget
    simp only [Nat.lt_irrefl, if_false, Nat.add_zero] at hget
    simp only [arrGet, hget, ← hpos]
    exact pyInsert_getD_eq _ _ _ _ hle

theorem arrGet_arrPut_ne {α : Type} {m : List (Nat × Nat)} {items : List α} (h : ArrInv m items.length)
    (i j : Nat) (v d : α) (hj : j ≠ i) :
    arrGet (arrPut m items i v).1 (arrPut m items i v).2 d j = arrGet m items d j := by
  unfold arrPut
  cases hg : mapGet m i with
  | some c =>
    simp only [arrGet]
    cases hgj : mapGet m j with
    | none => rfl
    | some c' =>
      simp only
      apply setAt_getD_ne
      intro e
      subst e
      have h1 := (h.get_lt hg)
      have h2 := (h.get_lt hgj)
      -- equal ranks of two present keys mean equal keys
      have hlt : ¬ j < i := fun hlt => by
        have := rank_lt_of_mem (mkeys m) h2.2.2 hlt; omega
      have hgt : ¬ i < j := fun hgt => by
        have := rank_lt_of_mem (mkeys m) h1.2.2 hgt; omega
      omega
  | none =>
    have hi := mapGet_none_iff.mp hg
    obtain ⟨hinv, hpos⟩ := h.after_s2cmi hi
    have hle : (s2cmi m i).1 ≤ items.length := by
      rw [hpos, h.len]
      have := rank_le_length (mkeys m) i
      simpa [mkeys] using this
    simp only [arrGet]
    cases hgj : mapGet m j with
    | none =>
      have hjn := mapGet_none_iff.mp hgj
      have : mapGet (s2cmi m i).2 j = none := by
        apply mapGet_none_iff.mpr
        rw [s2cmi_keys]
        simp [hjn, hj]
      simp [this]
    | some c' =>
      have h2 := h.get_lt hgj
      have hjm : j ∈ mkeys (s2cmi m i).2 := by rw [s2cmi_keys]; simp [h2.2.2]
      have hget := hinv.get hjm
      rw [s2cmi_keys, rank_append_single] at hget
      simp only [hget, hpos]
      by_cases hlt : i < j
      · simp only [hlt, if_true]
        rw [h2.2.1]
        exact pyInsert_getD_gt _ _ _ _ _ (rank_le_of_lt _ hlt) (by rw [← hpos]; exact hle)
      · have hji : j < i := by omega
        simp only [hlt, if_false, Nat.add_zero]
        rw [h2.2.1]
        exact pyInsert_getD_lt _ _ _ _ _ (rank_lt_of_mem _ h2.2.2 hji) (by rw [← hpos]; exact hle)

/-! ### reading the list off in index order -/

theorem StrictInc.tail {a : Nat} {l : List Nat} (h : StrictInc (a :: l)) : StrictInc l := by
  cases l with
  | nil => trivial
  | cons b r => exact h.2

theorem StrictInc.head_lt {a : Nat} {l : List Nat} (h : StrictInc (a :: l)) : ∀ x, x ∈ l → a < x := by
  induction l generalizing a with
  | nil => simp
  | cons b r ih =>
    intro x hx
    rcases List.mem_cons.mp hx with rfl | hx'
    · exact h.1
    · have := ih h.2 x hx'; have := h.1; omega

theorem StrictInc.nodup {l : List Nat} (h : StrictInc l) : l.Nodup := by
  induction l with
  | nil => simp
  | cons a r ih =>
    refine List.nodup_cons.mpr ⟨?_, ih h.tail⟩
    intro ha
    have := h.head_lt a ha
    omega

/-- in a strictly increasing list the rank of the `c`-th element is `c` -/
theorem rank_strictInc (l : List Nat) (h : StrictInc l) (c : Nat) (hc : c < l.length) :
    rank l (l[c]) = c := by
  induction l generalizing c with
  | nil => simp at hc
  | cons a r ih =>
    cases c with
    | zero =>
      simp only [List.getElem_cons_zero, rank, List.countP_cons, Nat.lt_irrefl, decide_false]
      have : r.countP (fun k => decide (k < a)) = 0 := by
        simp only [List.countP_eq_zero, decide_eq_true_eq]
        intro x hx; have := h.head_lt x hx; omega
      simp [this]
    | succ c =>
      have hc' : c < r.length := by simpa using hc
      simp only [List.getElem_cons_succ, rank, List.countP_cons]
      have hlt : a < r[c] := h.head_lt _ (List.getElem_mem hc')
      have := ih h.tail c hc'
      simp only [rank] at this
      simp [hlt, this]

/-- a list under the invariant, read through the sparse indexes in increasing order, is itself -/
theorem items_eq_map_arrGet {α : Type} {m : List (Nat × Nat)} {items : List α} (h : ArrInv m items.length)
    (is : List Nat) (hs : StrictInc is) (hp : (mkeys m).Perm is) (d : α) :
    items = is.map (arrGet m items d) := by
  have hlen : items.length = is.length := by
    rw [h.len, ← hp.length_eq]; simp [mkeys]
  apply List.ext_getElem
  · simp [hlen]
  · intro c h1 h2
    have hc : c < is.length := by omega
    simp only [List.getElem_map]
    have hmem : is[c] ∈ mkeys m := hp.symm.subset (List.getElem_mem hc)
    have hg := h.get hmem
    rw [rank_perm hp, rank_strictInc is hs c hc] at hg
    simp [arrGet, hg, List.getD_eq_getElem?_getD, h1]

/-! ### `_s2cmi` on its own: fresh sparse indexes arriving in any order -/

/-- `cidx = _s2cmi(m, nidx); lst.insert(cidx, x)` for a sequence of (index, element) -/
def insertAll {α : Type} : List (Nat × α) → List (Nat × Nat) × List α → List (Nat × Nat) × List α
  | [], s => s
  | ix :: r, s => insertAll r ((s2cmi s.1 ix.1).2, pyInsert s.2 (s2cmi s.1 ix.1).1 ix.2)

theorem insertAll_spec {α : Type} : ∀ (r : List (Nat × α)) (s : List (Nat × Nat) × List α),
    ArrInv s.1 s.2.length → (∀ i, i ∈ r.map Prod.fst → i ∉ mkeys s.1) → (r.map Prod.fst).Nodup →
    ArrInv (insertAll r s).1 (insertAll r s).2.length ∧
    mkeys (insertAll r s).1 = mkeys s.1 ++ r.map Prod.fst ∧
    ∀ (d : α) (j : Nat), arrGet (insertAll r s).1 (insertAll r s).2 d j =
      match r.lookup j with
      | some x => x
      | none => arrGet s.1 s.2 d j := by
  intro r
  induction r with
  | nil => intro s h _ _; exact ⟨h, by simp [insertAll], fun d j => rfl⟩
  | cons ix r ih =>
    intro s hinv hfresh hnd
    obtain ⟨i, x⟩ := ix
    simp only [List.map_cons, List.nodup_cons] at hnd
    have hi : i ∉ mkeys s.1 := hfresh i (by simp)
    have hput : arrPut s.1 s.2 i x = ((s2cmi s.1 i).2, pyInsert s.2 (s2cmi s.1 i).1 x) := by
      simp [arrPut, mapGet_none_iff.mpr hi]
    have hinv' := arrPut_inv hinv i x
    have hkeys' := arrPut_keys s.1 s.2 i x
    simp only [hi, if_false] at hkeys'
    rw [hput] at hinv' hkeys'
    have := ih ((s2cmi s.1 i).2, pyInsert s.2 (s2cmi s.1 i).1 x) hinv'
      (by
        intro j hj
        simp only at hkeys' ⊢
        rw [hkeys']
        simp only [List.mem_append, List.mem_singleton, not_or]
        exact ⟨hfresh j (by simp [hj]), fun e => hnd.1 (e ▸ hj)⟩)
      hnd.2
    obtain ⟨h1, h2, h3⟩ := this
    refine ⟨h1, ?_, ?_⟩
    · simp only [insertAll]; rw [h2, hkeys']; simp
    · intro d j
      simp only [insertAll, List.lookup_cons]
      rw [h3 d j]
      by_cases hj : j = i
      · subst hj
        have hnone : r.lookup j = none := by
          apply List.lookup_eq_none_iff.mpr
          intro p hp
          simp only [bne_iff_ne, ne_eq]
          intro e
          exact hnd.1 (e ▸ List.mem_map_of_mem (f := Prod.fst) hp)
        have := arrGet_arrPut_same hinv j x d
        rw [hput] at this
        simp [hnone, this]
      · have hb : (j == i) = false := by simp [hj]
        simp only [hb]
        have := arrGet_arrPut_ne hinv i j x d hj
        rw [hput] at this
        rw [this]

/-- **index order, whatever the arrival order.** Insert elements with pairwise distinct sparse
    indexes, in any order, the way `simple_dict_to_object` does (`_s2cmi` for the position,
    `list.insert`): the list ends up in increasing index order, and the idxmap sends every index
    to its rank. -/
theorem s2cmi_rank {α : Type} (ixs : List (Nat × α)) (hnd : (ixs.map Prod.fst).Nodup)
    (js : List Nat) (hs : StrictInc js) (hp : (ixs.map Prod.fst).Perm js) (d : α) :
    (insertAll ixs ([], [])).2 = js.map (fun j => (ixs.lookup j).getD d) ∧
    ∀ j, j ∈ js → mapGet (insertAll ixs ([], [])).1 j = some (rank js j) := by
  obtain ⟨h1, h2, h3⟩ := insertAll_spec ixs ([], []) ArrInv.empty (by simp [mkeys]) hnd
  simp only [mkeys, List.map_nil, List.nil_append] at h2
  have hk : (mkeys (insertAll ixs ([], [])).1).Perm js := by
    simp only [mkeys]; rw [h2]; exact hp
  constructor
  · rw [items_eq_map_arrGet h1 js hs hk d]
    apply List.map_congr_left
    intro j hj
    rw [h3 d j]
    have : j ∈ ixs.map Prod.fst := hp.symm.subset hj
    obtain ⟨p, hp', rfl⟩ := List.mem_map.mp this
    cases hl : ixs.lookup p.1 with
    | some x => rfl
    | none =>
      have := List.lookup_eq_none_iff.mp hl p hp'
      simp at this
  · intro j hj
    have := h1.get (hk.symm.subset hj)
    rw [rank_perm hk] at this
    exact this

end SpyneModel.Flat
