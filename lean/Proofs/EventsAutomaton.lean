/-
  C14 helper lemmas, part 2: the specification automaton accepts finitely many traces, and every one
  of them satisfies the sentences of the property.
-/
import SpyneModel.EventsSpec
namespace SpyneModel.Events

theorem runFrom_reject (t : List Sym) : runFrom .reject t = .reject := by
  induction t with
  | nil => rfl
  | cons s t ih => simpa [runFrom, Q.step] using ih

theorem runFrom_cons (q : Q) (s : Sym) (t : List Sym) : runFrom q (s :: t) = runFrom (q.step s) t := rfl

theorem mem_allSym (s : Sym) : s ∈ allSym := by
  cases s with
  | user => simp [allSym]
  | ev e => cases e <;> simp [allSym, allEvent]

theorem rank_step (q : Q) (s : Sym) (h : q.step s ≠ .reject) : (q.step s).rank < q.rank := by
  cases q <;> cases s <;> (try rename_i e; cases e) <;> simp_all [Q.step, Q.rank]

theorem len_le_rank (t : List Sym) (q : Q) (h : (runFrom q t).isDone = true) : t.length ≤ q.rank := by
  induction t generalizing q with
  | nil => simp
  | cons s t ih =>
    rw [runFrom_cons] at h
    have hne : q.step s ≠ .reject := by
      intro c; rw [c, runFrom_reject] at h; simp [Q.isDone] at h
    have := ih _ h
    have := rank_step q s hne
    simp only [List.length_cons]; omega

theorem mem_lang (n : Nat) (q : Q) (t : List Sym) (hl : t.length ≤ n) (h : (runFrom q t).isDone = true) :
    (t, runFrom q t) ∈ lang n q := by
  induction n generalizing q t with
  | zero =>
    have : t = [] := List.eq_nil_of_length_eq_zero (by omega)
    subst this
    simp only [runFrom, List.foldl_nil] at h ⊢
    simp [lang, h]
  | succ n ih =>
    cases t with
    | nil =>
      simp only [runFrom, List.foldl_nil] at h ⊢
      simp [lang, h]
    | cons s t =>
      rw [runFrom_cons] at h ⊢
      have hne : q.step s ≠ .reject := by
        intro c; rw [c, runFrom_reject] at h; simp [Q.isDone] at h
      have := ih (q.step s) t (by simpa using hl) h
      simp only [lang, List.mem_append, List.mem_flatMap]
      refine Or.inr ⟨s, mem_allSym s, ?_⟩
      simp only [hne, if_false, List.mem_map]
      exact ⟨_, this, rfl⟩

/-- every accepted trace is one of the finitely many in `lang 9 .start` -/
theorem accepted_mem (t : List Sym) (h : (final t).isDone = true) : (t, final t) ∈ lang 9 .start :=
  mem_lang 9 .start t (len_le_rank t .start h) h

theorem lang_clauses : (lang 9 .start).all (fun p =>
    match p.2 with
    | .done u r f => clauses p.1 u r f
    | _ => true) = true := by decide +kernel

/-- the automaton is sound for the property's sentences: for EVERY trace -/
theorem clauses_of_final (t : List Sym) (u r f : Bool) (h : final t = .done u r f) :
    clauses t u r f = true := by
  have hm := accepted_mem t (by rw [h]; rfl)
  have := List.all_eq_true.1 lang_clauses _ hm
  simp only [h] at this
  exact this

end SpyneModel.Events
