/-
  SOAP headers: what `Soap11.serialize` writes into Header for the declared header classes is what
  `Soap11.deserialize` hands to the other side as `ctx.in_header` — both directions use the same two
  functions (request: in_header classes, response: out_header classes).
-/
import Proofs.XmlServer
namespace SpyneModel
namespace Xml
open Soap

/-- what the receiver gets for the declared classes `hs` when the sender supplied `vals` (a shorter
    `vals` leaves the remaining headers absent = None) -/
def expectHdr (I : Iface) : List Ty → List Val → List Val
  | h :: hs, v :: vs => normOneX I h v :: expectHdr I hs vs
  | hs, [] => hs.map (fun _ => Val.none)
  | [], _ => []

def isObjTy : Ty → Bool
  | .obj _ _ _ _ _ => true
  | _ => false

theorem headerPairs_keys (F : Facts08) (cfg : Cfg) (I : Iface) : (hs : List Ty) → (vals : List Val) →
    ∀ x ∈ headerPairs F cfg I hs vals, nodeKey x ∈ hs.map headerKey
  | [], _, x, hx => by simp [headerPairs] at hx
  | _ :: _, [], x, hx => by simp [headerPairs] at hx
  | h :: hs, v :: vs, x, hx => by
    simp only [headerPairs, List.mem_append] at hx
    rcases hx with hx | hx
    · cases h with
      | obj name ns b fs o =>
        simp only at hx
        have h1 := toParent_ns F cfg I ns name _ v x hx
        have h2 := (toParent_nodeOk F cfg I ns name _ v x hx).1
        simp [nodeKey, headerKey, h1, h2]
      | prim p o => simp at hx
      | arr m e o => simp at hx
    · have := headerPairs_keys F cfg I hs vs x hx
      simp only [List.map, List.mem_cons]; right; exact this

theorem filter_none_of_keys (l : List Node) (key : Text) (h : ∀ x ∈ l, nodeKey x ≠ key) :
    l.filter (fun c => nodeKey c = key) = [] := by
  rw [List.filter_eq_nil_iff]
  intro x hx
  simpa using h x hx

theorem textsNodup_cons {k : Text} {ks : List Text} (h : textsNodup (k :: ks) = true) :
    k ∉ ks ∧ textsNodup ks = true := by
  simp only [textsNodup, Bool.and_eq_true, Bool.not_eq_true', List.contains_eq_mem, decide_eq_false_iff_not] at h
  exact h

theorem decodeHeaders_absent (F : Facts08) (X : FactsXml) (cfg : Cfg) (I : Iface) (hdr : List Node) :
    (hs : List Ty) → (∀ x ∈ hdr, nodeKey x ∉ hs.map headerKey) →
    decodeHeaders F X cfg I hdr hs = .ok (hs.map (fun _ => Val.none))
  | [], _ => by simp [decodeHeaders]
  | h :: hs, hk => by
    have hl : hdrLookup hdr (headerKey h) = none := by
      unfold hdrLookup
      rw [filter_none_of_keys hdr _ (fun x hx e => hk x hx (by simp [e]))]
      rfl
    have ih := decodeHeaders_absent F X cfg I hdr hs (fun x hx hm => hk x hx (by
      simp only [List.map, List.mem_cons]; right; exact hm))
    simp [decodeHeaders, hl, ih]

/-- header round trip -/
theorem decodeHeaders_rt {F : Facts08} {X : FactsXml} {cfg : Cfg} {I : Iface} (C : RtCtx F X cfg I) :
    (hs : List Ty) → (vals : List Val) → (pre : List Node) →
    (∀ x ∈ pre, nodeKey x ∉ hs.map headerKey) → textsNodup (hs.map headerKey) = true →
    (∀ h ∈ hs, isObjTy h = true ∧ tyWf h = true) →
    (∀ p ∈ hs.zip vals, okOneX I cfg.polymorphic cfg.soft p.1 p.2 = true ∧ fitsV F p.2 = true) →
    decodeHeaders F X cfg I (pre ++ headerPairs F cfg I hs vals) hs = .ok (expectHdr I hs vals)
  | [], vals, pre, _, _, _, _ => by cases vals <;> simp [decodeHeaders, expectHdr]
  | h :: hs, [], pre, hpre, _, _, _ => by
    simp only [headerPairs, List.append_nil, expectHdr]
    exact decodeHeaders_absent F X cfg I pre (h :: hs) hpre
  | h :: hs, v :: vs, pre, hpre, hnd, hobj, hok => by
    simp only [List.map] at hnd hpre
    obtain ⟨hknot, hnd'⟩ := textsNodup_cons hnd
    obtain ⟨ho, hw⟩ := hobj h List.mem_cons_self
    cases h with
    | prim p o => simp [isObjTy] at ho
    | arr m e o => simp [isObjTy] at ho
    | obj name ns b fs o =>
      obtain ⟨hokv, hfit⟩ := hok (.obj name ns b fs o, v) (by simp)
      obtain ⟨e, he, hdec⟩ := one_rt C ns name (.obj name ns b fs o) hw v hokv hfit
      have hmem : e ∈ toParent F cfg I ns name (.obj name ns b fs o) v := by rw [he]; exact List.mem_singleton.mpr rfl
      have hkey : nodeKey e = headerKey (.obj name ns b fs o) := by
        simp [nodeKey, headerKey, toParent_ns F cfg I ns name _ v e hmem, (toParent_nodeOk F cfg I ns name _ v e hmem).1]
      have hrestk := headerPairs_keys F cfg I hs vs
      have hl : hdrLookup (pre ++ headerPairs F cfg I (.obj name ns b fs o :: hs) (v :: vs))
          (headerKey (.obj name ns b fs o)) = some e := by
        unfold hdrLookup
        simp only [headerPairs, he, List.filter_append]
        rw [filter_none_of_keys pre _ (fun x hx e' => hpre x hx (by simp [e']))]
        rw [filter_none_of_keys (headerPairs F cfg I hs vs) _ (fun x hx e' => hknot (by rw [← e']; exact hrestk x hx))]
        simp [List.filter, hkey]
      have ih := decodeHeaders_rt C hs vs (pre ++ [e])
        (by
          intro x hx
          rw [List.mem_append] at hx
          rcases hx with hx | hx
          · intro hm; exact hpre x hx (by simp only [List.mem_cons]; right; exact hm)
          · simp only [List.mem_singleton] at hx; subst hx; rw [hkey]; exact hknot)
        hnd' (fun h' hh => hobj h' (List.mem_cons_of_mem _ hh))
        (fun p hp => hok p (by simp only [List.zip_cons_cons, List.mem_cons]; right; exact hp))
      have happ : pre ++ headerPairs F cfg I (.obj name ns b fs o :: hs) (v :: vs) =
          (pre ++ [e]) ++ headerPairs F cfg I hs vs := by
        simp [headerPairs, he]
      rw [decodeHeaders, hl]
      simp only [hdec]
      rw [happ, ih]
      simp [expectHdr]

/-! ### the envelope with a Header -/

theorem headerDoc_envelopeH (ver : Version) (hdr body : List Node) :
    headerDoc ver (envelopeH ver (some hdr) body) = some hdr := by
  have h1 : ("Body".toList = "Header".toList) = False := by decide
  cases ver <;> simp [headerDoc, envelopeH, childrenNamed, Node.children, Node.ns, Node.name, h1]

theorem headerDoc_envelope (ver : Version) (body : List Node) : headerDoc ver (envelope ver body) = none := by
  have h1 : ("Body".toList = "Header".toList) = False := by decide
  cases ver <;> simp [headerDoc, envelope, childrenNamed, Node.children, Node.ns, Node.name, h1]

theorem soapServerDecode_envelopeH (F : Facts08) (X : FactsXml) (S : FactsSoap) (cfg : Cfg) (I : Iface)
    (ver : Version) (ms : Methods) (hdr : List Node) (e : Node)
    (hf : ¬ (e.ns = envNs ver ∧ e.name = "Fault".toList)) :
    soapServerDecode F X S cfg I ver ms (envelopeH ver (some hdr) [e]) = xmlServerDecode F X cfg I ms e := by
  have h1 : ("Body".toList = "Header".toList) = False := by decide
  have h2 : ("Header".toList = "Body".toList) = False := by decide
  cases e with
  | elem ens en ea et ec =>
    simp only [Node.ns, Node.name] at hf
    unfold soapServerDecode
    by_cases a : ens = envNs ver
    · have b : ¬ en = "Fault".toList := fun b => hf ⟨a, b⟩
      simp [envelopeH, childrenNamed, Node.ns, Node.name, Node.children, a, h1, h2]
      intro h
      exact absurd (show en = "Fault".toList from of_decide_eq_true h) b
    · simp [envelopeH, childrenNamed, Node.ns, Node.name, Node.children, a, h1, h2]

/-- Soap11 / Soap12 server with headers: the request written for method `name` with header objects
    `hvals` (for the declared in-header classes `hs`) and arguments `v` is dispatched to `name`,
    `ctx.in_header` holds the header objects (one of them directly, two or more as a list in declared
    order) and the in-object holds the arguments -/
theorem soap_server_rt_headers {F : Facts08} {X : FactsXml} {cfg : Cfg} {I : Iface} (C : RtCtx F X cfg I)
    (S : FactsSoap) (ver : Version) (ms : Methods) (hdrs : Text → Option (List Ty)) (name : Text) (t : Ty)
    (ht : tyWf t = true) (hm : ms.lookup (clark I.tns name) = some t)
    (hnf : ¬ (I.tns = envNs ver ∧ name = "Fault".toList))
    (hs : List Ty) (hh : hdrs (clark I.tns name) = some hs) (hnd : textsNodup (hs.map headerKey) = true)
    (hobj : ∀ h ∈ hs, isObjTy h = true ∧ tyWf h = true) (hvals : List Val)
    (hhok : ∀ p ∈ hs.zip hvals, okOneX I cfg.polymorphic cfg.soft p.1 p.2 = true ∧ fitsV F p.2 = true)
    (v : Val) (hok : okOneX I cfg.polymorphic cfg.soft t v = true) (hfit : fitsV F v = true) :
    ∃ e, toParent F cfg I I.tns name t v = [e] ∧
      soapServerDecodeH F X S cfg I ver ms hdrs (envelopeH ver (some (headerPairs F cfg I hs hvals)) [e]) =
        .ok (clark I.tns name, some (inHeaderValue (expectHdr I hs hvals)), normOneX I t v) := by
  obtain ⟨e, he, hdec⟩ := xml_server_rt C ms name t ht hm v hok hfit
  have hmem : e ∈ toParent F cfg I I.tns name t v := by rw [he]; exact List.mem_singleton.mpr rfl
  have hns := toParent_ns F cfg I I.tns name t v e hmem
  have hnm := (toParent_nodeOk F cfg I I.tns name t v e hmem).1
  refine ⟨e, he, ?_⟩
  have hrt := decodeHeaders_rt C hs hvals [] (by intro x hx; cases hx) hnd hobj hhok
  simp only [List.nil_append] at hrt
  unfold soapServerDecodeH
  rw [soapServerDecode_envelopeH F X S cfg I ver ms _ e (by rw [hns, hnm]; exact hnf), hdec]
  simp only [soapInHeader, headerDoc_envelopeH, hh, hrt]

/-- without a Header element `ctx.in_header` stays None -/
theorem soap_server_rt_no_header {F : Facts08} {X : FactsXml} {cfg : Cfg} {I : Iface} (C : RtCtx F X cfg I)
    (S : FactsSoap) (ver : Version) (ms : Methods) (hdrs : Text → Option (List Ty)) (name : Text) (t : Ty)
    (ht : tyWf t = true) (hm : ms.lookup (clark I.tns name) = some t)
    (hnf : ¬ (I.tns = envNs ver ∧ name = "Fault".toList))
    (v : Val) (hok : okOneX I cfg.polymorphic cfg.soft t v = true) (hfit : fitsV F v = true) :
    ∃ e, toParent F cfg I I.tns name t v = [e] ∧
      soapServerDecodeH F X S cfg I ver ms hdrs (envelope ver [e]) = .ok (clark I.tns name, none, normOneX I t v) := by
  obtain ⟨e, he, hdec⟩ := soap_server_rt C S ver ms name t ht hm hnf v hok hfit
  refine ⟨e, he, ?_⟩
  unfold soapServerDecodeH
  rw [hdec]
  simp [soapInHeader, headerDoc_envelope]

/-- the response direction: whatever form user code gives `ctx.out_header` (one object, a list, a tuple),
    the Header that `serialize` writes is read back by the receiver as those objects -/
theorem out_headers_rt {F : Facts08} {X : FactsXml} {cfg : Cfg} {I : Iface} (C : RtCtx F X cfg I)
    (S : FactsSoap) (hS : S.outHeaderTupleOk = true) (ver : Version) (hs : List Ty)
    (hnd : textsNodup (hs.map headerKey) = true) (hobj : ∀ h ∈ hs, isObjTy h = true ∧ tyWf h = true)
    (out : OutHeader) (hvals : List Val)
    (hout : out = .list hvals ∨ out = .tuple hvals ∨ (∃ v, out = .single v ∧ hvals = [v]))
    (hhok : ∀ p ∈ hs.zip hvals, okOneX I cfg.polymorphic cfg.soft p.1 p.2 = true ∧ fitsV F p.2 = true)
    (body : List Node) :
    headerNodes F S cfg I (some hs) out = .ok (some (headerPairs F cfg I hs hvals)) ∧
    soapInHeader F X cfg I ver (some hs) (envelopeH ver (some (headerPairs F cfg I hs hvals)) body) =
      .ok (some (inHeaderValue (expectHdr I hs hvals))) := by
  have hrt := decodeHeaders_rt C hs hvals [] (by intro x hx; cases hx) hnd hobj hhok
  simp only [List.nil_append] at hrt
  refine ⟨?_, by simp only [soapInHeader, headerDoc_envelopeH, hrt]⟩
  rcases hout with h | h | ⟨v, h, hv⟩
  · subst h; rfl
  · subst h; simp [headerNodes, hS]
  · subst h; subst hv; rfl

end Xml
end SpyneModel
