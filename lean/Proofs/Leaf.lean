/-
  Leaf laws: what the tree-level codec theorems need to know about the primitive text codecs.
  `LeafLaws F` is proved from the C08 lemmas for every `F` with good switches (`leafLaws_good`).
-/
import SpyneModel.Leaf
import Proofs.Prim
import Proofs.Binary
namespace SpyneModel

/-- the facts the C08 theorems need -/
structure Facts08.Good (F : Facts08) : Prop where
  offset : F.offsetRule = .signMagnitude
  frac : F.durFracFmt = .pad6
  dur : F.durParse = .exactDecimal
  bool : F.boolLex = .strict
  anchored : F.anchored = true
  range : F.rangeErrorsAreFaults = true
  msl : ∀ k : IntKind, k.needLen ≤ F.intMaxStrLen k

/-- the canonical text of the value passes the integer length guard (only restricts the
    unbounded `Integer`, whose guard is `max_str_len = 1024`) -/
def leafFits (F : Facts08) : PrimTy → Val → Bool
  | .integer .unbounded _, .int i => decide ((intToText i).length ≤ F.intMaxStrLen .unbounded)
  | _, _ => true

structure LeafLaws (F : Facts08) : Prop where
  /-- writing a conformant value and reading the text back gives the value -/
  roundtrip : ∀ p v, p.valueOk v = true → leafFits F p v = true →
    ∃ s, leafToText F p v = some s ∧ leafFromText F p s = .ok v
  /-- whatever a leaf parser returns is of the declared kind (C04 at the leaves) -/
  sound : ∀ p s v, leafFromText F p s = .ok v → p.kindOk v = true
  /-- on parsed text, the code's two-stage validation decides exactly the declared facets (C05 at the leaves) -/
  soft : ∀ p s v, leafFromText F p s = .ok v →
    (validateString F p s && validateNative p v) = p.valueOk v
  /-- leaf parsers never let a Python exception escape (C10 at the leaves) -/
  nocrash : ∀ p s e, leafFromText F p s ≠ .crash e
  /-- only strings and byte arrays (and an enumeration member spelled "") can have an empty text form -/
  emptyText : ∀ p v, p.valueOk v = true → leafToText F p v = some [] →
    (v = .str [] ∨ v = .bytes [] ∨ v = .enum [])

end SpyneModel
