/-
  C04 (XML part): whatever document arrives, a value that `from_element` returns is None, of the
  declared kind, an instance of the declared class or a registered descendant, or a list of such —
  provided `xsi:type` is checked (`FactsXml.xsiTypeCheck`).
-/
import SpyneModel.XmlSpec
import Proofs.Leaf
namespace SpyneModel
namespace Xml

/-! ### registry lemmas -/

theorem find?_name_of_mem (cs : Registry) (c : ClassDef) (hn : textsNodup (cs.map (·.name)) = true)
    (hc : c ∈ cs) : Registry.find? cs c.name = some c := by
  induction cs with
  | nil => cases hc
  | cons d ds ih =>
    simp only [List.map, textsNodup, Bool.and_eq_true, Bool.not_eq_true'] at hn
    unfold Registry.find?
    simp only [List.find?]
    by_cases hd : d.name = c.name
    · simp only [hd, decide_true]
      cases hc with
      | head => rfl
      | tail _ h =>
        exfalso
        have : (ds.map (·.name)).contains d.name = true := by
          rw [hd]; simp only [List.contains_eq_mem, List.mem_map, decide_eq_true_eq]; exact ⟨c, h, rfl⟩
        rw [this] at hn; exact absurd hn.1 (by simp)
    · simp only [hd, decide_false]
      cases hc with
      | head => exact absurd rfl hd
      | tail _ h => exact ih hn.2 h

theorem ifaceWf_names {I : Iface} (h : ifaceWf I = true) : textsNodup (I.classes.map (·.name)) = true := by
  simp only [ifaceWf, Bool.and_eq_true] at h; exact h.1.1.1

theorem ifaceWf_keys {I : Iface} (h : ifaceWf I = true) :
    textsNodup (I.classes.map (fun c => clark c.ns c.name)) = true := by
  simp only [ifaceWf, Bool.and_eq_true] at h; exact h.1.1.2

theorem ifaceWf_others {I : Iface} (h : ifaceWf I = true) :
    ∀ e ∈ I.others, (match e.2 with | .obj _ _ _ _ _ => false | _ => true) = true := by
  simp only [ifaceWf, Bool.and_eq_true, List.all_eq_true] at h; exact h.1.2

theorem ifaceWf_fields {I : Iface} (h : ifaceWf I = true) :
    ∀ c ∈ I.classes, namesNodup c.fields = true ∧ c.fields.all (fun f => plainName f.1) = true ∧
      wfFields c.fields = true := by
  simp only [ifaceWf, Bool.and_eq_true, List.all_eq_true] at h
  intro c hc
  have := h.2 c hc
  exact ⟨this.1.1, by simpa [List.all_eq_true] using this.1.2, this.2⟩

theorem lookup_class {I : Iface} (hI : ifaceWf I = true) {key : Text} {nt : Ty}
    (h : I.lookup key = some nt) :
    (∃ c, nt = ClassDef.toTy c ∧ I.classes.find? c.name = some c) ∨ I.others.lookup key = some nt := by
  unfold Iface.lookup at h
  split at h
  · rename_i c hc
    left
    refine ⟨c, (Option.some.inj h).symm, ?_⟩
    have hmem := List.mem_of_find?_eq_some hc
    exact find?_name_of_mem _ _ (ifaceWf_names hI) hmem
  · right; exact h

/-! ### state lemmas -/

theorem hasTy_of_one {I : Iface} {t : Ty} {v : Val} (hr : t.occ.repeated = false)
    (h : hasTyOne I t v = true) : hasTy I t v = true := by
  cases v <;> simp_all [hasTy, hasTyOne]

theorem hasTyItems_append {I : Iface} {t : Ty} (l : List Val) (v : Val)
    (hl : hasTyItems I t l = true) (hv : hasTyOne I t v = true) : hasTyItems I t (l ++ [v]) = true := by
  induction l with
  | nil => simp [hasTyItems, hv]
  | cons a l ih =>
    simp only [hasTyItems, Bool.and_eq_true] at hl
    simp [hasTyItems, hl.1, ih hl.2]

theorem hasTyFields_init (I : Iface) (fields : List (Text × Ty)) :
    hasTyFields I fields (initState fields) = true := by
  induction fields with
  | nil => simp [initState, hasTyFields]
  | cons f fs ih =>
    obtain ⟨k, t⟩ := f
    simp only [initState, List.map] at ih ⊢
    simp [hasTyFields, hasTy, ih]

theorem hasTyFields_stSet {I : Iface} (fields : List (Text × Ty)) (st : List (Text × Val)) (k : Text)
    (mt : Ty) (v : Val) (hst : hasTyFields I fields st = true) (hk : lookupField fields k = some mt)
    (hv : hasTy I mt v = true) : hasTyFields I fields (stSet st k v) = true := by
  induction fields generalizing st with
  | nil => simp [lookupField, List.lookup] at hk
  | cons f fs ih =>
    obtain ⟨k0, t0⟩ := f
    cases st with
    | nil => simp [hasTyFields] at hst
    | cons s r =>
      obtain ⟨k0', x⟩ := s
      simp only [hasTyFields, Bool.and_eq_true, decide_eq_true_eq] at hst
      obtain ⟨⟨hk0, hx⟩, hr⟩ := hst
      subst hk0
      simp only [lookupField, List.lookup] at hk
      by_cases hkk : k = k0
      · subst hkk
        simp only [beq_self_eq_true] at hk
        cases hk
        simp [stSet, hasTyFields, hv, hr]
      · have hne : (k == k0) = false := by simp [hkk]
        rw [hne] at hk
        have hkk' : ¬ k0 = k := fun h => hkk h.symm
        simp only [stSet, hkk', if_false, hasTyFields, Bool.and_eq_true, decide_eq_true_eq, true_and, hx]
        exact ih r hr hk

theorem hasTy_stGet {I : Iface} (fields : List (Text × Ty)) (st : List (Text × Val)) (k : Text) (mt : Ty)
    (hst : hasTyFields I fields st = true) (hk : lookupField fields k = some mt) :
    hasTy I mt (stGet st k) = true := by
  induction fields generalizing st with
  | nil => simp [lookupField, List.lookup] at hk
  | cons f fs ih =>
    obtain ⟨k0, t0⟩ := f
    cases st with
    | nil => simp [hasTyFields] at hst
    | cons s r =>
      obtain ⟨k0', x⟩ := s
      simp only [hasTyFields, Bool.and_eq_true, decide_eq_true_eq] at hst
      obtain ⟨⟨hk0, hx⟩, hr⟩ := hst
      subst hk0
      simp only [lookupField, List.lookup] at hk
      by_cases hkk : k = k0
      · subst hkk
        simp only [beq_self_eq_true] at hk
        cases hk
        simp [stGet, List.lookup, hx]
      · have hne : (k == k0) = false := by simp [hkk]
        rw [hne] at hk
        have := ih r hr hk
        simpa [stGet, List.lookup, hne] using this

theorem hasTyFields_stAppend {I : Iface} (fields : List (Text × Ty)) (st : List (Text × Val)) (k : Text)
    (mt : Ty) (v : Val) (hst : hasTyFields I fields st = true) (hk : lookupField fields k = some mt)
    (hrep : mt.occ.repeated = true) (hv : hasTyOne I mt v = true) :
    hasTyFields I fields (stAppend st k v) = true := by
  have hg := hasTy_stGet fields st k mt hst hk
  unfold stAppend
  split
  · rename_i l hl
    rw [hl] at hg
    apply hasTyFields_stSet fields st k mt _ hst hk
    simp only [hasTy, hrep, if_true] at hg ⊢
    exact hasTyItems_append l v hg hv
  · apply hasTyFields_stSet fields st k mt _ hst hk
    simp [hasTy, hrep, hasTyItems, hv]

/-! ### leaves and xsi:type -/

theorem hasTyOne_prim_of_kindOk (I : Iface) (p : PrimTy) (o : Occ) (v : Val) (h : p.kindOk v = true) :
    hasTyOne I (.prim p o) v = true := by
  cases p <;> cases v <;> simp_all [hasTyOne, PrimTy.kindOk]

theorem leafFromElement_sound {F : Facts08} (L : LeafLaws F) (X : FactsXml) (cfg : Cfg) (I : Iface) (p : PrimTy)
    (o : Occ) (text : Option Text) (v : Val) (h : leafFromElement F X cfg p o text = .ok v) :
    hasTyOne I (.prim p o) v = true := by
  unfold leafFromElement at h
  repeat' (first | split at h | (dsimp only at h; split at h))
  all_goals first
    | (cases h; done)
    | (cases h; simp [hasTyOne]; done)
    | (cases h; apply hasTyOne_prim_of_kindOk; simp_all [PrimTy.kindOk]; done)
    | (cases h; apply hasTyOne_prim_of_kindOk; exact L.sound _ _ _ (by assumption))

theorem mem_of_lookup {β : Type} (k : Text) (l : List (Text × β)) (v : β) (h : l.lookup k = some v) :
    ∃ k', (k', v) ∈ l := by
  induction l with
  | nil => simp [List.lookup] at h
  | cons a l ih =>
    obtain ⟨k0, v0⟩ := a
    simp only [List.lookup] at h
    split at h
    · cases h; exact ⟨k0, List.mem_cons_self⟩
    · obtain ⟨k', hk'⟩ := ih h; exact ⟨k', List.mem_cons_of_mem _ hk'⟩

theorem resolveXsi_sound {X : FactsXml} (hX : X.xsiTypeCheck = true) {I : Iface} (hI : ifaceWf I = true)
    {t rt : Ty} {key : Text} (h : resolveXsi X I t key = some rt) :
    rt = t ∨ (∃ dn dns db dfs docc c, t = .obj dn dns db dfs docc ∧ rt = ClassDef.toTy c ∧
                I.classes.find? c.name = some c ∧ I.isSub c.name dn = true) := by
  unfold resolveXsi at h
  split at h
  · cases h
  · rename_i nt hl
    simp only [hX, if_true] at h
    split at h
    · rename_i dn dns db dfs docc nn nns nb nfs nocc
      split at h
      · rename_i hs
        cases h
        rcases lookup_class hI hl with ⟨c, hc, hf⟩ | ho
        · right
          refine ⟨dn, dns, db, dfs, docc, c, rfl, hc, hf, ?_⟩
          have : c.name = nn := by
            simp only [ClassDef.toTy] at hc; injection hc with h1; exact h1.symm
          rw [this]; exact hs
        · exfalso
          obtain ⟨k', hk'⟩ := mem_of_lookup _ _ _ ho
          have := ifaceWf_others hI _ hk'
          simp at this
      · cases h
    · split at h
      · cases h; left; rfl
      · cases h
    · cases h; left; rfl
    · cases h

/-- what `from_element` continues with: the declared type, or (xsi:type) a registered class that
    is the declared class or a descendant -/
def ResolvedFrom (I : Iface) (t rt : Ty) : Prop :=
  rt = t ∨ (∃ dn dns db dfs docc c, t = .obj dn dns db dfs docc ∧ rt = ClassDef.toTy c ∧
              I.classes.find? c.name = some c ∧ I.isSub c.name dn = true)

theorem hasTyOne_obj_of_resolved {I : Iface} {t : Ty} {cname cns : Text} {cb : Option Text}
    {fields : List (Text × Ty)} {o : Occ} (hr : ResolvedFrom I t (.obj cname cns cb fields o))
    (st : List (Text × Val)) (hst : hasTyFields I fields st = true) : hasTyOne I t (.obj cname st) = true := by
  rcases hr with h | ⟨dn, dns, db, dfs, docc, c, ht, hrt, hf, hs⟩
  · subst h; simp [hasTyOne, hst]
  · subst ht
    simp only [ClassDef.toTy] at hrt
    injection hrt with h1 h2 h3 h4 h5
    subst h1; subst h4
    simp [hasTyOne, hs, hf, hst]

theorem hasTyOne_of_resolved_prim {I : Iface} {t : Ty} {p : PrimTy} {o : Occ} (hr : ResolvedFrom I t (.prim p o))
    (v : Val) (h : hasTyOne I (.prim p o) v = true) : hasTyOne I t v = true := by
  rcases hr with h' | ⟨dn, dns, db, dfs, docc, c, ht, hrt, hf, hs⟩
  · subst h'; exact h
  · simp [ClassDef.toTy] at hrt

theorem hasTyOne_of_resolved_arr {I : Iface} {t : Ty} {m : Text} {elem : Ty} {o : Occ}
    (hr : ResolvedFrom I t (.arr m elem o)) (vs : List Val) (h : hasTyItems I elem vs = true) :
    hasTyOne I t (.list vs) = true := by
  rcases hr with h' | ⟨dn, dns, db, dfs, docc, c, ht, hrt, hf, hs⟩
  · subst h'; simp [hasTyOne, h]
  · simp [ClassDef.toTy] at hrt

mutual
  theorem fromElement_sound {F : Facts08} (L : LeafLaws F) {X : FactsXml} (hX : X.xsiTypeCheck = true)
      (cfg : Cfg) {I : Iface} (hI : ifaceWf I = true) (t : Ty) :
      (x : Node) → (v : Val) → fromElement F X cfg I t x = .ok v → hasTyOne I t v = true
    | .elem ns name attrs text children, v, h => by
      unfold fromElement at h
      split at h
      · split at h <;> cases h <;> simp [hasTyOne]
      · dsimp only at h
        -- the resolved type
        generalize hrt : (if cfg.parseXsiType = true then
            (match List.lookup xsiTypeKey attrs with
             | none => some t
             | some key => resolveXsi X I t key) else some t) = rt at h
        have hres : ∀ rt', rt = some rt' → ResolvedFrom I t rt' := by
          intro rt' hrt'
          subst hrt'
          split at hrt
          · split at hrt
            · cases hrt; exact Or.inl rfl
            · exact resolveXsi_sound hX hI hrt
          · cases hrt; exact Or.inl rfl
        split at h
        · cases h
        · exact hasTyOne_of_resolved_prim (hres _ rfl) v (leafFromElement_sound L X cfg I _ _ _ v h)
        · split at h
          · rename_i st hcl
            split at h
            · cases h
            · cases h
              exact hasTyOne_obj_of_resolved (hres _ rfl) st
                (childLoop_sound L hX cfg hI _ children _ st (hasTyFields_init I _) hcl)
          · cases h
          · cases h
        · split at h
          · rename_i vs hal
            cases h
            exact hasTyOne_of_resolved_arr (hres _ rfl) vs (arrayLoop_sound L hX cfg hI _ children vs hal)
          · cases h
          · cases h

  theorem childLoop_sound {F : Facts08} (L : LeafLaws F) {X : FactsXml} (hX : X.xsiTypeCheck = true)
      (cfg : Cfg) {I : Iface} (hI : ifaceWf I = true) (fields : List (Text × Ty)) :
      (cs : List Node) → (st st' : List (Text × Val)) → hasTyFields I fields st = true →
      childLoop F X cfg I fields cs st = .ok st' → hasTyFields I fields st' = true
    | [], st, st', hst, h => by
      simp only [childLoop] at h; cases h; exact hst
    | c :: cs, st, st', hst, h => by
      unfold childLoop at h
      split at h
      · exact childLoop_sound L hX cfg hI fields cs st st' hst h
      · rename_i mt hk
        split at h
        · rename_i v hv
          have hv' := fromElement_sound L hX cfg hI mt c v hv
          split at h
          · cases h
          · refine childLoop_sound L hX cfg hI fields cs _ st' ?_ h
            by_cases hrep : mt.occ.repeated = true
            · simp only [hrep, if_true]
              exact hasTyFields_stAppend fields st _ mt v hst hk hrep hv'
            · simp only [hrep]
              exact hasTyFields_stSet fields st _ mt v hst hk
                (hasTy_of_one (by simpa using hrep) hv')
        · cases h
        · cases h

  theorem arrayLoop_sound {F : Facts08} (L : LeafLaws F) {X : FactsXml} (hX : X.xsiTypeCheck = true)
      (cfg : Cfg) {I : Iface} (hI : ifaceWf I = true) (elem : Ty) :
      (cs : List Node) → (vs : List Val) → arrayLoop F X cfg I elem cs = .ok vs → hasTyItems I elem vs = true
    | [], vs, h => by
      simp only [arrayLoop] at h; cases h; simp [hasTyItems]
    | c :: cs, vs, h => by
      unfold arrayLoop at h
      split at h
      · rename_i v hv
        split at h
        · rename_i ws hws
          cases h
          simp [hasTyItems, fromElement_sound L hX cfg hI elem c v hv,
                arrayLoop_sound L hX cfg hI elem cs ws hws]
        · cases h
        · cases h
      · cases h
      · cases h
end

end Xml
end SpyneModel
