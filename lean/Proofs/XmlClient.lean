/-
  Client argument packing (`RemoteProcedureBase.get_out_object`), result unwrapping (`get_in_object`),
  body styles and multiple return values on top of the round trip.
-/
import Proofs.XmlHeaders
import SpyneModel.Client
namespace SpyneModel
namespace Xml
open Soap Client

/-! ### argument packing -/

theorem packFrom_getElem (C : FactsClient) (hC : C.kwFalsyKept = true) (args : List Val) (kwargs : List (Text × Val)) :
    (fields : List (Text × Ty)) → (off i : Nat) → (k : Text) → (t : Ty) → fields[i]? = some (k, t) →
    (packFrom C args kwargs off fields)[i]? = some (k, (kwargs.lookup k).getD (args.getD (off + i) Val.none))
  | [], _, i, _, _, h => by simp at h
  | (k0, t0) :: fs, off, 0, k, t, h => by
    simp only [List.getElem?_cons_zero, Option.some.injEq, Prod.mk.injEq] at h
    obtain ⟨hk, _⟩ := h
    subst hk
    simp only [packFrom, hC, Bool.true_or, if_true, List.getElem?_cons_zero, Nat.add_zero]
    cases kwargs.lookup k0 <;> rfl
  | (k0, t0) :: fs, off, i + 1, k, t, h => by
    simp only [List.getElem?_cons_succ] at h
    have := packFrom_getElem C hC args kwargs fs (off + 1) i k t h
    have e : off + 1 + i = off + (i + 1) := by omega
    simp only [packFrom, List.getElem?_cons_succ, this, e]

/-- a keyword argument replaces the member it names whatever its value is (0, False, '' … included);
    a member without keyword argument holds the positional argument at its index, or None -/
theorem pack_getElem (C : FactsClient) (hC : C.kwFalsyKept = true) (fields : List (Text × Ty)) (args : List Val)
    (kwargs : List (Text × Val)) (i : Nat) (k : Text) (t : Ty) (h : fields[i]? = some (k, t)) :
    (pack C fields args kwargs)[i]? = some (k, (kwargs.lookup k).getD (args.getD i Val.none)) := by
  have := packFrom_getElem C hC args kwargs fields 0 i k t h
  simpa [pack] using this

theorem packFrom_length (C : FactsClient) (args : List Val) (kwargs : List (Text × Val)) :
    (fields : List (Text × Ty)) → (off : Nat) → (packFrom C args kwargs off fields).length = fields.length
  | [], _ => rfl
  | _ :: fs, off => by simp [packFrom, packFrom_length C args kwargs fs (off + 1)]

/-! ### responses in every body style -/

/-- what the response denotes: the wrapper object, or the bare return value -/
def respValue (S : FactsSoap) (style : Style) (outMsg : Ty) (rets : List Val) : Val :=
  if style.outWrapped then outObject outMsg rets else bareReturn S outMsg (rets.headD .none)

theorem response_rt {F : Facts08} {X : FactsXml} {cfg : Cfg} {I : Iface} (C : RtCtx F X cfg I) (S : FactsSoap)
    (style : Style) (outName : Text) (outMsg : Ty) (ht : tyWf outMsg = true)
    (hw : style.outWrapped = true → isObjTy outMsg = true) (rets : List Val)
    (hok : okOneX I cfg.polymorphic cfg.soft outMsg (respValue S style outMsg rets) = true)
    (hfit : fitsV F (respValue S style outMsg rets) = true) :
    ∃ e, responseNodes F S cfg I style outName outMsg rets = [e] ∧
      fromElement F X cfg I outMsg e = .ok (normOneX I outMsg (respValue S style outMsg rets)) := by
  unfold responseNodes
  by_cases hs : style.outWrapped = true
  · simp only [hs, if_true]
    have ho := hw hs
    cases outMsg with
    | prim p o => simp [isObjTy] at ho
    | arr m e o => simp [isObjTy] at ho
    | obj name ns b fs o =>
      simp only [respValue, hs, if_true] at hok hfit ⊢
      exact one_rt C I.tns name _ ht _ hok hfit
  · have hs' : style.outWrapped = false := by simpa using hs
    simp only [hs']
    simp only [respValue, hs'] at hok hfit ⊢
    exact one_rt C I.tns outName outMsg ht _ hok hfit

end Xml
end SpyneModel
