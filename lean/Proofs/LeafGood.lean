/-
  `leafLaws_good`: the leaf laws hold for every `F` whose switches have their good values.
-/
import Proofs.Leaf
namespace SpyneModel

theorem timeFromText_valid (F : Facts08) (s : Text) (t : Time) (h : timeFromText F s = .ok t) : t.valid = true := by
  unfold timeFromText at h
  have key : ∀ t', timeCtor F t' = .ok t → t.valid = true := by
    intro t' h'
    unfold timeCtor at h'
    split at h'
    · injection h' with e; subst e; assumption
    · split at h' <;> cases h'
  split at h
  · cases h
  · split at h
    · split at h
      · exact key _ h
      · split at h
        · exact key _ h
        · cases h
    · exact key _ h

theorem dateFromText_valid (F : Facts08) (s : Text) (d : Date) (h : dateFromText F s = .ok d) : d.valid = true := by
  unfold dateFromText at h
  split at h
  · rename_i x hx
    injection h with e; subst e
    unfold strptimeDate at hx
    repeat (split at hx <;> try cases hx)
    assumption
  · split at h
    · cases h
    · split at h
      · split at h
        · cases h
        · split at h
          · injection h with e; subst e; assumption
          · split at h <;> cases h
      · cases h


theorem offsetValue_bound (F : Facts08) (hF : F.offsetRule = .signMagnitude) (neg : Bool) (hh mm : Nat)
    (h1 : hh ≤ 23) (h2 : mm ≤ 59) : -1440 < offsetValue F neg hh mm ∧ offsetValue F neg hh mm < 1440 := by
  unfold offsetValue; rw [hF]; cases neg <;> simp <;> omega

theorem dateTimeFromText_valid (F : Facts08) (hF : F.offsetRule = .signMagnitude) (s : Text) (x : DateTime)
    (h : dateTimeFromText F s = .ok x) : x.valid = true := by
  unfold dateTimeFromText at h
  split at h
  · cases h
  · split at h
    · split at h
      · split at h
        · cases h
        · dsimp only at h
          split at h
          · -- Z
            split at h
            · split at h
              · injection h with e; subst e; simp_all [DateTime.valid]
              · split at h <;> cases h
            · cases h
          · split at h
            · -- offset
              split at h
              · split at h
                · cases h
                · split at h
                  · injection h with e; subst e
                    rename_i hh mm _ _ _ hb hv
                    simp at hb
                    have := offsetValue_bound F hF (by assumption) hh mm (by omega) (by omega)
                    simp_all [DateTime.valid]
                  · split at h <;> cases h
              · cases h
            · -- local
              split at h
              · split at h
                · injection h with e; subst e; simp_all [DateTime.valid]
                · split at h <;> cases h
              · cases h
      · cases h
    · cases h


theorem durFromText_range (F : Facts08) (s : Text) (us : Int) (h : durFromText F s = .ok us) :
    -86399999913600000000 ≤ us ∧ us ≤ 86399999999999999999 := by
  unfold durFromText at h
  split at h
  · cases h
  · split at h
    · cases h
    · dsimp only at h
      split at h
      · cases h
      · split at h
        · cases h
        · injection h with e; subst e
          rename_i l _ h1 h2
          simp [maxDurUs, usPerDay, usPerSec] at h1 h2
          split
          · rename_i hn; simp [hn] at h2; omega
          · omega

theorem hexVal_lt : ∀ c x, hexVal? c = some x → x < 16 := by
  intro c x h
  unfold hexVal? at h
  simp at h
  split at h
  · injection h with e; omega
  · split at h
    · injection h with e; omega
    · split at h
      · injection h with e; omega
      · cases h

theorem hexdec_bytes (s : Text) (bs : List Nat) (h : hexdec s = some bs) : bs.all (fun b => decide (b < 256)) = true := by
  fun_induction hexdec s generalizing bs with
  | case1 => injection h with e; subst e; rfl
  | case2 => cases h
  | case3 a b r x y bs' hx hy hr ih =>
    injection h with e; subst e
    have := hexVal_lt a x (by assumption)
    have := hexVal_lt b y (by assumption)
    have := ih bs' (by assumption)
    simp_all
    omega
  | case4 => cases h


theorem bytesOk_of_all (bs : List Nat) (h : bs.all (fun b => decide (b < 256)) = true) : bytesOk bs := by
  intro b hb; simp at h; exact h b hb

theorem boolFromText_boolToText (F : Facts08) (b : Bool) : boolFromText F (boolToText b) = .ok b := by
  have e1 : ("true".toList.map asciiLower) = "true".toList := by decide
  have e2 : ("false".toList.map asciiLower) = "false".toList := by decide
  have n1 : ("false".toList = "true".toList) = False := by decide
  have n2 : ("false".toList = "1".toList) = False := by decide
  cases b
  · simp only [boolToText, Bool.false_eq_true, if_false, boolFromText, e2, n1, n2, decide_false, Bool.or_self,
      decide_true, Bool.true_or, if_true]
  · simp only [boolToText, if_true, boolFromText, e1, decide_true, Bool.true_or]

theorem leaf_roundtrip (F : Facts08) (G : F.Good) (p : PrimTy) (v : Val)
    (h : p.valueOk v = true) (hf : leafFits F p v = true) :
    ∃ s, leafToText F p v = some s ∧ leafFromText F p s = .ok v := by
  cases p with
  | integer k r =>
    cases v <;> simp [PrimTy.valueOk] at h
    rename_i i
    refine ⟨intToText i, rfl, ?_⟩
    have : intFromText F k (intToText i) = .ok i := by
      cases k
      case unbounded =>
        simp [leafFits] at hf
        exact intFromText_intToText F _ i hf
      all_goals
        simp [IntKind.lo, IntKind.hi] at h
        refine intFromText_intToText F _ i (Nat.le_trans (intText_length_bounded _ i _ _ rfl rfl h.1.1 h.1.2) (G.msl _))
    simp [leafFromText, this, Outcome.map]
  | boolean =>
    cases v <;> simp [PrimTy.valueOk] at h
    rename_i b
    refine ⟨boolToText b, rfl, ?_⟩
    simp [leafFromText, boolFromText_boolToText, Outcome.map]
  | unicode a b c d =>
    cases v <;> simp [PrimTy.valueOk] at h
    exact ⟨_, rfl, by simp [leafFromText]⟩
  | date =>
    cases v <;> simp [PrimTy.valueOk] at h
    exact ⟨_, rfl, by simp [leafFromText, dateFromText_isoDate F _ h, Outcome.map]⟩
  | time =>
    cases v <;> simp [PrimTy.valueOk] at h
    exact ⟨_, rfl, by simp [leafFromText, timeFromText_isoTime F _ h, Outcome.map]⟩
  | dateTime =>
    cases v <;> simp [PrimTy.valueOk] at h
    exact ⟨_, rfl, by simp [leafFromText, dateTimeFromText_isoDateTime F G.offset _ h, Outcome.map]⟩
  | duration =>
    cases v <;> simp [PrimTy.valueOk] at h
    exact ⟨_, rfl, by simp [leafFromText, durFromText_durToText F G.frac G.dur _ h.1 h.2, Outcome.map]⟩
  | bytes enc =>
    cases v <;> simp [PrimTy.valueOk] at h
    rename_i bs
    have hb : bytesOk bs := h
    cases enc
    · exact ⟨_, rfl, by simp [leafFromText, b64dec_b64enc false bs hb, optToOutcome, Outcome.map]⟩
    · exact ⟨_, rfl, by simp [leafFromText, hexdec_hexenc bs hb, optToOutcome, Outcome.map]⟩
    · exact ⟨_, rfl, by simp [leafFromText, b64dec_b64enc true bs hb, optToOutcome, Outcome.map]⟩
  | enum names =>
    cases v <;> simp [PrimTy.valueOk] at h
    exact ⟨_, rfl, by simp [leafFromText, h]⟩



theorem Outcome.map_ok {α β} (f : α → β) (o : Outcome α) (b : β) (h : o.map f = .ok b) : ∃ a, o = .ok a ∧ f a = b := by
  cases o <;> simp [Outcome.map] at h
  exact ⟨_, rfl, h⟩

theorem optToOutcome_ok {α} (o : Option α) (a : α) (h : optToOutcome o = .ok a) : o = some a := by
  cases o <;> simp [optToOutcome] at h; simp [h]

theorem leaf_sound (F : Facts08) (p : PrimTy) (s : Text) (v : Val) (h : leafFromText F p s = .ok v) :
    p.kindOk v = true := by
  cases p with
  | bytes enc =>
    cases enc <;> (simp only [leafFromText] at h; obtain ⟨a, _, rfl⟩ := Outcome.map_ok _ _ _ h; rfl)
  | enum names =>
    simp only [leafFromText] at h
    split at h
    · injection h with e; subst e; simp_all [PrimTy.kindOk]
    · cases h
  | unicode a b c d => simp only [leafFromText] at h; injection h with e; subst e; rfl
  | _ => simp only [leafFromText] at h; obtain ⟨a, _, rfl⟩ := Outcome.map_ok _ _ _ h; rfl

theorem intFromText_len (F : Facts08) (k : IntKind) (s : Text) (i : Int) (h : intFromText F k s = .ok i) :
    s.length ≤ F.intMaxStrLen k := by
  unfold intFromText at h
  split at h
  · cases h
  · omega

theorem leaf_soft (F : Facts08) (G : F.Good) (p : PrimTy) (s : Text) (v : Val) (h : leafFromText F p s = .ok v) :
    (validateString F p s && validateNative p v) = p.valueOk v := by
  cases p with
  | integer k r =>
    simp only [leafFromText] at h; obtain ⟨i, hi, rfl⟩ := Outcome.map_ok _ _ _ h
    have := intFromText_len F k s i hi
    simp only [validateString, validateNative, PrimTy.valueOk, this, decide_true, Bool.true_and]
    cases r.holds i <;> simp <;> rfl
  | boolean =>
    simp only [leafFromText] at h; obtain ⟨i, hi, rfl⟩ := Outcome.map_ok _ _ _ h; rfl
  | unicode a b c d =>
    simp only [leafFromText] at h; injection h with e; subst e
    simp only [validateString, validateNative, PrimTy.valueOk, Bool.and_assoc]
    rfl
  | date =>
    simp only [leafFromText] at h; obtain ⟨d, hd, rfl⟩ := Outcome.map_ok _ _ _ h
    simp [validateString, validateNative, PrimTy.valueOk, dateFromText_valid F s d hd]
  | time =>
    simp only [leafFromText] at h; obtain ⟨d, hd, rfl⟩ := Outcome.map_ok _ _ _ h
    simp [validateString, validateNative, PrimTy.valueOk, timeFromText_valid F s d hd]
  | dateTime =>
    simp only [leafFromText] at h; obtain ⟨d, hd, rfl⟩ := Outcome.map_ok _ _ _ h
    simp [validateString, validateNative, PrimTy.valueOk, dateTimeFromText_valid F G.offset s d hd]
  | duration =>
    simp only [leafFromText] at h; obtain ⟨d, hd, rfl⟩ := Outcome.map_ok _ _ _ h
    have := durFromText_range F s d hd
    simp [validateString, validateNative, PrimTy.valueOk, this.1, this.2]
  | bytes enc =>
    cases enc <;> (simp only [leafFromText] at h; obtain ⟨bs, hb, rfl⟩ := Outcome.map_ok _ _ _ h
                   have hb' := optToOutcome_ok _ _ hb)
    · simpa [validateString, validateNative, PrimTy.valueOk] using (by simpa using b64dec_bytes false s bs hb')
    · simpa [validateString, validateNative, PrimTy.valueOk] using (by simpa using hexdec_bytes s bs hb')
    · simpa [validateString, validateNative, PrimTy.valueOk] using (by simpa using b64dec_bytes true s bs hb')
  | enum names =>
    simp only [leafFromText] at h
    split at h
    · injection h with e; subst e; simp_all [validateString, validateNative, PrimTy.valueOk]
    · cases h



theorem Outcome.map_crash {α β} (f : α → β) (o : Outcome α) (e : String) (h : o.map f = .crash e) : o = .crash e := by
  cases o <;> simp [Outcome.map] at h; simp [h]

theorem intFromText_nocrash (F : Facts08) (k : IntKind) (s : Text) (e : String) : intFromText F k s ≠ .crash e := by
  unfold intFromText; split
  · simp
  · split <;> simp

theorem boolFromText_nocrash (F : Facts08) (hB : F.boolLex = .strict) (s : Text) (e : String) :
    boolFromText F s ≠ .crash e := by
  unfold boolFromText; rw [hB]; dsimp only; split
  · simp
  · split <;> simp

theorem timeCtor_nocrash (F : Facts08) (hR : F.rangeErrorsAreFaults = true) (t : Time) (e : String) :
    timeCtor F t ≠ .crash e := by
  unfold timeCtor; rw [hR]; split <;> simp

theorem timeFromText_nocrash (F : Facts08) (hR : F.rangeErrorsAreFaults = true) (s : Text) (e : String) :
    timeFromText F s ≠ .crash e := by
  unfold timeFromText
  split
  · simp
  · split
    · split
      · exact timeCtor_nocrash F hR _ e
      · split
        · exact timeCtor_nocrash F hR _ e
        · simp
    · exact timeCtor_nocrash F hR _ e

theorem dateFromText_nocrash (F : Facts08) (hR : F.rangeErrorsAreFaults = true) (s : Text) (e : String) :
    dateFromText F s ≠ .crash e := by
  unfold dateFromText; rw [hR]
  split
  · simp
  · split
    · simp
    · split
      · split
        · simp
        · split <;> simp
      · simp

theorem dateTimeFromText_nocrash (F : Facts08) (hR : F.rangeErrorsAreFaults = true) (s : Text) (e : String) :
    dateTimeFromText F s ≠ .crash e := by
  unfold dateTimeFromText; rw [hR]
  split
  · simp
  · split
    · split
      · split
        · simp
        · dsimp only
          split
          · split
            · split <;> simp
            · simp
          · split
            · split
              · split
                · simp
                · split <;> simp
              · simp
            · split
              · split <;> simp
              · simp
      · simp
    · simp

theorem durFromText_nocrash (F : Facts08) (hD : F.durParse = .exactDecimal) (s : Text) (e : String) :
    durFromText F s ≠ .crash e := by
  unfold durFromText; rw [hD]; dsimp only
  split
  · simp
  · split
    · simp
    · split <;> simp


theorem optToOutcome_nocrash {α} (o : Option α) (e : String) : optToOutcome o ≠ .crash e := by
  cases o <;> simp [optToOutcome]

theorem leaf_nocrash (F : Facts08) (G : F.Good) (p : PrimTy) (s : Text) (e : String) : leafFromText F p s ≠ .crash e := by
  intro h
  cases p with
  | integer k r => simp only [leafFromText] at h; exact intFromText_nocrash F k s e (Outcome.map_crash _ _ _ h)
  | boolean => simp only [leafFromText] at h; exact boolFromText_nocrash F G.bool s e (Outcome.map_crash _ _ _ h)
  | unicode a b c d => simp [leafFromText] at h
  | date => simp only [leafFromText] at h; exact dateFromText_nocrash F G.range s e (Outcome.map_crash _ _ _ h)
  | time => simp only [leafFromText] at h; exact timeFromText_nocrash F G.range s e (Outcome.map_crash _ _ _ h)
  | dateTime => simp only [leafFromText] at h; exact dateTimeFromText_nocrash F G.range s e (Outcome.map_crash _ _ _ h)
  | duration => simp only [leafFromText] at h; exact durFromText_nocrash F G.dur s e (Outcome.map_crash _ _ _ h)
  | bytes enc =>
    cases enc <;> (simp only [leafFromText] at h; exact optToOutcome_nocrash _ e (Outcome.map_crash _ _ _ h))
  | enum names => simp only [leafFromText] at h; split at h <;> cases h

theorem natText_ne_nil' (n : Nat) : natText n ≠ [] := natText_ne_nil n

theorem leaf_emptyText (F : Facts08) (p : PrimTy) (v : Val) (h : p.valueOk v = true)
    (he : leafToText F p v = some []) : v = .str [] ∨ v = .bytes [] ∨ v = .enum [] := by
  cases p with
  | integer k r =>
    cases v <;> simp [PrimTy.valueOk] at h
    simp [leafToText, intToText, intText] at he
    split at he
    · cases he
    · exact absurd he (natText_ne_nil _)
  | boolean =>
    cases v <;> simp [PrimTy.valueOk] at h
    rename_i b; cases b <;> simp [leafToText, boolToText] at he
  | unicode a b c d =>
    cases v <;> simp [PrimTy.valueOk] at h
    simp [leafToText] at he; simp [he]
  | date => cases v <;> simp [PrimTy.valueOk] at h; simp [leafToText, isoDate, pad4] at he
  | time => cases v <;> simp [PrimTy.valueOk] at h; simp [leafToText, isoTime, pad2] at he
  | dateTime => cases v <;> simp [PrimTy.valueOk] at h; simp [leafToText, isoDateTime, isoDate, pad4] at he
  | duration =>
    cases v <;> simp [PrimTy.valueOk] at h
    simp only [leafToText, Option.some.injEq] at he
    unfold durToText at he
    dsimp only at he
    split at he
    · split at he <;> simp at he
    · split at he
      · split at he <;> simp at he
      · split at he <;> simp at he
  | bytes enc =>
    cases v <;> simp [PrimTy.valueOk] at h
    rename_i bs
    cases bs with
    | nil => simp
    | cons b bs =>
      cases enc <;> simp [leafToText, hexenc] at he
      all_goals (cases bs with
        | nil => simp [b64enc] at he
        | cons c cs => cases cs <;> simp [b64enc] at he)
  | enum names =>
    cases v <;> simp [PrimTy.valueOk] at h
    simp [leafToText] at he; simp [he]

/-- the leaf laws hold whenever the measured switches have their good values -/
theorem leafLaws_good (F : Facts08) (G : F.Good) : LeafLaws F where
  roundtrip := leaf_roundtrip F G
  sound := leaf_sound F
  soft := leaf_soft F G
  nocrash := leaf_nocrash F G
  emptyText := leaf_emptyText F

end SpyneModel
