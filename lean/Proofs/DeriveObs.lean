/-
  C15 proofs, part 3: what the frame means for observations.
-/
import Proofs.DeriveFrame
namespace SpyneModel.Derive

/-- a public lookup only reads the public parts of records at or below its starting point -/
theorem chainF_pub (attrs attrs' : List AttrRec) (k : String) (fuel : Nat) :
    ∀ a, (∀ x, x ≤ a → (attrs'[x]?).map AttrRec.pub = (attrs[x]?).map AttrRec.pub) →
      (chainF attrs' (fun r => kwLookup r.own k) fuel a).map (·.2)
        = (chainF attrs (fun r => kwLookup r.own k) fuel a).map (·.2) := by
  induction fuel with
  | zero => intro a _; simp [chainF]
  | succ fuel ih =>
    intro a hpub
    have ha := hpub a (Nat.le_refl _)
    simp only [chainF]
    cases h1 : attrs[a]? with
    | none =>
      cases h2 : attrs'[a]? with
      | none => rfl
      | some r' => simp [h1, h2] at ha
    | some r =>
      cases h2 : attrs'[a]? with
      | none => simp [h1, h2] at ha
      | some r' =>
        simp only [h1, h2, Option.map_some, AttrRec.pub, Option.some.injEq, Prod.mk.injEq] at ha
        obtain ⟨ho, hp⟩ := ha
        simp only [ho, hp]
        cases kwLookup r.own k with
        | some v => rfl
        | none =>
          simp only
          cases r.parent with
          | none => rfl
          | some p =>
            simp only
            split
            · rename_i hlt
              exact ih p (fun x hx => hpub x (by omega))
            · rfl

theorem attrAt_ext {n na : Nat} {T : List Nat} {h h' : Heap} (e : Ext n na T h h') (a : Nat) (ha : a < na)
    (k : String) : attrAt h' a k = attrAt h a k := by
  unfold attrAt chain chainH
  exact chainF_pub h.attrs h'.attrs k (a + 1) a (fun x hx => e.attrs x (by omega))

/-- shallow observation of a class whose record did not change, when its `Attributes` lie in the base region -/
theorem obs1_ext (F : Facts15) {n na : Nat} {T : List Nat} {h h' : Heap} (e : Ext n na T h h')
    (c : Nat) (hc : c < n) (ht : c ∉ T) (hr : ∀ cl, h.cls[c]? = some cl → cl.attrs < na) :
    obs1 F h' c = obs1 F h c := by
  unfold obs1
  rw [e.cls c hc ht]
  cases hcl : h.cls[c]? with
  | none => rfl
  | some cl =>
    have ha := hr cl hcl
    have hat : ∀ k, attrAt h' cl.attrs k = attrAt h cl.attrs k := fun k => attrAt_ext e _ ha k
    simp only [verdicts, hat]

end SpyneModel.Derive

namespace SpyneModel.Derive

/-- operations that only derive (everything except append_field / insert_field) -/
def Op.derives : Op → Bool
  | .append .. => false
  | .insert .. => false
  | _ => true

theorem good_opProg_derive (F : Facts15) (hF : F.mandRule = .copies) (fuel : Nat) (op : Op) (hop : op.derives = true)
    (n na : Nat) : Good n na [] (opProg F fuel op) (fun r => ∀ id, r = some id → n ≤ id) := by
  cases op with
  | customize src kw ca caa =>
    simp only [opProg]
    refine Good.bind (Good.getCls _) (fun sc _ => ?_)
    split
    · exact Good.map _ (good_custComplex _ _ _ _ _ _) (fun a ha id e => by cases e; exact ha)
    · exact Good.map _ (good_customizeAny _ _ _ _) (fun a ha id e => by cases e; exact ha)
  | array src member kw flat iter =>
    exact Good.map _ (good_arrayOp _ _ _ _ _ _ _) (fun a ha id e => by cases e; exact ha)
  | mandatory src =>
    exact Good.map _ ((goodMand F hF fuel).mandatory src) (fun a ha id e => by cases e; exact ha)
  | subclass base name ns fields perm =>
    exact Good.map _ (good_subclassOp _ _ _ _ _ _) (fun a ha id e => by cases e; exact ha)
  | append c name t => simp [Op.derives] at hop
  | insert c idx name t => simp [Op.derives] at hop
  | xmlattr src =>
    exact Good.map _ (good_xmlattrOp _ _) (fun a ha id e => by cases e; exact ha)

/-- a deriving operation changes no existing class and no public attribute of an existing `Attributes` -/
theorem derive_ext (F : Facts15) (hF : F.mandRule = .copies) (fuel : Nat) (h : Heap) (op : Op)
    (hop : op.derives = true) : Ext h.cls.length h.attrs.length [] h (apply F fuel h op).heap :=
  (good_opProg_derive F hF fuel op hop _ _ h (Nat.le_refl _) (Nat.le_refl _)).1

theorem derive_new_id (F : Facts15) (hF : F.mandRule = .copies) (fuel : Nat) (h h' : Heap) (op : Op)
    (hop : op.derives = true) (id : Nat) (hr : apply F fuel h op = .ok h' (some id)) : h.cls.length ≤ id :=
  (good_opProg_derive F hF fuel op hop _ _ h (Nat.le_refl _) (Nat.le_refl _)).2 h' (some id) hr id rfl

end SpyneModel.Derive
