/-
  C15 proofs, part 3: what the frame means for observations.
-/
import Proofs.DeriveFrame
namespace SpyneModel.Derive

/-- a lookup that only reads public parts only depends on the public parts of the records at or below its
    starting point -/
theorem chainF_pubsel {α : Type} (attrs attrs' : List AttrRec) (sel : AttrRec → Option α)
    (hsel : ∀ r r' : AttrRec, r.pub = r'.pub → sel r = sel r') (fuel : Nat) :
    ∀ a, (∀ x, x ≤ a → (attrs'[x]?).map AttrRec.pub = (attrs[x]?).map AttrRec.pub) →
      chainF attrs' sel fuel a = chainF attrs sel fuel a := by
  induction fuel with
  | zero => intro a _; simp [chainF]
  | succ fuel ih =>
    intro a hpub
    have ha := hpub a (Nat.le_refl _)
    simp only [chainF]
    cases h1 : attrs[a]? with
    | none =>
      cases h2 : attrs'[a]? with
      | none => rfl
      | some r' => simp [h1, h2] at ha
    | some r =>
      cases h2 : attrs'[a]? with
      | none => simp [h1, h2] at ha
      | some r' =>
        simp only [h1, h2, Option.map_some, Option.some.injEq] at ha
        have hs := hsel r' r ha
        have hp : r'.parent = r.parent := by
          have := congrArg (fun p => p.2.1) ha
          simpa [AttrRec.pub] using this
        simp only [hs, hp]
        cases sel r with
        | some v => rfl
        | none =>
          simp only
          cases r.parent with
          | none => rfl
          | some p =>
            simp only
            split
            · rename_i hlt
              exact ih p (fun x hx => hpub x (by omega))
            · rfl

theorem chainF_pub (attrs attrs' : List AttrRec) (k : String) (fuel : Nat) :
    ∀ a, (∀ x, x ≤ a → (attrs'[x]?).map AttrRec.pub = (attrs[x]?).map AttrRec.pub) →
      (chainF attrs' (fun r => kwLookup r.own k) fuel a).map (·.2)
        = (chainF attrs (fun r => kwLookup r.own k) fuel a).map (·.2) := by
  intro a h
  rw [chainF_pubsel attrs attrs' (fun r => kwLookup r.own k) (fun r r' e => by
    have : r.own = r'.own := by
      have := congrArg (fun p => p.1) e
      simpa [AttrRec.pub] using this
    simp only [this]) fuel a h]

theorem attrAt_ext {n na : Nat} {T : List Nat} {h h' : Heap} (e : Ext n na T h h') (a : Nat) (ha : a < na)
    (k : String) : attrAt h' a k = attrAt h a k := by
  unfold attrAt chain chainH
  exact chainF_pub h.attrs h'.attrs k (a + 1) a (fun x hx => e.attrs x (by omega))

theorem colSel_pub (r r' : AttrRec) (e : r.pub = r'.pub) : colSel r = colSel r' := by
  have h1 : r.colArgs = r'.colArgs := by
    have := congrArg (fun p => p.2.2.1) e
    simpa [AttrRec.pub] using this
  have h2 : r.colRef = r'.colRef := by
    have := congrArg (fun p => p.2.2.2) e
    simpa [AttrRec.pub] using this
  simp only [colSel, h1, h2]

/-- the resolved `sqla_column_args` of an existing record is part of the frame -/
theorem colH_ext {n na : Nat} {T : List Nat} {h h' : Heap} (e : Ext n na T h h') (a : Nat) (ha : a < na) :
    colH h' a = colH h a := by
  unfold colH chainH
  rw [chainF_pubsel h.attrs h'.attrs colSel colSel_pub (a + 1) a (fun x hx => e.attrs x (by omega))]
  cases hch : chainF h.attrs colSel (a + 1) a with
  | none => rfl
  | some p =>
    obtain ⟨via, v⟩ := p
    cases v with
    | inl d => rfl
    | inr x =>
      simp only
      split
      · rename_i hlt
        -- the walk only visits records at or below its start
        have hvia : via ≤ a := by
          have : ∀ fuel s, chainF h.attrs colSel fuel s = some (via, Sum.inr x) → via ≤ s := by
            intro fuel
            induction fuel with
            | zero => intro s hs; simp [chainF] at hs
            | succ fuel ih =>
              intro s hs
              simp only [chainF] at hs
              cases hrec : h.attrs[s]? with
              | none => simp [hrec] at hs
              | some r =>
                simp only [hrec] at hs
                cases hsel : colSel r with
                | some v => simp [hsel] at hs; omega
                | none =>
                  simp only [hsel] at hs
                  cases hpar : r.parent with
                  | none => simp [hpar] at hs
                  | some p =>
                    simp only [hpar] at hs
                    split at hs
                    · have := ih p hs; omega
                    · cases hs
          exact this (a + 1) a hch
        have hx := e.attrs x (by omega)
        cases h1 : h.attrs[x]? with
        | none =>
          cases h2 : h'.attrs[x]? with
          | none => rfl
          | some r' => simp [h1, h2] at hx
        | some r =>
          cases h2 : h'.attrs[x]? with
          | none => simp [h1, h2] at hx
          | some r' =>
            simp only [h1, h2, Option.map_some, Option.some.injEq] at hx
            have : r'.colArgs = r.colArgs := by
              have := congrArg (fun p => p.2.2.1) hx
              simpa [AttrRec.pub] using this
            simp only [this]
      · rfl

/-- shallow observation of a class whose record did not change, when its `Attributes` lie in the base region -/
theorem obs1_ext (F : Facts15) {n na : Nat} {T : List Nat} {h h' : Heap} (e : Ext n na T h h')
    (c : Nat) (hc : c < n) (ht : c ∉ T) (hr : ∀ cl, h.cls[c]? = some cl → cl.attrs < na) :
    obs1 F h' c = obs1 F h c := by
  unfold obs1
  rw [e.cls c hc ht]
  cases hcl : h.cls[c]? with
  | none => rfl
  | some cl =>
    have ha := hr cl hcl
    have hat : ∀ k, attrAt h' cl.attrs k = attrAt h cl.attrs k := fun k => attrAt_ext e _ ha k
    have hfun : attrAt h' cl.attrs = attrAt h cl.attrs := funext hat
    simp only [verdicts, hfun, hat, colH_ext e _ ha]

end SpyneModel.Derive

namespace SpyneModel.Derive

/-- operations that only derive (everything except append_field / insert_field) -/
def Op.derives : Op → Bool
  | .append .. => false
  | .insert .. => false
  | .subclass .. => false      -- (a class statement registers with the class it extends)
  | _ => true

theorem good_opProg_derive (F : Facts15) [DeepCopy F] (hF : F.mandRule = .copies) (fuel : Nat) (op : Op) (hop : op.derives = true)
    (n na : Nat) : Good n na [] (opProg F fuel op) (fun r => ∀ id, r = some id → n ≤ id) := by
  cases op with
  | customize src kw ca caa prot nx sa =>
    simp only [opProg]
    refine Good.bind (Good.getCls _) (fun sc _ => ?_)
    refine Good.bind (good_protMerge F prot kw) (fun kwE _ => ?_)
    split
    · split
      · split
        · exact Good.map _ (good_arraySA _ _ _ _ _ _ _) (fun a ha id e => by cases e; exact ha)
        · exact Good.map _ (good_custComplex _ _ _ _ _ _) (fun a ha id e => by cases e; exact ha)
      · exact Good.map _ (good_custComplex _ _ _ _ _ _) (fun a ha id e => by cases e; exact ha)
    · exact Good.map _ (good_customizeAny _ _ _ _) (fun a ha id e => by cases e; exact ha)
  | array src member kw flat iter =>
    exact Good.map _ (good_arrayOp _ _ _ _ _ _ _) (fun a ha id e => by cases e; exact ha)
  | mandatory src =>
    exact Good.map _ ((goodMand F hF fuel).mandatory src) (fun a ha id e => by cases e; exact ha)
  | subclass base name ns fields perm attrs mixins asMixin => simp [Op.derives] at hop
  | append c name t => simp [Op.derives] at hop
  | insert c idx name t => simp [Op.derives] at hop
  | xmlattr src =>
    exact Good.map _ (good_xmlattrOp _ _) (fun a ha id e => by cases e; exact ha)

/-- a deriving operation changes no existing class and no public attribute of an existing `Attributes` -/
theorem derive_ext (F : Facts15) [DeepCopy F] (hF : F.mandRule = .copies) (fuel : Nat) (h : Heap) (op : Op)
    (hop : op.derives = true) : Ext h.cls.length h.attrs.length [] h (apply F fuel h op).heap :=
  (good_opProg_derive F hF fuel op hop _ _ h (Nat.le_refl _) (Nat.le_refl _)).1

theorem derive_new_id (F : Facts15) [DeepCopy F] (hF : F.mandRule = .copies) (fuel : Nat) (h h' : Heap) (op : Op)
    (hop : op.derives = true) (id : Nat) (hr : apply F fuel h op = .ok h' (some id)) : h.cls.length ≤ id :=
  (good_opProg_derive F hF fuel op hop _ _ h (Nat.le_refl _) (Nat.le_refl _)).2 h' (some id) hr id rfl

end SpyneModel.Derive
