/-
  Shape of what `_get_members_etree` writes for a class with element, attribute and data members:
  the three projections of `membersA` (child elements, attributes, text) and the schema-independent facts
  "an attribute / data member never appears as a child element, an element member never as an attribute".
-/
import SpyneModel.XmlAttrSpec
import Proofs.XmlBasic
namespace SpyneModel
namespace Xml

def fieldNamesA (fs : List (Text × MKind × TyA)) : List Text := fs.map (·.1)

def namesOfKind (kind : MKind) (fs : List (Text × MKind × TyA)) : List Text :=
  (fs.filter (fun f => f.2.1 = kind)).map (·.1)

/-- the elements written for one element member -/
def memberNodesA (F : Facts08) (tns cns k : Text) (t : TyA) (v : Val) : List Node :=
  match v with
  | .none => if t.occ.minOccurs > 0 then [nilElem cns k] else []
  | .list items =>
    if t.occ.repeated then itemsA F tns cns k t items
    else (match t with
          | .arr member elem _ =>
            [.elem cns k [] none (itemsA F tns (memberNsA tns cns member elem) (memberLocal member) elem items)]
          | _ => [])
  | w => if t.occ.repeated then [] else toParentA F tns cns k t w

theorem membersA_elem (F : Facts08) (tns cns k : Text) (t : TyA) (v : Val) (fs : List (Text × MKind × TyA))
    (vs : List (Text × Val)) (acc : Acc) :
    membersA F tns cns ((k, .element, t) :: fs) ((k, v) :: vs) acc =
      membersA F tns cns fs vs { acc with children := acc.children ++ memberNodesA F tns cns k t v } := by
  cases v <;> simp [membersA, memberNodesA]
  cases t <;> rfl

theorem membersA_attr (F : Facts08) (tns cns k : Text) (t : TyA) (v : Val) (fs : List (Text × MKind × TyA))
    (vs : List (Text × Val)) (acc : Acc) :
    membersA F tns cns ((k, .attribute, t) :: fs) ((k, v) :: vs) acc =
      membersA F tns cns fs vs { acc with attrs := acc.attrs ++ attrOne F k t v } := by
  simp [membersA]

theorem membersA_data (F : Facts08) (tns cns k : Text) (t : TyA) (v : Val) (fs : List (Text × MKind × TyA))
    (vs : List (Text × Val)) (acc : Acc) :
    membersA F tns cns ((k, .data, t) :: fs) ((k, v) :: vs) acc = membersA F tns cns fs vs (dataStep F t v acc) := by
  simp [membersA]

theorem membersA_skip (F : Facts08) (tns cns k k' : Text) (kind : MKind) (t : TyA) (v : Val)
    (fs : List (Text × MKind × TyA)) (vs : List (Text × Val)) (acc : Acc) (hk : k ≠ k') :
    membersA F tns cns ((k, kind, t) :: fs) ((k', v) :: vs) acc = membersA F tns cns fs vs acc := by
  rw [membersA.eq_def]; simp only [if_neg hk]

/-! ### the three projections -/

def elemNodesA (F : Facts08) (tns cns : Text) : List (Text × MKind × TyA) → List (Text × Val) → List Node
  | (k, kind, t) :: fs, (k', v) :: vs =>
    (if k = k' then (match kind with | .element => memberNodesA F tns cns k t v | _ => []) else []) ++
      elemNodesA F tns cns fs vs
  | _, _ => []

/-- the attribute the null handler of XmlData puts on the parent -/
def dataAttrs (t : TyA) (v : Val) : List (Text × Text) :=
  match v with
  | .none => if t.occ.minOccurs > 0 then [(xsiNilKey, "true".toList)] else []
  | _ => []

def attrPairsA (F : Facts08) : List (Text × MKind × TyA) → List (Text × Val) → List (Text × Text)
  | (k, kind, t) :: fs, (k', v) :: vs =>
    (if k = k' then (match kind with
                     | .attribute => attrOne F k t v
                     | .data => dataAttrs t v
                     | .element => []) else []) ++ attrPairsA F fs vs
  | _, _ => []

theorem dataStep_children (F : Facts08) (t : TyA) (v : Val) (acc : Acc) : (dataStep F t v acc).children = acc.children := by
  unfold dataStep
  repeat' split
  all_goals rfl

theorem dataStep_attrs (F : Facts08) (t : TyA) (v : Val) (acc : Acc) :
    (dataStep F t v acc).attrs = acc.attrs ++ dataAttrs t v := by
  unfold dataStep dataAttrs
  repeat' split
  all_goals simp_all

theorem membersA_children (F : Facts08) (tns cns : Text) :
    (fs : List (Text × MKind × TyA)) → (vs : List (Text × Val)) → (acc : Acc) →
    (membersA F tns cns fs vs acc).children = acc.children ++ elemNodesA F tns cns fs vs
  | [], _, acc => by simp [membersA, elemNodesA]
  | _ :: _, [], acc => by simp [membersA, elemNodesA]
  | (k, kind, t) :: fs, (k', v) :: vs, acc => by
    by_cases hk : k = k'
    · subst hk
      match kind with
      | .element =>
        rw [membersA_elem, membersA_children F tns cns fs vs]
        simp [elemNodesA, List.append_assoc]
      | .attribute =>
        rw [membersA_attr, membersA_children F tns cns fs vs]
        simp [elemNodesA]
      | .data =>
        rw [membersA_data, membersA_children F tns cns fs vs, dataStep_children]
        simp [elemNodesA]
    · rw [membersA_skip F tns cns k k' kind t v fs vs acc hk, membersA_children F tns cns fs vs]
      simp [elemNodesA, hk]

theorem membersA_attrs (F : Facts08) (tns cns : Text) :
    (fs : List (Text × MKind × TyA)) → (vs : List (Text × Val)) → (acc : Acc) →
    (membersA F tns cns fs vs acc).attrs = acc.attrs ++ attrPairsA F fs vs
  | [], _, acc => by simp [membersA, attrPairsA]
  | _ :: _, [], acc => by simp [membersA, attrPairsA]
  | (k, kind, t) :: fs, (k', v) :: vs, acc => by
    by_cases hk : k = k'
    · subst hk
      match kind with
      | .element =>
        rw [membersA_elem, membersA_attrs F tns cns fs vs]
        simp [attrPairsA]
      | .attribute =>
        rw [membersA_attr, membersA_attrs F tns cns fs vs]
        simp [attrPairsA, List.append_assoc]
      | .data =>
        rw [membersA_data, membersA_attrs F tns cns fs vs, dataStep_attrs]
        simp [attrPairsA, List.append_assoc]
    · rw [membersA_skip F tns cns k k' kind t v fs vs acc hk, membersA_attrs F tns cns fs vs]
      simp [attrPairsA, hk]

/-! ### the text -/

def noKind (kind : MKind) (fs : List (Text × MKind × TyA)) : Bool := fs.all (fun f => decide (f.2.1 ≠ kind))

theorem noKind_cons {kind k0 : MKind} {k : Text} {t : TyA} {fs : List (Text × MKind × TyA)} :
    noKind kind ((k, k0, t) :: fs) = (decide (k0 ≠ kind) && noKind kind fs) := by
  simp [noKind]

/-- the text XmlData.marshall leaves on an element that has no children -/
def dataOne (F : Facts08) (t : TyA) (v : Val) (cur : Option Text) : Option Text :=
  (dataStep F t v { text := cur }).text

def dataTextA (F : Facts08) : List (Text × MKind × TyA) → List (Text × Val) → Option Text → Option Text
  | (k, kind, t) :: fs, (k', v) :: vs, cur =>
    dataTextA F fs vs (if k = k' then (match kind with | .data => dataOne F t v cur | _ => cur) else cur)
  | [], _, cur => cur
  | _ :: _, [], cur => cur

theorem dataStep_text (F : Facts08) (t : TyA) (v : Val) (acc : Acc) (hc : acc.children = []) :
    (dataStep F t v acc).text = dataOne F t v acc.text := by
  unfold dataOne dataStep
  repeat' split
  all_goals simp_all

theorem membersA_text_nodata (F : Facts08) (tns cns : Text) :
    (fs : List (Text × MKind × TyA)) → (vs : List (Text × Val)) → (acc : Acc) → noKind .data fs = true →
    (membersA F tns cns fs vs acc).text = acc.text
  | [], _, acc, _ => by simp [membersA]
  | _ :: _, [], acc, _ => by simp [membersA]
  | (k, kind, t) :: fs, (k', v) :: vs, acc, h => by
    rw [noKind_cons] at h
    simp only [Bool.and_eq_true, decide_eq_true_eq] at h
    by_cases hk : k = k'
    · subst hk
      match kind, h with
      | .element, h => rw [membersA_elem, membersA_text_nodata F tns cns fs vs _ h.2]
      | .attribute, h => rw [membersA_attr, membersA_text_nodata F tns cns fs vs _ h.2]
      | .data, h => exact absurd rfl h.1
    · rw [membersA_skip F tns cns k k' kind t v fs vs acc hk, membersA_text_nodata F tns cns fs vs acc h.2]

theorem membersA_text_noelem (F : Facts08) (tns cns : Text) :
    (fs : List (Text × MKind × TyA)) → (vs : List (Text × Val)) → (acc : Acc) → noKind .element fs = true →
    acc.children = [] → (membersA F tns cns fs vs acc).text = dataTextA F fs vs acc.text
  | [], _, acc, _, _ => by simp [membersA, dataTextA]
  | _ :: _, [], acc, _, _ => by simp [membersA, dataTextA]
  | (k, kind, t) :: fs, (k', v) :: vs, acc, h, hc => by
    rw [noKind_cons] at h
    simp only [Bool.and_eq_true, decide_eq_true_eq] at h
    by_cases hk : k = k'
    · subst hk
      match kind, h with
      | .element, h => exact absurd rfl h.1
      | .attribute, h =>
        rw [membersA_attr,
          membersA_text_noelem F tns cns fs vs { acc with attrs := acc.attrs ++ attrOne F k t v } h.2 hc]
        simp [dataTextA]
      | .data, h =>
        rw [membersA_data, membersA_text_noelem F tns cns fs vs _ h.2 (by rw [dataStep_children]; exact hc),
          dataStep_text F t v acc hc]
        simp [dataTextA]
    · rw [membersA_skip F tns cns k k' kind t v fs vs acc hk, membersA_text_noelem F tns cns fs vs acc h.2 hc]
      simp [dataTextA, hk]

theorem dataTextA_nodata (F : Facts08) :
    (fs : List (Text × MKind × TyA)) → (vs : List (Text × Val)) → (cur : Option Text) → noKind .data fs = true →
    dataTextA F fs vs cur = cur
  | [], _, cur, _ => by simp [dataTextA]
  | _ :: _, [], cur, _ => by simp [dataTextA]
  | (k, kind, t) :: fs, (k', v) :: vs, cur, h => by
    rw [noKind_cons] at h
    simp only [Bool.and_eq_true, decide_eq_true_eq] at h
    match kind, h with
    | .element, h => simp only [dataTextA]; rw [dataTextA_nodata F fs vs _ h.2]; simp
    | .attribute, h => simp only [dataTextA]; rw [dataTextA_nodata F fs vs _ h.2]; simp
    | .data, h => exact absurd rfl h.1

/-! ### names: what is written where -/

theorem attrOne_keys (F : Facts08) (k : Text) (t : TyA) (v : Val) : ∀ a ∈ attrOne F k t v, a.1 = k := by
  intro a ha
  unfold attrOne at ha
  repeat' split at ha
  all_goals simp_all

theorem dataAttrs_keys (t : TyA) (v : Val) : ∀ a ∈ dataAttrs t v, a.1 = xsiNilKey := by
  intro a ha
  unfold dataAttrs at ha
  repeat' split at ha
  all_goals simp_all

/-- every attribute written for an object is named after an XmlAttribute member (or is the `xsi:nil`
    of a null XmlData member) -/
theorem attrPairsA_keys (F : Facts08) :
    (fs : List (Text × MKind × TyA)) → (vs : List (Text × Val)) →
    ∀ a ∈ attrPairsA F fs vs, a.1 ∈ namesOfKind .attribute fs ∨ a.1 = xsiNilKey
  | [], _ => by intro a ha; simp [attrPairsA] at ha
  | _ :: _, [] => by intro a ha; simp [attrPairsA] at ha
  | (k, kind, t) :: fs, (k', v) :: vs => by
    intro a ha
    simp only [attrPairsA, List.mem_append] at ha
    rcases ha with ha | ha
    · by_cases hk : k = k'
      · subst hk
        simp only [if_true] at ha
        match kind with
        | .element => simp at ha
        | .attribute =>
          left
          have := attrOne_keys F k t v a ha
          simp [namesOfKind, List.filter, this]
        | .data => right; exact dataAttrs_keys t v a ha
      · simp [hk] at ha
    · rcases attrPairsA_keys F fs vs a ha with h | h
      · left
        simp only [namesOfKind, List.mem_map, List.mem_filter] at h ⊢
        obtain ⟨f, ⟨hf, hkf⟩, hn⟩ := h
        exact ⟨f, ⟨List.mem_cons_of_mem _ hf, hkf⟩, hn⟩
      · right; exact h

theorem toParentA_name (F : Facts08) (tns ns name : Text) (t : TyA) (v : Val) :
    ∀ e ∈ toParentA F tns ns name t v, e.name = name := by
  intro e he
  cases v with
  | none => simp only [toParentA, List.mem_singleton] at he; subst he; rfl
  | obj cls vs =>
    simp only [toParentA] at he
    split at he
    · simp only [List.mem_singleton] at he; subst he; rfl
    · cases he
  | list vs =>
    simp only [toParentA] at he
    split at he
    · simp only [List.mem_singleton] at he; subst he; rfl
    · cases he
  | _ =>
    simp only [toParentA] at he
    split at he
    · split at he
      · simp only [List.mem_singleton] at he; subst he; rfl
      · cases he
    · cases he

theorem itemsA_name (F : Facts08) (tns ns name : Text) (t : TyA) (vs : List Val) :
    ∀ e ∈ itemsA F tns ns name t vs, e.name = name := by
  induction vs with
  | nil => intro e he; simp [itemsA] at he
  | cons v vs ih =>
    intro e he
    simp only [itemsA, List.mem_append] at he
    rcases he with he | he
    · exact toParentA_name F tns ns name t v e he
    · exact ih e he

theorem memberNodesA_name (F : Facts08) (tns cns k : Text) (t : TyA) (v : Val) :
    ∀ e ∈ memberNodesA F tns cns k t v, e.name = k := by
  intro e he
  cases v with
  | none =>
    simp only [memberNodesA] at he
    split at he
    · simp only [List.mem_singleton] at he; subst he; rfl
    · cases he
  | list items =>
    simp only [memberNodesA] at he
    split at he
    · exact itemsA_name F tns cns k t items e he
    · split at he
      · simp only [List.mem_singleton] at he; subst he; rfl
      · cases he
  | _ =>
    simp only [memberNodesA] at he
    split at he
    · cases he
    · exact toParentA_name F tns cns k t _ e he

/-- every child element written for an object is named after an ELEMENT member -/
theorem elemNodesA_names (F : Facts08) (tns cns : Text) :
    (fs : List (Text × MKind × TyA)) → (vs : List (Text × Val)) →
    ∀ e ∈ elemNodesA F tns cns fs vs, e.name ∈ namesOfKind .element fs
  | [], _ => by intro e he; simp [elemNodesA] at he
  | _ :: _, [] => by intro e he; simp [elemNodesA] at he
  | (k, kind, t) :: fs, (k', v) :: vs => by
    intro e he
    simp only [elemNodesA, List.mem_append] at he
    rcases he with he | he
    · by_cases hk : k = k'
      · subst hk
        simp only [if_true] at he
        match kind with
        | .element =>
          have := memberNodesA_name F tns cns k t v e he
          simp [namesOfKind, List.filter, this]
        | .attribute => simp at he
        | .data => simp at he
      · simp [hk] at he
    · have h := elemNodesA_names F tns cns fs vs e he
      simp only [namesOfKind, List.mem_map, List.mem_filter] at h ⊢
      obtain ⟨f, ⟨hf, hkf⟩, hn⟩ := h
      exact ⟨f, ⟨List.mem_cons_of_mem _ hf, hkf⟩, hn⟩

theorem namesOfKind_sub (kind : MKind) (fs : List (Text × MKind × TyA)) : ∀ k ∈ namesOfKind kind fs, k ∈ fieldNamesA fs := by
  intro k hk
  simp only [namesOfKind, fieldNamesA, List.mem_map, List.mem_filter] at hk ⊢
  obtain ⟨f, ⟨hf, _⟩, hn⟩ := hk
  exact ⟨f, hf, hn⟩

theorem mem_unique_A : (fs : List (Text × MKind × TyA)) → namesNodupA fs = true →
    ∀ (k : Text) (a b : MKind × TyA), (k, a) ∈ fs → (k, b) ∈ fs → a = b
  | [], _, k, a, b, h, _ => by cases h
  | (k0, x0) :: fs, hnd, k, a, b, ha, hb => by
    simp only [namesNodupA, Bool.and_eq_true, Bool.not_eq_true', List.any_eq_false] at hnd
    have hnot : ∀ c, (k0, c) ∉ fs := fun c hc => hnd.1 (k0, c) hc (by simp)
    cases ha with
    | head =>
      cases hb with
      | head => rfl
      | tail _ hb => exact absurd hb (hnot b)
    | tail _ ha =>
      cases hb with
      | head => exact absurd ha (hnot a)
      | tail _ hb => exact mem_unique_A fs hnd.2 k a b ha hb

theorem mem_namesOfKind {kind : MKind} {fs : List (Text × MKind × TyA)} {k : Text} :
    k ∈ namesOfKind kind fs ↔ ∃ t, (k, kind, t) ∈ fs := by
  simp only [namesOfKind, List.mem_map, List.mem_filter, decide_eq_true_eq]
  constructor
  · rintro ⟨⟨k', kind', t⟩, ⟨hf, hk⟩, hn⟩
    simp only at hk hn
    subst hk; subst hn
    exact ⟨t, hf⟩
  · rintro ⟨t, hf⟩
    exact ⟨(k, kind, t), ⟨hf, rfl⟩, rfl⟩

/-- with distinct member names, a name is the name of members of one kind only -/
theorem namesOfKind_disjoint (fs : List (Text × MKind × TyA)) (hnd : namesNodupA fs = true) (k : Text)
    (k1 k2 : MKind) (hne : k1 ≠ k2) (h : k ∈ namesOfKind k1 fs) : k ∉ namesOfKind k2 fs := by
  intro h2
  obtain ⟨t1, h1⟩ := mem_namesOfKind.mp h
  obtain ⟨t2, h2⟩ := mem_namesOfKind.mp h2
  have := mem_unique_A fs hnd k (k1, t1) (k2, t2) h1 h2
  exact hne (Prod.mk.inj this).1

end Xml
end SpyneModel
