/-
  C14 helper lemmas, part 1: the ordered de-duplicating handler set and the event manager.
-/
import SpyneModel.EventsSpec
namespace SpyneModel.Events

theorem firstOccFrom_congr (s1 s2 : List H) (l : List H) (h : ∀ a, a ∈ s1 ↔ a ∈ s2) :
    firstOccFrom s1 l = firstOccFrom s2 l := by
  induction l generalizing s1 s2 with
  | nil => rfl
  | cons x xs ih =>
    simp only [firstOccFrom]
    by_cases hx : x ∈ s1
    · have hx2 : x ∈ s2 := (h x).1 hx
      simp only [hx, hx2, if_true]
      exact ih s1 s2 h
    · have hx2 : x ∉ s2 := fun c => hx ((h x).2 c)
      simp only [hx, hx2, if_false]
      congr 1
      apply ih
      intro a
      simp only [List.mem_cons, h a]

theorem osetAddAll_eq (s l : List H) : osetAddAll s l = s ++ firstOccFrom s l := by
  induction l generalizing s with
  | nil => simp [osetAddAll, firstOccFrom]
  | cons x xs ih =>
    simp only [osetAddAll, List.foldl_cons, firstOccFrom] at *
    by_cases hx : x ∈ s
    · simp only [osetAdd, hx, if_true]
      exact ih s
    · simp only [osetAdd, hx, if_false]
      rw [ih (s ++ [x])]
      rw [firstOccFrom_congr (s ++ [x]) (x :: s) xs (by intro a; simp [or_comm])]
      simp

theorem mem_firstOccFrom (s l : List H) (a : H) : a ∈ firstOccFrom s l ↔ a ∈ l ∧ a ∉ s := by
  induction l generalizing s with
  | nil => simp [firstOccFrom]
  | cons x xs ih =>
    simp only [firstOccFrom]
    by_cases hx : x ∈ s
    · simp only [hx, if_true, ih, List.mem_cons]
      constructor
      · rintro ⟨h1, h2⟩; exact ⟨Or.inr h1, h2⟩
      · rintro ⟨h1 | h1, h2⟩
        · subst h1; exact absurd hx h2
        · exact ⟨h1, h2⟩
    · simp only [hx, if_false, List.mem_cons, ih]
      constructor
      · rintro (h1 | ⟨h1, h2⟩)
        · subst h1; exact ⟨Or.inl rfl, hx⟩
        · exact ⟨Or.inr h1, fun c => h2 (Or.inr c)⟩
      · rintro ⟨h1 | h1, h2⟩
        · exact Or.inl h1
        · by_cases hax : a = x
          · exact Or.inl hax
          · exact Or.inr ⟨h1, fun c => c.elim hax h2⟩

theorem firstOccFrom_nodup (s l : List H) : (firstOccFrom s l).Nodup := by
  induction l generalizing s with
  | nil => simp [firstOccFrom]
  | cons x xs ih =>
    simp only [firstOccFrom]
    by_cases hx : x ∈ s
    · simp only [hx, if_true]; exact ih s
    · simp only [hx, if_false, List.nodup_cons]
      refine ⟨?_, ih _⟩
      rw [mem_firstOccFrom]
      simp

theorem firstOccFrom_sublist (s l : List H) : (firstOccFrom s l).Sublist l := by
  induction l generalizing s with
  | nil => simp [firstOccFrom]
  | cons x xs ih =>
    simp only [firstOccFrom]
    by_cases hx : x ∈ s
    · simp only [hx, if_true]; exact (ih s).cons _
    · simp only [hx, if_false]; exact (ih _).cons_cons _


theorem firstOccFrom_append (s l1 l2 : List H) :
    firstOccFrom s (l1 ++ l2) = firstOccFrom s l1 ++ firstOccFrom (s ++ firstOccFrom s l1) l2 := by
  have h := osetAddAll_eq s (l1 ++ l2)
  simp only [osetAddAll, List.foldl_append] at h
  have h1 := osetAddAll_eq s l1
  simp only [osetAddAll] at h1
  rw [h1] at h
  have h2 := osetAddAll_eq (s ++ firstOccFrom s l1) l2
  simp only [osetAddAll] at h2
  rw [h2, List.append_assoc] at h
  exact (List.append_cancel_left h).symm

variable {ν : Type} [DecidableEq ν]

theorem addAll_get (m : Mgr ν) (regs : List (ν × H)) (e : ν) :
    (m.addAll regs) e = osetAddAll (m e) (regsFor regs e) := by
  induction regs generalizing m with
  | nil => simp [Mgr.addAll, regsFor, osetAddAll]
  | cons r rs ih =>
    simp only [Mgr.addAll, List.foldl_cons] at *
    rw [ih]
    simp only [Mgr.addListener, regsFor, List.filter_cons]
    by_cases h : r.1 = e
    · simp [h, osetAddAll]
    · have h' : ¬ e = r.1 := fun c => h c.symm
      simp [h, h']

/-- listeners of a fresh manager = first occurrences of the registrations for that event -/
theorem build_get (regs : List (ν × H)) (e : ν) :
    (Mgr.build regs) e = firstOcc (regsFor regs e) := by
  simp only [Mgr.build, addAll_get, Mgr.empty, osetAddAll_eq, firstOcc, List.nil_append]

omit [DecidableEq ν] in
theorem inherit_fold (bases : List (Mgr ν)) (acc : List H) (e : ν) :
    bases.foldl (fun acc b => osetAddAll acc (b e)) acc = osetAddAll acc (bases.flatMap (fun b => b e)) := by
  induction bases generalizing acc with
  | nil => simp [osetAddAll]
  | cons b bs ih =>
    simp only [List.foldl_cons, List.flatMap_cons, ih]
    simp [osetAddAll, List.foldl_append]

omit [DecidableEq ν] in
theorem inherit_get (bases : List (Mgr ν)) (e : ν) :
    (Mgr.inherit bases) e = firstOcc (bases.flatMap (fun b => b e)) := by
  show bases.foldl (fun acc b => osetAddAll acc (b e)) [] = _
  rw [inherit_fold, osetAddAll_eq]; rfl


/-! ### removal -/

theorem firstOccFrom_cons_filter (h : H) (s l : List H) :
    (firstOccFrom (h :: s) l).filter (fun x => x != h) = (firstOccFrom s l).filter (fun x => x != h) := by
  induction l generalizing s with
  | nil => rfl
  | cons x xs ih =>
    simp only [firstOccFrom]
    by_cases hxs : x ∈ s
    · have : x ∈ h :: s := List.mem_cons_of_mem _ hxs
      simp only [hxs, this, if_true]; exact ih s
    · by_cases hxh : x = h
      · subst hxh
        simp [hxs]
      · have hn : x ∉ h :: s := by simp [hxh, hxs]
        simp only [hxs, hn, if_false, List.filter_cons]
        have hb : (x != h) = true := by simp [hxh]
        simp only [hb, if_true]
        congr 1
        rw [firstOccFrom_congr (x :: h :: s) (h :: x :: s) xs (by intro a; simp only [List.mem_cons]; constructor <;> (rintro (h1 | h1 | h1) <;> simp [h1]))]
        exact ih (x :: s)

theorem firstOccFrom_filter (h : H) (s l : List H) :
    firstOccFrom s (l.filter (fun x => x != h)) = (firstOccFrom s l).filter (fun x => x != h) := by
  induction l generalizing s with
  | nil => rfl
  | cons x xs ih =>
    by_cases hxh : x = h
    · subst hxh
      simp only [List.filter_cons, bne_self_eq_false, Bool.false_eq_true, if_false, firstOccFrom]
      rw [ih s]
      by_cases hs : x ∈ s
      · simp [hs]
      · simp only [hs, if_false, List.filter_cons, bne_self_eq_false, Bool.false_eq_true]
        exact (firstOccFrom_cons_filter x s xs).symm
    · have hb : (x != h) = true := by simp [hxh]
      simp only [List.filter_cons, hb, if_true, firstOccFrom]
      by_cases hs : x ∈ s
      · simp only [hs, if_true]; exact ih s
      · simp only [hs, if_false, List.filter_cons, hb, if_true]
        rw [ih (x :: s)]

theorem firstOcc_append_singleton (l : List H) (h : H) : firstOcc (l ++ [h]) = osetAdd (firstOcc l) h := by
  simp only [firstOcc, firstOccFrom_append, List.nil_append, firstOccFrom, osetAdd]
  by_cases hm : h ∈ firstOccFrom [] l <;> simp [hm]

theorem firstOcc_idem (l : List H) (hn : l.Nodup) : firstOcc l = l := by
  have : ∀ s : List H, (∀ a ∈ l, a ∉ s) → firstOccFrom s l = l := by
    induction l with
    | nil => intro s _; rfl
    | cons x xs ih =>
      intro s hs
      have hx : x ∉ s := hs x (by simp)
      simp only [firstOccFrom, hx, if_false]
      congr 1
      have hn' := List.nodup_cons.1 hn
      apply ih hn'.2
      intro a ha
      simp only [List.mem_cons, not_or]
      exact ⟨fun c => hn'.1 (c ▸ ha), hs a (by simp [ha])⟩
  exact this [] (by simp)

/-- the manager after any history = first occurrences of the net registrations -/
theorem applyAll_get (m : Mgr ν) (ops : List (Op ν)) (e : ν) (acc : List H) (h0 : m e = firstOcc acc) :
    (m.applyAll ops) e = firstOcc (netRegs e acc ops) := by
  induction ops generalizing m acc with
  | nil => simpa [Mgr.applyAll, netRegs] using h0
  | cons op ops ih =>
    simp only [Mgr.applyAll, List.foldl_cons] at ih ⊢
    cases op with
    | add e' h =>
      simp only [netRegs]
      apply ih
      simp only [Mgr.applyOp, Mgr.addListener]
      by_cases he : e' = e
      · subst he; simp [h0, firstOcc_append_singleton]
      · have : ¬ e = e' := fun c => he c.symm
        simp [he, this, h0]
    | del e' h =>
      simp only [netRegs]
      apply ih
      simp only [Mgr.applyOp, Mgr.delListener, osetDiscard]
      by_cases he : e' = e
      · subst he; simp only [if_true, h0, firstOcc]; exact (firstOccFrom_filter h [] acc).symm
      · have : ¬ e = e' := fun c => he c.symm
        simp [he, this, h0]
    | clear e' =>
      simp only [netRegs]
      apply ih
      simp only [Mgr.applyOp, Mgr.clear]
      by_cases he : e' = e
      · subst he; simp [firstOcc, firstOccFrom]
      · have : ¬ e = e' := fun c => he c.symm
        simp [he, this, h0]
    | fire e' =>
      simp only [netRegs]
      exact ih _ _ (by simpa [Mgr.applyOp] using h0)

theorem applyAll_snoc (m : Mgr ν) (ops : List (Op ν)) (op : Op ν) :
    m.applyAll (ops ++ [op]) = (m.applyAll ops).applyOp op := by
  simp [Mgr.applyAll, List.foldl_append]

/-- every firing of an interleaved history sees the net registrations made before it -/
theorem runHistory_spec (done ops : List (Op ν)) :
    (Mgr.empty.applyAll done).runHistory ops = specFires done ops := by
  induction ops generalizing done with
  | nil => rfl
  | cons op ops ih =>
    cases op with
    | fire e =>
      simp only [Mgr.runHistory, specFires]
      congr 1
      · exact applyAll_get Mgr.empty done e [] rfl
      · have := ih (done ++ [.fire e]); rwa [applyAll_snoc] at this
    | add e h => simp only [Mgr.runHistory, specFires]; have := ih (done ++ [.add e h]); rwa [applyAll_snoc] at this
    | del e h => simp only [Mgr.runHistory, specFires]; have := ih (done ++ [.del e h]); rwa [applyAll_snoc] at this
    | clear e => simp only [Mgr.runHistory, specFires]; have := ih (done ++ [.clear e]); rwa [applyAll_snoc] at this

theorem applyAll_nodup (m : Mgr ν) (ops : List (Op ν)) (e : ν) (hn : (m e).Nodup) :
    ((m.applyAll ops) e).Nodup := by
  rw [applyAll_get m ops e (m e) (firstOcc_idem _ hn).symm]
  exact firstOccFrom_nodup _ _

end SpyneModel.Events
