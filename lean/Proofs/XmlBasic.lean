/-
  Basic lemmas about the XML encoder's output and the instance state of `complex_from_element`.
-/
import SpyneModel.XmlSpec
import Proofs.Leaf
namespace SpyneModel
namespace Xml

/-! ### instance state -/

def keys (st : List (Text × Val)) : List Text := st.map (·.1)

theorem stGet_at (done : List (Text × Val)) (k : Text) (x : Val) (tail : List (Text × Val))
    (hk : k ∉ keys done) : stGet (done ++ (k, x) :: tail) k = x := by
  induction done with
  | nil => simp [stGet, List.lookup]
  | cons a d ih =>
    obtain ⟨k0, x0⟩ := a
    simp only [keys, List.map, List.mem_cons, not_or] at hk
    have hne : (k == k0) = false := by simp [hk.1]
    have := ih hk.2
    simpa [stGet, List.lookup, hne] using this

theorem stSet_at (done : List (Text × Val)) (k : Text) (x v : Val) (tail : List (Text × Val))
    (hk : k ∉ keys done) : stSet (done ++ (k, x) :: tail) k v = done ++ (k, v) :: tail := by
  induction done with
  | nil => simp [stSet]
  | cons a d ih =>
    obtain ⟨k0, x0⟩ := a
    simp only [keys, List.map, List.mem_cons, not_or] at hk
    have hne : ¬ k0 = k := fun h => hk.1 h.symm
    simp only [List.cons_append, stSet, hne, if_false]
    rw [ih hk.2]

theorem initState_cons (k : Text) (t : Ty) (fs : List (Text × Ty)) :
    initState ((k, t) :: fs) = (k, Val.none) :: initState fs := rfl

/-! ### names -/

def fieldNames (fs : List (Text × Ty)) : List Text := fs.map (·.1)

theorem lookupField_of_plain (fields : List (Text × Ty)) (a : Text)
    (hp : fields.all (fun f => plainName f.1) = true) (ha : plainName a = false) :
    lookupField fields a = none := by
  induction fields with
  | nil => rfl
  | cons f fs ih =>
    obtain ⟨k, t⟩ := f
    simp only [List.all_cons, Bool.and_eq_true] at hp
    have hne : (a == k) = false := by
      cases h : (a == k) with
      | false => rfl
      | true =>
        have : a = k := by simpa using h
        subst this; rw [hp.1] at ha; cases ha
    simp only [lookupField, List.lookup, hne]
    exact ih hp.2

theorem childAttrCrash_of_plain (X : FactsXml) (fields : List (Text × Ty)) (attrs : List (Text × Text))
    (hp : fields.all (fun f => plainName f.1) = true) (ha : ∀ a ∈ attrs, plainName a.1 = false) :
    childAttrCrash X fields attrs = false := by
  unfold childAttrCrash
  have : attrs.any (fun a => (lookupField fields a.1).isSome) = false := by
    rw [List.any_eq_false]
    intro a hmem
    rw [lookupField_of_plain fields a.1 hp (ha a hmem)]
    simp
  simp [this]

theorem plain_xsiNil : plainName xsiNilKey = false := by decide
theorem plain_xsiType : plainName xsiTypeKey = false := by decide

theorem xsiType_ne_nil : (xsiNilKey == xsiTypeKey) = false := by decide

end Xml
end SpyneModel
