/-
  C18 helper lemmas: argument packing, the arguments the function receives, result unwrapping
  against serialise → transmit → decode, and the agreement theorem, general in `F : Facts18`,
  the protocol configuration `P` and the value transfer `τ`.
-/
import SpyneModel.Null
namespace SpyneModel.Null

/-- the wire path without `_bare_response` (`respondCore` in place of `respond`) -/
def wireCallCore (F : Facts18) (P : ProtoCfg) (τ : Val → Val) (s : Sig) (impl : List Val → Result)
    (pos : List Val) (kw : List (String × Val)) : Res Val :=
  match s.inKeys with
  | Option.none => .exc "AttributeError"
  | some keys =>
    (clientPack keys pos kw).bind fun sent =>
      (process F s impl (wireRecv P τ s keys sent)).bind fun out =>
        respondCore P τ s (ignoredOnWire F s out)

theorem Res.map_bind {α β γ : Type} (r : Res α) (f : α → Res β) (g : β → γ) :
    (r.bind f).map g = r.bind fun a => (f a).map g := by
  cases r <;> rfl

theorem wireCall_eq_map (F : Facts18) (P : ProtoCfg) (τ : Val → Val) (s : Sig) (impl : List Val → Result)
    (pos : List Val) (kw : List (String × Val)) :
    wireCall F P τ s impl pos kw = (wireCallCore F P τ s impl pos kw).map (viewVal P s) := by
  unfold wireCall wireCallCore
  cases s.inKeys with
  | none => rfl
  | some keys => simp only [Res.map_bind]; rfl
/-! ### packing -/

theorem overlay_length (F : Facts18) : ∀ (keys : List String) (base : List Val) (kw : List (String × Val)),
    keys.length = base.length → (overlay F keys base kw).length = keys.length
  | [], [], _, _ => by simp [overlay]
  | _ :: ks, _ :: vs, kw, h => by
    simp only [overlay, List.length_cons] at h ⊢
    rw [overlay_length F ks vs kw (by omega)]
  | [], _ :: _, _, h => by simp at h
  | _ :: _, [], _, h => by simp at h

theorem fillPos_length (n : Nat) (pos : List Val) (h : pos.length ≤ n) : (fillPos n pos).length = n := by
  simp [fillPos]; omega

theorem lookup_mem {k : String} : ∀ {kw : List (String × Val)} {v : Val}, lookup k kw = some v → (k, v) ∈ kw
  | [], _, h => by simp [lookup] at h
  | (k', w) :: rest, v, h => by
    simp only [lookup] at h
    split at h
    · next hk => cases h; subst hk; simp
    · exact List.mem_cons_of_mem _ (lookup_mem h)

/-- under `KwOk`, NullServer's overlay is Python's binding of keyword arguments -/
theorem overlay_eq_clientOverlay (F : Facts18) (kw : List (String × Val)) (hkw : KwOk F kw) :
    ∀ (keys : List String) (base : List Val), overlay F keys base kw = clientOverlay keys base kw
  | [], _ => by simp [overlay, clientOverlay]
  | _ :: _, [] => by simp [overlay, clientOverlay]
  | k :: ks, v :: vs => by
    simp only [overlay, clientOverlay]
    rw [overlay_eq_clientOverlay F kw hkw ks vs]
    congr 1
    cases hl : lookup k kw with
    | none => rfl
    | some w =>
      simp only
      cases hkw with
      | inl h => simp [h]
      | inr h =>
        have := h (k, w) (lookup_mem hl)
        simp at this
        simp [this]

theorem mem_clientOverlay {kw : List (String × Val)} {x : Val} :
    ∀ {keys : List String} {base : List Val}, x ∈ clientOverlay keys base kw → x ∈ base ∨ ∃ k, (k, x) ∈ kw
  | [], _, h => by simp [clientOverlay] at h
  | _ :: _, [], h => by simp [clientOverlay] at h
  | k :: ks, v :: vs, h => by
    simp only [clientOverlay, List.mem_cons] at h
    rcases h with h | h
    · cases hl : lookup k kw with
      | none => simp [hl] at h; left; simp [h]
      | some w => simp [hl] at h; right; exact ⟨k, h ▸ lookup_mem hl⟩
    · rcases mem_clientOverlay h with h | h
      · left; exact List.mem_cons_of_mem _ h
      · right; exact h

theorem mem_fillPos {n : Nat} {pos : List Val} {x : Val} (h : x ∈ fillPos n pos) : x ∈ pos ∨ x = .none := by
  simp only [fillPos, List.mem_append, List.mem_replicate] at h
  rcases h with h | h
  · left; exact h
  · right; exact h.2

theorem xfer_none (τ : Val → Val) : xfer τ .none = .none := rfl

theorem map_xfer_id (τ : Val → Val) : ∀ (xs : List Val), (∀ v ∈ xs, Survives τ v) → xs.map (xfer τ) = xs
  | [], _ => rfl
  | x :: xs, h => by
    simp only [List.map]
    rw [map_xfer_id τ xs (fun v hv => h v (List.mem_cons_of_mem _ hv))]
    have := h x (by simp)
    unfold Survives at this
    rw [this]


/-! ### the arguments the function receives -/

theorem packed_survive (τ : Val → Val) (keys : List String) (pos : List Val) (kw : List (String × Val))
    (hpos : ∀ v ∈ pos, Survives τ v) (hkw : ∀ p ∈ kw, Survives τ p.2) :
    ∀ v ∈ clientOverlay keys (fillPos keys.length pos) kw, Survives τ v := by
  intro v hv
  rcases mem_clientOverlay hv with h | ⟨k, h⟩
  · rcases mem_fillPos h with h | h
    · exact hpos v h
    · subst h; rfl
  · exact hkw (k, v) h

/-- argument packing agreement: the user function is called with the same arguments -/
theorem recv_agree (F : Facts18) (P : ProtoCfg) (hP : P.Good) (τ : Val → Val) (s : Sig)
    (pos : List Val) (kw : List (String × Val)) (hkw : KwOk F kw) (hcall : CallOk τ s pos kw) :
    nullRecv F s pos kw = wireRecvOf P τ s pos kw := by
  unfold nullRecv wireRecvOf
  cases hk : s.inKeys with
  | none => rfl
  | some keys =>
    have hlen := hcall.1 keys hk
    have hnl : ¬ keys.length < pos.length := by omega
    simp only [packArgs, clientPack, hnl, if_false, Res.bind]
    rw [overlay_eq_clientOverlay F kw hkw]
    have hsv := packed_survive τ keys pos kw hcall.2.1 hcall.2.2
    simp only [shapeArgs, wireRecv, hP.2.1, map_xfer_id τ _ hsv]


/-! ### body styles -/

theorem bodyStyle_wrapped_iff (s : Sig) : s.bodyStyle = .wrapped ↔ s.style = .wrapped := by
  unfold Sig.bodyStyle
  cases s.style <;> simp <;> split <;> (try split) <;> simp

theorem bodyStyle_of_wrapped {s : Sig} (h : s.style = .wrapped) : s.bodyStyle = .wrapped :=
  (bodyStyle_wrapped_iff s).2 h

/-- `is_out_bare()` is exactly "the decorator was given a body style other than wrapped" -/
theorem isOutBare_iff (F : Facts18) (hF : F.Good) (s : Sig) :
    F.isOutBare s.bodyStyle = true ↔ s.style ≠ .wrapped := by
  obtain ⟨h1, h2, h3, h4, h5, _⟩ := hF
  have hw := bodyStyle_wrapped_iff s
  cases hb : s.bodyStyle <;> simp [hb] at hw <;> simp [*]

theorem takeOut_exact (P : ProtoCfg) : ∀ (n : Nat) (vs : List Val), vs.length = n → takeOut P n vs = .ok vs
  | 0, [], _ => rfl
  | 0, _ :: _, h => by simp at h
  | n + 1, [], h => by simp at h
  | n + 1, x :: xs, h => by
    simp only [takeOut]
    rw [takeOut_exact P n xs (by simpa using h)]
    rfl

theorem map_xfer_replicate_none (τ : Val → Val) (n : Nat) :
    (List.replicate n Val.none).map (xfer τ) = List.replicate n Val.none := by
  simp [List.map_replicate, xfer]


theorem singleAs_good (P : ProtoCfg) (hP : P.noneSingle = .nil) (s : Sig) (v : Val) : singleAs P s v = v := by
  simp [singleAs, hP]

theorem unwrapWrapped_many (P : ProtoCfg) (s : Sig) : ∀ (n : Nat) (l : List Val), 2 ≤ n →
    unwrapWrapped P s n l = .seq l
  | n + 2, _, _ => by simp [unwrapWrapped]
  | 0, _, h => by omega
  | 1, _, h => by omega

/-- with both tests in place `_is_empty_wrapper` says exactly "nothing is declared to come back" -/
theorem isEmptyWrapper_good (F : Facts18) (h1 : F.ewWrapper = true) (h2 : F.ewMembers = true) (s : Sig) :
    isEmptyWrapper F s = s.noReturn := by
  unfold isEmptyWrapper Sig.outMembers Sig.outIsWrapper Sig.noReturn Sig.outLen Returns.truthy
  cases s.style <;> cases s.returns <;> simp [h1, h2]
  all_goals (first | (rename_i n; cases n <;> simp; done) | (rename_i k; cases k.complexFields <;> simp))

/-! ### the result: `_cb_sync` against serialise → transmit → decode -/

theorem out_agree_ignored (F : Facts18) (hF : F.Good) (P : ProtoCfg) (hP : P.Good) (τ : Val → Val)
    (s : Sig) (x : Val) :
    cbSync F s (wrapOut F s (.ignored x)) = .ok (.ignored x) ∧
    respondCore P τ s (ignoredOnWire F s (wrapOut F s (.ignored x))) = .ok (emptyReply s) := by
  obtain ⟨h1, h2, h3, h4, h5, hw, hc, hi, hew1, hew2⟩ := hF
  have hew := isEmptyWrapper_good F hew1 hew2 s
  obtain ⟨hb, _, hns⟩ := hP
  by_cases hst : s.style = .wrapped
  · have hbs := bodyStyle_of_wrapped hst
    by_cases hn : s.outLen ≤ 1
    · -- zero or one declared return value: `[Ignored]`
      have : wrapOut F s (.ignored x) = .seq [.ignored x] := by simp [wrapOut, hbs, hw, hn]
      rw [this]
      refine ⟨rfl, ?_⟩
      simp only [ignoredOnWire, respondCore, hbs, if_true, emptyReply]
      have hn' : s.outLen = 0 ∨ s.outLen = 1 := by omega
      rcases hn' with h | h <;> simp [h, takeOut, Res.bind, unwrapWrapped, xfer, singleAs_good P hns]
    · have hge : 2 ≤ s.outLen := by omega
      have : wrapOut F s (.ignored x) = .ignored x := by simp [wrapOut, hbs, hw, hn]
      rw [this]
      constructor
      · have hnr : s.noReturn = false := by
          simp only [Sig.noReturn, hst, Returns.truthy]
          unfold Sig.outLen at hge
          cases hr : s.returns <;> simp [hr] at hge ⊢
          omega
        simp only [cbSync, hc, hew, hnr, hbs, h1]
        have h0 : s.outLen ≠ 0 := by omega
        have h1' : s.outLen ≠ 1 := by omega
        simp [h0, h1']
      · simp only [ignoredOnWire, hi, respondCore, hbs, if_true]
        rw [takeOut_exact P _ _ (by simp)]
        simp only [Res.bind, map_xfer_replicate_none, emptyReply, hbs]
        rw [unwrapWrapped_many P s _ _ hge]
        simp [hge]
  · have hbs : s.bodyStyle ≠ .wrapped := fun h => hst ((bodyStyle_wrapped_iff s).1 h)
    have : wrapOut F s (.ignored x) = .seq [.ignored x] := by simp [wrapOut, hbs]
    rw [this]
    refine ⟨rfl, ?_⟩
    simp only [ignoredOnWire, respondCore, hbs, if_false, hb, first, emptyReply]
    cases s.noReturn <;> simp [xfer]


theorem wireView_plain (s : Sig) (r : Val) (h : r.isIgnored = false) :
    wireView s (.ok r) = .ok (norm r) := by
  cases r <;> simp_all [wireView, norm, Val.isIgnored]

theorem cbSync_seq_plain (F : Facts18) (s : Sig) (r : Val) (rest : List Val) (h : r.isIgnored = false) :
    cbSync F s (.seq (r :: rest)) =
      (if F.cbOrder = .noReturnFirst && isEmptyWrapper F s then .ok .none
       else if F.isOutBare s.bodyStyle then first (.seq (r :: rest))
       else if s.bodyStyle = .empty then .ok .none
       else if s.outLen = 0 then .ok .none
       else if s.outLen = 1 then first (.seq (r :: rest))
       else .ok (.seq (r :: rest))) := by
  cases r <;> simp_all [cbSync, Val.isIgnored]

theorem ignoredOnWire_seq_plain (F : Facts18) (s : Sig) (r : Val) (rest : List Val) (h : r.isIgnored = false) :
    ignoredOnWire F s (.seq (r :: rest)) = .seq (r :: rest) := by
  cases r <;> simp_all [ignoredOnWire, Val.isIgnored]

theorem out_agree_plain (F : Facts18) (hF : F.Good) (P : ProtoCfg) (hP : P.Good) (τ : Val → Val)
    (s : Sig) (r : Val) (hr : r.isIgnored = false) (hok : ResultOk τ s r) :
    (cbSync F s (wrapOut F s r)).bind (fun v => wireView s (.ok v)) =
      respondCore P τ s (ignoredOnWire F s (wrapOut F s r)) := by
  have hiob := isOutBare_iff F hF s
  obtain ⟨h1, h2, h3, h4, h5, hw, hc, hi, hew1, hew2⟩ := hF
  have hew := isEmptyWrapper_good F hew1 hew2 s
  obtain ⟨hb, _, hns⟩ := hP
  rcases hok with hok | ⟨_, hok⟩
  · simp [hr] at hok
  by_cases hst : s.style = .wrapped
  · have hbs := bodyStyle_of_wrapped hst
    by_cases hn : s.outLen ≤ 1
    · have hwo : wrapOut F s r = .seq [r] := by simp [wrapOut, hbs, hw, hn]
      have hcond : ¬ (s.style = .wrapped ∧ 2 ≤ s.outLen) := by omega
      rw [if_neg hcond] at hok
      rw [hwo, cbSync_seq_plain F s r [] hr, ignoredOnWire_seq_plain F s r [] hr]
      simp only [respondCore, hbs, if_true, hc, hew, h1]
      have hn' : s.outLen = 0 ∨ s.outLen = 1 := by omega
      rcases hn' with h0 | h1'
      · have hnr : s.noReturn = true := by
          simp only [Sig.noReturn, hst, Returns.truthy]
          unfold Sig.outLen at h0
          cases hrr : s.returns <;> simp [hrr] at h0 ⊢
          exact h0
        simp [hnr, h0, takeOut, Res.bind, unwrapWrapped, wireView]
      · have hnr : s.noReturn = false := by
          simp only [Sig.noReturn, hst, Returns.truthy]
          unfold Sig.outLen at h1'
          cases hrr : s.returns <;> simp [hrr] at h1' ⊢
          omega
        rw [hnr] at hok
        simp at hok
        simp [hnr, h1', takeOut, Res.bind, unwrapWrapped, first, wireView_plain s r hr, hok, singleAs_good P hns]
    · have hge : 2 ≤ s.outLen := by omega
      have hwo : wrapOut F s r = r := by simp [wrapOut, hbs, hw, hn]
      rw [if_pos ⟨hst, hge⟩] at hok
      obtain ⟨vs, hrv, hlen, hall⟩ := hok
      subst hrv
      rw [hwo]
      have hnr : s.noReturn = false := by
        simp only [Sig.noReturn, hst, Returns.truthy]
        unfold Sig.outLen at hge
        cases hrr : s.returns <;> simp [hrr] at hge ⊢
        omega
      match vs, hlen, hall with
      | [], hlen, _ => simp at hlen; omega
      | v :: rest, hlen, hall =>
        have hv := (hall v (by simp)).1
        rw [cbSync_seq_plain F s v rest hv, ignoredOnWire_seq_plain F s v rest hv]
        have h0 : s.outLen ≠ 0 := by omega
        have h1' : s.outLen ≠ 1 := by omega
        simp only [respondCore, hbs, if_true, hc, hew, h1, hnr]
        rw [takeOut_exact P _ _ hlen]
        have hm : (v :: rest).map (xfer τ) = v :: rest := map_xfer_id τ _ (fun w hw => (hall w hw).2)
        simp only [Res.bind, hm]
        rw [unwrapWrapped_many P s _ _ hge]
        simp [h0, h1', wireView]
  · have hbs : s.bodyStyle ≠ .wrapped := fun h => hst ((bodyStyle_wrapped_iff s).1 h)
    have hwo : wrapOut F s r = .seq [r] := by simp [wrapOut, hbs]
    have hcond : ¬ (s.style = .wrapped ∧ 2 ≤ s.outLen) := fun h => hst h.1
    rw [if_neg hcond] at hok
    rw [hwo, cbSync_seq_plain F s r [] hr, ignoredOnWire_seq_plain F s r [] hr]
    simp only [respondCore, hbs, if_false, hb, first, hc, hew, hiob.2 hst]
    cases hnr : s.noReturn
    · rw [hnr] at hok
      simp at hok
      simp [wireView_plain s r hr, hok, Res.bind]
    · simp [wireView, Res.bind]


/-! ### the property -/

theorem wireView_fault (s : Sig) (c : Flt) : wireView s (.fault c : Res Val) = .fault c := rfl

/-- `NullServer` agrees with the wire for every signature, every program and every conformant call -/
theorem null_eq_wire_core (F : Facts18) (hF : F.Good) (P : ProtoCfg) (hP : P.Good) (τ : Val → Val)
    (s : Sig) (impl : List Val → Result) (pos : List Val) (kw : List (String × Val))
    (hprog : ProgramOkOn τ s impl (nullRecv F s pos kw)) (hkw : KwOk F kw) (hcall : CallOk τ s pos kw) :
    wireView s (nullCall F s impl pos kw) = wireCallCore F P τ s impl pos kw := by
  have hrecv := recv_agree F P hP τ s pos kw hkw hcall
  rw [hrecv] at hprog
  unfold nullCall wireCallCore
  rw [hrecv]
  unfold wireRecvOf at hprog ⊢
  cases hk : s.inKeys with
  | none => rfl
  | some keys =>
    simp only [hk] at hprog
    simp only
    cases hcp : clientPack keys pos kw with
    | fault c => rfl
    | exc e => rfl
    | ok sent =>
      simp only [hcp, Res.bind] at hprog
      simp only [Res.bind, process]
      cases hi : impl (wireRecv P τ s keys sent) with
      | fault c => rfl
      | error => rfl
      | value r =>
        simp only
        have hok := hprog _ _ rfl hi
        cases hig : r.isIgnored with
        | true =>
          match r, hig with
          | .ignored x, _ =>
            obtain ⟨h1, h2⟩ := out_agree_ignored F hF P hP τ s x
            rw [h1, h2]; rfl
        | false =>
          have := out_agree_plain F hF P hP τ s r hig hok
          rw [← this]
          cases cbSync F s (wrapOut F s r) <;> rfl

theorem ProgramOk.on {τ : Val → Val} {s : Sig} {impl : List Val → Result} (h : ProgramOk τ s impl)
    (recv : Res (List Val)) : ProgramOkOn τ s impl recv :=
  fun args r _ hi => h args r hi


/-! ### keyword ≡ positional -/

theorem lookup_none_of_not_mem {k : String} : ∀ {kw : List (String × Val)}, (∀ p ∈ kw, p.1 ≠ k) → lookup k kw = none
  | [], _ => rfl
  | (k', v) :: rest, h => by
    have h1 : k' ≠ k := h (k', v) (by simp)
    simp only [lookup, h1, if_false]
    exact lookup_none_of_not_mem (fun p hp => h p (List.mem_cons_of_mem _ hp))

theorem overlay_congr (F : Facts18) (kw kw' : List (String × Val)) :
    ∀ (keys : List String) (base : List Val), (∀ k ∈ keys, lookup k kw = lookup k kw') →
      overlay F keys base kw = overlay F keys base kw'
  | [], _, _ => by simp [overlay]
  | _ :: _, [], _ => by simp [overlay]
  | k :: ks, v :: vs, h => by
    simp only [overlay]
    rw [h k (by simp), overlay_congr F kw kw' ks vs (fun k' hk' => h k' (List.mem_cons_of_mem _ hk'))]

theorem overlay_append (F : Facts18) (kw : List (String × Val)) :
    ∀ (K1 : List String) (B1 : List Val) (K2 : List String) (B2 : List Val), K1.length = B1.length →
      overlay F (K1 ++ K2) (B1 ++ B2) kw = overlay F K1 B1 kw ++ overlay F K2 B2 kw
  | [], [], _, _, _ => by simp [overlay]
  | [], _ :: _, _, _, h => by simp at h
  | _ :: _, [], _, _, h => by simp at h
  | k :: ks, b :: bs, K2, B2, h => by
    simp only [List.cons_append, overlay]
    rw [overlay_append F kw ks bs K2 B2 (by simpa using h)]

theorem overlay_no_kw (F : Facts18) (kw : List (String × Val)) :
    ∀ (keys : List String) (base : List Val), keys.length = base.length →
      (∀ k ∈ keys, lookup k kw = none) → overlay F keys base kw = base
  | [], [], _, _ => by simp [overlay]
  | [], _ :: _, h, _ => by simp at h
  | _ :: _, [], h, _ => by simp at h
  | k :: ks, b :: bs, h, hn => by
    simp only [overlay, hn k (by simp)]
    rw [overlay_no_kw F kw ks bs (by simpa using h) (fun k' hk' => hn k' (List.mem_cons_of_mem _ hk'))]

theorem packArgs_pos (F : Facts18) (keys : List String) (args : List Val) (h : args.length ≤ keys.length) :
    packArgs F keys args [] = .ok (fillPos keys.length args) := by
  have hnl : ¬ keys.length < args.length := by omega
  simp only [packArgs, hnl, if_false]
  rw [overlay_no_kw F [] keys _ (by rw [fillPos_length _ _ h]) (fun _ _ => rfl)]

/-- keyword values for a block of keys, on a base of `None`s: every key gets its value
    (a `None` value is either skipped or written over a `None`) -/
theorem overlay_zip_filter (F : Facts18) (p : String × Val → Bool)
    (hp : ∀ q, p q = false → q.2.isNone = true) :
    ∀ (ks : List String) (vs : List Val), ks.Nodup → vs.length = ks.length →
      overlay F ks (List.replicate ks.length Val.none) ((ks.zip vs).filter p) = vs
  | [], [], _, _ => by simp [overlay]
  | [], _ :: _, _, h => by simp at h
  | _ :: _, [], _, h => by simp at h
  | k :: ks, v :: vs, hnd, hlen => by
    have hk : k ∉ ks := (List.nodup_cons.1 hnd).1
    have hnd' : ks.Nodup := (List.nodup_cons.1 hnd).2
    have hrest : ∀ q ∈ (ks.zip vs).filter p, q.1 ≠ k := by
      intro q hq h
      have hq' := (List.mem_filter.1 hq).1
      have := (List.of_mem_zip hq').1
      rw [h] at this
      exact hk this
    simp only [List.length_cons, List.replicate_succ, List.zip_cons_cons, overlay]
    have htail : overlay F ks (List.replicate ks.length Val.none) (List.filter p ((k, v) :: ks.zip vs)) = vs := by
      rw [overlay_congr F _ ((ks.zip vs).filter p)]
      · exact overlay_zip_filter F p hp ks vs hnd' (by simpa using hlen)
      · intro k' hk'
        have hne : k ≠ k' := fun h => hk (h ▸ hk')
        simp only [List.filter_cons]
        split
        · simp [lookup, hne]
        · rfl
    rw [htail]
    congr 1
    simp only [List.filter_cons]
    cases hpv : p (k, v) with
    | true =>
      simp only [if_true, lookup]
      cases hv : v.isNone with
      | false => simp
      | true => cases v <;> simp_all [Val.isNone]
    | false =>
      have hv := hp _ hpv
      simp only [Bool.false_eq_true, if_false, lookup_none_of_not_mem hrest]
      cases v <;> simp_all [Val.isNone]

/-- Passing the first arguments positionally and any of the remaining ones by keyword (those
    that are `None` may be left out, `p` selects which are passed) is the same as passing all
    of them positionally. -/
theorem packArgs_kw_eq_pos (F : Facts18) (K1 K2 : List String) (A1 A2 : List Val)
    (p : String × Val → Bool) (hp : ∀ q, p q = false → q.2.isNone = true)
    (hnd : (K1 ++ K2).Nodup) (h1 : A1.length = K1.length) (h2 : A2.length = K2.length) :
    packArgs F (K1 ++ K2) A1 ((K2.zip A2).filter p) = packArgs F (K1 ++ K2) (A1 ++ A2) [] := by
  rw [packArgs_pos F _ _ (by simp [h1, h2])]
  have hnl : ¬ (K1 ++ K2).length < A1.length := by simp [h1]
  simp only [packArgs, hnl, if_false]
  congr 1
  have hf1 : fillPos (K1 ++ K2).length A1 = A1 ++ List.replicate K2.length Val.none := by
    simp [fillPos, h1]
  have hf2 : fillPos (K1 ++ K2).length (A1 ++ A2) = A1 ++ A2 := by
    simp [fillPos, h1, h2]
  rw [hf1, hf2, overlay_append F _ K1 A1 K2 _ h1.symm]
  have hdis : ∀ k ∈ K1, k ∉ K2 := fun k hk hk2 => (List.nodup_append.1 hnd).2.2 k hk k hk2 rfl
  rw [overlay_no_kw F _ K1 A1 h1.symm]
  · rw [overlay_zip_filter F p hp K2 A2 (List.nodup_append.1 hnd).2.1 h2]
  · intro k hk
    apply lookup_none_of_not_mem
    intro q hq h
    have := (List.of_mem_zip (List.mem_filter.1 hq).1).1
    rw [h] at this
    exact hdis k hk this

/-- a keyword that is not an argument name is ignored by `NullServer` -/
theorem packArgs_unknown_kw (F : Facts18) (keys : List String) (pos : List Val) (kw : List (String × Val))
    (k : String) (v : Val) (hk : k ∉ keys) :
    packArgs F keys pos ((k, v) :: kw) = packArgs F keys pos kw := by
  simp only [packArgs]
  split
  · rfl
  · congr 1
    apply overlay_congr
    intro k' hk'
    have : k ≠ k' := fun h => hk (h ▸ hk')
    simp [lookup, this]

theorem overlay_kw_none (F : Facts18) (hF : F.kwNoneSkipped = true) (kw : List (String × Val)) (k : String)
    (hk : ∀ q ∈ kw, q.1 ≠ k) :
    ∀ (keys : List String) (base : List Val),
      overlay F keys base ((k, .none) :: kw) = overlay F keys base kw
  | [], _ => by simp [overlay]
  | _ :: _, [] => by simp [overlay]
  | k' :: ks, b :: bs => by
    simp only [overlay, overlay_kw_none F hF kw k hk ks bs]
    congr 1
    by_cases h : k = k'
    · subst h
      simp [lookup, lookup_none_of_not_mem hk, Val.isNone, hF]
    · simp [lookup, h]

/-- the stated asymmetry: a keyword argument that is `None` leaves the positional value -/
theorem packArgs_kw_none (F : Facts18) (hF : F.kwNoneSkipped = true) (keys : List String)
    (pos : List Val) (kw : List (String × Val)) (k : String) (hk : ∀ q ∈ kw, q.1 ≠ k) :
    packArgs F keys pos ((k, .none) :: kw) = packArgs F keys pos kw := by
  simp only [packArgs, overlay_kw_none F hF kw k hk]


/-! ### whole calls -/

theorem nullCall_congr_pack (F : Facts18) (s : Sig) (impl : List Val → Result) (keys : List String)
    (hk : s.inKeys = some keys) (pos pos' : List Val) (kw kw' : List (String × Val))
    (h : packArgs F keys pos kw = packArgs F keys pos' kw') :
    nullCall F s impl pos kw = nullCall F s impl pos' kw' := by
  simp only [nullCall, nullRecv, hk, h]

/-- keyword and positional invocation through `NullServer` are equivalent -/
theorem nullCall_kw_eq_pos (F : Facts18) (s : Sig) (impl : List Val → Result) (K1 K2 : List String)
    (hk : s.inKeys = some (K1 ++ K2)) (hnd : (K1 ++ K2).Nodup) (A1 A2 : List Val)
    (p : String × Val → Bool) (hp : ∀ q, p q = false → q.2.isNone = true)
    (h1 : A1.length = K1.length) (h2 : A2.length = K2.length) :
    nullCall F s impl A1 ((K2.zip A2).filter p) = nullCall F s impl (A1 ++ A2) [] :=
  nullCall_congr_pack F s impl _ hk _ _ _ _ (packArgs_kw_eq_pos F K1 K2 A1 A2 p hp hnd h1 h2)

theorem nullRecv_ok (F : Facts18) (s : Sig) (keys : List String) (hk : s.inKeys = some keys)
    (pos : List Val) (kw : List (String × Val)) (hlen : pos.length ≤ keys.length) :
    ∃ recv, nullRecv F s pos kw = .ok recv := by
  have hnl : ¬ keys.length < pos.length := by omega
  simp [nullRecv, hk, packArgs, hnl]

/-- a raised `Fault` reaches the direct caller and the wire client with its fault code; any other
    exception reaches both as a `Server` fault -/
theorem fault_both_core (F : Facts18) (P : ProtoCfg) (τ : Val → Val) (s : Sig) (impl : List Val → Result)
    (keys : List String) (hk : s.inKeys = some keys) (pos : List Val) (kw : List (String × Val))
    (hlen : pos.length ≤ keys.length) (c : Flt)
    (himpl : ∀ recv, impl recv = .fault c ∨ (impl recv = .error ∧ c = "Server")) :
    nullCall F s impl pos kw = .fault c ∧ wireCallCore F P τ s impl pos kw = .fault c := by
  have hnl : ¬ keys.length < pos.length := by omega
  constructor
  · simp only [nullCall, nullRecv, hk, packArgs, hnl, if_false, Res.bind, process]
    rcases himpl (shapeArgs s keys (overlay F keys (fillPos keys.length pos) kw)) with h | ⟨h, hc⟩
    · rw [h]
    · rw [h, hc]
  · simp only [wireCallCore, hk, clientPack, hnl, if_false, Res.bind, process]
    rcases himpl (wireRecv P τ s keys (clientOverlay keys (fillPos keys.length pos) kw)) with h | ⟨h, hc⟩
    · rw [h]
    · rw [h, hc]

/-- an `Ignored` return is delivered to the direct caller and sent as empty over the wire -/
theorem ignored_direct_vs_wire_core (F : Facts18) (hF : F.Good) (P : ProtoCfg) (hP : P.Good) (τ : Val → Val)
    (s : Sig) (impl : List Val → Result) (keys : List String) (hk : s.inKeys = some keys)
    (pos : List Val) (kw : List (String × Val)) (hlen : pos.length ≤ keys.length) (x : Val)
    (himpl : ∀ recv, impl recv = .value (.ignored x)) :
    nullCall F s impl pos kw = .ok (.ignored x) ∧ wireCallCore F P τ s impl pos kw = .ok (emptyReply s) := by
  have hnl : ¬ keys.length < pos.length := by omega
  obtain ⟨h1, h2⟩ := out_agree_ignored F hF P hP τ s x
  constructor
  · simp only [nullCall, nullRecv, hk, packArgs, hnl, if_false, Res.bind, process, himpl, h1]
  · simp only [wireCallCore, hk, clientPack, hnl, if_false, Res.bind, process, himpl, h2]

/-- when nothing is declared to come back the direct caller gets `None`, whatever the function
    returns (as the wire client does) -/
theorem no_return_is_none (F : Facts18) (hF : F.Good) (s : Sig) (hnr : s.noReturn = true)
    (impl : List Val → Result) (pos : List Val) (kw : List (String × Val)) (v : Val)
    (h : nullCall F s impl pos kw = .ok v) : v = .none ∨ v.isIgnored = true := by
  obtain ⟨_, _, _, _, _, hw, hc, _, hew1, hew2⟩ := hF
  have hew := isEmptyWrapper_good F hew1 hew2 s
  simp only [nullCall] at h
  cases hr : nullRecv F s pos kw with
  | fault c => simp [hr, Res.bind] at h
  | exc e => simp [hr, Res.bind] at h
  | ok recv =>
    simp only [hr, Res.bind, process] at h
    cases hi : impl recv with
    | fault c => simp [hi] at h
    | error => simp [hi] at h
    | value r =>
      simp only [hi] at h
      have hwo : wrapOut F s r = .seq [r] := by
        simp only [wrapOut, hw]
        by_cases hst : s.style = .wrapped
        · have : s.outLen = 0 := by
            simp only [Sig.noReturn, hst, Returns.truthy] at hnr
            unfold Sig.outLen
            cases hrr : s.returns <;> simp_all
          simp [this]
        · have hbs : s.bodyStyle ≠ .wrapped := fun h => hst ((bodyStyle_wrapped_iff s).1 h)
          simp [hbs]
      rw [hwo] at h
      cases hig : r.isIgnored with
      | true =>
        match r, hig with
        | .ignored x, _ =>
          simp [cbSync] at h
          right; rw [← h]; rfl
      | false =>
        rw [cbSync_seq_plain F s r [] hig] at h
        simp [hc, hew, hnr] at h
        left; exact h.symm

theorem takeOut_ne_exc (P : ProtoCfg) : ∀ (n : Nat) (vs : List Val) (e : String), takeOut P n vs ≠ .exc e
  | 0, _, _ => by simp [takeOut]
  | n + 1, [], _ => by cases hs : P.shortOut <;> simp [takeOut, hs]
  | n + 1, x :: xs, e => by
    simp only [takeOut]
    cases h : takeOut P n xs with
    | ok r => simp [Res.bind]
    | fault c => simp [Res.bind]
    | exc e' => exact absurd h (takeOut_ne_exc P n xs e')

theorem respond_ne_exc (P : ProtoCfg) (τ : Val → Val) (s : Sig) (out : Val) (e : String) :
    respondCore P τ s out ≠ .exc e := by
  unfold respondCore
  split
  · split
    · next vs =>
      cases h : takeOut P s.outLen vs with
      | ok r => simp [Res.bind]
      | fault c => simp [Res.bind]
      | exc e' => exact absurd h (takeOut_ne_exc P _ vs e')
    · simp
  · cases P.bareOut
    · simp only
      split
      · split <;> simp
      · simp
    · simp

/-- a conformant call through `NullServer` ends in a value or a `Fault`, never in another
    exception class -/
theorem null_total (F : Facts18) (hF : F.Good) (s : Sig) (impl : List Val → Result) (keys : List String)
    (hk : s.inKeys = some keys) (pos : List Val) (kw : List (String × Val))
    (hlen : pos.length ≤ keys.length) (τ : Val → Val) (hprog : ProgramOk τ s impl) :
    ∀ e, nullCall F s impl pos kw ≠ .exc e := by
  intro e h
  have hP : (ProtoCfg.mk .first .padNone .methodName .nil .nil).Good := ⟨rfl, rfl, rfl⟩
  obtain ⟨recv, hr⟩ := nullRecv_ok F s keys hk pos kw hlen
  simp only [nullCall, hr, Res.bind, process] at h
  cases hi : impl recv with
  | fault c => simp [hi] at h
  | error => simp [hi] at h
  | value r =>
    simp only [hi] at h
    cases hig : r.isIgnored with
    | true =>
      match r, hig with
      | .ignored x, _ =>
        rw [(out_agree_ignored F hF _ hP τ s x).1] at h
        cases h
    | false =>
      have := out_agree_plain F hF _ hP τ s r hig (hprog _ _ hi)
      rw [h] at this
      exact respond_ne_exc _ τ s _ e this.symm


/-- a single declared return value is handed to the direct caller as it is -/
theorem cbSync_single (F : Facts18) (hF : F.Good) (s : Sig) (r : Val) (hr : r.isIgnored = false)
    (hnr : s.noReturn = false) (h1 : ¬ (s.style = .wrapped ∧ 2 ≤ s.outLen)) :
    cbSync F s (wrapOut F s r) = .ok r := by
  have hiob := isOutBare_iff F hF s
  obtain ⟨h1', _, _, _, _, hw, hc, _, hew1, hew2⟩ := hF
  have hew := isEmptyWrapper_good F hew1 hew2 s
  by_cases hst : s.style = .wrapped
  · have hbs := bodyStyle_of_wrapped hst
    have hn : s.outLen ≤ 1 := by
      have : ¬ 2 ≤ s.outLen := fun h => h1 ⟨hst, h⟩
      omega
    have hwo : wrapOut F s r = .seq [r] := by simp [wrapOut, hbs, hw, hn]
    rw [hwo, cbSync_seq_plain F s r [] hr]
    have hl : s.outLen = 1 := by
      simp only [Sig.noReturn, hst, Returns.truthy] at hnr
      unfold Sig.outLen at hn ⊢
      cases hrr : s.returns <;> simp_all
      omega
    simp [hc, hew, hnr, hbs, h1', hl, first]
  · have hbs : s.bodyStyle ≠ .wrapped := fun h => hst ((bodyStyle_wrapped_iff s).1 h)
    have hwo : wrapOut F s r = .seq [r] := by simp [wrapOut, hbs]
    rw [hwo, cbSync_seq_plain F s r [] hr]
    simp [hc, hew, hnr, hiob.2 hst, first]

/-- a generator result: the direct caller gets the generator, the wire client the sequence of
    its items -/
theorem generator_result_core (F : Facts18) (hF : F.Good) (P : ProtoCfg) (hP : P.Good) (τ : Val → Val)
    (s : Sig) (impl : List Val → Result) (keys : List String) (hk : s.inKeys = some keys)
    (pos : List Val) (kw : List (String × Val)) (hlen : pos.length ≤ keys.length) (xs : List Val)
    (hnr : s.noReturn = false) (h1 : ¬ (s.style = .wrapped ∧ 2 ≤ s.outLen))
    (himpl : ∀ recv, impl recv = .value (.gen xs)) (hτ : τ (.seq xs) = .seq xs) :
    nullCall F s impl pos kw = .ok (.gen xs) ∧ wireCallCore F P τ s impl pos kw = .ok (.seq xs) := by
  have hnl : ¬ keys.length < pos.length := by omega
  have hcb := cbSync_single F hF s (.gen xs) rfl hnr h1
  have hok : ResultOk τ s (.gen xs) := by
    right
    refine ⟨rfl, ?_⟩
    rw [if_neg h1]
    right
    simp [xfer, norm, hτ]
  have hag := out_agree_plain F hF P hP τ s (.gen xs) rfl hok
  rw [hcb] at hag
  constructor
  · simp only [nullCall, nullRecv, hk, packArgs, hnl, if_false, Res.bind, process, himpl, hcb]
  · simp only [wireCallCore, hk, clientPack, hnl, if_false, Res.bind, process, himpl, ← hag]
    rfl

/-! ### each decision in `Facts18.Good` / `ProtoCfg.Good` is needed -/

/-- a protocol that serialises the whole `ctx.out_object` list for the non-wrapped body styles
    answers every such call with a Server fault -/
theorem wholeList_breaks_core (P : ProtoCfg) (hP : P.bareOut = .wholeList) (τ : Val → Val)
    (s : Sig) (hst : s.style ≠ .wrapped) (out : Val) : respondCore P τ s out = .fault "Server" := by
  have hbs : s.bodyStyle ≠ .wrapped := fun h => hst ((bodyStyle_wrapped_iff s).1 h)
  simp [respondCore, hbs, hP]

/-- replacing a lone `Ignored` by `()` makes a protocol that indexes `ctx.out_object` fail -/
theorem emptyTuple_breaks_core (F : Facts18) (hF : F.ignMany = .emptyTuple) (P : ProtoCfg)
    (hP : P.shortOut = .indexError) (τ : Val → Val) (s : Sig) (hst : s.style = .wrapped)
    (hn : 1 ≤ s.outLen) (x : Val) :
    respondCore P τ s (ignoredOnWire F s (.ignored x)) = .fault "Server" := by
  have hbs := bodyStyle_of_wrapped hst
  simp only [ignoredOnWire, hF, respondCore, hbs, if_true]
  match h : s.outLen, hn with
  | n + 1, _ => simp [takeOut, hP, Res.bind]

/-- testing `is_out_bare()` first hands an undeclared return value to the direct caller -/
theorem outBareFirst_breaks (F : Facts18) (hF : F.cbOrder = .outBareFirst) (s : Sig)
    (hob : F.isOutBare s.bodyStyle = true) (r : Val) (hr : r.isIgnored = false) :
    cbSync F s (.seq [r]) = .ok r := by
  rw [cbSync_seq_plain F s r [] hr]
  simp [hF, hob, first]

/-- looking the bare argument up under its class name loses it -/
theorem className_breaks (P : ProtoCfg) (hP : P.bareIn = .className) (τ : Val → Val) (s : Sig)
    (hbs : s.bodyStyle = .bare) (keys : List String) (sent : List Val) :
    wireRecv P τ s keys sent = [.seq []] := by
  simp [wireRecv, hbs, hP]

/-- rendering a missing object as an empty one hands the wire client an instance where the
    direct caller gets `None` -/
theorem emptyObject_breaks (P : ProtoCfg) (hP : P.noneSingle = .emptyObject) (s : Sig) (cls : String)
    (fs : List String) (hr : s.returns = .one (.complex cls fs)) (rest : List Val) :
    unwrapWrapped P s 1 (Val.none :: rest) = .obj cls (fs.map fun f => (f, Val.none)) := by
  simp [unwrapWrapped, singleAs, hP, hr]

/-- a declared return type is handed over as it is, also when it is a class without members -/
theorem cbSync_declared_one (F : Facts18) (hF : F.Good) (s : Sig) (k : RetKind) (hk : s.returns = .one k)
    (r : Val) (hr : r.isIgnored = false) : cbSync F s (wrapOut F s r) = .ok r := by
  apply cbSync_single F hF s r hr
  · unfold Sig.noReturn Returns.truthy
    cases s.style <;> simp [hk]
  · intro h
    have : s.outLen = 1 := by simp [Sig.outLen, hk]
    omega

/-- without the `_wrapper` test a member-less class of the user counts as "nothing declared": the
    direct caller gets `None` where an instance was returned -/
theorem membersOnly_breaks (F : Facts18) (hc : F.cbOrder = .noReturnFirst) (hw : F.ewWrapper = false)
    (s : Sig) (k : RetKind) (hst : s.style ≠ .wrapped) (hk : s.returns = .one k)
    (h0 : k.complexFields = some 0) (r : Val) (hr : r.isIgnored = false) :
    cbSync F s (.seq [r]) = .ok .none := by
  rw [cbSync_seq_plain F s r [] hr]
  have : isEmptyWrapper F s = true := by
    unfold isEmptyWrapper Sig.outMembers
    cases hs : s.style <;> simp_all
  simp [hc, this]

/-- without the member count every synthesised wrapper counts as empty: a wrapped method with one
    return value hands `None` to the direct caller -/
theorem wrapperOnly_breaks (F : Facts18) (hc : F.cbOrder = .noReturnFirst) (hm : F.ewMembers = false)
    (s : Sig) (hst : s.style = .wrapped) (r : Val) (hr : r.isIgnored = false) :
    cbSync F s (.seq [r]) = .ok .none := by
  rw [cbSync_seq_plain F s r [] hr]
  have : isEmptyWrapper F s = true := by
    simp [isEmptyWrapper, Sig.outMembers, Sig.outIsWrapper, hst, hm]
  simp [hc, this]

/-! ### the wire path including `_bare_response` -/

theorem bareNoneAs_of_ne_none (P : ProtoCfg) (s : Sig) (v : Val) (h : v.isNone = false) :
    bareNoneAs P s v = v := by
  unfold bareNoneAs
  cases v <;> simp_all [Val.isNone]

theorem viewVal_of_ne_none (P : ProtoCfg) (s : Sig) (v : Val) (h : v.isNone = false) :
    viewVal P s v = v := by
  unfold viewVal; split
  · rfl
  · exact bareNoneAs_of_ne_none P s v h

theorem null_eq_wire (F : Facts18) (hF : F.Good) (P : ProtoCfg) (hP : P.Good) (τ : Val → Val)
    (s : Sig) (impl : List Val → Result) (pos : List Val) (kw : List (String × Val))
    (hprog : ProgramOkOn τ s impl (nullRecv F s pos kw)) (hkw : KwOk F kw) (hcall : CallOk τ s pos kw) :
    wireViewP P s (nullCall F s impl pos kw) = wireCall F P τ s impl pos kw := by
  rw [wireCall_eq_map, ← null_eq_wire_core F hF P hP τ s impl pos kw hprog hkw hcall]
  rfl

theorem fault_both (F : Facts18) (P : ProtoCfg) (τ : Val → Val) (s : Sig) (impl : List Val → Result)
    (keys : List String) (hk : s.inKeys = some keys) (pos : List Val) (kw : List (String × Val))
    (hlen : pos.length ≤ keys.length) (c : Flt)
    (himpl : ∀ recv, impl recv = .fault c ∨ (impl recv = .error ∧ c = "Server")) :
    nullCall F s impl pos kw = .fault c ∧ wireCall F P τ s impl pos kw = .fault c := by
  obtain ⟨h1, h2⟩ := fault_both_core F P τ s impl keys hk pos kw hlen c himpl
  exact ⟨h1, by rw [wireCall_eq_map, h2]; rfl⟩

theorem ignored_direct_vs_wire (F : Facts18) (hF : F.Good) (P : ProtoCfg) (hP : P.Good) (τ : Val → Val)
    (s : Sig) (impl : List Val → Result) (keys : List String) (hk : s.inKeys = some keys)
    (pos : List Val) (kw : List (String × Val)) (hlen : pos.length ≤ keys.length) (x : Val)
    (himpl : ∀ recv, impl recv = .value (.ignored x)) :
    nullCall F s impl pos kw = .ok (.ignored x) ∧
    wireCall F P τ s impl pos kw = .ok (viewVal P s (emptyReply s)) := by
  obtain ⟨h1, h2⟩ := ignored_direct_vs_wire_core F hF P hP τ s impl keys hk pos kw hlen x himpl
  exact ⟨h1, by rw [wireCall_eq_map, h2]; rfl⟩

theorem generator_result (F : Facts18) (hF : F.Good) (P : ProtoCfg) (hP : P.Good) (τ : Val → Val)
    (s : Sig) (impl : List Val → Result) (keys : List String) (hk : s.inKeys = some keys)
    (pos : List Val) (kw : List (String × Val)) (hlen : pos.length ≤ keys.length) (xs : List Val)
    (hnr : s.noReturn = false) (h1 : ¬ (s.style = .wrapped ∧ 2 ≤ s.outLen))
    (himpl : ∀ recv, impl recv = .value (.gen xs)) (hτ : τ (.seq xs) = .seq xs) :
    nullCall F s impl pos kw = .ok (.gen xs) ∧ wireCall F P τ s impl pos kw = .ok (.seq xs) := by
  obtain ⟨h1', h2⟩ := generator_result_core F hF P hP τ s impl keys hk pos kw hlen xs hnr h1 himpl hτ
  refine ⟨h1', ?_⟩
  rw [wireCall_eq_map, h2]
  simp only [Res.map]
  rw [viewVal_of_ne_none P s _ rfl]

theorem wholeList_breaks (P : ProtoCfg) (hP : P.bareOut = .wholeList) (τ : Val → Val)
    (s : Sig) (hst : s.style ≠ .wrapped) (out : Val) : respond P τ s out = .fault "Server" := by
  unfold respond; rw [wholeList_breaks_core P hP τ s hst out]; rfl

theorem emptyTuple_breaks (F : Facts18) (hF : F.ignMany = .emptyTuple) (P : ProtoCfg)
    (hP : P.shortOut = .indexError) (τ : Val → Val) (s : Sig) (hst : s.style = .wrapped)
    (hn : 1 ≤ s.outLen) (x : Val) :
    respond P τ s (ignoredOnWire F s (.ignored x)) = .fault "Server" := by
  unfold respond; rw [emptyTuple_breaks_core F hF P hP τ s hst hn x]; rfl

/-- the effect of `_bare_response`, whichever way the protocol goes: a `None` returned where a
    member-less class is declared arrives as `None` or as an empty instance of that class, and
    everything else is untouched -/
theorem viewVal_cases (P : ProtoCfg) (s : Sig) (v : Val) :
    viewVal P s v = v ∨
    (∃ cls, P.bareNone = .emptyInstance ∧ s.style ≠ .wrapped ∧ s.returns = .one (.complex cls []) ∧
      v = .none ∧ viewVal P s v = .obj cls []) := by
  unfold viewVal
  split
  · exact Or.inl rfl
  · next hst =>
    cases hb : P.bareNone with
    | nil => left; simp [bareNoneAs, hb]
    | emptyInstance =>
      cases hr : s.returns with
      | none => left; simp [bareNoneAs, hr]
      | many n => left; simp [bareNoneAs, hr]
      | one k =>
        cases k with
        | prim => left; simp [bareNoneAs, hr]
        | array => left; simp [bareNoneAs, hr]
        | complex cls fs =>
          cases fs with
          | cons f fs => left; simp [bareNoneAs, hr]
          | nil =>
            cases v with
            | none => right; exact ⟨cls, rfl, hst, rfl, rfl, by simp [bareNoneAs, hb, hr]⟩
            | _ => left; simp [bareNoneAs, hb, hr]

theorem viewVal_nil (P : ProtoCfg) (h : P.bareNone = .nil) (s : Sig) (v : Val) : viewVal P s v = v := by
  simp [viewVal, bareNoneAs, h]

end SpyneModel.Null
