/-
  C05 for dict documents, the hard direction: under soft validation EVERYTHING `_from_dict_value` /
  `_doc_to_object` accept — from any document — satisfies every declared constraint (`conformsOne`): nullability,
  occurrence bounds (via the `frequencies` bookkeeping), integer ranges and bounds, string length / pattern /
  enumeration, lexical well-formedness. Leaves: `LeafLaws.soft`; tree: the slot invariant `SlotEx` (value together
  with its occurrence count) through the member loops, then `_check_freq_dict`.
  Stated for a registry without subclasses (`conformsOne` demands the exact class).
-/
import Proofs.HierSafe
import Proofs.HierRound
namespace SpyneModel.Hier
open SpyneModel
variable {F : Facts08} {G : Facts02} {cfg : Cfg}

/-! ### leaves: under soft validation a clean result satisfies every declared facet -/

/-- for a clean handler result, `validate_string` on the document and `validate_native` on the value decide the facets -/
def LeafEx (F : Facts08) (G : Facts02) (p : PrimTy) (d : Doc) : Res Val → Prop
  | .ok v false => strOk F G p d = true → validateNative p v = true → p.valueOk v = true
  | _ => True

theorem leafEx_ofOutcome (L : LeafLaws F) (p : PrimTy) (s : Text) :
    LeafEx F G p (.str s) (ofOutcome (leafFromText F p s)) := by
  cases h : leafFromText F p s with
  | ok v =>
    simp only [ofOutcome, Res.good, LeafEx, strOk]
    intro h1 h2
    rw [← L.soft p s v h, h1, h2]; rfl
  | fault => trivial
  | crash e => trivial

theorem LeafEx.int {p : PrimTy} {d : Doc} (k r i) (hp : p = .integer k r) : LeafEx F G p d (.good (.int i)) := by
  subst hp
  intro _ h; rw [← validateNative_int]; exact h

theorem intOfFloat_ex (k r) (j : Bool) (v : Option Int) (d : Doc) : LeafEx F G (.integer k r) d (intOfFloat G j v) := by
  cases v with
  | none => trivial
  | some i => simp only [intOfFloat]; split; exact LeafEx.int k r i rfl; trivial

theorem intInJson_ex (k r) (d : Doc) : LeafEx F G (.integer k r) d (intInJson G d) := by
  cases d <;> simp only [intInJson] <;>
    first | trivial | exact LeafEx.int k r _ rfl | exact intOfFloat_ex k r _ _ _

theorem intInMp_ex (k r) (d : Doc) : LeafEx F G (.integer k r) d (intInMp F G k d) := by
  cases d <;> simp only [intInMp] <;>
    first | trivial | exact LeafEx.int k r _ rfl | exact intOfFloat_ex k r _ _ _ | skip
  case str s =>
    unfold intFromText
    split
    · trivial
    · split
      · simp only [ofOutcome, Res.good_map]; exact LeafEx.int k r _ rfl
      · trivial
  case bytes bs =>
    split
    · trivial
    · split
      · split
        · exact LeafEx.int k r _ rfl
        · trivial
      · trivial

theorem boolIn_ex (d : Doc) : LeafEx F G .boolean d (boolIn G d) := by
  have hb : ∀ b, LeafEx F G .boolean d (.good (.bool b)) := fun b _ _ => rfl
  cases d <;> simp only [boolIn] <;> first | trivial | exact hb _ | skip
  case int i => split; (split; exact hb _; trivial); trivial
  case float v =>
    cases v with
    | none => trivial
    | some i => simp only [boolIn]; split; (split; exact hb _; trivial); trivial

theorem strIn_ex (L : LeafLaws F) (hb : G.binTextValidated = true) (a b c e) (d : Doc) :
    LeafEx F G (.unicode a b c e) d (strIn G d) := by
  have key : ∀ s, validateString F (.unicode a b c e) s = true → validateNative (.unicode a b c e) (.str s) = true →
      (PrimTy.unicode a b c e).valueOk (.str s) = true := by
    intro s h1 h2
    have := L.soft (.unicode a b c e) s (.str s) rfl
    rw [← this, h1, h2]; rfl
  cases d <;> simp only [strIn] <;> first | trivial | skip
  case str s => exact fun h1 h2 => key s (by simpa [strOk] using h1) h2
  case bytes bs =>
    cases hd : utf8Dec bs with
    | none => simp only []; split <;> trivial
    | some s =>
      simp only []
      intro h1 h2
      exact key s (by simpa [strOk, hb, hd] using h1) h2

theorem textIn_ex (L : LeafLaws F) (bt : Bool) (p : PrimTy) (hp : ∀ s, validateString F p s = true) (d : Doc) :
    LeafEx F G p d (textIn F G bt p d) := by
  cases d <;> simp only [textIn, kindError] <;> first | (split <;> trivial) | skip
  case str s => exact leafEx_ofOutcome L p s
  case bytes bs =>
    split
    · split
      · rename_i s hs
        cases h : leafFromText F p s with
        | ok v =>
          simp only [ofOutcome, Res.good, LeafEx]
          intro _ h2
          rw [← L.soft p s v h, hp s, h2]; rfl
        | fault => trivial
        | crash e => trivial
      · split <;> trivial
    · split <;> trivial

theorem boolPassIn_ex (d : Doc) : LeafEx F G .boolean d (boolPassIn d) := by
  cases d <;> simp only [boolPassIn, leakVal] <;> first | trivial | exact fun _ _ => rfl

theorem binDec_ex (L : LeafLaws F) (enc : BinEnc) (d : Doc) (s : Text) : LeafEx F G (.bytes enc) d (binDec F enc s) := by
  unfold binDec
  cases h : leafFromText F (.bytes enc) s with
  | ok v =>
    simp only [ofOutcome, Res.good, LeafEx]
    intro _ _
    have := L.soft (.bytes enc) s v h
    simpa [validateString, validateNative] using this.symm
  | fault => trivial
  | crash e => trivial

theorem bytesIn_ex (L : LeafLaws F) (enc : BinEnc) (raw : Bool) (d : Doc) :
    LeafEx F G (.bytes enc) d (bytesIn F G enc raw d) := by
  unfold bytesIn
  cases raw
  · simp only [Bool.false_eq_true, if_false]
    cases d <;> simp only [] <;> first | trivial | exact binDec_ex L _ _ _ | skip
    case bytes bs => split; exact binDec_ex L _ _ _; trivial
    case list ds =>
      split
      · split; exact binDec_ex L _ _ _; trivial
      · split <;> trivial
    all_goals (split <;> (try split) <;> trivial)
  · simp only [if_true]
    cases d <;> simp only [] <;> first | (split <;> trivial) | skip
    case bytes bs =>
      split
      · rename_i h; exact fun _ _ => by simpa [PrimTy.valueOk] using h
      · trivial

theorem enumIn_ex (names : List Text) (d : Doc) : LeafEx F G (.enum names) d (enumIn names d) := by
  cases d <;> simp only [enumIn] <;> first | trivial | skip
  case str s =>
    split
    · rename_i h; exact fun _ _ => by simpa [PrimTy.valueOk] using h
    · trivial

theorem leafIn_ex (L : LeafLaws F) (hb : G.binTextValidated = true) (p : PrimTy) (d : Doc) :
    LeafEx F G p d (leafIn F G cfg p d) := by
  cases p <;> simp only [leafIn]
  case integer k r => split; exact intInMp_ex k r d; exact intInJson_ex k r d
  case boolean => split; exact boolPassIn_ex d; exact boolIn_ex d
  case unicode a b c e => exact strIn_ex L hb a b c e d
  case date => exact textIn_ex L _ _ (fun _ => rfl) d
  case time => exact textIn_ex L _ _ (fun _ => rfl) d
  case dateTime => exact textIn_ex L _ _ (fun _ => rfl) d
  case duration => exact textIn_ex L _ _ (fun _ => rfl) d
  case bytes enc => exact bytesIn_ex L enc _ d
  case enum names => exact enumIn_ex names d


theorem kindOk_ne_none (p : PrimTy) (v : Val) (h : p.kindOk v = true) : v ≠ .none := by
  intro hv; subst hv; cases p <;> simp [PrimTy.kindOk] at h

theorem postLeaf_exact (L : LeafLaws F) (hG : G.Good) (hb : G.binTextValidated = true) (hs : cfg.soft = true) (p : PrimTy) (o : Occ) (d : Doc)
    (v : Val) (l : Bool) (hso : strOk F G p d = true)
    (h : postLeaf G cfg p d (leafIn F G cfg p d) = .ok v l) : conformsOne (.prim p o) v = true := by
  have hsafe := leafIn_safe (cfg := cfg) L hG p d
  have hex := leafIn_ex (cfg := cfg) (G := G) L hb p d
  revert h hsafe hex
  generalize leafIn F G cfg p d = r
  intro h hsafe hex
  cases r with
  | fault => simp [postLeaf] at h
  | crash e => exact hsafe.elim
  | ok v' l' =>
    cases l'
    · simp only [postLeaf, hs, Bool.not_true, Bool.false_or] at h
      split at h
      · rename_i hvn
        simp only [Res.good, Res.ok.injEq] at h
        rw [← h.1, conformsOne_prim p o v' (kindOk_ne_none p v' hsafe)]
        exact hex hso hvn
      · cases h
    · simp only [postLeaf] at h
      rw [hsafe hs] at h; cases h

/-- C05 at a leaf: under soft validation whatever `_from_dict_value` accepts for a primitive member — from whatever
    document node — satisfies every declared constraint of the member (nullability, range, bounds, length, pattern,
    enumeration, lexical form) -/
theorem primIn_exact (L : LeafLaws F) (hG : G.Good) (hb : G.binTextValidated = true) (hs : cfg.soft = true) (p : PrimTy) (o : Occ) (d : Doc)
    (v : Val) (l : Bool) (h : primIn F G cfg p o d = .ok v l) : conformsOne (.prim p o) v = true := by
  unfold primIn at h
  simp only [hs, Bool.true_and] at h
  split at h
  · cases h
  · rename_i hpre
    have hso : strOk F G p d = true := by
      cases h1 : strOk F G p d with
      | true => rfl
      | false => exact absurd (by simp [h1]) hpre
    cases d
    case null =>
      simp only [] at h
      split at h
      · cases h
      · rename_i hn
        simp only [Res.good, Res.ok.injEq] at h
        rw [← h.1, conformsOne_none]
        simpa [Ty.occ] using hn
    all_goals exact postLeaf_exact L hG hb hs p o _ v l hso h


/-! ### members: values together with their occurrence counts -/

/-- what a member slot holds while `_doc_to_object` runs under soft validation -/
def SlotEx (t : Ty) (v : Val) (c : Nat) : Prop :=
  if t.occ.repeated = true then
    (v = .none ∧ c = 0) ∨ (∃ vs, v = .list vs ∧ c = vs.length ∧ ∀ x ∈ vs, conformsOne t x = true)
  else (v = .none ∧ c = 0) ∨ (1 ≤ c ∧ conformsOne t v = true)

def AccEx : Fields → Acc → Prop
  | (n, t) :: fs, (m, v, c) :: ss => n = m ∧ SlotEx t v c ∧ AccEx fs ss
  | [], [] => True
  | _, _ => False

theorem accEx_init (fs : Fields) : AccEx fs (initAcc fs) := by
  induction fs with
  | nil => trivial
  | cons nt fs ih =>
    obtain ⟨n, t⟩ := nt
    refine ⟨rfl, ?_, ih⟩
    unfold SlotEx; split <;> exact Or.inl ⟨rfl, rfl⟩

theorem accEx_putSlot : ∀ (fs : Fields) (a : Acc) (n : Text) (t : Ty) (f : Val → Val) (k : Nat),
    AccEx fs a → lookupField fs n = some t → (∀ old c, SlotEx t old c → SlotEx t (f old) (c + k)) →
    AccEx fs (putSlot a n f k) := by
  intro fs
  induction fs with
  | nil => intro a n t f k _ hl; simp [lookupField] at hl
  | cons nt fs ih =>
    obtain ⟨m, u⟩ := nt
    intro a n t f k h hl hf
    cases a with
    | nil => exact h.elim
    | cons s ss =>
      obtain ⟨m', v, c⟩ := s
      obtain ⟨rfl, hs, hr⟩ := h
      simp only [lookupField] at hl
      by_cases hmn : m = n
      · subst hmn
        simp only [if_true, Option.some.injEq] at hl
        subst hl
        simp only [putSlot, if_true]
        exact ⟨rfl, hf v c hs, hr⟩
      · simp only [hmn, if_false] at hl
        simp only [putSlot, hmn, if_false]
        exact ⟨rfl, hs, ih ss n t f k hr hl hf⟩

theorem slotEx_put (t : Ty) (x : Val) (hr : t.occ.repeated = false) (hx : conformsOne t x = true) :
    ∀ old c, SlotEx t old c → SlotEx t x (c + 1) := by
  intro old c _
  unfold SlotEx; simp only [hr, Bool.false_eq_true, if_false]
  exact Or.inr ⟨by omega, hx⟩

theorem slotEx_putItems (t : Ty) (vs : List Val) (hr : t.occ.repeated = true)
    (hx : ∀ x ∈ vs, conformsOne t x = true) :
    ∀ old c, SlotEx t old c → SlotEx t (.list (oldItems old ++ vs)) (c + vs.length) := by
  intro old c h
  unfold SlotEx at h ⊢
  simp only [hr, if_true] at h ⊢
  rcases h with ⟨rfl, rfl⟩ | ⟨ws, rfl, rfl, hws⟩
  · exact Or.inr ⟨vs, by simp [oldItems], by simp, hx⟩
  · refine Or.inr ⟨ws ++ vs, by simp [oldItems], by simp, ?_⟩
    intro x hxm
    rcases List.mem_append.1 hxm with h | h
    · exact hws x h
    · exact hx x h

/-- the condition `conformsFields` puts on one member value -/
def fieldOk (t : Ty) (v : Val) : Bool :=
  match v with
  | .none => decide (t.occ.minOccurs = 0) || (t.occ.nillable && !t.occ.repeated)
  | v => conforms t v

theorem conformsFields_cons_eq (n m : Text) (t : Ty) (v : Val) (fs : Fields) (fvs : List (Text × Val)) :
    conformsFields ((n, t) :: fs) ((m, v) :: fvs) = (decide (n = m) && fieldOk t v && conformsFields fs fvs) := by
  rw [conformsFields.eq_def]
  cases v <;> simp [fieldOk]

/-- a slot that passed the frequency check is a conformant member value -/
theorem slot_conforms (t : Ty) (v : Val) (c : Nat) (hwf : wfTy t = true) (h5 : c05Ty t = true) (hs : SlotEx t v c)
    (hb : (freqBounds t).1 ≤ c ∧ ∀ m, (freqBounds t).2 = some m → c ≤ m) : fieldOk t v = true := by
  unfold SlotEx at hs
  cases hr : t.occ.repeated
  · simp only [hr, Bool.false_eq_true, if_false] at hs
    rcases hs with ⟨rfl, rfl⟩ | ⟨hc, hv⟩
    · -- absent
      cases t with
      | arr m e o =>
        simp only [c05Ty, Bool.and_eq_true, Bool.or_eq_true, decide_eq_true_eq] at h5
        simp only [Ty.occ] at hr
        rcases h5.1 with h | h <;> simp [fieldOk, Ty.occ, h, hr]
      | prim p o =>
        have h0 : o.minOccurs = 0 := by have := hb.1; simp [freqBounds, Ty.occ] at this; omega
        simp [fieldOk, Ty.occ, h0]
      | obj a b c d o =>
        have h0 : o.minOccurs = 0 := by have := hb.1; simp [freqBounds, Ty.occ] at this; omega
        simp [fieldOk, Ty.occ, h0]
    · by_cases hvn : v = .none
      · subst hvn
        rw [conformsOne_none] at hv
        simp [fieldOk, hv, hr]
      · have : conforms t v = true := by rw [conforms_single t v hr]; exact hv
        cases v <;> first | exact absurd rfl hvn | exact this
  · simp only [hr, if_true] at hs
    have hna : ∀ m e o, t ≠ .arr m e o := by
      intro m e o h; subst h
      simp [wfTy] at hwf
      simp [Ty.occ, Occ.repeated, hwf.1.1.1.1] at hr
    have hfb : freqBounds t = (t.occ.minOccurs, t.occ.maxOccurs) := by
      cases t with
      | arr m e o => exact absurd rfl (hna m e o)
      | _ => rfl
    rw [hfb] at hb
    rcases hs with ⟨rfl, rfl⟩ | ⟨vs, rfl, rfl, hvs⟩
    · have h0 : t.occ.minOccurs = 0 := by have := hb.1; simp at this; omega
      simp [fieldOk, h0]
    · simp only [fieldOk]
      unfold conforms
      simp only [hr, if_true, Bool.and_eq_true]
      refine ⟨?_, (conformsItems_iff t vs).2 hvs⟩
      simp only [Occ.countOk, Bool.and_eq_true, decide_eq_true_eq]
      refine ⟨hb.1, ?_⟩
      cases hm : t.occ.maxOccurs with
      | none => rfl
      | some m => simp; exact hb.2 m hm

theorem checkFreq_cons (n : Text) (t : Ty) (fs : Fields) (m : Text) (v : Val) (c : Nat) (ss : Acc)
    (h : checkFreq ((n, t) :: fs) ((m, v, c) :: ss) = true) :
    ((freqBounds t).1 ≤ c ∧ ∀ k, (freqBounds t).2 = some k → c ≤ k) ∧ checkFreq fs ss = true := by
  simp only [checkFreq, Bool.and_eq_true, decide_eq_true_eq] at h
  refine ⟨⟨h.1.1, ?_⟩, h.2⟩
  intro k hk
  have := h.1.2
  rw [hk] at this
  simpa using this

theorem conformsFields_of_acc : ∀ (fs : Fields) (a : Acc), wfFields fs = true → c05Fields fs = true → AccEx fs a →
    checkFreq fs a = true → conformsFields fs (a.map (fun s => (s.1, s.2.1))) = true := by
  intro fs
  induction fs with
  | nil =>
    intro a _ _ h _
    cases a with
    | nil => rw [conformsFields.eq_def]; simp
    | cons s ss => exact h.elim
  | cons nt fs ih =>
    obtain ⟨n, t⟩ := nt
    intro a hwf h5 h hf
    cases a with
    | nil => exact h.elim
    | cons s ss =>
      obtain ⟨m, v, c⟩ := s
      obtain ⟨rfl, hs, hr⟩ := h
      have hw : wfTy t = true ∧ wfFields fs = true := by simpa [wfFields] using hwf
      have h5' : c05Ty t = true ∧ c05Fields fs = true := by simpa [c05Fields] using h5
      obtain ⟨hb, hfr⟩ := checkFreq_cons n t fs n v c ss hf
      have h1 := slot_conforms t v c hw.1 h5'.1 hs hb
      have h2 := ih ss hw.2 h5'.2 hr hfr
      simp only [List.map_cons, conformsFields_cons_eq, decide_true, Bool.true_and, h1, h2, Bool.and_self]


/-! ### the tree: everything soft validation accepts conforms -/

/-- `v` satisfies every constraint declared on one occurrence of `t` -/
def Ex (t : Ty) (v : Val) : Prop := conformsOne t v = true

theorem Safe.strengthen {α} {ok ok' : α → Prop} {r : Res α} (h : Safe cfg ok r)
    (h' : ∀ a l, r = .ok a l → cfg.soft = true → ok' a) : Safe cfg ok' r := by
  cases r with
  | ok a l => exact fun hs => ⟨(h hs).1, h' a l rfl hs⟩
  | fault => trivial
  | crash e => exact h.elim

theorem primIn_ex (L : LeafLaws F) (hG : G.Good) (hb : G.binTextValidated = true) (p : PrimTy) (o : Occ) (d : Doc) :
    Safe cfg (Ex (.prim p o)) (primIn F G cfg p o d) :=
  Safe.strengthen ((safe_iff_safeRes _ _).2 (primIn_safe L hG p o d))
    (fun v l h hs => primIn_exact L hG hb hs p o d v l h)

theorem occInc_good (hG : G.Good) (k : Nat) : occInc G k = k := by simp [occInc, hG.occ]

def IsInstEx (cls : Text) (fs : Fields) (v : Val) : Prop :=
  ∃ vals, v = .obj cls vals ∧ conformsFields fs vals = true

/-- hypotheses of the exactness induction: bytes text is length-checked, and no class opts out of the occurrence check -/
structure ExHyp (G : Facts02) (cfg : Cfg) : Prop where
  bint : G.binTextValidated = true
  nf : cfg.noFreq = []

theorem finish_ex (cls : Text) (fs : Fields) (a : Acc) (hwf : wfFields fs = true) (h5 : c05Fields fs = true)
    (hnf : cfg.noFreq = [])
    (h : cfg.soft = true → AccEx fs a) : Safe cfg (IsInstEx cls fs) (finish cfg cls fs a) := by
  unfold finish
  split
  · exact Safe.fault'
  · rename_i hc
    refine Safe.good (fun hs => ⟨_, rfl, conformsFields_of_acc fs a hwf h5 (h hs) ?_⟩)
    cases hf : checkFreq fs a with
    | true => rfl
    | false => exact absurd (by simp [hs, hf, hnf]) hc

theorem put_ex (hG : G.Good) (fs : Fields) (a : Acc) (n : Text) (t : Ty) (x : Val)
    (ha : cfg.soft = true → AccEx fs a) (hl : lookupField fs n = some t) (hr : t.occ.repeated = false)
    (hx : cfg.soft = true → Ex t x) : Safe cfg (fun a' => AccEx fs a') (Res.good (a.put G n x)) :=
  Safe.good (fun hs => by
    unfold Acc.put; rw [occInc_good hG]
    exact accEx_putSlot fs a n t _ _ (ha hs) hl (slotEx_put t x hr (hx hs)))

theorem putItems_ex (hG : G.Good) (fs : Fields) (a : Acc) (n : Text) (t : Ty) (vs : List Val)
    (ha : cfg.soft = true → AccEx fs a) (hl : lookupField fs n = some t) (hr : t.occ.repeated = true)
    (hx : cfg.soft = true → ∀ v ∈ vs, Ex t v) : Safe cfg (fun a' => AccEx fs a') (Res.good (a.putItems G n vs)) :=
  Safe.good (fun hs => by
    unfold Acc.putItems; rw [occInc_good hG]
    exact accEx_putSlot fs a n t _ _ (ha hs) hl (slotEx_putItems t vs hr (hx hs)))

theorem nullComplex_ex (hG : G.Good) (t : Ty) (ho : t.occ = o) : Safe cfg (Ex t) (nullComplex G cfg o) := by
  unfold nullComplex
  simp only [hG.nul, if_true]
  split
  · exact Safe.fault'
  · rename_i hc
    refine Safe.good (fun hs => ?_)
    unfold Ex; rw [conformsOne_none, ho]
    cases hn : o.nillable with
    | true => rfl
    | false => exact absurd (by simp [hs, hn]) hc

def FlatEx (F : Facts08) (G : Facts02) (cfg : Cfg) (t : Ty) : Prop :=
  ∀ d, Safe cfg (Ex t) (flatOne F G cfg t d)

theorem flatItems_ex (t : Ty) (h : FlatEx F G cfg t) (xs : List Doc) :
    Safe cfg (fun l => ∀ y ∈ l, Ex t y) (mapRes (fun x => flatOne F G cfg t x) xs) :=
  mapRes_safe _ xs (fun x _ => h x)

theorem flatFields_ex (hG : G.Good) : ∀ (fs all pre : Fields) (ds : List Doc) (a : Acc),
    (∀ nt ∈ fs, FlatEx F G cfg nt.2) → all = pre ++ fs → namesDistinct (all.map (·.1)) = true →
    (cfg.soft = true → AccEx all a) →
    Safe cfg (fun a' => AccEx all a') (flatFields F G cfg all fs ds a) := by
  intro fs
  induction fs with
  | nil => intro all pre ds a _ _ _ ha; rw [flatFields.eq_def]; exact Safe.good ha
  | cons nt fs ih =>
    obtain ⟨n, t⟩ := nt
    intro all pre ds a hP hall hnd ha
    cases ds with
    | nil => rw [flatFields.eq_def]; exact Safe.good ha
    | cons d ds =>
      have hnn : n ∉ pre.map (·.1) := by
        subst hall
        exact (namesDistinct_append_cons (pre.map (·.1)) n (fs.map (·.1)) (by simpa using hnd)).1
      have hlook : lookupField all n = some t := by subst hall; exact lookupField_at pre n t fs hnn
      have hPt : FlatEx F G cfg t := hP (n, t) (by simp)
      rw [flatFields.eq_def]
      simp only []
      apply Safe.bind (okA := fun a' => AccEx all a')
      · cases hr : t.occ.repeated
        · simp only [Bool.false_eq_true, if_false]
          apply Safe.bind (hPt d)
          intro x hx
          exact put_ex hG all a n t x ha hlook hr hx
        · simp only [if_true]
          cases hi : iterFlat d with
          | none => exact repeatedScalar_safe hG _
          | some xs =>
            simp only []
            apply Safe.bind (flatItems_ex t hPt xs)
            intro vs hvs
            exact putItems_ex hG all a n t vs ha hlook hr hvs
      · intro a' ha'
        exact ih all (pre ++ [(n, t)]) ds a' (fun nt h => hP nt (by simp [h])) (by simp [hall]) hnd ha'

theorem ex_arr (m : Text) (e : Ty) (o : Occ) (l : List Val) (h : ∀ y ∈ l, Ex e y) : Ex (.arr m e o) (.list l) := by
  unfold Ex; simp only [conformsOne]; exact (conformsArr_iff e l).2 h

theorem ex_obj (n ns : Text) (b : Option Text) (fs : Fields) (o : Occ) (v : Val) (h : IsInstEx n fs v) :
    Ex (.obj n ns b fs o) v := by
  obtain ⟨vals, rfl, hv⟩ := h
  unfold Ex; simp [conformsOne, hv]

mutual
  theorem flatOne_ex (L : LeafLaws F) (hG : G.Good) (hb : ExHyp G cfg) : ∀ (t : Ty), wfTy t = true → c05Ty t = true → FlatEx F G cfg t
    | .prim p o, _, _ => by
      intro d; simp only [flatOne]; exact primIn_ex L hG hb.bint p o d
    | .arr m e o, hwf, h5 => by
      have hwe : wfTy e = true := by simp [wfTy] at hwf; exact hwf.2
      have h5e : c05Ty e = true := by simp [c05Ty] at h5; exact h5.2
      have ihe := flatOne_ex L hG hb e hwe h5e
      intro d
      cases d <;> simp only [flatOne] <;> first | exact Safe.fault' | exact nullComplex_ex hG _ rfl | skip
      case str s => exact Safe.map (flatItems_ex e ihe _) (fun l hl => ex_arr m e o l hl)
      case bytes bs => exact Safe.map (flatItems_ex e ihe _) (fun l hl => ex_arr m e o l hl)
    | .obj n ns b fields o, hwf, h5 => by
      have hw : namesDistinct (fields.map (·.1)) = true ∧ wfFields fields = true := by
        simp [wfTy] at hwf; exact ⟨hwf.1.2, hwf.2⟩
      have h5f : c05Fields fields = true := by simpa [c05Ty] using h5
      have ihf := flatFieldsEx L hG hb fields hw.2 h5f
      intro d
      cases d <;> simp only [flatOne] <;> first | exact Safe.fault' | exact nullComplex_ex hG _ rfl | skip
      case str s =>
        split
        · exact Safe.mono (Safe.bind (flatFields_ex hG fields fields [] _ _ ihf (by simp) hw.1 (fun _ => accEx_init fields))
            (fun a ha => finish_ex n fields a hw.2 h5f hb.nf ha)) (ex_obj n ns b fields o)
        · exact Safe.fault'
      case bytes bs =>
        split
        · exact Safe.mono (Safe.bind (flatFields_ex hG fields fields [] _ _ ihf (by simp) hw.1 (fun _ => accEx_init fields))
            (fun a ha => finish_ex n fields a hw.2 h5f hb.nf ha)) (ex_obj n ns b fields o)
        · exact Safe.fault'

  theorem flatFieldsEx (L : LeafLaws F) (hG : G.Good) (hb : ExHyp G cfg) : ∀ (fs : Fields), wfFields fs = true → c05Fields fs = true →
      ∀ nt ∈ fs, FlatEx F G cfg nt.2
    | [], _, _ => by intro nt h; cases h
    | (n, t) :: r, hwf, h5 => by
      have hw : wfTy t = true ∧ wfFields r = true := by simpa [wfFields] using hwf
      have h5' : c05Ty t = true ∧ c05Fields r = true := by simpa [c05Fields] using h5
      intro nt h
      simp only [List.mem_cons] at h
      rcases h with rfl | h
      · exact flatOne_ex L hG hb t hw.1 h5'.1
      · exact flatFieldsEx L hG hb r hw.2 h5'.2 nt h
end


theorem c05_of_lookup : ∀ (fs : Fields) (n : Text) (t : Ty), lookupField fs n = some t → c05Fields fs = true → c05Ty t = true := by
  intro fs
  induction fs with
  | nil => intro n t h; simp [lookupField] at h
  | cons mt fs ih =>
    obtain ⟨m, u⟩ := mt
    intro n t h h5
    have hw : c05Ty u = true ∧ c05Fields fs = true := by simpa [c05Fields] using h5
    simp only [lookupField] at h
    split at h
    · cases h; exact hw.1
    · exact ih n t h hw.2

/-- without registered subclasses the wrapper key is not looked at: the declared class is used -/
theorem resolveClass_nil (name : Text) (fs : Fields) (key : Option Text) :
    resolveClass [] name fs key = .good (name, fs) := by
  unfold resolveClass
  split
  · rfl
  · simp [subclassesOf]

mutual
  theorem decode_ex (L : LeafLaws F) (hG : G.Good) (hb : ExHyp G cfg) : ∀ (d : Doc) (t : Ty), wfTy t = true → c05Ty t = true →
      Safe cfg (Ex t) (decode F G cfg [] t d)
    | .list ds, t, hwf, h5 => by
      cases t with
      | prim p o => simp only [decode]; exact primIn_ex L hG hb.bint p o _
      | arr m e o =>
        have hwe : wfTy e = true := by simp [wfTy] at hwf; exact hwf.2
        have h5e : c05Ty e = true := by simp [c05Ty] at h5; exact h5.2
        simp only [decode]
        exact Safe.map (decodeItems_ex L hG hb ds e hwe h5e) (fun l hl => ex_arr m e o l hl)
      | obj n ns b fields o =>
        have hw : namesDistinct (fields.map (·.1)) = true ∧ wfFields fields = true := by
          simp [wfTy] at hwf; exact ⟨hwf.1.2, hwf.2⟩
        have h5f : c05Fields fields = true := by simpa [c05Ty] using h5
        simp only [decode]
        split
        · exact Safe.mono (Safe.bind (decodePos_ex L hG hb ds fields [] fields (initAcc fields) (by simp) hw.1 hw.2 h5f
              (fun _ => accEx_init fields)) (fun a ha => finish_ex n fields a hw.2 h5f hb.nf ha)) (ex_obj n ns b fields o)
        · exact Safe.fault'
    | .map kvs, t, hwf, h5 => by
      cases t with
      | prim p o => simp only [decode]; exact primIn_ex L hG hb.bint p o _
      | arr m e o =>
        have hwe : wfTy e = true := by simp [wfTy] at hwf; exact hwf.2
        have h5e : c05Ty e = true := by simp [c05Ty] at h5; exact h5.2
        simp only [decode]
        exact Safe.map (flatItems_ex e (flatOne_ex L hG hb e hwe h5e) _) (fun l hl => ex_arr m e o l hl)
      | obj n ns b fields o =>
        have hw : namesDistinct (fields.map (·.1)) = true ∧ wfFields fields = true := by
          simp [wfTy] at hwf; exact ⟨hwf.1.2, hwf.2⟩
        have h5f : c05Fields fields = true := by simpa [c05Ty] using h5
        simp only [decode]
        split
        · exact Safe.mono (Safe.bind (decodeKvs_ex L hG hb kvs fields (initAcc fields) hw.2 h5f (fun _ => accEx_init fields))
              (fun a ha => finish_ex n fields a hw.2 h5f hb.nf ha)) (ex_obj n ns b fields o)
        · exact decodeWrapped_ex L hG hb kvs n ns b fields o hwf h5
    | .null, t, hwf, h5 => by simp only [decode]; exact flatOne_ex L hG hb t hwf h5 _
    | .bool _, t, hwf, h5 => by simp only [decode]; exact flatOne_ex L hG hb t hwf h5 _
    | .int _, t, hwf, h5 => by simp only [decode]; exact flatOne_ex L hG hb t hwf h5 _
    | .float _, t, hwf, h5 => by simp only [decode]; exact flatOne_ex L hG hb t hwf h5 _
    | .nan, t, hwf, h5 => by simp only [decode]; exact flatOne_ex L hG hb t hwf h5 _
    | .other, t, hwf, h5 => by simp only [decode]; exact flatOne_ex L hG hb t hwf h5 _
    | .str _, t, hwf, h5 => by simp only [decode]; exact flatOne_ex L hG hb t hwf h5 _
    | .bytes _, t, hwf, h5 => by simp only [decode]; exact flatOne_ex L hG hb t hwf h5 _

  theorem decodeWrapped_ex (L : LeafLaws F) (hG : G.Good) (hb : ExHyp G cfg) : ∀ (kvs : List (Key × Doc)) (n ns : Text) (b : Option Text)
      (fields : Fields) (o : Occ), wfTy (.obj n ns b fields o) = true → c05Ty (.obj n ns b fields o) = true →
      Safe cfg (Ex (.obj n ns b fields o)) (decodeWrapped F G cfg [] n fields o kvs)
    | [], n, ns, b, fields, o, _, _ => by
      simp only [decodeWrapped]
      split
      · exact Safe.fault'
      · rename_i hc
        refine Safe.good (fun hs => ?_)
        unfold Ex; rw [conformsOne_none]
        cases hn : o.nillable with
        | true => simp [Ty.occ, hn]
        | false => exact absurd (by simp [hs, hn]) hc
    | [(k, inner)], n, ns, b, fields, o, hwf, h5 => by
      have hw : namesDistinct (fields.map (·.1)) = true ∧ wfFields fields = true := by
        simp [wfTy] at hwf; exact ⟨hwf.1.2, hwf.2⟩
      have h5f : c05Fields fields = true := by simpa [c05Ty] using h5
      simp only [decodeWrapped]
      apply Safe.bind (wrapperKey_safe hG k)
      intro key _
      rw [resolveClass_nil, Res.good_bind]
      exact Safe.mono (decodeBody_ex L hG hb inner n fields hw.1 hw.2 h5f) (ex_obj n ns b fields o)
    | _ :: _ :: _, n, ns, b, fields, o, _, _ => by
      simp only [decodeWrapped]; exact Safe.fault'

  theorem decodeBody_ex (L : LeafLaws F) (hG : G.Good) (hb : ExHyp G cfg) : ∀ (d : Doc) (cls : Text) (fs : Fields),
      namesDistinct (fs.map (·.1)) = true → wfFields fs = true → c05Fields fs = true →
      Safe cfg (IsInstEx cls fs) (decodeBody F G cfg [] cls fs d)
    | .map kvs, cls, fs, _, hwf, h5 => by
      simp only [decodeBody]
      exact Safe.bind (decodeKvs_ex L hG hb kvs fs (initAcc fs) hwf h5 (fun _ => accEx_init fs))
        (fun a ha => finish_ex cls fs a hwf h5 hb.nf ha)
    | .list ds, cls, fs, hd, hwf, h5 => by
      simp only [decodeBody]
      exact Safe.bind (decodePos_ex L hG hb ds fs [] fs (initAcc fs) (by simp) hd hwf h5 (fun _ => accEx_init fs))
        (fun a ha => finish_ex cls fs a hwf h5 hb.nf ha)
    | .null, cls, fs, hd, hwf, h5 => by simp only [decodeBody, flatBody, iterFlat]; exact Safe.fault'
    | .bool _, cls, fs, hd, hwf, h5 => by simp only [decodeBody, flatBody, iterFlat]; exact Safe.fault'
    | .int _, cls, fs, hd, hwf, h5 => by simp only [decodeBody, flatBody, iterFlat]; exact Safe.fault'
    | .float _, cls, fs, hd, hwf, h5 => by simp only [decodeBody, flatBody, iterFlat]; exact Safe.fault'
    | .nan, cls, fs, hd, hwf, h5 => by simp only [decodeBody, flatBody, iterFlat]; exact Safe.fault'
    | .other, cls, fs, hd, hwf, h5 => by simp only [decodeBody, flatBody, iterFlat]; exact Safe.fault'
    | .str s, cls, fs, hd, hwf, h5 => by
      simp only [decodeBody, flatBody, iterFlat]
      exact Safe.bind (flatFields_ex hG fs fs [] _ _ (flatFieldsEx L hG hb fs hwf h5) (by simp) hd (fun _ => accEx_init fs))
        (fun a ha => finish_ex cls fs a hwf h5 hb.nf ha)
    | .bytes bs, cls, fs, hd, hwf, h5 => by
      simp only [decodeBody, flatBody, iterFlat]
      exact Safe.bind (flatFields_ex hG fs fs [] _ _ (flatFieldsEx L hG hb fs hwf h5) (by simp) hd (fun _ => accEx_init fs))
        (fun a ha => finish_ex cls fs a hwf h5 hb.nf ha)

  theorem decodeItems_ex (L : LeafLaws F) (hG : G.Good) (hb : ExHyp G cfg) : ∀ (ds : List Doc) (t : Ty), wfTy t = true → c05Ty t = true →
      Safe cfg (fun l => ∀ y ∈ l, Ex t y) (decodeItems F G cfg [] t ds)
    | [], t, _, _ => by simp only [decodeItems]; exact Safe.good (fun _ => by simp)
    | d :: ds, t, hwf, h5 => by
      simp only [decodeItems]
      apply Safe.bind (decode_ex L hG hb d t hwf h5)
      intro v hv
      apply Safe.bind (decodeItems_ex L hG hb ds t hwf h5)
      intro vs hvs
      exact Safe.good (fun hs => by
        intro y hy
        simp only [List.mem_cons] at hy
        rcases hy with rfl | hy
        · exact hv hs
        · exact hvs hs y hy)

  theorem decodeKvs_ex (L : LeafLaws F) (hG : G.Good) (hb : ExHyp G cfg) : ∀ (kvs : List (Key × Doc)) (fs : Fields) (a : Acc),
      wfFields fs = true → c05Fields fs = true → (cfg.soft = true → AccEx fs a) →
      Safe cfg (fun a' => AccEx fs a') (decodeKvs F G cfg [] fs kvs a)
    | [], fs, a, _, _, ha => by simp only [decodeKvs]; exact Safe.good ha
    | (k, v) :: rest, fs, a, hwf, h5, ha => by
      rw [decodeKvs]
      apply Safe.bind (keyName_safe k)
      intro nm _
      cases nm with
      | none => exact decodeKvs_ex L hG hb rest fs a hwf h5 ha
      | some n =>
        simp only []
        cases hl : lookupField fs n with
        | none => exact decodeKvs_ex L hG hb rest fs a hwf h5 ha
        | some t =>
          have hwt := wfTy_of_lookup fs n t hl hwf
          have h5t := c05_of_lookup fs n t hl h5
          simp only []
          apply Safe.bind (okA := fun a' => AccEx fs a') ?_ (fun a' ha' => decodeKvs_ex L hG hb rest fs a' hwf h5 ha')
          cases hr : t.occ.repeated
          · simp only [Bool.false_eq_true, if_false]
            exact Safe.bind (decode_ex L hG hb v t hwt h5t) (fun x hx => put_ex hG fs a n t x ha hl hr hx)
          · simp only [if_true]
            have items : Safe cfg (fun l => ∀ y ∈ l, Ex t y)
                (match v with
                 | .list ds => decodeItems F G cfg [] t ds
                 | .map kvs => mapRes (fun x => flatOne F G cfg t x) (keyDocs kvs)
                 | d => (match iterFlat d with
                         | some xs => mapRes (fun x => flatOne F G cfg t x) xs
                         | none => repeatedScalar G)) := by
              cases v with
              | list ds => exact decodeItems_ex L hG hb ds t hwt h5t
              | map kvs' => exact flatItems_ex t (flatOne_ex L hG hb t hwt h5t) _
              | str s => exact flatItems_ex t (flatOne_ex L hG hb t hwt h5t) _
              | bytes bs => exact flatItems_ex t (flatOne_ex L hG hb t hwt h5t) _
              | _ => exact repeatedScalar_safe hG _
            exact Safe.bind items (fun vs hvs => putItems_ex hG fs a n t vs ha hl hr hvs)

  theorem decodePos_ex (L : LeafLaws F) (hG : G.Good) (hb : ExHyp G cfg) : ∀ (ds : List Doc) (all pre fs : Fields) (a : Acc),
      all = pre ++ fs → namesDistinct (all.map (·.1)) = true → wfFields fs = true → c05Fields fs = true →
      (cfg.soft = true → AccEx all a) →
      Safe cfg (fun a' => AccEx all a') (decodePos F G cfg [] all fs ds a)
    | [], all, pre, fs, a, _, _, _, _, ha => by rw [decodePos.eq_def]; exact Safe.good ha
    | v :: rest, all, pre, fs, a, hall, hnd, hwf, h5, ha => by
      cases fs with
      | nil => rw [decodePos.eq_def]; exact Safe.good ha
      | cons nt fs' =>
        obtain ⟨n, t⟩ := nt
        have hw : wfTy t = true ∧ wfFields fs' = true := by simpa [wfFields] using hwf
        have h5' : c05Ty t = true ∧ c05Fields fs' = true := by simpa [c05Fields] using h5
        have hnn : n ∉ pre.map (·.1) := by
          subst hall
          exact (namesDistinct_append_cons (pre.map (·.1)) n (fs'.map (·.1)) (by simpa using hnd)).1
        have hl : lookupField all n = some t := by subst hall; exact lookupField_at pre n t fs' hnn
        rw [decodePos.eq_def]
        simp only []
        apply Safe.bind (okA := fun a' => AccEx all a') ?_
          (fun a' ha' => decodePos_ex L hG hb rest all (pre ++ [(n, t)]) fs' a' (by simp [hall]) hnd hw.2 h5'.2 ha')
        cases hr : t.occ.repeated
        · simp only [Bool.false_eq_true, if_false]
          exact Safe.bind (decode_ex L hG hb v t hw.1 h5'.1) (fun x hx => put_ex hG all a n t x ha hl hr hx)
        · simp only [if_true]
          have items : Safe cfg (fun l => ∀ y ∈ l, Ex t y)
              (match v with
               | .list ds => decodeItems F G cfg [] t ds
               | .map kvs => mapRes (fun x => flatOne F G cfg t x) (keyDocs kvs)
               | d => (match iterFlat d with
                       | some xs => mapRes (fun x => flatOne F G cfg t x) xs
                       | none => repeatedScalar G)) := by
            cases v with
            | list ds => exact decodeItems_ex L hG hb ds t hw.1 h5'.1
            | map kvs' => exact flatItems_ex t (flatOne_ex L hG hb t hw.1 h5'.1) _
            | str s => exact flatItems_ex t (flatOne_ex L hG hb t hw.1 h5'.1) _
            | bytes bs => exact flatItems_ex t (flatOne_ex L hG hb t hw.1 h5'.1) _
            | _ => exact repeatedScalar_safe hG _
          exact Safe.bind items (fun vs hvs => putItems_ex hG all a n t vs ha hl hr hvs)
end


theorem toCall_none_safe (hbody : G.missingBodyFault = true) (name : Text) (fields : Fields) (ok : Val → Prop) :
    Safe cfg (fun v => ok v ∨ v = .obj name []) (toCall G name fields (.good .none)) := by
  simp only [toCall, Res.good]
  split
  · exact Safe.good (fun _ => Or.inr rfl)
  · (try simp only [hbody, if_true]); exact Safe.fault'

/-- C05 for a whole request: the argument tuple the user function is called with conforms to the declared
    parameter types -/
theorem decodeRequest_ex (L : LeafLaws F) (hG : G.Good) (hb : ExHyp G cfg)
    (hbody : G.missingBodyFault = true)
    (name ns : Text) (base : Option Text) (fields : Fields) (o : Occ)
    (hwf : wfTy (.obj name ns base fields o) = true) (h5 : c05Ty (.obj name ns base fields o) = true) (d : Doc) :
    Safe cfg (fun v => Ex (.obj name ns base fields o) v ∨ v = .obj name [])
      (decodeRequest F G cfg [] (.obj name ns base fields o) d) := by
  have hdec := fun d => decode_ex (cfg := cfg) L hG hb d (.obj name ns base fields o) hwf h5
  unfold decodeRequest
  simp only []
  cases hp : cfg.proto
  case msgpackRpc => exact toCall_safe hbody name fields _ _ (hdec d)
  all_goals
    simp only []
    cases d <;> first | exact Safe.fault' | skip
    case map kvs =>
      match kvs with
      | [] => exact Safe.fault'
      | [(k, body)] =>
        simp only []
        apply Safe.bind (requestMethod_safe hG k)
        intro m _
        split
        · exact Safe.fault'
        · split
          · cases hf : findBody G cfg name [(k, body)] with
            | none => exact toCall_none_safe hbody name fields _
            | some b =>
              cases b <;> first
                | exact toCall_none_safe hbody name fields _
                | exact toCall_safe hbody name fields _ _ (hdec _)
          · exact toCall_safe hbody name fields _ _ (hdec _)
      | _ :: _ :: _ => exact Safe.fault'

end SpyneModel.Hier
