/-
  C03 helper lemmas, part 12: `object_to_simple_dict` writes the documented notation.
  For an object given by a canonical spelled value (members in class order, arrays numbered from
  0, no member-less objects) the flat dict it produces, values turned to text, IS the documented
  flat document — hence reading it back gives the object.
-/
import Proofs.FlatNatural
namespace SpyneModel.Flat
open SpyneModel

/-- the flat-dict value a key carries -/
def KV.enc : KV → EncVal
  | .prims p false vs => .one p (vs.head?.getD .none)
  | .prims p true vs => .many p vs
  | .emptyArr => .empty
  | .emptyObj _ => .empty

/-- the flat dict of the keys of a spelled value below a prefix of written segments -/
def flatOf (delim : Text) (P : List Text) (es : List KEntry) : List (Text × EncVal) :=
  es.map (fun e => (joinKey delim (P ++ e.segs.map renderSeg), e.kv.enc))

theorem flatOf_append (delim : Text) (P : List Text) (a b : List KEntry) :
    flatOf delim P (a ++ b) = flatOf delim P a ++ flatOf delim P b := by simp [flatOf]

theorem flatOf_push (delim : Text) (P : List Text) (n : Text) (i : Option Nat) (es : List KEntry) :
    flatOf delim P (es.map (KEntry.push n i)) = flatOf delim (P ++ [renderSeg (n, i)]) es := by
  simp [flatOf, KEntry.push, List.map_map, Function.comp_def, List.append_assoc]

theorem kentriesElems_flatMap (sub : List Fld) (n : Text) (elems : List (Nat × Members)) :
    kentriesElems sub n elems =
      elems.flatMap (fun el => (kentries sub el.2).map (KEntry.push n (some el.1))) := by
  induction elems with
  | nil => rfl
  | cons a r ih => obtain ⟨i, ms⟩ := a; simp [kentriesElems, ih]

theorem enumFrom_expElems {β : Type} (sub : List Fld) (g : Nat × Node → List β) :
    ∀ (elems : List (Nat × Members)) (o : Nat), elems.map Prod.fst = List.range' o elems.length →
      (enumFrom o (expElems sub elems)).flatMap g =
        elems.flatMap (fun el => g (el.1, Node.obj (expInto sub el.2 (freshAttrs sub)))) := by
  intro elems
  induction elems with
  | nil => intro o _; rfl
  | cons a r ih =>
    intro o h
    obtain ⟨i, ms⟩ := a
    simp only [List.map_cons, List.length_cons, List.range'_succ, List.cons.injEq] at h
    simp only [expElems, enumFrom, List.flatMap_cons]
    rw [ih (o + 1) h.2, h.1]

theorem flatMap_congr' {α β : Type} (l : List α) (f g : α → List β) (h : ∀ x, x ∈ l → f x = g x) :
    l.flatMap f = l.flatMap g := by
  induction l with
  | nil => rfl
  | cons a r ih =>
    simp only [List.flatMap_cons, h a List.mem_cons_self]
    rw [ih (fun x hx => h x (List.mem_cons_of_mem _ hx))]

theorem lookupFld_of_mem {fields : List Fld} (hn : (fields.map Prod.fst).Nodup) {f : Fld} (hf : f ∈ fields) :
    lookupFld fields f.1 = some f := by
  induction fields with
  | nil => simp at hf
  | cons a r ih =>
    simp only [List.map_cons, List.nodup_cons] at hn
    simp only [lookupFld]
    rcases List.mem_cons.mp hf with rfl | hf'
    · simp
    · have : a.1 ≠ f.1 := fun e => hn.1 (e ▸ List.mem_map_of_mem (f := Prod.fst) hf')
      simp only [this, if_false]
      exact ih hn.2 hf'

theorem OptFields_mem {fields : List Fld} (h : OptFields fields) {f : Fld} (hf : f ∈ fields) :
    f.2.1.minOcc = 0 ∧ OptTy f.2.2 := by
  induction fields with
  | nil => simp at hf
  | cons a r ih =>
    obtain ⟨n, occ, t⟩ := a
    simp only [OptFields] at h
    rcases List.mem_cons.mp hf with rfl | hf'
    · exact ⟨h.1, h.2.1⟩
    · exact ih h.2.2 hf'

theorem InOrderAll_unpack {fields : List Fld} {ms : Members} (h : InOrderAll fields ms) :
    ∀ n sv, (n, sv) ∈ ms → InOrderVal fields n sv := by
  induction ms with
  | nil => simp
  | cons a r ih =>
    obtain ⟨n, sv⟩ := a
    simp only [InOrderAll] at h
    intro n' sv' hmem
    rcases List.mem_cons.mp hmem with h' | h'
    · simp only [Prod.mk.injEq] at h'; rw [h'.1, h'.2]; exact h.1
    · exact ih h.2 n' sv' h'

theorem InOrderElems_unpack {sub : List Fld} {elems : List (Nat × Members)} (h : InOrderElems sub elems) :
    ∀ i ms, (i, ms) ∈ elems → InOrder sub ms := by
  induction elems with
  | nil => simp
  | cons a r ih =>
    obtain ⟨j, ms'⟩ := a
    simp only [InOrderElems] at h
    intro i ms hmem
    rcases List.mem_cons.mp hmem with h' | h'
    · simp only [Prod.mk.injEq] at h'; rw [h'.2]; exact h.1
    · exact ih h.2 i ms h'

/-- `object_to_simple_dict` of the object a canonical spelled value denotes is the flat dict of
    its documented keys -/
theorem enc_expInto (F : Facts03) (delim : Text) : ∀ (N : Nat) (fields : List Fld) (ms : Members) (P : List Text),
    msSize ms ≤ N → (fields.map Prod.fst).Nodup → WfFields fields → OptFields fields →
    WtMembers F fields ms → ContigMembers ms → InOrder fields ms →
    encFields delim P (expInto fields ms (freshAttrs fields)) fields = flatOf delim P (kentries fields ms) := by
  intro N
  induction N with
  | zero =>
    intro fields ms P hs hnd hwf hopt _ _ _
    have : ms = [] := by
      cases ms with
      | nil => rfl
      | cons a r => obtain ⟨n, sv⟩ := a; simp [msSize] at hs
    subst this
    simp only [expInto, kentries, flatOf, List.map_nil]
    -- nothing is set: every member is None
    have : ∀ fs : List Fld, OptFields fs → encFields delim P (freshAttrs fields) fs = [] := by
      intro fs
      induction fs with
      | nil => intro _; rfl
      | cons f r ih =>
        intro ho
        obtain ⟨n, occ, t⟩ := f
        simp only [OptFields] at ho
        simp only [encFields, getAttr_freshAttrs, ih ho.2.2, List.append_nil]
        cases hm : occ.many <;> cases t <;> simp [encTy, ho.1]
    exact this fields hopt
  | succ N ih =>
    intro fields ms P hs hnd hwf hopt hwt hcontig hord
    obtain ⟨hmsnd, hvals⟩ := WtMembers_unpack hwt
    have hcvals := ContigMembers_unpack hcontig
    rw [InOrder] at hord
    have hovals := InOrderAll_unpack hord.2
    -- what the instance holds
    have hget : ∀ k, getAttr (expInto fields ms (freshAttrs fields)) k =
        match ms.find? (fun m => m.1 = k) with
        | some m => expNode fields m.1 m.2
        | none => .none := by
      intro k; rw [getAttr_expInto fields ms hmsnd]; simp only [getAttr_freshAttrs]
      cases ms.find? (fun m => decide (m.1 = k)) <;> rfl
    generalize expInto fields ms (freshAttrs fields) = attrs at hget
    -- one spelled member
    have hmember : ∀ n sv occ t (r : List Fld), (n, sv) ∈ ms → (n, occ, t) ∈ fields →
        getAttr attrs n = expNode fields n sv →
        encFields delim P attrs ((n, occ, t) :: r) =
          flatOf delim P (kentriesVal fields n sv) ++ encFields delim P attrs r := by
      intro n sv occ t r hmem hfld hg
      simp only [encFields]
      rw [hg]
      congr 1
      have hl := lookupFld_of_mem hnd hfld
      simp only at hl
      have hwv := hvals n sv hmem
      have hcv := hcvals n sv hmem
      have hov := hovals n sv hmem
      have hsz := size_lt_of_mem hmem
      cases sv with
      | leaf v =>
        obtain ⟨occ', p, hl', hm, _⟩ := hwv
        rw [hl] at hl'; simp only [Option.some.injEq, Prod.mk.injEq] at hl'
        obtain ⟨_, rfl, rfl⟩ := hl'
        simp [expNode, hm, encTy, kentriesVal, flatOf, KV.enc, renderSeg, primOf, hl]
      | leaves vs =>
        obtain ⟨occ', p, hl', hm, _⟩ := hwv
        rw [hl] at hl'; simp only [Option.some.injEq, Prod.mk.injEq] at hl'
        obtain ⟨_, rfl, rfl⟩ := hl'
        simp [expNode, hm, kentriesVal, flatOf, KV.enc, renderSeg, primOf, hl]
      | emptyObj => simp [InOrderVal] at hov
      | obj ms' =>
        obtain ⟨occ', cid, sub, hl', hm, hne', hwt'⟩ := hwv
        rw [hl] at hl'; simp only [Option.some.injEq, Prod.mk.injEq] at hl'
        obtain ⟨_, rfl, rfl⟩ := hl'
        obtain ⟨hsnd, hswf⟩ := Wf_sub hwf hl
        have hso := (OptFields_mem hopt hfld).2
        simp only [OptTy] at hso
        simp only [ContigVal] at hcv
        simp only [InOrderVal, subOf_eq hl] at hov
        simp only [expNode, subOf_eq hl, hm, encTy, kentriesVal]
        rw [ih sub ms' (P ++ [n]) (by simp only [SVal.size] at hsz; omega) hsnd.1 hswf hso hwt' hcv hov,
          flatOf_push]
        rfl
      | arr elems =>
        obtain ⟨occ', cid, sub, hl', hm, hinc, hwe⟩ := hwv
        rw [hl] at hl'; simp only [Option.some.injEq, Prod.mk.injEq] at hl'
        obtain ⟨_, rfl, rfl⟩ := hl'
        obtain ⟨hsnd, hswf⟩ := Wf_sub hwf hl
        have hso := (OptFields_mem hopt hfld).2
        simp only [OptTy] at hso
        simp only [ContigVal] at hcv
        simp only [InOrderVal, subOf_eq hl] at hov
        have hel := WtElems_unpack hwe
        have hcel := ContigElems_unpack hcv.2
        have hoel := InOrderElems_unpack hov
        simp only [expNode, subOf_eq hl, hm, kentriesVal]
        by_cases hemp : elems = []
        · subst hemp
          simp [expElems, flatOf, KV.enc, renderSeg]
        · have h1 : (expElems sub elems).isEmpty = false := by
            cases elems with
            | nil => exact absurd rfl hemp
            | cons a r => obtain ⟨i, ms0⟩ := a; rfl
          have h2 : elems.isEmpty = false := by
            cases elems with
            | nil => exact absurd rfl hemp
            | cons _ _ => rfl
          simp only [h1, h2, Bool.false_eq_true, if_false]
          rw [enumFrom_expElems sub _ elems 0 (by rw [hcv.1, List.range_eq_range']),
            kentriesElems_flatMap]
          simp only [flatOf, List.map_flatMap]
          apply flatMap_congr'
          intro el hel'
          obtain ⟨i, ms_i⟩ := el
          have hsz' := elSize_lt_of_mem hel'
          simp only [encTy]
          rw [ih sub ms_i (P ++ [idxSeg n i]) (by simp only [SVal.size] at hsz; omega) hsnd.1 hswf hso
            (hel i ms_i hel').2 (hcel i ms_i hel') (hoel i ms_i hel')]
          have := flatOf_push delim P n (some i) (kentries sub ms_i)
          simp only [flatOf, renderSeg] at this ⊢
          rw [this]
          rfl
    -- walk over the members of the class and the spelled members together
    have hwalk : ∀ (fs : List Fld) (ms' : Members), (ms'.map Prod.fst).Sublist (fs.map Prod.fst) →
        (fs.map Prod.fst).Nodup → (∀ f, f ∈ fs → f ∈ fields) → (∀ m, m ∈ ms' → m ∈ ms) →
        (∀ f, f ∈ fs → f.1 ∉ ms'.map Prod.fst → getAttr attrs f.1 = .none) →
        encFields delim P attrs fs = flatOf delim P (kentries fields ms') := by
      intro fs
      induction fs with
      | nil =>
        intro ms' hsub _ _ _ _
        have : ms' = [] := by
          cases ms' with
          | nil => rfl
          | cons a r => simp at hsub
        subst this; rfl
      | cons f r ihf =>
        intro ms' hsub hfnd hfs hms hnone
        obtain ⟨n, occ, t⟩ := f
        simp only [List.map_cons, List.nodup_cons] at hfnd
        by_cases hhead : ∃ sv rest, ms' = (n, sv) :: rest
        · obtain ⟨sv, rest, rfl⟩ := hhead
          have hmem : (n, sv) ∈ ms := hms _ List.mem_cons_self
          have hfld : (n, occ, t) ∈ fields := hfs _ List.mem_cons_self
          have hg := hget n
          have hfind : ms.find? (fun m => m.1 = n) = some (n, sv) := by
            cases hf : ms.find? (fun m => m.1 = n) with
            | none =>
              have := List.find?_eq_none.mp hf (n, sv) hmem
              simp at this
            | some m =>
              have hm1 : m.1 = n := by simpa using List.find?_some hf
              have hm2 := List.mem_of_find?_eq_some hf
              obtain ⟨mn, msv⟩ := m
              simp only at hm1; subst hm1
              -- distinct names: the same member
              have : msv = sv := by
                have := inj_of_nodup_map Prod.fst hmsnd hm2 hmem rfl
                exact (Prod.mk.inj this).2
              rw [this]
          rw [hfind] at hg
          simp only at hg
          rw [hmember n sv occ t r hmem hfld hg]
          simp only [List.map_cons] at hsub
          have hsub' : (rest.map Prod.fst).Sublist (r.map Prod.fst) := List.Sublist.of_cons_cons hsub
          rw [ihf rest hsub' hfnd.2 (fun f hf => hfs f (List.mem_cons_of_mem _ hf))
            (fun m hm => hms m (List.mem_cons_of_mem _ hm))
            (fun f hf hnot => hnone f (List.mem_cons_of_mem _ hf) (by
              simp only [List.map_cons, List.mem_cons, not_or]
              exact ⟨fun e => hfnd.1 (e ▸ List.mem_map_of_mem (f := Prod.fst) hf), hnot⟩))]
          simp only [kentries, flatOf_append]
        · -- the member is not spelled: it is None and writes nothing
          have hsub' : (ms'.map Prod.fst).Sublist (r.map Prod.fst) := by
            simp only [List.map_cons] at hsub
            rcases List.sublist_cons_iff.mp hsub with h | ⟨l, hl, _⟩
            · exact h
            · exfalso
              cases ms' with
              | nil => simp at hl
              | cons a rest =>
                obtain ⟨an, asv⟩ := a
                simp only [List.map_cons, List.cons.injEq] at hl
                exact hhead ⟨asv, rest, by rw [hl.1]⟩
          have hnot : n ∉ ms'.map Prod.fst := fun hmem => hfnd.1 (hsub'.subset hmem)
          have hg := hnone (n, occ, t) List.mem_cons_self hnot
          simp only at hg
          have hfld : (n, occ, t) ∈ fields := hfs _ List.mem_cons_self
          have hmin := (OptFields_mem hopt hfld).1
          simp only at hmin
          have hstep : encFields delim P attrs ((n, occ, t) :: r) = encFields delim P attrs r := by
            simp only [encFields]
            rw [hg]
            cases occ.many <;> cases t <;> simp [encTy, hmin]
          rw [hstep]
          exact ihf ms' hsub' hfnd.2 (fun f hf => hfs f (List.mem_cons_of_mem _ hf)) hms
            (fun f hf hn' => hnone f (List.mem_cons_of_mem _ hf) hn')
    exact hwalk fields ms hord.1 hnd (fun _ h => h) (fun _ h => h) (by
      intro f hf hnot
      rw [hget f.1]
      have : ms.find? (fun m => m.1 = f.1) = none := by
        apply List.find?_eq_none.mpr
        intro m hm
        simp only [decide_eq_true_eq]
        intro e
        exact hnot (e ▸ List.mem_map_of_mem (f := Prod.fst) hm)
      rw [this])

/-- the values of the flat dict, written as text: the documented flat document -/
theorem toDoc_flatOf (F : Facts03) (delim : Text) (fields : List Fld) (ms : Members)
    (hv : ∀ e, e ∈ kentries fields ms → (match e.kv with
        | .prims _ false vs => vs.length = 1 | .prims _ true vs => vs ≠ [] | _ => True)) :
    toDoc F (flatOf delim [] (kentries fields ms)) = docOf F delim fields ms := by
  unfold toDoc docOf flatOf
  have hkeep : ∀ e, e ∈ kentries fields ms →
      (!(encValTexts F e.kv.enc).isEmpty) = true ∧ encValTexts F e.kv.enc = e.kv.texts F := by
    intro e he
    have := hv e he
    cases hkv : e.kv with
    | prims p many vs =>
      rw [hkv] at this
      cases many with
      | false =>
        simp only at this
        cases vs with
        | nil => simp at this
        | cons v r =>
          have : r = [] := by simpa using this
          subst this
          simp [KV.enc, encValTexts, KV.texts]
      | true =>
        simp only at this
        cases vs with
        | nil => exact absurd rfl this
        | cons v r => simp [KV.enc, encValTexts, KV.texts]
    | emptyArr => simp [KV.enc, encValTexts, KV.texts]
    | emptyObj sub => simp [KV.enc, encValTexts, KV.texts]
  generalize kentries fields ms = es at hkeep
  induction es with
  | nil => rfl
  | cons e r ih =>
    have h1 := hkeep e List.mem_cons_self
    have ih' := ih (fun e' he' => hkeep e' (List.mem_cons_of_mem _ he'))
    simp only [List.map_cons, List.nil_append, List.filter_cons] at ih' ⊢
    rw [if_pos h1.1]
    simp only [List.map_cons, h1.2]
    rw [ih']
    rfl

def KV.shape : KV → Prop
  | .prims _ false vs => vs.length = 1
  | .prims _ true vs => vs ≠ []
  | _ => True

theorem kentries_shape (F : Facts03) : ∀ (N : Nat) (fields : List Fld) (ms : Members), msSize ms ≤ N →
    WtMembers F fields ms → ∀ e, e ∈ kentries fields ms → e.kv.shape := by
  intro N
  induction N with
  | zero =>
    intro fields ms hs _ e he
    cases ms with
    | nil => simp [kentries] at he
    | cons a r => obtain ⟨n, sv⟩ := a; simp [msSize] at hs
  | succ N ih =>
    intro fields ms hs hwt e he
    obtain ⟨n, sv, hmem, he'⟩ := kentries_mem fields ms e he
    have hwv := (WtMembers_unpack hwt).2 n sv hmem
    have hsz := size_lt_of_mem hmem
    cases sv with
    | leaf v => simp only [kentriesVal, List.mem_singleton] at he'; subst he'; simp [KV.shape]
    | leaves vs =>
      obtain ⟨_, _, _, _, hne, _⟩ := hwv
      simp only [kentriesVal, List.mem_singleton] at he'; subst he'; exact hne
    | emptyObj => simp only [kentriesVal, List.mem_singleton] at he'; subst he'; trivial
    | obj ms' =>
      obtain ⟨occ, cid, sub, hl, _, _, hwt'⟩ := hwv
      simp only [kentriesVal, subOf_eq hl, List.mem_map] at he'
      obtain ⟨y, hy, rfl⟩ := he'
      exact ih sub ms' (by simp only [SVal.size] at hsz; omega) hwt' y hy
    | arr elems =>
      obtain ⟨occ, cid, sub, hl, _, _, hwe⟩ := hwv
      simp only [kentriesVal, subOf_eq hl] at he'
      split at he'
      · simp only [List.mem_singleton] at he'; subst he'; trivial
      · obtain ⟨i, ms', y, hel, hy, rfl⟩ := kentriesElems_form sub n elems e he'
        have := elSize_lt_of_mem hel
        exact ih sub ms' (by simp only [SVal.size] at hsz; omega) (WtElems_unpack hwe i ms' hel).2 y hy

/-- what a client sends for the object a canonical spelled value denotes — `object_to_simple_dict`,
    every value as text — is the documented flat document of that value -/
theorem toDoc_encode (F : Facts03) (delim : Text) (fields : List Fld) (ms : Members)
    (hwf : WfSig fields) (hopt : OptFields fields) (hwt : WtMembers F fields ms)
    (hcontig : ContigMembers ms) (hord : InOrder fields ms) :
    toDoc F (encode delim fields (.obj (expAttrs fields ms))) = docOf F delim fields ms := by
  simp only [encode, expAttrs]
  rw [enc_expInto F delim _ fields ms [] (Nat.le_refl _) hwf.1.1 hwf.2 hopt hwt hcontig hord]
  apply toDoc_flatOf
  intro e he
  have := kentries_shape F _ fields ms (Nat.le_refl _) hwt e he
  cases hkv : e.kv with
  | prims p many vs => rw [hkv] at this; cases many <;> exact this
  | emptyArr => trivial
  | emptyObj _ => trivial

end SpyneModel.Flat
