/-
  C18 helper lemmas, second part: auxiliary contexts and call histories.
-/
import Proofs.Null
import SpyneModel.NullSeq
namespace SpyneModel.Null

theorem fillOver_fresh (n : Nat) (pos : List Val) :
    fillOver (List.replicate n Val.none) pos = fillPos n pos := by
  simp [fillOver, fillPos, List.drop_replicate]

theorem packArgsFrom_fresh (F : Facts18) (keys : List String) (pos : List Val) (kw : List (String × Val)) :
    packArgsFrom F keys (List.replicate keys.length Val.none) pos kw = packArgs F keys pos kw := by
  simp only [packArgsFrom, packArgs, fillOver_fresh]

/-- slots rebuilt per call: what the function receives does not depend on what the object kept -/
theorem nullRecvFrom_fresh (F : Facts18) (h : F.slotsPerCall = true) (s : Sig) (kept : Option (List Val))
    (pos : List Val) (kw : List (String × Val)) :
    nullRecvFrom F s kept pos kw = nullRecv F s pos kw := by
  unfold nullRecvFrom nullRecv
  cases s.inKeys with
  | none => rfl
  | some keys => simp only [startSlots, h, if_true, packArgsFrom_fresh]; rfl

theorem ctxResult_eq_nullCall (F : Facts18) (s : Sig) (impl : List Val → Result) (pos : List Val)
    (kw : List (String × Val)) : ctxResult F s impl (nullRecv F s pos kw) = nullCall F s impl pos kw := rfl

/-- the result is the primary context's: auxiliary companions do not change it -/
theorem nullCallFrom_primary (F : Facts18) (h : F.auxResult = .primaryOnly) (s : Sig)
    (impl : List Val → Result) (auxs : List Aux) (kept : Option (List Val)) (pos : List Val)
    (kw : List (String × Val)) :
    nullCallFrom F s impl auxs kept pos kw = nullCallFrom F s impl [] kept pos kw := by
  simp [nullCallFrom, h]

theorem nullCallFrom_good (F : Facts18) (h : F.GoodCalls) (s : Sig) (impl : List Val → Result)
    (auxs : List Aux) (kept : Option (List Val)) (pos : List Val) (kw : List (String × Val)) :
    nullCallFrom F s impl auxs kept pos kw = nullCall F s impl pos kw := by
  simp only [nullCallFrom, h.1, nullRecvFrom_fresh F h.2, ctxResult_eq_nullCall]

/-- the i-th call on a kept `_FunctionCall` object depends on its own arguments only -/
theorem callSeq_history_free (F : Facts18) (h : F.GoodCalls) (s : Sig) (impl : List Val → Result)
    (auxs : List Aux) : ∀ (kept : Option (List Val)) (cs : List Call),
      callSeq F s impl auxs kept cs = cs.map fun c => nullCall F s impl c.1 c.2
  | _, [] => rfl
  | kept, c :: cs => by
    simp only [callSeq, List.map, nullCallFrom_good F h, callSeq_history_free F h s impl auxs _ cs]

theorem recvSeq_history_free (F : Facts18) (h : F.slotsPerCall = true) (s : Sig) :
    ∀ (kept : Option (List Val)) (cs : List Call),
      recvSeq F s kept cs = cs.map fun c => nullRecv F s c.1 c.2
  | _, [] => rfl
  | kept, c :: cs => by
    simp only [recvSeq, List.map, nullRecvFrom_fresh F h, recvSeq_history_free F h s _ cs]

theorem Res.isOk_map {α β : Type} (r : Res α) (g : α → β) : (r.map g).isOk = r.isOk := by
  cases r <;> rfl

theorem wireView_isOk (s : Sig) (r : Res Val) : (wireView s r).isOk = r.isOk := by
  cases r with
  | ok v => cases v <;> rfl
  | fault c => rfl
  | exc e => rfl

theorem wireViewP_isOk (P : ProtoCfg) (s : Sig) (r : Res Val) : (wireViewP P s r).isOk = r.isOk := by
  unfold wireViewP; rw [Res.isOk_map, wireView_isOk]

/-- NullServer ≈ wire with auxiliary companions and on a kept object -/
theorem nullFrom_eq_wireAux (F : Facts18) (hF : F.Good) (hC : F.GoodCalls) (P : ProtoCfg) (hP : P.Good)
    (τ : Val → Val) (s : Sig) (impl : List Val → Result) (auxs : List Aux) (kept : Option (List Val))
    (pos : List Val) (kw : List (String × Val))
    (hprog : ProgramOkOn τ s impl (nullRecv F s pos kw)) (hkw : KwOk F kw) (hcall : CallOk τ s pos kw) :
    wireViewP P s (nullCallFrom F s impl auxs kept pos kw) = wireCallAux F P τ s impl auxs pos kw := by
  rw [nullCallFrom_good F hC]
  exact null_eq_wire F hF P hP τ s impl pos kw hprog hkw hcall

/-- the auxiliary functions run in the same cases and with the same arguments on both paths -/
theorem auxRecv_agree (F : Facts18) (hF : F.Good) (hC : F.GoodCalls) (P : ProtoCfg) (hP : P.Good)
    (τ : Val → Val) (s : Sig) (impl : List Val → Result) (auxs : List Aux) (kept : Option (List Val))
    (pos : List Val) (kw : List (String × Val))
    (hprog : ProgramOkOn τ s impl (nullRecv F s pos kw)) (hkw : KwOk F kw) (hcall : CallOk τ s pos kw)
    (haux : ∀ a ∈ auxs, CallOk τ a.1 pos kw) :
    nullAuxRecv F s impl auxs kept pos kw = wireAuxRecv F P τ s impl auxs pos kw := by
  have hmain := null_eq_wire F hF P hP τ s impl pos kw hprog hkw hcall
  have hok : (wireCall F P τ s impl pos kw).isOk = (nullCall F s impl pos kw).isOk := by
    rw [← hmain, wireViewP_isOk]
  unfold nullAuxRecv wireAuxRecv
  rw [nullRecvFrom_fresh F hC.2, ctxResult_eq_nullCall, hok]
  split
  · apply List.map_congr_left
    intro a ha
    exact recv_agree F P hP τ a.1 pos kw hkw (haux a ha)
  · rfl

/-- the seeded variant: with `_cb_sync` run for every context the caller gets the auxiliary
    method's result -/
theorem lastContext_breaks (F : Facts18) (h : F.auxResult = .lastContext) (s : Sig)
    (impl : List Val → Result) (a : Aux) (kept : Option (List Val)) (pos : List Val)
    (kw : List (String × Val)) (v : Val)
    (hp : ctxResult F s impl (nullRecvFrom F s kept pos kw) = .ok v) :
    nullCallFrom F s impl [a] kept pos kw = ctxResult F a.1 a.2 (nullRecv F a.1 pos kw) := by
  simp [nullCallFrom, h, hp, lastOf]

end SpyneModel.Null
