/-
  C05 (HttpRpc) helper lemmas, part 2: soundness of soft validation for EVERY flat document
  (idxmap branch). The invariant `WCFields` ties the object graph under construction to the
  frequency increments made so far: what a member holds and how often it was counted; below an
  object member, the same for the child instance with the increments made under it.
-/
import Proofs.FlatEvs
import SpyneModel.FlatSoft
namespace SpyneModel.Flat
open SpyneModel

/-- a native value that went through `validate_string`/`from_string`/`validate_native` of soft
    validation: `None` only where the member is nillable, else every facet holds -/
def LeafV (nillable : Bool) (p : PK) (v : Leaf) : Prop := (v = .none ∧ nillable = true) ∨ p.valueOk v = true

/-- the instance has an entry of its own in the frequency table (it will be checked) -/
def HasEntry (sub : List Fld) (evs : List Ev) : Prop := ∃ e, e ∈ evs ∧ e.key = [] ∧ e.spec = specOf sub

mutual
/-- member of type `ty`: the value `n` it holds, the count `c` in the entry of its instance, the
    increments `E i` made under its element `i` -/
def WCTy (strict : Bool) : Ty → Occ → Node → Nat → (Nat → List Ev) → Prop
  | .prim p, occ, n, c, _ =>
    (n = .none ∧ c = 0) ∨
    (occ.many = false ∧ ∃ v, n = .leaf v ∧ 1 ≤ c ∧ LeafV occ.nillable p v) ∨
    (occ.many = true ∧ ∃ vs, n = .leaves vs ∧ c = vs.length ∧ ∀ v, v ∈ vs → LeafV occ.nillable p v)
  | .obj _ sub, occ, n, c, E =>
    (n = .none ∧ c = 0 ∧ ∀ i, E i = []) ∨
    (occ.many = false ∧ ∃ a, n = .obj a ∧ 1 ≤ c ∧ (c = 1 → HasEntry sub (E 0) ∧ WCFields strict sub a (E 0))) ∨
    (occ.many = true ∧ ∃ m items, n = .arr m items ∧ c = items.length ∧
      ((strict = false ∧ ArrInv m items.length ∧       -- idxmap branch: elements by sparse index
        (∀ i, i ∉ mkeys m → E i = []) ∧
        ∀ i, i ∈ mkeys m → ∃ a, arrGet m items Node.none i = .obj a ∧ HasEntry sub (E i) ∧ WCFields strict sub a (E i)) ∨
       (strict = true ∧                                 -- strict_arrays: the index is the position
        (∀ i, items.length ≤ i → E i = []) ∧
        ∀ i, i < items.length → ∃ a, items.getD i Node.none = .obj a ∧ HasEntry sub (E i) ∧ WCFields strict sub a (E i))))
/-- all members of an instance -/
def WCFields (strict : Bool) : List Fld → Attrs → List Ev → Prop
  | [], _, _ => True
  | (k, occ, ty) :: fs, attrs, evs =>
    WCTy strict ty occ (getAttr attrs k) (evCount evs [] k) (fun i => evsUnder (k, i) evs) ∧ WCFields strict fs attrs evs
end

theorem WCFields_mem {strict : Bool} {fields : List Fld} {attrs : Attrs} {evs : List Ev} (h : WCFields strict fields attrs evs)
    {f : Fld} (hf : f ∈ fields) :
    WCTy strict f.2.2 f.2.1 (getAttr attrs f.1) (evCount evs [] f.1) (fun i => evsUnder (f.1, i) evs) := by
  induction fields with
  | nil => simp at hf
  | cons g r ih =>
    obtain ⟨k, occ, ty⟩ := g
    simp only [WCFields] at h
    rcases List.mem_cons.mp hf with rfl | hf
    · exact h.1
    · exact ih h.2 hf

theorem WCFields_of {strict : Bool} {fields : List Fld} {attrs : Attrs} {evs : List Ev}
    (h : ∀ f, f ∈ fields → WCTy strict f.2.2 f.2.1 (getAttr attrs f.1) (evCount evs [] f.1) (fun i => evsUnder (f.1, i) evs)) :
    WCFields strict fields attrs evs := by
  induction fields with
  | nil => trivial
  | cons g r ih =>
    obtain ⟨k, occ, ty⟩ := g
    simp only [WCFields]
    exact ⟨h _ List.mem_cons_self, ih (fun f hf => h f (List.mem_cons_of_mem _ hf))⟩

theorem WCFields_fresh (strict : Bool) (fields : List Fld) : WCFields strict fields (freshAttrs fields) [] := by
  apply WCFields_of
  intro f _
  obtain ⟨k, occ, ty⟩ := f
  simp only [getAttr_freshAttrs, evCount_nil]
  cases ty with
  | prim p => simp [WCTy]
  | obj cid sub => simp [WCTy, evsUnder]

theorem WCFields_touch (strict : Bool) (sub : List Fld) : WCFields strict sub (freshAttrs sub) [⟨[], specOf sub, [], 0⟩] := by
  apply WCFields_of
  intro f _
  obtain ⟨k, occ, ty⟩ := f
  have hc : evCount [(⟨[], specOf sub, [], 0⟩ : Ev)] [] k = 0 := by
    rw [evCount_cons, evCount_nil]; simp
  simp only [getAttr_freshAttrs, hc]
  cases ty with
  | prim p => simp [WCTy]
  | obj cid s => simp [WCTy, evsUnder]

/-! ## increments of one key, seen from the other members -/

theorem evCount_other {new : List Ev} {p : Text}
    (hown : ∀ e, e ∈ new → ownedBy p e = true ∧ (e.key = [] → e.name = p)) {k : Text} (hk : k ≠ p) :
    evCount new [] k = 0 := by
  induction new with
  | nil => rfl
  | cons e r ih =>
    rw [evCount_cons, ih (fun e' he' => hown e' (List.mem_cons_of_mem _ he'))]
    have := (hown e List.mem_cons_self).2
    by_cases h : e.key = [] ∧ e.name = k
    · exact absurd ((this h.1).symm.trans h.2) (Ne.symm hk)
    · simp [h]

theorem evsUnder_other {new : List Ev} {p : Text}
    (hown : ∀ e, e ∈ new → ownedBy p e = true) {k : Text} (hk : k ≠ p) (i : Nat) :
    evsUnder (k, i) new = [] := by
  induction new with
  | nil => rfl
  | cons e r ih =>
    have hr := ih (fun e' he' => hown e' (List.mem_cons_of_mem _ he'))
    have he := hown e List.mem_cons_self
    obtain ⟨key, spec, nm, inc⟩ := e
    cases key with
    | nil => simpa [evsUnder] using hr
    | cons h tl =>
      simp only [ownedBy, decide_eq_true_eq] at he
      have : h ≠ (k, i) := fun e => hk (by rw [← he, e])
      simpa [evsUnder, this] using hr

/-- an instance after one of its members was changed by a key -/
theorem wc_setAttr {strict : Bool} {fields : List Fld} (hn : (fields.map Prod.fst).Nodup) {attrs : Attrs} {evs : List Ev}
    (hw : WCFields strict fields attrs evs) {p : Text} {occ : Occ} {ty : Ty}
    (hl : lookupFld fields p = some (p, occ, ty)) (new : List Ev)
    (hown : ∀ e, e ∈ new → ownedBy p e = true ∧ (e.key = [] → e.name = p)) (n' : Node)
    (h' : WCTy strict ty occ n' (evCount evs [] p + evCount new [] p) (fun i => evsUnder (p, i) evs ++ evsUnder (p, i) new)) :
    WCFields strict fields (setAttr attrs p n') (evs ++ new) := by
  apply WCFields_of
  intro f hf
  have hmem := (lookupFld_some hl).1
  by_cases hk : f.1 = p
  · -- the member itself
    have : f = (p, occ, ty) := by
      have h1 : f ∈ fields := hf
      clear hw h'
      induction fields with
      | nil => simp at hf
      | cons g r ih =>
        simp only [List.map_cons, List.nodup_cons] at hn
        rcases List.mem_cons.mp hf with e1 | e1 <;> rcases List.mem_cons.mp hmem with e2 | e2
        · rw [e1, e2]
        · exact absurd (List.mem_map_of_mem (f := Prod.fst) e2) (by rw [← e1] at hn; rw [show (p, occ, ty).1 = f.1 from hk.symm]; exact hn.1)
        · exact absurd (List.mem_map_of_mem (f := Prod.fst) e1) (by rw [← e2] at hn; rw [hk]; exact hn.1)
        · have hl' : lookupFld r p = some (p, occ, ty) := by
            have hne : g.1 ≠ p := fun e => hn.1 (e ▸ List.mem_map_of_mem (f := Prod.fst) e2)
            simpa [lookupFld, hne] using hl
          exact ih hn.2 hl' e1 e2 e1
    subst this
    simp only [getAttr_setAttr_same, evCount_append, evsUnder_append]
    exact h'
  · have h0 := WCFields_mem hw hf
    rw [getAttr_setAttr_ne _ _ _ _ hk, evCount_append, evCount_other hown hk, Nat.add_zero]
    have : (fun i => evsUnder (f.1, i) (evs ++ new)) = (fun i => evsUnder (f.1, i) evs) := by
      funext i
      rw [evsUnder_append, evsUnder_other (fun e he => (hown e he).1) hk, List.append_nil]
    rw [this]
    exact h0


/-! ## a key that goes through an element of an array of objects (idxmap branch) -/

theorem stepMember_arr_none (F : Facts03) (strict : Bool) (fields : List Fld) (p : Text) (occ : Occ) (cid : Nat) (sub : List Fld)
    (hl : lookupFld fields p = some (p, occ, .obj cid sub)) (hm : occ.many = true)
    (q : Text) (rest : List Text) (idxs : List Nat) (pl : Payload) :
    stepMember F strict fields .none p (q :: rest) idxs pl =
      stepMember F strict fields (.arr [] []) p (q :: rest) idxs pl := by
  simp only [stepMember, hl, hm, if_true]

/-- the idxmap branch with its increments: `arrPut` of what the key does to `arrGet`; the element
    is counted in when its index is new -/
theorem stepMember_arr (F : Facts03) (hF : F.freqScope = .perMember) (fields : List Fld) (p : Text) (occ : Occ)
    (cid : Nat) (sub : List Fld)
    (hl : lookupFld fields p = some (p, occ, .obj cid sub)) (hm : occ.many = true)
    (m : List (Nat × Nat)) (items : List Node) (hinv : ArrInv m items.length)
    (q : Text) (rest : List Text) (idxs : List Nat) (pl : Payload) :
    stepMember F false fields (.arr m items) p (q :: rest) idxs pl =
      match arrGet m items (fresh sub) (popIdx idxs).1 with
      | .obj child =>
        obind (stepMember F false sub (getAttr child q) q rest (popIdx idxs).2 pl) fun r =>
          .ok (.arr (arrPut m items (popIdx idxs).1 (.obj (setAttr child q r.1))).1
                    (arrPut m items (popIdx idxs).1 (.obj (setAttr child q r.1))).2,
               (match mapGet m (popIdx idxs).1 with
                | some _ => []
                | none => [(⟨[], specOf fields, p, 1⟩ : Ev)]) ++ r.2.map (Ev.under [(p, (popIdx idxs).1)]))
      | _ => .crash "IndexError" := by
  simp only [stepMember, hl, hm, if_true, hF, Bool.false_eq_true, if_false, obind_ok]
  generalize (popIdx idxs).1 = i
  generalize (popIdx idxs).2 = idxs'
  unfold lenientSlot arrGet arrPut
  cases hg : mapGet m i with
  | some c =>
    have hc := (hinv.get_lt hg).1
    simp only [getElem?_of_getD items c (fresh sub) hc]
    cases hnode : items.getD c (fresh sub) with
    | obj child => simp only [List.nil_append]
    | none => rfl
    | leaf _ => rfl
    | leaves _ => rfl
    | arr _ _ => rfl
  | none =>
    have hi := mapGet_none_iff.mp hg
    obtain ⟨_, hpos⟩ := hinv.after_s2cmi hi
    have hle : (s2cmi m i).1 ≤ items.length := by
      rw [hpos, hinv.len]
      have := rank_le_length (mkeys m) i
      simpa [mkeys] using this
    have hpl := pyInsert_length items (s2cmi m i).1 (fresh sub) hle
    have hget : (pyInsert items (s2cmi m i).1 (fresh sub))[(s2cmi m i).1]? = some (fresh sub) := by
      rw [getElem?_of_getD _ _ (fresh sub) (by omega), pyInsert_getD_eq _ _ _ _ hle]
    simp only [fresh] at hget ⊢
    simp only [hget]
    cases stepMember F false sub (getAttr (freshAttrs sub) q) q rest idxs' pl with
    | ok r =>
      simp only [obind_ok]
      rw [setAt_pyInsert _ _ _ _ hle]
    | fault => rfl
    | crash e => rfl


/-! ## one key keeps the invariant -/

/-- the value a key carries fits the member its path ends at -/
def PlOk (occ : Occ) : Ty → Payload → Prop
  | .prim p, .prims many vs => many = occ.many ∧ ∀ v, v ∈ vs → LeafV occ.nillable p v
  | .obj _ _, .emptyArr => occ.many = true
  | .obj _ sub, .emptyObj fs => occ.many = false ∧ fs = sub
  | _, _ => False

theorem WCTy_congr {strict : Bool} {ty : Ty} {occ : Occ} {n : Node} {c c' : Nat} {E E' : Nat → List Ev}
    (hc : c = c') (hE : ∀ i, E i = E' i) (h : WCTy strict ty occ n c E) : WCTy strict ty occ n c' E' := by
  have : E = E' := funext hE
  subst hc this
  exact h

theorem arrGet_dflt {α : Type} {m : List (Nat × Nat)} {items : List α} (h : ArrInv m items.length)
    {i : Nat} (hi : i ∈ mkeys m) (d d' : α) : arrGet m items d i = arrGet m items d' i := by
  have hg := h.get hi
  have hlt := (h.get_lt hg).1
  simp only [arrGet, hg, List.getD_eq_getElem?_getD]
  rw [List.getElem?_eq_getElem hlt]
  rfl

theorem arrGet_none_key {α : Type} {m : List (Nat × Nat)} {items : List α} {i : Nat} (hi : i ∉ mkeys m) (d : α) :
    arrGet m items d i = d := by
  simp [arrGet, mapGet_none_iff.mpr hi]

theorem evsUnder_own (c : Text × Nat) (spec : List (Text × Nat × Option Nat)) (nm : Text) (inc : Nat) (r : List Ev) :
    evsUnder c ((⟨[], spec, nm, inc⟩ : Ev) :: r) = evsUnder c r := by
  simp [evsUnder]

theorem evsUnder_under (p : Text) (i j : Nat) (l : List Ev) :
    evsUnder (p, i) (l.map (Ev.under [(p, j)])) = if i = j then l else [] := by
  by_cases h : i = j
  · subst h; simp [evsUnder_under_same]
  · simp only [h, if_false]
    exact evsUnder_under_other _ _ (fun e => h (by simpa using e.symm)) l

theorem memberAt_cons2 {fields : List Fld} {p : Text} {occ : Occ} {ty : Ty}
    (hl : lookupFld fields p = some (p, occ, ty)) (q : Text) (rest : List Text) :
    memberAt fields (p :: q :: rest) = match ty with | .obj _ sub => memberAt sub (q :: rest) | .prim _ => none := by
  cases ty <;> simp [memberAt, hl]

theorem memberAt_lookup {fields : List Fld} {q : Text} {rest : List Text} {o : Occ} {t : Ty}
    (h : memberAt fields (q :: rest) = some (o, t)) : ∃ qocc qty, lookupFld fields q = some (q, qocc, qty) := by
  cases rest with
  | nil =>
    simp only [memberAt, Option.map_eq_some_iff] at h
    obtain ⟨f, hf, _⟩ := h
    obtain ⟨n, fo, ft⟩ := f
    have := (lookupFld_some hf).2
    simp only at this
    subst this
    exact ⟨fo, ft, hf⟩
  | cons m rest' =>
    simp only [memberAt] at h
    split at h
    · rename_i fn focc cid sub hl
      have := (lookupFld_some hl).2
      simp only at this
      subst this
      exact ⟨focc, _, hl⟩
    · simp at h


theorem evsUnder_touch (p : Text) (j k : Nat) (spec s2 : List (Text × Nat × Option Nat)) (rest : List Ev) :
    evsUnder (p, j) ((⟨[], spec, p, 1⟩ : Ev) :: ⟨[(p, k)], s2, [], 0⟩ :: rest) =
      (if j = k then [(⟨[], s2, [], 0⟩ : Ev)] else []) ++ evsUnder (p, j) rest := by
  by_cases h : j = k
  · subst h; simp [evsUnder]
  · have : ¬ ((p, k) = (p, j)) := fun e => h (by simpa using e.symm)
    simp [evsUnder, h, this]

/-- strict_arrays: what `strictSlot` appends (the element the key addresses, and element 0 when the
    list was empty) are fresh instances that are counted in and have an entry of their own -/
theorem strictSlot_inv (fields sub : List Fld) (p : Text) (items : List Node) (E : Nat → List Ev) (i : Nat)
    (s : List Node × List Ev)
    (hEn : ∀ j, items.length ≤ j → E j = [])
    (hEl : ∀ j, j < items.length → ∃ a, items.getD j Node.none = .obj a ∧ HasEntry sub (E j) ∧ WCFields true sub a (E j))
    (hs : strictSlot sub ⟨[], specOf fields, p, 1⟩ (fun j => [⟨[(p, j)], specOf sub, [], 0⟩]) items i = .ok s) :
    i < s.1.length ∧ items.length ≤ s.1.length ∧ evCount s.2 [] p = s.1.length - items.length ∧
    (∀ j, s.1.length ≤ j → E j ++ evsUnder (p, j) s.2 = []) ∧
    (∀ j, j < s.1.length → ∃ a, s.1.getD j Node.none = .obj a ∧ HasEntry sub (E j ++ evsUnder (p, j) s.2) ∧
      WCFields true sub a (E j ++ evsUnder (p, j) s.2)) ∧
    (items = [] → (⟨[], specOf fields, p, 1⟩ : Ev) ∈ s.2) := by
  have hnew : HasEntry sub [(⟨[], specOf sub, [], 0⟩ : Ev)] ∧ WCFields true sub (freshAttrs sub) [(⟨[], specOf sub, [], 0⟩ : Ev)] :=
    ⟨⟨_, List.mem_singleton_self _, rfl, rfl⟩, WCFields_touch true sub⟩
  unfold strictSlot at hs
  cases items with
  | nil =>
    simp only [List.isEmpty_nil, if_true, List.length_cons, List.length_nil] at hs
    have hE0 : ∀ j, E j = [] := fun j => hEn j (Nat.zero_le _)
    split at hs
    · exact absurd hs (by simp)
    · split at hs
      · rename_i h1 h2
        simp only [Outcome.ok.injEq] at hs
        subst hs
        have hi1 : i = 1 := by omega
        subst hi1
        refine ⟨by simp, by simp, ?_, ?_, ?_, fun _ => by simp⟩
        · simp [evCount_cons, evCount_nil]
        · intro j hj
          simp only [List.length_append, List.length_cons, List.length_nil] at hj
          simp only [List.cons_append, List.nil_append, evsUnder_touch, hE0]
          have h0 : j ≠ 0 := by omega
          have h1' : j ≠ 1 := by omega
          simp [h0, h1', evsUnder]
        · intro j hj
          simp only [List.length_append, List.length_cons, List.length_nil] at hj
          simp only [List.cons_append, List.nil_append, evsUnder_touch, hE0]
          have : j = 0 ∨ j = 1 := by omega
          rcases this with rfl | rfl
          · exact ⟨freshAttrs sub, rfl, by simpa [evsUnder] using hnew⟩
          · exact ⟨freshAttrs sub, rfl, by simpa [evsUnder] using hnew⟩
      · rename_i h1 h2
        simp only [Outcome.ok.injEq] at hs
        subst hs
        have hi0 : i = 0 := by omega
        subst hi0
        refine ⟨by simp, by simp, ?_, ?_, ?_, fun _ => by simp⟩
        · simp [evCount_cons, evCount_nil]
        · intro j hj
          simp only [List.length_cons, List.length_nil] at hj
          simp only [evsUnder_touch, hE0]
          have h0 : j ≠ 0 := by omega
          simp [h0, evsUnder]
        · intro j hj
          simp only [List.length_cons, List.length_nil] at hj
          simp only [evsUnder_touch, hE0]
          have : j = 0 := by omega
          subst this
          exact ⟨freshAttrs sub, rfl, by simpa [evsUnder] using hnew⟩
  | cons a r =>
    simp only [List.isEmpty_cons, Bool.false_eq_true, if_false] at hs
    split at hs
    · exact absurd hs (by simp)
    · split at hs
      · rename_i h1 h2
        simp only [Outcome.ok.injEq] at hs
        subst hs
        refine ⟨by simp [h2], by simp, ?_, ?_, ?_, fun e => by cases e⟩
        · simp [evCount_cons, evCount_nil]
        · intro j hj
          simp only [List.length_append, List.length_cons, List.length_nil] at hj
          simp only [List.nil_append, evsUnder_touch]
          rw [hEn j (by simp only [List.length_cons]; omega)]
          have : j ≠ i := by simp only [List.length_cons] at h2; omega
          simp [this, evsUnder]
        · intro j hj
          simp only [List.length_append, List.length_cons, List.length_nil] at hj
          simp only [List.nil_append, evsUnder_touch]
          by_cases hji : j = i
          · subst hji
            rw [hEn j (by omega)]
            refine ⟨freshAttrs sub, ?_, by simpa [evsUnder] using hnew⟩
            rw [h2]
            simp [List.getD_eq_getElem?_getD, fresh]
          · have hlt : j < (a :: r).length := by simp only [List.length_cons] at h2 ⊢; omega
            obtain ⟨a', h1', h2', h3'⟩ := hEl j hlt
            refine ⟨a', ?_, by simpa [hji, evsUnder] using h2', by simpa [hji, evsUnder] using h3'⟩
            rw [← h1']
            simp only [List.getD_eq_getElem?_getD]
            rw [List.getElem?_append_left hlt]
      · rename_i h1 h2
        simp only [Outcome.ok.injEq] at hs
        subst hs
        have hlt : i < (a :: r).length := by omega
        refine ⟨hlt, Nat.le_refl _, by simp [evCount_nil], ?_, ?_, fun e => by cases e⟩
        · intro j hj
          simp [evsUnder, hEn j hj]
        · intro j hj
          simpa [evsUnder] using hEl j hj

theorem stepMember_wc (F : Facts03) (hF : F.freqScope = .perMember) (hT : F.freqTouch = true) (strict : Bool) :
    ∀ (rest : List Text) (fields : List Fld) (p : Text) (occ : Occ) (ty : Ty) (cur : Node) (idxs : List Nat)
      (pl : Payload) (c : Nat) (E : Nat → List Ev) (r : Node × List Ev) (tocc : Occ) (tty : Ty),
      WfFields fields →
      lookupFld fields p = some (p, occ, ty) →
      memberAt fields (p :: rest) = some (tocc, tty) → PlOk tocc tty pl →
      WCTy strict ty occ cur c E →
      stepMember F strict fields cur p rest idxs pl = .ok r →
      WCTy strict ty occ r.1 (c + evCount r.2 [] p) (fun i => E i ++ evsUnder (p, i) r.2) ∧
      (cur = .none → ∃ e, e ∈ r.2 ∧ e.key = [] ∧ e.spec = specOf fields) := by
  intro rest
  induction rest with
  | nil =>
    intro fields p occ ty cur idxs pl c E r tocc tty _ hl hat hpl hw h
    simp only [memberAt, hl, Option.map_some, Option.some.injEq, Prod.mk.injEq] at hat
    obtain ⟨rfl, rfl⟩ := hat
    simp only [stepMember] at h
    obtain ⟨n, hn, hr⟩ := obind_eq_ok.mp h
    simp only [Outcome.ok.injEq] at hr
    subst hr
    refine ⟨?_, fun _ => ⟨_, List.mem_cons_self, rfl, rfl⟩⟩
    cases ty with
    | prim pk =>
      cases pl with
      | prims many vs =>
        obtain ⟨hmany, hvs⟩ := hpl
        have hcnt : evCount [(⟨[], specOf fields, p, (Payload.prims many vs).len⟩ : Ev)] [] p = vs.length := by
          rw [evCount_cons, evCount_nil]; simp [Payload.len]
        simp only [hcnt]
        apply WCTy_congr rfl (E := E) (fun i => by simp [evsUnder])
        simp only [WCTy] at hw ⊢
        cases many with
        | true =>
          rcases hw with ⟨rfl, rfl⟩ | ⟨hm, _⟩ | ⟨_, old, rfl, rfl, hold⟩
          · simp only [assignNode, Outcome.ok.injEq] at hn
            subst hn
            exact Or.inr (Or.inr ⟨hmany.symm, vs, rfl, by simp, hvs⟩)
          · rw [← hmany] at hm; exact absurd hm (by simp)
          · simp only [assignNode, Outcome.ok.injEq] at hn
            subst hn
            refine Or.inr (Or.inr ⟨hmany.symm, old ++ vs, rfl, by simp, ?_⟩)
            intro v hv
            rcases List.mem_append.mp hv with hv | hv
            · exact hold v hv
            · exact hvs v hv
        | false =>
          cases vs with
          | nil => simp [assignNode] at hn
          | cons v vs' =>
            simp only [assignNode, Outcome.ok.injEq] at hn
            subst hn
            exact Or.inr (Or.inl ⟨hmany.symm, v, rfl, by simp only [List.length_cons]; omega, hvs v List.mem_cons_self⟩)
      | emptyArr => exact absurd hpl (by simp [PlOk])
      | emptyObj fs => exact absurd hpl (by simp [PlOk])
    | obj cid sub =>
      cases pl with
      | prims many vs => exact absurd hpl (by simp [PlOk])
      | emptyArr =>
        have hmany : occ.many = true := hpl
        have hcnt : evCount [(⟨[], specOf fields, p, Payload.emptyArr.len⟩ : Ev)] [] p = 0 := by
          rw [evCount_cons, evCount_nil]; simp [Payload.len]
        simp only [hcnt, Nat.add_zero]
        apply WCTy_congr rfl (E := E) (fun i => by simp [evsUnder])
        simp only [WCTy] at hw ⊢
        rcases hw with ⟨rfl, rfl, hE⟩ | ⟨hm, _⟩ | ⟨_, m, items, rfl, hrest⟩
        · simp only [assignNode, Outcome.ok.injEq] at hn
          subst hn
          refine Or.inr (Or.inr ⟨hmany, [], [], rfl, rfl, ?_⟩)
          cases strict with
          | false => exact Or.inl ⟨rfl, ArrInv.empty, fun i _ => hE i, fun i hi => by simp [mkeys] at hi⟩
          | true => exact Or.inr ⟨rfl, fun i _ => hE i, fun i hi => by simp at hi⟩
        · rw [hmany] at hm; exact absurd hm (by simp)
        · simp only [assignNode, Outcome.ok.injEq] at hn
          subst hn
          exact Or.inr (Or.inr ⟨hmany, m, items, rfl, hrest⟩)
      | emptyObj fs =>
        obtain ⟨hmany, rfl⟩ := hpl
        simp only [assignNode, Outcome.ok.injEq] at hn
        subst hn
        have hcnt : evCount ((⟨[], specOf fields, p, (Payload.emptyObj fs).len⟩ : Ev) ::
            (if F.freqTouch = true then [(⟨[(memberLabel F fields p, 0)], specOf fs, [], 0⟩ : Ev)] else [])) [] p = 1 := by
          rw [evCount_cons]
          simp only [hT, if_true]
          rw [evCount_cons, evCount_nil]
          simp [Payload.len]
        simp only [hcnt]
        simp only [WCTy]
        refine Or.inr (Or.inl ⟨hmany, freshAttrs fs, rfl, by omega, ?_⟩)
        intro hc1
        have hc0 : c = 0 := by omega
        simp only [WCTy] at hw
        have hE : ∀ i, E i = [] := by
          rcases hw with ⟨_, _, hE⟩ | ⟨_, a, _, hge, _⟩ | ⟨hm, _⟩
          · exact hE
          · omega
          · rw [hmany] at hm; exact absurd hm (by simp)
        have hu : evsUnder (p, 0) ((⟨[], specOf fields, p, (Payload.emptyObj fs).len⟩ : Ev) ::
            (if F.freqTouch = true then [(⟨[(memberLabel F fields p, 0)], specOf fs, [], 0⟩ : Ev)] else [])) =
            [⟨[], specOf fs, [], 0⟩] := by
          simp [evsUnder, hT, memberLabel, hF]
        rw [hE 0, hu, List.nil_append]
        exact ⟨⟨_, List.mem_singleton_self _, rfl, rfl⟩, WCFields_touch strict fs⟩
  | cons q rest ih =>
    intro fields p occ ty cur idxs pl c E r tocc tty hwf hl hat hpl hw h
    rw [memberAt_cons2 hl] at hat
    cases ty with
    | prim pk => simp at hat
    | obj cid sub =>
      simp only at hat
      obtain ⟨qocc, qty, hlq⟩ := memberAt_lookup hat
      obtain ⟨hnsub, hwfsub⟩ := Wf_sub hwf hl
      -- what the key does inside a child instance `child` whose increments so far are `evc`
      have inner : ∀ (child : Attrs) (evc : List Ev) (idxs' : List Nat) (r' : Node × List Ev),
          WCFields strict sub child evc →
          stepMember F strict sub (getAttr child q) q rest idxs' pl = .ok r' →
          WCFields strict sub (setAttr child q r'.1) (evc ++ r'.2) ∧
          (getAttr child q = .none → ∃ e, e ∈ r'.2 ∧ e.key = [] ∧ e.spec = specOf sub) := by
        intro child evc idxs' r' hwc hs
        have hq := WCFields_mem hwc (lookupFld_some hlq).1
        obtain ⟨h1, h2⟩ := ih sub q qocc qty (getAttr child q) idxs' pl _ _ r' tocc tty hwfsub hlq hat hpl hq hs
        have hown := stepMember_owned F hF strict sub (getAttr child q) q rest idxs' pl r' hs
        exact ⟨wc_setAttr hnsub.1 hwc hlq r'.2 (fun e he => ⟨(hown e he).1, fun hk => ((hown e he).2 hk).2⟩) r'.1 h1, h2⟩
      by_cases hm : occ.many = true
      · -- an array of objects
        cases strict with
        | false =>
          have hcur : ∃ m items, (cur = .arr m items ∨ (cur = .none ∧ m = [] ∧ items = [])) ∧ c = items.length ∧
              ArrInv m items.length ∧ (∀ i, i ∉ mkeys m → E i = []) ∧
              ∀ i, i ∈ mkeys m → ∃ a, arrGet m items Node.none i = .obj a ∧ HasEntry sub (E i) ∧ WCFields false sub a (E i) := by
            simp only [WCTy] at hw
            rcases hw with ⟨rfl, rfl, hE⟩ | ⟨hm', _⟩ | ⟨_, m, items, rfl, hc, hdisj⟩
            · exact ⟨[], [], Or.inr ⟨rfl, rfl, rfl⟩, rfl, ArrInv.empty, fun i _ => hE i, fun i hi => by simp [mkeys] at hi⟩
            · rw [hm] at hm'; exact absurd hm' (by simp)
            · rcases hdisj with ⟨_, h1, h2, h3⟩ | ⟨hs, _⟩
              · exact ⟨m, items, Or.inl rfl, hc, h1, h2, h3⟩
              · cases hs
          obtain ⟨m, items, hcur, hc, hinv, hEn, hEl⟩ := hcur
          have h' : stepMember F false fields (.arr m items) p (q :: rest) idxs pl = .ok r := by
            rcases hcur with rfl | ⟨rfl, rfl, rfl⟩
            · exact h
            · rw [← stepMember_arr_none F false fields p occ cid sub hl hm]; exact h
          rw [stepMember_arr F hF fields p occ cid sub hl hm m items hinv] at h'
          generalize hi : (popIdx idxs).1 = i at h'
          generalize (popIdx idxs).2 = idxs' at h'
          -- the child instance the key goes through, and its increments so far
          have hchild : ∃ child, arrGet m items (fresh sub) i = .obj child ∧ WCFields false sub child (E i) ∧
              (i ∉ mkeys m → child = freshAttrs sub) ∧ (i ∈ mkeys m → HasEntry sub (E i)) := by
            by_cases hik : i ∈ mkeys m
            · obtain ⟨a, ha, he, hwa⟩ := hEl i hik
              exact ⟨a, by rw [arrGet_dflt hinv hik (fresh sub) Node.none]; exact ha, hwa, fun hn => absurd hik hn, fun _ => he⟩
            · refine ⟨freshAttrs sub, by rw [arrGet_none_key hik]; rfl, ?_, fun _ => rfl, fun hk => absurd hk hik⟩
              rw [hEn i hik]
              exact WCFields_fresh false sub
          obtain ⟨child, hag, hwchild, hfresh, hentry⟩ := hchild
          rw [hag] at h'
          simp only at h'
          obtain ⟨r', hs, hr⟩ := obind_eq_ok.mp h'
          simp only [Outcome.ok.injEq] at hr
          subst hr
          obtain ⟨hwc', hnone'⟩ := inner child (E i) idxs' r' hwchild hs
          refine ⟨?_, fun hcn => ?_⟩
          · simp only [WCTy]
            refine Or.inr (Or.inr ⟨hm, _, _, rfl, ?_, Or.inl ⟨trivial, arrPut_inv hinv i _, ?_, ?_⟩⟩)
            · -- the count is the length of the list
              rw [evCount_append, evCount_under_nil, Nat.add_zero]
              unfold arrPut
              cases hg : mapGet m i with
              | some cpos => simp [setAt_length, evCount_nil, hc]
              | none =>
                have hik := mapGet_none_iff.mp hg
                obtain ⟨_, hpos⟩ := hinv.after_s2cmi hik
                have hle : (s2cmi m i).1 ≤ items.length := by
                  rw [hpos, hinv.len]
                  have := rank_le_length (mkeys m) i
                  simpa [mkeys] using this
                simp only [pyInsert_length _ _ _ hle]
                rw [evCount_cons, evCount_nil]
                simp [hc]
            · intro j hj
              rw [arrPut_keys] at hj
              have hji : j ≠ i := by
                intro e; subst e
                split at hj
                · rename_i hk; exact hj hk
                · exact hj (by simp)
              have hjm : j ∉ mkeys m := by
                split at hj
                · exact hj
                · intro hk; exact hj (by simp [hk])
              rw [hEn j hjm, evsUnder_append, evsUnder_under, if_neg hji]
              cases mapGet m i <;> simp [evsUnder]
            · intro j hj
              have hsplit : ∀ j, evsUnder (p, j) ((match mapGet m i with
                  | some _ => []
                  | none => [(⟨[], specOf fields, p, 1⟩ : Ev)]) ++ r'.2.map (Ev.under [(p, i)])) = if j = i then r'.2 else [] := by
                intro j
                rw [evsUnder_append, evsUnder_under]
                cases mapGet m i <;> simp [evsUnder]
              rw [hsplit]
              by_cases hji : j = i
              · subst hji
                simp only [if_true]
                refine ⟨_, arrGet_arrPut_same hinv j _ _, ?_, hwc'⟩
                by_cases hik : j ∈ mkeys m
                · obtain ⟨e, he, hk, hsp⟩ := hentry hik
                  exact ⟨e, List.mem_append_left _ he, hk, hsp⟩
                · have : getAttr child q = .none := by rw [hfresh hik, getAttr_freshAttrs]
                  obtain ⟨e, he, hk, hsp⟩ := hnone' this
                  exact ⟨e, List.mem_append_right _ he, hk, hsp⟩
              · simp only [hji, if_false, List.append_nil]
                rw [arrGet_arrPut_ne hinv i j _ _ hji]
                rw [arrPut_keys] at hj
                have hjm : j ∈ mkeys m := by
                  split at hj
                  · exact hj
                  · rcases List.mem_append.mp hj with hj | hj
                    · exact hj
                    · exact absurd (by simpa using hj) hji
                exact hEl j hjm
          · -- a member that was `None` is counted in
            rcases hcur with rfl | ⟨_, rfl, rfl⟩
            · cases hcn
            · refine ⟨⟨[], specOf fields, p, 1⟩, List.mem_append_left _ ?_, rfl, rfl⟩
              simp [mapGet]
        | true =>
          -- strict_arrays: the index is the position
          have hcur : ∃ m items, (cur = .arr m items ∨ (cur = .none ∧ m = [] ∧ items = [])) ∧ c = items.length ∧
              (∀ i, items.length ≤ i → E i = []) ∧
              ∀ i, i < items.length → ∃ a, items.getD i Node.none = .obj a ∧ HasEntry sub (E i) ∧ WCFields true sub a (E i) := by
            simp only [WCTy] at hw
            rcases hw with ⟨rfl, rfl, hE⟩ | ⟨hm', _⟩ | ⟨_, m, items, rfl, hc, hdisj⟩
            · exact ⟨[], [], Or.inr ⟨rfl, rfl, rfl⟩, rfl, fun i _ => hE i, fun i hi => by simp at hi⟩
            · rw [hm] at hm'; exact absurd hm' (by simp)
            · rcases hdisj with ⟨hs, _⟩ | ⟨_, h1, h2⟩
              · cases hs
              · exact ⟨m, items, Or.inl rfl, hc, h1, h2⟩
          obtain ⟨m, items, hcur, hc, hEn, hEl⟩ := hcur
          have h' : stepMember F true fields (.arr m items) p (q :: rest) idxs pl = .ok r := by
            rcases hcur with rfl | ⟨rfl, rfl, rfl⟩
            · exact h
            · rw [← stepMember_arr_none F true fields p occ cid sub hl hm]; exact h
          simp only [stepMember, hl, hm, if_true, hF, hT] at h'
          generalize (popIdx idxs).1 = i at h'
          generalize (popIdx idxs).2 = idxs' at h'
          obtain ⟨sl, hsl, h2⟩ := obind_eq_ok.mp h'
          obtain ⟨s, hs, hsl'⟩ := obind_eq_ok.mp hsl
          simp only [Outcome.ok.injEq] at hsl'
          subst hsl'
          simp only at h2
          obtain ⟨hilt, hlen, hcnt, hEn1, hEl1, hfirst⟩ := strictSlot_inv fields sub p items E i s hEn hEl hs
          obtain ⟨child, hch, hent, hwch⟩ := hEl1 i hilt
          rw [getElem?_of_getD s.1 i Node.none hilt, hch] at h2
          simp only at h2
          obtain ⟨r', hs', hr⟩ := obind_eq_ok.mp h2
          simp only [Outcome.ok.injEq] at hr
          subst hr
          obtain ⟨hwc', _⟩ := inner child _ idxs' r' hwch hs'
          have hsplit : ∀ j, E j ++ evsUnder (p, j) (s.2 ++ r'.2.map (Ev.under [(p, i)])) =
              (E j ++ evsUnder (p, j) s.2) ++ (if j = i then r'.2 else []) := by
            intro j
            rw [evsUnder_append, evsUnder_under, List.append_assoc]
          refine ⟨?_, fun hcn => ?_⟩
          · simp only [WCTy]
            refine Or.inr (Or.inr ⟨hm, _, _, rfl, ?_, Or.inr ⟨trivial, ?_, ?_⟩⟩)
            · rw [evCount_append, evCount_under_nil, hcnt, setAt_length]; omega
            · intro j hj
              rw [setAt_length] at hj
              rw [hsplit, hEn1 j hj]
              have : j ≠ i := by omega
              simp [this]
            · intro j hj
              rw [setAt_length] at hj
              rw [hsplit]
              by_cases hji : j = i
              · subst hji
                simp only [if_true]
                refine ⟨_, setAt_getD_same _ _ _ _ hilt, ?_, hwc'⟩
                obtain ⟨e, he, hk, hsp⟩ := hent
                exact ⟨e, List.mem_append_left _ he, hk, hsp⟩
              · simp only [hji, if_false, List.append_nil]
                rw [setAt_getD_ne _ _ _ _ _ hji]
                exact hEl1 j hj
          · rcases hcur with rfl | ⟨_, _, rfl⟩
            · cases hcn
            · exact ⟨_, List.mem_append_left _ (hfirst rfl), rfl, rfl⟩
      · -- a single object
        have hm' : occ.many = false := by simpa using hm
        simp only [stepMember, hl, hm', hF, Bool.false_eq_true, if_false] at h
        simp only [WCTy] at hw
        rcases hw with ⟨rfl, rfl, hE⟩ | ⟨_, a, rfl, hge, hone⟩ | ⟨hmt, _⟩
        · simp only at h
          obtain ⟨r', hs, hr⟩ := obind_eq_ok.mp h
          simp only [Outcome.ok.injEq] at hr
          subst hr
          obtain ⟨hwc', hnone'⟩ := inner (freshAttrs sub) [] idxs r' (WCFields_fresh strict sub) hs
          refine ⟨?_, fun _ => ⟨_, List.mem_append_left _ (List.mem_singleton_self _), rfl, rfl⟩⟩
          simp only [WCTy]
          refine Or.inr (Or.inl ⟨hm', _, rfl, ?_, fun _ => ?_⟩)
          · rw [evCount_append, evCount_under_nil, evCount_cons, evCount_nil]; simp
          · rw [hE 0, evsUnder_append, evsUnder_under, evsUnder_own]
            simp only [evsUnder, List.filterMap_nil, if_true, List.nil_append]
            simp only [List.nil_append] at hwc'
            exact ⟨hnone' (getAttr_freshAttrs sub q), hwc'⟩
        · simp only at h
          obtain ⟨r', hs, hr⟩ := obind_eq_ok.mp h
          simp only [Outcome.ok.injEq] at hr
          subst hr
          refine ⟨?_, fun hcn => by cases hcn⟩
          simp only [WCTy]
          have hcnt : evCount ([] ++ r'.2.map (Ev.under [(p, 0)])) [] p = 0 := by
            rw [List.nil_append, evCount_under_nil]
          rw [hcnt, Nat.add_zero]
          refine Or.inr (Or.inl ⟨hm', _, rfl, hge, fun hc1 => ?_⟩)
          obtain ⟨hent, hwa⟩ := hone hc1
          obtain ⟨hwc', _⟩ := inner a (E 0) idxs r' hwa hs
          rw [List.nil_append, evsUnder_under]
          simp only [if_true]
          obtain ⟨e, he, hk, hsp⟩ := hent
          exact ⟨⟨e, List.mem_append_left _ he, hk, hsp⟩, hwc'⟩
        · rw [hm'] at hmt; exact absurd hmt (by simp)


/-! ## the leaves that soft validation lets through -/

theorem nativeOf_sound (F : Facts03) (L : LeafLaws F.leaf) (nillable : Bool) (p : PK) (t : Option Text) (v : Leaf)
    (h : nativeOf F true nillable p t = .ok v) : LeafV nillable p v := by
  unfold nativeOf at h
  simp only [Bool.true_and] at h
  split at h
  · exact absurd h (by simp)
  · rename_i hs
    have hs' : softString F nillable p t = true := by simpa using hs
    obtain ⟨n, hn, h2⟩ := obind_eq_ok.mp h
    split at h2
    · exact absurd h2 (by simp)
    · rename_i hv
      have hv' : softNative nillable p n = true := by simpa using hv
      simp only [Outcome.ok.injEq] at h2
      subst h2
      cases t with
      | none =>
        simp only [leafFrom, Outcome.ok.injEq] at hn
        subst hn
        exact Or.inl ⟨rfl, hv'⟩
      | some s =>
        -- the shared reader's verdict, whenever HttpRpc's reader is the shared one
        have shared : leafFromText F.leaf p s = .ok n → LeafV nillable p n := by
          intro hfrom
          by_cases hnn : n = .none
          · subst hnn; exact Or.inl ⟨rfl, hv'⟩
          · right
            rw [← L.soft p s n hfrom]
            have h1 : validateString F.leaf p s = true := hs'
            have h2 : validateNative p n = true := by
              cases n <;> first | exact absurd rfl hnn | exact hv'
            simp [h1, h2]
        cases p with
        | integer k r =>
          simp only [leafFrom] at hn
          split at hn
          · simp only [Outcome.ok.injEq] at hn
            subst hn
            exact Or.inl ⟨rfl, hv'⟩
          · exact shared hn
        | boolean =>
          simp only [leafFrom] at hn
          cases hb : boolFromHttp F s with
          | ok b =>
            rw [hb] at hn
            simp only [Outcome.map, Outcome.ok.injEq] at hn
            subst hn
            exact Or.inr rfl
          | fault => rw [hb] at hn; simp [Outcome.map] at hn
          | crash e => rw [hb] at hn; simp [Outcome.map] at hn
        | unicode a b c d => exact shared hn
        | date => exact shared hn
        | time => exact shared hn
        | dateTime => exact shared hn
        | duration => exact shared hn
        | bytes e => exact shared hn
        | enum ns => exact shared hn

theorem toNative_sound (F : Facts03) (L : LeafLaws F.leaf) (nillable : Bool) (p : PK) :
    ∀ (ts : List (Option Text)) (vs : List Leaf), toNative F true nillable p ts = .ok vs →
      ∀ v, v ∈ vs → LeafV nillable p v := by
  intro ts
  induction ts with
  | nil => intro vs h; simp only [toNative, Outcome.ok.injEq] at h; subst h; simp
  | cons t r ih =>
    intro vs h
    simp only [toNative] at h
    obtain ⟨x, hx, h2⟩ := obind_eq_ok.mp h
    obtain ⟨xs, hxs, h3⟩ := obind_eq_ok.mp h2
    simp only [Outcome.ok.injEq] at h3
    subst h3
    intro v hv
    rcases List.mem_cons.mp hv with rfl | hv
    · exact nativeOf_sound F L nillable p t _ hx
    · exact ih xs hxs v hv

/-! ## the member table names members -/

mutual
theorem stiTy_sound (delim : Text) (fields : List Fld) (pre rel : List Text) (occ : Occ) (ty : Ty)
    (hrel : rel ≠ []) (hat : memberAt fields rel = some (occ, ty))
    (hsub : ∀ cid sub, ty = .obj cid sub → NamesOk sub ∧ WfFields sub)
    (hext : ∀ cid sub q rest, ty = .obj cid sub → memberAt fields (rel ++ q :: rest) = memberAt sub (q :: rest)) :
    ∀ x, x ∈ stiTy delim (pre ++ rel) occ ty →
      ∃ rel' occ' ty', memberAt fields rel' = some (occ', ty') ∧ x.2 = memOf (pre ++ rel') occ' ty' := by
  intro x hx
  cases ty with
  | prim pk =>
    simp only [stiTy, List.mem_singleton] at hx
    subst hx
    exact ⟨rel, occ, _, hat, rfl⟩
  | obj cid sub =>
    simp only [stiTy, List.mem_cons] at hx
    rcases hx with rfl | hx
    · exact ⟨rel, occ, _, hat, rfl⟩
    · obtain ⟨hn, hw⟩ := hsub cid sub rfl
      obtain ⟨rel', occ', ty', h1, h2⟩ := stiFields_sound delim sub (pre ++ rel) hn hw x hx
      refine ⟨rel ++ rel', occ', ty', ?_, by rw [h2, List.append_assoc]⟩
      cases rel' with
      | nil => simp [memberAt] at h1
      | cons q rest => rw [hext cid sub q rest rfl]; exact h1
theorem stiFields_sound (delim : Text) (fields : List Fld) (pre : List Text)
    (hn : NamesOk fields) (hw : WfFields fields) :
    ∀ x, x ∈ stiFields delim pre fields →
      ∃ rel occ ty, memberAt fields rel = some (occ, ty) ∧ x.2 = memOf (pre ++ rel) occ ty := by
  intro x hx
  match fields, hn, hw, hx with
  | [], _, _, hx => simp [stiFields] at hx
  | (n, occ, t) :: r, hn, hw, hx =>
    simp only [stiFields, List.mem_append] at hx
    have hl : lookupFld ((n, occ, t) :: r) n = some (n, occ, t) := by simp [lookupFld]
    rcases hx with hx | hx
    · have := stiTy_sound delim ((n, occ, t) :: r) pre [n] occ t (by simp) (by simp [memberAt, hl])
        (fun cid sub e => by subst e; simpa [WfTy] using (show WfTy (.obj cid sub) ∧ WfFields r from by simpa [WfFields] using hw).1)
        (fun cid sub q rest e => by subst e; simp [memberAt, hl]) x hx
      exact this
    · have hn' : NamesOk r := ⟨(List.nodup_cons.mp (by simpa using hn.1)).2, fun m hm => hn.2 m (by simp [hm])⟩
      have hw' : WfFields r := (show WfTy t ∧ WfFields r from by simpa [WfFields] using hw).2
      obtain ⟨rel, occ', ty', h1, h2⟩ := stiFields_sound delim r pre hn' hw' x hx
      refine ⟨rel, occ', ty', ?_, h2⟩
      -- the path does not start with `n`: names are distinct
      cases rel with
      | nil => simp [memberAt] at h1
      | cons q rest =>
        obtain ⟨qocc, qty, hlq⟩ := memberAt_lookup h1
        have hqn : n ≠ q := by
          intro e
          subst e
          have := (lookupFld_some hlq).1
          exact (List.nodup_cons.mp (by simpa using hn.1)).1 (List.mem_map_of_mem (f := Prod.fst) this)
        have hl' : lookupFld ((n, occ, t) :: r) q = lookupFld r q := by simp [lookupFld, hqn]
        cases rest with
        | nil => simpa [memberAt, hl'] using h1
        | cons q2 rest2 => simpa [memberAt, hl'] using h1
end

theorem stiGet_mem {table : List (Text × Member)} {k : Text} {m : Member} (h : stiGet table k = some m) :
    (k, m) ∈ table := by
  induction table with
  | nil => simp [stiGet] at h
  | cons a r ih =>
    obtain ⟨k', m'⟩ := a
    simp only [stiGet] at h
    split at h
    · rename_i hk
      simp only [Option.some.injEq] at h
      subst h hk
      exact List.mem_cons_self
    · exact List.mem_cons_of_mem _ (ih h)


/-! ## the walk, the loop body, the loop -/

theorem walk_wc (F : Facts03) (hF : F.freqScope = .perMember) (hT : F.freqTouch = true) (strict : Bool)
    (fields : List Fld) (hn : NamesOk fields) (hw : WfFields fields) (attrs : Attrs) (evs : List Ev)
    (path : List Text) (idxs : List Nat) (pl : Payload) (tocc : Occ) (tty : Ty)
    (hat : memberAt fields path = some (tocc, tty)) (hpl : PlOk tocc tty pl)
    (hwc : WCFields strict fields attrs evs) (r : Attrs × List Ev)
    (h : walk F strict fields attrs path idxs pl = .ok r) : WCFields strict fields r.1 (evs ++ r.2) := by
  cases path with
  | nil => simp [memberAt] at hat
  | cons p rest =>
    obtain ⟨occ, ty, hl⟩ := memberAt_lookup hat
    simp only [walk] at h
    obtain ⟨r', hs, hr⟩ := obind_eq_ok.mp h
    simp only [Outcome.ok.injEq] at hr
    subst hr
    have hq := WCFields_mem hwc (lookupFld_some hl).1
    obtain ⟨h1, _⟩ := stepMember_wc F hF hT strict rest fields p occ ty (getAttr attrs p) idxs pl _ _ r' tocc tty hw hl hat hpl hq hs
    have hown := stepMember_owned F hF strict fields (getAttr attrs p) p rest idxs pl r' hs
    exact wc_setAttr hn.1 hwc hl r'.2 (fun e he => ⟨(hown e he).1, fun hk => ((hown e he).2 hk).2⟩) r'.1 h1

theorem stepKey_wc (F : Facts03) (L : LeafLaws F.leaf) (hF : F.freqScope = .perMember) (hT : F.freqTouch = true)
    (strict : Bool) (delim : Text) (fields : List Fld) (hn : NamesOk fields) (hw : WfFields fields)
    (st st' : Attrs × List Ev) (kv : Text × List (Option Text))
    (hwc : WCFields strict fields st.1 st.2)
    (h : stepKey F ⟨strict, true, delim⟩ fields (stiFields delim [] fields) st kv = .ok st') :
    WCFields strict fields st'.1 st'.2 := by
  unfold stepKey at h
  cases hg : stiGet (stiFields delim [] fields) (stripIdx kv.1) with
  | none => rw [hg] at h; simp only [Outcome.ok.injEq] at h; subst h; exact hwc
  | some mem =>
    rw [hg] at h
    obtain ⟨rel, occ, ty, hat, hmem⟩ := stiFields_sound delim fields [] hn hw _ (stiGet_mem hg)
    simp only [List.nil_append] at hmem
    simp only at hmem h
    subst hmem
    cases ty with
    | prim pk =>
      simp only [memOf] at h
      obtain ⟨vs, hvs, h2⟩ := obind_eq_ok.mp h
      obtain ⟨r, hr, h3⟩ := obind_eq_ok.mp h2
      simp only [Outcome.ok.injEq] at h3
      subst h3
      exact walk_wc F hF hT strict fields hn hw st.1 st.2 rel _ (.prims occ.many vs) occ (.prim pk) hat
        (show _ ∧ _ from ⟨rfl, toNative_sound F L occ.nillable pk kv.2 vs hvs⟩) hwc r hr
    | obj cid sub =>
      simp only [memOf] at h
      split at h
      · obtain ⟨r, hr, h3⟩ := obind_eq_ok.mp h
        simp only [Outcome.ok.injEq] at h3
        subst h3
        by_cases hm : occ.many = true
        · simp only [hm, if_true] at hr
          exact walk_wc F hF hT strict fields hn hw st.1 st.2 rel _ .emptyArr occ (.obj cid sub) hat (show occ.many = true from hm) hwc r hr
        · simp only [hm, if_false] at hr
          exact walk_wc F hF hT strict fields hn hw st.1 st.2 rel _ (.emptyObj sub) occ (.obj cid sub) hat
            (show _ ∧ _ from ⟨by simpa using hm, rfl⟩) hwc r hr
      · simp only [Outcome.ok.injEq] at h; subst h; exact hwc

theorem foldO_stepKey_wc (F : Facts03) (L : LeafLaws F.leaf) (hF : F.freqScope = .perMember) (hT : F.freqTouch = true)
    (strict : Bool) (delim : Text) (fields : List Fld) (hn : NamesOk fields) (hw : WfFields fields) :
    ∀ (doc : Doc) (st st' : Attrs × List Ev), WCFields strict fields st.1 st.2 →
      foldO (stepKey F ⟨strict, true, delim⟩ fields (stiFields delim [] fields)) st doc = .ok st' →
      WCFields strict fields st'.1 st'.2 := by
  intro doc
  induction doc with
  | nil => intro st st' hwc h; simp only [foldO, Outcome.ok.injEq] at h; subst h; exact hwc
  | cons kv r ih =>
    intro st st' hwc h
    simp only [foldO_cons] at h
    obtain ⟨s1, h1, h2⟩ := obind_eq_ok.mp h
    exact ih s1 st' (stepKey_wc F L hF hT strict delim fields hn hw st s1 kv hwc h1) h2


/-! ## what the frequency check then guarantees -/

mutual
/-- the declared constraints of a member of the flat signature on the value it holds: occurrence
    bounds, nillability and facets of the leaves, at every depth -/
def ConfTy : Ty → Occ → Node → Prop
  | .prim p, occ, n =>
    (n = .none ∧ occ.minOcc = 0) ∨
    (occ.many = false ∧ ∃ v, n = .leaf v ∧ LeafV occ.nillable p v) ∨
    (occ.many = true ∧ ∃ vs, n = .leaves vs ∧ CountOk occ vs.length ∧ ∀ v, v ∈ vs → LeafV occ.nillable p v)
  | .obj _ sub, occ, n =>
    (n = .none ∧ occ.minOcc = 0) ∨
    (occ.many = false ∧ ∃ a, n = .obj a ∧ ConfFields sub a) ∨
    (occ.many = true ∧ ∃ m items, n = .arr m items ∧ CountOk occ items.length ∧
      ∀ it, it ∈ items → ∃ a, it = .obj a ∧ ConfFields sub a)
def ConfFields : List Fld → Attrs → Prop
  | [], _ => True
  | (k, occ, ty) :: fs, a => ConfTy ty occ (getAttr a k) ∧ ConfFields fs a
end

mutual
/-- a member that is not a list has `max_occurs ≤ 1` -/
def SigOccTy : Ty → Prop
  | .prim _ => True
  | .obj _ fs => SigOccFields fs
def SigOccFields : List Fld → Prop
  | [] => True
  | (_, occ, t) :: r => (occ.many = false → ∃ mx, occ.maxOcc = some mx ∧ mx ≤ 1) ∧ SigOccTy t ∧ SigOccFields r
end

theorem freqOkAt_mem {evs : List Ev} {K : FKey} {fields : List Fld}
    (h : freqOkAt evs K (specOf fields) = true) {f : Fld} (hf : f ∈ fields) : CountOk f.2.1 (evCount evs K f.1) := by
  unfold freqOkAt at h
  rw [List.all_eq_true] at h
  have := h (f.1, f.2.1.minOcc, f.2.1.maxOcc) (by
    simp only [specOf, List.mem_map]; exact ⟨f, hf, rfl⟩)
  simp only [Bool.and_eq_true, decide_eq_true_eq] at this
  refine ⟨this.1, fun mx hmx => ?_⟩
  have h2 := this.2
  rw [hmx] at h2
  simpa using h2

/-- an instance with an entry of its own in the table passes `_check_freq_dict` -/
theorem own_of_entry {evs : List Ev} (hd : freqDeep evs = true) (c : Text × Nat) (sub : List Fld)
    (he : HasEntry sub (evsUnder c evs)) : freqOkAt (evsUnder c evs) [] (specOf sub) = true := by
  obtain ⟨e, hmem, hk, hsp⟩ := he
  simp only [evsUnder, List.mem_filterMap] at hmem
  obtain ⟨e0, he0, hm⟩ := hmem
  obtain ⟨key, spec, nm, inc⟩ := e0
  cases key with
  | nil => simp at hm
  | cons hd' tl =>
    by_cases hc : hd' = c
    · subst hc
      simp only [if_true, Option.some.injEq] at hm
      subst hm
      simp only at hk hsp
      subst hk hsp
      unfold freqDeep at hd
      rw [List.all_eq_true] at hd
      have := hd _ he0
      simp only at this
      rw [freqOkAt_child] at this
      exact this
    · simp [hc] at hm

/-! ### every position of the list belongs to an index -/

def insSorted (a : Nat) : List Nat → List Nat
  | [] => [a]
  | b :: r => if a < b then a :: b :: r else b :: insSorted a r

theorem strictInc_cons (a : Nat) (l : List Nat) (h1 : ∀ x, x ∈ l → a < x) (h2 : StrictInc l) : StrictInc (a :: l) := by
  cases l with
  | nil => trivial
  | cons b r => exact ⟨h1 b List.mem_cons_self, h2⟩

theorem insSorted_spec (a : Nat) : ∀ (l : List Nat), StrictInc l → a ∉ l →
    StrictInc (insSorted a l) ∧ (a :: l).Perm (insSorted a l) := by
  intro l
  induction l with
  | nil => intro _ _; exact ⟨trivial, List.Perm.refl _⟩
  | cons b r ih =>
    intro hl ha
    simp only [insSorted]
    by_cases hab : a < b
    · simp only [hab, if_true]
      exact ⟨⟨hab, hl⟩, List.Perm.refl _⟩
    · simp only [hab, if_false]
      have hne : a ≠ b := fun e => ha (by simp [e])
      have hba : b < a := by omega
      obtain ⟨h1, h2⟩ := ih hl.tail (fun h => ha (List.mem_cons_of_mem _ h))
      refine ⟨strictInc_cons b _ ?_ h1, (List.Perm.swap b a r).trans (List.Perm.cons b h2)⟩
      intro x hx
      rcases List.mem_cons.mp (h2.symm.subset hx) with rfl | hx
      · exact hba
      · exact hl.head_lt x hx

theorem exists_sorted_perm : ∀ (l : List Nat), l.Nodup → ∃ is, StrictInc is ∧ l.Perm is := by
  intro l
  induction l with
  | nil => intro _; exact ⟨[], trivial, List.Perm.refl _⟩
  | cons a r ih =>
    intro hn
    obtain ⟨hnot, hn'⟩ := List.nodup_cons.mp hn
    obtain ⟨is, hs, hp⟩ := ih hn'
    obtain ⟨h1, h2⟩ := insSorted_spec a is hs (fun h => hnot (hp.symm.subset h))
    exact ⟨insSorted a is, h1, (List.Perm.cons a hp).trans h2⟩

theorem item_has_index {α : Type} {m : List (Nat × Nat)} {items : List α} (h : ArrInv m items.length) (d : α)
    {it : α} (hit : it ∈ items) : ∃ i, i ∈ mkeys m ∧ it = arrGet m items d i := by
  obtain ⟨is, hs, hp⟩ := exists_sorted_perm (mkeys m) h.nodup
  have := items_eq_map_arrGet h is hs hp d
  rw [this] at hit
  obtain ⟨i, hi, rfl⟩ := List.mem_map.mp hit
  exact ⟨i, hp.symm.subset hi, rfl⟩

mutual
theorem conf_of_wc_ty (strict : Bool) (ty : Ty) (occ : Occ) (n : Node) (c : Nat) (E : Nat → List Ev)
    (hw : WCTy strict ty occ n c E) (hc : CountOk occ c)
    (hmax : occ.many = false → ∃ mx, occ.maxOcc = some mx ∧ mx ≤ 1) (hsig : SigOccTy ty)
    (hdeep : ∀ i, freqDeep (E i) = true)
    (hown : ∀ i sub, HasEntry sub (E i) → freqOkAt (E i) [] (specOf sub) = true) : ConfTy ty occ n := by
  match ty, hw, hsig with
  | .prim p, hw, _ =>
    simp only [WCTy] at hw
    simp only [ConfTy]
    rcases hw with ⟨rfl, rfl⟩ | ⟨hm, v, rfl, _, hv⟩ | ⟨hm, vs, rfl, rfl, hvs⟩
    · exact Or.inl ⟨rfl, by have := hc.1; omega⟩
    · exact Or.inr (Or.inl ⟨hm, v, rfl, hv⟩)
    · exact Or.inr (Or.inr ⟨hm, vs, rfl, hc, hvs⟩)
  | .obj cid sub, hw, hsig =>
    simp only [WCTy] at hw
    simp only [ConfTy]
    simp only [SigOccTy] at hsig
    rcases hw with ⟨rfl, rfl, _⟩ | ⟨hm, a, rfl, hge, hone⟩ | ⟨hm, m, items, rfl, rfl, hdisj⟩
    · exact Or.inl ⟨rfl, by have := hc.1; omega⟩
    · obtain ⟨mx, hmx, hle⟩ := hmax hm
      have : c = 1 := by have := hc.2 mx hmx; omega
      obtain ⟨hent, hwa⟩ := hone this
      exact Or.inr (Or.inl ⟨hm, a, rfl, conf_of_wc_fields strict sub a (E 0) hwa (hown 0 sub hent) (hdeep 0) hsig⟩)
    · refine Or.inr (Or.inr ⟨hm, m, items, rfl, hc, ?_⟩)
      intro it hit
      rcases hdisj with ⟨_, hinv, _, hel⟩ | ⟨_, _, hel⟩
      · obtain ⟨i, hi, rfl⟩ := item_has_index hinv Node.none hit
        obtain ⟨a, ha, hent, hwa⟩ := hel i hi
        exact ⟨a, ha, conf_of_wc_fields strict sub a (E i) hwa (hown i sub hent) (hdeep i) hsig⟩
      · obtain ⟨i, hi, rfl⟩ := List.getElem_of_mem hit
        obtain ⟨a, ha, hent, hwa⟩ := hel i hi
        refine ⟨a, ?_, conf_of_wc_fields strict sub a (E i) hwa (hown i sub hent) (hdeep i) hsig⟩
        rw [← ha]
        simp [List.getD_eq_getElem?_getD, hi]
theorem conf_of_wc_fields (strict : Bool) (fields : List Fld) (a : Attrs) (evs : List Ev)
    (hw : WCFields strict fields a evs) (hown : freqOkAt evs [] (specOf fields) = true) (hdeep : freqDeep evs = true)
    (hsig : SigOccFields fields) : ConfFields fields a := by
  match fields, hw, hown, hsig with
  | [], _, _, _ => trivial
  | (k, occ, ty) :: fs, hw, hown, hsig =>
    simp only [WCFields] at hw
    simp only [SigOccFields] at hsig
    simp only [ConfFields]
    refine ⟨conf_of_wc_ty strict ty occ _ _ _ hw.1 (freqOkAt_mem hown (f := (k, occ, ty)) List.mem_cons_self) hsig.1 hsig.2.1
      (fun i => freqDeep_child evs (k, i) hdeep) (fun i sub he => own_of_entry hdeep (k, i) sub he), ?_⟩
    have hown' : freqOkAt evs [] (specOf fs) = true := by
      unfold freqOkAt at hown ⊢
      simp only [specOf, List.map_cons, List.all_cons, Bool.and_eq_true] at hown
      exact hown.2
    exact conf_of_wc_fields strict fs a evs hw.2 hown' hdeep hsig.2.2
end

end SpyneModel.Flat
