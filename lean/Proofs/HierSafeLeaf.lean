/-
  C10 / C04 at the leaves of dict documents: whatever document node stands where a primitive is declared,
  `_from_dict_value` does not let an exception escape and, under soft validation, yields `None` or a value of the
  declared kind. General in `F`, `G`; uses `LeafLaws.sound` and `LeafLaws.nocrash` only.
-/
import Proofs.HierBasic
namespace SpyneModel.Hier
open SpyneModel
variable {F : Facts08} {G : Facts02} {cfg : Cfg}

/-- a decoding result that is safe to act on: no escaping exception; under soft validation nothing foreign is
    passed through and the value satisfies `ok` -/
def SafeRes (cfg : Cfg) (ok : Val → Prop) : Res Val → Prop
  | .ok v l => cfg.soft = true → (l = false ∧ ok v)
  | .fault => True
  | .crash _ => False

/-- what a leaf handler may return for the document `d`: a value of the declared kind, a fault, or a passed-through
    node (flagged) which `validate_native` then rejects under soft validation -/
def LeafSafe (G : Facts02) (cfg : Cfg) (p : PrimTy) (d : Doc) : Res Val → Prop
  | .ok v false => p.kindOk v = true
  | .ok _ true => cfg.soft = true → leakNative G cfg p d = .fault
  | .fault => True
  | .crash _ => False

theorem LeafSafe.good {p : PrimTy} {d : Doc} {v : Val} (h : p.kindOk v = true) : LeafSafe G cfg p d (.good v) := h
theorem LeafSafe.fault' {p : PrimTy} {d : Doc} : LeafSafe G cfg p d .fault := trivial
theorem LeafSafe.leak {p : PrimTy} {d : Doc} (h : cfg.soft = true → leakNative G cfg p d = .fault) :
    LeafSafe G cfg p d leakVal := h

theorem leakNative_int (hG : G.Good) (k r) (d : Doc) (hd : ∀ i, d ≠ .float (some i)) (hs : cfg.soft = true) :
    leakNative G cfg (.integer k r) d = .fault := by
  unfold leakNative
  simp only [hs, Bool.not_true, Bool.false_eq_true, if_false]
  cases d <;> simp [hG.nat]
  case float v => cases v <;> simp; exact absurd rfl (hd _)

theorem leakNative_str (a b c e) (d : Doc) (hs : cfg.soft = true) :
    leakNative G cfg (.unicode a b c e) d = .fault := by
  unfold leakNative
  simp only [hs, Bool.not_true, Bool.false_eq_true, if_false]

theorem leafSafe_ofOutcome (L : LeafLaws F) (p : PrimTy) (d : Doc) (s : Text) : LeafSafe G cfg p d (ofOutcome (leafFromText F p s)) := by
  cases h : leafFromText F p s with
  | ok v => exact LeafSafe.good (L.sound p s v h)
  | fault => exact LeafSafe.fault'
  | crash e => exact absurd h (L.nocrash p s e)

theorem kindOk_int (k r i) : (PrimTy.integer k r).kindOk (.int i) = true := rfl

theorem intOfFloat_safe (hG : G.Good) (k r) (j : Bool) (v : Option Int) : LeafSafe G cfg (.integer k r) (.float v) (intOfFloat G j v) := by
  cases v with
  | none => exact LeafSafe.leak (fun hs => leakNative_int hG k r _ (by intro i h; cases h) hs)
  | some i => simp only [intOfFloat, hG.iff, Bool.or_true, if_true]; exact LeafSafe.good rfl

theorem intInJson_safe (hG : G.Good) (k r) (d : Doc) : LeafSafe G cfg (.integer k r) d (intInJson G d) := by
  cases d <;> simp only [intInJson] <;>
    first | exact LeafSafe.fault' | exact LeafSafe.good rfl | exact intOfFloat_safe hG k r _ _ | exact LeafSafe.leak (fun hs => leakNative_int hG k r _ (by intro i h; cases h) hs)

theorem intInMp_safe (hG : G.Good) (k r) (d : Doc) : LeafSafe G cfg (.integer k r) d (intInMp F G k d) := by
  cases d <;> simp only [intInMp] <;>
    first | exact LeafSafe.fault' | exact LeafSafe.good rfl | exact intOfFloat_safe hG k r _ _ | exact LeafSafe.leak (fun hs => leakNative_int hG k r _ (by intro i h; cases h) hs) | skip
  case str s =>
    unfold intFromText
    split
    · exact LeafSafe.fault'
    · split
      · simp only [ofOutcome, Res.good_map]; exact LeafSafe.good rfl
      · exact LeafSafe.fault'
  case bytes bs =>
    split
    · exact LeafSafe.fault'
    · split
      · split
        · exact LeafSafe.good rfl
        · exact LeafSafe.fault'
      · exact LeafSafe.fault'

theorem boolIn_safe (hG : G.Good) (d : Doc) : LeafSafe G cfg .boolean d (boolIn G d) := by
  cases d <;> simp only [boolIn] <;> first | exact LeafSafe.fault' | exact LeafSafe.good rfl | skip
  case int i =>
    split
    · simp only [hG.bool, if_true]; exact LeafSafe.good rfl
    · exact LeafSafe.fault'
  case float v =>
    cases v with
    | none => exact LeafSafe.fault'
    | some i =>
      simp only [boolIn]
      split
      · simp only [hG.bool, if_true]; exact LeafSafe.good rfl
      · exact LeafSafe.fault'

theorem strIn_safe (hG : G.Good) (a b c e) (d : Doc) : LeafSafe G cfg (.unicode a b c e) d (strIn G d) := by
  cases d <;> simp only [strIn] <;>
    first | exact LeafSafe.leak (fun hs => leakNative_str a b c e _ hs) | exact LeafSafe.good rfl | skip
  case bytes bs =>
    split
    · exact LeafSafe.good rfl
    · simp only [hG.utf8, if_true]; exact LeafSafe.fault'

theorem textIn_safe (L : LeafLaws F) (hG : G.Good) (bt : Bool) (p : PrimTy) (d : Doc) :
    LeafSafe G cfg p d (textIn F G bt p d) := by
  cases d <;> simp only [textIn, kindError, hG.leaf, hG.tutf8, if_true] <;> first | exact LeafSafe.fault' | skip
  case str s => exact leafSafe_ofOutcome L p _ s
  case bytes bs =>
    split
    · split
      · exact leafSafe_ofOutcome L p _ _
      · exact LeafSafe.fault'
    · exact LeafSafe.fault'

theorem boolPass_good (hG : G.Good) : cfg.boolPass G = false := by
  simp [Cfg.boolPass, hG.mpbool]

theorem binDec_safe (L : LeafLaws F) (enc : BinEnc) (d : Doc) (s : Text) : LeafSafe G cfg (.bytes enc) d (binDec F enc s) :=
  leafSafe_ofOutcome L (.bytes enc) d s

theorem bytesIn_safe (L : LeafLaws F) (hG : G.Good) (enc : BinEnc) (raw : Bool) (d : Doc) :
    LeafSafe G cfg (.bytes enc) d (bytesIn F G enc raw d) := by
  unfold bytesIn
  cases raw
  · simp only [Bool.false_eq_true, if_false]
    cases d <;> simp only [hG.bin, Bool.or_true, if_true] <;>
      first | exact LeafSafe.fault' | exact binDec_safe L _ _ _ | skip
    case bytes bs => split; exact binDec_safe L _ _ _; exact LeafSafe.fault'
    case list ds =>
      split
      · split; exact binDec_safe L _ _ _; exact LeafSafe.fault'
      · exact LeafSafe.fault'
    all_goals (split <;> exact LeafSafe.fault')
  · simp only [if_true]
    cases d <;> simp only [hG.raw, if_true] <;>
      first | exact LeafSafe.fault' | (split <;> first | exact LeafSafe.good rfl | exact LeafSafe.fault')

theorem enumIn_safe (names : List Text) (d : Doc) : LeafSafe G cfg (.enum names) d (enumIn names d) := by
  cases d <;> simp only [enumIn] <;> first | exact LeafSafe.fault' | skip
  case str s =>
    split
    · rename_i h; exact LeafSafe.good (by simpa [PrimTy.kindOk] using h)
    · exact LeafSafe.fault'

theorem leafIn_safe (L : LeafLaws F) (hG : G.Good) (p : PrimTy) (d : Doc) : LeafSafe G cfg p d (leafIn F G cfg p d) := by
  cases p <;> simp only [leafIn]
  case integer k r => split; exact intInMp_safe hG k r d; exact intInJson_safe hG k r d
  case boolean => simp only [boolPass_good hG, Bool.false_eq_true, if_false]; exact boolIn_safe hG d
  case unicode a b c e => exact strIn_safe hG a b c e d
  case date => exact textIn_safe L hG _ _ d
  case time => exact textIn_safe L hG _ _ d
  case dateTime => exact textIn_safe L hG _ _ d
  case duration => exact textIn_safe L hG _ _ d
  case bytes enc => exact bytesIn_safe L hG enc _ d
  case enum names => exact enumIn_safe names d


theorem SafeRes.fault' {ok : Val → Prop} : SafeRes cfg ok .fault := trivial
theorem SafeRes.good {ok : Val → Prop} {v : Val} (h : ok v) : SafeRes cfg ok (.good v) := fun _ => ⟨rfl, h⟩

theorem postLeaf_safe (hG : G.Good) (p : PrimTy) (d : Doc) (r : Res Val) (h : LeafSafe G cfg p d r) :
    SafeRes cfg (fun v => v = .none ∨ p.kindOk v = true) (postLeaf G cfg p d r) := by
  cases r with
  | fault => exact SafeRes.fault'
  | crash e => exact h.elim
  | ok v l =>
    cases l
    · simp only [postLeaf]
      split
      · exact SafeRes.good (Or.inr h)
      · exact SafeRes.fault'
    · simp only [postLeaf]
      cases hs : cfg.soft
      · simp [leakNative, hs, leakVal, SafeRes]
      · rw [h hs]; exact SafeRes.fault'

/-- `_from_dict_value` on a primitive: never an escaping exception; under soft validation the value is `None` or of
    the declared kind — whatever the document node is -/
theorem primIn_safe (L : LeafLaws F) (hG : G.Good) (p : PrimTy) (o : Occ) (d : Doc) :
    SafeRes cfg (fun v => v = .none ∨ p.kindOk v = true) (primIn F G cfg p o d) := by
  unfold primIn
  split
  · exact SafeRes.fault'
  · cases d <;> simp only []
    case null =>
      split
      · exact SafeRes.fault'
      · exact SafeRes.good (Or.inl rfl)
    all_goals exact postLeaf_safe hG p _ _ (leafIn_safe L hG p _)

end SpyneModel.Hier
