/-
  C03 helper lemmas, part 4: the walk over the keys of a documented request, in any order
  (idxmap branch, `strict_arrays = False`).
-/
import Proofs.FlatArr
import Proofs.FlatTree
namespace SpyneModel.Flat
open SpyneModel

/-! ## entries as the walk sees them -/

def KEntry.path (e : KEntry) : List Text := e.segs.map Prod.fst
def KEntry.idxs (e : KEntry) : List Nat := e.segs.filterMap Prod.snd
def KEntry.head (e : KEntry) : Text := match e.segs with | [] => [] | s :: _ => s.1

def KV.payload : KV → Payload
  | .prims _ many vs => .prims many vs
  | .emptyArr => .emptyArr
  | .emptyObj sub => .emptyObj sub

/-- one key applied to the members of an instance -/
def walkK (strict : Bool) (fields : List Fld) (attrs : Attrs) (e : KEntry) : Outcome Attrs :=
  walkT strict fields attrs e.path e.idxs e.kv.payload

/-- what a key does to the member `k` named by its first segment -/
def updK (strict : Bool) (fields : List Fld) (k : Text) (cur : Node) (e : KEntry) : Outcome Node :=
  match e.segs with
  | [] => .crash "IndexError"
  | _ :: rest => stepMemberT strict fields cur k (rest.map Prod.fst) e.idxs e.kv.payload

theorem walkK_eq (strict : Bool) (fields : List Fld) (attrs : Attrs) (e : KEntry) :
    walkK strict fields attrs e =
      obind (updK strict fields e.head (getAttr attrs e.head) e) fun r => .ok (setAttr attrs e.head r) := by
  unfold walkK walkT updK KEntry.path KEntry.head
  cases e.segs with
  | nil => rfl
  | cons s rest => rfl

/-- the keyed-store law of an instance: a key changes only the member it starts with -/
theorem walkK_law (strict : Bool) (fields : List Fld) (attrs : Attrs) (e : KEntry) (v' : Node)
    (h : updK strict fields e.head (getAttr attrs e.head) e = .ok v') :
    ∃ s', walkK strict fields attrs e = .ok s' ∧ True ∧ getAttr s' e.head = v' ∧
      ∀ j, j ≠ e.head → getAttr s' j = getAttr attrs j := by
  refine ⟨setAttr attrs e.head v', ?_, trivial, getAttr_setAttr_same _ _ _, fun j hj => getAttr_setAttr_ne _ _ _ _ hj⟩
  rw [walkK_eq, h]; rfl

/-- the keys of an instance do not change when the keys all start with a member name -/
theorem foldO_walkK_keys (strict : Bool) (fields : List Fld) (es : List KEntry) (attrs attrs' : Attrs)
    (hk : ∀ e, e ∈ es → e.head ∈ attrs.map Prod.fst)
    (h : foldO (walkK strict fields) attrs es = .ok attrs') : attrs'.map Prod.fst = attrs.map Prod.fst := by
  induction es generalizing attrs with
  | nil => simp at h; rw [← h]
  | cons e es ih =>
    simp only [foldO_cons] at h
    obtain ⟨a1, h1, h2⟩ := obind_eq_ok.mp h
    rw [walkK_eq] at h1
    obtain ⟨r, _, hr⟩ := obind_eq_ok.mp h1
    simp only [Outcome.ok.injEq] at hr
    have hkeys : a1.map Prod.fst = attrs.map Prod.fst := by
      rw [← hr]; exact setAttr_keys _ _ _ (hk e List.mem_cons_self)
    rw [← hkeys]
    apply ih a1 _ h2
    intro e' he'
    rw [hkeys]
    exact hk e' (List.mem_cons_of_mem _ he')

/-! ## sizes (for the induction over nested spelled values) -/

mutual
def SVal.size : SVal → Nat
  | .leaf _ => 1
  | .leaves _ => 1
  | .emptyObj => 1
  | .obj ms => 1 + msSize ms
  | .arr elems => 1 + elSize elems
def msSize : Members → Nat
  | [] => 0
  | (_, sv) :: r => 1 + sv.size + msSize r
def elSize : List (Nat × Members) → Nat
  | [] => 0
  | (_, ms) :: r => 1 + msSize ms + elSize r
end

theorem size_lt_of_mem {ms : Members} {k : Text} {sv : SVal} (h : (k, sv) ∈ ms) : sv.size < msSize ms := by
  induction ms with
  | nil => simp at h
  | cons a r ih =>
    obtain ⟨n, sv'⟩ := a
    simp only [msSize]
    rcases List.mem_cons.mp h with h | h
    · simp only [Prod.mk.injEq] at h; rw [h.2]; omega
    · have := ih h; omega

theorem elSize_lt_of_mem {elems : List (Nat × Members)} {i : Nat} {ms : Members} (h : (i, ms) ∈ elems) :
    msSize ms < elSize elems := by
  induction elems with
  | nil => simp at h
  | cons a r ih =>
    obtain ⟨j, ms'⟩ := a
    simp only [elSize]
    rcases List.mem_cons.mp h with h | h
    · simp only [Prod.mk.injEq] at h; rw [h.2]; omega
    · have := ih h; omega

/-! ## shape of the keys of a spelled value -/

theorem push_head (n : Text) (i : Option Nat) (e : KEntry) : (KEntry.push n i e).head = n := rfl

theorem kentriesElems_head (sub : List Fld) (n : Text) (elems : List (Nat × Members)) :
    ∀ e, e ∈ kentriesElems sub n elems → e.head = n := by
  induction elems with
  | nil => simp [kentriesElems]
  | cons a r ih =>
    obtain ⟨i, ms⟩ := a
    intro e he
    simp only [kentriesElems, List.mem_append, List.mem_map] at he
    rcases he with ⟨e', _, rfl⟩ | he
    · rfl
    · exact ih e he

theorem kentriesVal_head (fields : List Fld) (n : Text) (sv : SVal) :
    ∀ e, e ∈ kentriesVal fields n sv → e.head = n := by
  intro e he
  cases sv with
  | leaf v => simp only [kentriesVal, List.mem_singleton] at he; subst he; rfl
  | leaves vs => simp only [kentriesVal, List.mem_singleton] at he; subst he; rfl
  | emptyObj => simp only [kentriesVal, List.mem_singleton] at he; subst he; rfl
  | obj ms =>
    simp only [kentriesVal, List.mem_map] at he
    obtain ⟨e', _, rfl⟩ := he; rfl
  | arr elems =>
    simp only [kentriesVal] at he
    split at he
    · simp only [List.mem_singleton] at he; subst he; rfl
    · exact kentriesElems_head _ _ _ e he

/-- the keys of a spelled object that start with `k`: those of member `k`, if it is spelled -/
theorem kentries_filter_head (fields : List Fld) (ms : Members) (hn : (ms.map Prod.fst).Nodup) (k : Text) :
    (kentries fields ms).filter (fun e => e.head = k) =
      match ms.find? (fun m => m.1 = k) with
      | some m => kentriesVal fields m.1 m.2
      | none => [] := by
  induction ms with
  | nil => simp [kentries]
  | cons a r ih =>
    obtain ⟨n, sv⟩ := a
    simp only [List.map_cons, List.nodup_cons] at hn
    simp only [kentries, List.filter_append, List.find?_cons]
    by_cases hk : n = k
    · subst hk
      simp only [decide_true]
      have h1 : (kentriesVal fields n sv).filter (fun e => e.head = n) = kentriesVal fields n sv := by
        apply List.filter_eq_self.mpr
        intro e he; simp [kentriesVal_head _ _ _ e he]
      have h2 : (kentries fields r).filter (fun e => e.head = n) = [] := by
        rw [ih hn.2]
        have : r.find? (fun m => m.1 = n) = none := by
          apply List.find?_eq_none.mpr
          intro m hm
          simp only [decide_eq_true_eq]
          intro e
          exact hn.1 (e ▸ List.mem_map_of_mem (f := Prod.fst) hm)
        rw [this]
      rw [h1, h2, List.append_nil]
    · simp only [hk, decide_false]
      have h1 : (kentriesVal fields n sv).filter (fun e => e.head = k) = [] := by
        apply List.filter_eq_nil_iff.mpr
        intro e he; simp [kentriesVal_head _ _ _ e he, hk]
      rw [h1, List.nil_append, ih hn.2]

theorem kentries_head_mem (fields : List Fld) (ms : Members) :
    ∀ e, e ∈ kentries fields ms → e.head ∈ ms.map Prod.fst := by
  induction ms with
  | nil => simp [kentries]
  | cons a r ih =>
    obtain ⟨n, sv⟩ := a
    intro e he
    simp only [kentries, List.mem_append] at he
    rcases he with he | he
    · simp [kentriesVal_head _ _ _ e he]
    · exact List.mem_cons_of_mem _ (ih e he)

theorem kentriesVal_ne_nil_of (fields : List Fld) (n : Text) (sv : SVal)
    (hobj : ∀ ms, sv = .obj ms → kentries (subOf fields n) ms ≠ [])
    (harr : ∀ el, sv = .arr el → el ≠ [] → kentriesElems (subOf fields n) n el ≠ []) :
    kentriesVal fields n sv ≠ [] := by
  cases sv with
  | leaf v => simp [kentriesVal]
  | leaves vs => simp [kentriesVal]
  | emptyObj => simp [kentriesVal]
  | obj ms => simp only [kentriesVal, ne_eq, List.map_eq_nil_iff]; exact hobj ms rfl
  | arr elems =>
    simp only [kentriesVal]
    split
    · simp
    · rename_i h
      exact harr elems rfl (by intro e; simp [e] at h)

/-! ## a member that holds one object -/

theorem push_idxs_none (n : Text) (y : KEntry) : (y.push n none).idxs = y.idxs := by
  simp [KEntry.push, KEntry.idxs]

theorem push_idxs_some (n : Text) (i : Nat) (y : KEntry) : (y.push n (some i)).idxs = i :: y.idxs := by
  simp [KEntry.push, KEntry.idxs]

/-- below a single-object member, a key does to the child instance what it says after its first
    segment -/
theorem updK_push_obj (strict : Bool) (fields : List Fld) (k : Text) (occ : Occ) (cid : Nat) (sub : List Fld)
    (hl : lookupFld fields k = some (k, occ, .obj cid sub)) (hm : occ.many = false)
    (c : Attrs) (y : KEntry) (hy : y.segs ≠ []) :
    updK strict fields k (.obj c) (y.push k none) = omap Node.obj (walkK strict sub c y) := by
  obtain ⟨segs, kv⟩ := y
  cases segs with
  | nil => exact absurd rfl hy
  | cons s rest =>
    simp only [updK, KEntry.push, walkK, KEntry.path, List.map_cons, walkT]
    rw [show (KEntry.mk ((k, none) :: s :: rest) kv).idxs = (KEntry.mk (s :: rest) kv).idxs from
      push_idxs_none k ⟨s :: rest, kv⟩]
    simp only [stepMemberT, hl, hm, Bool.false_eq_true, if_false]
    cases stepMemberT strict sub (getAttr c s.1) s.1 (rest.map Prod.fst) (KEntry.mk (s :: rest) kv).idxs kv.payload <;> rfl

theorem updK_push_obj_none (strict : Bool) (fields : List Fld) (k : Text) (occ : Occ) (cid : Nat) (sub : List Fld)
    (hl : lookupFld fields k = some (k, occ, .obj cid sub)) (hm : occ.many = false)
    (y : KEntry) (hy : y.segs ≠ []) :
    updK strict fields k .none (y.push k none) = updK strict fields k (.obj (freshAttrs sub)) (y.push k none) := by
  obtain ⟨segs, kv⟩ := y
  cases segs with
  | nil => exact absurd rfl hy
  | cons s rest =>
    simp only [updK, KEntry.push, List.map_cons, stepMemberT, hl, hm, Bool.false_eq_true, if_false]

theorem foldO_updK_obj (strict : Bool) (fields : List Fld) (k : Text) (occ : Occ) (cid : Nat) (sub : List Fld)
    (hl : lookupFld fields k = some (k, occ, .obj cid sub)) (hm : occ.many = false)
    (ys : List KEntry) (hys : ∀ y, y ∈ ys → y.segs ≠ []) (c : Attrs) :
    foldO (updK strict fields k) (.obj c) (ys.map (KEntry.push k none)) =
      omap Node.obj (foldO (walkK strict sub) c ys) := by
  induction ys generalizing c with
  | nil => rfl
  | cons y ys ih =>
    simp only [List.map_cons, foldO_cons]
    rw [updK_push_obj strict fields k occ cid sub hl hm c y (hys y List.mem_cons_self)]
    cases walkK strict sub c y with
    | ok c1 =>
      simp only [omap_ok, obind_ok]
      exact ih (fun y' hy' => hys y' (List.mem_cons_of_mem _ hy')) c1
    | fault => rfl
    | crash e => rfl

/-- the same from `None`: the first key creates the instance -/
theorem foldO_updK_obj_none (strict : Bool) (fields : List Fld) (k : Text) (occ : Occ) (cid : Nat) (sub : List Fld)
    (hl : lookupFld fields k = some (k, occ, .obj cid sub)) (hm : occ.many = false)
    (ys : List KEntry) (hys : ∀ y, y ∈ ys → y.segs ≠ []) (hne : ys ≠ []) :
    foldO (updK strict fields k) .none (ys.map (KEntry.push k none)) =
      omap Node.obj (foldO (walkK strict sub) (freshAttrs sub) ys) := by
  cases ys with
  | nil => exact absurd rfl hne
  | cons y ys =>
    rw [← foldO_updK_obj strict fields k occ cid sub hl hm (y :: ys) hys]
    simp only [List.map_cons, foldO_cons]
    rw [updK_push_obj_none strict fields k occ cid sub hl hm y (hys y List.mem_cons_self)]

/-! ## a member that holds an array of objects (idxmap branch) -/

theorem setAt_pyInsert {α : Type} (l : List α) (p : Nat) (x y : α) (hp : p ≤ l.length) :
    setAt (pyInsert l p x) p y = pyInsert l p y := by
  induction l generalizing p with
  | nil =>
    have : p = 0 := by simpa using hp
    subst this; rfl
  | cons a r ih =>
    cases p with
    | zero => rfl
    | succ p =>
      have := ih p (by simpa using hp)
      simp only [pyInsert, List.take_succ_cons, List.drop_succ_cons, List.cons_append, setAt] at this ⊢
      rw [this]

/-- what a key does to the element it addresses -/
def updA (strict : Bool) (sub : List Fld) (node : Node) (y : KEntry) : Outcome Node :=
  match node with
  | .obj child => omap Node.obj (walkK strict sub child y)
  | _ => .crash "IndexError"

theorem getElem?_of_getD {α : Type} (l : List α) (c : Nat) (d : α) (h : c < l.length) :
    l[c]? = some (l.getD c d) := by
  simp [List.getD_eq_getElem?_getD, h]

/-- the idxmap branch is `arrPut` of what the key does to `arrGet` -/
theorem updK_push_arr (fields : List Fld) (k : Text) (occ : Occ) (cid : Nat) (sub : List Fld)
    (hl : lookupFld fields k = some (k, occ, .obj cid sub)) (hm : occ.many = true)
    (m : List (Nat × Nat)) (items : List Node) (hinv : ArrInv m items.length)
    (i : Nat) (y : KEntry) (hy : y.segs ≠ []) :
    updK false fields k (.arr m items) (y.push k (some i)) =
      obind (updA false sub (arrGet m items (fresh sub) i) y) fun v' =>
        .ok (.arr (arrPut m items i v').1 (arrPut m items i v').2) := by
  obtain ⟨segs, kv⟩ := y
  cases segs with
  | nil => exact absurd rfl hy
  | cons s rest =>
    simp only [updK, KEntry.push, List.map_cons]
    rw [show (KEntry.mk ((k, some i) :: s :: rest) kv).idxs = i :: (KEntry.mk (s :: rest) kv).idxs from
      push_idxs_some k i ⟨s :: rest, kv⟩]
    simp only [stepMemberT, hl, hm, if_true, popIdx, Bool.false_eq_true, if_false, obind_ok]
    unfold lenientSlotT arrGet arrPut
    cases hg : mapGet m i with
    | some c =>
      have hc := (hinv.get_lt hg).1
      simp only [getElem?_of_getD items c (fresh sub) hc]
      cases hnode : items.getD c (fresh sub) with
      | obj child =>
        simp only [updA, walkK, KEntry.path, List.map_cons, walkT, omap_obind]
        cases stepMemberT false sub (getAttr child s.1) s.1 (rest.map Prod.fst) (KEntry.mk (s :: rest) kv).idxs kv.payload <;> rfl
      | none => rfl
      | leaf _ => rfl
      | leaves _ => rfl
      | arr _ _ => rfl
    | none =>
      have hi := mapGet_none_iff.mp hg
      obtain ⟨_, hpos⟩ := hinv.after_s2cmi hi
      have hle : (s2cmi m i).1 ≤ items.length := by
        rw [hpos, hinv.len]
        have := rank_le_length (mkeys m) i
        simpa [mkeys] using this
      have hpl := pyInsert_length items (s2cmi m i).1 (fresh sub) hle
      have hget : (pyInsert items (s2cmi m i).1 (fresh sub))[(s2cmi m i).1]? = some (fresh sub) := by
        rw [getElem?_of_getD _ _ (fresh sub) (by omega), pyInsert_getD_eq _ _ _ _ hle]
      simp only [fresh] at hget ⊢
      simp only [hget, updA, walkK, KEntry.path, List.map_cons, walkT, omap_obind]
      cases stepMemberT false sub (getAttr (freshAttrs sub) s.1) s.1 (rest.map Prod.fst) (KEntry.mk (s :: rest) kv).idxs kv.payload with
      | ok r =>
        simp only [obind_ok, omap_ok]
        rw [setAt_pyInsert _ _ _ _ hle]
      | fault => rfl
      | crash e => rfl

theorem updK_push_arr_none (strict : Bool) (fields : List Fld) (k : Text) (occ : Occ) (cid : Nat) (sub : List Fld)
    (hl : lookupFld fields k = some (k, occ, .obj cid sub)) (hm : occ.many = true)
    (i : Nat) (y : KEntry) (hy : y.segs ≠ []) :
    updK strict fields k .none (y.push k (some i)) = updK strict fields k (.arr [] []) (y.push k (some i)) := by
  obtain ⟨segs, kv⟩ := y
  cases segs with
  | nil => exact absurd rfl hy
  | cons s rest =>
    simp only [updK, KEntry.push, List.map_cons, stepMemberT, hl, hm, if_true]

/-! ## erasing the idxmaps -/

theorem eraseItems_eq_map (items : List Node) : eraseItems items = items.map eraseNode := by
  induction items with
  | nil => rfl
  | cons a r ih => simp [eraseItems, ih]

theorem eraseAttrs_eq_map (a : Attrs) : eraseAttrs a = a.map (fun kv => (kv.1, eraseNode kv.2)) := by
  induction a with
  | nil => rfl
  | cons kv r ih => obtain ⟨k, v⟩ := kv; simp [eraseAttrs, ih]

theorem eraseAttrs_keys (a : Attrs) : (eraseAttrs a).map Prod.fst = a.map Prod.fst := by
  simp [eraseAttrs_eq_map, List.map_map, Function.comp_def]

theorem getAttr_eraseAttrs (a : Attrs) (k : Text) : getAttr (eraseAttrs a) k = eraseNode (getAttr a k) := by
  induction a with
  | nil => simp [eraseAttrs, getAttr, eraseNode]
  | cons kv r ih =>
    obtain ⟨k', v⟩ := kv
    simp only [eraseAttrs, getAttr]
    split <;> simp_all

theorem eraseAttrs_fresh (fields : List Fld) : eraseAttrs (freshAttrs fields) = freshAttrs fields := by
  induction fields with
  | nil => rfl
  | cons f r ih =>
    simp only [freshAttrs, List.map_cons, eraseAttrs, eraseNode] at *
    rw [ih]

theorem expElems_eq_map (sub : List Fld) (elems : List (Nat × Members)) :
    expElems sub elems = elems.map (fun el => Node.obj (expInto sub el.2 (freshAttrs sub))) := by
  induction elems with
  | nil => rfl
  | cons a r ih => obtain ⟨i, ms⟩ := a; simp [expElems, ih]

/-! ## the array member: any interleaving of the keys of its elements -/

def headIdx (e : KEntry) : Nat := match e.segs with | (_, some i) :: _ => i | _ => 0

def KEntry.tail (e : KEntry) : KEntry := ⟨e.segs.tail, e.kv⟩

theorem push_tail (n : Text) (i : Option Nat) (y : KEntry) : (y.push n i).tail = y := rfl

theorem kentriesElems_filter (sub : List Fld) (k : Text) (elems : List (Nat × Members))
    (hn : (elems.map Prod.fst).Nodup) (j : Nat) :
    (kentriesElems sub k elems).filter (fun e => headIdx e = j) =
      match elems.find? (fun el => el.1 = j) with
      | some el => (kentries sub el.2).map (KEntry.push k (some el.1))
      | none => [] := by
  induction elems with
  | nil => simp [kentriesElems]
  | cons a r ih =>
    obtain ⟨i, ms⟩ := a
    simp only [List.map_cons, List.nodup_cons] at hn
    simp only [kentriesElems, List.filter_append, List.find?_cons]
    by_cases hk : i = j
    · subst hk
      simp only [decide_true]
      have h1 : ((kentries sub ms).map (KEntry.push k (some i))).filter (fun e => headIdx e = i) =
          (kentries sub ms).map (KEntry.push k (some i)) := by
        apply List.filter_eq_self.mpr
        intro e he
        obtain ⟨y, _, rfl⟩ := List.mem_map.mp he
        simp [headIdx, KEntry.push]
      have h2 : (kentriesElems sub k r).filter (fun e => headIdx e = i) = [] := by
        rw [ih hn.2]
        have : r.find? (fun el => el.1 = i) = none := by
          apply List.find?_eq_none.mpr
          intro el hel
          simp only [decide_eq_true_eq]
          intro e
          exact hn.1 (e ▸ List.mem_map_of_mem (f := Prod.fst) hel)
        rw [this]
      rw [h1, h2, List.append_nil]
    · simp only [hk, decide_false]
      have h1 : ((kentries sub ms).map (KEntry.push k (some i))).filter (fun e => headIdx e = j) = [] := by
        apply List.filter_eq_nil_iff.mpr
        intro e he
        obtain ⟨y, _, rfl⟩ := List.mem_map.mp he
        simp [headIdx, KEntry.push, hk]
      rw [h1, List.nil_append, ih hn.2]

/-- every key below an array member is `k[i]…` for an element `i` of the array -/
theorem kentriesElems_form (sub : List Fld) (k : Text) (elems : List (Nat × Members)) :
    ∀ e, e ∈ kentriesElems sub k elems →
      ∃ i ms y, (i, ms) ∈ elems ∧ y ∈ kentries sub ms ∧ e = y.push k (some i) := by
  induction elems with
  | nil => simp [kentriesElems]
  | cons a r ih =>
    obtain ⟨i, ms⟩ := a
    intro e he
    simp only [kentriesElems, List.mem_append, List.mem_map] at he
    rcases he with ⟨y, hy, rfl⟩ | he
    · exact ⟨i, ms, y, List.mem_cons_self, hy, rfl⟩
    · obtain ⟨i', ms', y, h1, h2, h3⟩ := ih e he
      exact ⟨i', ms', y, List.mem_cons_of_mem _ h1, h2, h3⟩

/-- the keys of one element, taken together: the flag says the element exists -/
theorem foldO_updElem (cs : Bool) (sub : List Fld) (k : Text) (j : Nat) (ys : List KEntry)
    (hys : ∀ y, y ∈ ys → y.segs ≠ []) (b : Bool) (c : Attrs) :
    foldO (fun (bv : Bool × Node) e => omap (fun v => (true, v)) (updA cs sub bv.2 e.tail)) (b, .obj c)
        (ys.map (KEntry.push k (some j))) =
      if ys = [] then .ok (b, .obj c)
      else omap (fun c' => (true, Node.obj c')) (foldO (walkK cs sub) c ys) := by
  induction ys generalizing b c with
  | nil => rfl
  | cons y ys ih =>
    simp only [List.map_cons, foldO_cons, push_tail, reduceCtorEq, if_false]
    rw [show updA cs sub (Node.obj c) y = omap Node.obj (walkK cs sub c y) from rfl]
    cases hw : walkK cs sub c y with
    | ok c1 =>
      simp only [omap_ok, obind_ok]
      rw [ih (fun y' hy' => hys y' (List.mem_cons_of_mem _ hy')) true c1]
      split
      · rename_i h; subst h; rfl
      · rfl
    | fault => rfl
    | crash e => rfl

/-- reading an array member as a store keyed by the sparse index: is the index known, and the
    element it denotes -/
def getA (sub : List Fld) (s : Node) (j : Nat) : Bool × Node :=
  match s with
  | .arr m items => (decide (j ∈ mkeys m), arrGet m items (fresh sub) j)
  | _ => (false, fresh sub)

theorem mem_of_find (elems : List (Nat × Members)) (j : Nat) (el : Nat × Members)
    (h : elems.find? (fun el => el.1 = j) = some el) : el ∈ elems ∧ el.1 = j := by
  have := List.find?_some h
  exact ⟨List.mem_of_find?_eq_some h, by simpa using this⟩

theorem unique_of_nodup (elems : List (Nat × Members)) (hn : (elems.map Prod.fst).Nodup)
    {j : Nat} {ms ms' : Members} (h1 : (j, ms) ∈ elems) (h2 : (j, ms') ∈ elems) : ms = ms' := by
  induction elems with
  | nil => simp at h1
  | cons a r ih =>
    simp only [List.map_cons, List.nodup_cons] at hn
    rcases List.mem_cons.mp h1 with h1 | h1 <;> rcases List.mem_cons.mp h2 with h2 | h2
    · rw [← h1] at h2; exact ((Prod.mk.inj h2).2).symm
    · exfalso; apply hn.1; rw [← h1]; exact List.mem_map.mpr ⟨(j, ms'), h2, rfl⟩
    · exfalso; apply hn.1; rw [← h2]; exact List.mem_map.mpr ⟨(j, ms), h1, rfl⟩
    · exact ih hn.2 h1 h2

theorem arr_member_fold (fields : List Fld) (k : Text) (occ : Occ) (cid : Nat) (sub : List Fld)
    (hl : lookupFld fields k = some (k, occ, .obj cid sub)) (hm : occ.many = true)
    (elems : List (Nat × Members)) (hne : elems ≠ []) (hinc : StrictInc (elems.map Prod.fst))
    (hsegs : ∀ i ms y, (i, ms) ∈ elems → y ∈ kentries sub ms → y.segs ≠ [])
    (hnonempty : ∀ i ms, (i, ms) ∈ elems → kentries sub ms ≠ [])
    (hchild : ∀ i ms, (i, ms) ∈ elems → ∀ ys : List KEntry, ys.Perm (kentries sub ms) →
        ∃ c', foldO (walkK false sub) (freshAttrs sub) ys = .ok c' ∧
          eraseAttrs c' = expInto sub ms (freshAttrs sub))
    (es : List KEntry) (hp : es.Perm (kentriesElems sub k elems)) :
    ∃ v, foldO (updK false fields k) .none es = .ok v ∧ eraseNode v = .arr [] (expElems sub elems) := by
  have hnd : (elems.map Prod.fst).Nodup := hinc.nodup
  -- every key is `k[i]…`
  have hform : ∀ e, e ∈ es → ∃ (i : Nat) (y : KEntry), e = y.push k (some i) ∧ y.segs ≠ [] := by
    intro e he
    obtain ⟨i, ms, y, h1, h2, rfl⟩ := kentriesElems_form sub k elems e (hp.subset he)
    exact ⟨i, y, rfl, hsegs i ms y h1 h2⟩
  -- `None` and the empty list behave alike
  have hstart : foldO (updK false fields k) .none es = foldO (updK false fields k) (.arr [] []) es := by
    cases es with
    | nil => 
      exfalso
      cases elems with
      | nil => exact hne rfl
      | cons a r =>
        obtain ⟨i, ms⟩ := a
        have h0 := hnonempty i ms List.mem_cons_self
        have : kentriesElems sub k ((i, ms) :: r) = [] := by
          have := hp.length_eq; simp at this
          exact List.eq_nil_of_length_eq_zero this.symm
        simp only [kentriesElems, List.append_eq_nil_iff, List.map_eq_nil_iff] at this
        exact h0 this.1
    | cons e es' =>
      obtain ⟨i, y, rfl, hy⟩ := hform e List.mem_cons_self
      simp only [foldO_cons]
      rw [updK_push_arr_none false fields k occ cid sub hl hm i y hy]
  rw [hstart]
  have key := foldO_by_key (σ := Node) (ε := KEntry) (κ := Nat) (ν := Bool × Node)
    (getA sub) (updK false fields k) headIdx
    (fun _ bv e => omap (fun v => (true, v)) (updA false sub bv.2 e.tail))
    (fun s => ∃ m items, s = .arr m items ∧ ArrInv m items.length)
    (fun e => ∃ (i : Nat) (y : KEntry), e = y.push k (some i) ∧ y.segs ≠ [])
    (fun j bv => (∀ ms, (j, ms) ∈ elems → bv.1 = true ∧
        eraseNode bv.2 = .obj (expInto sub ms (freshAttrs sub))) ∧
      (j ∉ elems.map Prod.fst → bv.1 = false))
    (by
      intro s e v' hP hI hupd
      obtain ⟨i, y, rfl, hy⟩ := hP
      obtain ⟨m, items, rfl, hinv⟩ := hI
      have hkey : headIdx (y.push k (some i)) = i := rfl
      simp only [hkey, push_tail, getA] at hupd ⊢
      obtain ⟨w, hw, hv'⟩ := obind_eq_ok.mp hupd
      simp only [Outcome.ok.injEq] at hv'
      refine ⟨.arr (arrPut m items i w).1 (arrPut m items i w).2, ?_, ⟨_, _, rfl, arrPut_inv hinv i w⟩, ?_, ?_⟩
      · rw [updK_push_arr fields k occ cid sub hl hm m items hinv i y hy, hw]; rfl
      · rw [← hv']
        have hk := arrPut_keys m items i w
        have : i ∈ mkeys (arrPut m items i w).1 := by
          rw [hk]; split <;> simp_all
        simp [this, arrGet_arrPut_same hinv i w (fresh sub)]
      · intro j hj
        have hk := arrPut_keys m items i w
        have : (j ∈ mkeys (arrPut m items i w).1) ↔ j ∈ mkeys m := by
          rw [hk]; split
          · exact Iff.rfl
          · simp [hj]
        simp [this, arrGet_arrPut_ne hinv i j w (fresh sub) hj])
    es (.arr [] []) hform ⟨[], [], rfl, ArrInv.empty⟩
    (by
      intro j
      have hfil : (es.filter (fun e => headIdx e = j)).Perm
          ((kentriesElems sub k elems).filter (fun e => headIdx e = j)) := hp.filter _
      rw [kentriesElems_filter sub k elems hnd j] at hfil
      cases hfind : elems.find? (fun el => el.1 = j) with
      | none =>
        rw [hfind] at hfil
        have hnil := hfil.eq_nil
        rw [hnil]
        have hj : j ∉ elems.map Prod.fst := by
          intro hmem
          obtain ⟨el, hel, rfl⟩ := List.mem_map.mp hmem
          have := List.find?_eq_none.mp hfind el hel
          simp at this
        refine ⟨_, rfl, ?_, fun _ => by simp [getA, mkeys]⟩
        intro ms hms
        exact absurd (List.mem_map_of_mem (f := Prod.fst) hms) hj
      | some el =>
        rw [hfind] at hfil
        obtain ⟨hel, hj⟩ := mem_of_find elems j el hfind
        obtain ⟨i, ms⟩ := el
        simp only at hj; subst hj
        obtain ⟨ys, hys, hyseq⟩ := perm_map_pullback (KEntry.push k (some i)) _ _ hfil
        rw [hyseq]
        have hsegs' : ∀ y, y ∈ ys → y.segs ≠ [] := fun y hy => hsegs i ms y hel (hys.subset hy)
        have hysne : ys ≠ [] := by
          intro e; subst e
          have := hys.symm.eq_nil
          exact hnonempty i ms hel this
        obtain ⟨c', hc', hce⟩ := hchild i ms hel ys hys
        have := foldO_updElem false sub k i ys hsegs' false (freshAttrs sub)
        simp only [hysne, if_false, hc', omap_ok] at this
        refine ⟨(true, .obj c'), ?_, ?_, ?_⟩
        · simpa [getA, mkeys, arrGet, mapGet, fresh] using this
        · intro ms' hms'
          have : ms' = ms := unique_of_nodup elems hnd hms' hel
          subst this
          simp [eraseNode, hce]
        · intro hnot
          exact absurd (List.mem_map_of_mem (f := Prod.fst) hel) hnot)
  obtain ⟨s', hs', ⟨m', items', rfl, hinv'⟩, hq⟩ := key
  refine ⟨_, hs', ?_⟩
  -- the indexes that were seen are exactly those of the elements
  have hmem : ∀ j, j ∈ mkeys m' ↔ j ∈ elems.map Prod.fst := by
    intro j
    have := hq j
    simp only [getA] at this
    constructor
    · intro hj
      apply Classical.byContradiction
      intro hn
      have := this.2 hn
      simp [hj] at this
    · intro hj
      obtain ⟨el, hel, rfl⟩ := List.mem_map.mp hj
      have := (this.1 el.2 hel).1
      simpa using this
  have hperm : (mkeys m').Perm (elems.map Prod.fst) :=
    (List.perm_ext_iff_of_nodup hinv'.nodup hnd).mpr hmem
  have hitems := items_eq_map_arrGet hinv' (elems.map Prod.fst) hinc hperm (fresh sub)
  simp only [eraseNode, eraseItems_eq_map, expElems_eq_map]
  congr 1
  rw [hitems, List.map_map, List.map_map]
  apply List.map_congr_left
  intro el hel
  have := ((hq el.1).1 el.2 hel).2
  simpa [getA] using this

/-! ## well-formedness, unpacked -/

theorem lookupFld_some {fields : List Fld} {n : Text} {f : Fld} (h : lookupFld fields n = some f) :
    f ∈ fields ∧ f.1 = n := by
  induction fields with
  | nil => simp [lookupFld] at h
  | cons a r ih =>
    simp only [lookupFld] at h
    split at h
    · rename_i hn
      simp only [Option.some.injEq] at h
      subst h
      exact ⟨List.mem_cons_self, hn⟩
    · obtain ⟨h1, h2⟩ := ih h
      exact ⟨List.mem_cons_of_mem _ h1, h2⟩

theorem subOf_eq {fields : List Fld} {n : Text} {occ : Occ} {cid : Nat} {sub : List Fld}
    (h : lookupFld fields n = some (n, occ, .obj cid sub)) : subOf fields n = sub := by
  simp [subOf, h]

theorem WfFields_mem {fields : List Fld} (h : WfFields fields) {f : Fld} (hf : f ∈ fields) : WfTy f.2.2 := by
  induction fields with
  | nil => simp at hf
  | cons a r ih =>
    obtain ⟨n, occ, t⟩ := a
    simp only [WfFields] at h
    rcases List.mem_cons.mp hf with rfl | hf'
    · exact h.1
    · exact ih h.2 hf'

theorem Wf_sub {fields : List Fld} (h : WfFields fields) {n : Text} {occ : Occ} {cid : Nat} {sub : List Fld}
    (hl : lookupFld fields n = some (n, occ, .obj cid sub)) : NamesOk sub ∧ WfFields sub := by
  have := WfFields_mem h (lookupFld_some hl).1
  simpa [WfTy] using this

theorem WtMembers_unpack {F : Facts03} {fields : List Fld} {ms : Members} (h : WtMembers F fields ms) :
    (ms.map Prod.fst).Nodup ∧ ∀ n sv, (n, sv) ∈ ms → WtVal F fields n sv := by
  induction ms with
  | nil => simp
  | cons a r ih =>
    obtain ⟨n, sv⟩ := a
    simp only [WtMembers] at h
    obtain ⟨h1, h2⟩ := ih h.2.2
    refine ⟨by simp [h.1, h1], ?_⟩
    intro n' sv' hmem
    rcases List.mem_cons.mp hmem with h' | h'
    · simp only [Prod.mk.injEq] at h'; rw [h'.1, h'.2]; exact h.2.1
    · exact h2 n' sv' h'

theorem WtElems_unpack {F : Facts03} {sub : List Fld} {elems : List (Nat × Members)} (h : WtElems F sub elems) :
    ∀ i ms, (i, ms) ∈ elems → ms ≠ [] ∧ WtMembers F sub ms := by
  induction elems with
  | nil => simp
  | cons a r ih =>
    obtain ⟨j, ms'⟩ := a
    simp only [WtElems] at h
    intro i ms hmem
    rcases List.mem_cons.mp hmem with h' | h'
    · simp only [Prod.mk.injEq] at h'; rw [h'.2]; exact ⟨h.1, h.2.1⟩
    · exact ih h.2.2 i ms h'

theorem WtVal_name {F : Facts03} {fields : List Fld} {n : Text} {sv : SVal} (h : WtVal F fields n sv) :
    n ∈ fields.map Prod.fst := by
  have key : ∀ f : Fld, lookupFld fields n = some f → n ∈ fields.map Prod.fst := by
    intro f hf
    obtain ⟨h1, h2⟩ := lookupFld_some hf
    exact h2 ▸ List.mem_map_of_mem (f := Prod.fst) h1
  cases sv with
  | leaf v => obtain ⟨occ, p, hl, _⟩ := h; exact key _ hl
  | leaves vs => obtain ⟨occ, p, hl, _⟩ := h; exact key _ hl
  | emptyObj => obtain ⟨occ, cid, sub, hl, _⟩ := h; exact key _ hl
  | obj ms => obtain ⟨occ, cid, sub, hl, _⟩ := h; exact key _ hl
  | arr el => obtain ⟨occ, cid, sub, hl, _⟩ := h; exact key _ hl

theorem kentries_segs_ne (fields : List Fld) (ms : Members) : ∀ e, e ∈ kentries fields ms → e.segs ≠ [] := by
  intro e he
  have := kentries_head_mem fields ms e he
  induction ms with
  | nil => simp [kentries] at he
  | cons a r ih =>
    obtain ⟨n, sv⟩ := a
    simp only [kentries, List.mem_append] at he
    rcases he with he | he
    · cases sv with
      | leaf v => simp only [kentriesVal, List.mem_singleton] at he; subst he; simp
      | leaves vs => simp only [kentriesVal, List.mem_singleton] at he; subst he; simp
      | emptyObj => simp only [kentriesVal, List.mem_singleton] at he; subst he; simp
      | obj ms' =>
        simp only [kentriesVal, List.mem_map] at he
        obtain ⟨e', _, rfl⟩ := he; simp [KEntry.push]
      | arr elems =>
        simp only [kentriesVal] at he
        split at he
        · simp only [List.mem_singleton] at he; subst he; simp
        · obtain ⟨i, ms', y, _, _, rfl⟩ := kentriesElems_form _ _ _ e he
          simp [KEntry.push]
    · exact ih he (kentries_head_mem fields r e he)

/-- every spelled object with a member has a key -/
theorem kentries_ne_nil (F : Facts03) : ∀ (N : Nat) (fields : List Fld) (ms : Members), msSize ms ≤ N →
    WtMembers F fields ms → ms ≠ [] → kentries fields ms ≠ [] := by
  intro N
  induction N with
  | zero =>
    intro fields ms hs _ hne
    cases ms with
    | nil => exact absurd rfl hne
    | cons a r => obtain ⟨n, sv⟩ := a; simp [msSize] at hs
  | succ N ih =>
    intro fields ms hs hwt hne
    cases ms with
    | nil => exact absurd rfl hne
    | cons a r =>
      obtain ⟨n, sv⟩ := a
      simp only [WtMembers] at hwt
      simp only [msSize] at hs
      simp only [kentries, ne_eq, List.append_eq_nil_iff, not_and]
      intro h0
      exfalso
      revert h0
      apply kentriesVal_ne_nil_of
      · intro ms' hsv
        subst hsv
        obtain ⟨occ, cid, sub, hl, _, hne', hwt'⟩ := hwt.2.1
        rw [subOf_eq hl]
        exact ih sub ms' (by simp only [SVal.size] at hs; omega) hwt' hne'
      · intro el hsv hel
        subst hsv
        obtain ⟨occ, cid, sub, hl, _, _, hwe⟩ := hwt.2.1
        rw [subOf_eq hl]
        cases el with
        | nil => exact absurd rfl hel
        | cons b rb =>
          obtain ⟨i, ms0⟩ := b
          have := WtElems_unpack hwe i ms0 List.mem_cons_self
          simp only [kentriesElems, ne_eq, List.append_eq_nil_iff, List.map_eq_nil_iff, not_and]
          intro h0
          exact absurd h0 (ih sub ms0 (by simp only [SVal.size, elSize] at hs; omega) this.2 this.1)

/-! ## the object graph that is meant, read member by member -/

theorem getAttr_expInto (fields : List Fld) (ms : Members) (hn : (ms.map Prod.fst).Nodup) (a : Attrs) (k : Text) :
    getAttr (expInto fields ms a) k =
      match ms.find? (fun m => m.1 = k) with
      | some m => expNode fields m.1 m.2
      | none => getAttr a k := by
  induction ms generalizing a with
  | nil => rfl
  | cons m r ih =>
    obtain ⟨n, sv⟩ := m
    simp only [List.map_cons, List.nodup_cons] at hn
    simp only [expInto, List.find?_cons]
    rw [ih hn.2]
    by_cases hk : n = k
    · subst hk
      have : r.find? (fun m => m.1 = n) = none := by
        apply List.find?_eq_none.mpr
        intro m hm
        simp only [decide_eq_true_eq]
        intro e
        exact hn.1 (e ▸ List.mem_map_of_mem (f := Prod.fst) hm)
      simp [this]
    · simp only [hk, decide_false]
      cases r.find? (fun m => m.1 = k) with
      | some m => rfl
      | none => simp only; exact getAttr_setAttr_ne _ _ _ _ (Ne.symm hk)

theorem expInto_keys (fields : List Fld) (ms : Members) (a : Attrs)
    (h : ∀ m, m ∈ ms → m.1 ∈ a.map Prod.fst) : (expInto fields ms a).map Prod.fst = a.map Prod.fst := by
  induction ms generalizing a with
  | nil => rfl
  | cons m r ih =>
    obtain ⟨n, sv⟩ := m
    simp only [expInto]
    have hk := setAttr_keys a n (expNode fields n sv) (h (n, sv) List.mem_cons_self)
    rw [ih (setAttr a n (expNode fields n sv)) (by
      intro m hm; rw [hk]; exact h m (List.mem_cons_of_mem _ hm)), hk]

/-! ## the main lemma: any order of the keys of a documented request -/

theorem perm_singleton_eq {α : Type} {l : List α} {a : α} (h : l.Perm [a]) : l = [a] :=
  List.perm_singleton.mp h

/-- Processing the keys of a spelled object in ANY order, from a fresh instance, with the idxmap
    branch (`strict_arrays = False`), yields an instance that — idxmaps erased — is exactly the
    object that was spelled: every array in index order. -/
theorem walkAll_lenient (F : Facts03) : ∀ (N : Nat) (fields : List Fld) (ms : Members), msSize ms ≤ N →
    (fields.map Prod.fst).Nodup → WfFields fields → WtMembers F fields ms →
    ∀ es : List KEntry, es.Perm (kentries fields ms) →
      ∃ attrs', foldO (walkK false fields) (freshAttrs fields) es = .ok attrs' ∧
        eraseAttrs attrs' = expAttrs fields ms := by
  intro N
  induction N with
  | zero =>
    intro fields ms hs hnd hwf hwt es hp
    have : ms = [] := by
      cases ms with
      | nil => rfl
      | cons a r => obtain ⟨n, sv⟩ := a; simp [msSize] at hs
    subst this
    simp only [kentries] at hp
    rw [hp.eq_nil]
    exact ⟨freshAttrs fields, rfl, by simp [expAttrs, expInto, eraseAttrs_fresh]⟩
  | succ N ih =>
    intro fields ms hs hnd hwf hwt es hp
    obtain ⟨hmsnd, hvals⟩ := WtMembers_unpack hwt
    have key := foldO_by_key (σ := Attrs) (ε := KEntry) (κ := Text) (ν := Node)
      getAttr (walkK false fields) KEntry.head (updK false fields) (fun _ => True) (fun _ => True)
      (fun k v => eraseNode v = getAttr (expAttrs fields ms) k)
      (fun s e v' _ _ h => walkK_law false fields s e v' h)
      es (freshAttrs fields) (fun _ _ => trivial) trivial
      (by
        intro k
        rw [getAttr_freshAttrs]
        have hfil : (es.filter (fun e => e.head = k)).Perm
            ((kentries fields ms).filter (fun e => e.head = k)) := hp.filter _
        rw [kentries_filter_head fields ms hmsnd k] at hfil
        simp only [expAttrs]
        rw [getAttr_expInto fields ms hmsnd, getAttr_freshAttrs]
        cases hfind : ms.find? (fun m => m.1 = k) with
        | none =>
          rw [hfind] at hfil
          rw [hfil.eq_nil]
          exact ⟨.none, rfl, rfl⟩
        | some m =>
          rw [hfind] at hfil
          obtain ⟨n, sv⟩ := m
          have hmem : (n, sv) ∈ ms := List.mem_of_find?_eq_some hfind
          have hnk : n = k := by simpa using List.find?_some hfind
          subst hnk
          have hwv := hvals n sv hmem
          have hsz := size_lt_of_mem hmem
          simp only
          cases sv with
          | leaf v =>
            simp only [kentriesVal] at hfil
            rw [perm_singleton_eq hfil]
            exact ⟨.leaf v, rfl, rfl⟩
          | leaves vs =>
            simp only [kentriesVal] at hfil
            rw [perm_singleton_eq hfil]
            exact ⟨.leaves vs, rfl, rfl⟩
          | emptyObj =>
            simp only [kentriesVal] at hfil
            rw [perm_singleton_eq hfil]
            refine ⟨fresh (subOf fields n), rfl, ?_⟩
            simp [expNode, fresh, eraseNode, eraseAttrs_fresh]
          | obj ms' =>
            obtain ⟨occ, cid, sub, hl, hm, hne', hwt'⟩ := hwv
            simp only [kentriesVal, subOf_eq hl] at hfil
            obtain ⟨ys, hys, hyseq⟩ := perm_map_pullback (KEntry.push n none) _ _ hfil
            rw [hyseq]
            have hsegs : ∀ y, y ∈ ys → y.segs ≠ [] :=
              fun y hy => kentries_segs_ne sub ms' y (hys.subset hy)
            have hysne : ys ≠ [] := by
              intro e; subst e
              exact kentries_ne_nil F _ sub ms' (Nat.le_refl _) hwt' hne' hys.symm.eq_nil
            rw [foldO_updK_obj_none false fields n occ cid sub hl hm ys hsegs hysne]
            obtain ⟨hsnd, hswf⟩ := Wf_sub hwf hl
            obtain ⟨c', hc', hce⟩ := ih sub ms' (by simp only [SVal.size] at hsz; omega) hsnd.1 hswf hwt' ys hys
            refine ⟨.obj c', by rw [hc']; rfl, ?_⟩
            simp only [eraseNode, expNode, subOf_eq hl, hce, expAttrs]
          | arr elems =>
            obtain ⟨occ, cid, sub, hl, hm, hinc, hwe⟩ := hwv
            simp only [kentriesVal, subOf_eq hl] at hfil
            by_cases hemp : elems = []
            · subst hemp
              simp only [List.isEmpty_nil, if_true] at hfil
              rw [perm_singleton_eq hfil]
              refine ⟨.arr [] [], ?_, ?_⟩
              · simp only [foldO_cons, foldO_nil, updK, List.map_nil, stepMemberT, KV.payload, assignNode]; rfl
              · simp [eraseNode, expNode, expElems, eraseItems]
            · have hise : elems.isEmpty = false := by
                cases elems with
                | nil => exact absurd rfl hemp
                | cons _ _ => rfl
              simp only [hise, Bool.false_eq_true, if_false] at hfil
              obtain ⟨hsnd, hswf⟩ := Wf_sub hwf hl
              have hel := WtElems_unpack hwe
              obtain ⟨v, hv, hve⟩ := arr_member_fold fields n occ cid sub hl hm elems hemp hinc
                (fun i ms' y h1 h2 => kentries_segs_ne sub ms' y h2)
                (fun i ms' h1 => kentries_ne_nil F _ sub ms' (Nat.le_refl _) (hel i ms' h1).2 (hel i ms' h1).1)
                (fun i ms' h1 ys hys => by
                  have := elSize_lt_of_mem h1
                  exact ih sub ms' (by simp only [SVal.size] at hsz; omega) hsnd.1 hswf (hel i ms' h1).2 ys hys)
                _ hfil
              refine ⟨v, hv, ?_⟩
              rw [hve]
              simp only [expNode, subOf_eq hl])
    obtain ⟨attrs', hfold, _, hq⟩ := key
    refine ⟨attrs', hfold, ?_⟩
    -- same keys, same members
    have hheads : ∀ e, e ∈ es → e.head ∈ (freshAttrs fields).map Prod.fst := by
      intro e he
      rw [freshAttrs_keys]
      obtain ⟨m, hm, hm1⟩ := List.mem_map.mp (kentries_head_mem fields ms e (hp.subset he))
      obtain ⟨n, sv⟩ := m
      simp only at hm1; rw [← hm1]
      exact WtVal_name (hvals n sv hm)
    have hk1 : attrs'.map Prod.fst = fields.map Prod.fst := by
      rw [foldO_walkK_keys false fields es _ _ hheads hfold, freshAttrs_keys]
    have hk2 : (expAttrs fields ms).map Prod.fst = fields.map Prod.fst := by
      simp only [expAttrs]
      rw [expInto_keys, freshAttrs_keys]
      intro m hm
      rw [freshAttrs_keys]
      obtain ⟨n, sv⟩ := m
      exact WtVal_name (hvals n sv hm)
    have e1 := attrs_eq_of_get (eraseAttrs attrs') (by rw [eraseAttrs_keys, hk1]; exact hnd)
    have e2 := attrs_eq_of_get (expAttrs fields ms) (by rw [hk2]; exact hnd)
    rw [e1, e2, eraseAttrs_keys, hk1, hk2]
    apply List.map_congr_left
    intro k _
    rw [getAttr_eraseAttrs, hq k]

end SpyneModel.Flat
