/-
  C15 proofs, part 4: the variants discipline (with the rule that every class has its own `_variants`).
  The invariant is stated on a *view* of the heap - per class: family, `Attributes` record, original; per
  record: own `_variants` entry - and shown to be kept by every model program.
-/
import Proofs.DeriveObs
namespace SpyneModel.Derive

/-- what the variants discipline reads of a heap: per class (is it of the ComplexModel family, its `Attributes`
    record, its original), per record (its own `_variants` entry) -/
structure View where
  cls : Nat → Option (Bool × Nat × Option Nat)
  var : Nat → Option (Option (Option (List Nat)))

def upd {β : Type} (f : Nat → β) (i : Nat) (x : β) : Nat → β := fun j => if j = i then x else f j

structure IV (v : View) : Prop where
  range : ∀ c k a o, v.cls c = some (k, a, o) → v.var a ≠ none
  inj : ∀ c1 c2 a o1 o2, v.cls c1 = some (true, a, o1) → v.cls c2 = some (true, a, o2) → c1 = c2
  own : ∀ c a o, v.cls c = some (true, a, o) → v.var a ≠ some none
  variant : ∀ c a r, v.cls c = some (true, a, some r) →
    v.var a = some (some none) ∧ ∃ ar, v.cls r = some (true, ar, none)
  sound : ∀ c a o l, v.cls c = some (true, a, o) → v.var a = some (some (some l)) →
    ∀ x, x ∈ l → ∃ ax, v.cls x = some (true, ax, some c)
  complete : ∀ x ax r, v.cls x = some (true, ax, some r) →
    ∃ ar l, v.cls r = some (true, ar, none) ∧ v.var ar = some (some (some l)) ∧ x ∈ l

theorem IV.addRecord {v : View} (i : IV v) (a : Nat) (ha : v.var a = none) (rv : Option (Option (List Nat))) :
    IV { v with var := upd v.var a (some rv) } := by
  constructor <;> simp only [upd] <;> grind [IV]


theorem IV.addSimple {v : View} (i : IV v) (c a : Nat) (o : Option Nat) (hc : v.cls c = none) (ha : v.var a ≠ none) :
    IV { v with cls := upd v.cls c (some (false, a, o)) } := by
  constructor <;> simp only [upd] <;> grind [IV]

theorem IV.addDeclared {v : View} (i : IV v) (c a : Nat) (hc : v.cls c = none) (ha : v.var a = none) :
    IV { cls := upd v.cls c (some (true, a, none)), var := upd v.var a (some (some none)) } := by
  constructor <;> simp only [upd] <;> grind [IV]

/-- `ComplexModelBase.customize` + `_process_variants`: a fresh class with a fresh record is registered in
    the own `_variants` of its original -/
theorem IV.addVariant {v : View} (i : IV v) (c a r ar : Nat) (hc : v.cls c = none) (ha : v.var a = none)
    (hr : v.cls r = some (true, ar, none)) (old : List Nat)
    (hold : v.var ar = some (some (some old)) ∨ (v.var ar = some (some none) ∧ old = [])) :
    IV { cls := upd v.cls c (some (true, a, some r)),
         var := upd (upd v.var a (some (some none))) ar (some (some (some (old ++ [c])))) } := by
  constructor <;> simp only [upd] <;> grind [IV]


def viewOf (h : Heap) : View :=
  { cls := fun c => (h.cls[c]?).map (fun cl => (cl.kind.isComplex, cl.attrs, cl.orig)),
    var := fun x => (h.attrs[x]?).map (·.variants) }

/-- the variants discipline holds in heap `h` -/
def Inv (h : Heap) : Prop := IV (viewOf h)

theorem viewOf_updCls (h : Heap) (c : Nat) (f : Cls → Cls)
    (hf : ∀ cl, (f cl).kind = cl.kind ∧ (f cl).attrs = cl.attrs ∧ (f cl).orig = cl.orig) :
    viewOf (h.updCls c f) = viewOf h := by
  unfold Heap.updCls
  split
  · rename_i cl hcl
    simp only [viewOf, View.mk.injEq, and_true]
    funext j
    by_cases e : c = j
    · subst e
      have hlt : c < h.cls.length := by
        rcases Nat.lt_or_ge c h.cls.length with hl | hl
        · exact hl
        · rw [List.getElem?_eq_none hl] at hcl; cases hcl
      simp [List.getElem?_set_self hlt, hcl, hf cl]
    · simp [List.getElem?_set_ne e]
  · rfl

theorem viewOf_updCells_keep (h : Heap) (a : Nat) (f : AttrRec → AttrRec) (hf : ∀ r, (f r).variants = r.variants) :
    viewOf (h.updCells a f) = viewOf h := by
  unfold Heap.updCells
  split
  · rename_i r hr
    simp only [viewOf, View.mk.injEq, true_and]
    funext j
    by_cases e : a = j
    · subst e
      have hlt : a < h.attrs.length := by
        rcases Nat.lt_or_ge a h.attrs.length with hl | hl
        · exact hl
        · rw [List.getElem?_eq_none hl] at hr; cases hr
      simp [List.getElem?_set_self hlt, hr, hf r]
    · simp [List.getElem?_set_ne e]
  · rfl

theorem viewOf_updCells_var (h : Heap) (a : Nat) (f : AttrRec → AttrRec) (r : AttrRec) (hr : h.attrs[a]? = some r) :
    viewOf (h.updCells a f) = { viewOf h with var := upd (viewOf h).var a (some (f r).variants) } := by
  unfold Heap.updCells
  simp only [hr, viewOf, View.mk.injEq, true_and]
  funext j
  have hlt : a < h.attrs.length := by
    rcases Nat.lt_or_ge a h.attrs.length with hl | hl
    · exact hl
    · rw [List.getElem?_eq_none hl] at hr; cases hr
  by_cases e : a = j
  · subst e
    simp [List.getElem?_set_self hlt, upd]
  · have e' : ¬ j = a := fun x => e x.symm
    simp [List.getElem?_set_ne e, upd, e']

theorem viewOf_allocAttrs (h : Heap) (r : AttrRec) :
    viewOf { h with attrs := h.attrs ++ [r] } = { viewOf h with var := upd (viewOf h).var h.attrs.length (some r.variants) } := by
  simp only [viewOf, View.mk.injEq, true_and]
  funext j
  simp only [upd]
  split
  · rename_i e; subst e; simp
  · rename_i e
    rcases Nat.lt_or_ge j h.attrs.length with hl | hl
    · rw [List.getElem?_append_left hl]
    · have : h.attrs.length < j := by omega
      rw [List.getElem?_eq_none (by simp; omega), List.getElem?_eq_none (by omega)]

theorem viewOf_allocCls (h : Heap) (cl : Cls) :
    viewOf { h with cls := h.cls ++ [cl] }
      = { viewOf h with cls := upd (viewOf h).cls h.cls.length (some (cl.kind.isComplex, cl.attrs, cl.orig)) } := by
  simp only [viewOf, View.mk.injEq, and_true]
  funext j
  simp only [upd]
  split
  · rename_i e; subst e; simp
  · rename_i e
    rcases Nat.lt_or_ge j h.cls.length with hl | hl
    · rw [List.getElem?_append_left hl]
    · have : h.cls.length < j := by omega
      rw [List.getElem?_eq_none (by simp; omega), List.getElem?_eq_none (by omega)]

theorem viewOf_var_fresh (h : Heap) : (viewOf h).var h.attrs.length = none := by simp [viewOf]
theorem viewOf_cls_fresh (h : Heap) : (viewOf h).cls h.cls.length = none := by simp [viewOf]

end SpyneModel.Derive

namespace SpyneModel.Derive

/-! ## a small Hoare logic for "keeps the variants discipline" -/

/-- started in a heap with the discipline and `P`, the program ends (normally or not) in a heap with the
    discipline, and a normal result satisfies `Q` there -/
def Keeps {α : Type} (P : Heap → Prop) (m : M α) (Q : α → Heap → Prop) : Prop :=
  ∀ h, Inv h → P h → Inv (m h).heap ∧ ∀ h' a, m h = .ok h' a → Q a h'

abbrev Tr : Heap → Prop := fun _ => True
abbrev TrQ {α : Type} : α → Heap → Prop := fun _ _ => True

theorem Keeps.bind {α β : Type} {P : Heap → Prop} {m : M α} {f : α → M β} {Q : α → Heap → Prop}
    {R : β → Heap → Prop} (km : Keeps P m Q) (kf : ∀ a, Keeps (Q a) (f a) R) : Keeps P (m >>= f) R := by
  intro h ih ph
  have k1 := km h ih ph
  simp only [Bind.bind, M.bind]
  cases hm : m h with
  | err h' e =>
    simp only [hm, Res.heap] at k1 ⊢
    exact ⟨k1.1, fun _ _ he => by cases he⟩
  | ok h' a =>
    simp only [hm, Res.heap] at k1 ⊢
    exact kf a h' k1.1 (k1.2 h' a rfl)

theorem Keeps.weaken {α : Type} {P P' : Heap → Prop} {m : M α} {Q Q' : α → Heap → Prop}
    (k : Keeps P m Q) (hp : ∀ h, P' h → P h) (hq : ∀ a h, Q a h → Q' a h) : Keeps P' m Q' :=
  fun h ih ph => ⟨(k h ih (hp h ph)).1, fun h' a he => hq a h' ((k h ih (hp h ph)).2 h' a he)⟩

theorem Keeps.pure {α : Type} (P : Heap → Prop) (a : α) : Keeps P (Pure.pure a : M α) (fun x h => P h ∧ x = a) := by
  intro h ih ph
  refine ⟨ih, ?_⟩
  intro h' a' he
  simp only [Pure.pure, M.pure] at he
  cases he; exact ⟨ph, rfl⟩

theorem Keeps.pureT {α : Type} (P : Heap → Prop) (a : α) : Keeps P (Pure.pure a : M α) TrQ :=
  (Keeps.pure P a).weaken (fun _ x => x) (fun _ _ _ => trivial)

theorem Keeps.fail {α : Type} (P : Heap → Prop) (e : String) (Q : α → Heap → Prop) : Keeps P (fail e : M α) Q :=
  fun h ih _ => ⟨ih, fun _ _ he => by cases he⟩

theorem Keeps.getHeap (P : Heap → Prop) : Keeps P getHeap (fun x h => P h ∧ x = h) := by
  intro h ih ph
  exact ⟨ih, fun h' a he => by cases he; exact ⟨ph, rfl⟩⟩

theorem Keeps.getCls (P : Heap → Prop) (c : Nat) : Keeps P (getCls c) (fun cl h => P h ∧ h.cls[c]? = some cl) := by
  intro h ih ph
  unfold SpyneModel.Derive.getCls
  split
  · rename_i cl hcl
    exact ⟨ih, fun h' a he => by cases he; exact ⟨ph, hcl⟩⟩
  · exact ⟨ih, fun _ _ he => by cases he⟩

theorem Keeps.guardNone (P : Heap → Prop) (e : Option String) :
    Keeps P (guardNone e) (fun _ h => P h ∧ e = none) := by
  unfold SpyneModel.Derive.guardNone
  split
  · exact Keeps.fail _ _ _
  · exact (Keeps.pure P ()).weaken (fun _ x => x) (fun _ _ x => ⟨x.1, rfl⟩)

theorem Keeps.liftExcept {α : Type} (P : Heap → Prop) (x : Except String α) :
    Keeps P (liftExcept x) (fun a h => P h ∧ x = .ok a) := by
  unfold SpyneModel.Derive.liftExcept
  split
  · rename_i a
    exact (Keeps.pure P a).weaken (fun _ x => x) (fun _ _ x => ⟨x.1, by rw [x.2]⟩)
  · exact Keeps.fail _ _ _

theorem Keeps.updCls (P : Heap → Prop) (c : Nat) (f : Cls → Cls)
    (hf : ∀ cl, (f cl).kind = cl.kind ∧ (f cl).attrs = cl.attrs ∧ (f cl).orig = cl.orig) :
    Keeps P (updCls c f) TrQ := by
  intro h ih _
  refine ⟨?_, fun _ _ _ => trivial⟩
  simp only [SpyneModel.Derive.updCls, Res.heap, Inv, viewOf_updCls h c f hf]
  exact ih

theorem Keeps.updCells (P : Heap → Prop) (a : Nat) (f : AttrRec → AttrRec) (hf : ∀ r, (f r).variants = r.variants) :
    Keeps P (updCells a f) TrQ := by
  intro h ih _
  refine ⟨?_, fun _ _ _ => trivial⟩
  simp only [SpyneModel.Derive.updCells, Res.heap, Inv, viewOf_updCells_keep h a f hf]
  exact ih

theorem Keeps.whenM (P : Heap → Prop) (b : Bool) {m : M Unit} (k : Keeps P m TrQ) : Keeps P (whenM b m) TrQ := by
  unfold SpyneModel.Derive.whenM
  split
  · exact k
  · exact Keeps.pureT _ _

theorem Keeps.map {α β : Type} {P : Heap → Prop} {m : M α} (f : α → β) {Q : α → Heap → Prop}
    (k : Keeps P m Q) : Keeps P (f <$> m) TrQ := by
  have : (f <$> m) = (m >>= fun a => Pure.pure (f a)) := rfl
  rw [this]
  exact Keeps.bind k (fun a => Keeps.pureT _ _)

/-- a record allocated now exists afterwards -/
theorem Keeps.allocAttrs (P : Heap → Prop) (r : AttrRec) :
    Keeps P (allocAttrs r) (fun a h => (viewOf h).var a ≠ none) := by
  intro h ih _
  refine ⟨?_, ?_⟩
  · simp only [SpyneModel.Derive.allocAttrs, Res.heap, Inv, viewOf_allocAttrs]
    exact ih.addRecord _ (viewOf_var_fresh h) _
  · intro h' a he
    simp only [SpyneModel.Derive.allocAttrs] at he
    cases he
    simp [viewOf]

/-- a class outside the ComplexModel family, on an existing record -/
theorem Keeps.allocCls_simple (cl : Cls) (hk : cl.kind.isComplex = false) :
    Keeps (fun h => (viewOf h).var cl.attrs ≠ none) (allocCls cl) TrQ := by
  intro h ih ph
  refine ⟨?_, fun _ _ _ => trivial⟩
  simp only [SpyneModel.Derive.allocCls, Res.heap, Inv, viewOf_allocCls, hk]
  exact ih.addSimple _ _ _ (viewOf_cls_fresh h) ph

/-- a class statement -/
theorem Keeps.allocBoth_declared (P : Heap → Prop) (r : AttrRec) (mk : Nat → Cls) (hr : r.variants = some none)
    (hk : ∀ a, (mk a).kind.isComplex = true ∧ (mk a).attrs = a ∧ (mk a).orig = none) :
    Keeps P (allocBoth r mk) TrQ := by
  intro h ih _
  refine ⟨?_, fun _ _ _ => trivial⟩
  have e : viewOf { cls := h.cls ++ [mk h.attrs.length], attrs := h.attrs ++ [r], prots := h.prots }
      = { cls := upd (viewOf h).cls h.cls.length (some (true, h.attrs.length, none)),
          var := upd (viewOf h).var h.attrs.length (some (some none)) } := by
    have h1 := viewOf_allocAttrs h r
    have h2 := viewOf_allocCls { h with attrs := h.attrs ++ [r] } (mk h.attrs.length)
    simp only [(hk h.attrs.length).1, (hk h.attrs.length).2.1, (hk h.attrs.length).2.2] at h2
    rw [h2, h1, hr]
  simp only [SpyneModel.Derive.allocBoth, Res.heap, Inv, e]
  exact ih.addDeclared _ _ (viewOf_cls_fresh h) (viewOf_var_fresh h)

end SpyneModel.Derive

namespace SpyneModel.Derive

theorem chainH_own {α : Type} (attrs : List AttrRec) (sel : AttrRec → Option α) (a : Nat) (r : AttrRec) (v : α)
    (hr : attrs[a]? = some r) (hs : sel r = some v) : chainH attrs sel a = some (a, v) := by
  simp [chainH, chainF, hr, hs]

/-- registering in the own `_variants` of a class whose record has an own entry -/
theorem viewOf_registerVariant (h : Heap) (ra n : Nat) (r : AttrRec) (hr : h.attrs[ra]? = some r)
    (x : Option (List Nat)) (hx : r.variants = some x) :
    viewOf (registerVariant h ra n)
      = { viewOf h with var := upd (viewOf h).var ra (some (some (some ((x.getD []) ++ [n])))) } := by
  unfold registerVariant variantsH
  rw [chainH_own h.attrs (fun r => r.variants) ra r x hr hx]
  cases x with
  | none =>
    simp only
    rw [viewOf_updCells_var h ra _ r hr]
    simp
  | some l =>
    simp only
    rw [viewOf_updCells_var h ra _ r hr]
    simp


theorem viewOf_updCells_const (h : Heap) (a : Nat) (f : AttrRec → AttrRec) (c : Option (List Nat))
    (hne : (viewOf h).var a ≠ none) (hc : ∀ r, (f r).variants = some c) :
    viewOf (h.updCells a f) = { viewOf h with var := upd (viewOf h).var a (some (some c)) } := by
  cases hr : h.attrs[a]? with
  | none => simp [viewOf, hr] at hne
  | some r => rw [viewOf_updCells_var h a f r hr, hc r]

theorem viewOf_registerVariant' (h : Heap) (ra n : Nat) (x : Option (List Nat))
    (hx : (viewOf h).var ra = some (some x)) :
    viewOf (registerVariant h ra n)
      = { viewOf h with var := upd (viewOf h).var ra (some (some (some ((x.getD []) ++ [n])))) } := by
  cases hr : h.attrs[ra]? with
  | none => simp [viewOf, hr] at hx
  | some r =>
    have : r.variants = some x := by simpa [viewOf, hr] using hx
    exact viewOf_registerVariant h ra n r hr x this

theorem M.bind_ok {α β : Type} (m : M α) (f : α → M β) (h h' : Heap) (a : α) (hm : m h = .ok h' a) :
    (m >>= f) h = f a h' := by
  simp only [Bind.bind, M.bind, hm]

theorem processVariants_run (root n a : Nat) (h : Heap) (rc : Cls) (hrc : h.cls[root]? = some rc) :
    processVariants root n a h
      = .ok ((registerVariant h rc.attrs n).updCells a (fun r => { r with variants := some none })) () := by
  unfold processVariants
  rw [M.bind_ok (SpyneModel.Derive.getCls root) _ h h rc (by simp [SpyneModel.Derive.getCls, hrc])]
  rfl

theorem keeps_newVariantTail (rec0 : AttrRec) (hrec0 : rec0.variants = none) (sc : Cls) (src : Nat) (ext : Option Nat)
    (kw : Kw) (hk : sc.kind.isComplex = true) :
    Keeps (fun h => h.cls[src]? = some sc) (newVariantTail rec0 sc src ext kw) TrQ := by
  intro h ih hsrc
  -- the original exists, is of the family, is itself no variant, and its record has an own entry
  have hvsrc : (viewOf h).cls src = some (true, sc.attrs, sc.orig) := by simp [viewOf, hsrc, hk]
  have hroot : ∃ ar, (viewOf h).cls (sc.orig.getD src) = some (true, ar, none) := by
    cases ho : sc.orig with
    | none => exact ⟨sc.attrs, by simpa [ho] using hvsrc⟩
    | some r => exact (ih.variant src sc.attrs r (by simpa [ho] using hvsrc)).2
  obtain ⟨ar, har⟩ := hroot
  have hrc : ∃ rc, h.cls[sc.orig.getD src]? = some rc ∧ rc.attrs = ar := by
    simp only [viewOf] at har
    cases hc : h.cls[sc.orig.getD src]? with
    | none => simp [hc] at har
    | some rc => exact ⟨rc, rfl, by simp [hc] at har; exact har.2.1⟩
  obtain ⟨rc, hrc, hrca⟩ := hrc
  have hrange := ih.range _ _ _ _ har
  have hown := ih.own _ _ _ har
  have hrec : ∃ r0 x, h.attrs[ar]? = some r0 ∧ r0.variants = some x := by
    simp only [viewOf] at hrange hown
    cases hr : h.attrs[ar]? with
    | none => simp [hr] at hrange
    | some r0 =>
      cases hv : r0.variants with
      | none => simp [hr, hv] at hown
      | some x => exact ⟨r0, x, rfl, hv⟩
  obtain ⟨r0, x, hr0, hx⟩ := hrec
  have harlt : ar < h.attrs.length := by
    rcases Nat.lt_or_ge ar h.attrs.length with hl | hl
    · exact hl
    · rw [List.getElem?_eq_none hl] at hr0; cases hr0
  have hrootlt : sc.orig.getD src < h.cls.length := by
    rcases Nat.lt_or_ge (sc.orig.getD src) h.cls.length with hl | hl
    · exact hl
    · rw [List.getElem?_eq_none hl] at hrc; cases hrc
  -- run the block
  let a := h.attrs.length
  let n := h.cls.length
  let h1 : Heap := { h with attrs := h.attrs ++ [rec0] }
  let h2 : Heap := { h1 with cls := h1.cls ++ [variantCls sc src a ext kw] }
  let fd : AttrRec → AttrRec := fun r => { r with dca := some (match dcaH h2 a with | some (_, d) => d | none => []) }
  let h3 := h2.updCells a fd
  let h4 := registerVariant h3 rc.attrs n
  let h5 := h4.updCells a (fun r => { r with variants := some none })
  have hcls3 : h3.cls = h.cls ++ [variantCls sc src a ext kw] := by
    simp only [h3, Heap.updCells]; split <;> rfl
  have hrun : newVariantTail rec0 sc src ext kw h = .ok h5 (a, n) := by
    have hroot3 : h3.cls[sc.orig.getD src]? = some rc := by
      rw [hcls3, List.getElem?_append_left hrootlt]; exact hrc
    unfold newVariantTail
    rw [M.bind_ok (allocAttrs rec0) _ h h1 a rfl]
    rw [M.bind_ok (allocCls _) _ h1 h2 n rfl]
    rw [M.bind_ok (copyDca a) _ h2 h3 () rfl]
    rw [M.bind_ok (processVariants _ n a) _ h3 h5 () (processVariants_run _ n a h3 rc hroot3)]
    rfl
  refine ⟨?_, fun _ _ _ => trivial⟩
  rw [hrun]
  simp only [Res.heap, Inv]
  have hne : a ≠ ar := by omega
  have v1 : viewOf h1 = { viewOf h with var := upd (viewOf h).var a (some none) } := by
    have := viewOf_allocAttrs h rec0
    rw [hrec0] at this; exact this
  have v2 : viewOf h2 = { viewOf h1 with cls := upd (viewOf h1).cls n (some (true, a, some (sc.orig.getD src))) } := by
    have := viewOf_allocCls h1 (variantCls sc src a ext kw)
    rw [this]
    simp only [variantCls, hk]
    rfl
  have v3 : viewOf h3 = viewOf h2 := viewOf_updCells_keep h2 a fd (fun _ => rfl)
  have hx3 : (viewOf h3).var rc.attrs = some (some x) := by
    rw [v3, v2, v1, hrca]
    simp only [upd, if_neg (Ne.symm hne)]
    simp [viewOf, hr0, hx]
  have v4 : viewOf h4 = { viewOf h3 with var := upd (viewOf h3).var rc.attrs (some (some (some ((x.getD []) ++ [n])))) } :=
    viewOf_registerVariant' h3 rc.attrs n x hx3
  have hne4 : (viewOf h4).var a ≠ none := by
    rw [v4, v3, v2, v1, hrca]
    simp [upd, hne]
  have v5 : viewOf h5 = { viewOf h4 with var := upd (viewOf h4).var a (some (some none)) } :=
    viewOf_updCells_const h4 a (fun r => { r with variants := some none }) none hne4 (fun _ => rfl)
  have hfinal : viewOf h5 = View.mk (upd (viewOf h).cls n (some (true, a, some (sc.orig.getD src))))
      (upd (upd (viewOf h).var a (some (some none))) ar (some (some (some (x.getD [] ++ [n]))))) := by
    rw [v5, v4, v3, v2, v1, hrca]
    simp only [View.mk.injEq, true_and]
    funext j
    simp only [upd]
    by_cases e1 : j = a
    · simp [e1, hne]
    · simp [e1]
  rw [hfinal]
  refine ih.addVariant n a (sc.orig.getD src) ar (viewOf_cls_fresh h) (viewOf_var_fresh h) har (x.getD []) ?_
  cases x with
  | none => right; simp [viewOf, hr0, hx]
  | some l => left; simp [viewOf, hr0, hx]


theorem Keeps.anyPre {α : Type} {P : Heap → Prop} {m : M α} {Q : α → Heap → Prop} (k : Keeps Tr m Q) : Keeps P m Q :=
  k.weaken (fun _ _ => trivial) (fun _ _ q => q)

theorem Keeps.anyPre' {α : Type} {P P' : Heap → Prop} {m : M α} {Q : α → Heap → Prop} (k : Keeps P m Q)
    (hp : ∀ h, P' h → P h := by intro h p; first | exact p.1 | exact p.1.1 | exact p.2) : Keeps P' m Q :=
  k.weaken hp (fun _ _ q => q)

theorem Keeps.toTr {α : Type} {P : Heap → Prop} {m : M α} {Q : α → Heap → Prop} (k : Keeps P m Q) : Keeps P m TrQ :=
  k.weaken (fun _ p => p) (fun _ _ _ => trivial)

/-- a guard followed by the rest of the program -/
theorem Keeps.guardThen {β : Type} (P : Heap → Prop) (e : Option String) (f : Unit → M β) (R : β → Heap → Prop)
    (k : e = none → Keeps P (f ()) R) : Keeps P (SpyneModel.Derive.guardNone e >>= f) R := by
  cases e with
  | some s =>
    intro h ih _
    exact ⟨ih, fun _ _ he => by
      simp [Bind.bind, M.bind, SpyneModel.Derive.guardNone, SpyneModel.Derive.fail] at he⟩
  | none =>
    have : (SpyneModel.Derive.guardNone none >>= f) = f () := rfl
    rw [this]
    exact k rfl

theorem viewOf_updCol (h : Heap) (a : Nat) (d : Kw) : viewOf (h.updCol a d) = viewOf h := by
  unfold Heap.updCol
  split
  · rename_i r hr
    simp only [viewOf, View.mk.injEq, true_and]
    funext j
    by_cases e : a = j
    · subst e
      have hlt : a < h.attrs.length := by
        rcases Nat.lt_or_ge a h.attrs.length with hl | hl
        · exact hl
        · rw [List.getElem?_eq_none hl] at hr; cases hr
      simp [List.getElem?_set_self hlt, hr]
    · simp [List.getElem?_set_ne e]
  · rfl

theorem updCol_cls (h : Heap) (a : Nat) (d : Kw) : (h.updCol a d).cls = h.cls := by
  unfold Heap.updCol; split <;> rfl

/-- the in-place write of a shallow copy does not concern the variants discipline, nor any class record -/
theorem keeps_aliasColWrite (F : Facts15) (a : Nat) (kw : Kw) (P : Heap → Prop)
    (hP : ∀ h h' : Heap, h'.cls = h.cls → P h → P h') :
    Keeps P (aliasColWrite F a kw) (fun _ h => P h) := by
  unfold aliasColWrite
  refine Keeps.bind (Keeps.getHeap P) (fun h0 => ?_)
  split
  · exact (Keeps.pure _ ()).weaken (fun _ p => p) (fun _ _ q => q.1.1)
  · split
    · exact (Keeps.pure _ ()).weaken (fun _ p => p) (fun _ _ q => q.1.1)
    · intro h ih p
      refine ⟨?_, ?_⟩
      · simp only [SpyneModel.Derive.updCol, Res.heap, Inv, viewOf_updCol]; exact ih
      · intro h' u he
        simp only [SpyneModel.Derive.updCol] at he
        cases he
        exact hP h _ (updCol_cls h _ _) p.1

theorem keeps_allocDerived (F : Facts15) (a : Nat) (kw : Kw) :
    Keeps Tr (allocDerived F a kw) (fun x h => (viewOf h).var x ≠ none) := by
  unfold allocDerived
  refine Keeps.bind (Keeps.getHeap Tr) (fun h0 => ?_)
  refine Keeps.bind (keeps_aliasColWrite F a kw Tr (fun _ _ _ _ => trivial)).anyPre (fun _ => ?_)
  exact Keeps.allocAttrs _ _

theorem keeps_newVariant (F : Facts15) (sc : Cls) (src : Nat) (ext : Option Nat) (kw : Kw)
    (hk : sc.kind.isComplex = true) :
    Keeps (fun h => h.cls[src]? = some sc) (newVariant F sc src ext kw) TrQ := by
  unfold newVariant
  refine Keeps.bind (Keeps.getHeap _) (fun h0 => ?_)
  refine Keeps.bind (keeps_aliasColWrite F sc.attrs kw (fun h => h.cls[src]? = some sc)
    (fun h h' e p => by rw [e]; exact p)).anyPre' (fun _ => ?_)
  exact keeps_newVariantTail _ rfl sc src ext kw hk

end SpyneModel.Derive
