/-
  C15 proofs, part 4: the variants discipline (with the rule that every class has its own `_variants`).
  The invariant is stated on a *view* of the heap - per class: family, `Attributes` record, original; per
  record: own `_variants` entry - and shown to be kept by every model program.
-/
import Proofs.DeriveObs
namespace SpyneModel.Derive

/-- what the variants discipline reads of a heap: per class (is it of the ComplexModel family, its `Attributes`
    record, its original), per record (its own `_variants` entry) -/
structure View where
  cls : Nat → Option (Bool × Nat × Option Nat)
  var : Nat → Option (Option (Option (List Nat)))

def upd {β : Type} (f : Nat → β) (i : Nat) (x : β) : Nat → β := fun j => if j = i then x else f j

structure IV (v : View) : Prop where
  range : ∀ c k a o, v.cls c = some (k, a, o) → v.var a ≠ none
  inj : ∀ c1 c2 a o1 o2, v.cls c1 = some (true, a, o1) → v.cls c2 = some (true, a, o2) → c1 = c2
  own : ∀ c a o, v.cls c = some (true, a, o) → v.var a ≠ some none
  variant : ∀ c a r, v.cls c = some (true, a, some r) →
    v.var a = some (some none) ∧ ∃ ar, v.cls r = some (true, ar, none)
  sound : ∀ c a o l, v.cls c = some (true, a, o) → v.var a = some (some (some l)) →
    ∀ x, x ∈ l → ∃ ax, v.cls x = some (true, ax, some c)
  complete : ∀ x ax r, v.cls x = some (true, ax, some r) →
    ∃ ar l, v.cls r = some (true, ar, none) ∧ v.var ar = some (some (some l)) ∧ x ∈ l

theorem IV.addRecord {v : View} (i : IV v) (a : Nat) (ha : v.var a = none) (rv : Option (Option (List Nat))) :
    IV { v with var := upd v.var a (some rv) } := by
  constructor <;> simp only [upd] <;> grind [IV]


theorem IV.addSimple {v : View} (i : IV v) (c a : Nat) (o : Option Nat) (hc : v.cls c = none) (ha : v.var a ≠ none) :
    IV { v with cls := upd v.cls c (some (false, a, o)) } := by
  constructor <;> simp only [upd] <;> grind [IV]

theorem IV.addDeclared {v : View} (i : IV v) (c a : Nat) (hc : v.cls c = none) (ha : v.var a = none) :
    IV { cls := upd v.cls c (some (true, a, none)), var := upd v.var a (some (some none)) } := by
  constructor <;> simp only [upd] <;> grind [IV]

/-- `ComplexModelBase.customize` + `_process_variants`: a fresh class with a fresh record is registered in
    the own `_variants` of its original -/
theorem IV.addVariant {v : View} (i : IV v) (c a r ar : Nat) (hc : v.cls c = none) (ha : v.var a = none)
    (hr : v.cls r = some (true, ar, none)) (old : List Nat)
    (hold : v.var ar = some (some (some old)) ∨ (v.var ar = some (some none) ∧ old = [])) :
    IV { cls := upd v.cls c (some (true, a, some r)),
         var := upd (upd v.var a (some (some none))) ar (some (some (some (old ++ [c])))) } := by
  constructor <;> simp only [upd] <;> grind [IV]


def viewOf (h : Heap) : View :=
  { cls := fun c => (h.cls[c]?).map (fun cl => (cl.kind.isComplex, cl.attrs, cl.orig)),
    var := fun x => (h.attrs[x]?).map (·.variants) }

/-- the variants discipline holds in heap `h` -/
def Inv (h : Heap) : Prop := IV (viewOf h)

theorem viewOf_updCls (h : Heap) (c : Nat) (f : Cls → Cls)
    (hf : ∀ cl, (f cl).kind = cl.kind ∧ (f cl).attrs = cl.attrs ∧ (f cl).orig = cl.orig) :
    viewOf (h.updCls c f) = viewOf h := by
  unfold Heap.updCls
  split
  · rename_i cl hcl
    simp only [viewOf, View.mk.injEq, and_true]
    funext j
    by_cases e : c = j
    · subst e
      have hlt : c < h.cls.length := by
        rcases Nat.lt_or_ge c h.cls.length with hl | hl
        · exact hl
        · rw [List.getElem?_eq_none hl] at hcl; cases hcl
      simp [List.getElem?_set_self hlt, hcl, hf cl]
    · simp [List.getElem?_set_ne e]
  · rfl

theorem viewOf_updCells_keep (h : Heap) (a : Nat) (f : AttrRec → AttrRec) (hf : ∀ r, (f r).variants = r.variants) :
    viewOf (h.updCells a f) = viewOf h := by
  unfold Heap.updCells
  split
  · rename_i r hr
    simp only [viewOf, View.mk.injEq, true_and]
    funext j
    by_cases e : a = j
    · subst e
      have hlt : a < h.attrs.length := by
        rcases Nat.lt_or_ge a h.attrs.length with hl | hl
        · exact hl
        · rw [List.getElem?_eq_none hl] at hr; cases hr
      simp [List.getElem?_set_self hlt, hr, hf r]
    · simp [List.getElem?_set_ne e]
  · rfl

theorem viewOf_updCells_var (h : Heap) (a : Nat) (f : AttrRec → AttrRec) (r : AttrRec) (hr : h.attrs[a]? = some r) :
    viewOf (h.updCells a f) = { viewOf h with var := upd (viewOf h).var a (some (f r).variants) } := by
  unfold Heap.updCells
  simp only [hr, viewOf, View.mk.injEq, true_and]
  funext j
  have hlt : a < h.attrs.length := by
    rcases Nat.lt_or_ge a h.attrs.length with hl | hl
    · exact hl
    · rw [List.getElem?_eq_none hl] at hr; cases hr
  by_cases e : a = j
  · subst e
    simp [List.getElem?_set_self hlt, upd]
  · have e' : ¬ j = a := fun x => e x.symm
    simp [List.getElem?_set_ne e, upd, e']

theorem viewOf_allocAttrs (h : Heap) (r : AttrRec) :
    viewOf { h with attrs := h.attrs ++ [r] } = { viewOf h with var := upd (viewOf h).var h.attrs.length (some r.variants) } := by
  simp only [viewOf, View.mk.injEq, true_and]
  funext j
  simp only [upd]
  split
  · rename_i e; subst e; simp
  · rename_i e
    rcases Nat.lt_or_ge j h.attrs.length with hl | hl
    · rw [List.getElem?_append_left hl]
    · have : h.attrs.length < j := by omega
      rw [List.getElem?_eq_none (by simp; omega), List.getElem?_eq_none (by omega)]

theorem viewOf_allocCls (h : Heap) (cl : Cls) :
    viewOf { h with cls := h.cls ++ [cl] }
      = { viewOf h with cls := upd (viewOf h).cls h.cls.length (some (cl.kind.isComplex, cl.attrs, cl.orig)) } := by
  simp only [viewOf, View.mk.injEq, and_true]
  funext j
  simp only [upd]
  split
  · rename_i e; subst e; simp
  · rename_i e
    rcases Nat.lt_or_ge j h.cls.length with hl | hl
    · rw [List.getElem?_append_left hl]
    · have : h.cls.length < j := by omega
      rw [List.getElem?_eq_none (by simp; omega), List.getElem?_eq_none (by omega)]

theorem viewOf_var_fresh (h : Heap) : (viewOf h).var h.attrs.length = none := by simp [viewOf]
theorem viewOf_cls_fresh (h : Heap) : (viewOf h).cls h.cls.length = none := by simp [viewOf]

end SpyneModel.Derive

namespace SpyneModel.Derive

/-! ## a small Hoare logic for "keeps the variants discipline" -/

/-- started in a heap with the discipline and `P`, the program ends (normally or not) in a heap with the
    discipline, and a normal result satisfies `Q` there -/
def Keeps {α : Type} (P : Heap → Prop) (m : M α) (Q : α → Heap → Prop) : Prop :=
  ∀ h, Inv h → P h → Inv (m h).heap ∧ ∀ h' a, m h = .ok h' a → Q a h'

abbrev Tr : Heap → Prop := fun _ => True
abbrev TrQ {α : Type} : α → Heap → Prop := fun _ _ => True

theorem Keeps.bind {α β : Type} {P : Heap → Prop} {m : M α} {f : α → M β} {Q : α → Heap → Prop}
    {R : β → Heap → Prop} (km : Keeps P m Q) (kf : ∀ a, Keeps (Q a) (f a) R) : Keeps P (m >>= f) R := by
  intro h ih ph
  have k1 := km h ih ph
  simp only [Bind.bind, M.bind]
  cases hm : m h with
  | err h' e =>
    simp only [hm, Res.heap] at k1 ⊢
    exact ⟨k1.1, fun _ _ he => by cases he⟩
  | ok h' a =>
    simp only [hm, Res.heap] at k1 ⊢
    exact kf a h' k1.1 (k1.2 h' a rfl)

theorem Keeps.weaken {α : Type} {P P' : Heap → Prop} {m : M α} {Q Q' : α → Heap → Prop}
    (k : Keeps P m Q) (hp : ∀ h, P' h → P h) (hq : ∀ a h, Q a h → Q' a h) : Keeps P' m Q' :=
  fun h ih ph => ⟨(k h ih (hp h ph)).1, fun h' a he => hq a h' ((k h ih (hp h ph)).2 h' a he)⟩

theorem Keeps.pure {α : Type} (P : Heap → Prop) (a : α) : Keeps P (Pure.pure a : M α) (fun x h => P h ∧ x = a) := by
  intro h ih ph
  refine ⟨ih, ?_⟩
  intro h' a' he
  simp only [Pure.pure, M.pure] at he
  cases he; exact ⟨ph, rfl⟩

theorem Keeps.pureT {α : Type} (P : Heap → Prop) (a : α) : Keeps P (Pure.pure a : M α) TrQ :=
  (Keeps.pure P a).weaken (fun _ x => x) (fun _ _ _ => trivial)

theorem Keeps.fail {α : Type} (P : Heap → Prop) (e : String) (Q : α → Heap → Prop) : Keeps P (fail e : M α) Q :=
  fun h ih _ => ⟨ih, fun _ _ he => by cases he⟩

theorem Keeps.getHeap (P : Heap → Prop) : Keeps P getHeap (fun x h => P h ∧ x = h) := by
  intro h ih ph
  exact ⟨ih, fun h' a he => by cases he; exact ⟨ph, rfl⟩⟩

theorem Keeps.getCls (P : Heap → Prop) (c : Nat) : Keeps P (getCls c) (fun cl h => P h ∧ h.cls[c]? = some cl) := by
  intro h ih ph
  unfold SpyneModel.Derive.getCls
  split
  · rename_i cl hcl
    exact ⟨ih, fun h' a he => by cases he; exact ⟨ph, hcl⟩⟩
  · exact ⟨ih, fun _ _ he => by cases he⟩

theorem Keeps.guardNone (P : Heap → Prop) (e : Option String) :
    Keeps P (guardNone e) (fun _ h => P h ∧ e = none) := by
  unfold SpyneModel.Derive.guardNone
  split
  · exact Keeps.fail _ _ _
  · exact (Keeps.pure P ()).weaken (fun _ x => x) (fun _ _ x => ⟨x.1, rfl⟩)

theorem Keeps.liftExcept {α : Type} (P : Heap → Prop) (x : Except String α) :
    Keeps P (liftExcept x) (fun a h => P h ∧ x = .ok a) := by
  unfold SpyneModel.Derive.liftExcept
  split
  · rename_i a
    exact (Keeps.pure P a).weaken (fun _ x => x) (fun _ _ x => ⟨x.1, by rw [x.2]⟩)
  · exact Keeps.fail _ _ _

theorem Keeps.updCls (P : Heap → Prop) (c : Nat) (f : Cls → Cls)
    (hf : ∀ cl, (f cl).kind = cl.kind ∧ (f cl).attrs = cl.attrs ∧ (f cl).orig = cl.orig) :
    Keeps P (updCls c f) TrQ := by
  intro h ih _
  refine ⟨?_, fun _ _ _ => trivial⟩
  simp only [SpyneModel.Derive.updCls, Res.heap, Inv, viewOf_updCls h c f hf]
  exact ih

theorem Keeps.updCells (P : Heap → Prop) (a : Nat) (f : AttrRec → AttrRec) (hf : ∀ r, (f r).variants = r.variants) :
    Keeps P (updCells a f) TrQ := by
  intro h ih _
  refine ⟨?_, fun _ _ _ => trivial⟩
  simp only [SpyneModel.Derive.updCells, Res.heap, Inv, viewOf_updCells_keep h a f hf]
  exact ih

theorem Keeps.whenM (P : Heap → Prop) (b : Bool) {m : M Unit} (k : Keeps P m TrQ) : Keeps P (whenM b m) TrQ := by
  unfold SpyneModel.Derive.whenM
  split
  · exact k
  · exact Keeps.pureT _ _

theorem Keeps.map {α β : Type} {P : Heap → Prop} {m : M α} (f : α → β) {Q : α → Heap → Prop}
    (k : Keeps P m Q) : Keeps P (f <$> m) TrQ := by
  have : (f <$> m) = (m >>= fun a => Pure.pure (f a)) := rfl
  rw [this]
  exact Keeps.bind k (fun a => Keeps.pureT _ _)

/-- a record allocated now exists afterwards -/
theorem Keeps.allocAttrs (P : Heap → Prop) (r : AttrRec) :
    Keeps P (allocAttrs r) (fun a h => (viewOf h).var a ≠ none) := by
  intro h ih _
  refine ⟨?_, ?_⟩
  · simp only [SpyneModel.Derive.allocAttrs, Res.heap, Inv, viewOf_allocAttrs]
    exact ih.addRecord _ (viewOf_var_fresh h) _
  · intro h' a he
    simp only [SpyneModel.Derive.allocAttrs] at he
    cases he
    simp [viewOf]

/-- a class outside the ComplexModel family, on an existing record -/
theorem Keeps.allocCls_simple (cl : Cls) (hk : cl.kind.isComplex = false) :
    Keeps (fun h => (viewOf h).var cl.attrs ≠ none) (allocCls cl) TrQ := by
  intro h ih ph
  refine ⟨?_, fun _ _ _ => trivial⟩
  simp only [SpyneModel.Derive.allocCls, Res.heap, Inv, viewOf_allocCls, hk]
  exact ih.addSimple _ _ _ (viewOf_cls_fresh h) ph

/-- a class statement -/
theorem Keeps.allocBoth_declared (P : Heap → Prop) (r : AttrRec) (mk : Nat → Cls) (hr : r.variants = some none)
    (hk : ∀ a, (mk a).kind.isComplex = true ∧ (mk a).attrs = a ∧ (mk a).orig = none) :
    Keeps P (allocBoth r mk) TrQ := by
  intro h ih _
  refine ⟨?_, fun _ _ _ => trivial⟩
  have e : viewOf { cls := h.cls ++ [mk h.attrs.length], attrs := h.attrs ++ [r] }
      = { cls := upd (viewOf h).cls h.cls.length (some (true, h.attrs.length, none)),
          var := upd (viewOf h).var h.attrs.length (some (some none)) } := by
    have h1 := viewOf_allocAttrs h r
    have h2 := viewOf_allocCls { h with attrs := h.attrs ++ [r] } (mk h.attrs.length)
    simp only [(hk h.attrs.length).1, (hk h.attrs.length).2.1, (hk h.attrs.length).2.2] at h2
    rw [h2, h1, hr]
  simp only [SpyneModel.Derive.allocBoth, Res.heap, Inv, e]
  exact ih.addDeclared _ _ (viewOf_cls_fresh h) (viewOf_var_fresh h)

end SpyneModel.Derive
