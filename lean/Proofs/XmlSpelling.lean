/-
  Spellings of a document: the configured parser hands the deserialiser the tree the document denotes, and
  that tree does not depend on comments, processing instructions, CDATA sections or the way the character
  data is cut into pieces. Chunked byte values are written as their concatenation.
-/
import SpyneModel.XmlSpelling
namespace SpyneModel
namespace Xml

theorem leadTextP_eq (D : FactsDoc) (hC : D.commentsRemoved = true) (hP : D.pisRemoved = true) :
    (items : List RawItem) → leadTextP D items = leadText items
  | [] => rfl
  | .text s :: r => by simp [leadTextP, leadText, leadTextP_eq D hC hP r]
  | .cdata s :: r => by simp [leadTextP, leadText, leadTextP_eq D hC hP r]
  | .comment s :: r => by simp [leadTextP, leadText, hC, leadTextP_eq D hC hP r]
  | .pi t s :: r => by simp [leadTextP, leadText, hP, leadTextP_eq D hC hP r]
  | .child e :: r => rfl

mutual
  theorem parserView_eq_denote (D : FactsDoc) (hC : D.commentsRemoved = true) (hP : D.pisRemoved = true) :
      (r : Raw) → parserView D r = denote r
    | .elem ns name attrs items => by
      simp only [parserView, denote, leadTextP_eq D hC hP items, parserKids_eq D hC hP items]

  theorem parserKids_eq (D : FactsDoc) (hC : D.commentsRemoved = true) (hP : D.pisRemoved = true) :
      (items : List RawItem) → parserKids D items = denoteKids items
    | [] => rfl
    | .child e :: r => by simp only [parserKids, denoteKids, parserView_eq_denote D hC hP e, parserKids_eq D hC hP r]
    | .text s :: r => by simp only [parserKids, denoteKids, parserKids_eq D hC hP r]
    | .cdata s :: r => by simp only [parserKids, denoteKids, parserKids_eq D hC hP r]
    | .comment s :: r => by simp only [parserKids, denoteKids, hC, if_true, parserKids_eq D hC hP r]
    | .pi t s :: r => by simp only [parserKids, denoteKids, hP, if_true, parserKids_eq D hC hP r]
end

/-! ### what `denote` does not see -/

/-- items that carry neither character data nor an element -/
def isNoise : RawItem → Bool
  | .comment _ => true
  | .pi _ _ => true
  | _ => false

theorem leadText_insert (x : RawItem) (hx : isNoise x = true) : (pre post : List RawItem) →
    leadText (pre ++ x :: post) = leadText (pre ++ post)
  | [], post => by cases x <;> simp_all [isNoise, leadText]
  | .text s :: r, post => by simp [leadText, leadText_insert x hx r post]
  | .cdata s :: r, post => by simp [leadText, leadText_insert x hx r post]
  | .comment s :: r, post => by simp [leadText, leadText_insert x hx r post]
  | .pi t s :: r, post => by simp [leadText, leadText_insert x hx r post]
  | .child e :: r, post => by simp [leadText]

theorem denoteKids_insert (x : RawItem) (hx : isNoise x = true) : (pre post : List RawItem) →
    denoteKids (pre ++ x :: post) = denoteKids (pre ++ post)
  | [], post => by cases x <;> simp_all [isNoise, denoteKids]
  | .text s :: r, post => by simp [denoteKids, denoteKids_insert x hx r post]
  | .cdata s :: r, post => by simp [denoteKids, denoteKids_insert x hx r post]
  | .comment s :: r, post => by simp [denoteKids, denoteKids_insert x hx r post]
  | .pi t s :: r, post => by simp [denoteKids, denoteKids_insert x hx r post]
  | .child e :: r, post => by simp [denoteKids, denoteKids_insert x hx r post]

/-- a comment or processing instruction anywhere among the content of an element — inside its text, between
    its children, before the first or after the last — does not change what the element denotes -/
theorem denote_insert_noise (ns name : Text) (attrs : List (Text × Text)) (pre post : List RawItem) (x : RawItem)
    (hx : isNoise x = true) :
    denote (.elem ns name attrs (pre ++ x :: post)) = denote (.elem ns name attrs (pre ++ post)) := by
  simp only [denote, leadText_insert x hx, denoteKids_insert x hx]

/-- character data is character data however it is cut and whether or not a piece is a CDATA section -/
def piece (cd : Bool) (s : Text) : RawItem := if cd then .cdata s else .text s

theorem leadText_split (a b : Text) (c1 c2 c3 : Bool) : (pre post : List RawItem) →
    leadText (pre ++ piece c1 (a ++ b) :: post) = leadText (pre ++ piece c2 a :: piece c3 b :: post)
  | [], post => by cases c1 <;> cases c2 <;> cases c3 <;> simp [piece, leadText, List.append_assoc]
  | .text s :: r, post => by simp [leadText, leadText_split a b c1 c2 c3 r post]
  | .cdata s :: r, post => by simp [leadText, leadText_split a b c1 c2 c3 r post]
  | .comment s :: r, post => by simp [leadText, leadText_split a b c1 c2 c3 r post]
  | .pi t s :: r, post => by simp [leadText, leadText_split a b c1 c2 c3 r post]
  | .child e :: r, post => by simp [leadText]

theorem denoteKids_split (a b : Text) (c1 c2 c3 : Bool) : (pre post : List RawItem) →
    denoteKids (pre ++ piece c1 (a ++ b) :: post) = denoteKids (pre ++ piece c2 a :: piece c3 b :: post)
  | [], post => by cases c1 <;> cases c2 <;> cases c3 <;> simp [piece, denoteKids]
  | .text s :: r, post => by simp [denoteKids, denoteKids_split a b c1 c2 c3 r post]
  | .cdata s :: r, post => by simp [denoteKids, denoteKids_split a b c1 c2 c3 r post]
  | .comment s :: r, post => by simp [denoteKids, denoteKids_split a b c1 c2 c3 r post]
  | .pi t s :: r, post => by simp [denoteKids, denoteKids_split a b c1 c2 c3 r post]
  | .child e :: r, post => by simp [denoteKids, denoteKids_split a b c1 c2 c3 r post]

theorem denote_split_text (ns name : Text) (attrs : List (Text × Text)) (pre post : List RawItem) (a b : Text)
    (c1 c2 c3 : Bool) :
    denote (.elem ns name attrs (pre ++ piece c1 (a ++ b) :: post)) =
      denote (.elem ns name attrs (pre ++ piece c2 a :: piece c3 b :: post)) := by
  simp only [denote, leadText_split a b c1 c2 c3 pre post, denoteKids_split a b c1 c2 c3 pre post]

theorem denoteKids_child (e e' : Raw) (h : denote e = denote e') : (pre post : List RawItem) →
    denoteKids (pre ++ .child e :: post) = denoteKids (pre ++ .child e' :: post)
  | [], post => by simp [denoteKids, h]
  | .text s :: r, post => by simp [denoteKids, denoteKids_child e e' h r post]
  | .cdata s :: r, post => by simp [denoteKids, denoteKids_child e e' h r post]
  | .comment s :: r, post => by simp [denoteKids, denoteKids_child e e' h r post]
  | .pi t s :: r, post => by simp [denoteKids, denoteKids_child e e' h r post]
  | .child x :: r, post => by simp [denoteKids, denoteKids_child e e' h r post]

theorem leadText_child (e e' : Raw) : (pre post : List RawItem) →
    leadText (pre ++ .child e :: post) = leadText (pre ++ .child e' :: post)
  | [], post => by simp [leadText]
  | .text s :: r, post => by simp [leadText, leadText_child e e' r post]
  | .cdata s :: r, post => by simp [leadText, leadText_child e e' r post]
  | .comment s :: r, post => by simp [leadText, leadText_child e e' r post]
  | .pi t s :: r, post => by simp [leadText, leadText_child e e' r post]
  | .child x :: r, post => by simp [leadText]

/-- … at any depth: respelling a child respells the parent -/
theorem denote_child_congr (ns name : Text) (attrs : List (Text × Text)) (pre post : List RawItem) (e e' : Raw)
    (h : denote e = denote e') :
    denote (.elem ns name attrs (pre ++ .child e :: post)) = denote (.elem ns name attrs (pre ++ .child e' :: post)) := by
  simp only [denote, leadText_child e e' pre post, denoteKids_child e e' h pre post]

/-! ### chunked byte values -/

theorem chunksText_join (F : Facts08) (D : FactsDoc) (hJ : D.bytesJoinBeforeEncode = true) (enc : BinEnc)
    (chunks : List (List Nat)) : chunksText F D enc chunks = leafToText F (.bytes enc) (.bytes chunks.flatten) := by
  unfold chunksText
  split
  · rename_i h; rw [hJ] at h; cases h
  · rfl

end Xml
end SpyneModel
