/-
  C05 (HttpRpc) helper lemmas, part 4: the keys of a documented request in ANY order, with the
  frequency increments (idxmap branch). The walk of `Proofs/FlatLenient.lean` again, on the pair
  (object graph, increments): a key changes one member and adds increments that belong to it.
-/
import Proofs.FlatSound
namespace SpyneModel.Flat
open SpyneModel

abbrev PSt := Attrs × List Ev

/-- one key applied to the members of an instance, increments appended -/
def walkP (F : Facts03) (strict : Bool) (fields : List Fld) (st : PSt) (e : KEntry) : Outcome PSt :=
  obind (walk F strict fields st.1 e.path e.idxs e.kv.payload) fun r => .ok (r.1, st.2 ++ r.2)

/-- what a key does to the member `k` named by its first segment, and to that member's increments -/
def updP (F : Facts03) (strict : Bool) (fields : List Fld) (k : Text) (cur : Node × List Ev) (e : KEntry) :
    Outcome (Node × List Ev) :=
  match e.segs with
  | [] => .crash "IndexError"
  | _ :: rest =>
    obind (stepMember F strict fields cur.1 k (rest.map Prod.fst) e.idxs e.kv.payload) fun r =>
      .ok (r.1, cur.2 ++ r.2)

/-- a member and the increments that belong to it -/
def getPr (st : PSt) (k : Text) : Node × List Ev := (getAttr st.1 k, st.2.filter (ownedBy k))

theorem ownedBy_unique {k j : Text} {e : Ev} (h : ownedBy k e = true) (hj : j ≠ k) : ownedBy j e = false := by
  unfold ownedBy at h ⊢
  cases hk : e.key with
  | nil => rw [hk] at h; simp only [decide_eq_true_eq] at h; simp [h, Ne.symm hj]
  | cons c r => rw [hk] at h; simp only [decide_eq_true_eq] at h; simp [h, Ne.symm hj]

theorem filter_owned_self {k : Text} {l : List Ev} (h : ∀ e, e ∈ l → ownedBy k e = true) :
    l.filter (ownedBy k) = l := List.filter_eq_self.mpr h

theorem filter_owned_other {k j : Text} {l : List Ev} (h : ∀ e, e ∈ l → ownedBy k e = true) (hj : j ≠ k) :
    l.filter (ownedBy j) = [] := by
  apply List.filter_eq_nil_iff.mpr
  intro e he
  rw [ownedBy_unique (h e he) hj]
  simp

/-- increments made at the instance itself carry the member list of its class -/
def OwnSpec (fields : List Fld) (evs : List Ev) : Prop := ∀ e, e ∈ evs → e.key = [] → e.spec = specOf fields

/-- the keyed-store law of an instance with its increments -/
theorem walkP_law (F : Facts03) (hF : F.freqScope = .perMember) (strict : Bool) (fields : List Fld)
    (st : PSt) (e : KEntry) (v' : Node × List Ev) (hI : OwnSpec fields st.2)
    (h : updP F strict fields e.head (getPr st e.head) e = .ok v') :
    ∃ s', walkP F strict fields st e = .ok s' ∧ OwnSpec fields s'.2 ∧ getPr s' e.head = v' ∧
      ∀ j, j ≠ e.head → getPr s' j = getPr st j := by
  unfold updP at h
  unfold walkP walk KEntry.path
  cases hs : e.segs with
  | nil => rw [hs] at h; exact absurd h (by simp)
  | cons s rest =>
    rw [hs] at h
    have hh : e.head = s.1 := by simp [KEntry.head, hs]
    rw [hh] at h ⊢
    simp only [getPr] at h
    obtain ⟨r, hr, hv⟩ := obind_eq_ok.mp h
    simp only [Outcome.ok.injEq] at hv
    have hown := stepMember_owned F hF strict fields (getAttr st.1 s.1) s.1 (rest.map Prod.fst) e.idxs e.kv.payload r hr
    refine ⟨(setAttr st.1 s.1 r.1, st.2 ++ r.2), ?_, ?_, ?_, ?_⟩
    · simp only [List.map_cons, hr, obind_ok]
    · intro ev hev hk
      rcases List.mem_append.mp hev with hev | hev
      · exact hI ev hev hk
      · exact ((hown ev hev).2 hk).1
    · rw [← hv]
      simp only [getPr, getAttr_setAttr_same, List.filter_append, filter_owned_self (fun ev hev => (hown ev hev).1)]
    · intro j hj
      simp only [getPr, getAttr_setAttr_ne _ _ _ _ hj, List.filter_append,
        filter_owned_other (fun ev hev => (hown ev hev).1) hj, List.append_nil]

/-! ## counting through the filter -/

theorem evCount_filter_owned (evs : List Ev) (k : Text) :
    evCount (evs.filter (ownedBy k)) [] k = evCount evs [] k := by
  induction evs with
  | nil => rfl
  | cons e r ih =>
    simp only [List.filter_cons]
    by_cases ho : ownedBy k e = true
    · simp only [ho, if_true, evCount_cons, ih]
    · simp only [ho, Bool.false_eq_true, if_false, evCount_cons, ih]
      have : ¬ (e.key = [] ∧ e.name = k) := by
        intro ⟨h1, h2⟩
        apply ho
        simp [ownedBy, h1, h2]
      simp [this]

theorem evsUnder_filter_owned (evs : List Ev) (k : Text) (i : Nat) :
    evsUnder (k, i) (evs.filter (ownedBy k)) = evsUnder (k, i) evs := by
  induction evs with
  | nil => rfl
  | cons e r ih =>
    simp only [List.filter_cons]
    by_cases ho : ownedBy k e = true
    · simp only [ho, if_true]
      simp only [evsUnder, List.filterMap_cons] at ih ⊢
      rw [ih]
    · simp only [ho, Bool.false_eq_true, if_false, ih]
      obtain ⟨key, spec, nm, inc⟩ := e
      cases key with
      | nil => simp [evsUnder]
      | cons c tl =>
        have : c ≠ (k, i) := by
          intro e; apply ho; simp [ownedBy, e]
        simp [evsUnder, this]


/-! ## a member that holds one object -/

theorem updP_push_obj (F : Facts03) (hF : F.freqScope = .perMember) (strict : Bool) (fields : List Fld) (k : Text)
    (occ : Occ) (cid : Nat) (sub : List Fld)
    (hl : lookupFld fields k = some (k, occ, .obj cid sub)) (hm : occ.many = false)
    (c : Attrs) (evk acc : List Ev) (y : KEntry) (hy : y.segs ≠ []) :
    updP F strict fields k (.obj c, evk ++ acc.map (Ev.under [(k, 0)])) (y.push k none) =
      omap (fun r => (Node.obj r.1, evk ++ r.2.map (Ev.under [(k, 0)]))) (walkP F strict sub (c, acc) y) := by
  obtain ⟨segs, kv⟩ := y
  cases segs with
  | nil => exact absurd rfl hy
  | cons s rest =>
    simp only [updP, KEntry.push, walkP, KEntry.path, List.map_cons, walk]
    rw [show (KEntry.mk ((k, none) :: s :: rest) kv).idxs = (KEntry.mk (s :: rest) kv).idxs from
      push_idxs_none k ⟨s :: rest, kv⟩]
    simp only [stepMember, hl, hm, hF, Bool.false_eq_true, if_false]
    cases stepMember F strict sub (getAttr c s.1) s.1 (rest.map Prod.fst) (KEntry.mk (s :: rest) kv).idxs kv.payload with
    | ok r => simp [omap, List.map_append]
    | fault => rfl
    | crash e => rfl

theorem updP_push_obj_none (F : Facts03) (hF : F.freqScope = .perMember) (strict : Bool) (fields : List Fld) (k : Text)
    (occ : Occ) (cid : Nat) (sub : List Fld)
    (hl : lookupFld fields k = some (k, occ, .obj cid sub)) (hm : occ.many = false)
    (y : KEntry) (hy : y.segs ≠ []) :
    updP F strict fields k (.none, []) (y.push k none) =
      updP F strict fields k (.obj (freshAttrs sub), [⟨[], specOf fields, k, 1⟩]) (y.push k none) := by
  obtain ⟨segs, kv⟩ := y
  cases segs with
  | nil => exact absurd rfl hy
  | cons s rest =>
    simp only [updP, KEntry.push, List.map_cons, stepMember, hl, hm, hF, Bool.false_eq_true, if_false]
    cases stepMember F strict sub (getAttr (freshAttrs sub) s.1) s.1 (rest.map Prod.fst)
        (KEntry.mk ((k, none) :: s :: rest) kv).idxs kv.payload with
    | ok r => simp
    | fault => rfl
    | crash e => rfl

theorem foldO_updP_obj (F : Facts03) (hF : F.freqScope = .perMember) (strict : Bool) (fields : List Fld) (k : Text)
    (occ : Occ) (cid : Nat) (sub : List Fld)
    (hl : lookupFld fields k = some (k, occ, .obj cid sub)) (hm : occ.many = false)
    (ys : List KEntry) (hys : ∀ y, y ∈ ys → y.segs ≠ []) (c : Attrs) (evk acc : List Ev) :
    foldO (updP F strict fields k) (.obj c, evk ++ acc.map (Ev.under [(k, 0)])) (ys.map (KEntry.push k none)) =
      omap (fun r => (Node.obj r.1, evk ++ r.2.map (Ev.under [(k, 0)]))) (foldO (walkP F strict sub) (c, acc) ys) := by
  induction ys generalizing c acc with
  | nil => rfl
  | cons y ys ih =>
    simp only [List.map_cons, foldO_cons]
    rw [updP_push_obj F hF strict fields k occ cid sub hl hm c evk acc y (hys y List.mem_cons_self)]
    cases walkP F strict sub (c, acc) y with
    | ok c1 =>
      simp only [omap_ok, obind_ok]
      exact ih (fun y' hy' => hys y' (List.mem_cons_of_mem _ hy')) c1.1 c1.2
    | fault => rfl
    | crash e => rfl

/-- from `None`: the first key creates the instance and counts it in -/
theorem foldO_updP_obj_none (F : Facts03) (hF : F.freqScope = .perMember) (strict : Bool) (fields : List Fld) (k : Text)
    (occ : Occ) (cid : Nat) (sub : List Fld)
    (hl : lookupFld fields k = some (k, occ, .obj cid sub)) (hm : occ.many = false)
    (ys : List KEntry) (hys : ∀ y, y ∈ ys → y.segs ≠ []) (hne : ys ≠ []) :
    foldO (updP F strict fields k) (.none, []) (ys.map (KEntry.push k none)) =
      omap (fun r => (Node.obj r.1, (⟨[], specOf fields, k, 1⟩ : Ev) :: r.2.map (Ev.under [(k, 0)])))
        (foldO (walkP F strict sub) (freshAttrs sub, []) ys) := by
  cases ys with
  | nil => exact absurd rfl hne
  | cons y ys =>
    have := foldO_updP_obj F hF strict fields k occ cid sub hl hm (y :: ys) hys (freshAttrs sub)
      [⟨[], specOf fields, k, 1⟩] []
    simp only [List.map_nil, List.append_nil, List.singleton_append] at this
    rw [← this]
    simp only [List.map_cons, foldO_cons]
    rw [updP_push_obj_none F hF strict fields k occ cid sub hl hm y (hys y List.mem_cons_self)]


/-! ## a member that holds an array of objects (idxmap branch) -/

/-- what a key does to the element it addresses, and to the increments made under that element -/
def updAP (F : Facts03) (strict : Bool) (sub : List Fld) (cur : Node × List Ev) (y : KEntry) :
    Outcome (Node × List Ev) :=
  match cur.1 with
  | .obj child => omap (fun r => (Node.obj r.1, r.2)) (walkP F strict sub (child, cur.2) y)
  | _ => .crash "IndexError"

/-- an array member with its increments as a store keyed by the sparse index: is the index known,
    the element, the increments made under it -/
def getAP (sub : List Fld) (k : Text) (s : Node × List Ev) (j : Nat) : Bool × Node × List Ev :=
  match s.1 with
  | .arr m items => (decide (j ∈ mkeys m), arrGet m items (fresh sub) j, evsUnder (k, j) s.2)
  | _ => (false, fresh sub, evsUnder (k, j) s.2)

/-- the array member under construction: the idxmap invariant, one creation increment per element,
    all increments belong to the member -/
def ArrI (k : Text) (s : Node × List Ev) : Prop :=
  ∃ m items, s.1 = .arr m items ∧ ArrInv m items.length ∧ evCount s.2 [] k = m.length ∧
    ∀ e, e ∈ s.2 → ownedBy k e = true

theorem arrPut_map_length {α : Type} (m : List (Nat × Nat)) (items : List α) (i : Nat) (v : α) :
    (arrPut m items i v).1.length = m.length + (match mapGet m i with | some _ => 0 | none => 1) := by
  unfold arrPut
  cases mapGet m i with
  | some c => rfl
  | none => simp [s2cmi]

theorem updP_push_arr_none (F : Facts03) (strict : Bool) (fields : List Fld) (k : Text) (occ : Occ) (cid : Nat)
    (sub : List Fld) (hl : lookupFld fields k = some (k, occ, .obj cid sub)) (hm : occ.many = true)
    (i : Nat) (y : KEntry) (hy : y.segs ≠ []) :
    updP F strict fields k (.none, []) (y.push k (some i)) = updP F strict fields k (.arr [] [], []) (y.push k (some i)) := by
  obtain ⟨segs, kv⟩ := y
  cases segs with
  | nil => exact absurd rfl hy
  | cons s rest =>
    simp only [updP, KEntry.push, List.map_cons, stepMember, hl, hm, if_true]

theorem updP_arr_law (F : Facts03) (hF : F.freqScope = .perMember) (fields : List Fld) (k : Text) (occ : Occ)
    (cid : Nat) (sub : List Fld) (hl : lookupFld fields k = some (k, occ, .obj cid sub)) (hm : occ.many = true)
    (s : Node × List Ev) (i : Nat) (y : KEntry) (hy : y.segs ≠ []) (v' : Bool × Node × List Ev)
    (hI : ArrI k s)
    (hupd : omap (fun v => (true, v.1, v.2)) (updAP F false sub ((getAP sub k s i).2.1, (getAP sub k s i).2.2) y) = .ok v') :
    ∃ s', updP F false fields k s (y.push k (some i)) = .ok s' ∧ ArrI k s' ∧ getAP sub k s' i = v' ∧
      ∀ j, j ≠ i → getAP sub k s' j = getAP sub k s j := by
  obtain ⟨m, items, hs1, hinv, hcnt, hown⟩ := hI
  obtain ⟨node, evk⟩ := s
  simp only at hs1 hcnt hown
  subst hs1
  simp only [getAP] at hupd
  obtain ⟨w, hw, hv'⟩ := obind_eq_ok.mp hupd
  simp only [Outcome.ok.injEq] at hv'
  unfold updAP at hw
  simp only at hw
  cases hag : arrGet m items (fresh sub) i with
  | obj child =>
    rw [hag] at hw
    simp only at hw
    obtain ⟨r, hr, hwr⟩ := obind_eq_ok.mp hw
    simp only [Outcome.ok.injEq] at hwr
    unfold walkP at hr
    obtain ⟨r0, hr0, hrr⟩ := obind_eq_ok.mp hr
    simp only [Outcome.ok.injEq] at hrr
    obtain ⟨segs, kv⟩ := y
    cases segs with
    | nil => exact absurd rfl hy
    | cons s0 rest =>
      simp only [walk, KEntry.path, List.map_cons] at hr0
      obtain ⟨r1, hr1, hr01⟩ := obind_eq_ok.mp hr0
      simp only [Outcome.ok.injEq] at hr01
      -- the step of the member
      have hstep : stepMember F false fields (.arr m items) k (s0.1 :: rest.map Prod.fst)
          (i :: (KEntry.mk (s0 :: rest) kv).idxs) kv.payload =
          .ok (.arr (arrPut m items i (.obj (setAttr child s0.1 r1.1))).1
                (arrPut m items i (.obj (setAttr child s0.1 r1.1))).2,
               (match mapGet m i with
                | some _ => []
                | none => [(⟨[], specOf fields, k, 1⟩ : Ev)]) ++ r1.2.map (Ev.under [(k, i)])) := by
        rw [stepMember_arr F hF fields k occ cid sub hl hm m items hinv]
        simp only [popIdx, hag, hr1, obind_ok]
        rfl
      have hnew := stepMember_owned F hF false fields _ k _ _ _ _ hstep
      simp only at hnew
      have hupdP : updP F false fields k (.arr m items, evk) ((KEntry.mk (s0 :: rest) kv).push k (some i)) =
          .ok (.arr (arrPut m items i (.obj (setAttr child s0.1 r1.1))).1
                (arrPut m items i (.obj (setAttr child s0.1 r1.1))).2,
               evk ++ ((match mapGet m i with
                | some _ => []
                | none => [(⟨[], specOf fields, k, 1⟩ : Ev)]) ++ r1.2.map (Ev.under [(k, i)]))) := by
        simp only [updP, KEntry.push, List.map_cons]
        rw [show (KEntry.mk ((k, some i) :: s0 :: rest) kv).idxs = i :: (KEntry.mk (s0 :: rest) kv).idxs from
          push_idxs_some k i ⟨s0 :: rest, kv⟩]
        rw [hstep]; rfl
      have hunder : ∀ j, evsUnder (k, j) ((match mapGet m i with
                | some _ => []
                | none => [(⟨[], specOf fields, k, 1⟩ : Ev)]) ++ r1.2.map (Ev.under [(k, i)])) =
            if j = i then r1.2 else [] := by
        intro j
        rw [evsUnder_append, evsUnder_under]
        cases mapGet m i <;> simp [evsUnder]
      refine ⟨_, hupdP, ⟨_, _, rfl, arrPut_inv hinv i _, ?_, ?_⟩, ?_, ?_⟩
      · simp only [evCount_append, evCount_under_nil, hcnt, arrPut_map_length, Nat.add_zero]
        cases mapGet m i with
        | some c => simp [evCount_nil]
        | none => rw [evCount_cons, evCount_nil]; simp
      · intro e he
        rcases List.mem_append.mp he with he | he
        · exact hown e he
        · exact (hnew e he).1
      · rw [← hv', ← hwr, ← hrr, ← hr01]
        have hk := arrPut_keys m items i (Node.obj (setAttr child s0.1 r1.1))
        have hmem : i ∈ mkeys (arrPut m items i (Node.obj (setAttr child s0.1 r1.1))).1 := by
          rw [hk]; split <;> simp_all
        simp only [getAP, hmem, decide_true, arrGet_arrPut_same hinv i _ (fresh sub), evsUnder_append, hunder, if_true]
      · intro j hj
        have hk := arrPut_keys m items i (Node.obj (setAttr child s0.1 r1.1))
        have hiff : (j ∈ mkeys (arrPut m items i (Node.obj (setAttr child s0.1 r1.1))).1) ↔ j ∈ mkeys m := by
          rw [hk]; split
          · exact Iff.rfl
          · simp [hj]
        simp only [getAP, arrGet_arrPut_ne hinv i j _ (fresh sub) hj, evsUnder_append, hunder, hj, if_false,
          List.append_nil]
        simp [hiff]
  | none => rw [hag] at hw; exact absurd hw (by simp)
  | leaf _ => rw [hag] at hw; exact absurd hw (by simp)
  | leaves _ => rw [hag] at hw; exact absurd hw (by simp)
  | arr _ _ => rw [hag] at hw; exact absurd hw (by simp)


/-- the keys of one element, taken together -/
theorem foldO_updElemP (F : Facts03) (cs : Bool) (sub : List Fld) (k : Text) (j : Nat) (ys : List KEntry)
    (b : Bool) (c : Attrs) (acc : List Ev) :
    foldO (fun (bv : Bool × Node × List Ev) e =>
        omap (fun v => (true, v.1, v.2)) (updAP F cs sub (bv.2.1, bv.2.2) e.tail)) (b, .obj c, acc)
        (ys.map (KEntry.push k (some j))) =
      if ys = [] then .ok (b, .obj c, acc)
      else omap (fun r => (true, Node.obj r.1, r.2)) (foldO (walkP F cs sub) (c, acc) ys) := by
  induction ys generalizing b c acc with
  | nil => rfl
  | cons y ys ih =>
    simp only [List.map_cons, foldO_cons, push_tail, reduceCtorEq, if_false]
    rw [show updAP F cs sub (Node.obj c, acc) y =
      omap (fun r => (Node.obj r.1, r.2)) (walkP F cs sub (c, acc) y) from rfl]
    cases hw : walkP F cs sub (c, acc) y with
    | ok c1 =>
      simp only [omap_ok, obind_ok]
      rw [ih true c1.1 c1.2]
      split
      · rename_i h; subst h; rfl
      · rfl
    | fault => rfl
    | crash e => rfl

/-- every instance below that has an entry passes its check, seen from an instance above -/
def DeepOk (evk : List Ev) : Prop :=
  ∀ e, e ∈ evk → ∀ c K, e.key = c :: K → freqOkAt (evsUnder c evk) K e.spec = true

theorem mem_evsUnder {evs : List Ev} {e : Ev} (he : e ∈ evs) {c : Text × Nat} {K : FKey} (hk : e.key = c :: K) :
    (⟨K, e.spec, e.name, e.inc⟩ : Ev) ∈ evsUnder c evs := by
  simp only [evsUnder, List.mem_filterMap]
  exact ⟨e, he, by simp [hk]⟩

theorem freqDeep_at {evs : List Ev} (h : freqDeep evs = true) {e : Ev} (he : e ∈ evs) :
    freqOkAt evs e.key e.spec = true := by
  unfold freqDeep at h
  rw [List.all_eq_true] at h
  exact h e he

theorem arr_member_foldP (F : Facts03) (hF : F.freqScope = .perMember) (fields : List Fld) (k : Text) (occ : Occ)
    (cid : Nat) (sub : List Fld)
    (hl : lookupFld fields k = some (k, occ, .obj cid sub)) (hm : occ.many = true)
    (elems : List (Nat × Members)) (hne : elems ≠ []) (hinc : StrictInc (elems.map Prod.fst))
    (hsegs : ∀ i ms y, (i, ms) ∈ elems → y ∈ kentries sub ms → y.segs ≠ [])
    (hnonempty : ∀ i ms, (i, ms) ∈ elems → kentries sub ms ≠ [])
    (hchild : ∀ i ms, (i, ms) ∈ elems → ∀ ys : List KEntry, ys.Perm (kentries sub ms) →
        ∃ st', foldO (walkP F false sub) (freshAttrs sub, []) ys = .ok st' ∧
          eraseAttrs st'.1 = expInto sub ms (freshAttrs sub) ∧ freqDeep st'.2 = true)
    (es : List KEntry) (hp : es.Perm (kentriesElems sub k elems)) :
    ∃ v, foldO (updP F false fields k) (.none, []) es = .ok v ∧ eraseNode v.1 = .arr [] (expElems sub elems) ∧
      evCount v.2 [] k = elems.length ∧ DeepOk v.2 := by
  have hnd : (elems.map Prod.fst).Nodup := hinc.nodup
  have hform : ∀ e, e ∈ es → ∃ (i : Nat) (y : KEntry), e = y.push k (some i) ∧ y.segs ≠ [] := by
    intro e he
    obtain ⟨i, ms, y, h1, h2, rfl⟩ := kentriesElems_form sub k elems e (hp.subset he)
    exact ⟨i, y, rfl, hsegs i ms y h1 h2⟩
  have hstart : foldO (updP F false fields k) (.none, []) es = foldO (updP F false fields k) (.arr [] [], []) es := by
    cases es with
    | nil =>
      exfalso
      cases elems with
      | nil => exact hne rfl
      | cons a r =>
        obtain ⟨i, ms⟩ := a
        have h0 := hnonempty i ms List.mem_cons_self
        have : kentriesElems sub k ((i, ms) :: r) = [] := by
          have := hp.length_eq; simp at this
          exact List.eq_nil_of_length_eq_zero this.symm
        simp only [kentriesElems, List.append_eq_nil_iff, List.map_eq_nil_iff] at this
        exact h0 this.1
    | cons e es' =>
      obtain ⟨i, y, rfl, hy⟩ := hform e List.mem_cons_self
      simp only [foldO_cons]
      rw [updP_push_arr_none F false fields k occ cid sub hl hm i y hy]
  rw [hstart]
  have key := foldO_by_key (σ := Node × List Ev) (ε := KEntry) (κ := Nat) (ν := Bool × Node × List Ev)
    (getAP sub k) (updP F false fields k) headIdx
    (fun _ bv e => omap (fun v => (true, v.1, v.2)) (updAP F false sub (bv.2.1, bv.2.2) e.tail))
    (ArrI k)
    (fun e => ∃ (i : Nat) (y : KEntry), e = y.push k (some i) ∧ y.segs ≠ [])
    (fun j bv => (∀ ms, (j, ms) ∈ elems → bv.1 = true ∧
        eraseNode bv.2.1 = .obj (expInto sub ms (freshAttrs sub)) ∧ freqDeep bv.2.2 = true) ∧
      (j ∉ elems.map Prod.fst → bv.1 = false ∧ bv.2.2 = []))
    (by
      intro s e v' hP hI hupd
      obtain ⟨i, y, rfl, hy⟩ := hP
      have hkey : headIdx (y.push k (some i)) = i := rfl
      simp only [hkey, push_tail] at hupd ⊢
      exact updP_arr_law F hF fields k occ cid sub hl hm s i y hy v' hI hupd)
    es (.arr [] [], []) hform ⟨[], [], rfl, ArrInv.empty, rfl, fun _ h => by simp at h⟩
    (by
      intro j
      have hfil : (es.filter (fun e => headIdx e = j)).Perm
          ((kentriesElems sub k elems).filter (fun e => headIdx e = j)) := hp.filter _
      rw [kentriesElems_filter sub k elems hnd j] at hfil
      cases hfind : elems.find? (fun el => el.1 = j) with
      | none =>
        rw [hfind] at hfil
        have hnil := hfil.eq_nil
        rw [hnil]
        have hj : j ∉ elems.map Prod.fst := by
          intro hmem
          obtain ⟨el, hel, rfl⟩ := List.mem_map.mp hmem
          have := List.find?_eq_none.mp hfind el hel
          simp at this
        refine ⟨_, rfl, ?_, fun _ => by simp [getAP, mkeys, evsUnder]⟩
        intro ms hms
        exact absurd (List.mem_map_of_mem (f := Prod.fst) hms) hj
      | some el =>
        rw [hfind] at hfil
        obtain ⟨hel, hj⟩ := mem_of_find elems j el hfind
        obtain ⟨i, ms⟩ := el
        simp only at hj; subst hj
        obtain ⟨ys, hys, hyseq⟩ := perm_map_pullback (KEntry.push k (some i)) _ _ hfil
        rw [hyseq]
        have hysne : ys ≠ [] := by
          intro e; subst e
          have := hys.symm.eq_nil
          exact hnonempty i ms hel this
        obtain ⟨st', hc', hce, hdeep⟩ := hchild i ms hel ys hys
        have := foldO_updElemP F false sub k i ys false (freshAttrs sub) []
        simp only [hysne, if_false, hc', omap_ok] at this
        refine ⟨(true, .obj st'.1, st'.2), ?_, ?_, ?_⟩
        · simpa [getAP, mkeys, arrGet, mapGet, fresh, evsUnder] using this
        · intro ms' hms'
          have : ms' = ms := unique_of_nodup elems hnd hms' hel
          subst this
          simp [eraseNode, hce, hdeep]
        · intro hnot
          exact absurd (List.mem_map_of_mem (f := Prod.fst) hel) hnot)
  obtain ⟨s', hs', ⟨m', items', hs1, hinv', hcnt', hown'⟩, hq⟩ := key
  obtain ⟨node', evk'⟩ := s'
  simp only at hs1 hcnt' hown'
  subst hs1
  have hmem : ∀ j, j ∈ mkeys m' ↔ j ∈ elems.map Prod.fst := by
    intro j
    have := hq j
    simp only [getAP] at this
    constructor
    · intro hj
      apply Classical.byContradiction
      intro hn
      have := (this.2 hn).1
      simp [hj] at this
    · intro hj
      obtain ⟨el, hel, rfl⟩ := List.mem_map.mp hj
      have := (this.1 el.2 hel).1
      simpa using this
  have hperm : (mkeys m').Perm (elems.map Prod.fst) :=
    (List.perm_ext_iff_of_nodup hinv'.nodup hnd).mpr hmem
  refine ⟨_, hs', ?_, ?_, ?_⟩
  · have hitems := items_eq_map_arrGet hinv' (elems.map Prod.fst) hinc hperm (fresh sub)
    simp only [eraseNode, eraseItems_eq_map, expElems_eq_map]
    congr 1
    rw [hitems, List.map_map, List.map_map]
    apply List.map_congr_left
    intro el hel
    have := ((hq el.1).1 el.2 hel).2.1
    simpa [getAP] using this
  · simp only [hcnt']
    have := hperm.length_eq
    simpa [mkeys] using this
  · intro e he c K hk
    have ho := hown' e he
    simp only [ownedBy, hk, decide_eq_true_eq] at ho
    obtain ⟨ck, j⟩ := c
    simp only at ho
    subst ho
    have hmem' := mem_evsUnder he hk
    have hqj := hq j
    simp only [getAP] at hqj
    by_cases hj : j ∈ elems.map Prod.fst
    · obtain ⟨el, hel, rfl⟩ := List.mem_map.mp hj
      have hd := ((hqj.1 el.2 hel).2.2)
      exact freqDeep_at hd hmem'
    · have := (hqj.2 hj).2
      rw [this] at hmem'
      simp at hmem'


/-! ## the main lemma with increments: any order of the keys of a documented request -/

theorem walkP_fst (F : Facts03) (strict : Bool) (fields : List Fld) (st : PSt) (e : KEntry) :
    omap Prod.fst (walkP F strict fields st e) = walkK strict fields st.1 e := by
  unfold walkP walkK
  rw [← walk_fst F strict fields st.1 e.path e.idxs e.kv.payload]
  cases walk F strict fields st.1 e.path e.idxs e.kv.payload <;> rfl

theorem foldO_walkP_fst (F : Facts03) (strict : Bool) (fields : List Fld) (es : List KEntry) (st : PSt) :
    omap Prod.fst (foldO (walkP F strict fields) st es) = foldO (walkK strict fields) st.1 es := by
  induction es generalizing st with
  | nil => rfl
  | cons e r ih =>
    simp only [foldO_cons, omap_obind]
    have := walkP_fst F strict fields st e
    cases hs : walkP F strict fields st e with
    | ok s1 =>
      rw [hs] at this
      simp only [omap_ok] at this
      simp only [obind_ok, ← this, ih]
    | fault => rw [hs] at this; simp only [omap_fault] at this; simp [← this]
    | crash e' => rw [hs] at this; simp only [omap_crash] at this; simp [← this]

theorem freqOkAt_of_counts {evs : List Ev} {K : FKey} {fields : List Fld}
    (h : ∀ f, f ∈ fields → CountOk f.2.1 (evCount evs K f.1)) : freqOkAt evs K (specOf fields) = true := by
  unfold freqOkAt
  rw [List.all_eq_true]
  intro s hs
  simp only [specOf, List.mem_map] at hs
  obtain ⟨f, hf, rfl⟩ := hs
  obtain ⟨h1, h2⟩ := h f hf
  simp only [Bool.and_eq_true, decide_eq_true_eq]
  refine ⟨h1, ?_⟩
  cases hm : f.2.1.maxOcc with
  | none => rfl
  | some mx => simpa using h2 mx hm

theorem FreqConfAll_mem {fields : List Fld} {ms : Members} (h : FreqConfAll fields ms) {n : Text} {sv : SVal}
    (hm : (n, sv) ∈ ms) : FreqConfVal (subOf fields n) sv := by
  induction ms with
  | nil => simp at hm
  | cons a r ih =>
    obtain ⟨n', sv'⟩ := a
    simp only [FreqConfAll] at h
    rcases List.mem_cons.mp hm with e | hm
    · simp only [Prod.mk.injEq] at e; rw [e.1, e.2]; exact h.1
    · exact ih h.2 hm

theorem FreqConfElems_mem {sub : List Fld} {elems : List (Nat × Members)} (h : FreqConfElems sub elems)
    {i : Nat} {ms : Members} (hm : (i, ms) ∈ elems) : FreqConf sub ms := by
  induction elems with
  | nil => simp at hm
  | cons a r ih =>
    obtain ⟨i', ms'⟩ := a
    simp only [FreqConfElems] at h
    rcases List.mem_cons.mp hm with e | hm
    · simp only [Prod.mk.injEq] at e; rw [e.2]; exact h.1
    · exact ih h.2 hm

theorem walkAllP_lenient (F : Facts03) (hF : F.freqScope = .perMember) :
    ∀ (N : Nat) (fields : List Fld) (ms : Members), msSize ms ≤ N →
    (fields.map Prod.fst).Nodup → WfFields fields → WtMembers F fields ms → FreqConf fields ms →
    ∀ es : List KEntry, es.Perm (kentries fields ms) →
      ∃ st', foldO (walkP F false fields) (freshAttrs fields, []) es = .ok st' ∧ freqOk fields st'.2 = true ∧
        eraseAttrs st'.1 = expAttrs fields ms := by
  intro N
  induction N with
  | zero =>
    intro fields ms hs hnd hwf hwt hfc es hp
    have : ms = [] := by
      cases ms with
      | nil => rfl
      | cons a r => obtain ⟨n, sv⟩ := a; simp [msSize] at hs
    subst this
    simp only [kentries] at hp
    rw [hp.eq_nil]
    refine ⟨(freshAttrs fields, []), rfl, ?_, by simp [expAttrs, expInto, eraseAttrs_fresh]⟩
    rw [freqOk_eq, Bool.and_eq_true]
    refine ⟨freqOkAt_of_counts (fun f hf => ?_), rfl⟩
    have := hfc.1 f hf
    simpa [cnt, evCount_nil] using this
  | succ N ih =>
    intro fields ms hs hnd hwf hwt hfc es hp
    obtain ⟨hmsnd, hvals⟩ := WtMembers_unpack hwt
    have key := foldO_by_key (σ := PSt) (ε := KEntry) (κ := Text) (ν := Node × List Ev)
      getPr (walkP F false fields) KEntry.head (updP F false fields) (fun st => OwnSpec fields st.2) (fun _ => True)
      (fun k v => evCount v.2 [] k = cnt ms k ∧ DeepOk v.2)
      (fun s e v' _ hI h => walkP_law F hF false fields s e v' hI h)
      es (freshAttrs fields, []) (fun _ _ => trivial) (fun _ h => by simp at h)
      (by
        intro k
        simp only [getPr, getAttr_freshAttrs, List.filter_nil]
        have hfil : (es.filter (fun e => e.head = k)).Perm
            ((kentries fields ms).filter (fun e => e.head = k)) := hp.filter _
        rw [kentries_filter_head fields ms hmsnd k] at hfil
        simp only [cnt]
        cases hfind : ms.find? (fun m => m.1 = k) with
        | none =>
          rw [hfind] at hfil
          rw [hfil.eq_nil]
          exact ⟨(.none, []), rfl, rfl, fun e he => by simp at he⟩
        | some m =>
          rw [hfind] at hfil
          obtain ⟨n, sv⟩ := m
          have hmem : (n, sv) ∈ ms := List.mem_of_find?_eq_some hfind
          have hnk : n = k := by simpa using List.find?_some hfind
          subst hnk
          have hwv := hvals n sv hmem
          have hsz := size_lt_of_mem hmem
          have hfv := FreqConfAll_mem hfc.2 hmem
          simp only
          cases sv with
          | leaf v =>
            simp only [kentriesVal] at hfil
            rw [perm_singleton_eq hfil]
            refine ⟨(.leaf v, [⟨[], specOf fields, n, 1⟩]), ?_, ?_, ?_⟩
            · simp [foldO, updP, stepMember, assignNode, KV.payload, Payload.len, KEntry.idxs]
            · simp [cntOf, evCount_cons, evCount_nil]
            · intro e he c K hk
              simp only [List.mem_singleton] at he
              subst he
              simp at hk
          | leaves vs =>
            simp only [kentriesVal] at hfil
            rw [perm_singleton_eq hfil]
            refine ⟨(.leaves vs, [⟨[], specOf fields, n, vs.length⟩]), ?_, ?_, ?_⟩
            · simp [foldO, updP, stepMember, assignNode, KV.payload, Payload.len, KEntry.idxs]
            · simp [cntOf, evCount_cons, evCount_nil]
            · intro e he c K hk
              simp only [List.mem_singleton] at he
              subst he
              simp at hk
          | emptyObj =>
            simp only [kentriesVal] at hfil
            rw [perm_singleton_eq hfil]
            by_cases hT : F.freqTouch = true
            · refine ⟨(fresh (subOf fields n), [⟨[], specOf fields, n, 1⟩,
                ⟨[(n, 0)], specOf (subOf fields n), [], 0⟩]), ?_, ?_, ?_⟩
              · simp [foldO, updP, stepMember, assignNode, KV.payload, Payload.len, KEntry.idxs, memberLabel, hF, hT]
              · simp [cntOf, evCount_cons, evCount_nil]
              · intro e he c K hk
                simp only [List.mem_cons, List.mem_nil_iff, or_false] at he
                rcases he with rfl | rfl
                · simp at hk
                · simp only [List.cons.injEq] at hk
                  obtain ⟨rfl, rfl⟩ := hk
                  simp only
                  apply freqOkAt_of_counts
                  intro f hf
                  have hmin := hfv f hf
                  have hc0 : evCount (evsUnder (n, 0) [(⟨[], specOf fields, n, 1⟩ : Ev),
                      ⟨[(n, 0)], specOf (subOf fields n), [], 0⟩]) [] f.1 = 0 := by
                    simp [evsUnder, evCount_cons, evCount_nil]
                  rw [hc0]
                  exact ⟨by omega, fun _ _ => Nat.zero_le _⟩
            · refine ⟨(fresh (subOf fields n), [⟨[], specOf fields, n, 1⟩]), ?_, ?_, ?_⟩
              · simp [foldO, updP, stepMember, assignNode, KV.payload, Payload.len, KEntry.idxs, hT]
              · simp [cntOf, evCount_cons, evCount_nil]
              · intro e he c K hk
                simp only [List.mem_singleton] at he
                subst he
                simp at hk
          | obj ms' =>
            obtain ⟨occ, cid, sub, hl, hm, hne', hwt'⟩ := hwv
            simp only [kentriesVal, subOf_eq hl] at hfil
            obtain ⟨ys, hys, hyseq⟩ := perm_map_pullback (KEntry.push n none) _ _ hfil
            rw [hyseq]
            have hsegs : ∀ y, y ∈ ys → y.segs ≠ [] :=
              fun y hy => kentries_segs_ne sub ms' y (hys.subset hy)
            have hysne : ys ≠ [] := by
              intro e; subst e
              exact kentries_ne_nil F _ sub ms' (Nat.le_refl _) hwt' hne' hys.symm.eq_nil
            rw [foldO_updP_obj_none F hF false fields n occ cid sub hl hm ys hsegs hysne]
            obtain ⟨hsnd, hswf⟩ := Wf_sub hwf hl
            rw [subOf_eq hl] at hfv
            obtain ⟨st', hc', hfo, _⟩ := ih sub ms' (by simp only [SVal.size] at hsz; omega) hsnd.1 hswf hwt' hfv ys hys
            rw [freqOk_eq, Bool.and_eq_true] at hfo
            refine ⟨_, by rw [hc']; rfl, ?_, ?_⟩
            · simp only [evCount_cons, evCount_under_nil, cntOf]; simp
            · intro e he c K hk
              simp only [List.mem_cons] at he
              rcases he with rfl | he
              · simp at hk
              · obtain ⟨e0, he0, rfl⟩ := List.mem_map.mp he
                simp only [Ev.under, List.cons_append, List.nil_append, List.cons.injEq] at hk
                obtain ⟨rfl, rfl⟩ := hk
                rw [evsUnder_own, evsUnder_under_same]
                exact freqDeep_at hfo.2 he0
          | arr elems =>
            obtain ⟨occ, cid, sub, hl, hm, hinc, hwe⟩ := hwv
            simp only [kentriesVal, subOf_eq hl] at hfil
            by_cases hemp : elems = []
            · subst hemp
              simp only [List.isEmpty_nil, if_true] at hfil
              rw [perm_singleton_eq hfil]
              refine ⟨(.arr [] [], [⟨[], specOf fields, n, 0⟩]), ?_, ?_, ?_⟩
              · simp [foldO, updP, stepMember, assignNode, KV.payload, Payload.len, KEntry.idxs]
              · simp [cntOf, evCount_cons, evCount_nil]
              · intro e he c K hk
                simp only [List.mem_singleton] at he
                subst he
                simp at hk
            · have hise : elems.isEmpty = false := by
                cases elems with
                | nil => exact absurd rfl hemp
                | cons _ _ => rfl
              simp only [hise, Bool.false_eq_true, if_false] at hfil
              obtain ⟨hsnd, hswf⟩ := Wf_sub hwf hl
              have hel := WtElems_unpack hwe
              rw [subOf_eq hl] at hfv
              obtain ⟨v, hv, _, hcnt, hdeep⟩ := arr_member_foldP F hF fields n occ cid sub hl hm elems hemp hinc
                (fun i ms' y h1 h2 => kentries_segs_ne sub ms' y h2)
                (fun i ms' h1 => kentries_ne_nil F _ sub ms' (Nat.le_refl _) (hel i ms' h1).2 (hel i ms' h1).1)
                (fun i ms' h1 ys hys => by
                  have := elSize_lt_of_mem h1
                  obtain ⟨st', h1', h2', h3'⟩ := ih sub ms' (by simp only [SVal.size] at hsz; omega) hsnd.1 hswf
                    (hel i ms' h1).2 (FreqConfElems_mem hfv h1) ys hys
                  rw [freqOk_eq, Bool.and_eq_true] at h2'
                  exact ⟨st', h1', h3', h2'.2⟩)
                _ hfil
              exact ⟨v, hv, by simpa [cntOf] using hcnt, hdeep⟩)
    obtain ⟨st', hfold, hown, hq⟩ := key
    refine ⟨st', hfold, ?_, ?_⟩
    case refine_2 =>
      -- the object graph: the walk without increments
      obtain ⟨a', ha', hae⟩ := walkAll_lenient F _ fields ms (Nat.le_refl _) hnd hwf hwt es hp
      have := foldO_walkP_fst F false fields es (freshAttrs fields, [])
      rw [hfold, ha'] at this
      simp only [omap_ok, Outcome.ok.injEq] at this
      rw [this]; exact hae
    rw [freqOk_eq, Bool.and_eq_true]
    have hroot : freqOkAt st'.2 [] (specOf fields) = true := by
      apply freqOkAt_of_counts
      intro f hf
      have := (hq f.1).1
      simp only [getPr, evCount_filter_owned] at this
      rw [this]
      exact hfc.1 f hf
    refine ⟨hroot, ?_⟩
    unfold freqDeep
    rw [List.all_eq_true]
    intro e he
    cases hk : e.key with
    | nil => rw [hown e he hk]; exact hroot
    | cons c K =>
      obtain ⟨ck, ci⟩ := c
      have hmem : e ∈ (getPr st' ck).2 := by
        simp only [getPr, List.mem_filter]
        exact ⟨he, by simp [ownedBy, hk]⟩
      have := (hq ck).2 e hmem (ck, ci) K hk
      simp only [getPr, evsUnder_filter_owned] at this
      rw [freqOkAt_child]
      exact this


/-! ## the decoder with soft validation on a documented request, pairs in any order -/

theorem stepKey_render (F : Facts03) (L : LeafLaws F.leaf) (strict soft : Bool) (fields : List Fld) (delim : Text)
    (hk : KeysOk delim fields) (ke : KEntry) (occ : Occ) (ty : Ty)
    (hm : memberAt fields ke.path = some (occ, ty)) (hkv : KVOk F occ ty ke.kv)
    (hnb : ∀ s, s ∈ ke.segs → ∀ c, c ∈ s.1 → c ≠ '[') (st : PSt) :
    stepKey F ⟨strict, soft, delim⟩ fields (stiFields delim [] fields) st (renderKey delim ke.segs, ke.kv.texts F) =
      walkP F strict fields st ke := by
  have hd : ∀ c, c ∈ delim → c ≠ '[' := fun c hc e => hk.2 (e ▸ hc)
  have hget : stiGet (stiFields delim [] fields) (stripIdx (renderKey delim ke.segs)) =
      some (memOf ke.path occ ty) := by
    rw [stripIdx_renderKey delim ke.segs hd hnb]
    have := sti_mem delim ke.path [] fields occ ty hm
    simp only [List.nil_append] at this
    exact stiGet_of_mem hk.1 this
  unfold stepKey
  simp only [hget, findIdx_renderKey delim ke.segs hd hnb]
  obtain ⟨segs, kv⟩ := ke
  cases ty with
  | prim p =>
    cases kv with
    | prims p' many vs =>
      obtain ⟨h0, h1, h2⟩ := hkv
      subst h0
      simp only [memOf, KV.texts, toNative_texts F L soft occ.nillable p' vs h2, obind_ok, h1]
      rfl
    | emptyArr => exact absurd hkv (by simp [KVOk])
    | emptyObj sub => exact absurd hkv (by simp [KVOk])
  | obj cid sub' =>
    cases kv with
    | prims p' many vs => exact absurd hkv (by simp [KVOk])
    | emptyArr =>
      simp only [KVOk] at hkv
      simp only [memOf, KV.texts, if_true, hkv]
      rfl
    | emptyObj sub =>
      obtain ⟨h1, h2⟩ := hkv
      subst h2
      simp only [memOf, KV.texts, if_true, h1, Bool.false_eq_true, if_false]
      rfl

/-- (⇐) for the flat decoder: the documented flat notation of a value that respects the
    occurrence constraints, pairs in any order, is accepted under soft validation and decodes to
    the value -/
theorem decode_documented_soft_lenient (F : Facts03) (L : LeafLaws F.leaf) (hF : F.freqScope = .perMember)
    (delim : Text) (fields : List Fld) (ms : Members) (doc : Doc)
    (htag : (F.tagScope = .perRequestClass && hasDup (cidsFields fields)) = false)
    (hwf : WfSig fields) (hkeys : KeysOk delim fields) (hwt : WtMembers F fields ms) (hfc : FreqConf fields ms)
    (hp : doc.Perm (docOf F delim fields ms)) :
    decode F ⟨false, true, delim⟩ fields doc = .ok (.obj (expAttrs fields ms)) := by
  unfold decode
  simp only [htag, Bool.false_eq_true, if_false]
  have hperm : (sortDoc F doc).Perm (docOf F delim fields ms) := (sortBy_perm _ doc).trans hp
  obtain ⟨ys, hys, hyseq⟩ := perm_map_pullback _ _ _ hperm
  rw [hyseq, foldO_map]
  have hcongr := foldO_congr
    (fun s (a : KEntry) => stepKey F ⟨false, true, delim⟩ fields (stiFields delim [] fields) s
      (renderKey delim a.segs, a.kv.texts F))
    (walkP F false fields) ys (by
      intro s a ha
      obtain ⟨occ, ty, h1, h2, h3⟩ := kentries_valid F _ fields ms (Nat.le_refl _) hwf.1 hwf.2 hwt a (hys.subset ha)
      exact stepKey_render F L false true fields delim hkeys a occ ty h1 h2 h3 s)
    (freshAttrs fields, [])
  rw [hcongr]
  obtain ⟨st', h1, h2, h3⟩ := walkAllP_lenient F hF _ fields ms (Nat.le_refl _) hwf.1.1 hwf.2 hwt hfc ys hys
  rw [h1, obind_ok]
  simp [h2, h3]

end SpyneModel.Flat
