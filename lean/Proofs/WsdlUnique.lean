/- C07: no definition occurs twice (messages, portTypes, bindings, services, ports, schemas, types, elements). -/
import Proofs.WsdlFinal
namespace SpyneModel.Wsdl
open SpyneModel

theorem nodup_append_singleton {α : Type} (l : List α) (x : α) (h : l.Nodup) (hx : x ∉ l) : (l ++ [x]).Nodup := by
  rw [List.nodup_append]
  refine ⟨h, by simp, ?_⟩
  intro a ha b hb
  simp only [List.mem_singleton] at hb
  subst hb
  intro hab; subst hab; exact hx ha

theorem map_eq_self {α : Type} (l : List α) (f : α → α) (h : ∀ a, f a = a) : l.map f = l := by
  induction l with
  | nil => rfl
  | cons x xs ih => simp [h x, ih]

/-! ## messages -/

theorem addMessage_nodup (I : IState) (objs : List Nat) (n : String) (a : MAcc) (h : (mnames a).Nodup) :
    (mnames (addMessage I objs n a)).Nodup := by
  unfold addMessage
  split
  · exact h
  · rename_i hc
    simp only [mnames, List.map_append, List.map_cons, List.map_nil]
    exact nodup_append_singleton _ _ h (by simpa [mnames] using hc)

theorem reqLoop_nodup (I : IState) (rs : List (String × List Nat)) (a : MAcc) (h : (mnames a).Nodup) :
    (mnames (reqLoop I rs a)).Nodup := by
  induction rs generalizing a with
  | nil => exact h
  | cons r rs ih => simp only [reqLoop, List.foldl_cons]; exact ih _ (addMessage_nodup I _ _ a h)

/-- one set of emitted names for the whole document: every `wsdl:message` name occurs once -/
theorem messages_nodup (I : IState) : ((messagesOf I).1.map (·.name)).Nodup := by
  have : messagesOf I = reqLoop I I.requests ([], []) := messagesLoop_eq I (allMethods I) ([], [])
  rw [this]
  exact reqLoop_nodup I _ _ List.nodup_nil

/-! ## portTypes -/

theorem ensurePortType_nodup (x : String) (pts : List PortType) (h : (ptNames pts).Nodup) :
    (ptNames (ensurePortType x pts)).Nodup := by
  rw [ptNames_ensure]
  split
  · exact h
  · rename_i hc
    exact nodup_append_singleton _ _ h (by simpa using hc)

theorem ensureAll_nodup (names : List String) (pts : List PortType) (h : (ptNames pts).Nodup) :
    (ptNames (ensureAll names pts)).Nodup := by
  unfold ensureAll
  induction names generalizing pts with
  | nil => exact h
  | cons n ns ih => simp only [List.foldl_cons]; exact ih _ (ensurePortType_nodup n pts h)

theorem portTypesLoop_nodup (F : Facts07) (I : IState) (url : String) (ss : List Svc) (st : PtSt)
    (h : (ptNames st.portTypes).Nodup) : (ptNames (portTypesLoop F I url ss st).portTypes).Nodup := by
  induction ss generalizing st with
  | nil => exact h
  | cons s ss ih =>
    simp only [portTypesLoop]
    apply ih
    simp only [addPortType]
    rw [ptNames_opsLoop]
    exact ensureAll_nodup _ _ h

/-! ## services and their ports -/

def svNames (svcs : List Service) : List String := svcs.map (·.name)

theorem svNames_addPorts (n : String) (ps : List Port) (svcs : List Service) : svNames (addPorts n ps svcs) = svNames svcs := by
  induction svcs with
  | nil => rfl
  | cons sv r ih =>
    simp only [addPorts]
    split
    · simp [svNames]
    · simp only [svNames, List.map_cons] at ih ⊢
      rw [ih]

theorem servicesInit_nodup (I : IState) : (svNames (servicesInit I)).Nodup := by
  unfold servicesInit
  suffices h : ∀ (ss : List Svc) (acc : List Service), (svNames acc).Nodup →
      (svNames (ss.foldl (fun acc s => ensureService s.name acc) acc)).Nodup from h _ _ List.nodup_nil
  intro ss
  induction ss with
  | nil => intro acc h; exact h
  | cons s ss ih =>
    intro acc h
    simp only [List.foldl_cons]
    apply ih
    unfold ensureService
    split
    · exact h
    · rename_i hc
      simp only [svNames, List.map_append, List.map_cons, List.map_nil]
      exact nodup_append_singleton _ _ h (by simpa [svNames] using hc)

theorem services_names_portTypesLoop (F : Facts07) (I : IState) (url : String) (ss : List Svc) (st : PtSt) :
    svNames (portTypesLoop F I url ss st).services = svNames st.services := by
  induction ss generalizing st with
  | nil => rfl
  | cons s ss ih =>
    simp only [portTypesLoop]
    rw [ih]
    simp only [addPortType]
    exact svNames_addPorts _ _ _

/-- ports of every service have distinct names; services that still wait for their ports have none -/
def PortsInv (rest : List Svc) (svcs : List Service) : Prop :=
  ∀ sv ∈ svcs, (sv.ports.map (·.name)).Nodup ∧ (sv.name ∈ rest.map (·.name) → sv.ports = [])

theorem portsOf_names (tns url : String) (names : List String) : (portsOf tns url names).map (·.name) = names := by
  simp only [portsOf, List.map_map]
  exact map_eq_self _ _ (fun _ => rfl)

theorem portsInv_addPorts (s : Svc) (rest : List Svc) (tns url : String) (names : List String) (hn : names.Nodup)
    (hs : s.name ∉ rest.map (·.name)) (svcs : List Service) (h : PortsInv (s :: rest) svcs) :
    PortsInv rest (addPorts s.name (portsOf tns url names) svcs) := by
  induction svcs with
  | nil => intro sv hsv; cases hsv
  | cons sv r ih =>
    have hr : PortsInv (s :: rest) r := fun q hq => h q (List.mem_cons_of_mem _ hq)
    have hsv := h sv List.mem_cons_self
    simp only [addPorts]
    split
    · rename_i heq
      intro q hq
      rcases List.mem_cons.mp hq with rfl | hq
      · have he : sv.ports = [] := hsv.2 (by simp [heq])
        simp only [he, List.nil_append, portsOf_names]
        exact ⟨hn, fun hc => absurd (heq ▸ hc) hs⟩
      · obtain ⟨h1, h2⟩ := hr q hq
        exact ⟨h1, fun hc => h2 (List.mem_cons_of_mem _ hc)⟩
    · intro q hq
      rcases List.mem_cons.mp hq with rfl | hq
      · exact ⟨hsv.1, fun hc => hsv.2 (List.mem_cons_of_mem _ hc)⟩
      · exact ih hr q hq

theorem portNames_nodup (I : IState) (s : Svc) (h : s.portTypes.Nodup) : (portNames I.name s).Nodup := by
  unfold portNames
  split
  · simp
  · exact h

theorem portsInv_portTypesLoop (F : Facts07) (I : IState) (url : String) (ss : List Svc)
    (hnd : (ss.map (·.name)).Nodup) (hpt : ∀ s ∈ ss, s.portTypes.Nodup) (st : PtSt) (h : PortsInv ss st.services) :
    PortsInv [] (portTypesLoop F I url ss st).services := by
  induction ss generalizing st with
  | nil => exact h
  | cons s ss ih =>
    simp only [List.map_cons, List.nodup_cons] at hnd
    simp only [portTypesLoop]
    apply ih hnd.2 (fun s' hs' => hpt s' (List.mem_cons_of_mem _ hs'))
    simp only [addPortType]
    exact portsInv_addPorts s ss I.tns url _ (portNames_nodup I s (hpt s List.mem_cons_self)) hnd.1 _ h

theorem portsInv_init (I : IState) : PortsInv I.services (servicesInit I) := by
  have := portsFrom_servicesInit I
  -- every service node starts without ports
  unfold servicesInit
  suffices h : ∀ (ss : List Svc) (acc : List Service), (∀ sv ∈ acc, sv.ports = []) →
      ∀ sv ∈ ss.foldl (fun acc s => ensureService s.name acc) acc, sv.ports = [] by
    intro sv hsv
    have he := h I.services [] (fun sv hsv => by cases hsv) sv hsv
    exact ⟨by simp [he], fun _ => he⟩
  intro ss
  induction ss with
  | nil => intro acc h; exact h
  | cons s ss ih =>
    intro acc h
    simp only [List.foldl_cons]
    apply ih
    unfold ensureService
    split
    · exact h
    · intro sv hsv
      rcases List.mem_append.mp hsv with hsv | hsv
      · exact h sv hsv
      · simp only [List.mem_singleton] at hsv
        subst hsv; rfl

/-! ## bindings -/

/-- the names still to come are new, and the shared default binding is made once -/
structure BInv (I : IState) (rest : List Svc) (st : BSt) : Prop where
  nodup : (bNames st.bindings).Nodup
  dflt : st.cb = false → I.name ∉ bNames st.bindings
  fresh : ∀ p ∈ rest.flatMap (·.portTypes), p ∉ bNames st.bindings

theorem bInv_addBindings (F : Facts07) (I : IState) (s : Svc) (rest : List Svc) (st : BSt)
    (hnd : ((s :: rest).flatMap (·.portTypes)).Nodup) (hname : I.name ∉ (s :: rest).flatMap (·.portTypes))
    (h : BInv I (s :: rest) st) : BInv I rest (addBindings F I s st) := by
  simp only [List.flatMap_cons] at hnd hname
  have hnd' := List.nodup_append.mp hnd
  unfold addBindings
  by_cases he : s.portTypes.isEmpty = true
  · simp only [he, if_true]
    by_cases hc : st.cb = true
    · simp only [hc, if_true]
      refine ⟨by rw [bNames_appendBOps]; exact h.nodup, (fun hf => by cases hf), ?_⟩
      intro p hp
      rw [bNames_appendBOps]
      exact h.fresh p (by simp only [List.flatMap_cons]; exact List.mem_append_right _ hp)
    · have hc' : st.cb = false := by simpa using hc
      simp only [hc, Bool.false_eq_true, if_false]
      refine ⟨?_, (fun hf => by cases hf), ?_⟩
      · rw [bNames_appendBOps]
        simp only [bNames, List.map_append, List.map_cons, List.map_nil]
        exact nodup_append_singleton _ _ h.nodup (h.dflt hc')
      · intro p hp
        rw [bNames_appendBOps]
        simp only [bNames, List.map_append, List.map_cons, List.map_nil, List.mem_append, List.mem_singleton, not_or]
        refine ⟨h.fresh p (by simp only [List.flatMap_cons]; exact List.mem_append_right _ hp), ?_⟩
        intro hpe
        exact hname (List.mem_append_right _ (hpe ▸ hp))
  · have he' : s.portTypes.isEmpty = false := by simpa using he
    simp only [he', Bool.false_eq_true, if_false]
    have hnames : bNames (st.bindings ++ s.portTypes.map (fun n =>
        (⟨n, ⟨I.tns, n⟩, I.transport, I.inSoap12, (s.methods.filter (fun m => m.portType = some n)).map (mkBOp F I)⟩ : Binding))) =
        bNames st.bindings ++ s.portTypes := by
      simp only [bNames, List.map_append, List.map_map]
      congr 1
      exact map_eq_self _ _ (fun _ => rfl)
    refine ⟨?_, ?_, ?_⟩
    · rw [hnames, List.nodup_append]
      refine ⟨h.nodup, hnd'.1, ?_⟩
      intro a ha b hb hab
      subst hab
      exact h.fresh a (by simp only [List.flatMap_cons]; exact List.mem_append_left _ hb) ha
    · intro hc
      rw [hnames]
      simp only [List.mem_append, not_or]
      exact ⟨h.dflt hc, fun hm => hname (List.mem_append_left _ hm)⟩
    · intro p hp
      rw [hnames]
      simp only [List.mem_append, not_or]
      refine ⟨h.fresh p (by simp only [List.flatMap_cons]; exact List.mem_append_right _ hp), ?_⟩
      intro hps
      exact hnd'.2.2 p hps p hp rfl

theorem bInv_bindingsLoop (F : Facts07) (I : IState) (ss : List Svc) (st : BSt)
    (hnd : (ss.flatMap (·.portTypes)).Nodup) (hname : I.name ∉ ss.flatMap (·.portTypes)) (h : BInv I ss st) :
    (bNames (bindingsLoop F I ss st).bindings).Nodup := by
  induction ss generalizing st with
  | nil => exact h.nodup
  | cons s ss ih =>
    simp only [bindingsLoop]
    have h' := bInv_addBindings F I s ss st hnd hname h
    simp only [List.flatMap_cons] at hnd hname
    exact ih _ (List.nodup_append.mp hnd).2.1 (fun hm => hname (List.mem_append_right _ hm)) h'

/-- **no definition occurs twice**: messages, portTypes, bindings, services, the ports of a service, schemas per
    namespace, types and elements per schema -/
theorem definitions_unique_general (F : Facts07) (hM : F.messageDedup = .perDocument) (e : Enum) (he : e.Valid)
    (I : IState) (url : String) (d : Doc) (h : gen F e I url = .ok d) (hwf : I.wf = true) (hops : I.wfOps = true) :
    d.wellDefined = true := by
  obtain ⟨schemas, tr, hb, rfl⟩ := gen_ok F hM e I url d h
  have hw := wf_unpack I hwf
  obtain ⟨_, hok, hpt, hname, hsn⟩ := wfOps_unpack I hops
  obtain ⟨tags, trace, hf, _⟩ := schemaFacts_of_build F e he I hw schemas tr hb
  simp only [Doc.wellDefined, Bool.and_eq_true, decide_eq_true_eq, List.all_eq_true]
  refine ⟨⟨⟨⟨⟨⟨?_, ?_⟩, ?_⟩, ?_⟩, ?_⟩, ?_⟩, ?_⟩
  · exact messages_nodup I
  · exact portTypesLoop_nodup F I _ I.services _ List.nodup_nil
  · exact bInv_bindingsLoop F I I.services ⟨[], false, []⟩ hpt hname
      ⟨List.nodup_nil, fun _ => by simp [bNames], fun p _ => by simp [bNames]⟩
  · have := services_names_portTypesLoop F I (stripWsdl url) I.services ⟨[], servicesInit I, []⟩
    simp only [portTypesOf]
    have h2 := servicesInit_nodup I
    simp only [svNames] at this h2
    rw [this]
    exact h2
  · intro sv hsv
    have := portsInv_portTypesLoop F I (stripWsdl url) I.services hsn (fun s hs => (hok s hs).1)
      ⟨[], servicesInit I, []⟩ (portsInv_init I)
    exact (this sv hsv).1
  · exact hf.uniqTns
  · intro s hs
    exact ⟨hf.uniqTypes s hs, hf.uniqElems s hs⟩

end SpyneModel.Wsdl
