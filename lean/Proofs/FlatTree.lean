/-
  C03 helper lemmas, part 3: the object graph without the frequency bookkeeping.

  `stepMember` / `walk` / `stepKey` return the new graph together with the frequency increments of
  soft validation. The increments never influence the graph; `stepMemberT` … are the same functions
  with the increments dropped, and the lemmas below say so. All structural proofs are about the
  `…T` versions.
-/
import Proofs.FlatBasic
namespace SpyneModel.Flat
open SpyneModel

def omap {α β : Type} (f : α → β) (o : Outcome α) : Outcome β := obind o fun a => .ok (f a)

@[simp] theorem omap_ok {α β : Type} (f : α → β) (a : α) : omap f (.ok a) = .ok (f a) := rfl
@[simp] theorem omap_fault {α β : Type} (f : α → β) : omap f (.fault : Outcome α) = .fault := rfl
@[simp] theorem omap_crash {α β : Type} (f : α → β) (e : String) : omap f (.crash e : Outcome α) = .crash e := rfl

theorem omap_obind {α β γ : Type} (f : β → γ) (o : Outcome α) (g : α → Outcome β) :
    omap f (obind o g) = obind o fun a => omap f (g a) := by
  cases o <;> rfl

def dummyEv : Ev := ⟨[], [], [], 0⟩

/-- `strictSlot` without the increments -/
def strictSlotT (sub : List Fld) (items : List Node) (nidx : Nat) : Outcome (List Node) :=
  let s0 : List Node := if items.isEmpty then [fresh sub] else items
  if nidx > s0.length then .fault
  else if nidx = s0.length then .ok (s0 ++ [fresh sub])
  else .ok s0

theorem strictSlot_fst (sub : List Fld) (ev : Ev) (touch : Nat → List Ev) (items : List Node) (nidx : Nat) :
    omap Prod.fst (strictSlot sub ev touch items nidx) = strictSlotT sub items nidx := by
  unfold strictSlot strictSlotT
  by_cases h : items.isEmpty
  · simp only [h, if_true]
    by_cases h1 : nidx > [fresh sub].length
    · simp only [h1, if_true]; rfl
    · by_cases h2 : nidx = [fresh sub].length
      · subst h2; simp [omap]
      · simp only [h1, h2, if_false]; rfl
  · simp only [h, Bool.false_eq_true, if_false]
    by_cases h1 : nidx > items.length
    · simp only [h1, if_true]; rfl
    · by_cases h2 : nidx = items.length
      · subst h2; simp [omap]
      · simp only [h1, h2, if_false]; rfl

/-- `lenientSlot` without the increments: position, idxmap, list -/
def lenientSlotT (sub : List Fld) (m : List (Nat × Nat)) (items : List Node) (nidx : Nat) :
    Nat × List (Nat × Nat) × List Node :=
  match mapGet m nidx with
  | some cidx => (cidx, m, items)
  | none => ((s2cmi m nidx).1, (s2cmi m nidx).2, pyInsert items (s2cmi m nidx).1 (fresh sub))

theorem lenientSlot_fst (sub : List Fld) (ev : Ev) (m : List (Nat × Nat)) (items : List Node) (nidx : Nat) :
    ((lenientSlot sub ev m items nidx).1, (lenientSlot sub ev m items nidx).2.1,
      (lenientSlot sub ev m items nidx).2.2.1) = lenientSlotT sub m items nidx := by
  unfold lenientSlot lenientSlotT
  cases mapGet m nidx <;> rfl

/-- `stepMember` without the increments -/
def stepMemberT (strict : Bool) :
    List Fld → Node → Text → List Text → List Nat → Payload → Outcome Node
  | _, cur, _, [], _, pl => assignNode cur pl
  | fields, cur, p, q :: rest, idxs, pl =>
    match lookupFld fields p with
    | none => .crash "KeyError"
    | some (_, _, .prim _) => .crash "AttributeError"
    | some (_, occ, .obj _ sub) =>
      if occ.many then
        let ni := popIdx idxs
        let lst : Option (List (Nat × Nat) × List Node) :=
          match cur with
          | .none => some ([], [])
          | .arr m items => some (m, items)
          | _ => none
        match lst with
        | none => .crash "unmodelled"
        | some (m, items) =>
          let slot : Outcome (Nat × List (Nat × Nat) × List Node) :=
            if strict then
              obind (strictSlotT sub items ni.1) fun s => .ok (ni.1, m, s)
            else .ok (lenientSlotT sub m items ni.1)
          obind slot fun sl =>
            match sl.2.2[sl.1]? with
            | some (.obj child) =>
              obind (stepMemberT strict sub (getAttr child q) q rest ni.2 pl) fun r =>
                .ok (.arr sl.2.1 (setAt sl.2.2 sl.1 (.obj (setAttr child q r))))
            | _ => .crash "IndexError"
      else
        let inst : Option Attrs :=
          match cur with
          | .none => some (freshAttrs sub)
          | .obj c => some c
          | _ => none
        match inst with
        | none => .crash "unmodelled"
        | some child =>
          obind (stepMemberT strict sub (getAttr child q) q rest idxs pl) fun r =>
            .ok (.obj (setAttr child q r))

theorem stepMember_fst (F : Facts03) (strict : Bool) (fields : List Fld) (cur : Node)
    (p : Text) (rest : List Text) (idxs : List Nat) (pl : Payload) :
    omap Prod.fst (stepMember F strict fields cur p rest idxs pl) =
      stepMemberT strict fields cur p rest idxs pl := by
  induction rest generalizing fields cur p idxs with
  | nil =>
    simp only [stepMember, stepMemberT]
    cases assignNode cur pl <;> rfl
  | cons q rest ih =>
    simp only [stepMember, stepMemberT]
    cases hl : lookupFld fields p with
    | none => rfl
    | some f =>
      obtain ⟨n, occ, t⟩ := f
      cases t with
      | prim pk => rfl
      | obj cid sub =>
        simp only
        by_cases hm : occ.many
        · simp only [hm, if_true]
          -- the list the member holds
          cases cur with
          | none =>
            simp only
            by_cases hs : strict
            · subst hs
              simp only [if_true]
              generalize htouch : (fun i => if F.freqTouch = true then
                  [(⟨[((match F.freqScope with | .perMember => p | .perClass => natText cid), i)], specOf sub, [], 0⟩ : Ev)]
                else []) = touch
              have hss := strictSlot_fst sub ⟨[], specOf fields, p, 1⟩ touch [] (popIdx idxs).1
              cases hsl : strictSlot sub ⟨[], specOf fields, p, 1⟩ touch [] (popIdx idxs).1 with
              | ok s =>
                rw [hsl] at hss
                simp only [omap_ok] at hss
                simp only [← hss, obind_ok]
                cases hitem : s.1[(popIdx idxs).1]? with
                | none => rfl
                | some nd =>
                  cases nd with
                  | obj child =>
                    simp only
                    rw [omap_obind, ← ih]
                    cases stepMember F true sub (getAttr child q) q rest (popIdx idxs).2 pl <;> rfl
                  | none => rfl
                  | leaf _ => rfl
                  | leaves _ => rfl
                  | arr _ _ => rfl
              | fault => rw [hsl] at hss; simp only [omap_fault] at hss; simp [← hss]
              | crash e => rw [hsl] at hss; simp only [omap_crash] at hss; simp [← hss]
            · have hs' : strict = false := by simpa using hs
              subst hs'
              simp only [Bool.false_eq_true, if_false, obind_ok]
              have hls := lenientSlot_fst sub ⟨[], specOf fields, p, 1⟩ [] [] (popIdx idxs).1
              simp only [← hls]
              cases hitem : (lenientSlot sub ⟨[], specOf fields, p, 1⟩ [] [] (popIdx idxs).1).2.2.1[(lenientSlot sub ⟨[], specOf fields, p, 1⟩ [] [] (popIdx idxs).1).1]? with
              | none => rfl
              | some nd =>
                cases nd with
                | obj child =>
                  simp only
                  rw [omap_obind, ← ih]
                  cases stepMember F false sub (getAttr child q) q rest (popIdx idxs).2 pl <;> rfl
                | none => rfl
                | leaf _ => rfl
                | leaves _ => rfl
                | arr _ _ => rfl
          | arr m items =>
            simp only
            by_cases hs : strict
            · subst hs
              simp only [if_true]
              generalize htouch : (fun i => if F.freqTouch = true then
                  [(⟨[((match F.freqScope with | .perMember => p | .perClass => natText cid), i)], specOf sub, [], 0⟩ : Ev)]
                else []) = touch
              have hss := strictSlot_fst sub ⟨[], specOf fields, p, 1⟩ touch items (popIdx idxs).1
              cases hsl : strictSlot sub ⟨[], specOf fields, p, 1⟩ touch items (popIdx idxs).1 with
              | ok s =>
                rw [hsl] at hss
                simp only [omap_ok] at hss
                simp only [← hss, obind_ok]
                cases hitem : s.1[(popIdx idxs).1]? with
                | none => rfl
                | some nd =>
                  cases nd with
                  | obj child =>
                    simp only
                    rw [omap_obind, ← ih]
                    cases stepMember F true sub (getAttr child q) q rest (popIdx idxs).2 pl <;> rfl
                  | none => rfl
                  | leaf _ => rfl
                  | leaves _ => rfl
                  | arr _ _ => rfl
              | fault => rw [hsl] at hss; simp only [omap_fault] at hss; simp [← hss]
              | crash e => rw [hsl] at hss; simp only [omap_crash] at hss; simp [← hss]
            · have hs' : strict = false := by simpa using hs
              subst hs'
              simp only [Bool.false_eq_true, if_false, obind_ok]
              have hls := lenientSlot_fst sub ⟨[], specOf fields, p, 1⟩ m items (popIdx idxs).1
              simp only [← hls]
              cases hitem : (lenientSlot sub ⟨[], specOf fields, p, 1⟩ m items (popIdx idxs).1).2.2.1[(lenientSlot sub ⟨[], specOf fields, p, 1⟩ m items (popIdx idxs).1).1]? with
              | none => rfl
              | some nd =>
                cases nd with
                | obj child =>
                  simp only
                  rw [omap_obind, ← ih]
                  cases stepMember F false sub (getAttr child q) q rest (popIdx idxs).2 pl <;> rfl
                | none => rfl
                | leaf _ => rfl
                | leaves _ => rfl
                | arr _ _ => rfl
          | leaf _ => rfl
          | leaves _ => rfl
          | obj _ => rfl
        · simp only [hm, Bool.false_eq_true, if_false]
          cases cur with
          | none =>
            simp only
            rw [omap_obind, ← ih]
            cases stepMember F strict sub (getAttr (freshAttrs sub) q) q rest idxs pl <;> rfl
          | obj c =>
            simp only
            rw [omap_obind, ← ih]
            cases stepMember F strict sub (getAttr c q) q rest idxs pl <;> rfl
          | leaf _ => rfl
          | leaves _ => rfl
          | arr _ _ => rfl

/-- `walk` without the increments -/
def walkT (strict : Bool) (fields : List Fld) (attrs : Attrs) (path : List Text) (idxs : List Nat)
    (pl : Payload) : Outcome Attrs :=
  match path with
  | [] => .crash "IndexError"
  | p :: rest =>
    obind (stepMemberT strict fields (getAttr attrs p) p rest idxs pl) fun r => .ok (setAttr attrs p r)

theorem walk_fst (F : Facts03) (strict : Bool) (fields : List Fld) (attrs : Attrs)
    (path : List Text) (idxs : List Nat) (pl : Payload) :
    omap Prod.fst (walk F strict fields attrs path idxs pl) = walkT strict fields attrs path idxs pl := by
  cases path with
  | nil => rfl
  | cons p rest =>
    simp only [walk, walkT, omap_obind, ← stepMember_fst F strict fields (getAttr attrs p) p rest idxs pl]
    cases stepMember F strict fields (getAttr attrs p) p rest idxs pl <;> rfl

/-- `stepKey` without the increments -/
def stepKeyT (F : Facts03) (strict soft : Bool) (fields : List Fld) (table : List (Text × Member))
    (attrs : Attrs) (kv : Text × List (Option Text)) : Outcome Attrs :=
  match stiGet table (stripIdx kv.1) with
  | none => .ok attrs
  | some mem =>
    match mem.prim with
    | none =>
      if kv.2 = [some F.emptyMarker] then
        walkT strict fields attrs mem.path (findIdx kv.1)
          (if mem.many then Payload.emptyArr else Payload.emptyObj mem.fields)
      else .ok attrs
    | some p =>
      obind (toNative F soft mem.nillable p kv.2) fun vs =>
        walkT strict fields attrs mem.path (findIdx kv.1) (.prims mem.many vs)

theorem stepKey_fst (F : Facts03) (cfg : Cfg) (fields : List Fld) (table : List (Text × Member))
    (st : Attrs × List Ev) (kv : Text × List (Option Text)) :
    omap Prod.fst (stepKey F cfg fields table st kv) = stepKeyT F cfg.strict cfg.soft fields table st.1 kv := by
  unfold stepKey stepKeyT
  cases stiGet table (stripIdx kv.1) with
  | none => rfl
  | some mem =>
    simp only
    cases mem.prim with
    | none =>
      simp only
      split
      · rw [omap_obind, ← walk_fst F cfg.strict fields st.1]
        cases walk F cfg.strict fields st.1 mem.path (findIdx kv.1) _ <;> rfl
      · rfl
    | some p =>
      simp only [omap_obind]
      cases toNative F cfg.soft mem.nillable p kv.2 with
      | ok vs =>
        simp only [obind_ok]
        rw [← walk_fst F cfg.strict fields st.1]
        cases walk F cfg.strict fields st.1 mem.path (findIdx kv.1) _ <;> rfl
      | fault => rfl
      | crash e => rfl

theorem foldO_stepKey_fst (F : Facts03) (cfg : Cfg) (fields : List Fld) (table : List (Text × Member))
    (doc : Doc) (st : Attrs × List Ev) :
    omap Prod.fst (foldO (stepKey F cfg fields table) st doc) =
      foldO (stepKeyT F cfg.strict cfg.soft fields table) st.1 doc := by
  induction doc generalizing st with
  | nil => rfl
  | cons kv r ih =>
    simp only [foldO_cons, omap_obind]
    have := stepKey_fst F cfg fields table st kv
    cases hs : stepKey F cfg fields table st kv with
    | ok s1 =>
      rw [hs] at this
      simp only [omap_ok] at this
      simp only [obind_ok, ← this, ih]
    | fault => rw [hs] at this; simp only [omap_fault] at this; simp [← this]
    | crash e => rw [hs] at this; simp only [omap_crash] at this; simp [← this]

/-- without soft validation `decode` is the fold of the increment-free steps -/
theorem decode_eq_T (F : Facts03) (cfg : Cfg) (fields : List Fld) (doc : Doc)
    (hsoft : cfg.soft = false)
    (htag : (F.tagScope = .perRequestClass && hasDup (cidsFields fields)) = false) :
    decode F cfg fields doc =
      omap (fun a => Node.obj (eraseAttrs a))
        (foldO (stepKeyT F cfg.strict false fields (stiFields cfg.delim [] fields)) (freshAttrs fields) (sortDoc F doc)) := by
  unfold decode
  simp only [htag, Bool.false_eq_true, if_false, hsoft, Bool.false_and]
  have h := foldO_stepKey_fst F cfg fields (stiFields cfg.delim [] fields) (sortDoc F doc) (freshAttrs fields, [])
  rw [hsoft] at h
  rw [← h]
  cases foldO (stepKey F cfg fields (stiFields cfg.delim [] fields)) (freshAttrs fields, []) (sortDoc F doc) <;> rfl

end SpyneModel.Flat
