/-
  Lemmas about the C17 model (SpyneModel/XmlParserCfg.lean), general in the libxml2 constants
  `L : Lib` and in the facts `F : Facts17`.
-/
import SpyneModel.XmlParserCfg
namespace SpyneModel.XmlCfg
open SpyneModel

/-! ## configuration -/

theorem parserKwargs_direct (P : Plumbing)
    (h : P = { attributeDefaults := .arg .attributeDefaults, dtdValidation := .arg .dtdValidation,
               loadDtd := .arg .loadDtd, noNetwork := .arg .noNetwork, nsClean := .arg .nsClean,
               recover := .arg .recover, removeBlankText := .arg .removeBlankText,
               removeComments := .const true, removePis := .arg .removePis,
               stripCdata := .arg .stripCdata, resolveEntities := .arg, hugeTree := .arg .hugeTree,
               compact := .arg .compact }) (a : CtorArgs) :
    parserKwargs P a = directKw a := by
  subst h; rfl

theorem safe_directKw_iff (a : CtorArgs) :
    Safe (directKw a) ↔
      (a.resolveEntities = .off ∧ a.loadDtd = false ∧ a.dtdValidation = false ∧
       a.attributeDefaults = false ∧ a.noNetwork = true ∧ a.hugeTree = false) := by
  simp [Safe, directKw]

/-- nothing external is ever substituted or loaded: entity substitution off, no DTD loading -/
def Quiet (kw : ParserKw) : Prop := kw.resolveEntities = .off ∧ kw.dtdLoads = false

theorem Safe.quiet {kw : ParserKw} (h : Safe kw) : Quiet kw := by
  obtain ⟨h1, h2, h3, h4, _, _⟩ := h
  exact ⟨h1, by simp [ParserKw.dtdLoads, h2, h3, h4]⟩

/-! ## the tabulated account is the specified one -/

theorem lookup_map {α β : Type} (D : List (Nat × α)) (g : Nat → β) (n : Nat) :
    lookup (D.map fun d => (d.1, g d.1)) n = (lookup D n).map fun _ => g n := by
  induction D with
  | nil => rfl
  | cons d r ih =>
    obtain ⟨k, v⟩ := d
    simp only [List.map, lookup]
    by_cases hk : k = n
    · subst hk; simp
    · simp [hk, ih]

theorem refCost_undeclared (c : Cfg) (ctx : Ctx) (p q : Nat → Res Nat) (n : Nat)
    (h : lookup c.decls n = none) : refCost c ctx p n = refCost c ctx q n := by
  simp [refCost, h]

theorem lookup_costTab_zero (c : Cfg) (ctx : Ctx) (n : Nat) :
    lookup (costTab c ctx 0) n = (lookup c.decls n).map fun _ => Res.err Err.entDepth :=
  lookup_map c.decls (fun _ => Res.err Err.entDepth) n

theorem lookup_costTab_succ (c : Cfg) (ctx : Ctx) (k n : Nat) :
    lookup (costTab c ctx (k + 1)) n =
      (lookup c.decls n).map fun _ => refCost c ctx (tabGet c ctx (costTab c ctx k)) n :=
  lookup_map c.decls (fun m => refCost c ctx (tabGet c ctx (costTab c ctx k)) m) n

theorem tabGet_costTab (c : Cfg) (ctx : Ctx) (k n : Nat) :
    tabGet c ctx (costTab c ctx k) n = costAt c ctx k n := by
  induction k generalizing n with
  | zero =>
    simp only [tabGet, lookup_costTab_zero, costAt]
    cases h : lookup c.decls n <;> simp
  | succ k ih =>
    have hfun : tabGet c ctx (costTab c ctx k) = costAt c ctx k := funext ih
    simp only [tabGet, lookup_costTab_succ, costAt, hfun]
    cases h : lookup c.decls n with
    | none => simpa using refCost_undeclared c ctx _ _ n h
    | some d => simp

theorem acct_eq (c : Cfg) : c.acct = ⟨costAt c .attr c.fuel, costAt c .text c.fuel⟩ := by
  simp only [Cfg.acct]
  congr 1 <;> exact funext (tabGet_costTab c _ _)

/-! ## non-interference: under a quiet configuration nothing depends on the outside world -/

def Cfg.setEnv (c : Cfg) (e : Env) : Cfg := { c with env := e }

theorem refCost_env (c : Cfg) (e : Env) (hq : c.kw.resolveEntities = .off) (ctx : Ctx)
    (prev : Nat → Res Nat) (n : Nat) :
    refCost (c.setEnv e) ctx prev n = refCost c ctx prev n := by
  simp only [refCost, Cfg.setEnv, hq]

theorem costAt_env (c : Cfg) (e : Env) (hq : c.kw.resolveEntities = .off) (ctx : Ctx) (k n : Nat) :
    costAt (c.setEnv e) ctx k n = costAt c ctx k n := by
  induction k generalizing n with
  | zero =>
    simp only [costAt, refCost_env c e hq]
    rfl
  | succ k ih =>
    have : costAt (c.setEnv e) ctx k = costAt c ctx k := funext ih
    simp only [costAt, this, refCost_env c e hq]

theorem acct_env (c : Cfg) (e : Env) (hq : c.kw.resolveEntities = .off) : (c.setEnv e).acct = c.acct := by
  rw [acct_eq, acct_eq]
  have hf : (c.setEnv e).fuel = c.fuel := rfl
  rw [hf]
  congr 1 <;> exact funext (costAt_env c e hq _ _)

theorem refText_env (c : Cfg) (e : Env) (hq : c.kw.resolveEntities = .off) (ctx : Ctx)
    (prev : Nat → Text × List Uri) (n : Nat) :
    refText (c.setEnv e) ctx prev n = refText c ctx prev n := by
  simp only [refText, Cfg.setEnv, hq]

theorem textAt_env (c : Cfg) (e : Env) (hq : c.kw.resolveEntities = .off) (ctx : Ctx) (k n : Nat) :
    textAt (c.setEnv e) ctx k n = textAt c ctx k n := by
  induction k generalizing n with
  | zero => rfl
  | succ k ih =>
    have : textAt (c.setEnv e) ctx k = textAt c ctx k := funext ih
    simp only [textAt, this, refText_env c e hq]

theorem attrValues_env (c : Cfg) (e : Env) (hq : c.kw.resolveEntities = .off)
    (as : List (Text × List Piece)) : attrValues (c.setEnv e) as = attrValues c as := by
  induction as with
  | nil => rfl
  | cons a r ih =>
    obtain ⟨k, ps⟩ := a
    have hf : (c.setEnv e).fuel = c.fuel := rfl
    have : textAt (c.setEnv e) .attr c.fuel = textAt c .attr c.fuel := funext (textAt_env c e hq _ _)
    have hk : (c.setEnv e).kw = c.kw := rfl
    have hp : keptPieces (c.setEnv e) ps = keptPieces c ps := rfl
    simp only [attrValues, ih, hf, this, hk, hp]

theorem textRef_env (c : Cfg) (e : Env) (hq : c.kw.resolveEntities = .off) (n : Nat) :
    textRef (c.setEnv e) n = textRef c n := by
  simp [textRef, Cfg.setEnv, hq]

theorem walk_env (c : Cfg) (e : Env) (hq : c.kw.resolveEntities = .off) (A : Acct) (d k : Nat)
    (b : List Tok) : walk (c.setEnv e) A d k b = walk c A d k b := by
  induction b generalizing d k with
  | nil => rfl
  | cons t r ih =>
    cases t with
    | text t => simp only [walk, ih]
    | close => simp only [walk, ih]
    | «open» tag attrs =>
      simp only [walk, ih, attrValues_env c e hq]
      rfl
    | ref n =>
      simp only [walk, ih, textRef_env c e hq]
      rfl

theorem peDecls_quiet (L : Lib) (kw : ParserKw) (env : Env) (hq : Quiet kw) (us : List Uri) :
    peDecls L kw env us = W.pure [] := by
  induction us with
  | nil => rfl
  | cons u r ih =>
    simp only [peDecls, hq.1, hq.2, ih]
    rfl

theorem dtdPhase_quiet (L : Lib) (kw : ParserKw) (env : Env) (hq : Quiet kw) (d : Dtd) :
    dtdPhase L kw env d = ⟨.ok d.ents, []⟩ := by
  simp only [dtdPhase, peDecls_quiet L kw env hq, hq.2]
  cases d.extSubset <;> simp [W.andThen, W.pure, W.map]

theorem parseBody_env (L : Lib) (kw : ParserKw) (e1 e2 : Env) (hq : kw.resolveEntities = .off)
    (D : Decls) (l : Bool) (doc : Doc) : parseBody L kw e1 D l doc = parseBody L kw e2 D l doc := by
  have h1 := walk_env ⟨L, kw, e1, D, l, doc.size⟩ e2 hq
  have h2 := acct_env ⟨L, kw, e1, D, l, doc.size⟩ e2 hq
  simp only [Cfg.setEnv] at h1 h2
  simp only [parseBody, h2, h1]

/-- under a quiet configuration the front end is a function of the document alone -/
theorem parse_quiet_env (L : Lib) (kw : ParserKw) (e1 e2 : Env) (hq : Quiet kw) (doc : Doc) :
    parse L kw e1 doc = parse L kw e2 doc := by
  unfold parse
  cases doc.dtd with
  | none => exact parseBody_env L kw e1 e2 hq.1 _ _ doc
  | some d => simp only [dtdPhase_quiet L kw _ hq, parseBody_env L kw e1 e2 hq.1]

/-! ### nothing is opened -/

theorem piecesText_fetch_nil (h : Nat → Text × List Uri) (hh : ∀ n, (h n).2 = []) (ps : List Piece) :
    (piecesText h ps).2 = [] := by
  induction ps with
  | nil => rfl
  | cons p r ih => cases p <;> simp [piecesText, ih, hh]

theorem textAt_fetch_nil (c : Cfg) (hq : c.kw.resolveEntities = .off) (ctx : Ctx) (k n : Nat) :
    (textAt c ctx k n).2 = [] := by
  induction k generalizing n with
  | zero => rfl
  | succ k ih =>
    simp only [textAt, refText, hq]
    cases lookup c.decls n with
    | none => rfl
    | some d =>
      cases d with
      | internal body => exact piecesText_fetch_nil _ ih body
      | external u => cases ctx <;> rfl

theorem attrValues_fetch_nil (c : Cfg) (hq : c.kw.resolveEntities = .off) (as : List (Text × List Piece)) :
    (attrValues c as).2 = [] := by
  induction as with
  | nil => rfl
  | cons a r ih =>
    obtain ⟨k, ps⟩ := a
    simp [attrValues, ih, piecesText_fetch_nil _ (textAt_fetch_nil c hq .attr c.fuel) ps]

theorem prepend_fetches (f : List Uri) (o : List OTok) (r : PResult) :
    (r.prepend f o).fetches = f ++ r.fetches := rfl

theorem walk_fetch_nil (c : Cfg) (hq : c.kw.resolveEntities = .off) (A : Acct) (d k : Nat) (b : List Tok) :
    (walk c A d k b).fetches = [] := by
  induction b generalizing d k with
  | nil => rfl
  | cons t r ih =>
    cases t with
    | text t => simp [walk, prepend_fetches, ih]
    | close => simp [walk, prepend_fetches, ih]
    | «open» tag attrs =>
      simp only [walk]
      split
      · rfl
      · split
        · rfl
        · split
          · rfl
          · simp [prepend_fetches, ih, attrValues_fetch_nil c hq]
    | ref n =>
      simp only [walk]
      split
      · rfl
      · split
        · rfl
        · simp [prepend_fetches, ih, textRef, hq]

theorem parse_quiet_no_fetch (L : Lib) (kw : ParserKw) (env : Env) (hq : Quiet kw) (doc : Doc) :
    (parse L kw env doc).fetches = [] := by
  unfold parse
  cases doc.dtd with
  | none => exact walk_fetch_nil ⟨L, kw, env, [], false, doc.size⟩ hq.1 _ 0 0 doc.body
  | some d =>
    simp only [dtdPhase_quiet L kw _ hq, prepend_fetches]
    exact walk_fetch_nil ⟨L, kw, env, d.ents, d.lenient, doc.size⟩ hq.1 _ 0 0 doc.body

/-! ## entity substitution off: element text is the document's own text -/

theorem prepend_out_ok (f : List Uri) (o : List OTok) (r : PResult) (t : List OTok)
    (h : (r.prepend f o).out = .ok t) : ∃ t', r.out = .ok t' ∧ t = o ++ t' := by
  unfold PResult.prepend at h
  cases hr : r.out with
  | ok t' => simp [hr] at h; exact ⟨t', rfl, h.symm⟩
  | err e => simp [hr] at h

theorem outTexts_append (a b : List OTok) : outTexts (a ++ b) = outTexts a ++ outTexts b := by
  induction a with
  | nil => rfl
  | cons x r ih => cases x <;> simp [outTexts, ih]

theorem walk_texts (c : Cfg) (hq : c.kw.resolveEntities = .off) (A : Acct) (d k : Nat) (b : List Tok)
    (o : List OTok) (h : (walk c A d k b).out = .ok o) : outTexts o = srcTexts b := by
  induction b generalizing d k o with
  | nil => simp [walk] at h; subst h; rfl
  | cons t r ih =>
    cases t with
    | text t =>
      simp only [walk] at h
      obtain ⟨t', h1, h2⟩ := prepend_out_ok _ _ _ _ h
      subst h2; simp [outTexts, srcTexts, ih _ _ _ h1]
    | close =>
      simp only [walk] at h
      obtain ⟨t', h1, h2⟩ := prepend_out_ok _ _ _ _ h
      subst h2; simp [outTexts, srcTexts, ih _ _ _ h1]
    | «open» tag attrs =>
      simp only [walk] at h
      split at h
      · simp at h
      · split at h
        · simp at h
        · split at h
          · simp at h
          · obtain ⟨t', h1, h2⟩ := prepend_out_ok _ _ _ _ h
            subst h2; simp [outTexts, srcTexts, ih _ _ _ h1]
    | ref n =>
      simp only [walk] at h
      split at h
      · simp at h
      · split at h
        · simp at h
        · obtain ⟨t', h1, h2⟩ := prepend_out_ok _ _ _ _ h
          subst h2
          simp [textRef, hq, outTexts, srcTexts, ih _ _ _ h1]

theorem parse_texts (L : Lib) (kw : ParserKw) (env : Env) (hq : kw.resolveEntities = .off) (doc : Doc)
    (o : List OTok) (h : (parse L kw env doc).out = .ok o) : outTexts o = srcTexts doc.body := by
  unfold parse at h
  cases hd : doc.dtd with
  | none => rw [hd] at h; exact walk_texts ⟨L, kw, env, [], false, doc.size⟩ hq _ 0 0 doc.body o h
  | some d =>
    rw [hd] at h
    simp only at h
    split at h
    · simp at h
    · rename_i D _
      obtain ⟨t', h1, h2⟩ := prepend_out_ok _ _ _ _ h
      rw [h2]
      exact walk_texts ⟨L, kw, env, D, d.lenient, doc.size⟩ hq _ 0 0 doc.body t' h1

/-! ## nesting bombs -/

theorem prepend_out_err (f : List Uri) (o : List OTok) (r : PResult) (e : Err) (h : r.out = .err e) :
    (r.prepend f o).out = .err e := by
  simp [PResult.prepend, h]

theorem walk_depth (c : Cfg) (hh : c.kw.hugeTree = false) (A : Acct) (d k : Nat) (b : List Tok)
    (hd : d ≤ c.lib.maxDepth) (hm : c.lib.maxDepth < maxDepthFrom d b) :
    ∃ e, (walk c A d k b).out = .err e := by
  induction b generalizing d k with
  | nil => simp [maxDepthFrom] at hm; omega
  | cons t r ih =>
    cases t with
    | text t =>
      obtain ⟨e, he⟩ := ih d k hd (by simpa [maxDepthFrom] using hm)
      exact ⟨e, by simp only [walk]; exact prepend_out_err _ _ _ e he⟩
    | ref n =>
      simp only [walk]
      cases hA : A.text n with
      | err e => exact ⟨e, rfl⟩
      | ok k1 =>
        simp only
        split
        · exact ⟨_, rfl⟩
        · obtain ⟨e, he⟩ := ih d (k + k1) hd (by simpa [maxDepthFrom] using hm)
          exact ⟨e, prepend_out_err _ _ _ e he⟩
    | close =>
      obtain ⟨e, he⟩ := ih (d - 1) k (by omega) (by simpa [maxDepthFrom] using hm)
      exact ⟨e, by simp only [walk]; exact prepend_out_err _ _ _ e he⟩
    | «open» tag attrs =>
      simp only [walk, hh]
      by_cases hlt : c.lib.maxDepth < d + 1
      · exact ⟨.depth, by simp [hlt]⟩
      · simp only [hlt]
        simp only [maxDepthFrom] at hm
        have hm' : c.lib.maxDepth < maxDepthFrom (d + 1) r := by omega
        cases hA : attrsCost A attrs with
        | err e => exact ⟨e, by simp⟩
        | ok k1 =>
          simp only [Bool.not_false, decide_false, Bool.and_false, Bool.false_eq_true, if_false]
          split
          · exact ⟨_, rfl⟩
          · obtain ⟨e, he⟩ := ih (d + 1) (k + k1) (by omega) hm'
            exact ⟨e, prepend_out_err _ _ _ e he⟩

theorem parse_depth (L : Lib) (kw : ParserKw) (env : Env) (hh : kw.hugeTree = false) (doc : Doc)
    (hm : L.maxDepth < maxDepthFrom 0 doc.body) : ∃ e, (parse L kw env doc).out = .err e := by
  unfold parse
  cases doc.dtd with
  | none => exact walk_depth ⟨L, kw, env, _, _, doc.size⟩ hh _ 0 0 doc.body (Nat.zero_le _) hm
  | some d =>
    simp only
    split
    · exact ⟨_, rfl⟩
    · rename_i D _
      obtain ⟨e, he⟩ := walk_depth ⟨L, kw, env, D, d.lenient, doc.size⟩ hh _ 0 0 doc.body (Nat.zero_le _) hm
      exact ⟨e, prepend_out_err _ _ _ e he⟩

/-! ## expansion is bounded by the account, the account by the budget -/

theorem piecesText_len (hc : Nat → Res Nat) (ht : Nat → Text × List Uri)
    (hh : ∀ n k, hc n = .ok k → (ht n).1.length ≤ k) (ps : List Piece) (a : Nat)
    (h : piecesCost hc ps = .ok a) : (piecesText ht ps).1.length ≤ srcLen ps + a := by
  induction ps generalizing a with
  | nil => simp [piecesText]
  | cons p r ih =>
    cases p with
    | lit t =>
      simp only [piecesCost] at h
      have := ih a h
      simp [piecesText, srcLen, Piece.srcLen] at this ⊢
      omega
    | ref n =>
      simp only [piecesCost] at h
      cases hn : hc n with
      | err e => simp [hn] at h
      | ok k =>
        simp only [hn] at h
        cases hr : piecesCost hc r with
        | err e => simp [hr, Res.map] at h
        | ok b =>
          simp [hr, Res.map] at h
          have h1 := ih b hr
          have h2 := hh n k hn
          simp [piecesText, srcLen, Piece.srcLen] at h1 ⊢
          omega

theorem textAt_len (c : Cfg) (ctx : Ctx) (k n cst : Nat) (h : costAt c ctx k n = .ok cst) :
    (textAt c ctx k n).1.length ≤ cst := by
  induction k generalizing n cst with
  | zero => simp [textAt]
  | succ k ih =>
    simp only [costAt, refCost] at h
    simp only [textAt, refText]
    cases hl : lookup c.decls n with
    | none => simp
    | some d =>
      cases d with
      | internal body =>
        simp only [hl] at h
        cases hp : piecesCost (costAt c ctx k) body with
        | err e => simp [hp, Res.map] at h
        | ok a =>
          simp [hp, Res.map] at h
          have := piecesText_len (costAt c ctx k) (textAt c ctx k) ih body a hp
          simp only
          omega
      | external u =>
        simp only [hl] at h
        cases ctx with
        | attr => simp
        | text =>
          cases hr : c.kw.resolveEntities with
          | off => simp
          | internal => simp
          | all =>
            simp only [hr] at h
            cases hld : load c.lib c.kw c.env u with
            | loaded => simp [hld] at h ⊢; omega
            | empty => simp [hld]
            | unsupported => simp [hld]
            | blocked => simp [hld]

theorem attrValues_len (c : Cfg) (as : List (Text × List Piece)) (a : Nat)
    (h : attrsCost ⟨costAt c .attr c.fuel, costAt c .text c.fuel⟩ as = .ok a) :
    (((attrValues c as).1.map fun kv => kv.2.1.length).sum) ≤ (as.map fun kv => srcLen kv.2).sum + a := by
  induction as generalizing a with
  | nil => simp [attrValues]
  | cons x r ih =>
    obtain ⟨k, ps⟩ := x
    simp only [attrsCost] at h
    cases hp : piecesCost (costAt c .attr c.fuel) ps with
    | err e => simp [hp] at h
    | ok b =>
      simp only [hp] at h
      cases hr : attrsCost ⟨costAt c .attr c.fuel, costAt c .text c.fuel⟩ r with
      | err e => simp [hr, Res.map] at h
      | ok b2 =>
        simp [hr, Res.map] at h
        have h1 := ih b2 hr
        have h2 := piecesText_len (costAt c .attr c.fuel) (textAt c .attr c.fuel)
          (fun n k hk => textAt_len c .attr c.fuel n k hk) ps b hp
        simp only [attrValues, List.map, List.sum_cons]
        omega

theorem outSize_append (a b : List OTok) : outSize (a ++ b) = outSize a + outSize b := by
  simp [outSize]

/-- whatever `walk` delivers is paid for: literal characters, or the account, which stayed within budget -/
theorem walk_bound (c : Cfg) (d k : Nat) (b : List Tok) (o : List OTok)
    (hk : overBudget c k = false)
    (h : (walk c ⟨costAt c .attr c.fuel, costAt c .text c.fuel⟩ d k b).out = .ok o) :
    ∃ k', overBudget c k' = false ∧ outSize o + k ≤ litSize b + k' := by
  induction b generalizing d k o with
  | nil => simp [walk] at h; subst h; exact ⟨k, hk, by simp [outSize, litSize]⟩
  | cons t r ih =>
    cases t with
    | text t =>
      simp only [walk] at h
      obtain ⟨t', h1, h2⟩ := prepend_out_ok _ _ _ _ h
      obtain ⟨k', hb, hle⟩ := ih d k t' hk h1
      refine ⟨k', hb, ?_⟩
      subst h2
      simp [outSize, litSize, OTok.size, Tok.litSize] at hle ⊢
      omega
    | close =>
      simp only [walk] at h
      obtain ⟨t', h1, h2⟩ := prepend_out_ok _ _ _ _ h
      obtain ⟨k', hb, hle⟩ := ih (d - 1) k t' hk h1
      refine ⟨k', hb, ?_⟩
      subst h2
      simp [outSize, litSize, OTok.size, Tok.litSize] at hle ⊢
      omega
    | «open» tag attrs =>
      simp only [walk] at h
      split at h
      · simp at h
      · cases hA : attrsCost ⟨costAt c .attr c.fuel, costAt c .text c.fuel⟩ attrs with
        | err e => simp [hA] at h
        | ok k1 =>
          simp only [hA] at h
          cases hob : overBudget c (k + k1) with
          | true => simp [hob] at h
          | false =>
            simp only [hob] at h
            obtain ⟨t', h1, h2⟩ := prepend_out_ok _ _ _ _ h
            obtain ⟨k', hb, hle⟩ := ih (d + 1) (k + k1) t' hob h1
            refine ⟨k', hb, ?_⟩
            have hv := attrValues_len c attrs k1 hA
            subst h2
            simp [outSize, litSize, OTok.size, Tok.litSize] at hle hv ⊢
            omega
    | ref n =>
      simp only [walk] at h
      cases hA : costAt c .text c.fuel n with
      | err e => simp [hA] at h
      | ok k1 =>
        simp only [hA] at h
        cases hob : overBudget c (k + k1) with
        | true => simp [hob] at h
        | false =>
          simp only [hob] at h
          obtain ⟨t', h1, h2⟩ := prepend_out_ok _ _ _ _ h
          obtain ⟨k', hb, hle⟩ := ih d (k + k1) t' hob h1
          refine ⟨k', hb, ?_⟩
          have hv := textAt_len c .text c.fuel n k1 hA
          subst h2
          have hs : outSize (textRef c n).1 ≤ k1 := by
            unfold textRef
            cases c.kw.resolveEntities <;> simp [outSize, OTok.size] <;> exact hv
          simp [outSize_append, litSize, Tok.litSize] at hle hs ⊢
          omega

theorem budget_bound (c : Cfg) (hh : c.kw.hugeTree = false) (ha : 0 < c.lib.maxAmpl) (k : Nat)
    (h : overBudget c k = false) : k ≤ max c.lib.allowedExpansion (c.lib.maxAmpl * (c.docSize + 1)) := by
  simp only [overBudget, hh, Bool.not_false, Bool.true_and, Bool.and_eq_false_iff, decide_eq_false_iff_not,
    Nat.not_lt] at h
  rcases h with h | h
  · exact Nat.le_trans h (Nat.le_max_left _ _)
  · have : k < c.lib.maxAmpl * (c.docSize + 1) := by
      have := (Nat.div_lt_iff_lt_mul ha).mp (Nat.lt_succ_of_le h)
      rw [Nat.mul_comm]; exact this
    exact Nat.le_trans (Nat.le_of_lt this) (Nat.le_max_right _ _)

theorem overBudget_zero (c : Cfg) : overBudget c 0 = false := by simp [overBudget]

theorem parseBody_bound (L : Lib) (kw : ParserKw) (env : Env) (hh : kw.hugeTree = false) (ha : 0 < L.maxAmpl)
    (D : Decls) (l : Bool) (doc : Doc) (o : List OTok) (h : (parseBody L kw env D l doc).out = .ok o) :
    outSize o ≤ litSize doc.body + max L.allowedExpansion (L.maxAmpl * (doc.size + 1)) := by
  simp only [parseBody, acct_eq] at h
  obtain ⟨k', hb, hle⟩ := walk_bound ⟨L, kw, env, D, l, doc.size⟩ 0 0 doc.body o (overBudget_zero _) h
  have := budget_bound ⟨L, kw, env, D, l, doc.size⟩ hh ha k' hb
  simp only at this
  omega

/-- memory: what reaches the application is linear in the size of the request -/
theorem parse_bound (L : Lib) (kw : ParserKw) (env : Env) (hh : kw.hugeTree = false) (ha : 0 < L.maxAmpl)
    (doc : Doc) (o : List OTok) (h : (parse L kw env doc).out = .ok o) :
    outSize o ≤ litSize doc.body + max L.allowedExpansion (L.maxAmpl * (doc.size + 1)) := by
  unfold parse at h
  cases hd : doc.dtd with
  | none => rw [hd] at h; exact parseBody_bound L kw env hh ha _ _ doc o h
  | some d =>
    rw [hd] at h
    simp only at h
    split at h
    · simp at h
    · obtain ⟨t', h1, h2⟩ := prepend_out_ok _ _ _ _ h
      rw [h2]
      exact parseBody_bound L kw env hh ha _ _ doc t' h1

/-! ## `no_network`: whatever else is switched on, no network resource is touched -/

def NonNet (L : Lib) (l : List Uri) : Prop := ∀ u ∈ l, L.isNet u.scheme = false

theorem NonNet.nil (L : Lib) : NonNet L [] := by intro u hu; cases hu
theorem NonNet.append {L : Lib} {a b : List Uri} (ha : NonNet L a) (hb : NonNet L b) : NonNet L (a ++ b) := by
  intro u hu
  rcases List.mem_append.mp hu with h | h
  · exact ha u h
  · exact hb u h

theorem load_nonnet (L : Lib) (kw : ParserKw) (env : Env) (hn : kw.noNetwork = true) (u : Uri)
    (h : load L kw env u = .loaded ∨ load L kw env u = .empty) : L.isNet u.scheme = false := by
  unfold load at h
  cases hs : L.isNet u.scheme with
  | false => rfl
  | true => simp [hs, hn] at h

theorem piecesText_nonnet (L : Lib) (h : Nat → Text × List Uri) (hh : ∀ n, NonNet L (h n).2) (ps : List Piece) :
    NonNet L (piecesText h ps).2 := by
  induction ps with
  | nil => exact NonNet.nil L
  | cons p r ih =>
    cases p with
    | lit t => simpa [piecesText] using ih
    | ref n => simpa [piecesText] using NonNet.append (hh n) ih

theorem textAt_nonnet (c : Cfg) (hn : c.kw.noNetwork = true) (ctx : Ctx) (k n : Nat) :
    NonNet c.lib (textAt c ctx k n).2 := by
  induction k generalizing n with
  | zero => exact NonNet.nil _
  | succ k ih =>
    simp only [textAt, refText]
    cases lookup c.decls n with
    | none => exact NonNet.nil _
    | some d =>
      cases d with
      | internal body => exact piecesText_nonnet _ _ ih body
      | external u =>
        cases ctx with
        | attr => exact NonNet.nil _
        | text =>
          cases c.kw.resolveEntities with
          | off => exact NonNet.nil _
          | internal => exact NonNet.nil _
          | all =>
            simp only
            cases hld : load c.lib c.kw c.env u with
            | loaded => intro v hv; simp at hv; subst hv; exact load_nonnet _ _ _ hn _ (Or.inl hld)
            | empty => intro v hv; simp at hv; subst hv; exact load_nonnet _ _ _ hn _ (Or.inr hld)
            | unsupported => exact NonNet.nil _
            | blocked => exact NonNet.nil _

theorem attrValues_nonnet (c : Cfg) (hn : c.kw.noNetwork = true) (as : List (Text × List Piece)) :
    NonNet c.lib (attrValues c as).2 := by
  induction as with
  | nil => exact NonNet.nil _
  | cons a r ih =>
    obtain ⟨k, ps⟩ := a
    simp only [attrValues]
    exact NonNet.append (piecesText_nonnet _ _ (textAt_nonnet c hn .attr c.fuel) ps) ih

theorem textRef_nonnet (c : Cfg) (hn : c.kw.noNetwork = true) (n : Nat) : NonNet c.lib (textRef c n).2 := by
  unfold textRef
  cases c.kw.resolveEntities with
  | off => exact NonNet.nil _
  | internal => exact textAt_nonnet c hn .text c.fuel n
  | all => exact textAt_nonnet c hn .text c.fuel n

theorem walk_nonnet (c : Cfg) (hn : c.kw.noNetwork = true) (A : Acct) (d k : Nat) (b : List Tok) :
    NonNet c.lib (walk c A d k b).fetches := by
  induction b generalizing d k with
  | nil => exact NonNet.nil _
  | cons t r ih =>
    cases t with
    | text t => simpa [walk, prepend_fetches] using ih d k
    | close => simpa [walk, prepend_fetches] using ih (d - 1) k
    | «open» tag attrs =>
      simp only [walk]
      split
      · exact NonNet.nil _
      · cases attrsCost A attrs with
        | err e => exact NonNet.nil _
        | ok k1 =>
          simp only
          split
          · exact NonNet.nil _
          · exact NonNet.append (attrValues_nonnet c hn attrs) (ih _ _)
    | ref n =>
      simp only [walk]
      cases A.text n with
      | err e => exact NonNet.nil _
      | ok k1 =>
        simp only
        split
        · exact NonNet.nil _
        · exact NonNet.append (textRef_nonnet c hn n) (ih _ _)

theorem loadDecls_nonnet (L : Lib) (kw : ParserKw) (env : Env) (hn : kw.noNetwork = true) (u : Uri) :
    NonNet L (loadDecls L kw env u).fetches := by
  unfold loadDecls
  cases hld : load L kw env u with
  | loaded => intro v hv; simp at hv; subst hv; exact load_nonnet _ _ _ hn _ (Or.inl hld)
  | empty => intro v hv; simp at hv; subst hv; exact load_nonnet _ _ _ hn _ (Or.inr hld)
  | unsupported => exact NonNet.nil _
  | blocked => exact NonNet.nil _

theorem andThen_nonnet {α β} (L : Lib) (x : W α) (f : α → W β) (hx : NonNet L x.fetches)
    (hf : ∀ a, NonNet L (f a).fetches) : NonNet L (x.andThen f).fetches := by
  unfold W.andThen
  cases x.val with
  | err e => exact hx
  | ok a => exact NonNet.append hx (hf a)

theorem map_fetches {α β} (x : W α) (f : α → β) : (x.map f).fetches = x.fetches := by
  unfold W.map; cases x.val <;> rfl

theorem peDecls_nonnet (L : Lib) (kw : ParserKw) (env : Env) (hn : kw.noNetwork = true) (us : List Uri) :
    NonNet L (peDecls L kw env us).fetches := by
  induction us with
  | nil => exact NonNet.nil _
  | cons u r ih =>
    simp only [peDecls]
    cases kw.resolveEntities with
    | internal => exact NonNet.nil _
    | off =>
      simp only
      split
      · exact andThen_nonnet L _ _ (loadDecls_nonnet L kw env hn u) (fun d => by rw [map_fetches]; exact ih)
      · exact ih
    | all =>
      simp only
      split
      · exact andThen_nonnet L _ _ (loadDecls_nonnet L kw env hn u) (fun d => by rw [map_fetches]; exact ih)
      · exact ih

theorem dtdPhase_nonnet (L : Lib) (kw : ParserKw) (env : Env) (hn : kw.noNetwork = true) (d : Dtd) :
    NonNet L (dtdPhase L kw env d).fetches := by
  unfold dtdPhase
  refine andThen_nonnet L _ _ (peDecls_nonnet L kw env hn _) (fun pe => ?_)
  rw [map_fetches]
  cases d.extSubset with
  | none => exact NonNet.nil _
  | some u =>
    simp only
    split
    · exact loadDecls_nonnet L kw env hn u
    · exact NonNet.nil _

theorem parse_nonnet (L : Lib) (kw : ParserKw) (env : Env) (hn : kw.noNetwork = true) (doc : Doc) :
    NonNet L (parse L kw env doc).fetches := by
  unfold parse
  cases doc.dtd with
  | none => exact walk_nonnet ⟨L, kw, env, _, _, doc.size⟩ hn _ 0 0 doc.body
  | some d =>
    simp only
    split
    · exact dtdPhase_nonnet L kw env hn d
    · rename_i D _
      exact NonNet.append (dtdPhase_nonnet L kw env hn d)
        (walk_nonnet ⟨L, kw, env, D, d.lenient, doc.size⟩ hn _ 0 0 doc.body)

/-! ## entity loops -/

theorem piecesCost_err_of_mem (h : Nat → Res Nat) (n : Nat) (e : Err) (hn : h n = .err e) (ps : List Piece)
    (hm : Piece.ref n ∈ ps) : ∃ e', piecesCost h ps = .err e' := by
  induction ps with
  | nil => cases hm
  | cons p r ih =>
    cases p with
    | lit t =>
      have : Piece.ref n ∈ r := by simpa using hm
      simpa [piecesCost] using ih this
    | ref m =>
      simp only [piecesCost]
      cases hm' : h m with
      | err e1 => exact ⟨e1, rfl⟩
      | ok a =>
        have : Piece.ref n ∈ r := by
          rcases List.mem_cons.mp hm with h1 | h1
          · injection h1 with h1; subst h1; rw [hn] at hm'; cases hm'
          · exact h1
        obtain ⟨e', he'⟩ := ih this
        exact ⟨e', by simp [he', Res.map]⟩

/-- an entity whose replacement text refers to itself can never be referenced successfully,
    with any nesting allowance -/
theorem self_loop_rejected (c : Cfg) (ctx : Ctx) (n : Nat) (body : List Piece)
    (hd : lookup c.decls n = some (.internal body)) (hm : Piece.ref n ∈ body) (k : Nat) :
    ∃ e, costAt c ctx k n = .err e := by
  induction k with
  | zero => exact ⟨.entDepth, by simp [costAt, hd]⟩
  | succ k ih =>
    obtain ⟨e, he⟩ := ih
    obtain ⟨e', he'⟩ := piecesCost_err_of_mem (costAt c ctx k) n e he body hm
    exact ⟨e', by simp [costAt, refCost, hd, he', Res.map]⟩

theorem attrsCost_err_of_mem (A : Acct) (n : Nat) (e : Err) (hn : A.attr n = .err e)
    (as : List (Text × List Piece)) (k : Text) (ps : List Piece) (h1 : (k, ps) ∈ as) (h2 : Piece.ref n ∈ ps) :
    ∃ e', attrsCost A as = .err e' := by
  induction as with
  | nil => cases h1
  | cons a r ih =>
    obtain ⟨k0, ps0⟩ := a
    simp only [attrsCost]
    cases hp : piecesCost A.attr ps0 with
    | err e1 => exact ⟨e1, rfl⟩
    | ok a =>
      have : (k, ps) ∈ r := by
        rcases List.mem_cons.mp h1 with h | h
        · injection h with ha hb; subst hb
          obtain ⟨e', he'⟩ := piecesCost_err_of_mem A.attr n e hn ps h2
          rw [he'] at hp; cases hp
        · exact h
      obtain ⟨e', he'⟩ := ih this
      exact ⟨e', by simp [he', Res.map]⟩

/-- a body that refers (in element content or in an attribute value) to an entity whose account
    is an error is rejected as a whole -/
theorem walk_err_of_bad_ref (c : Cfg) (A : Acct) (n : Nat) (b : List Tok) (d k : Nat)
    (h : (∃ e, A.text n = .err e) ∧ Tok.ref n ∈ b ∨
         (∃ e, A.attr n = .err e) ∧ ∃ tag as nm ps, Tok.open tag as ∈ b ∧ (nm, ps) ∈ as ∧ Piece.ref n ∈ ps) :
    ∃ e, (walk c A d k b).out = .err e := by
  induction b generalizing d k with
  | nil =>
    rcases h with ⟨_, h⟩ | ⟨_, _, _, _, _, h, _⟩ <;> cases h
  | cons t r ih =>
    -- either the head token is the offending one, or the tail contains it
    have tail : (∀ d k, ∃ e, (walk c A d k r).out = .err e) → ∃ e, (walk c A d k (t :: r)).out = .err e := by
      intro hr
      cases t with
      | text t => obtain ⟨e, he⟩ := hr d k; exact ⟨e, by simp only [walk]; exact prepend_out_err _ _ _ e he⟩
      | close => obtain ⟨e, he⟩ := hr (d - 1) k; exact ⟨e, by simp only [walk]; exact prepend_out_err _ _ _ e he⟩
      | «open» tag attrs =>
        simp only [walk]
        split
        · exact ⟨_, rfl⟩
        · cases attrsCost A attrs with
          | err e => exact ⟨e, rfl⟩
          | ok k1 =>
            simp only
            split
            · exact ⟨_, rfl⟩
            · obtain ⟨e, he⟩ := hr (d + 1) (k + k1); exact ⟨e, prepend_out_err _ _ _ e he⟩
      | ref m =>
        simp only [walk]
        cases A.text m with
        | err e => exact ⟨e, rfl⟩
        | ok k1 =>
          simp only
          split
          · exact ⟨_, rfl⟩
          · obtain ⟨e, he⟩ := hr d (k + k1); exact ⟨e, prepend_out_err _ _ _ e he⟩
    rcases h with ⟨⟨e, he⟩, hm⟩ | ⟨⟨e, he⟩, tag, as, nm, ps, hm, h1, h2⟩
    · rcases List.mem_cons.mp hm with h | h
      · subst h; exact ⟨e, by simp [walk, he]⟩
      · exact tail (fun d k => ih d k (Or.inl ⟨⟨e, he⟩, h⟩))
    · rcases List.mem_cons.mp hm with h | h
      · subst h
        simp only [walk]
        split
        · exact ⟨_, rfl⟩
        · obtain ⟨e', he'⟩ := attrsCost_err_of_mem A n e he as nm ps h1 h2
          exact ⟨e', by simp [he']⟩
      · exact tail (fun d k => ih d k (Or.inr ⟨⟨e, he⟩, tag, as, nm, ps, h, h1, h2⟩))

/-! ## the request path -/

/-- the roles `createInDocument` goes through -/
def usedRoles : List Role := [.xmlMain, .soapMain, .soapFallback, .mimeJoin]

/-- every parse on the request path is given `XMLParser(**self.parser_kwargs)` -/
def SitesUseKwargs (F : Facts17) : Bool := usedRoles.all fun r => roleParser F.sites r == some .fromKwargs

/-- ... and sits in a try/except that turns XMLSyntaxError into Fault('Client.XMLSyntaxError') -/
def SitesCatch (F : Facts17) : Bool := usedRoles.all fun r => roleCatches F.sites r

theorem kwAt_of_good (F : Facts17) (hg : SitesUseKwargs F = true) (r : Role) (hr : r ∈ usedRoles)
    (kw : ParserKw) : kwAt F r kw = some kw := by
  have := (List.all_eq_true.mp hg) r hr
  simp only [beq_iff_eq] at this
  simp [kwAt, this]

theorem catches_of_good (F : Facts17) (hc : SitesCatch F = true) (r : Role) (hr : r ∈ usedRoles) :
    roleCatches F.sites r = true := (List.all_eq_true.mp hc) r hr

theorem parseAt_good (F : Facts17) (hg : SitesUseKwargs F = true) (hc : SitesCatch F = true) (r : Role)
    (hr : r ∈ usedRoles) (kw : ParserKw) (env : Env) (doc : Doc) :
    parseAt F r kw env doc =
      (match (parse F.lib kw env doc).out with
       | .ok t => .ok t
       | .err _ => .fault "Client.XMLSyntaxError", (parse F.lib kw env doc).fetches) := by
  simp only [parseAt, kwAt_of_good F hg r hr, catches_of_good F hc r hr]
  cases (parse F.lib kw env doc).out <;> rfl

theorem mainRole_used (tr : Transport) (req : Req) :
    (if tr == .wsgi && req.unicodeDecl then Role.soapFallback else Role.soapMain) ∈ usedRoles := by
  split <;> simp [usedRoles]

/-- with every site good, `create_in_document` is: parse with the protocol's keywords; a
    multipart request is parsed, written out and parsed again -/
def pipeline (L : Lib) (p : Proto) (tr : Transport) (kw : ParserKw) (env : Env) (req : Req) :
    Outcome (List OTok) × List Uri :=
  let one (doc : Doc) : Outcome (List OTok) × List Uri :=
    (match (parse L kw env doc).out with
     | .ok t => .ok t
     | .err _ => .fault "Client.XMLSyntaxError", (parse L kw env doc).fetches)
  if p != .xml && tr == .wsgi && req.multipart then
    match one req.doc with
    | (.ok t, f1) => let r2 := one ⟨none, reSrc t, req.doc.size⟩; (r2.1, f1 ++ r2.2)
    | bad => bad
  else one req.doc

theorem createInDocument_good (F : Facts17) (hg : SitesUseKwargs F = true) (hc : SitesCatch F = true)
    (p : Proto) (tr : Transport) (kw : ParserKw) (env : Env) (req : Req) :
    createInDocument F p tr kw env req = pipeline F.lib p tr kw env req := by
  have hx := parseAt_good F hg hc .xmlMain (by simp [usedRoles]) kw env
  have hm := parseAt_good F hg hc .mimeJoin (by simp [usedRoles]) kw env
  have hs := parseAt_good F hg hc _ (mainRole_used tr req) kw env
  cases p with
  | xml => simp [createInDocument, pipeline, hx]
  | soap11 =>
    simp only [createInDocument, pipeline, hm, hs]
    cases tr <;> cases req.multipart <;> simp <;> cases (parse F.lib kw env req.doc).out <;> rfl
  | soap12 =>
    simp only [createInDocument, pipeline, hm, hs]
    cases tr <;> cases req.multipart <;> simp <;> cases (parse F.lib kw env req.doc).out <;> rfl

theorem pipeline_env (L : Lib) (p : Proto) (tr : Transport) (kw : ParserKw) (e1 e2 : Env) (hq : Quiet kw)
    (req : Req) : pipeline L p tr kw e1 req = pipeline L p tr kw e2 req := by
  have h : ∀ doc, parse L kw e1 doc = parse L kw e2 doc := parse_quiet_env L kw e1 e2 hq
  simp only [pipeline, h]

theorem pipeline_no_fetch (L : Lib) (p : Proto) (tr : Transport) (kw : ParserKw) (env : Env) (hq : Quiet kw)
    (req : Req) : (pipeline L p tr kw env req).2 = [] := by
  have h : ∀ doc, (parse L kw env doc).fetches = [] := parse_quiet_no_fetch L kw env hq
  simp only [pipeline, h]
  split
  · split <;> simp_all
  · rfl

theorem pipeline_never_crashes (L : Lib) (p : Proto) (tr : Transport) (kw : ParserKw) (env : Env) (req : Req) :
    (∃ t, (pipeline L p tr kw env req).1 = .ok t) ∨ (pipeline L p tr kw env req).1 = .fault "Client.XMLSyntaxError" := by
  have one : ∀ doc, (∃ t, (match (parse L kw env doc).out with
       | .ok t => Outcome.ok t
       | .err _ => .fault "Client.XMLSyntaxError") = .ok t) ∨
       (match (parse L kw env doc).out with
       | .ok t => Outcome.ok t
       | .err _ => .fault "Client.XMLSyntaxError") = .fault "Client.XMLSyntaxError" := by
    intro doc; cases (parse L kw env doc).out <;> simp
  simp only [pipeline]
  split
  · cases h1 : (parse L kw env req.doc).out with
    | ok t => simpa using one ⟨none, reSrc t, req.doc.size⟩
    | err e => simp
  · exact one req.doc

theorem pipeline_rejects (L : Lib) (p : Proto) (tr : Transport) (kw : ParserKw) (env : Env) (req : Req)
    (e : Err) (h : (parse L kw env req.doc).out = .err e) :
    (pipeline L p tr kw env req).1 = .fault "Client.XMLSyntaxError" := by
  simp only [pipeline, h]
  split <;> rfl

/-! ## nothing is opened unless substitution of external entities or DTD loading is switched on
    (covers `resolve_entities='internal'`, lxml's own default, used by the schema tools) -/

theorem textAt_fetch_nil' (c : Cfg) (hq : c.kw.resolveEntities ≠ .all) (ctx : Ctx) (k n : Nat) :
    (textAt c ctx k n).2 = [] := by
  induction k generalizing n with
  | zero => rfl
  | succ k ih =>
    simp only [textAt, refText]
    cases lookup c.decls n with
    | none => rfl
    | some d =>
      cases d with
      | internal body => exact piecesText_fetch_nil _ ih body
      | external u =>
        cases ctx with
        | attr => rfl
        | text =>
          cases hr : c.kw.resolveEntities with
          | off => rfl
          | internal => rfl
          | all => exact absurd hr hq

theorem attrValues_fetch_nil' (c : Cfg) (hq : c.kw.resolveEntities ≠ .all) (as : List (Text × List Piece)) :
    (attrValues c as).2 = [] := by
  induction as with
  | nil => rfl
  | cons a r ih =>
    obtain ⟨k, ps⟩ := a
    simp [attrValues, ih, piecesText_fetch_nil _ (textAt_fetch_nil' c hq .attr c.fuel) ps]

theorem textRef_fetch_nil' (c : Cfg) (hq : c.kw.resolveEntities ≠ .all) (n : Nat) : (textRef c n).2 = [] := by
  unfold textRef
  cases hr : c.kw.resolveEntities with
  | off => rfl
  | internal => exact textAt_fetch_nil' c hq .text c.fuel n
  | all => exact absurd hr hq

theorem walk_fetch_nil' (c : Cfg) (hq : c.kw.resolveEntities ≠ .all) (A : Acct) (d k : Nat) (b : List Tok) :
    (walk c A d k b).fetches = [] := by
  induction b generalizing d k with
  | nil => rfl
  | cons t r ih =>
    cases t with
    | text t => simp [walk, prepend_fetches, ih]
    | close => simp [walk, prepend_fetches, ih]
    | «open» tag attrs =>
      simp only [walk]
      split
      · rfl
      · split
        · rfl
        · split
          · rfl
          · simp [prepend_fetches, ih, attrValues_fetch_nil' c hq]
    | ref n =>
      simp only [walk]
      split
      · rfl
      · split
        · rfl
        · simp [prepend_fetches, ih, textRef_fetch_nil' c hq]

theorem peDecls_fetch_nil' (L : Lib) (kw : ParserKw) (env : Env) (hq : kw.resolveEntities ≠ .all)
    (hd : kw.dtdLoads = false) (us : List Uri) : (peDecls L kw env us).fetches = [] := by
  induction us with
  | nil => rfl
  | cons u r ih =>
    simp only [peDecls]
    cases hr : kw.resolveEntities with
    | internal => rfl
    | off => simp [hd, ih]
    | all => exact absurd hr hq

theorem dtdPhase_fetch_nil' (L : Lib) (kw : ParserKw) (env : Env) (hq : kw.resolveEntities ≠ .all)
    (hd : kw.dtdLoads = false) (d : Dtd) : (dtdPhase L kw env d).fetches = [] := by
  have h1 := peDecls_fetch_nil' L kw env hq hd d.peRefs
  unfold dtdPhase W.andThen
  cases hv : (peDecls L kw env d.peRefs).val with
  | err e => simpa using h1
  | ok a =>
    simp only [h1, List.nil_append, map_fetches]
    cases d.extSubset <;> simp [hd, W.pure]

theorem parse_no_fetch' (L : Lib) (kw : ParserKw) (env : Env) (hq : kw.resolveEntities ≠ .all)
    (hd : kw.dtdLoads = false) (doc : Doc) : (parse L kw env doc).fetches = [] := by
  unfold parse
  cases doc.dtd with
  | none => exact walk_fetch_nil' ⟨L, kw, env, [], false, doc.size⟩ hq _ 0 0 doc.body
  | some d =>
    simp only
    split
    · exact dtdPhase_fetch_nil' L kw env hq hd d
    · rename_i D _
      simp only [prepend_fetches, dtdPhase_fetch_nil' L kw env hq hd d, List.nil_append, parseBody]
      exact walk_fetch_nil' ⟨L, kw, env, D, d.lenient, doc.size⟩ hq _ 0 0 doc.body

end SpyneModel.XmlCfg
