import SpyneModel.Prim2
import Proofs.Prim
import Proofs.Binary
namespace SpyneModel

/-! ## digit strings -/

theorem foldl_val (s : Text) : ∀ acc : Nat,
    s.foldl (fun a c => a * 10 + dval c) acc = acc * 10 ^ s.length + s.foldl (fun a c => a * 10 + dval c) 0 := by
  induction s with
  | nil => intro acc; simp
  | cons c t ih =>
    intro acc
    simp only [List.foldl_cons, List.length_cons]
    rw [ih (acc * 10 + dval c), ih (0 * 10 + dval c), Nat.pow_succ]
    simp [Nat.add_mul, Nat.mul_assoc, Nat.mul_comm 10, Nat.add_assoc]

theorem valNat_cons (c : Char) (s : Text) : valNat (c :: s) = dval c * 10 ^ s.length + valNat s := by
  unfold valNat
  simp only [List.foldl_cons]
  rw [foldl_val s (0 * 10 + dval c)]
  simp

theorem valNat_nil : valNat [] = 0 := rfl

theorem valNat_append (a b : Text) : valNat (a ++ b) = valNat a * 10 ^ b.length + valNat b := by
  unfold valNat
  rw [List.foldl_append, foldl_val b]

theorem dval_le_9 (c : Char) (h : isDigit c = true) : dval c ≤ 9 := by
  simp [isDigit] at h
  unfold dval; omega

theorem valNat_lt_pow (s : Text) (h : s.all isDigit = true) : valNat s < 10 ^ s.length := by
  induction s with
  | nil => simp [valNat]
  | cons c t ih =>
    rw [List.all_cons, Bool.and_eq_true] at h
    rw [valNat_cons, List.length_cons, Nat.pow_succ]
    have h1 := dval_le_9 c h.1
    have h2 := ih h.2
    have h3 : dval c * 10 ^ t.length ≤ 9 * 10 ^ t.length := Nat.mul_le_mul_right _ h1
    omega

theorem valNat_replicate_zero (k : Nat) : valNat (List.replicate k '0') = 0 := by
  induction k with
  | zero => rfl
  | succ k ih => rw [List.replicate_succ, valNat_cons, ih]; simp [dval]

theorem replicate_zero_all_digits (k : Nat) : (List.replicate k '0').all isDigit = true := by
  simp [List.all_replicate, isDigit]

theorem digitChar_dval (c : Char) (h : isDigit c = true) : digitChar (dval c) = c := by
  simp [isDigit] at h
  unfold digitChar dval
  have : 48 + (c.toNat - 48) = c.toNat := by omega
  rw [this]
  exact Char.ofNat_toNat c

/-- `spanDigits` splits the input, the first part being digits -/
theorem spanDigits_spec (s : Text) : s = (spanDigits s).1 ++ (spanDigits s).2 ∧ (spanDigits s).1.all isDigit = true ∧
    (∀ c r, (spanDigits s).2 = c :: r → isDigit c = false) := by
  induction s with
  | nil => simp [spanDigits]
  | cons c t ih =>
    unfold spanDigits
    by_cases hc : isDigit c = true
    · simp only [hc, if_true]
      obtain ⟨h1, h2, h3⟩ := ih
      refine ⟨by simp [← h1], by simp [hc, h2], h3⟩
    · simp only [hc]
      simp
      simpa using hc

theorem spanDigits_eq (s a b : Text) (h : spanDigits s = (a, b)) : s = a ++ b ∧ a.all isDigit = true ∧
    (∀ c r, b = c :: r → isDigit c = false) := by
  have := spanDigits_spec s
  rw [h] at this
  exact this

theorem spanDigits_digits (ds : Text) (hd : ds.all isDigit = true) : spanDigits ds = (ds, []) := by
  have := spanDigits_all ds hd [] (by intro c r h; cases h)
  simpa using this

/-! ## stripping -/

theorem dropWhile_none {p : Char → Bool} (s : Text) (h : ∀ c ∈ s, p c = false) : s.dropWhile p = s := by
  cases s with
  | nil => rfl
  | cons c t => simp [List.dropWhile, h c (by simp)]

theorem stripU_id (s : Text) (h : ∀ c ∈ s, isPyUSpace c = false) : stripU s = s := by
  unfold stripU
  rw [dropWhile_none s h, dropWhile_none s.reverse (by intro c hc; exact h c (by simpa using hc))]
  simp

theorem stripSpace_id' (s : Text) (h : ∀ c ∈ s, isPyAsciiSpace c = false) : stripSpace s = s := by
  unfold stripSpace
  rw [dropWhile_none s h, dropWhile_none s.reverse (by intro c hc; exact h c (by simpa using hc))]
  simp

theorem filter_none {p : Char → Bool} (s : Text) (h : ∀ c ∈ s, p c = true) : s.filter p = s := by
  rw [List.filter_eq_self]; exact h

end SpyneModel

namespace SpyneModel
set_option linter.unusedSimpArgs false
set_option linter.unusedVariables false

/-! ## Decimal -/

/-- the characters `str(Decimal)` and the xs:decimal literals are made of -/
def decChar (c : Char) : Bool := isDigit c || c = '.' || c = '-' || c = '+' || c = 'E'

theorem digit_not_uspace (c : Char) (h : isDigit c = true) : isPyUSpace c = false := by
  simp [isDigit] at h
  simp only [isPyUSpace, Bool.or_eq_false_iff, Bool.and_eq_false_iff, decide_eq_false_iff_not]
  constructor <;> omega

theorem digit_ne_underscore (c : Char) (h : isDigit c = true) : (c != '_') = true := by
  have : c ≠ '_' := by intro e; subst e; simp [isDigit] at h
  simpa using this

theorem decChar_ok (c : Char) (h : decChar c = true) : isPyUSpace c = false ∧ (c != '_') = true := by
  simp only [decChar, Bool.or_eq_true, decide_eq_true_eq] at h
  rcases h with (((h | h) | h) | h) | h
  · exact ⟨digit_not_uspace c h, digit_ne_underscore c h⟩
  all_goals (subst h; decide)

theorem strip_filter_id (s : Text) (h : s.all decChar = true) :
    (stripU s).filter (fun c => c != '_') = s := by
  rw [List.all_eq_true] at h
  rw [stripU_id s (fun c hc => (decChar_ok c (h c hc)).1)]
  exact filter_none s (fun c hc => (decChar_ok c (h c hc)).2)

theorem all_decChar_of_digits (s : Text) (h : s.all isDigit = true) : s.all decChar = true := by
  rw [List.all_eq_true] at h ⊢
  intro c hc; simp [decChar, h c hc]

theorem pctPlusD_all (k : Int) : (pctPlusD k).all decChar = true := by
  unfold pctPlusD
  rw [List.all_cons, all_decChar_of_digits _ (natText_all_digits _)]
  by_cases hk : k < 0 <;> simp [hk, decChar]

theorem signedDigitsEnd_pctPlusD (k : Int) : signedDigitsEnd (pctPlusD k) = some k := by
  unfold signedDigitsEnd pctPlusD splitSign
  by_cases hk : k < 0
  · simp [hk, allDigits_natText, valNat_natText]; omega
  · simp [hk, allDigits_natText, valNat_natText]; omega

/-- the exponent suffix of a decimal text -/
def expSuffix : Option Int → Text
  | none => []
  | some k => 'E' :: pctPlusD k

theorem parseExpPart_expSuffix (e : Option Int) : parseExpPart (expSuffix e) = some (e.getD 0) := by
  cases e with
  | none => simp [expSuffix, parseExpPart]
  | some k => simp [expSuffix, parseExpPart, signedDigitsEnd_pctPlusD]

theorem expSuffix_head (e : Option Int) : ∀ c r, expSuffix e = c :: r → (isDigit c = false ∧ c ≠ '.') := by
  intro c r h
  cases e with
  | none => simp [expSuffix] at h
  | some k => simp [expSuffix] at h; rw [← h.1]; decide

theorem expSuffix_all (e : Option Int) : (expSuffix e).all decChar = true := by
  cases e with
  | none => simp [expSuffix]
  | some k => simp only [expSuffix, List.all_cons, pctPlusD_all]; decide

/-- the fraction part of a decimal text -/
def fracPart (hasPoint : Bool) (fp : Text) : Text := if hasPoint then '.' :: fp else []

theorem optFrac_fracPart (hasPoint : Bool) (fp : Text) (hfp : fp.all isDigit = true) (hp : hasPoint = false → fp = [])
    (e : Option Int) : optFrac (fracPart hasPoint fp ++ expSuffix e) = (fp, expSuffix e) := by
  cases hasPoint with
  | true =>
    simp only [fracPart, if_true, List.cons_append, optFrac]
    exact spanDigits_all fp hfp _ (fun c r h => (expSuffix_head e c r h).1)
  | false =>
    have := hp rfl
    subst this
    simp only [fracPart, Bool.false_eq_true, if_false, List.nil_append]
    cases hs : expSuffix e with
    | nil => simp [optFrac]
    | cons c r =>
      have := (expSuffix_head e c r hs).2
      simp [optFrac, this]

theorem parseDecNumber_build (ip fp : Text) (hasPoint : Bool) (e : Option Int)
    (hip : ip.all isDigit = true) (hfp : fp.all isDigit = true) (hp : hasPoint = false → fp = [])
    (hne : (ip.isEmpty && fp.isEmpty) = false) :
    parseDecNumber (ip ++ (fracPart hasPoint fp ++ expSuffix e)) = some (ip, fp, e.getD 0) := by
  have hsp : spanDigits (ip ++ (fracPart hasPoint fp ++ expSuffix e)) = (ip, fracPart hasPoint fp ++ expSuffix e) := by
    apply spanDigits_all ip hip
    intro c r h
    cases hasPoint with
    | true => simp [fracPart] at h; rw [← h.1]; decide
    | false =>
      simp [fracPart] at h
      exact (expSuffix_head e c r h).1
  unfold parseDecNumber
  rw [hsp]
  simp only [optFrac_fracPart hasPoint fp hfp hp e, hne, parseExpPart_expSuffix]
  simp

/-- sign prefix of a decimal text -/
def signText (neg : Bool) : Text := if neg then ['-'] else []

/-- `Decimal(str)` on a text assembled from its parts -/
theorem decFromText_build (F : Facts08x) (sg : Text) (neg : Bool)
    (hsg : (sg = [] ∧ neg = false) ∨ (sg = ['-'] ∧ neg = true) ∨ (sg = ['+'] ∧ neg = false))
    (ip fp : Text) (hasPoint : Bool) (e : Option Int)
    (hip : ip.all isDigit = true) (hfp : fp.all isDigit = true) (hp : hasPoint = false → fp = [])
    (hne : (ip.isEmpty && fp.isEmpty) = false)
    (hlen : (sg ++ (ip ++ (fracPart hasPoint fp ++ expSuffix e))).length ≤ F.decMaxStrLen)
    (hlim : decLimitsOk (valNat (ip ++ fp)) (e.getD 0 - (fp.length : Int)) = true) :
    decFromText F (sg ++ (ip ++ (fracPart hasPoint fp ++ expSuffix e))) =
      .ok (.fin ⟨neg, valNat (ip ++ fp), e.getD 0 - (fp.length : Int)⟩) := by
  have hall : (sg ++ (ip ++ (fracPart hasPoint fp ++ expSuffix e))).all decChar = true := by
    have h1 : sg.all decChar = true := by
      rcases hsg with ⟨h, _⟩ | ⟨h, _⟩ | ⟨h, _⟩ <;> subst h <;> decide
    have h2 : (fracPart hasPoint fp).all decChar = true := by
      cases hasPoint <;> simp [fracPart, all_decChar_of_digits fp hfp, decChar]
    simp only [List.all_append, h1, all_decChar_of_digits ip hip, h2, expSuffix_all, Bool.and_self]
  -- the body starts with a digit or the point
  have hbody : ∃ c r, ip ++ (fracPart hasPoint fp ++ expSuffix e) = c :: r ∧ c ≠ '-' ∧ c ≠ '+' := by
    cases ip with
    | cons c r =>
      rw [List.all_cons, Bool.and_eq_true] at hip
      refine ⟨c, _, rfl, ?_, ?_⟩ <;> (intro h; subst h; simp [isDigit] at hip)
    | nil =>
      cases hasPoint with
      | true => exact ⟨'.', fp ++ expSuffix e, by simp [fracPart], by decide, by decide⟩
      | false => have := hp rfl; subst this; simp at hne
  obtain ⟨c, r, hcr, hc1, hc2⟩ := hbody
  have hsplit : splitSign (sg ++ (ip ++ (fracPart hasPoint fp ++ expSuffix e))) =
      (neg, ip ++ (fracPart hasPoint fp ++ expSuffix e)) := by
    rcases hsg with ⟨h, hn⟩ | ⟨h, hn⟩ | ⟨h, hn⟩ <;> subst h <;> subst hn
    · rw [List.nil_append, hcr]; simp [splitSign, hc1, hc2]
    · simp [splitSign]
    · simp [splitSign]
  unfold decFromText
  have hl : ¬ ((sg ++ (ip ++ (fracPart hasPoint fp ++ expSuffix e))).length > F.decMaxStrLen) := by omega
  simp only [hl, if_false, strip_filter_id _ hall, hsplit,
    parseDecNumber_build ip fp hasPoint e hip hfp hp hne, hlim, if_true]

end SpyneModel

namespace SpyneModel
set_option linter.unusedSimpArgs false
set_option linter.unusedVariables false

theorem all_take (s : Text) (k : Nat) (h : s.all isDigit = true) : (s.take k).all isDigit = true := by
  rw [List.all_eq_true] at h ⊢
  intro c hc; exact h c (List.mem_of_mem_take hc)

theorem all_drop (s : Text) (k : Nat) (h : s.all isDigit = true) : (s.drop k).all isDigit = true := by
  rw [List.all_eq_true] at h ⊢
  intro c hc; exact h c (List.mem_of_mem_drop hc)

theorem natText_length_pos (n : Nat) : 0 < (natText n).length := by
  have := natText_ne_nil n
  cases h : natText n with
  | nil => exact absurd h this
  | cons c t => simp

/-- `str(Decimal)` decomposed into the parts the parser looks for -/
theorem decToText_form (d : Dec) : ∃ (ip fp : Text) (hasPoint : Bool) (e : Option Int),
    decToText d = signText d.neg ++ (ip ++ (fracPart hasPoint fp ++ expSuffix e)) ∧
    ip.all isDigit = true ∧ fp.all isDigit = true ∧ (hasPoint = false → fp = []) ∧
    (ip.isEmpty && fp.isEmpty) = false ∧ valNat (ip ++ fp) = d.coeff ∧
    e.getD 0 - (fp.length : Int) = d.exp ∧ (e = none ↔ (d.exp ≤ 0 ∧ d.leftdigits > -6)) := by
  have hds := natText_all_digits d.coeff
  have hpos := natText_length_pos d.coeff
  have hval := valNat_natText d.coeff
  have hne : (natText d.coeff).isEmpty = false := natText_isEmpty d.coeff
  unfold decToText Dec.leftdigits
  simp only []
  generalize hn : (natText d.coeff).length = n at hpos
  by_cases hplain : d.exp ≤ 0 ∧ d.exp + (n : Int) > -6
  · simp only [hplain, and_self, if_true]
    by_cases hA : d.exp + (n : Int) ≤ 0
    · -- 0.000ddd
      refine ⟨['0'], List.replicate (-(d.exp + (n : Int))).toNat '0' ++ natText d.coeff, true, none, ?_, by decide, ?_, by simp, by simp, ?_, ?_, by simp [hplain]⟩
      · simp [hA, signText, fracPart, expSuffix]
      · rw [List.all_append, replicate_zero_all_digits, hds]; rfl
      · have : ['0'] ++ (List.replicate (-(d.exp + (n : Int))).toNat '0' ++ natText d.coeff) =
            List.replicate ((-(d.exp + (n : Int))).toNat + 1) '0' ++ natText d.coeff := by
          simp [List.replicate_succ]
        rw [this, valNat_append, valNat_replicate_zero, hval]; simp
      · simp [hn]; omega
    · simp only [hA, if_false]
      by_cases hB : d.exp + (n : Int) ≥ (n : Int)
      · -- ddd
        have h0 : (d.exp + (n : Int) - (n : Int)).toNat = 0 := by omega
        refine ⟨natText d.coeff, [], false, none, ?_, hds, by simp, by simp, by simp [hne], by simp [hval], ?_, by simp [hplain]⟩
        · simp [hB, h0, signText, fracPart, expSuffix] <;> omega
        · simp; omega
      · -- dd.ddd
        simp only [hB, if_false]
        have hk : (d.exp + (n : Int)).toNat < n := by omega
        have hk0 : 0 < (d.exp + (n : Int)).toNat := by omega
        refine ⟨(natText d.coeff).take (d.exp + (n : Int)).toNat, (natText d.coeff).drop (d.exp + (n : Int)).toNat, true, none,
          ?_, all_take _ _ hds, all_drop _ _ hds, by simp, ?_, by rw [List.take_append_drop]; exact hval, ?_, by simp [hplain]⟩
        · simp [signText, fracPart, expSuffix]
        · have : ((natText d.coeff).take (d.exp + (n : Int)).toNat).isEmpty = false := by
            cases hc : natText d.coeff with
            | nil => simp [hc] at hne
            | cons c t =>
              cases hk' : (d.exp + (n : Int)).toNat with
              | zero => omega
              | succ k => simp
          simp [this]
        · simp [hn]; omega
  · simp only [hplain, if_false]
    have hleft : ¬ (d.exp + (n : Int) = 1) := by omega
    have h10 : ¬ ((1 : Int) ≤ 0) := by omega
    simp only [hleft, h10, if_false]
    by_cases hD : (1 : Int) ≥ (n : Int)
    · -- dE+x
      have hn1 : n = 1 := by omega
      have h0 : ((1 : Int) - (n : Int)).toNat = 0 := by omega
      refine ⟨natText d.coeff, [], false, some (d.exp + (n : Int) - 1), ?_, hds, by simp, by simp, by simp [hne], by simp [hval], ?_, ?_⟩
      · simp [hD, h0, signText, fracPart, expSuffix]
      · simp; omega
      · simp <;> exact hplain
    · -- d.dddE+x
      simp only [hD, if_false]
      refine ⟨(natText d.coeff).take 1, (natText d.coeff).drop 1, true, some (d.exp + (n : Int) - 1),
        ?_, all_take _ _ hds, all_drop _ _ hds, by simp, ?_, by rw [List.take_append_drop]; exact hval, ?_, ?_⟩
      · simp [signText, fracPart, expSuffix]
      · cases hc : natText d.coeff with
        | nil => simp [hc] at hne
        | cons c t => simp
      · simp [hn]; omega
      · simp <;> exact hplain

theorem signText_cases (neg : Bool) :
    (signText neg = [] ∧ neg = false) ∨ (signText neg = ['-'] ∧ neg = true) ∨ (signText neg = ['+'] ∧ neg = false) := by
  cases neg <;> simp [signText]

/-- every finite Decimal whose text fits the guard is read back as the same (sign, coefficient, exponent) -/
theorem decFromText_decToText (F : Facts08x) (d : Dec) (hrep : d.representable)
    (hlen : (decToText d).length ≤ F.decMaxStrLen) : decFromText F (decToText d) = .ok (.fin d) := by
  obtain ⟨ip, fp, hasPoint, e, hform, hip, hfp, hp, hne, hv, he, _⟩ := decToText_form d
  rw [hform] at hlen ⊢
  have hlim : decLimitsOk (valNat (ip ++ fp)) (e.getD 0 - (fp.length : Int)) = true := by
    rw [hv, he]; exact hrep
  rw [decFromText_build F (signText d.neg) d.neg (signText_cases d.neg) ip fp hasPoint e hip hfp hp hne hlen hlim, hv, he]

end SpyneModel

namespace SpyneModel
set_option linter.unusedSimpArgs false
set_option linter.unusedVariables false

theorem xsdDecimal_build (sg : Text) (neg : Bool)
    (hsg : (sg = [] ∧ neg = false) ∨ (sg = ['-'] ∧ neg = true) ∨ (sg = ['+'] ∧ neg = false))
    (ip fp : Text) (hasPoint : Bool)
    (hip : ip.all isDigit = true) (hfp : fp.all isDigit = true) (hp : hasPoint = false → fp = [])
    (hne : (ip.isEmpty && fp.isEmpty) = false) :
    XsdLex.decimal (sg ++ (ip ++ (fracPart hasPoint fp ++ expSuffix none))) = true := by
  have hbody : ∃ c r, ip ++ (fracPart hasPoint fp ++ expSuffix none) = c :: r ∧ c ≠ '-' ∧ c ≠ '+' := by
    cases ip with
    | cons c r =>
      rw [List.all_cons, Bool.and_eq_true] at hip
      refine ⟨c, _, rfl, ?_, ?_⟩ <;> (intro h; subst h; simp [isDigit] at hip)
    | nil =>
      cases hasPoint with
      | true => exact ⟨'.', fp ++ expSuffix none, by simp [fracPart], by decide, by decide⟩
      | false => have := hp rfl; subst this; simp at hne
  obtain ⟨c, r, hcr, hc1, hc2⟩ := hbody
  have hsplit : splitSign (sg ++ (ip ++ (fracPart hasPoint fp ++ expSuffix none))) =
      (neg, ip ++ (fracPart hasPoint fp ++ expSuffix none)) := by
    rcases hsg with ⟨h, hn⟩ | ⟨h, hn⟩ | ⟨h, hn⟩ <;> subst h <;> subst hn
    · rw [List.nil_append, hcr]; simp [splitSign, hc1, hc2]
    · simp [splitSign]
    · simp [splitSign]
  have hsp : spanDigits (ip ++ (fracPart hasPoint fp ++ expSuffix none)) = (ip, fracPart hasPoint fp ++ expSuffix none) := by
    apply spanDigits_all ip hip
    intro c r h
    cases hasPoint with
    | true => simp [fracPart] at h; rw [← h.1]; decide
    | false => simp [fracPart, expSuffix] at h
  unfold XsdLex.decimal
  rw [hsplit]
  simp only [hsp]
  cases hasPoint with
  | true =>
    simp only [fracPart, if_true, expSuffix, List.append_nil, spanDigits_digits fp hfp]
    simp [hne]
  | false =>
    have := hp rfl; subst this
    simp [fracPart, expSuffix]
    simpa using hne

/-- what `str(Decimal)` writes without an exponent is an xs:decimal literal -/
theorem xsdDecimal_decToText_plain (d : Dec) (h1 : d.exp ≤ 0) (h2 : d.leftdigits > -6) :
    XsdLex.decimal (decToText d) = true := by
  obtain ⟨ip, fp, hasPoint, e, hform, hip, hfp, hp, hne, _, _, hiff⟩ := decToText_form d
  have : e = none := hiff.2 ⟨h1, h2⟩
  subst this
  rw [hform]
  exact xsdDecimal_build (signText d.neg) d.neg (signText_cases d.neg) ip fp hasPoint hip hfp hp hne

/-- an xs:decimal literal decomposed into sign, integer digits and fraction digits -/
theorem xsdDecimal_form (s : Text) (h : XsdLex.decimal s = true) :
    ∃ (sg : Text) (neg : Bool) (ip fp : Text) (hasPoint : Bool),
      s = sg ++ (ip ++ (fracPart hasPoint fp ++ expSuffix none)) ∧
      ((sg = [] ∧ neg = false) ∨ (sg = ['-'] ∧ neg = true) ∨ (sg = ['+'] ∧ neg = false)) ∧
      ip.all isDigit = true ∧ fp.all isDigit = true ∧ (hasPoint = false → fp = []) ∧
      (ip.isEmpty && fp.isEmpty) = false ∧
      splitSign s = (neg, ip ++ (fracPart hasPoint fp ++ expSuffix none)) := by
  -- sign
  have hsign : ∃ (sg : Text) (neg : Bool) (body : Text), s = sg ++ body ∧ splitSign s = (neg, body) ∧
      ((sg = [] ∧ neg = false) ∨ (sg = ['-'] ∧ neg = true) ∨ (sg = ['+'] ∧ neg = false)) := by
    cases s with
    | nil => exact ⟨[], false, [], rfl, rfl, Or.inl ⟨rfl, rfl⟩⟩
    | cons c r =>
      by_cases h1 : c = '-'
      · subst h1; exact ⟨['-'], true, r, rfl, by simp [splitSign], Or.inr (Or.inl ⟨rfl, rfl⟩)⟩
      · by_cases h2 : c = '+'
        · subst h2; exact ⟨['+'], false, r, rfl, by simp [splitSign], Or.inr (Or.inr ⟨rfl, rfl⟩)⟩
        · exact ⟨[], false, c :: r, rfl, by simp [splitSign, h1, h2], Or.inl ⟨rfl, rfl⟩⟩
  obtain ⟨sg, neg, body, hs, hsplit, hsg⟩ := hsign
  unfold XsdLex.decimal at h
  rw [hsplit] at h
  simp only at h
  obtain ⟨hb, hipd, _⟩ := spanDigits_spec body
  generalize hsd : spanDigits body = p at h hb hipd
  obtain ⟨ip, r1⟩ := p
  simp only at h hb hipd
  cases r1 with
  | nil =>
    simp only at h
    refine ⟨sg, neg, ip, [], false, ?_, hsg, hipd, by simp, by simp, ?_, ?_⟩
    · rw [hs, hb]; simp [fracPart, expSuffix]
    · simpa using h
    · rw [hsplit, hb]; simp [fracPart, expSuffix]
  | cons c r =>
    simp only at h
    by_cases hc : c = '.'
    · subst hc
      simp only [if_true] at h
      obtain ⟨hr, hfpd, _⟩ := spanDigits_spec r
      generalize hsd2 : spanDigits r = p2 at h hr hfpd
      obtain ⟨fp, r2⟩ := p2
      simp only [Bool.and_eq_true, List.isEmpty_iff] at h hr hfpd
      obtain ⟨hr2, hne⟩ := h
      subst hr2
      simp only [List.append_nil] at hr
      subst hr
      refine ⟨sg, neg, ip, r, true, ?_, hsg, hipd, hfpd, by simp, ?_, ?_⟩
      · rw [hs, hb]; simp [fracPart, expSuffix]
      · revert hne; cases ip <;> cases r <;> simp
      · rw [hsplit, hb]; simp [fracPart, expSuffix]
    · simp [hc] at h

theorem natText_valNat_length (ds : Text) (hd : ds.all isDigit = true) (hne : ds ≠ []) :
    (natText (valNat ds)).length ≤ ds.length := by
  have hlt := valNat_lt_pow ds hd
  cases hl : ds.length with
  | zero => cases ds <;> simp_all
  | succ k =>
    rw [hl] at hlt
    exact natText_length_le k _ hlt

/-- every xs:decimal literal within the length guard is read, and as the number it denotes -/
theorem decFromText_xsdDecimal (F : Facts08x) (hG : F.decMaxStrLen ≤ 999999999999999999)
    (s : Text) (h : XsdLex.decimal s = true) (hlen : s.length ≤ F.decMaxStrLen) :
    ∃ d, decFromText F s = .ok (.fin d) ∧
      sameValue d.num d.scale (XsdLex.valueOfDecimal s).1 (XsdLex.valueOfDecimal s).2 := by
  obtain ⟨sg, neg, ip, fp, hasPoint, hs, hsg, hip, hfp, hp, hne, hsplit⟩ := xsdDecimal_form s h
  have hiplen : ip.length + fp.length ≤ s.length := by
    rw [hs]
    cases hasPoint with
    | true => simp [fracPart]; omega
    | false => have := hp rfl; subst this; simp; omega
  have hfplen : fp.length ≤ s.length := by omega
  have hne' : ip ++ fp ≠ [] := by
    intro hh; simp at hh; simp [hh.1, hh.2] at hne
  have hnt := natText_valNat_length (ip ++ fp) (by simp [List.all_append, hip, hfp]) hne'
  have hlim : decLimitsOk (valNat (ip ++ fp)) ((none : Option Int).getD 0 - (fp.length : Int)) = true := by
    simp only [decLimitsOk, Bool.and_eq_true, decide_eq_true_eq]
    simp only [decEtiny, decEmax, Option.getD_none]
    simp at hnt
    constructor <;> omega
  refine ⟨⟨neg, valNat (ip ++ fp), (none : Option Int).getD 0 - (fp.length : Int)⟩, ?_, ?_⟩
  · rw [hs] at hlen ⊢
    exact decFromText_build F sg neg hsg ip fp hasPoint none hip hfp hp hne hlen hlim
  · have hsp : spanDigits (ip ++ (fracPart hasPoint fp ++ expSuffix none)) = (ip, fracPart hasPoint fp ++ expSuffix none) := by
      apply spanDigits_all ip hip
      intro c r h
      cases hasPoint with
      | true => simp [fracPart] at h; rw [← h.1]; decide
      | false => simp [fracPart, expSuffix] at h
    unfold XsdLex.valueOfDecimal
    rw [hsplit]
    simp only [hsp, optFrac_fracPart hasPoint fp hfp hp none]
    unfold sameValue Dec.num Dec.scale
    simp only [Option.getD_none]
    have e1 : ((0 : Int) - (fp.length : Int)).toNat = 0 := by omega
    have e2 : (-((0 : Int) - (fp.length : Int))).toNat = fp.length := by omega
    rw [e1, e2, valNat_append]
    cases neg <;> simp

end SpyneModel

namespace SpyneModel
set_option linter.unusedSimpArgs false
set_option linter.unusedVariables false

/-! ## xs:integer, xs:boolean -/

theorem digit_not_space (c : Char) (h : isDigit c = true) : isPyAsciiSpace c = false := not_space_of_digit c h

theorem pyDigitGroups_digits (ds : Text) (hd : ds.all isDigit = true) (hne : ds ≠ []) : pyDigitGroups ds = some ds := by
  cases ds with
  | nil => exact absurd rfl hne
  | cons c t =>
    rw [List.all_cons, Bool.and_eq_true] at hd
    simp [pyDigitGroups, hd.1, pyDigitsAfter_digits t hd.2]

theorem allDigits_iff (ds : Text) : allDigits ds = true ↔ (ds ≠ [] ∧ ds.all isDigit = true) := by
  unfold allDigits
  cases ds <;> simp

theorem xsdInteger_intToText (i : Int) : XsdLex.integer (intToText i) = true := by
  unfold XsdLex.integer intToText intText
  by_cases hi : i < 0
  · simp [hi, splitSign, allDigits_natText]
  · obtain ⟨c, t, hct, hcd⟩ := natText_head i.natAbs
    have hm : c ≠ '-' := by intro e; subst e; simp [isDigit] at hcd
    have hp : c ≠ '+' := by intro e; subst e; simp [isDigit] at hcd
    simp only [hi, if_false]
    have : splitSign (natText i.natAbs) = (false, natText i.natAbs) := by
      rw [hct]; simp [splitSign, hm, hp]
    rw [this]; exact allDigits_natText _

theorem pyInt_xsdInteger (s : Text) (h : XsdLex.integer s = true) : pyInt s = some (XsdLex.valueOfInteger s) := by
  unfold XsdLex.integer at h
  unfold XsdLex.valueOfInteger
  cases s with
  | nil => simp [splitSign, allDigits] at h
  | cons c r =>
    by_cases h1 : c = '-'
    · subst h1
      simp only [splitSign, if_true] at h ⊢
      obtain ⟨hne, hd⟩ := (allDigits_iff r).1 h
      have hall : ∀ x ∈ '-' :: r, isPyAsciiSpace x = false := by
        intro x hx
        simp at hx
        rcases hx with hx | hx
        · subst hx; decide
        · exact digit_not_space x (List.all_eq_true.1 hd x hx)
      unfold pyInt
      rw [stripSpace_id' _ hall]
      simp [pyDigitGroups_digits r hd hne]
    · by_cases h2 : c = '+'
      · subst h2
        simp only [splitSign, h1, if_false, if_true] at h ⊢
        obtain ⟨hne, hd⟩ := (allDigits_iff r).1 h
        have hall : ∀ x ∈ '+' :: r, isPyAsciiSpace x = false := by
          intro x hx
          simp at hx
          rcases hx with hx | hx
          · subst hx; decide
          · exact digit_not_space x (List.all_eq_true.1 hd x hx)
        unfold pyInt
        rw [stripSpace_id' _ hall]
        simp [pyDigitGroups_digits r hd hne]
      · simp only [splitSign, h1, h2, if_false] at h ⊢
        obtain ⟨hne, hd⟩ := (allDigits_iff (c :: r)).1 h
        have hall : ∀ x ∈ c :: r, isPyAsciiSpace x = false :=
          fun x hx => digit_not_space x (List.all_eq_true.1 hd x hx)
        unfold pyInt
        rw [stripSpace_id' _ hall]
        split
        · rename_i heq; simp at heq; exact absurd heq.1 h1
        · rename_i heq; simp at heq; exact absurd heq.1 h2
        · simp [pyDigitGroups_digits (c :: r) hd hne]

theorem intFromText_xsdInteger (F : Facts08) (k : IntKind) (s : Text) (h : XsdLex.integer s = true)
    (hlen : s.length ≤ F.intMaxStrLen k) : intFromText F k s = .ok (XsdLex.valueOfInteger s) := by
  unfold intFromText
  have : ¬ (s.length > F.intMaxStrLen k) := by omega
  simp [this, pyInt_xsdInteger s h]

/-! ## xs:date, xs:time, xs:dateTime: what `isoformat()` writes is a literal -/

theorem pad4_all_digits (n : Nat) (h : n < 10000) : (pad4 n).all isDigit = true := by
  simp [pad4, isDigit_digitChar (n / 1000) (by omega), isDigit_digitChar (n / 100 % 10) (by omega),
    isDigit_digitChar (n / 10 % 10) (by omega), isDigit_digitChar (n % 10) (by omega)]

theorem valNat_pad4 (n : Nat) (h : n < 10000) : valNat (pad4 n) = n := by
  simp [pad4, valNat, dval_digitChar (n / 1000) (by omega), dval_digitChar (n / 100 % 10) (by omega),
    dval_digitChar (n / 10 % 10) (by omega), dval_digitChar (n % 10) (by omega)]
  omega

theorem pad4_length (n : Nat) : (pad4 n).length = 4 := by simp [pad4]

theorem xsd_zone_nil : XsdLex.zone [] = some none := by simp [XsdLex.zone]

theorem xsd_zone_fmtOffset (m : Int) (h1 : -840 ≤ m) (h2 : m ≤ 840) : XsdLex.zone (fmtOffset m) = some (some m) := by
  have hf := parseOffsetFields_fmtOffset m (by omega) []
  simp only [List.append_nil] at hf
  have hform : fmtOffset m = (if m < 0 then '-' else '+') :: (pad2 (m.natAbs / 60) ++ ':' :: pad2 (m.natAbs % 60)) := rfl
  have hZ : (if m < 0 then '-' else '+') ≠ 'Z' := by split <;> decide
  unfold XsdLex.zone
  rw [hform] at hf ⊢
  simp only [hZ, if_false, hf]
  have hb : (decide (m.natAbs / 60 < 14) && decide (m.natAbs % 60 < 60) || decide (m.natAbs / 60 = 14) && decide (m.natAbs % 60 = 0)) = true := by
    by_cases h14 : m.natAbs / 60 < 14
    · simp [h14]; omega
    · have : m.natAbs / 60 = 14 := by omega
      have : m.natAbs % 60 = 0 := by omega
      simp [*]
  simp only [List.isEmpty_nil, Bool.true_and, hb, if_true]
  by_cases hm : m < 0
  · simp [hm]; omega
  · simp [hm]; omega

/-- the zone suffix `isoformat()` appends -/
def zoneText : Option Int → Text
  | none => []
  | some m => fmtOffset m

theorem zoneStart_zoneText (tz : Option Int) : zoneStart (zoneText tz) := by
  cases tz with
  | none => exact zoneStart_nil
  | some m => exact zoneStart_fmtOffset m

theorem xsd_zone_zoneText (tz : Option Int) (h : ∀ m, tz = some m → -840 ≤ m ∧ m ≤ 840) :
    XsdLex.zone (zoneText tz) = some tz := by
  cases tz with
  | none => exact xsd_zone_nil
  | some m => exact xsd_zone_fmtOffset m (h m rfl).1 (h m rfl).2

theorem xsd_dateHead_isoDate (x : Date) (hv : x.valid = true) (rest : Text) (hr : ∀ c r, rest = c :: r → isDigit c = false) :
    XsdLex.dateHead (isoDate x ++ rest) = some (false, pad4 x.y, x.m, x.d, rest) := by
  simp [Date.valid] at hv
  obtain ⟨⟨⟨⟨⟨hy1, hy2⟩, hm1⟩, hm2⟩, hd1⟩, hd2⟩ := hv
  have hd3 : x.d ≤ 31 := Nat.le_trans hd2 (daysInMonth_le _ _)
  have hy : x.y < 10000 := by omega
  have hhead : ∃ c t, isoDate x ++ rest = c :: t ∧ c ≠ '-' := by
    refine ⟨digitChar (x.y / 1000), digitChar (x.y / 100 % 10) ::
      digitChar (x.y / 10 % 10) :: digitChar (x.y % 10) :: '-' :: (pad2 x.m ++ '-' :: (pad2 x.d ++ rest)), by simp [isoDate, pad4], ?_⟩
    have := isDigit_digitChar (x.y / 1000) (by omega)
    intro e; rw [e] at this; simp [isDigit] at this
  obtain ⟨c, t, hct, hcm⟩ := hhead
  have hsm : splitMinus (isoDate x ++ rest) = (false, isoDate x ++ rest) := by
    rw [hct]; simp [splitMinus, hcm]
  have hsp : spanDigits (isoDate x ++ rest) = (pad4 x.y, '-' :: (pad2 x.m ++ '-' :: (pad2 x.d ++ rest))) := by
    have : isoDate x ++ rest = pad4 x.y ++ ('-' :: (pad2 x.m ++ '-' :: (pad2 x.d ++ rest))) := by
      simp [isoDate, List.append_assoc]
    rw [this]
    exact spanDigits_all _ (pad4_all_digits _ hy) _ (by intro c r h; simp at h; rw [← h.1]; decide)
  unfold XsdLex.dateHead
  rw [hsm]
  simp only [hsp, pad4_length, valNat_pad4 _ hy]
  have h0 : ¬ (x.y = 0) := by omega
  simp [h0, expect, take2_pad2 x.m (by omega), take2_pad2 x.d (by omega), hm1, hm2, hd1, hd2]

theorem xsd_timeHead_isoTime (t : Time) (hv : t.valid = true) (rest : Text) (hr : zoneStart rest) :
    XsdLex.timeHead (isoTime t ++ rest) = some (t.h, t.mi, t.s, (if t.us = 0 then [] else pad6 t.us), rest) := by
  simp [Time.valid] at hv
  obtain ⟨⟨⟨hh, hmi⟩, hs⟩, hus⟩ := hv
  unfold XsdLex.timeHead isoTime
  simp only [List.append_assoc, List.cons_append, take2_pad2 t.h (by omega), expect, take2_pad2 t.mi (by omega),
    take2_pad2 t.s (by omega), if_true]
  by_cases hz : t.us = 0
  · simp only [hz, if_true, List.nil_append]
    cases rest with
    | nil => simp [XsdLex.fracDigits, hh, hmi, hs]
    | cons c r =>
      have := (hr c r rfl).2
      simp [XsdLex.fracDigits, this, hh, hmi, hs]
  · simp only [hz, if_false, List.cons_append, if_true]
    have hsp : spanDigits (pad6 t.us ++ rest) = (pad6 t.us, rest) :=
      spanDigits_all _ (pad6_all_digits _ hus) rest (fun c r h => (hr c r h).1)
    have hne : (pad6 t.us).isEmpty = false := by simp [pad6]
    simp [XsdLex.fracDigits, hsp, hne, hh, hmi, hs]

theorem xsdDate_isoDate (x : Date) (hv : x.valid = true) : XsdLex.date (isoDate x) = true := by
  have := xsd_dateHead_isoDate x hv [] (by intro c r h; cases h)
  simp only [List.append_nil] at this
  simp [XsdLex.date, this, xsd_zone_nil]

theorem xsdTime_isoTime (t : Time) (hv : t.valid = true) : XsdLex.time (isoTime t) = true := by
  have := xsd_timeHead_isoTime t hv [] zoneStart_nil
  simp only [List.append_nil] at this
  simp [XsdLex.time, this, xsd_zone_nil]

theorem isoDateTime_eq (x : DateTime) :
    isoDateTime x = isoDate x.date ++ ('T' :: (isoTime x.time ++ zoneText x.tz)) := by
  unfold isoDateTime zoneText
  cases x.tz <;> rfl

theorem xsdDateTimeLit_isoDateTime (x : DateTime) (hv : x.valid = true)
    (htz : ∀ m, x.tz = some m → -840 ≤ m ∧ m ≤ 840) :
    XsdLex.dateTimeLit (isoDateTime x) = some ⟨false, pad4 x.date.y, x.date.m, x.date.d, x.time.h, x.time.mi, x.time.s,
      (if x.time.us = 0 then [] else pad6 x.time.us), x.tz⟩ := by
  simp [DateTime.valid] at hv
  obtain ⟨⟨hd, ht⟩, _⟩ := hv
  rw [isoDateTime_eq]
  unfold XsdLex.dateTimeLit
  rw [xsd_dateHead_isoDate x.date hd _ (by intro c r h; simp at h; rw [← h.1]; decide)]
  simp only [expect, if_true]
  rw [xsd_timeHead_isoTime x.time ht _ (zoneStart_zoneText x.tz)]
  simp only [xsd_zone_zoneText x.tz htz]

end SpyneModel

namespace SpyneModel
set_option linter.unusedSimpArgs false
set_option linter.unusedVariables false

/-! ## every xs:dateTime literal that denotes a representable value is read as that value -/

theorem fracToMicros_lt (fs : Text) (hd : fs.all isDigit = true) : fracToMicros fs < 1000000 := by
  unfold fracToMicros
  simp only []
  by_cases hk : fs.length ≤ 6
  · simp only [hk, if_true]
    have hlt := valNat_lt_pow fs hd
    have hp : 10 ^ fs.length * 10 ^ (6 - fs.length) = 1000000 := by
      rw [← Nat.pow_add]
      have : fs.length + (6 - fs.length) = 6 := by omega
      rw [this]
    have hpos : 0 < 10 ^ (6 - fs.length) := Nat.pow_pos (by decide)
    have := Nat.mul_lt_mul_of_pos_right hlt hpos
    omega
  · simp only [hk, if_false]
    have := Nat.min_le_left 999999 (if 2 * (valNat fs % 10 ^ (fs.length - 6)) < 10 ^ (fs.length - 6) then valNat fs / 10 ^ (fs.length - 6)
      else if 2 * (valNat fs % 10 ^ (fs.length - 6)) > 10 ^ (fs.length - 6) then valNat fs / 10 ^ (fs.length - 6) + 1
      else if valNat fs / 10 ^ (fs.length - 6) % 2 = 0 then valNat fs / 10 ^ (fs.length - 6) else valNat fs / 10 ^ (fs.length - 6) + 1)
    omega

theorem splitMinus_false (s s1 : Text) (h : splitMinus s = (false, s1)) : s1 = s := by
  cases s with
  | nil => simp [splitMinus] at h; exact h
  | cons c r =>
    by_cases hc : c = '-'
    · simp [splitMinus, hc] at h
    · simp [splitMinus, hc] at h; exact h.symm

theorem expect_some (c : Char) (s r : Text) (h : expect c s = some r) : s = c :: r := by
  cases s with
  | nil => simp [expect] at h
  | cons x t =>
    by_cases hx : x = c
    · simp [expect, hx] at h; rw [hx, h]
    · simp [expect, hx] at h

theorem take4_of_span (s yd r : Text) (h : spanDigits s = (yd, r)) (hl : yd.length = 4) :
    take4 s = some (valNat yd, r) := by
  obtain ⟨hs, hd, _⟩ := spanDigits_eq s yd r h
  match yd, hl with
  | [a, b, c, d], _ =>
    simp at hd
    obtain ⟨ha, hb, hc, hdd⟩ := hd
    rw [hs]
    simp [take4, ha, hb, hc, hdd, valNat]
    omega

/-- the date part: an XSD date head with a four-digit year is what the implementation's pattern reads -/
theorem parseDateFields_of_xsd (s yd r : Text) (mo d : Nat)
    (h : XsdLex.dateHead s = some (false, yd, mo, d, r)) (hl : yd.length = 4) :
    parseDateFields s = some (⟨valNat yd, mo, d⟩, r) ∧ Date.valid ⟨valNat yd, mo, d⟩ = true := by
  unfold XsdLex.dateHead at h
  generalize hsm : splitMinus s = p at h
  obtain ⟨neg, s1⟩ := p
  simp only at h
  generalize hsd : spanDigits s1 = q at h
  obtain ⟨yd', r1⟩ := q
  simp only at h
  split at h
  · simp at h
  split at h
  · simp at h
  split at h
  · simp at h
  rename_i c1 c2 c3
  cases he1 : expect '-' r1 with
  | none => simp [he1] at h
  | some r2 =>
    simp only [he1] at h
    cases ht1 : take2 r2 with
    | none => simp [ht1] at h
    | some p1 =>
      obtain ⟨mo', r3⟩ := p1
      simp only [ht1] at h
      cases he2 : expect '-' r3 with
      | none => simp [he2] at h
      | some r4 =>
        simp only [he2] at h
        cases ht2 : take2 r4 with
        | none => simp [ht2] at h
        | some p2 =>
          obtain ⟨d', r5⟩ := p2
          simp only [ht2] at h
          split at h
          · rename_i c4
            simp only [Option.some.injEq, Prod.mk.injEq] at h
            obtain ⟨hn, hyd, hmo, hd, hr⟩ := h
            subst hn; subst hyd; subst hmo; subst hd; subst hr
            have hs1 := splitMinus_false s s1 hsm
            subst hs1
            have ht4 := take4_of_span s1 yd' r1 hsd hl
            have hlt := valNat_lt_pow yd' (spanDigits_eq s1 yd' r1 hsd).2.1
            rw [hl] at hlt
            constructor
            · simp [parseDateFields, ht4, he1, ht1, he2, ht2]
            · simp at c4
              simp [Date.valid, c4]
              omega
          · simp at h

/-- the optional fraction -/
theorem parseTimeFields_frac (s r5 fs rest : Text) (h' mi' sec' : Nat) (r1 r2 r3 r4 : Text)
    (ht1 : take2 s = some (h', r1)) (he1 : expect ':' r1 = some r2) (ht2 : take2 r2 = some (mi', r3))
    (he2 : expect ':' r3 = some r4) (ht3 : take2 r4 = some (sec', r5))
    (hm : XsdLex.fracDigits r5 = some (fs, rest)) :
    fs.all isDigit = true ∧ parseTimeFields s = some (⟨h', mi', sec', fracToMicros fs⟩, rest) := by
  cases r5 with
  | nil =>
    simp [XsdLex.fracDigits] at hm
    obtain ⟨rfl, rfl⟩ := hm
    refine ⟨by simp, ?_⟩
    simp [parseTimeFields, ht1, he1, ht2, he2, ht3, fracToMicros, valNat]
  | cons c r6 =>
    by_cases hc : c = '.'
    · subst hc
      simp only [XsdLex.fracDigits, if_true] at hm
      obtain ⟨hr6, hfd, _⟩ := spanDigits_spec r6
      by_cases hem : (spanDigits r6).1.isEmpty = true
      · simp [hem] at hm
      · simp only [hem, if_false, Option.some.injEq, Prod.mk.injEq] at hm
        obtain ⟨rfl, rfl⟩ := hm
        refine ⟨hfd, ?_⟩
        simp [parseTimeFields, ht1, he1, ht2, he2, ht3, hem]
    · simp only [XsdLex.fracDigits, hc, if_false, Option.some.injEq, Prod.mk.injEq] at hm
      obtain ⟨rfl, rfl⟩ := hm
      refine ⟨by simp, ?_⟩
      have : fracToMicros [] = 0 := by simp [fracToMicros, valNat]
      rw [this]
      unfold parseTimeFields
      simp only [ht1, he1, ht2, he2, ht3]
      split
      · rename_i heq; simp at heq; exact absurd heq.1 hc
      · rfl

/-- the time part -/
theorem parseTimeFields_of_xsd (s fs r : Text) (hh mi sec : Nat)
    (h : XsdLex.timeHead s = some (hh, mi, sec, fs, r)) (h24 : hh < 24) :
    parseTimeFields s = some (⟨hh, mi, sec, fracToMicros fs⟩, r) ∧ Time.valid ⟨hh, mi, sec, fracToMicros fs⟩ = true := by
  unfold XsdLex.timeHead at h
  cases ht1 : take2 s with
  | none => simp [ht1] at h
  | some p1 =>
    obtain ⟨h', r1⟩ := p1
    simp only [ht1] at h
    cases he1 : expect ':' r1 with
    | none => simp [he1] at h
    | some r2 =>
      simp only [he1] at h
      cases ht2 : take2 r2 with
      | none => simp [ht2] at h
      | some p2 =>
        obtain ⟨mi', r3⟩ := p2
        simp only [ht2] at h
        cases he2 : expect ':' r3 with
        | none => simp [he2] at h
        | some r4 =>
          simp only [he2] at h
          cases ht3 : take2 r4 with
          | none => simp [ht3] at h
          | some p3 =>
            obtain ⟨sec', r5⟩ := p3
            simp only [ht3] at h
            cases hfr : XsdLex.fracDigits r5 with
            | none => simp [hfr] at h
            | some pf =>
              obtain ⟨fs', rest'⟩ := pf
              simp only [hfr] at h
              obtain ⟨hfd, hparse⟩ := parseTimeFields_frac s r5 fs' rest' h' mi' sec' r1 r2 r3 r4 ht1 he1 ht2 he2 ht3 hfr
              by_cases cv : ((decide (h' < 24) && decide (mi' < 60) && decide (sec' < 60)) ||
                  (decide (h' = 24) && decide (mi' = 0) && decide (sec' = 0) && fs'.all (fun c => decide (c = '0')))) = true
              · simp only [cv, if_true, Option.some.injEq, Prod.mk.injEq] at h
                obtain ⟨rfl, rfl, rfl, rfl, rfl⟩ := h
                refine ⟨hparse, ?_⟩
                have hus := fracToMicros_lt fs' hfd
                have h24' : ¬ (h' = 24) := by omega
                simp [h24'] at cv
                simp [Time.valid, cv, hus]
              · simp [cv] at h

end SpyneModel

namespace SpyneModel
set_option linter.unusedSimpArgs false
set_option linter.unusedVariables false

theorem offsetValue_sm (F : Facts08) (hO : F.offsetRule = .signMagnitude) (neg : Bool) (hh mm : Nat) :
    offsetValue F neg hh mm = (if neg then -((hh * 60 + mm : Nat) : Int) else ((hh * 60 + mm : Nat) : Int)) := by
  unfold offsetValue; rw [hO]

/-- an xs:dateTime literal with a four-digit year A.D. and an hour below 24 is read field by field;
    the fraction goes through `fracToMicros` (exact up to six digits) -/
theorem dateTimeFromText_xsd (F : Facts08) (hO : F.offsetRule = .signMagnitude) (hA : F.anchored = true)
    (s : Text) (l : XsdLex.DtLit) (h : XsdLex.dateTimeLit s = some l) (hneg : l.neg = false)
    (hy : l.year.length = 4) (h24 : l.hour < 24) :
    dateTimeFromText F s =
      .ok ⟨⟨valNat l.year, l.month, l.day⟩, ⟨l.hour, l.minute, l.second, fracToMicros l.frac⟩, l.tz⟩ := by
  unfold XsdLex.dateTimeLit at h
  cases hd : XsdLex.dateHead s with
  | none => simp [hd] at h
  | some p =>
    obtain ⟨neg, yd, mo, d, r1⟩ := p
    simp only [hd] at h
    cases he : expect 'T' r1 with
    | none => simp [he] at h
    | some r2 =>
      simp only [he] at h
      cases hth : XsdLex.timeHead r2 with
      | none => simp [hth] at h
      | some q =>
        obtain ⟨hh, mi, sec, fs, r3⟩ := q
        simp only [hth] at h
        cases hz : XsdLex.zone r3 with
        | none => simp [hz] at h
        | some tz =>
          simp only [hz, Option.some.injEq] at h
          subst h
          simp only at hneg hy h24 ⊢
          subst hneg
          obtain ⟨hpd, hdv⟩ := parseDateFields_of_xsd s yd r1 mo d hd hy
          obtain ⟨hpt, htv⟩ := parseTimeFields_of_xsd r2 fs r3 hh mi sec hth h24
          have hr1 := expect_some 'T' r1 r2 he
          subst hr1
          unfold dateTimeFromText
          simp only [hpd, true_or, decide_true, Bool.true_or, if_true, hpt]
          cases r3 with
          | nil =>
            simp [XsdLex.zone] at hz
            subst hz
            simp [parseOffsetFields, hdv, htv]
          | cons c r =>
            by_cases hc : c = 'Z'
            · subst hc
              simp only [XsdLex.zone, if_true] at hz
              by_cases hr : r.isEmpty = true
              · simp only [hr, if_true, Option.some.injEq] at hz
                subst hz
                simp [hA, hr, hdv, htv]
              · simp [hr] at hz
            · simp only [XsdLex.zone, hc, if_false] at hz
              cases hpo : parseOffsetFields (c :: r) with
              | none => simp [hpo] at hz
              | some o =>
                obtain ⟨ng, oh, om, orest⟩ := o
                simp only [hpo] at hz
                split at hz
                · rename_i hcond
                  simp only [Option.some.injEq] at hz
                  subst hz
                  simp only [Bool.and_eq_true, Bool.or_eq_true, decide_eq_true_eq] at hcond
                  obtain ⟨hre, hb⟩ := hcond
                  have h23 : ¬ (oh > 23) := by omega
                  have h59 : ¬ (om > 59) := by omega
                  split
                  · rename_i heq; simp at heq; exact absurd heq.1 hc
                  · simp [hpo, hA, hre, h23, h59, hdv, htv, offsetValue_sm F hO]
                · simp at hz

theorem exactMicros_eq (fs : Text) (hd : fs.all isDigit = true) (us : Nat) (h : XsdLex.exactMicros? fs = some us) :
    fracToMicros fs = us := by
  unfold XsdLex.exactMicros? at h
  unfold fracToMicros
  simp only []
  by_cases hk : fs.length ≤ 6
  · simp only [hk, if_true, Option.some.injEq] at h ⊢; exact h
  · simp only [hk, if_false] at h ⊢
    split at h
    · rename_i hz
      simp only [Option.some.injEq] at h
      have hpos : 0 < 10 ^ (fs.length - 6) := Nat.pow_pos (by decide)
      have h1 : 2 * (valNat fs % 10 ^ (fs.length - 6)) < 10 ^ (fs.length - 6) := by rw [hz]; omega
      simp only [h1, if_true]
      -- the quotient is below 10^6
      have hlt := valNat_lt_pow fs hd
      have hp : 10 ^ (fs.length - 6) * 1000000 = 10 ^ fs.length := by
        have : fs.length = (fs.length - 6) + 6 := by omega
        conv => rhs; rw [this, Nat.pow_add]
      have hq : valNat fs / 10 ^ (fs.length - 6) < 1000000 := by
        apply Nat.div_lt_of_lt_mul
        rw [hp]; exact hlt
      rw [← h]
      omega
    · simp at h

/-- the components the recogniser returns are digit strings -/
theorem dateTimeLit_frac_digits (s : Text) (l : XsdLex.DtLit) (h : XsdLex.dateTimeLit s = some l) :
    l.frac.all isDigit = true := by
  unfold XsdLex.dateTimeLit at h
  cases hd : XsdLex.dateHead s with
  | none => simp [hd] at h
  | some p =>
    obtain ⟨neg, yd, mo, d, r1⟩ := p
    simp only [hd] at h
    cases he : expect 'T' r1 with
    | none => simp [he] at h
    | some r2 =>
      simp only [he] at h
      cases hth : XsdLex.timeHead r2 with
      | none => simp [hth] at h
      | some q =>
        obtain ⟨hh, mi, sec, fs, r3⟩ := q
        simp only [hth] at h
        cases hz : XsdLex.zone r3 with
        | none => simp [hz] at h
        | some tz =>
          simp only [hz, Option.some.injEq] at h
          subst h
          simp only
          -- from timeHead
          unfold XsdLex.timeHead at hth
          cases ht1 : take2 r2 with
          | none => simp [ht1] at hth
          | some p1 =>
            obtain ⟨h', t1⟩ := p1
            simp only [ht1] at hth
            cases he1 : expect ':' t1 with
            | none => simp [he1] at hth
            | some t2 =>
              simp only [he1] at hth
              cases ht2 : take2 t2 with
              | none => simp [ht2] at hth
              | some p2 =>
                obtain ⟨mi', t3⟩ := p2
                simp only [ht2] at hth
                cases he2 : expect ':' t3 with
                | none => simp [he2] at hth
                | some t4 =>
                  simp only [he2] at hth
                  cases ht3 : take2 t4 with
                  | none => simp [ht3] at hth
                  | some p3 =>
                    obtain ⟨sec', t5⟩ := p3
                    simp only [ht3] at hth
                    cases hfr : XsdLex.fracDigits t5 with
                    | none => simp [hfr] at hth
                    | some pf =>
                      obtain ⟨fs', rest'⟩ := pf
                      simp only [hfr] at hth
                      have := (parseTimeFields_frac r2 t5 fs' rest' h' mi' sec' t1 t2 t3 t4 ht1 he1 ht2 he2 ht3 hfr).1
                      split at hth
                      · simp only [Option.some.injEq, Prod.mk.injEq] at hth
                        obtain ⟨_, _, _, rfl, _⟩ := hth
                        exact this
                      · simp at hth

/-- every xs:dateTime literal that denotes a value a `datetime` can hold is read as that value -/
theorem dateTimeFromText_xsd_value (F : Facts08) (hO : F.offsetRule = .signMagnitude) (hA : F.anchored = true)
    (s : Text) (l : XsdLex.DtLit) (x : DateTime) (h : XsdLex.dateTimeLit s = some l) (hv : l.value? = some x) :
    dateTimeFromText F s = .ok x := by
  unfold XsdLex.DtLit.value? at hv
  split at hv
  · rename_i hc
    simp only [Bool.and_eq_true, Bool.not_eq_true', decide_eq_true_eq] at hc
    obtain ⟨⟨hneg, hy⟩, h24⟩ := hc
    cases hem : XsdLex.exactMicros? l.frac with
    | none => simp [hem] at hv
    | some us =>
      simp only [hem, Option.some.injEq] at hv
      rw [dateTimeFromText_xsd F hO hA s l h hneg hy h24,
        exactMicros_eq l.frac (dateTimeLit_frac_digits s l h) us hem, ← hv]
  · simp at hv

end SpyneModel

namespace SpyneModel
set_option linter.unusedSimpArgs false
set_option linter.unusedVariables false

/-! ## xs:duration -/

theorem splitMinus_true (s b : Text) (h : splitMinus s = (true, b)) : s = '-' :: b := by
  cases s with
  | nil => simp [splitMinus] at h
  | cons c r =>
    by_cases hc : c = '-'
    · simp [splitMinus, hc] at h; rw [hc, h]
    · simp [splitMinus, hc] at h

theorem durTimePart_sound (r4 : Text) (x : Nat × Nat × Nat × Text) (h : XsdLex.durTimePart r4 = some x) :
    parseDurTimePart r4 = some x := by
  unfold XsdLex.durTimePart at h
  unfold parseDurTimePart
  generalize optComp 'H' r4 = a at h ⊢
  obtain ⟨hh, r5⟩ := a
  simp only at h ⊢
  generalize optComp 'M' r5 = b at h ⊢
  obtain ⟨mi, r6⟩ := b
  simp only at h ⊢
  generalize optSeconds r6 = c at h ⊢
  obtain ⟨sec, r7⟩ := c
  simp only at h ⊢
  split at h
  · rename_i hc
    simp only [Bool.and_eq_true] at hc
    simp only [hc.1, if_true]
    exact h
  · simp at h

/-- an xs:duration literal is read by the implementation's pattern into the same components -/
theorem parseDurLit_of_xsd (s : Text) (l : DurLit) (h : XsdLex.durationLit s = some l) : parseDurLit s = some l := by
  unfold XsdLex.durationLit at h
  generalize hsm : splitMinus s = p at h
  obtain ⟨neg, body⟩ := p
  simp only at h
  cases body with
  | nil => simp at h
  | cons p r0 =>
    simp only at h
    by_cases hp : p = 'P'
    · subst hp
      simp only [if_true] at h
      have hs : parseDurLit s = parseDurBody neg r0 := by
        cases neg with
        | true => rw [splitMinus_true s _ hsm]; simp [parseDurLit]
        | false => rw [← splitMinus_false s _ hsm]; simp [parseDurLit]
      rw [hs]
      unfold parseDurBody
      generalize optComp 'Y' r0 = a at h ⊢
      obtain ⟨y, r1⟩ := a
      simp only at h ⊢
      generalize optComp 'M' r1 = b at h ⊢
      obtain ⟨mo, r2⟩ := b
      simp only at h ⊢
      generalize optComp 'D' r2 = c at h ⊢
      obtain ⟨d, r3⟩ := c
      simp only at h ⊢
      cases r3 with
      | nil =>
        simp only at h ⊢
        split at h
        · exact h
        · simp at h
      | cons t r4 =>
        simp only at h
        by_cases ht : t = 'T'
        · subst ht
          simp only [if_true] at h
          cases hdt : XsdLex.durTimePart r4 with
          | none => simp [hdt] at h
          | some x =>
            obtain ⟨hh, mi, si, sf⟩ := x
            simp only [hdt] at h
            simp only [durTimePart_sound r4 _ hdt]
            exact h
        · simp [ht] at h
    · simp [hp] at h

theorem durFromText_xsd (F : Facts08) (hP : F.durParse = .exactDecimal) (s : Text) (l : DurLit)
    (h : XsdLex.durationLit s = some l) (hmax : l.micros ≤ maxDurUs)
    (hmin : l.neg = true → l.micros ≤ 999999999 * usPerDay) :
    durFromText F s = .ok (if l.neg then -(l.micros : Int) else (l.micros : Int)) := by
  unfold durFromText
  rw [hP]
  simp only [parseDurLit_of_xsd s l h]
  have h1 : ¬ (l.micros > maxDurUs) := by omega
  simp only [h1, if_false]
  cases hn : l.neg with
  | true =>
    have := hmin hn
    have h2 : ¬ (l.micros > 999999999 * usPerDay) := by omega
    simp [h2]
  | false => simp

theorem micros_dayTime (l : DurLit) (hy : l.years = 0) (hm : l.months = 0) (hf : l.secFrac.length ≤ 6) :
    l.micros = XsdLex.dayTimeMicros l := by
  unfold DurLit.micros XsdLex.dayTimeMicros
  simp only [hy, hm, hf, if_true, usPerSec]
  cases hfr : l.secFrac with
  | nil => simp [valNat]
  | cons c t => simp

/-! ### what `duration_to_unicode` writes is an xs:duration literal -/

theorem xsd_durTimePart_durTimeText (F : Facts08) (hF : F.durFracFmt = .pad6) (h m s u : Nat) (hu : u < 1000000)
    (hnz : h > 0 ∨ m > 0 ∨ s > 0 ∨ u > 0) :
    XsdLex.durTimePart (durTimeText F h m s u) = some (h, m, s, if u > 0 then pad6 u else []) := by
  unfold durTimeText XsdLex.durTimePart
  rw [hF]
  have H1 := optComp_hit 'H' (by decide)
  have H2 := optComp_hit 'M' (by decide)
  have M1 := optComp_miss 'H' 'M' (by decide) (by decide)
  have M2 := optComp_miss 'H' 'S' (by decide) (by decide)
  have M3 := optComp_miss 'H' '.' (by decide) (by decide)
  have M4 := optComp_miss 'M' 'S' (by decide) (by decide)
  have M5 := optComp_miss 'M' '.' (by decide) (by decide)
  by_cases hh : h > 0 <;> by_cases hm : m > 0 <;> by_cases hs : s > 0 <;> by_cases hu0 : u > 0 <;>
    simp [hh, hm, hs, hu0, H1, H2, M1, M2, M3, M4, M5, optComp_nil, optSeconds_int, optSeconds_frac _ _ hu,
      optSeconds_nil, List.append_assoc]
  all_goals omega

theorem xsdDuration_durToText (F : Facts08) (hF : F.durFracFmt = .pad6) (us : Int) :
    XsdLex.duration (durToText F us) = true := by
  unfold XsdLex.duration durToText
  simp only []
  generalize hv : us.natAbs = v
  have hu : v % usPerSec < 1000000 := by unfold usPerSec; omega
  have Y1 := optComp_miss 'Y' 'D' (by decide) (by decide)
  have Y2 := optComp_miss 'M' 'D' (by decide) (by decide)
  have Y3 := optComp_hit 'D' (by decide)
  have N1 := optComp_nondigit 'Y' 'T' (by decide)
  have N2 := optComp_nondigit 'M' 'T' (by decide)
  have N3 := optComp_nondigit 'D' 'T' (by decide)
  by_cases hw : (v / usPerSec ≠ 0 && v / usPerSec % 86400 = 0 && v % usPerSec = 0) = true
  · -- whole days
    simp only [hw, if_true]
    simp at hw
    have hd : v / usPerDay ≠ 0 := by unfold usPerDay; unfold usPerSec at hw; omega
    by_cases hneg : us < 0 <;>
      simp [hneg, hd, XsdLex.durationLit, splitMinus, Y1, Y2, Y3]
  · simp only [hw, if_false, Bool.false_eq_true]
    by_cases hz : v = 0
    · subst hz
      by_cases hneg : us < 0 <;> simp [hneg, XsdLex.durationLit, splitMinus] <;> decide
    · simp only [hz, if_false]
      have hnz : v / usPerSec % 86400 / 3600 > 0 ∨ v / usPerSec % 86400 / 60 % 60 > 0 ∨ v / usPerSec % 86400 % 60 > 0 ∨
          v % usPerSec > 0 := by
        have hw' : ¬ (v / usPerSec ≠ 0 ∧ v / usPerSec % 86400 = 0 ∧ v % usPerSec = 0) := by
          intro hc; apply hw; simp [hc.1, hc.2.1, hc.2.2]
        unfold usPerSec at hw' ⊢
        omega
      have hparts := xsd_durTimePart_durTimeText F hF (v / usPerSec % 86400 / 3600) (v / usPerSec % 86400 / 60 % 60)
        (v / usPerSec % 86400 % 60) (v % usPerSec) hu hnz
      generalize durTimeText F (v / usPerSec % 86400 / 3600) (v / usPerSec % 86400 / 60 % 60)
        (v / usPerSec % 86400 % 60) (v % usPerSec) = tb at hparts ⊢
      by_cases hneg : us < 0 <;> by_cases hd : v / usPerDay ≠ 0 <;>
        simp [hneg, hd, XsdLex.durationLit, splitMinus, Y1, Y2, Y3, N1, N2, N3, hparts, List.append_assoc]

end SpyneModel

namespace SpyneModel
set_option linter.unusedSimpArgs false
set_option linter.unusedVariables false

/-! ## Uuid -/

theorem hex_ne (c : Char) (h : isHexDigit c = true) (x : Char) (hx : isHexDigit x = false) : c ≠ x := by
  intro e; subst e; rw [h] at hx; cases hx

theorem isHexDigit_hexDigit : ∀ n, n < 16 → isHexDigit (hexDigit n) = true := by decide

theorem hex_not_space (c : Char) (h : isHexDigit c = true) : isPyAsciiSpace c = false := by
  have h1 := hex_ne c h ' ' (by decide)
  have h2 := hex_ne c h '\t' (by decide)
  have h3 := hex_ne c h '\n' (by decide)
  have h4 := hex_ne c h '\r' (by decide)
  have h5 : c.toNat ≠ 11 := by
    intro e; have := hex_ne c h (Char.ofNat 11) (by decide); apply this
    rw [← e]; exact (Char.ofNat_toNat c).symm
  have h6 : c.toNat ≠ 12 := by
    intro e; have := hex_ne c h (Char.ofNat 12) (by decide); apply this
    rw [← e]; exact (Char.ofNat_toNat c).symm
  simp [isPyAsciiSpace, h1, h2, h3, h4, h5, h6]

theorem hexenc_all (bs : List Nat) (h : bytesOk bs) : (hexenc bs).all isHexDigit = true := by
  induction bs with
  | nil => simp [hexenc]
  | cons b bs ih =>
    have hb : b < 256 := h b (by simp)
    have ih' := ih (fun x hx => h x (by simp [hx]))
    simp [hexenc, isHexDigit_hexDigit (b / 16) (by omega), isHexDigit_hexDigit (b % 16) (by omega), ih']

theorem hexenc_length (bs : List Nat) : (hexenc bs).length = 2 * bs.length := by
  induction bs with
  | nil => simp [hexenc]
  | cons b bs ih => simp [hexenc, ih]; omega

theorem removeAllAux_id (p0 : Char) (pat s : Text) (h : ∀ c ∈ s, c ≠ p0) : removeAllAux (p0 :: pat) 0 s = s := by
  induction s with
  | nil => simp [removeAllAux]
  | cons c r ih =>
    have hc : c ≠ p0 := h c (by simp)
    have hc' : (p0 == c) = false := by simpa using fun e => hc e.symm
    simp [removeAllAux, List.isPrefixOf, hc', ih (fun x hx => h x (by simp [hx]))]

theorem stripBraces_id (s : Text) (h : ∀ c ∈ s, isBrace c = false) : stripBraces s = s := by
  unfold stripBraces
  rw [dropWhile_none s h, dropWhile_none s.reverse (by intro c hc; exact h c (by simpa using hc))]
  simp

theorem recombine (h : Text) :
    h.take 8 ++ ((h.drop 8).take 4 ++ ((h.drop 12).take 4 ++ ((h.drop 16).take 4 ++ h.drop 20))) = h := by
  have e1 : h.drop 20 = (h.drop 16).drop 4 := by simp [List.drop_drop]
  have e2 : h.drop 16 = (h.drop 12).drop 4 := by simp [List.drop_drop]
  have e3 : h.drop 12 = (h.drop 8).drop 4 := by simp [List.drop_drop]
  rw [e1, List.take_append_drop, e2, List.take_append_drop, e3, List.take_append_drop, List.take_append_drop]

/-- the characters of `str(UUID)` -/
def uuidChar (c : Char) : Bool := isHexDigit c || c = '-'

theorem uuidToText_all (bs : List Nat) (h : bytesOk bs) : (uuidToText bs).all uuidChar = true := by
  have hh := hexenc_all bs h
  rw [List.all_eq_true] at hh
  have hx : ∀ c ∈ hexenc bs, uuidChar c = true := fun c hc => by simp [uuidChar, hh c hc]
  unfold uuidToText
  simp only [List.all_append, List.all_cons, Bool.and_eq_true, List.all_eq_true]
  refine ⟨fun c hc => hx c (List.mem_of_mem_take hc), by decide,
    fun c hc => hx c (List.mem_of_mem_drop (List.mem_of_mem_take hc)), by decide,
    fun c hc => hx c (List.mem_of_mem_drop (List.mem_of_mem_take hc)), by decide,
    fun c hc => hx c (List.mem_of_mem_drop (List.mem_of_mem_take hc)), by decide,
    fun c hc => hx c (List.mem_of_mem_drop hc)⟩

theorem uuidChar_props (c : Char) (h : uuidChar c = true) : c ≠ 'u' ∧ isBrace c = false := by
  simp only [uuidChar, Bool.or_eq_true, decide_eq_true_eq] at h
  rcases h with h | h
  · exact ⟨hex_ne c h 'u' (by decide), by
      have a := hex_ne c h '{' (by decide)
      have b := hex_ne c h '}' (by decide)
      simp [isBrace, a, b]⟩
  · subst h; decide

theorem filter_hyphen_uuidToText (bs : List Nat) (h : bytesOk bs) :
    (uuidToText bs).filter (fun c => c != '-') = hexenc bs := by
  have hh := hexenc_all bs h
  rw [List.all_eq_true] at hh
  have hne : ∀ c ∈ hexenc bs, (c != '-') = true := fun c hc => by
    have := hex_ne c (hh c hc) '-' (by decide); simpa using this
  have : (uuidToText bs).filter (fun c => c != '-') =
      ((hexenc bs).take 8 ++ (((hexenc bs).drop 8).take 4 ++ (((hexenc bs).drop 12).take 4 ++
        (((hexenc bs).drop 16).take 4 ++ (hexenc bs).drop 20)))).filter (fun c => c != '-') := by
    simp only [uuidToText, List.filter_append, List.filter_cons, show (('-' : Char) != '-') = false by decide,
      Bool.false_eq_true, if_false]
  rw [this, recombine]
  exact filter_none _ hne

theorem hexGroupsAfter_hex (t : Text) (h : t.all isHexDigit = true) : hexGroupsAfter t = some t := by
  induction t with
  | nil => simp [hexGroupsAfter]
  | cons c r ih =>
    rw [List.all_cons, Bool.and_eq_true] at h
    have hc := hex_ne c h.1 '_' (by decide)
    unfold hexGroupsAfter
    simp [hc, h.1, ih h.2]

theorem foldl_hex (bs : List Nat) (h : bytesOk bs) : ∀ acc : Nat,
    (hexenc bs).foldl (fun a c => a * 16 + (hexVal? c).getD 0) acc = bs.foldl (fun a b => a * 256 + b) acc := by
  induction bs with
  | nil => intro acc; simp [hexenc]
  | cons b bs ih =>
    intro acc
    have hb : b < 256 := h b (by simp)
    simp only [hexenc, List.foldl_cons, hexVal_hexDigit (b / 16) (by omega), hexVal_hexDigit (b % 16) (by omega),
      Option.getD_some]
    rw [ih (fun x hx => h x (by simp [hx]))]
    congr 1
    omega

theorem valHex_hexenc (bs : List Nat) (h : bytesOk bs) : valHex (hexenc bs) = bytesVal bs :=
  foldl_hex bs h 0

theorem bytesVal_append_single (bs : List Nat) (b : Nat) : bytesVal (bs ++ [b]) = bytesVal bs * 256 + b := by
  simp [bytesVal, List.foldl_append]

theorem natToBytesBE_bytesVal : ∀ (n : Nat) (bs : List Nat), bs.length = n → bytesOk bs →
    natToBytesBE n (bytesVal bs) = bs := by
  intro n
  induction n with
  | zero => intro bs hl _; cases bs <;> simp_all [natToBytesBE]
  | succ k ih =>
    intro bs hl hok
    have hne : bs ≠ [] := by intro e; subst e; simp at hl
    have hsplit := List.dropLast_concat_getLast hne
    have hlast : bs.getLast hne < 256 := hok _ (List.getLast_mem hne)
    have hinit : bytesOk bs.dropLast := fun x hx => hok x (List.dropLast_subset bs hx)
    have hlen : bs.dropLast.length = k := by simp [List.length_dropLast, hl]
    have := ih bs.dropLast hlen hinit
    conv => lhs; rw [← hsplit, bytesVal_append_single]
    simp only [natToBytesBE]
    have e1 : (bytesVal bs.dropLast * 256 + bs.getLast hne) / 256 = bytesVal bs.dropLast := by omega
    have e2 : (bytesVal bs.dropLast * 256 + bs.getLast hne) % 256 = bs.getLast hne := by omega
    rw [e1, e2, this, hsplit]

theorem pyIntHex_hexenc (bs : List Nat) (h : bytesOk bs) (hl : 2 ≤ bs.length) :
    pyIntHex (hexenc bs) = some (bytesVal bs) := by
  have hall := hexenc_all bs h
  have hall' := List.all_eq_true.1 hall
  match bs, hl with
  | b0 :: b1 :: rest, _ =>
    have hb0 : b0 < 256 := h b0 (by simp)
    have hform : hexenc (b0 :: b1 :: rest) = hexDigit (b0 / 16) :: hexDigit (b0 % 16) :: hexenc (b1 :: rest) := by
      simp [hexenc]
    have ha := isHexDigit_hexDigit (b0 / 16) (by omega)
    have hb := isHexDigit_hexDigit (b0 % 16) (by omega)
    unfold pyIntHex
    rw [stripSpace_id' _ (fun c hc => hex_not_space c (hall' c hc))]
    have hs : splitSign (hexenc (b0 :: b1 :: rest)) = (false, hexenc (b0 :: b1 :: rest)) := by
      rw [hform]
      simp [splitSign, hex_ne _ ha '-' (by decide), hex_ne _ ha '+' (by decide)]
    rw [hs]
    have hp : dropHexPrefix (hexenc (b0 :: b1 :: rest)) = hexenc (b0 :: b1 :: rest) := by
      rw [hform]
      simp [dropHexPrefix, hex_ne _ hb 'x' (by decide), hex_ne _ hb 'X' (by decide)]
    simp only [Bool.false_eq_true, if_false, hp]
    have hg : hexGroups (hexenc (b0 :: b1 :: rest)) = some (hexenc (b0 :: b1 :: rest)) := by
      rw [hform] at hall ⊢
      rw [List.all_cons, Bool.and_eq_true] at hall
      simp [hexGroups, ha, hexGroupsAfter_hex _ hall.2]
    rw [hg]
    simp [valHex_hexenc _ h]

/-- every UUID survives its `8-4-4-4-12` text form -/
theorem uuidFromText_uuidToText (bs : List Nat) (hl : bs.length = 16) (h : bytesOk bs) :
    uuidFromText (uuidToText bs) = .ok bs := by
  have hall := List.all_eq_true.1 (uuidToText_all bs h)
  have hu : ∀ c ∈ uuidToText bs, c ≠ 'u' := fun c hc => (uuidChar_props c (hall c hc)).1
  have hb : ∀ c ∈ uuidToText bs, isBrace c = false := fun c hc => (uuidChar_props c (hall c hc)).2
  unfold uuidFromText
  simp only [removeAll]
  have e1 : removeAllAux "urn:".toList 0 (uuidToText bs) = uuidToText bs := removeAllAux_id 'u' _ _ hu
  have e2 : removeAllAux "uuid:".toList 0 (uuidToText bs) = uuidToText bs := removeAllAux_id 'u' _ _ hu
  have hlen : ¬ ((hexenc bs).length ≠ 32) := by rw [hexenc_length, hl]; decide
  simp only [e1, e2, stripBraces_id _ hb, filter_hyphen_uuidToText bs h, hlen, if_false,
    pyIntHex_hexenc bs h (by omega)]
  rw [← hl, natToBytesBE_bytesVal bs.length bs rfl h]

/-- `str(UUID)` matches the pattern facet of the Uuid type -/
theorem uuidPattern_uuidToText (bs : List Nat) (hl : bs.length = 16) (h : bytesOk bs) :
    uuidPattern (uuidToText bs) = true := by
  have hh := hexenc_all bs h
  have hlen := hexenc_length bs
  rw [hl] at hlen
  -- 32 hex digits, named one by one
  unfold uuidToText
  simp only []
  generalize hexenc bs = hx at hh hlen ⊢
  match hx, hlen with
  | [c0, c1, c2, c3, c4, c5, c6, c7, c8, c9, c10, c11, c12, c13, c14, c15, c16, c17, c18, c19, c20, c21, c22, c23,
     c24, c25, c26, c27, c28, c29, c30, c31], _ =>
    simp at hh
    simp [uuidPattern, List.range, List.range.loop, hh]

end SpyneModel

namespace SpyneModel
set_option linter.unusedSimpArgs false
set_option linter.unusedVariables false

/-! ## calendar steps and `astimezone` -/

/-- month and day are a day of the calendar (any year) -/
def Date.wf (x : Date) : Prop := 1 ≤ x.m ∧ x.m ≤ 12 ∧ 1 ≤ x.d ∧ x.d ≤ daysInMonth x.y x.m

theorem month_cases (m : Nat) (h1 : 1 ≤ m) (h2 : m ≤ 12) :
    m = 1 ∨ m = 2 ∨ m = 3 ∨ m = 4 ∨ m = 5 ∨ m = 6 ∨ m = 7 ∨ m = 8 ∨ m = 9 ∨ m = 10 ∨ m = 11 ∨ m = 12 := by omega

theorem daysInMonth_ge (y m : Nat) : 28 ≤ daysInMonth y m := by
  unfold daysInMonth; split <;> (try split) <;> omega

theorem dbm_succ (y m : Nat) (h1 : 1 ≤ m) (h2 : m < 12) :
    daysBeforeMonth y (m + 1) = daysBeforeMonth y m + daysInMonth y m := by
  rcases month_cases m h1 (by omega) with h | h | h | h | h | h | h | h | h | h | h | h <;> subst h <;>
    cases hl : isLeap y <;> simp [daysBeforeMonth, daysInMonth, hl] <;> omega

theorem leap_step (y : Nat) :
    ((y : Int) / 4 - (y : Int) / 100 + (y : Int) / 400) -
      (((y : Int) - 1) / 4 - ((y : Int) - 1) / 100 + ((y : Int) - 1) / 400) = (if isLeap y then 1 else 0) := by
  by_cases h4 : y % 4 = 0 <;> by_cases h100 : y % 100 = 0 <;> by_cases h400 : y % 400 = 0 <;>
    simp [isLeap, h4, h100, h400] <;> omega

/-- days before the first of January of year `y` -/
def yearBase (y : Nat) : Int := 365 * (y : Int) - 365 + ((y : Int) - 1) / 4 - ((y : Int) - 1) / 100 + ((y : Int) - 1) / 400

theorem toOrdinal_eq (x : Date) : toOrdinal x = yearBase x.y + (daysBeforeMonth x.y x.m : Int) + (x.d : Int) := rfl

theorem yearBase_succ (y : Nat) : yearBase (y + 1) = yearBase y + 365 + (if isLeap y then 1 else 0) := by
  have := leap_step y
  unfold yearBase
  have e : ((y + 1 : Nat) : Int) - 1 = (y : Int) := by omega
  rw [e]
  omega

theorem dbm_jan (y : Nat) : daysBeforeMonth y 1 = 0 := by simp [daysBeforeMonth]
theorem dbm_dec (y : Nat) : daysBeforeMonth y 12 = 334 + (if isLeap y then 1 else 0) := by
  cases hl : isLeap y <;> simp [daysBeforeMonth, hl]

theorem toOrdinal_nextDay (x : Date) (hw : x.wf) : toOrdinal (nextDay x) = toOrdinal x + 1 ∧ (nextDay x).wf := by
  obtain ⟨hm1, hm2, hd1, hd2⟩ := hw
  unfold nextDay
  by_cases h1 : x.d < daysInMonth x.y x.m
  · simp only [h1, if_true]
    refine ⟨?_, hm1, hm2, by simp, by simp; omega⟩
    rw [toOrdinal_eq, toOrdinal_eq]; simp only; omega
  · simp only [h1, if_false]
    have hd : x.d = daysInMonth x.y x.m := by omega
    by_cases h2 : x.m < 12
    · simp only [h2, if_true]
      have hge := daysInMonth_ge x.y (x.m + 1)
      refine ⟨?_, by simp, by simp; omega, by simp, by simp; omega⟩
      rw [toOrdinal_eq, toOrdinal_eq]
      simp only [dbm_succ x.y x.m hm1 h2, hd]
      omega
    · simp only [h2, if_false]
      have hm : x.m = 12 := by omega
      refine ⟨?_, by simp, by simp, by simp, by simp [daysInMonth]⟩
      have hd31 : x.d = 31 := by rw [hd, hm]; simp [daysInMonth]
      rw [toOrdinal_eq, toOrdinal_eq]
      simp only [hm, hd31, yearBase_succ, dbm_jan, dbm_dec]
      split <;> omega

theorem toOrdinal_prevDay (x : Date) (hw : x.wf) (hy : 1 ≤ x.y) :
    toOrdinal (prevDay x) = toOrdinal x - 1 ∧ (prevDay x).wf := by
  obtain ⟨hm1, hm2, hd1, hd2⟩ := hw
  unfold prevDay
  by_cases h1 : 1 < x.d
  · simp only [h1, if_true]
    refine ⟨?_, hm1, hm2, by simp; omega, by simp; omega⟩
    rw [toOrdinal_eq, toOrdinal_eq]; simp only; omega
  · simp only [h1, if_false]
    have hd : x.d = 1 := by omega
    by_cases h2 : 1 < x.m
    · simp only [h2, if_true]
      have hs := dbm_succ x.y (x.m - 1) (by omega) (by omega)
      have hm' : x.m - 1 + 1 = x.m := by omega
      rw [hm'] at hs
      have hge := daysInMonth_ge x.y (x.m - 1)
      refine ⟨?_, by simp; omega, by simp; omega, by simp; omega, by simp⟩
      rw [toOrdinal_eq, toOrdinal_eq]
      simp only [hs, hd]
      omega
    · simp only [h2, if_false]
      have hm : x.m = 1 := by omega
      refine ⟨?_, by simp, by simp, by simp, by simp [daysInMonth]⟩
      have hys := yearBase_succ (x.y - 1)
      have hyy : x.y - 1 + 1 = x.y := by omega
      rw [hyy] at hys
      rw [toOrdinal_eq, toOrdinal_eq]
      simp only [hm, hd, hys, dbm_jan, dbm_dec]
      split <;> omega

theorem prevDay_nextDay (x : Date) (hw : x.wf) : prevDay (nextDay x) = x := by
  obtain ⟨hm1, hm2, hd1, hd2⟩ := hw
  obtain ⟨y, m, d⟩ := x
  simp only at hm1 hm2 hd1 hd2
  unfold nextDay
  by_cases h1 : d < daysInMonth y m
  · simp only [h1, if_true]
    have : 1 < d + 1 := by omega
    simp [prevDay, this]
  · simp only [h1, if_false]
    have hd : d = daysInMonth y m := by omega
    by_cases h2 : m < 12
    · simp only [h2, if_true]
      have : 1 < m + 1 := by omega
      simp [prevDay, this, hd]
    · simp only [h2, if_false]
      have hm : m = 12 := by omega
      subst hm
      simp [daysInMonth] at hd
      simp [prevDay, hd]

theorem nextDay_prevDay (x : Date) (hw : x.wf) (hy : 1 ≤ x.y) : nextDay (prevDay x) = x := by
  obtain ⟨hm1, hm2, hd1, hd2⟩ := hw
  obtain ⟨y, m, d⟩ := x
  simp only at hm1 hm2 hd1 hd2 hy
  unfold prevDay
  by_cases h1 : 1 < d
  · simp only [h1, if_true]
    have : d - 1 < daysInMonth y m := by omega
    simp [nextDay, this]; omega
  · simp only [h1, if_false]
    have hd : d = 1 := by omega
    by_cases h2 : 1 < m
    · simp only [h2, if_true]
      have : m - 1 < 12 := by omega
      simp [nextDay, this, hd]; omega
    · simp only [h2, if_false]
      have hm : m = 1 := by omega
      simp [nextDay, daysInMonth, hd, hm]; omega

theorem iter_one {α : Type} (f : α → α) (a : α) : iter f 1 a = f a := rfl
theorem iter_zero {α : Type} (f : α → α) (a : α) : iter f 0 a = a := rfl

theorem addDays_neg_one (x : Date) : addDays x (-1) = prevDay x := by
  have : (-(-1 : Int)).toNat = 1 := by decide
  simp [addDays, this, iter_one]
theorem addDays_one (x : Date) : addDays x 1 = nextDay x := by
  have : (1 : Int).toNat = 1 := by decide
  simp [addDays, this, iter_one]
theorem addDays_zero (x : Date) : addDays x 0 = x := by simp [addDays, iter_zero]

/-- `addDays` by one day in either direction, or none -/
theorem addDays_small (x : Date) (hw : x.wf) (k : Int) (hk1 : -1 ≤ k) (hk2 : k ≤ 1) (hy : 1 ≤ x.y) :
    toOrdinal (addDays x k) = toOrdinal x + k ∧ (addDays x k).wf ∧ (1 ≤ (addDays x k).y → addDays (addDays x k) (-k) = x) := by
  have hc : k = -1 ∨ k = 0 ∨ k = 1 := by omega
  rcases hc with h | h | h <;> subst h
  · have := toOrdinal_prevDay x hw hy
    rw [addDays_neg_one]
    refine ⟨by rw [this.1]; omega, this.2, ?_⟩
    intro _
    have e : (-(-1 : Int)) = 1 := by decide
    rw [e, addDays_one, nextDay_prevDay x hw hy]
  · rw [addDays_zero]
    exact ⟨by omega, hw, fun _ => by simp [addDays_zero]⟩
  · have := toOrdinal_nextDay x hw
    rw [addDays_one]
    refine ⟨this.1, this.2, ?_⟩
    intro _
    rw [addDays_neg_one, prevDay_nextDay x hw]

theorem Date.valid_wf (x : Date) (h : x.valid = true) : x.wf ∧ 1 ≤ x.y := by
  simp [Date.valid] at h
  obtain ⟨⟨⟨⟨⟨hy1, hy2⟩, hm1⟩, hm2⟩, hd1⟩, hd2⟩ := h
  exact ⟨⟨hm1, hm2, hd1, hd2⟩, hy1⟩

/-- minutes since the ordinal epoch of a wall clock -/
def wallMinutes (d : Date) (t : Time) : Int := toOrdinal d * 1440 + ((t.h * 60 + t.mi : Nat) : Int)

theorem shiftWall_spec (d : Date) (t : Time) (δ : Int) (hw : d.wf) (hy : 1 ≤ d.y) (hh : t.h < 24) (hmi : t.mi < 60)
    (h1 : -1440 < δ) (h2 : δ < 1440) :
    wallMinutes (shiftWall d t δ).1 (shiftWall d t δ).2 = wallMinutes d t + δ ∧
    (shiftWall d t δ).1.wf ∧ (shiftWall d t δ).2.h < 24 ∧ (shiftWall d t δ).2.mi < 60 ∧
    (shiftWall d t δ).2.s = t.s ∧ (shiftWall d t δ).2.us = t.us ∧
    (1 ≤ (shiftWall d t δ).1.y → shiftWall (shiftWall d t δ).1 (shiftWall d t δ).2 (-δ) = (d, t)) := by
  have htot : shiftTotal t δ = ((t.h * 60 + t.mi : Nat) : Int) + δ := rfl
  generalize htt : shiftTotal t δ = total at htot
  have hk1 : -1 ≤ total / 1440 := by omega
  have hk2 : total / 1440 ≤ 1 := by omega
  obtain ⟨hord, hwf, hinv⟩ := addDays_small d hw (total / 1440) hk1 hk2 hy
  have hfst : (shiftWall d t δ).1 = addDays d (total / 1440) := by simp [shiftWall, htt]
  have hsnd : (shiftWall d t δ).2 = ⟨(total % 1440).toNat / 60, (total % 1440).toNat % 60, t.s, t.us⟩ := by
    simp [shiftWall, htt]
  refine ⟨?_, ?_, ?_, ?_, rfl, rfl, ?_⟩
  · rw [hfst, hsnd]; unfold wallMinutes; rw [hord]; simp only; omega
  · rw [hfst]; exact hwf
  · rw [hsnd]; simp only; omega
  · rw [hsnd]; simp only; omega
  · rw [hfst, hsnd]
    intro hy'
    have hback : shiftTotal ⟨(total % 1440).toNat / 60, (total % 1440).toNat % 60, t.s, t.us⟩ (-δ) = total % 1440 - δ := by
      unfold shiftTotal; simp only; omega
    unfold shiftWall
    rw [hback]
    have e1 : (total % 1440 - δ) / 1440 = -(total / 1440) := by omega
    have e2 : (total % 1440 - δ) % 1440 = ((t.h * 60 + t.mi : Nat) : Int) := by omega
    rw [e1, e2, hinv hy']
    have e3 : (((t.h * 60 + t.mi : Nat) : Int)).toNat / 60 = t.h := by omega
    have e4 : (((t.h * 60 + t.mi : Nat) : Int)).toNat % 60 = t.mi := by omega
    rw [e3, e4]

theorem instant_eq (x : DateTime) :
    instant x = ((wallMinutes x.date x.time - x.tz.getD 0) * 60 + (x.time.s : Int)) * 1000000 + (x.time.us : Int) := by
  unfold instant wallMinutes; rfl

/-- what `astimezone` returns denotes the same instant, carries the target offset and is a valid datetime -/
theorem astimezone_ok (same : Bool) (x : DateTime) (o : Int) (y : DateTime) (hx : x.valid = true)
    (ho1 : -1440 < o) (ho2 : o < 1440) (hsame : same = true → x.tz = some o)
    (h : astimezone same x o = .ok y) :
    instant y = instant x ∧ y.tz = some o ∧ y.valid = true := by
  have hx' := hx
  simp [DateTime.valid] at hx'
  obtain ⟨⟨hd, ht⟩, htz⟩ := hx'
  obtain ⟨hwf, hy1⟩ := Date.valid_wf x.date hd
  simp [Time.valid] at ht
  obtain ⟨⟨⟨hh, hmi⟩, hs⟩, hus⟩ := ht
  unfold astimezone at h
  cases htzx : x.tz with
  | none => simp [htzx] at h
  | some m =>
    simp only [htzx] at h htz
    simp at htz
    cases same with
    | true =>
      simp only [if_true, Outcome.ok.injEq] at h
      subst h
      have := hsame rfl
      exact ⟨rfl, this, hx⟩
    | false =>
      simp only [Bool.false_eq_true, if_false] at h
      obtain ⟨s1, w1, hh1, hmi1, hs1, hus1, _⟩ := shiftWall_spec x.date x.time (-m) hwf hy1 hh hmi (by omega) (by omega)
      generalize hsw1 : shiftWall x.date x.time (-m) = p1 at h s1 w1 hh1 hmi1 hs1 hus1
      obtain ⟨d1, t1⟩ := p1
      simp only at h s1 w1 hh1 hmi1 hs1 hus1
      by_cases hin1 : inYears d1 = true
      · simp only [hin1, Bool.not_true, Bool.false_eq_true, if_false] at h
        have hy1' : 1 ≤ d1.y := by simp [inYears] at hin1; exact hin1.1
        obtain ⟨s2, w2, hh2, hmi2, hs2, hus2, _⟩ := shiftWall_spec d1 t1 o w1 hy1' hh1 hmi1 ho1 ho2
        generalize hsw2 : shiftWall d1 t1 o = p2 at h s2 w2 hh2 hmi2 hs2 hus2
        obtain ⟨d2, t2⟩ := p2
        simp only at h s2 w2 hh2 hmi2 hs2 hus2
        by_cases hin2 : inYears d2 = true
        · simp only [hin2, if_true, Outcome.ok.injEq] at h
          subst h
          refine ⟨?_, rfl, ?_⟩
          · rw [instant_eq, instant_eq]
            simp only [htzx, Option.getD_some, hs2, hs1, hus2, hus1]
            rw [s2, s1]; omega
          · simp [inYears] at hin2
            obtain ⟨a, b, c, e⟩ := w2
            simp [DateTime.valid, Date.valid, Time.valid, hin2, a, b, c, e, hh2, hmi2, hs2, hs1, hs, hus2, hus1, hus, ho1, ho2]
        · simp [hin2] at h
      · simp [hin1] at h

end SpyneModel

namespace SpyneModel
set_option linter.unusedSimpArgs false
set_option linter.unusedVariables false

/-- converting a value that already carries the target offset changes nothing, provided its UTC wall clock
    lies in years 1..9999 -/
theorem astimezone_same_offset (x : DateTime) (o : Int) (hx : x.valid = true) (htz : x.tz = some o)
    (hutc : inYears (shiftWall x.date x.time (-o)).1 = true) : astimezone false x o = .ok x := by
  have hx' := hx
  simp [DateTime.valid] at hx'
  obtain ⟨⟨hd, ht⟩, hto⟩ := hx'
  obtain ⟨hwf, hy1⟩ := Date.valid_wf x.date hd
  have hd' := hd
  simp [Date.valid] at hd'
  simp [Time.valid] at ht
  obtain ⟨⟨⟨hh, hmi⟩, hs⟩, hus⟩ := ht
  rw [htz] at hto
  simp at hto
  obtain ⟨_, _, _, _, _, _, hinv⟩ := shiftWall_spec x.date x.time (-o) hwf hy1 hh hmi (by omega) (by omega)
  have hy1' : 1 ≤ (shiftWall x.date x.time (-o)).1.y := by simp [inYears] at hutc; exact hutc.1
  have hback := hinv hy1'
  have e : -(-o) = o := by omega
  rw [e] at hback
  unfold astimezone
  simp only [htz, Bool.false_eq_true, if_false, hutc, Bool.not_true, hback]
  have hin : inYears x.date = true := by simp [inYears]; omega
  simp only [hin, if_true]
  obtain ⟨d, t, tz⟩ := x
  simp only at htz
  subst htz
  rfl

/-- `DateTime(as_timezone=o)`: a value that can be written is read back as the same instant, carrying offset `o` -/
theorem astz_roundtrip (F : Facts08) (G : Facts08x) (hO : F.offsetRule = .signMagnitude)
    (same : Bool) (x : DateTime) (m o : Int) (text : Text)
    (hx : x.valid = true) (htz : x.tz = some m) (ho1 : -1440 < o) (ho2 : o < 1440) (hsame : same = true → m = o)
    (hutc : inYears (shiftWall x.date x.time (-m)).1 = true)
    (henc : dateTimeToTextC false (some o) same true x = .ok text) :
    ∃ y, dateTimeFromTextC F G (some o) text = .ok y ∧ y.tz = some o ∧ instant y = instant x := by
  unfold dateTimeToTextC at henc
  simp only [Bool.false_eq_true, if_false, htz, if_true] at henc
  cases hconv : astimezone same x o with
  | fault => simp [hconv] at henc
  | crash e => simp [hconv] at henc
  | ok y1 =>
    simp only [hconv, Outcome.ok.injEq] at henc
    subst henc
    obtain ⟨hinst, hy1tz, hy1v⟩ := astimezone_ok same x o y1 hx ho1 ho2 (by intro h; rw [htz, hsame h]) hconv
    refine ⟨y1, ?_, hy1tz, hinst⟩
    -- the UTC wall clock of y1 is the one of x
    have hutc1 : inYears (shiftWall y1.date y1.time (-o)).1 = true := by
      cases same with
      | true =>
        have hmo := hsame rfl
        subst hmo
        simp [astimezone, htz] at hconv
        subst hconv
        exact hutc
      | false =>
        have hx' := hx
        simp [DateTime.valid] at hx'
        obtain ⟨⟨hd, ht⟩, hto⟩ := hx'
        obtain ⟨hwf, hyy⟩ := Date.valid_wf x.date hd
        simp [Time.valid] at ht
        obtain ⟨⟨⟨hh, hmi⟩, hs⟩, hus⟩ := ht
        rw [htz] at hto
        simp at hto
        obtain ⟨_, w1, hh1, hmi1, _, _, _⟩ := shiftWall_spec x.date x.time (-m) hwf hyy hh hmi (by omega) (by omega)
        have hy1' : 1 ≤ (shiftWall x.date x.time (-m)).1.y := by simp [inYears] at hutc; exact hutc.1
        obtain ⟨_, _, _, _, _, _, hinv⟩ := shiftWall_spec _ _ o w1 hy1' hh1 hmi1 ho1 ho2
        unfold astimezone at hconv
        simp only [htz, Bool.false_eq_true, if_false, hutc, Bool.not_true] at hconv
        split at hconv
        · rename_i hin2
          simp only [Outcome.ok.injEq] at hconv
          subst hconv
          simp only
          have : 1 ≤ (shiftWall (shiftWall x.date x.time (-m)).1 (shiftWall x.date x.time (-m)).2 o).1.y := by
            simp [inYears] at hin2; exact hin2.1
          rw [hinv this]
          exact hutc
        · simp at hconv
    unfold dateTimeFromTextC
    rw [dateTimeFromText_isoDateTime F hO y1 hy1v]
    simp only [hy1tz, astimezone_same_offset y1 o hy1v hy1tz hutc1]

/-- reading any text under `as_timezone=o`: an aware value is converted (same instant, offset `o`) -/
theorem astz_read (F : Facts08) (G : Facts08x) (s : Text) (x' y : DateTime) (m o : Int)
    (hp : dateTimeFromText F s = .ok x') (hv : x'.valid = true) (htz : x'.tz = some m)
    (ho1 : -1440 < o) (ho2 : o < 1440)
    (h : dateTimeFromTextC F G (some o) s = .ok y) : instant y = instant x' ∧ y.tz = some o ∧ y.valid = true := by
  unfold dateTimeFromTextC at h
  simp only [hp, htz] at h
  cases hconv : astimezone false x' o with
  | ok y1 =>
    simp only [hconv, Outcome.ok.injEq] at h
    subst h
    exact astimezone_ok false x' o y1 hv ho1 ho2 (by intro h; cases h) hconv
  | fault => simp [hconv] at h
  | crash e =>
    simp only [hconv] at h
    split at h <;> simp at h

/-- …a naive value takes the zone with its wall clock unchanged -/
theorem astz_read_naive (F : Facts08) (G : Facts08x) (s : Text) (x' : DateTime) (o : Int)
    (hp : dateTimeFromText F s = .ok x') (htz : x'.tz = none) :
    dateTimeFromTextC F G (some o) s = .ok { x' with tz := some o } := by
  unfold dateTimeFromTextC
  simp only [hp, htz]

/-- `DateTime(timezone=False)`: the offset is dropped on output, the wall clock is what is read back -/
theorem notz_roundtrip (F : Facts08) (G : Facts08x) (hO : F.offsetRule = .signMagnitude) (same : Bool)
    (x : DateTime) (hx : x.valid = true) :
    dateTimeToTextC false none same false x = .ok (isoDateTime { x with tz := none }) ∧
    dateTimeFromTextC F G none (isoDateTime { x with tz := none }) = .ok { x with tz := none } := by
  have hv : DateTime.valid { x with tz := none } = true := by
    simp [DateTime.valid] at hx ⊢
    exact hx.1
  constructor
  · unfold dateTimeToTextC
    cases x.tz <;> simp
  · unfold dateTimeFromTextC
    rw [dateTimeFromText_isoDateTime F hO _ hv]

end SpyneModel

namespace SpyneModel
set_option linter.unusedSimpArgs false
set_option linter.unusedVariables false

/-! ## Double: the wrapper around `repr` / `float` -/

theorem pyFloatSpecial_NaN {α : Type} : pyFloatSpecial (α := α) "NaN".toList = some .nan := by
  simp [pyFloatSpecial, stripSpace, isPyAsciiSpace, asciiLower, splitSign]
theorem pyFloatSpecial_INF {α : Type} : pyFloatSpecial (α := α) "INF".toList = some (.inf false) := by
  simp [pyFloatSpecial, stripSpace, isPyAsciiSpace, asciiLower, splitSign]
theorem pyFloatSpecial_negINF {α : Type} : pyFloatSpecial (α := α) "-INF".toList = some (.inf true) := by
  simp [pyFloatSpecial, stripSpace, isPyAsciiSpace, asciiLower, splitSign]

theorem doubleFromText_doubleToText {α : Type} (reprF : α → Text) (parseF : Text → Option (Dbl α))
    (hbij : ∀ x, parseF (reprF x) = some (.fin x)) (hns : ∀ x, pyFloatSpecial (α := α) (reprF x) = none)
    (v : Dbl α) : doubleFromText parseF (doubleToText reprF v) = .ok v := by
  cases v with
  | nan =>
    show doubleFromText parseF "NaN".toList = _
    unfold doubleFromText; rw [pyFloatSpecial_NaN]
  | inf neg =>
    cases neg
    · show doubleFromText parseF "INF".toList = _
      unfold doubleFromText; rw [pyFloatSpecial_INF]
    · show doubleFromText parseF "-INF".toList = _
      unfold doubleFromText; rw [pyFloatSpecial_negINF]
  | fin x => simp [doubleFromText, doubleToText, hns x, hbij x]

theorem xsdDouble_doubleToText {α : Type} (reprF : α → Text) (hlex : ∀ x, XsdLex.doubleNumeric (reprF x) = true)
    (v : Dbl α) : XsdLex.double (doubleToText reprF v) = true := by
  cases v with
  | nan => show XsdLex.double "NaN".toList = true; decide
  | inf neg =>
    cases neg
    · show XsdLex.double "INF".toList = true; decide
    · show XsdLex.double "-INF".toList = true; decide
  | fin x => simp [XsdLex.double, doubleToText, hlex x]

end SpyneModel

namespace SpyneModel
set_option linter.unusedSimpArgs false
set_option linter.unusedVariables false

/-! ### a numeric xs:double literal is never one of `float()`'s special spellings -/

theorem dropWhile_keep {p : Char → Bool} (c : Char) (m : Text) (hc : p c = false) :
    ∀ l : Text, ∃ l', (l ++ c :: m).dropWhile p = l' ++ c :: m := by
  intro l
  induction l with
  | nil => exact ⟨[], by simp [List.dropWhile, hc]⟩
  | cons x l ih =>
    by_cases hx : p x = true
    · obtain ⟨l', h⟩ := ih
      exact ⟨l', by simp [List.dropWhile, hx, h]⟩
    · exact ⟨x :: l, by simp [List.dropWhile, hx]⟩

theorem rstrip_keep {p : Char → Bool} (a : Text) (c : Char) (r : Text) (hc : p c = false) :
    ∃ r', ((a ++ c :: r).reverse.dropWhile p).reverse = a ++ c :: r' := by
  have e : (a ++ c :: r).reverse = r.reverse ++ c :: a.reverse := by simp
  obtain ⟨l', h⟩ := dropWhile_keep c a.reverse hc r.reverse
  exact ⟨l'.reverse, by rw [e, h]; simp⟩

/-- first character of the unsigned part of a numeric literal -/
def numHead (c : Char) : Bool := isDigit c || c = '.'

theorem numHead_props (c : Char) (h : numHead c = true) :
    isPyAsciiSpace c = false ∧ asciiLower c = c ∧ c ≠ 'i' ∧ c ≠ 'n' ∧ c ≠ '-' ∧ c ≠ '+' := by
  simp only [numHead, Bool.or_eq_true, decide_eq_true_eq] at h
  rcases h with h | h
  · refine ⟨digit_not_space c h, ?_, ?_, ?_, ?_, ?_⟩
    · simp [isDigit] at h
      have : ¬ (65 ≤ c.toNat ∧ c.toNat ≤ 90) := by omega
      simp [asciiLower, this]
    all_goals (intro e; subst e; simp [isDigit] at h)
  · subst h; decide

theorem doubleNumeric_head (s : Text) (h : XsdLex.doubleNumeric s = true) :
    ∃ c r, (splitSign s).2 = c :: r ∧ numHead c = true := by
  unfold XsdLex.doubleNumeric at h
  obtain ⟨hb, hipd, _⟩ := spanDigits_spec (splitSign s).2
  generalize hsd : spanDigits (splitSign s).2 = p at h hb hipd
  obtain ⟨ip, r1⟩ := p
  simp only at h hb hipd
  generalize hof : optFrac r1 = q at h
  obtain ⟨fp, r2⟩ := q
  simp only [Bool.and_eq_true] at h
  cases ip with
  | cons c t =>
    rw [List.all_cons, Bool.and_eq_true] at hipd
    exact ⟨c, t ++ r1, by rw [hb]; simp, by simp [numHead, hipd.1]⟩
  | nil =>
    simp only [List.nil_append] at hb
    cases r1 with
    | nil => simp [optFrac] at hof; simp [← hof.1] at h
    | cons c r =>
      by_cases hc : c = '.'
      · exact ⟨c, r, hb, by simp [numHead, hc]⟩
      · simp [optFrac, hc] at hof
        simp [← hof.1] at h

theorem pyFloatSpecial_of_head {α : Type} (s : Text) (c : Char) (r : Text) (hs : (splitSign s).2 = c :: r)
    (hc : numHead c = true) : pyFloatSpecial (α := α) s = none := by
  obtain ⟨hsp, hlow, hi, hn, hm, hp⟩ := numHead_props c hc
  -- shape of s: an optional sign, then c
  have hshape : ∃ (a : Text), s = a ++ c :: r ∧ (a = [] ∨ a = ['-'] ∨ a = ['+']) := by
    cases s with
    | nil => simp [splitSign] at hs
    | cons x t =>
      by_cases h1 : x = '-'
      · subst h1; simp [splitSign] at hs; exact ⟨['-'], by simp [hs], Or.inr (Or.inl rfl)⟩
      · by_cases h2 : x = '+'
        · subst h2; simp [splitSign] at hs; exact ⟨['+'], by simp [hs], Or.inr (Or.inr rfl)⟩
        · simp [splitSign, h1, h2] at hs
          exact ⟨[], by simp [hs], Or.inl rfl⟩
  obtain ⟨a, hsa, ha⟩ := hshape
  have hstrip : ∃ r', stripSpace s = a ++ c :: r' := by
    have hdw : s.dropWhile isPyAsciiSpace = s := by
      rw [hsa]
      rcases ha with h | h | h <;> subst h
      · exact dropWhile_head_false c r hsp
      · exact dropWhile_head_false '-' _ (by decide)
      · exact dropWhile_head_false '+' _ (by decide)
    unfold stripSpace
    rw [hdw, hsa]
    exact rstrip_keep a c r hsp
  obtain ⟨r', hst⟩ := hstrip
  unfold pyFloatSpecial
  rw [hst]
  have hmap : (a ++ c :: r').map asciiLower = a ++ c :: r'.map asciiLower := by
    have l1 : asciiLower '-' = '-' := by decide
    have l2 : asciiLower '+' = '+' := by decide
    rcases ha with h | h | h <;> subst h <;> simp [hlow, l1, l2]
  rw [hmap]
  have hss : splitSign (a ++ c :: r'.map asciiLower) = (decide (a = ['-']), c :: r'.map asciiLower) := by
    rcases ha with h | h | h <;> subst h <;> simp [splitSign, hm, hp]
  rw [hss]
  have n1 : (c :: r'.map asciiLower) ≠ "inf".toList := by intro e; simp at e; exact hi e.1
  have n2 : (c :: r'.map asciiLower) ≠ "infinity".toList := by intro e; simp at e; exact hi e.1
  have n3 : (c :: r'.map asciiLower) ≠ "nan".toList := by intro e; simp at e; exact hn e.1
  simp only [n1, n2, n3, decide_false, Bool.or_false, Bool.false_eq_true, if_false]

theorem pyFloatSpecial_numeric {α : Type} (s : Text) (h : XsdLex.doubleNumeric s = true) :
    pyFloatSpecial (α := α) s = none := by
  obtain ⟨c, r, hs, hc⟩ := doubleNumeric_head s h
  exact pyFloatSpecial_of_head s c r hs hc

end SpyneModel

namespace SpyneModel
set_option linter.unusedSimpArgs false
set_option linter.unusedVariables false

/-! ### the other spellings `uuid.UUID` accepts -/

theorem uuidFromText_core (t : Text) (bs : List Nat) (hl : bs.length = 16) (h : bytesOk bs)
    (ht : (stripBraces (removeAll "uuid:".toList (removeAll "urn:".toList t))).filter (fun c => c != '-') = hexenc bs) :
    uuidFromText t = .ok bs := by
  unfold uuidFromText
  have hlen : ¬ ((hexenc bs).length ≠ 32) := by rw [hexenc_length, hl]; decide
  simp only [ht, hlen, if_false, pyIntHex_hexenc bs h (by omega)]
  rw [← hl, natToBytesBE_bytesVal bs.length bs rfl h]

theorem uuid_clean (bs : List Nat) (h : bytesOk bs) :
    removeAll "urn:".toList (uuidToText bs) = uuidToText bs ∧ removeAll "uuid:".toList (uuidToText bs) = uuidToText bs ∧
    stripBraces (uuidToText bs) = uuidToText bs := by
  have hall := List.all_eq_true.1 (uuidToText_all bs h)
  have hu : ∀ c ∈ uuidToText bs, c ≠ 'u' := fun c hc => (uuidChar_props c (hall c hc)).1
  have hb : ∀ c ∈ uuidToText bs, isBrace c = false := fun c hc => (uuidChar_props c (hall c hc)).2
  exact ⟨removeAllAux_id 'u' _ _ hu, removeAllAux_id 'u' _ _ hu, stripBraces_id _ hb⟩

/-- `urn:uuid:…` -/
theorem uuidFromText_urn (bs : List Nat) (hl : bs.length = 16) (h : bytesOk bs) :
    uuidFromText ("urn:uuid:".toList ++ uuidToText bs) = .ok bs := by
  obtain ⟨e1, e2, e3⟩ := uuid_clean bs h
  apply uuidFromText_core _ bs hl h
  have r1 : removeAll "urn:".toList ("urn:uuid:".toList ++ uuidToText bs) = "uuid:".toList ++ uuidToText bs := by
    have := e1
    simp only [removeAll] at this ⊢
    simp [removeAllAux, List.isPrefixOf]
    simpa using this
  have r2 : removeAll "uuid:".toList ("uuid:".toList ++ uuidToText bs) = uuidToText bs := by
    have := e2
    simp only [removeAll] at this ⊢
    simp [removeAllAux, List.isPrefixOf]
    simpa using this
  rw [r1, r2, e3, filter_hyphen_uuidToText bs h]

/-- `{…}` -/
theorem uuidFromText_braces (bs : List Nat) (hl : bs.length = 16) (h : bytesOk bs) :
    uuidFromText ('{' :: (uuidToText bs ++ ['}'])) = .ok bs := by
  obtain ⟨e1, e2, e3⟩ := uuid_clean bs h
  have hall := List.all_eq_true.1 (uuidToText_all bs h)
  have hu : ∀ c ∈ '{' :: (uuidToText bs ++ ['}']), c ≠ 'u' := by
    intro c hc
    simp at hc
    rcases hc with hc | hc | hc
    · subst hc; decide
    · exact (uuidChar_props c (hall c hc)).1
    · subst hc; decide
  apply uuidFromText_core _ bs hl h
  have r1 : removeAll "urn:".toList ('{' :: (uuidToText bs ++ ['}'])) = '{' :: (uuidToText bs ++ ['}']) :=
    removeAllAux_id 'u' _ _ hu
  have r2 : removeAll "uuid:".toList ('{' :: (uuidToText bs ++ ['}'])) = '{' :: (uuidToText bs ++ ['}']) :=
    removeAllAux_id 'u' _ _ hu
  have hb : ∀ c ∈ uuidToText bs, isBrace c = false := fun c hc => (uuidChar_props c (hall c hc)).2
  have hne : uuidToText bs ≠ [] := by unfold uuidToText; simp
  have r3 : stripBraces ('{' :: (uuidToText bs ++ ['}'])) = uuidToText bs := by
    unfold stripBraces
    have d1 : ('{' :: (uuidToText bs ++ ['}'])).dropWhile isBrace = uuidToText bs ++ ['}'] := by
      cases hu' : uuidToText bs with
      | nil => exact absurd hu' hne
      | cons c r =>
        have := hb c (by rw [hu']; simp)
        simp [List.dropWhile, isBrace] at this ⊢
        simp [this]
    rw [d1]
    have d2 : (uuidToText bs ++ ['}']).reverse.dropWhile isBrace = (uuidToText bs).reverse := by
      simp only [List.reverse_append, List.reverse_cons, List.reverse_nil, List.nil_append, List.singleton_append]
      have : isBrace '}' = true := by decide
      rw [List.dropWhile_cons_of_pos this]
      exact dropWhile_none _ (by intro c hc; exact hb c (by simpa using hc))
    rw [d2]; simp
  rw [r1, r2, r3, filter_hyphen_uuidToText bs h]

/-- the 32 digits without hyphens -/
theorem uuidFromText_hex (bs : List Nat) (hl : bs.length = 16) (h : bytesOk bs) :
    uuidFromText (hexenc bs) = .ok bs := by
  have hh := List.all_eq_true.1 (hexenc_all bs h)
  have hu : ∀ c ∈ hexenc bs, c ≠ 'u' := fun c hc => hex_ne c (hh c hc) 'u' (by decide)
  have hb : ∀ c ∈ hexenc bs, isBrace c = false := fun c hc => by
    have a := hex_ne c (hh c hc) '{' (by decide)
    have b := hex_ne c (hh c hc) '}' (by decide)
    simp [isBrace, a, b]
  have hy : ∀ c ∈ hexenc bs, (c != '-') = true := fun c hc => by
    have := hex_ne c (hh c hc) '-' (by decide); simpa using this
  apply uuidFromText_core _ bs hl h
  have r1 : removeAll "urn:".toList (hexenc bs) = hexenc bs := removeAllAux_id 'u' _ _ hu
  have r2 : removeAll "uuid:".toList (hexenc bs) = hexenc bs := removeAllAux_id 'u' _ _ hu
  rw [r1, r2, stripBraces_id _ hb, filter_none _ hy]

end SpyneModel

namespace SpyneModel
set_option linter.unusedSimpArgs false
set_option linter.unusedVariables false

/-! ## `dt_format` / `date_format`: `strptime (strftime x) = x` over `%Y %m %d %H %M %S` -/

/-- what `strptime` is expected to fill in: the fields the format mentions -/
def applyFmt (f : Fields) : Fmt → Fields → Fields
  | [], acc => acc
  | .dir D :: rest, acc => applyFmt f rest (acc.set D (f.get D))
  | .lit _ :: rest, acc => applyFmt f rest acc

def Fields.inRange (f : Fields) : Prop :=
  1 ≤ f.y ∧ f.y ≤ 9999 ∧ 1 ≤ f.m ∧ f.m ≤ 12 ∧ 1 ≤ f.d ∧ f.d ≤ 31 ∧ f.H < 24 ∧ f.M < 60 ∧ f.S < 60

theorem yearText_pad4 (F : Facts08x) (y : Nat) (hpad : F.oldYearPad = .zero ∨ 1000 ≤ y) (hy : y ≤ 9999) :
    yearText F y = pad4 y := by
  unfold yearText
  by_cases h : y > 1900
  · simp [h]
  · simp only [h, if_false]
    rcases hpad with hp | hp
    · rw [hp]
    · cases hF : F.oldYearPad with
      | zero => rfl
      | space | other =>
        simp only
        -- four digits already: nothing to pad
        have h4 : natText y = pad4 y := by
          have e1 : natText y = natText (y / 10) ++ [digitChar (y % 10)] := by
            rw [natText]; simp; omega
          have e2 : natText (y / 10) = natText (y / 10 / 10) ++ [digitChar (y / 10 % 10)] := by
            rw [natText]; simp; omega
          have e3 : natText (y / 10 / 10) = natText (y / 10 / 10 / 10) ++ [digitChar (y / 10 / 10 % 10)] := by
            rw [natText]; simp; omega
          have e4 : natText (y / 10 / 10 / 10) = [digitChar (y / 10 / 10 / 10)] := by
            rw [natText]; simp; omega
          rw [e1, e2, e3, e4]
          have a1 : y / 10 / 10 / 10 = y / 1000 := by omega
          have a2 : y / 10 / 10 % 10 = y / 100 % 10 := by omega
          simp [pad4, a1, a2]
        rw [h4]; simp [pad4]

theorem dirText_digits (F : Facts08x) (f : Fields) (hr : f.inRange) (hpad : F.oldYearPad = .zero ∨ 1000 ≤ f.y) (D : Dir) :
    (dirText F f D).all isDigit = true ∧ dirValue D (dirText F f D) = some (f.get D) ∧
    (∃ c t, dirText F f D = c :: t ∧ isDigit c = true) := by
  obtain ⟨hy1, hy2, hm1, hm2, hd1, hd2, hH, hM, hS⟩ := hr
  have p2 : ∀ n, n < 100 → (pad2 n).all isDigit = true ∧ (pad2 n).length = 2 ∧ valNat (pad2 n) = n ∧
      (∃ c t, pad2 n = c :: t ∧ isDigit c = true) := by
    intro n hn
    have a : n / 10 < 10 := by omega
    have b : n % 10 < 10 := by omega
    refine ⟨by simp [pad2, isDigit_digitChar _ a, isDigit_digitChar _ b], by simp [pad2], ?_,
      ⟨_, _, rfl, isDigit_digitChar _ a⟩⟩
    simp [pad2, valNat, dval_digitChar _ a, dval_digitChar _ b]; omega
  cases D with
  | Y =>
    simp only [dirText, yearText_pad4 F f.y hpad hy2, Fields.get]
    refine ⟨pad4_all_digits _ (by omega), ?_, ⟨_, _, rfl, isDigit_digitChar _ (by omega)⟩⟩
    simp [dirValue, pad4_length, valNat_pad4 f.y (by omega)]
  | m =>
    obtain ⟨a, b, c, d⟩ := p2 f.m (by omega)
    refine ⟨a, ?_, d⟩
    simp [dirText, Fields.get, dirValue, b, c, hm1, hm2]
  | d =>
    obtain ⟨a, b, c, d⟩ := p2 f.d (by omega)
    refine ⟨a, ?_, d⟩
    simp [dirText, Fields.get, dirValue, b, c, hd1, hd2]
  | H =>
    obtain ⟨a, b, c, d⟩ := p2 f.H (by omega)
    refine ⟨a, ?_, d⟩
    simp [dirText, Fields.get, dirValue, b, c]; omega
  | M =>
    obtain ⟨a, b, c, d⟩ := p2 f.M (by omega)
    refine ⟨a, ?_, d⟩
    simp [dirText, Fields.get, dirValue, b, c]; omega
  | S =>
    obtain ⟨a, b, c, d⟩ := p2 f.S (by omega)
    refine ⟨a, ?_, d⟩
    simp [dirText, Fields.get, dirValue, b, c]; omega

/-- first character of what a well-formed format renders: never a blank after a blank, never a digit after a
    directive -/
theorem renderFmt_head (F : Facts08x) (f : Fields) (hr : f.inRange) (hpad : F.oldYearPad = .zero ∨ 1000 ≤ f.y)
    (i : FmtItem) (rest : Fmt) :
    ∃ c t, renderFmt F f (i :: rest) = c :: t ∧
      (i.isLitNonDigit = true → isDigit c = false) ∧ (i.isSpaceLit = false → isPyUSpace c = false) := by
  cases i with
  | lit c => exact ⟨c, _, rfl, by simp [FmtItem.isLitNonDigit], by simp [FmtItem.isSpaceLit]⟩
  | dir D =>
    obtain ⟨_, _, c, t, hct, hc⟩ := dirText_digits F f hr hpad D
    refine ⟨c, t ++ renderFmt F f rest, by simp [renderFmt, hct], by simp [FmtItem.isLitNonDigit], ?_⟩
    intro _
    exact digit_not_uspace c hc

theorem strptime_render (F : Facts08x) (f : Fields) (hr : f.inRange) (hpad : F.oldYearPad = .zero ∨ 1000 ≤ f.y) :
    ∀ (fmt : Fmt), fmt.wf = true → ∀ acc, strptimeFmt fmt (renderFmt F f fmt) acc = some (applyFmt f fmt acc) := by
  intro fmt
  induction fmt with
  | nil => intro _ acc; simp [strptimeFmt, renderFmt, applyFmt]
  | cons i rest ih =>
    intro hwf acc
    cases i with
    | lit c =>
      simp only [Fmt.wf, Bool.and_eq_true, Bool.not_eq_true', decide_eq_true_eq] at hwf
      obtain ⟨⟨⟨hcd, hcp⟩, hsp⟩, hrest⟩ := hwf
      simp only [renderFmt, applyFmt]
      unfold strptimeFmt
      by_cases hs : isPyUSpace c = true
      · simp only [hs, if_true]
        -- what follows is not a blank
        have hdw : (c :: renderFmt F f rest).dropWhile isPyUSpace = renderFmt F f rest := by
          simp only [List.dropWhile, hs]
          cases rest with
          | nil => simp [renderFmt]
          | cons j rest' =>
            simp only [hs, Bool.true_and] at hsp
            obtain ⟨c', t, hct, _, hns⟩ := renderFmt_head F f hr hpad j rest'
            rw [hct]
            exact dropWhile_head_false c' t (hns hsp)
        rw [hdw]
        exact ih hrest acc
      · simp only [hs, if_false]
        exact ih hrest acc
    | dir D =>
      simp only [Fmt.wf, Bool.and_eq_true, Bool.not_eq_true'] at hwf
      obtain ⟨⟨hnext, _⟩, hrest⟩ := hwf
      obtain ⟨hdig, hval, c, t, hct, hc⟩ := dirText_digits F f hr hpad D
      simp only [renderFmt, applyFmt]
      unfold strptimeFmt
      have hskip : skipDaySpace D (dirText F f D ++ renderFmt F f rest) = dirText F f D ++ renderFmt F f rest := by
        have hne : c ≠ ' ' := by intro e; subst e; simp [isDigit] at hc
        rw [hct]
        unfold skipDaySpace
        cases D <;> (try rfl)
        cases hh : (t ++ renderFmt F f rest) with
        | nil => simp [hh]
        | cons x r => simp [hh, hne]
      rw [hskip]
      have hsp : spanDigits (dirText F f D ++ renderFmt F f rest) = (dirText F f D, renderFmt F f rest) := by
        apply spanDigits_all _ hdig
        intro c' r' hcr
        cases rest with
        | nil => simp [renderFmt] at hcr
        | cons j rest' =>
          simp only at hnext
          obtain ⟨c'', t'', hct'', hnd, _⟩ := renderFmt_head F f hr hpad j rest'
          rw [hct''] at hcr
          simp at hcr
          rw [← hcr.1]
          exact hnd hnext
      simp only [hsp, hval]
      exact ih hrest _

end SpyneModel

namespace SpyneModel
set_option linter.unusedSimpArgs false
set_option linter.unusedVariables false

theorem Fields.get_set (a : Fields) (D D' : Dir) (v : Nat) :
    (a.set D v).get D' = if D = D' then v else a.get D' := by
  cases D <;> cases D' <;> simp [Fields.set, Fields.get]

theorem applyFmt_get (f : Fields) : ∀ (fmt : Fmt) (acc : Fields) (D : Dir),
    (applyFmt f fmt acc).get D = if fmt.contains (.dir D) then f.get D else acc.get D := by
  intro fmt
  induction fmt with
  | nil => intro acc D; simp [applyFmt]
  | cons i rest ih =>
    intro acc D
    cases i with
    | lit c => simp [applyFmt, ih]
    | dir D' =>
      by_cases h2 : D' = D
      · subst h2; simp [applyFmt, ih, Fields.get_set]
      · have h3 : ¬ (D = D') := fun e => h2 e.symm
        simp [applyFmt, ih, Fields.get_set, h2, h3]

theorem Fields.ext_get (a b : Fields) (h : ∀ D, a.get D = b.get D) : a = b := by
  have hY := h .Y; have hm := h .m; have hd := h .d; have hH := h .H; have hM := h .M; have hS := h .S
  cases a; cases b
  simp [Fields.get] at hY hm hd hH hM hS
  simp [hY, hm, hd, hH, hM, hS]

def Fmt.hasAll (fmt : Fmt) (ds : List Dir) : Bool := ds.all (fun D => fmt.contains (.dir D))

theorem applyFmt_all (f : Fields) (fmt : Fmt) (acc : Fields)
    (h : fmt.hasAll [.Y, .m, .d, .H, .M, .S] = true) : applyFmt f fmt acc = f := by
  simp [Fmt.hasAll] at h
  apply Fields.ext_get
  intro D
  rw [applyFmt_get]
  cases D <;> simp [h]

theorem fieldsOf_inRange (d : Date) (t : Time) (hd : d.valid = true) (ht : t.valid = true) :
    (fieldsOf d t).inRange ∧ (fieldsOf d t).validDT = true := by
  have hd' := hd
  have ht' := ht
  simp [Date.valid] at hd'
  simp [Time.valid] at ht'
  obtain ⟨⟨⟨⟨⟨hy1, hy2⟩, hm1⟩, hm2⟩, hd1⟩, hd2⟩ := hd'
  obtain ⟨⟨⟨hh, hmi⟩, hs⟩, hus⟩ := ht'
  have hd3 := Nat.le_trans hd2 (daysInMonth_le _ _)
  refine ⟨⟨hy1, hy2, hm1, hm2, hd1, hd3, hh, hmi, hs⟩, ?_⟩
  obtain ⟨y, m, dd⟩ := d
  obtain ⟨h, mi, s, us⟩ := t
  simp only [fieldsOf, Fields.validDT, Bool.and_eq_true]
  exact ⟨hd, by simp [Time.valid]; simp at hh hmi hs; omega⟩

/-- `DateTime(dt_format=fmt)`: what is written is read back as the same wall clock, to the second
    (`%f` and `%z` are outside the modelled directives: microseconds and offset are not written) -/
theorem dateTimeFromTextFmt_render (F : Facts08x) (fmt : Fmt) (hwf : fmt.wf = true)
    (hall : fmt.hasAll [.Y, .m, .d, .H, .M, .S] = true) (x : DateTime) (hx : x.valid = true)
    (hpad : F.oldYearPad = .zero ∨ 1000 ≤ x.date.y) :
    dateTimeFromTextFmt F fmt none (renderFmt F (fieldsOf x.date x.time) fmt) =
      .ok ⟨x.date, ⟨x.time.h, x.time.mi, x.time.s, 0⟩, none⟩ := by
  simp [DateTime.valid] at hx
  obtain ⟨⟨hd, ht⟩, _⟩ := hx
  obtain ⟨hr, hv⟩ := fieldsOf_inRange x.date x.time hd ht
  unfold dateTimeFromTextFmt
  rw [strptime_render F _ hr hpad fmt hwf, applyFmt_all _ fmt _ hall]
  simp only [hv, if_true]
  rfl

/-- …with `as_timezone` on top (a value converted to the zone `o` first): the zone is put back on -/
theorem dateTimeFromTextFmt_render_astz (F : Facts08x) (hF : F.fmtAsTz = .replace) (fmt : Fmt) (hwf : fmt.wf = true)
    (hall : fmt.hasAll [.Y, .m, .d, .H, .M, .S] = true) (x1 : DateTime) (o : Int) (hx : x1.valid = true)
    (hpad : F.oldYearPad = .zero ∨ 1000 ≤ x1.date.y) :
    dateTimeFromTextFmt F fmt (some o) (renderFmt F (fieldsOf x1.date x1.time) fmt) =
      .ok ⟨x1.date, ⟨x1.time.h, x1.time.mi, x1.time.s, 0⟩, some o⟩ := by
  simp [DateTime.valid] at hx
  obtain ⟨⟨hd, ht⟩, _⟩ := hx
  obtain ⟨hr, hv⟩ := fieldsOf_inRange x1.date x1.time hd ht
  unfold dateTimeFromTextFmt
  rw [strptime_render F _ hr hpad fmt hwf, applyFmt_all _ fmt _ hall]
  simp only [hv, if_true, hF]
  rfl

/-- `Date(date_format=fmt)` -/
theorem dateFromTextFmt_render (F : Facts08x) (G : Facts08) (fmt : Fmt) (hwf : fmt.wf = true)
    (hall : fmt.hasAll [.Y, .m, .d] = true) (x : Date) (hx : x.valid = true)
    (hpad : F.oldYearPad = .zero ∨ 1000 ≤ x.y) :
    dateFromTextFmt G fmt (dateToTextFmt F false fmt x) = .ok x := by
  have ht0 : Time.valid ⟨0, 0, 0, 0⟩ = true := by decide
  obtain ⟨hr, hv⟩ := fieldsOf_inRange x ⟨0, 0, 0, 0⟩ hx ht0
  unfold dateFromTextFmt dateToTextFmt
  simp only [Bool.false_and, Bool.false_eq_true, if_false]
  rw [strptime_render F _ hr hpad fmt hwf]
  simp [Fmt.hasAll] at hall
  generalize hff : fieldsOf x ⟨0, 0, 0, 0⟩ = ff
  have fy : ff.y = x.y := by rw [← hff]; rfl
  have fm : ff.m = x.m := by rw [← hff]; rfl
  have fd : ff.d = x.d := by rw [← hff]; rfl
  have fH : ff.H = 0 := by rw [← hff]; rfl
  have fM : ff.M = 0 := by rw [← hff]; rfl
  have fS : ff.S = 0 := by rw [← hff]; rfl
  have gY : (applyFmt ff fmt {}).y = x.y := by
    have := applyFmt_get ff fmt {} .Y; simp [Fields.get, hall] at this; rw [this, fy]
  have gm : (applyFmt ff fmt {}).m = x.m := by
    have := applyFmt_get ff fmt {} .m; simp [Fields.get, hall] at this; rw [this, fm]
  have gd : (applyFmt ff fmt {}).d = x.d := by
    have := applyFmt_get ff fmt {} .d; simp [Fields.get, hall] at this; rw [this, fd]
  have eH : (applyFmt ff fmt {}).H = 0 := by
    have := applyFmt_get ff fmt {} .H; simp only [Fields.get, fH] at this; rw [this]; split <;> rfl
  have eM : (applyFmt ff fmt {}).M = 0 := by
    have := applyFmt_get ff fmt {} .M; simp only [Fields.get, fM] at this; rw [this]; split <;> rfl
  have eS : (applyFmt ff fmt {}).S = 0 := by
    have := applyFmt_get ff fmt {} .S; simp only [Fields.get, fS] at this; rw [this]; split <;> rfl
  have hvd : (applyFmt ff fmt {}).validDT = true := by
    simp only [Fields.validDT, gY, gm, gd, eH, eM, eS, Bool.and_eq_true]
    obtain ⟨y, m, d⟩ := x
    exact ⟨hx, by decide⟩
  simp only [hvd, if_true, gY, gm, gd]

end SpyneModel

namespace SpyneModel

/-- every textual `serialize_as` form of a Uuid is read back -/
theorem uuidFromText_uuidToTextAs (form : UuidForm) (bs : List Nat) (hl : bs.length = 16) (h : bytesOk bs) :
    uuidFromText (uuidToTextAs form bs) = .ok bs := by
  cases form with
  | canonical => exact uuidFromText_uuidToText bs hl h
  | hex => exact uuidFromText_hex bs hl h
  | urn => exact uuidFromText_urn bs hl h

end SpyneModel

namespace SpyneModel
set_option linter.unusedSimpArgs false
set_option linter.unusedVariables false

/-! ## every xs:base64Binary literal denotes bytes, and is read as them -/

theorem b64Char_b64Val (c : Char) (v : Nat) (h : b64Val? false c = some v) : v < 64 ∧ b64Char false v = c := by
  unfold b64Val? at h
  simp only [] at h
  split at h
  · rename_i hr
    simp at hr
    simp only [Option.some.injEq] at h
    subst h
    refine ⟨by omega, ?_⟩
    have : c.toNat - 65 < 26 := by omega
    have e : 65 + (c.toNat - 65) = c.toNat := by omega
    simp [b64Char, this, e, Char.ofNat_toNat]
  · split at h
    · rename_i hr
      simp at hr
      simp only [Option.some.injEq] at h
      subst h
      refine ⟨by omega, ?_⟩
      have a : ¬ (c.toNat - 71 < 26) := by omega
      have b : c.toNat - 71 < 52 := by omega
      have e : 71 + (c.toNat - 71) = c.toNat := by omega
      simp [b64Char, a, b, e, Char.ofNat_toNat]
    · split at h
      · rename_i hr
        simp at hr
        simp only [Option.some.injEq] at h
        subst h
        refine ⟨by omega, ?_⟩
        have a : ¬ (c.toNat + 4 < 26) := by omega
        have b : ¬ (c.toNat + 4 < 52) := by omega
        have d : c.toNat + 4 < 62 := by omega
        have e : c.toNat + 4 - 4 = c.toNat := by omega
        simp [b64Char, a, b, d, e, Char.ofNat_toNat]
      · by_cases h4 : c = '+'
        · subst h4; simp at h; subst h; exact ⟨by decide, by decide⟩
        · by_cases h5 : c = '/'
          · subst h5; simp at h; subst h; exact ⟨by decide, by decide⟩
          · simp [h4, h5] at h

theorem b64_literal_denotes : ∀ (t : Text), xsdBase64Binary t = true →
    ∃ bs, b64dec false t = some bs ∧ bytesOk bs ∧ b64enc false bs = t := by
  intro t
  fun_induction xsdBase64Binary t with
  | case1 => intro _; exact ⟨[], by simp [b64dec], by unfold bytesOk; simp, by simp [b64enc]⟩
  | case2 c1 c2 =>
    intro h
    simp only [Bool.and_eq_true] at h
    obtain ⟨h1, h2⟩ := h
    cases e1 : b64Val? false c1 with
    | none => simp [e1] at h1
    | some v1 =>
      cases e2 : b64Val? false c2 with
      | none => simp [e2] at h2
      | some v2 =>
        simp [e2] at h2
        obtain ⟨l1, r1⟩ := b64Char_b64Val c1 v1 e1
        obtain ⟨l2, r2⟩ := b64Char_b64Val c2 v2 e2
        refine ⟨[v1 * 4 + v2 / 16], by simp [b64dec, e1, e2], ?_, ?_⟩
        · unfold bytesOk; intro b hb; simp at hb; subst hb; omega
        · have a1 : (v1 * 4 + v2 / 16) / 4 = v1 := by omega
          have a2 : (v1 * 4 + v2 / 16) % 4 * 16 = v2 := by omega
          simp only [b64enc, a1, a2, r1, r2]
  | case3 c1 c2 c3 hne =>
    intro h
    simp only [Bool.and_eq_true] at h
    obtain ⟨⟨h1, h2⟩, h3⟩ := h
    cases e1 : b64Val? false c1 with
    | none => simp [e1] at h1
    | some v1 =>
      cases e2 : b64Val? false c2 with
      | none => simp [e2] at h2
      | some v2 =>
        cases e3 : b64Val? false c3 with
        | none => simp [e3] at h3
        | some v3 =>
          simp [e3] at h3
          obtain ⟨l1, r1⟩ := b64Char_b64Val c1 v1 e1
          obtain ⟨l2, r2⟩ := b64Char_b64Val c2 v2 e2
          obtain ⟨l3, r3⟩ := b64Char_b64Val c3 v3 e3
          have hc3 : c3 ≠ '=' := by
            intro e; subst e; simp [b64Val?] at e3
          refine ⟨[v1 * 4 + v2 / 16, v2 % 16 * 16 + v3 / 4], ?_, ?_, ?_⟩
          · rw [b64dec]
            · simp [e1, e2, e3]
            all_goals (intros; simp_all)
          · unfold bytesOk; intro b hb; simp at hb; rcases hb with hb | hb <;> subst hb <;> omega
          · have a1 : (v1 * 4 + v2 / 16) / 4 = v1 := by omega
            have a2 : (v1 * 4 + v2 / 16) % 4 * 16 + (v2 % 16 * 16 + v3 / 4) / 16 = v2 := by omega
            have a3 : (v2 % 16 * 16 + v3 / 4) % 16 * 4 = v3 := by omega
            simp only [b64enc, a1, a2, a3, r1, r2, r3]
  | case4 c1 c2 c3 c4 r hn1 hn2 ih =>
    intro h
    simp only [Bool.and_eq_true] at h
    obtain ⟨⟨⟨⟨h1, h2⟩, h3⟩, h4⟩, h5⟩ := h
    obtain ⟨bs, hd, hok, he⟩ := ih h5
    cases e1 : b64Val? false c1 with
    | none => simp [e1] at h1
    | some v1 =>
      cases e2 : b64Val? false c2 with
      | none => simp [e2] at h2
      | some v2 =>
        cases e3 : b64Val? false c3 with
        | none => simp [e3] at h3
        | some v3 =>
          cases e4 : b64Val? false c4 with
          | none => simp [e4] at h4
          | some v4 =>
            obtain ⟨l1, r1⟩ := b64Char_b64Val c1 v1 e1
            obtain ⟨l2, r2⟩ := b64Char_b64Val c2 v2 e2
            obtain ⟨l3, r3⟩ := b64Char_b64Val c3 v3 e3
            obtain ⟨l4, r4⟩ := b64Char_b64Val c4 v4 e4
            refine ⟨(v1 * 4 + v2 / 16) :: (v2 % 16 * 16 + v3 / 4) :: (v3 % 4 * 64 + v4) :: bs, ?_, ?_, ?_⟩
            · rw [b64dec]
              · simp [e1, e2, e3, e4, hd]
              all_goals (intros; simp_all)
            · unfold bytesOk at hok ⊢
              intro b hb
              simp at hb
              rcases hb with hb | hb | hb | hb
              · subst hb; omega
              · subst hb; omega
              · subst hb; omega
              · exact hok b hb
            · have a1 : (v1 * 4 + v2 / 16) / 4 = v1 := by omega
              have a2 : (v1 * 4 + v2 / 16) % 4 * 16 + (v2 % 16 * 16 + v3 / 4) / 16 = v2 := by omega
              have a3 : (v2 % 16 * 16 + v3 / 4) % 16 * 4 + (v3 % 4 * 64 + v4) / 64 = v3 := by omega
              have a4 : (v3 % 4 * 64 + v4) % 64 = v4 := by omega
              simp only [b64enc, a1, a2, a3, a4, r1, r2, r3, r4, he]
  | case5 t hn1 hn2 hn3 hn4 => intro h; cases h

theorem dropXmlSpace_idem (s : Text) : dropXmlSpace (dropXmlSpace s) = dropXmlSpace s := by
  simp [dropXmlSpace, List.filter_filter]

end SpyneModel

namespace SpyneModel

theorem decodeWith_encodeWith (e : BaEnc) (bs : List Nat) (h : bytesOk bs) : decodeWith e (encodeWith e bs) = some bs := by
  cases e
  · exact hexdec_hexenc bs h
  · exact b64dec_b64enc false bs h
  · exact b64dec_b64enc true bs h

theorem advertisedLex_encodeWith (e : BaEnc) (bs : List Nat) (h : bytesOk bs) : advertisedLex e (encodeWith e bs) = true := by
  cases e
  · exact xsdHexBinary_hexenc bs h
  · exact xsdBase64Binary_b64enc bs h
  · rfl

/-- a ByteArray that declares its encoding is written in it whatever the protocol suggests, the text is a literal
    of the schema type that encoding advertises, and the same protocol reads it back -/
theorem byteArray_declared (F : Facts08x) (hF : F.declaredBeatsSuggested = true) (e : BaEnc)
    (suggested protoDefault : Option BaEnc) (bs : List Nat) (h : bytesOk bs) :
    byteArrayToTextP F (some e) suggested protoDefault bs = some (encodeWith e bs) ∧
    advertisedLex e (encodeWith e bs) = true ∧
    byteArrayFromTextP (some e) suggested (encodeWith e bs) = some bs := by
  refine ⟨by simp [byteArrayToTextP, pickWriteEncoding, hF], advertisedLex_encodeWith e bs h, ?_⟩
  simp [byteArrayFromTextP, pickReadEncoding, decodeWith_encodeWith e bs h]

/-- an undeclared ByteArray is written and read with the protocol's suggestion -/
theorem byteArray_suggested (F : Facts08x) (e : BaEnc) (protoDefault : Option BaEnc) (bs : List Nat) (h : bytesOk bs) :
    byteArrayToTextP F none (some e) protoDefault bs = some (encodeWith e bs) ∧
    byteArrayFromTextP none (some e) (encodeWith e bs) = some bs := by
  refine ⟨?_, by simp [byteArrayFromTextP, pickReadEncoding, decodeWith_encodeWith e bs h]⟩
  unfold byteArrayToTextP pickWriteEncoding
  split <;> simp

end SpyneModel
