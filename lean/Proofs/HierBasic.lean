/-
  Basic lemmas about the dict-document model: the `Res` monad, member slots, one-step unfoldings of the encoder.
-/
import Proofs.HierLeaf
namespace SpyneModel.Hier
open SpyneModel

/-! ### `Res` -/

@[simp] theorem Res.good_bind {α β} (a : α) (f : α → Res β) : (Res.good a).bind f = f a := by
  show (match f a with | .ok b l' => Res.ok b (false || l') | .fault => .fault | .crash e => .crash e) = f a
  cases h : f a <;> simp

@[simp] theorem Res.good_map {α β} (a : α) (f : α → β) : (Res.good a).map f = .good (f a) := by
  simp [Res.map]

@[simp] theorem Res.fault_bind {α β} (f : α → Res β) : (Res.fault : Res α).bind f = .fault := rfl
@[simp] theorem Res.crash_bind {α β} (e : String) (f : α → Res β) : (Res.crash e : Res α).bind f = .crash e := rfl

theorem Res.good_ne_fault {α} (a : α) : (Res.good a : Res α) ≠ .fault := by simp [Res.good]

/-! ### flat documents -/

def Doc.isFlat : Doc → Bool
  | .list _ => false
  | .map _ => false
  | _ => true

section
variable (F : Facts08) (G : Facts02) (cfg : Cfg) (R : Registry)

theorem decode_flat (t : Ty) (d : Doc) (h : d.isFlat = true) : decode F G cfg R t d = flatOne F G cfg t d := by
  cases d <;> simp [Doc.isFlat] at h <;> simp [decode]

theorem leafOut_flat (p : PrimTy) (v : Val) : (leafOut F cfg p v).isFlat = true := by
  unfold leafOut textOut
  repeat' split
  all_goals simp [Doc.isFlat]

/-! ### slots -/

def slotNames (a : Acc) : List Text := a.map (·.1)

theorem putSlot_at (pre : Acc) (n : Text) (x : Val) (c : Nat) (rest : Acc) (f : Val → Val) (k : Nat)
    (h : n ∉ slotNames pre) :
    putSlot (pre ++ (n, x, c) :: rest) n f k = pre ++ (n, f x, c + k) :: rest := by
  induction pre with
  | nil => simp [putSlot]
  | cons s pre ih =>
    obtain ⟨m, y, d⟩ := s
    simp only [slotNames, List.map_cons, List.mem_cons, not_or] at h
    have hne : ¬ m = n := fun e => h.1 e.symm
    simp only [List.cons_append, putSlot, hne, if_false]
    rw [ih h.2]

theorem lookupField_at (preF : Fields) (n : Text) (t : Ty) (rest : Fields) (h : n ∉ preF.map (·.1)) :
    lookupField (preF ++ (n, t) :: rest) n = some t := by
  induction preF with
  | nil => simp [lookupField]
  | cons s preF ih =>
    obtain ⟨m, u⟩ := s
    simp only [List.map_cons, List.mem_cons, not_or] at h
    have hne : ¬ m = n := fun e => h.1 e.symm
    simp only [List.cons_append, lookupField, hne, if_false]
    exact ih h.2

theorem namesDistinct_append_cons (pre : List Text) (n : Text) (rest : List Text)
    (h : namesDistinct (pre ++ n :: rest) = true) : n ∉ pre ∧ n ∉ rest := by
  induction pre with
  | nil => simp [namesDistinct] at h; exact ⟨by simp, h.1⟩
  | cons m pre ih =>
    simp only [List.cons_append, namesDistinct, Bool.and_eq_true, Bool.not_eq_true', List.contains_eq_mem,
      decide_eq_false_iff_not, List.mem_append, List.mem_cons, not_or] at h
    have := ih h.2
    refine ⟨?_, this.2⟩
    simp only [List.mem_cons, not_or]
    exact ⟨fun e => h.1.2.1 e.symm, this.1⟩

/-! ### one-step unfoldings of the encoder -/

variable (S : Spell)

/-- `_to_dict_value(t, v)`: the encoding of one occurrence -/
def encOne (t : Ty) (v : Val) : Doc :=
  match v with
  | .none => (match t with
              | .obj name _ _ fields _ => wrapPairs S name (nonePairs S fields)
              | _ => .null)
  | .list ws => (match t with | .arr _ elem _ => .list (encodeItems S R elem ws) | _ => .null)
  | .obj c fvs =>
    (match t with
     | .obj name _ _ fields _ =>
       wrapPairs S (polyTarget S R name fields c).1 (encodeFields S R (polyTarget S R name fields c).2 fvs)
     | _ => .null)
  | v => (match t with | .prim p _ => S.lOut p v | _ => .null)

theorem encodeItems_cons (t : Ty) (v : Val) (vs : List Val) :
    encodeItems S R t (v :: vs) = encOne R S t v :: encodeItems S R t vs := by
  cases v <;> cases t <;> simp [encodeItems, encOne]

@[simp] theorem encodeItems_nil (t : Ty) : encodeItems S R t [] = [] := by simp [encodeItems]

/-- for a single-occurrence member holding a value of the right shape, `_object_to_doc` is `_to_dict_value` -/
theorem encode_eq_encOne (t : Ty) (v : Val) (hv : v ≠ .none)
    (hl : ∀ vs, v = .list vs → ∃ m e o, t = .arr m e o) :
    encodeS S R t v = encOne R S t v := by
  cases v with
  | none => exact absurd rfl hv
  | list vs =>
    obtain ⟨m, e, o, rfl⟩ := hl vs rfl
    simp [encodeS, encOne]
  | obj c fvs => cases t <;> simp [encodeS, encOne]
  | _ => cases t <;> simp [encodeS, encOne]

end
end SpyneModel.Hier
