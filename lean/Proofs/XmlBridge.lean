/-
  The registry-aware predicates of XmlSpec specialise to the shared specification `conforms` /
  `norm` when no subclass instances are involved.
-/
import SpyneModel.XmlSpec
namespace SpyneModel
namespace Xml

theorem leafOk_false (p : PrimTy) (o : Occ) (v : Val) : leafOk false p o v = p.valueOk v := by
  simp [leafOk]

theorem conformsOne_none (t : Ty) : conformsOne t .none = t.occ.nillable := by
  cases t <;> simp [conformsOne]

mutual
  theorem okX_eq (I : Iface) (t : Ty) : (v : Val) → okX I false false t v = conforms t v
    | .none => by
      unfold conforms
      by_cases hr : t.occ.repeated = true
      · simp [okX, hr]
      · simp [okX, hr, conformsOne_none]
    | .list vs => by
      unfold conforms
      by_cases hr : t.occ.repeated = true
      · simp only [okX, hr, if_true, okItemsX_eq I t vs]
      · simp only [okX, hr]
        cases t with
        | arr m el o => simp [conformsOne, okArrX_eq I el vs]
        | prim p o => cases p <;> simp [conformsOne, PrimTy.valueOk]
        | obj a b c d e => simp [conformsOne]
    | .obj cls ws => by
      unfold conforms
      by_cases hr : t.occ.repeated = true
      · simp [okX, hr]
      · simp only [okX, hr]
        cases t with
        | obj name ns base fields o =>
          simp only [conformsOne, Bool.not_false, Bool.true_and]
          by_cases hc : cls = name
          · simp [hc, okFieldsX_eq I fields ws]
          · simp [hc]
        | prim p o => cases p <;> simp [conformsOne, PrimTy.valueOk]
        | arr a b c => simp [conformsOne]
    | .int i => by unfold conforms; cases t <;> simp [okX, conformsOne, leafOk_false]
    | .bool i => by unfold conforms; cases t <;> simp [okX, conformsOne, leafOk_false]
    | .str i => by unfold conforms; cases t <;> simp [okX, conformsOne, leafOk_false]
    | .date i => by unfold conforms; cases t <;> simp [okX, conformsOne, leafOk_false]
    | .time i => by unfold conforms; cases t <;> simp [okX, conformsOne, leafOk_false]
    | .dt i => by unfold conforms; cases t <;> simp [okX, conformsOne, leafOk_false]
    | .dur i => by unfold conforms; cases t <;> simp [okX, conformsOne, leafOk_false]
    | .bytes i => by unfold conforms; cases t <;> simp [okX, conformsOne, leafOk_false]
    | .enum i => by unfold conforms; cases t <;> simp [okX, conformsOne, leafOk_false]

  theorem okOneX_eq (I : Iface) (t : Ty) : (v : Val) → okOneX I false false t v = conformsOne t v
    | .none => by simp [okOneX, conformsOne_none]
    | .list vs => by
      cases t with
      | arr m el o => simp [okOneX, conformsOne, okArrX_eq I el vs]
      | prim p o => cases p <;> simp [okOneX, conformsOne, PrimTy.valueOk]
      | obj a b c d e => simp [okOneX, conformsOne]
    | .obj cls ws => by
      cases t with
      | obj name ns base fields o =>
        simp only [okOneX, conformsOne]
        by_cases hc : cls = name
        · simp [hc, okFieldsX_eq I fields ws]
        · simp [hc]
      | prim p o => cases p <;> simp [okOneX, conformsOne, PrimTy.valueOk]
      | arr a b c => simp [okOneX, conformsOne]
    | .int i => by cases t <;> simp [okOneX, conformsOne, leafOk_false]
    | .bool i => by cases t <;> simp [okOneX, conformsOne, leafOk_false]
    | .str i => by cases t <;> simp [okOneX, conformsOne, leafOk_false]
    | .date i => by cases t <;> simp [okOneX, conformsOne, leafOk_false]
    | .time i => by cases t <;> simp [okOneX, conformsOne, leafOk_false]
    | .dt i => by cases t <;> simp [okOneX, conformsOne, leafOk_false]
    | .dur i => by cases t <;> simp [okOneX, conformsOne, leafOk_false]
    | .bytes i => by cases t <;> simp [okOneX, conformsOne, leafOk_false]
    | .enum i => by cases t <;> simp [okOneX, conformsOne, leafOk_false]

  theorem okItemsX_eq (I : Iface) (t : Ty) : (vs : List Val) → okItemsX I false false t vs = conformsItems t vs
    | [] => by simp [okItemsX, conformsItems]
    | v :: vs => by simp [okItemsX, conformsItems, okOneX_eq I t v, okItemsX_eq I t vs]

  theorem okArrX_eq (I : Iface) (t : Ty) : (vs : List Val) → okItemsX I false false t vs = conformsArr t vs
    | [] => by simp [okItemsX, conformsArr]
    | v :: vs => by simp [okItemsX, conformsArr, okOneX_eq I t v, okArrX_eq I t vs]

  theorem okFieldsX_eq (I : Iface) : (fs : List (Text × Ty)) → (vs : List (Text × Val)) →
      okFieldsX I false false fs vs = conformsFields fs vs
    | [], [] => by simp [okFieldsX, conformsFields]
    | [], _ :: _ => by simp [okFieldsX, conformsFields]
    | _ :: _, [] => by simp [okFieldsX, conformsFields]
    | (k, t) :: fs, (k', v) :: vs => by
      have ih := okFieldsX_eq I fs vs
      cases v with
      | none => simp [okFieldsX, conformsFields, ih]
      | _ => simp [okFieldsX, conformsFields, ih, okX_eq I t _]
end

theorem leafOk_mono {s s' : Bool} (hs : s' = true → s = true) (p : PrimTy) (o : Occ) (v : Val)
    (h : leafOk s p o v = true) : leafOk s' p o v = true := by
  cases s' with
  | false => simp only [leafOk, Bool.and_eq_true] at h ⊢; simp [h.1]
  | true => rw [hs rfl] at h; exact h

mutual
  /-- more polymorphism and less strictness only accept more -/
  theorem okX_mono (I : Iface) {p p' s s' : Bool} (hp : p = true → p' = true) (hs : s' = true → s = true) (t : Ty) :
      (v : Val) → okX I p s t v = true → okX I p' s' t v = true
    | .none, h => by simpa [okX] using h
    | .list vs, h => by
      simp only [okX] at h ⊢
      split at h
      · simp only [Bool.and_eq_true] at h
        simp [*, okItemsX_mono I hp hs t vs h.2]
      · rename_i hr
        simp only [hr, if_false]
        split at h
        · exact okItemsX_mono I hp hs _ vs h
        · cases h
    | .obj cls ws, h => by
      simp only [okX, Bool.and_eq_true] at h ⊢
      refine ⟨h.1, ?_⟩
      have h2 := h.2
      split at h2
      · split at h2
        · rename_i hc; simp only [hc, if_true]; exact okFieldsX_mono I hp hs _ ws h2
        · rename_i hc
          simp only [hc, if_false, Bool.and_eq_true] at h2 ⊢
          refine ⟨⟨hp h2.1.1, h2.1.2⟩, ?_⟩
          split at h2
          · rename_i c hf; exact okFieldsX_mono I hp hs _ ws h2.2
          · cases h2.2
      · cases h2
    | .int i, h => by cases t <;> simp_all [okX]; exact leafOk_mono hs _ _ _ h.2
    | .bool i, h => by cases t <;> simp_all [okX]; exact leafOk_mono hs _ _ _ h.2
    | .str i, h => by cases t <;> simp_all [okX]; exact leafOk_mono hs _ _ _ h.2
    | .date i, h => by cases t <;> simp_all [okX]; exact leafOk_mono hs _ _ _ h.2
    | .time i, h => by cases t <;> simp_all [okX]; exact leafOk_mono hs _ _ _ h.2
    | .dt i, h => by cases t <;> simp_all [okX]; exact leafOk_mono hs _ _ _ h.2
    | .dur i, h => by cases t <;> simp_all [okX]; exact leafOk_mono hs _ _ _ h.2
    | .bytes i, h => by cases t <;> simp_all [okX]; exact leafOk_mono hs _ _ _ h.2
    | .enum i, h => by cases t <;> simp_all [okX]; exact leafOk_mono hs _ _ _ h.2

  theorem okOneX_mono (I : Iface) {p p' s s' : Bool} (hp : p = true → p' = true) (hs : s' = true → s = true)
      (t : Ty) : (v : Val) → okOneX I p s t v = true → okOneX I p' s' t v = true
    | .none, h => by simpa [okOneX] using h
    | .list vs, h => by
      simp only [okOneX] at h ⊢
      split at h
      · exact okItemsX_mono I hp hs _ vs h
      · cases h
    | .obj cls ws, h => by
      simp only [okOneX] at h ⊢
      split at h
      · split at h
        · rename_i hc; simp only [hc, if_true]; exact okFieldsX_mono I hp hs _ ws h
        · rename_i hc
          simp only [hc, if_false, Bool.and_eq_true] at h ⊢
          refine ⟨⟨hp h.1.1, h.1.2⟩, ?_⟩
          split at h
          · rename_i c hf; exact okFieldsX_mono I hp hs _ ws h.2
          · cases h.2
      · cases h
    | .int i, h => by cases t <;> simp_all [okOneX]; exact leafOk_mono hs _ _ _ h
    | .bool i, h => by cases t <;> simp_all [okOneX]; exact leafOk_mono hs _ _ _ h
    | .str i, h => by cases t <;> simp_all [okOneX]; exact leafOk_mono hs _ _ _ h
    | .date i, h => by cases t <;> simp_all [okOneX]; exact leafOk_mono hs _ _ _ h
    | .time i, h => by cases t <;> simp_all [okOneX]; exact leafOk_mono hs _ _ _ h
    | .dt i, h => by cases t <;> simp_all [okOneX]; exact leafOk_mono hs _ _ _ h
    | .dur i, h => by cases t <;> simp_all [okOneX]; exact leafOk_mono hs _ _ _ h
    | .bytes i, h => by cases t <;> simp_all [okOneX]; exact leafOk_mono hs _ _ _ h
    | .enum i, h => by cases t <;> simp_all [okOneX]; exact leafOk_mono hs _ _ _ h

  theorem okItemsX_mono (I : Iface) {p p' s s' : Bool} (hp : p = true → p' = true) (hs : s' = true → s = true)
      (t : Ty) : (vs : List Val) → okItemsX I p s t vs = true → okItemsX I p' s' t vs = true
    | [], _ => by simp [okItemsX]
    | v :: vs, h => by
      simp only [okItemsX, Bool.and_eq_true] at h ⊢
      exact ⟨okOneX_mono I hp hs t v h.1, okItemsX_mono I hp hs t vs h.2⟩

  theorem okFieldsX_mono (I : Iface) {p p' s s' : Bool} (hp : p = true → p' = true) (hs : s' = true → s = true) :
      (fs : List (Text × Ty)) → (vs : List (Text × Val)) → okFieldsX I p s fs vs = true →
      okFieldsX I p' s' fs vs = true
    | [], [], _ => by simp [okFieldsX]
    | [], _ :: _, h => by simp [okFieldsX] at h
    | _ :: _, [], h => by simp [okFieldsX] at h
    | (k, t) :: fs, (k', v) :: vs, h => by
      cases v with
      | none =>
        simp only [okFieldsX, Bool.and_eq_true] at h ⊢
        exact ⟨h.1, okFieldsX_mono I hp hs fs vs h.2⟩
      | _ =>
        simp only [okFieldsX, Bool.and_eq_true] at h ⊢
        exact ⟨⟨h.1.1, okX_mono I hp hs t _ h.1.2⟩, okFieldsX_mono I hp hs fs vs h.2⟩
end

mutual
  theorem normX_eq (I : Iface) (t : Ty) : (v : Val) → conforms t v = true → normX I t v = norm t v
    | .list vs, h => by
      unfold conforms at h
      by_cases hr : t.occ.repeated = true
      · simp only [hr, if_true, Bool.and_eq_true] at h
        cases vs with
        | nil => simp [normX, norm, hr]
        | cons w ws => simp [normX, norm, hr, normItemsX_eq I t (w :: ws) h.2]
      · simp only [hr] at h
        cases t with
        | arr m el o =>
          simp only [conformsOne] at h
          simp [normX, norm, hr, normArrX_eq I el vs h]
        | prim p o => simp [normX, norm, hr]
        | obj a b c d e => simp [normX, norm, hr]
    | .obj cls ws, h => by
      unfold conforms at h
      by_cases hr : t.occ.repeated = true
      · simp [normX, norm, hr]
      · simp only [hr] at h
        cases t with
        | obj name ns base fields o =>
          simp only [Bool.false_eq_true, if_false, conformsOne, Bool.and_eq_true, decide_eq_true_eq] at h
          simp [normX, norm, hr, h.1, normFieldsX_eq I fields ws h.2]
        | prim p o => simp [normX, norm, hr]
        | arr a b c => simp [normX, norm, hr]
    | .bytes bs, _ => by cases bs <;> simp [normX, norm]
    | .none, _ => by simp [normX, norm]
    | .int _, _ => by simp [normX, norm]
    | .bool _, _ => by simp [normX, norm]
    | .str _, _ => by simp [normX, norm]
    | .date _, _ => by simp [normX, norm]
    | .time _, _ => by simp [normX, norm]
    | .dt _, _ => by simp [normX, norm]
    | .dur _, _ => by simp [normX, norm]
    | .enum _, _ => by simp [normX, norm]

  theorem normOneX_eq (I : Iface) (t : Ty) : (v : Val) → conformsOne t v = true → normOneX I t v = normOne t v
    | .list vs, h => by
      cases t with
      | arr m el o =>
        simp only [conformsOne] at h
        simp [normOneX, normOne, normArrX_eq I el vs h]
      | prim p o => simp [normOneX, normOne]
      | obj a b c d e => simp [normOneX, normOne]
    | .obj cls ws, h => by
      cases t with
      | obj name ns base fields o =>
        simp only [conformsOne, Bool.and_eq_true, decide_eq_true_eq] at h
        simp [normOneX, normOne, h.1, normFieldsX_eq I fields ws h.2]
      | prim p o => simp [normOneX, normOne]
      | arr a b c => simp [normOneX, normOne]
    | .bytes bs, _ => by cases bs <;> simp [normOneX, normOne]
    | .none, _ => by simp [normOneX, normOne]
    | .int _, _ => by simp [normOneX, normOne]
    | .bool _, _ => by simp [normOneX, normOne]
    | .str _, _ => by simp [normOneX, normOne]
    | .date _, _ => by simp [normOneX, normOne]
    | .time _, _ => by simp [normOneX, normOne]
    | .dt _, _ => by simp [normOneX, normOne]
    | .dur _, _ => by simp [normOneX, normOne]
    | .enum _, _ => by simp [normOneX, normOne]

  theorem normItemsX_eq (I : Iface) (t : Ty) : (vs : List Val) → conformsItems t vs = true →
      normItemsX I t vs = normItems t vs
    | [], _ => by simp [normItemsX, normItems]
    | v :: vs, h => by
      simp only [conformsItems, Bool.and_eq_true] at h
      simp [normItemsX, normItems, normOneX_eq I t v h.1, normItemsX_eq I t vs h.2]

  theorem normArrX_eq (I : Iface) (t : Ty) : (vs : List Val) → conformsArr t vs = true →
      normItemsX I t vs = normItems t vs
    | [], _ => by simp [normItemsX, normItems]
    | v :: vs, h => by
      simp only [conformsArr, Bool.and_eq_true] at h
      simp [normItemsX, normItems, normOneX_eq I t v h.1, normArrX_eq I t vs h.2]

  theorem normFieldsX_eq (I : Iface) : (fs : List (Text × Ty)) → (vs : List (Text × Val)) →
      conformsFields fs vs = true → normFieldsX I fs vs = normFields fs vs
    | [], [], _ => by simp [normFieldsX, normFields]
    | [], _ :: _, h => by simp [conformsFields] at h
    | _ :: _, [], h => by simp [conformsFields] at h
    | (k, t) :: fs, (k', v) :: vs, h => by
      cases v with
      | none =>
        simp only [conformsFields, Bool.and_eq_true] at h
        simp [normFieldsX, normFields, normX, norm, normFieldsX_eq I fs vs h.2]
      | _ =>
        simp only [conformsFields, Bool.and_eq_true] at h
        simp [normFieldsX, normFields, normX_eq I t _ h.1.2, normFieldsX_eq I fs vs h.2]
end

end Xml
end SpyneModel
