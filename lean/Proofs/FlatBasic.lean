/-
  C03 helper lemmas, part 1: the `Outcome` monad, folds, attribute stores, and the generic
  "a fold over keyed updates decomposes by key" lemma that carries the order-independence proofs.
-/
import SpyneModel.Flat
namespace SpyneModel.Flat
open SpyneModel

/-! ## Outcome -/

@[simp] theorem obind_ok {α β : Type} (a : α) (f : α → Outcome β) : obind (.ok a) f = f a := rfl
@[simp] theorem obind_fault {α β : Type} (f : α → Outcome β) : obind (.fault : Outcome α) f = .fault := rfl
@[simp] theorem obind_crash {α β : Type} (e : String) (f : α → Outcome β) :
    obind (.crash e : Outcome α) f = .crash e := rfl

theorem obind_eq_ok {α β : Type} {o : Outcome α} {f : α → Outcome β} {b : β} :
    obind o f = .ok b ↔ ∃ a, o = .ok a ∧ f a = .ok b := by
  cases o with
  | ok a => simp
  | fault => simp
  | crash e => simp

@[simp] theorem foldO_nil {σ α : Type} (f : σ → α → Outcome σ) (s : σ) : foldO f s [] = .ok s := rfl
@[simp] theorem foldO_cons {σ α : Type} (f : σ → α → Outcome σ) (s : σ) (a : α) (r : List α) :
    foldO f s (a :: r) = obind (f s a) fun s' => foldO f s' r := rfl

theorem foldO_append {σ α : Type} (f : σ → α → Outcome σ) (s : σ) (l r : List α) :
    foldO f s (l ++ r) = obind (foldO f s l) fun s' => foldO f s' r := by
  induction l generalizing s with
  | nil => simp
  | cons a l ih =>
    simp only [List.cons_append, foldO_cons]
    cases f s a with
    | ok s1 => simp [ih]
    | fault => simp
    | crash e => simp

/-- two step functions that agree on the elements of the list give the same fold -/
theorem foldO_congr {σ α : Type} (f g : σ → α → Outcome σ) (l : List α)
    (h : ∀ s a, a ∈ l → f s a = g s a) (s : σ) : foldO f s l = foldO g s l := by
  induction l generalizing s with
  | nil => rfl
  | cons a l ih =>
    simp only [foldO_cons, h s a (List.mem_cons_self)]
    cases g s a with
    | ok s1 => simp; exact ih (fun s a ha => h s a (List.mem_cons_of_mem _ ha)) s1
    | fault => rfl
    | crash e => rfl

/-! ## attribute stores -/

@[simp] theorem getAttr_setAttr_same (a : Attrs) (k : Text) (v : Node) : getAttr (setAttr a k v) k = v := by
  induction a with
  | nil => simp [setAttr, getAttr]
  | cons kv r ih =>
    obtain ⟨k', w⟩ := kv
    by_cases h : k' = k
    · simp [setAttr, getAttr, h]
    · simp [setAttr, getAttr, h, ih]

theorem getAttr_setAttr_ne (a : Attrs) (k j : Text) (v : Node) (h : j ≠ k) :
    getAttr (setAttr a k v) j = getAttr a j := by
  induction a with
  | nil => simp [setAttr, getAttr, Ne.symm h]
  | cons kv r ih =>
    obtain ⟨k', w⟩ := kv
    by_cases h1 : k' = k
    · subst h1
      simp [setAttr, getAttr, Ne.symm h]
    · by_cases h2 : k' = j
      · subst h2
        simp [setAttr, getAttr, h1]
      · simp [setAttr, getAttr, h1, h2, ih]

theorem setAttr_keys (a : Attrs) (k : Text) (v : Node) (h : k ∈ a.map Prod.fst) :
    (setAttr a k v).map Prod.fst = a.map Prod.fst := by
  induction a with
  | nil => simp at h
  | cons kv r ih =>
    obtain ⟨k', w⟩ := kv
    by_cases h1 : k' = k
    · simp [setAttr, h1]
    · simp only [List.map_cons, List.mem_cons] at h
      have : k ∈ r.map Prod.fst := by
        rcases h with h | h
        · exact absurd h.symm h1
        · exact h
      simp [setAttr, h1, ih this]

/-- a store with pairwise distinct keys is determined by its keys and what `getAttr` reads -/
theorem attrs_eq_of_get (a : Attrs) (h : (a.map Prod.fst).Nodup) :
    a = (a.map Prod.fst).map (fun k => (k, getAttr a k)) := by
  induction a with
  | nil => rfl
  | cons kv r ih =>
    obtain ⟨k, w⟩ := kv
    simp only [List.map_cons, List.nodup_cons] at h
    have ih' := ih h.2
    simp only [List.map_cons, getAttr, if_true, List.map_map, List.cons.injEq, true_and]
    conv => lhs; rw [ih']
    simp only [List.map_map]
    apply List.map_congr_left
    intro kv hkv
    have : kv.1 ≠ k := by
      intro e
      exact h.1 (e ▸ List.mem_map_of_mem (f := Prod.fst) hkv)
    simp [Ne.symm this]

theorem getAttr_freshAttrs (fields : List Fld) (k : Text) : getAttr (freshAttrs fields) k = .none := by
  induction fields with
  | nil => rfl
  | cons f r ih =>
    simp only [freshAttrs, List.map_cons, getAttr] at *
    split <;> simp_all

theorem freshAttrs_keys (fields : List Fld) : (freshAttrs fields).map Prod.fst = fields.map Prod.fst := by
  simp [freshAttrs, List.map_map, Function.comp_def]

/-! ## folds over keyed updates -/

/-- Generic decomposition. A state `s` is read through `get s k`; a step with key `key e` changes
    only what is read at that key, by `upd`. If for every key the updates for that key, taken in
    the order of the list, succeed from what the state holds there, then the whole fold succeeds,
    whatever way the keys are interleaved, and each key ends with its own result. -/
theorem foldO_by_key {σ ε κ ν : Type} [DecidableEq κ]
    (get : σ → κ → ν) (step : σ → ε → Outcome σ) (key : ε → κ) (upd : κ → ν → ε → Outcome ν)
    (I : σ → Prop) (P : ε → Prop) (Q : κ → ν → Prop)
    (law : ∀ s e v', P e → I s → upd (key e) (get s (key e)) e = .ok v' →
        ∃ s', step s e = .ok s' ∧ I s' ∧ get s' (key e) = v' ∧ ∀ j, j ≠ key e → get s' j = get s j) :
    ∀ (es : List ε) (s : σ), (∀ e, e ∈ es → P e) → I s →
      (∀ k, ∃ v, foldO (upd k) (get s k) (es.filter (fun e => key e = k)) = .ok v ∧ Q k v) →
      ∃ s', foldO step s es = .ok s' ∧ I s' ∧ ∀ k, Q k (get s' k) := by
  intro es
  induction es with
  | nil =>
    intro s _ hI h
    refine ⟨s, rfl, hI, fun k => ?_⟩
    obtain ⟨v, hv, hq⟩ := h k
    simp at hv
    exact hv ▸ hq
  | cons e es ih =>
    intro s hP hI h
    obtain ⟨v, hv, _⟩ := h (key e)
    simp only [List.filter_cons, decide_true, if_true, foldO_cons] at hv
    obtain ⟨v1, hv1, _⟩ := obind_eq_ok.mp hv
    obtain ⟨s1, hs1, hI1, hg1, hother⟩ := law s e v1 (hP e List.mem_cons_self) hI hv1
    have := ih s1 (fun e' he' => hP e' (List.mem_cons_of_mem _ he')) hI1 (fun k => by
      by_cases hk : key e = k
      · subst hk
        obtain ⟨v, hv, hq⟩ := h (key e)
        simp only [List.filter_cons, decide_true, if_true, foldO_cons, hv1, obind_ok] at hv
        exact ⟨v, hg1 ▸ hv, hq⟩
      · obtain ⟨v, hv, hq⟩ := h k
        simp only [List.filter_cons, hk, decide_false] at hv
        refine ⟨v, ?_, hq⟩
        rw [hother k (Ne.symm hk)]
        exact hv)
    obtain ⟨s', hs', hI', hq'⟩ := this
    exact ⟨s', by simp [hs1, hs'], hI', hq'⟩

/-! ## permutations -/

/-- a permutation of an image is the image of a permutation -/
theorem perm_map_pullback {α β : Type} (f : α → β) :
    ∀ (l : List β) (xs : List α), l.Perm (xs.map f) → ∃ ys : List α, ys.Perm xs ∧ l = ys.map f := by
  intro l
  induction l with
  | nil =>
    intro xs h
    have : xs = [] := by
      have := h.length_eq
      simp at this
      exact List.eq_nil_of_length_eq_zero this.symm
    subst this
    exact ⟨[], List.Perm.refl _, rfl⟩
  | cons b l ih =>
    intro xs h
    have hb : b ∈ xs.map f := h.subset List.mem_cons_self
    obtain ⟨x, hx, rfl⟩ := List.mem_map.mp hb
    obtain ⟨l1, l2, rfl⟩ := List.append_of_mem hx
    have h2 : l.Perm ((l1 ++ l2).map f) := by
      have : (f x :: l).Perm (f x :: (l1 ++ l2).map f) := by
        refine h.trans ?_
        simp only [List.map_append, List.map_cons]
        exact List.perm_middle
      exact List.Perm.cons_inv this
    obtain ⟨ys, hys, rfl⟩ := ih (l1 ++ l2) h2
    exact ⟨x :: ys, (List.Perm.cons x hys).trans List.perm_middle.symm, rfl⟩

end SpyneModel.Flat
