/-
  C04 for classes with attribute / data members: whatever document arrives, a value `from_element` returns
  is None, of the declared kind, an instance of the declared class or a registered descendant whose
  attribute / data members hold None or values of their declared primitive kind, or a list of such.
  (Holds with or without the child-attribute loop: what that loop assigns is still converted with the
  member's own type.)
-/
import Proofs.XmlAttrBasic
import Proofs.XmlSound
namespace SpyneModel
namespace Xml

/-- what `hasTyFieldsA` asks of one slot of the instance -/
def slotOk (I : IfaceA) (kind : MKind) (t : TyA) (v : Val) : Bool :=
  match kind with
  | .element => hasTyA I t v
  | _ => (match v with | .none => true | w => kindOkA t w)

theorem hasTyFieldsA_cons {I : IfaceA} {k k' : Text} {kind : MKind} {t : TyA} {v : Val}
    {fs : List (Text × MKind × TyA)} {vs : List (Text × Val)} :
    hasTyFieldsA I ((k, kind, t) :: fs) ((k', v) :: vs) =
      (decide (k = k') && slotOk I kind t v && hasTyFieldsA I fs vs) := by
  cases kind <;> simp [hasTyFieldsA, slotOk]
  all_goals (cases v <;> rfl)

theorem slotOk_none (I : IfaceA) (kind : MKind) (t : TyA) : slotOk I kind t .none = true := by
  cases kind <;> simp [slotOk, hasTyA]

theorem hasTyFieldsA_init (I : IfaceA) (fields : List (Text × MKind × TyA)) :
    hasTyFieldsA I fields (initStateA fields) = true := by
  induction fields with
  | nil => simp [initStateA, hasTyFieldsA]
  | cons f fs ih =>
    obtain ⟨k, kind, t⟩ := f
    simp only [initStateA, List.map] at ih ⊢
    rw [hasTyFieldsA_cons]
    simp [slotOk_none, ih]

theorem hasTyFieldsA_stSet {I : IfaceA} (fields : List (Text × MKind × TyA)) (st : List (Text × Val)) (k : Text)
    (kind : MKind) (mt : TyA) (v : Val) (hst : hasTyFieldsA I fields st = true)
    (hk : lookupA fields k = some (kind, mt)) (hv : slotOk I kind mt v = true) :
    hasTyFieldsA I fields (stSet st k v) = true := by
  induction fields generalizing st with
  | nil => simp [lookupA, List.lookup] at hk
  | cons f fs ih =>
    obtain ⟨k0, kind0, t0⟩ := f
    cases st with
    | nil => simp [hasTyFieldsA] at hst
    | cons s r =>
      obtain ⟨k0', x⟩ := s
      rw [hasTyFieldsA_cons] at hst
      simp only [Bool.and_eq_true, decide_eq_true_eq] at hst
      obtain ⟨⟨hk0, hx⟩, hr⟩ := hst
      subst hk0
      simp only [lookupA, List.lookup] at hk
      by_cases hkk : k = k0
      · subst hkk
        simp only [beq_self_eq_true] at hk
        cases hk
        simp only [stSet, if_true]
        rw [hasTyFieldsA_cons]
        simp [hv, hr]
      · have hne : (k == k0) = false := by simp [hkk]
        rw [hne] at hk
        have hkk' : ¬ k0 = k := fun h => hkk h.symm
        simp only [stSet, hkk', if_false]
        rw [hasTyFieldsA_cons]
        simp only [decide_true, Bool.true_and, hx, Bool.and_eq_true, true_and]
        exact ih r hr hk

theorem slotOk_stGet {I : IfaceA} (fields : List (Text × MKind × TyA)) (st : List (Text × Val)) (k : Text)
    (kind : MKind) (mt : TyA) (hst : hasTyFieldsA I fields st = true) (hk : lookupA fields k = some (kind, mt)) :
    slotOk I kind mt (stGet st k) = true := by
  induction fields generalizing st with
  | nil => simp [lookupA, List.lookup] at hk
  | cons f fs ih =>
    obtain ⟨k0, kind0, t0⟩ := f
    cases st with
    | nil => simp [hasTyFieldsA] at hst
    | cons s r =>
      obtain ⟨k0', x⟩ := s
      rw [hasTyFieldsA_cons] at hst
      simp only [Bool.and_eq_true, decide_eq_true_eq] at hst
      obtain ⟨⟨hk0, hx⟩, hr⟩ := hst
      subst hk0
      simp only [lookupA, List.lookup] at hk
      by_cases hkk : k = k0
      · subst hkk
        simp only [beq_self_eq_true] at hk
        cases hk
        simp [stGet, List.lookup, hx]
      · have hne : (k == k0) = false := by simp [hkk]
        rw [hne] at hk
        have := ih r hr hk
        simpa [stGet, List.lookup, hne] using this

theorem hasTyA_of_one {I : IfaceA} {t : TyA} {v : Val} (hr : t.occ.repeated = false)
    (h : hasTyOneA I t v = true) : hasTyA I t v = true := by
  cases v <;> simp_all [hasTyA, hasTyOneA]

theorem hasTyItemsA_append {I : IfaceA} {t : TyA} (l : List Val) (v : Val)
    (hl : hasTyItemsA I t l = true) (hv : hasTyOneA I t v = true) : hasTyItemsA I t (l ++ [v]) = true := by
  induction l with
  | nil => simp [hasTyItemsA, hv]
  | cons a l ih =>
    simp only [hasTyItemsA, Bool.and_eq_true] at hl
    simp [hasTyItemsA, hl.1, ih hl.2]

theorem hasTyFieldsA_stAppend {I : IfaceA} (fields : List (Text × MKind × TyA)) (st : List (Text × Val)) (k : Text)
    (mt : TyA) (v : Val) (hst : hasTyFieldsA I fields st = true) (hk : lookupA fields k = some (.element, mt))
    (hrep : mt.occ.repeated = true) (hv : hasTyOneA I mt v = true) :
    hasTyFieldsA I fields (stAppend st k v) = true := by
  have hg := slotOk_stGet fields st k .element mt hst hk
  unfold stAppend
  split
  · rename_i l hl
    rw [hl] at hg
    apply hasTyFieldsA_stSet fields st k .element mt _ hst hk
    simp only [slotOk, hasTyA, hrep, if_true] at hg ⊢
    exact hasTyItemsA_append l v hg hv
  · apply hasTyFieldsA_stSet fields st k .element mt _ hst hk
    simp [slotOk, hasTyA, hrep, hasTyItemsA, hv]

/-! ### attribute and data values -/

theorem modifierValue_sound {F : Facts08} (L : LeafLaws F) (A : FactsAttr) (cfg : Cfg) (p : PrimTy) (s : Text) (v : Val)
    (h : modifierValue F A cfg p s = .ok v) : p.kindOk v = true := by
  unfold modifierValue at h
  repeat' (first | split at h | (dsimp only at h; split at h))
  all_goals first
    | (cases h; done)
    | (cases h; exact L.sound _ _ _ (by assumption))

theorem slotOk_modifier {I : IfaceA} {kind : MKind} (hk : kind ≠ .element) (p : PrimTy) (o : Occ) (v : Val)
    (h : p.kindOk v = true) : slotOk I kind (.prim p o) v = true := by
  cases kind with
  | element => exact absurd rfl hk
  | _ => cases v <;> simp_all [slotOk, kindOkA]

theorem dataPass_sound {F : Facts08} (L : LeafLaws F) (A : FactsAttr) (cfg : Cfg) (I : IfaceA) (text : Option Text)
    (fields : List (Text × MKind × TyA)) (fs : List (Text × MKind × TyA)) :
    (∀ f ∈ fs, lookupA fields f.1 = some f.2) → ∀ (st st' : List (Text × Val)),
    hasTyFieldsA I fields st = true → dataPass F A cfg text fs st = .ok st' → hasTyFieldsA I fields st' = true := by
  induction fs with
  | nil => intro _ st st' hst h; simp only [dataPass] at h; cases h; exact hst
  | cons f fs ih =>
    intro hsub st st' hst h
    have ih' := ih (fun g hg => hsub g (List.mem_cons_of_mem _ hg))
    obtain ⟨k, kind, t⟩ := f
    have hlk := hsub (k, kind, t) List.mem_cons_self
    cases kind <;> cases t <;> simp only [dataPass] at h
    all_goals first
      | exact ih' st st' hst h
      | skip
    rename_i p o
    split at h
    · exact ih' st st' hst h
    · split at h
      · rename_i s v hv
        refine ih' _ st' ?_ h
        exact hasTyFieldsA_stSet fields st k .data (.prim p o) v hst hlk
          (slotOk_modifier (by simp) p o v (modifierValue_sound L A cfg p _ v hv))
      · cases h
      · cases h

theorem attrPass_sound {F : Facts08} (L : LeafLaws F) (A : FactsAttr) (cfg : Cfg) (I : IfaceA)
    (fields : List (Text × MKind × TyA)) (as : List (Text × Text)) :
    ∀ (st st' : List (Text × Val)), hasTyFieldsA I fields st = true →
    attrPass F A cfg fields as st = .ok st' → hasTyFieldsA I fields st' = true := by
  induction as with
  | nil => intro st st' hst h; simp only [attrPass] at h; cases h; exact hst
  | cons a as ih =>
    intro st st' hst h
    obtain ⟨key, s⟩ := a
    unfold attrPass at h
    split at h
    · rename_i p o hlk
      split at h
      · rename_i v hv
        refine ih _ st' ?_ h
        exact hasTyFieldsA_stSet fields st key .attribute (.prim p o) v hst hlk
          (slotOk_modifier (by simp) p o v (modifierValue_sound L A cfg p _ v hv))
      · cases h
      · cases h
    · exact ih st st' hst h

theorem childAttrLeak_sound {F : Facts08} (L : LeafLaws F) (A : FactsAttr) (cfg : Cfg) (I : IfaceA)
    (fields : List (Text × MKind × TyA)) (as : List (Text × Text)) (st st' : List (Text × Val))
    (hst : hasTyFieldsA I fields st = true) (h : childAttrLeak F A cfg fields as st = .ok st') :
    hasTyFieldsA I fields st' = true := by
  unfold childAttrLeak at h
  split at h
  · cases h; exact hst
  · exact attrPass_sound L _ cfg I fields as st st' hst h

/-! ### registry -/

theorem find?_nameA_of_mem (cs : List ClassDefA) (c : ClassDefA) (hn : textsNodup (cs.map (·.name)) = true)
    (hc : c ∈ cs) : cs.find? (fun d => d.name = c.name) = some c := by
  induction cs with
  | nil => cases hc
  | cons d ds ih =>
    simp only [List.map, textsNodup, Bool.and_eq_true, Bool.not_eq_true'] at hn
    simp only [List.find?]
    by_cases hd : d.name = c.name
    · simp only [hd, decide_true]
      cases hc with
      | head => rfl
      | tail _ h =>
        exfalso
        have : (ds.map (·.name)).contains d.name = true := by
          rw [hd]; simp only [List.contains_eq_mem, List.mem_map, decide_eq_true_eq]; exact ⟨c, h, rfl⟩
        rw [this] at hn; exact absurd hn.1 (by simp)
    · simp only [hd, decide_false]
      cases hc with
      | head => exact absurd rfl hd
      | tail _ h => exact ih hn.2 h

theorem ifaceWfA_names {I : IfaceA} (h : ifaceWfA I = true) : textsNodup (I.classes.map (·.name)) = true := by
  simp only [ifaceWfA, Bool.and_eq_true] at h; exact h.1.1.1

theorem ifaceWfA_others {I : IfaceA} (h : ifaceWfA I = true) :
    ∀ e ∈ I.others, (match e.2 with | .obj _ _ _ _ _ => false | _ => true) = true := by
  simp only [ifaceWfA, Bool.and_eq_true, List.all_eq_true] at h; exact h.1.2

theorem ifaceWfA_fields {I : IfaceA} (h : ifaceWfA I = true) :
    ∀ c ∈ I.classes, namesNodupA c.fields = true ∧ c.fields.all (fun f => plainName f.1) = true ∧
      kindsWf c.fields = true ∧ wfFieldsA c.fields = true := by
  simp only [ifaceWfA, Bool.and_eq_true, List.all_eq_true] at h
  intro c hc
  have := h.2 c hc
  exact ⟨this.1.1.1, by simpa [List.all_eq_true] using this.1.1.2, this.1.2, this.2⟩

/-- what `from_element` continues with -/
def ResolvedFromA (I : IfaceA) (t rt : TyA) : Prop :=
  rt = t ∨ (∃ dn dns db dfs docc c, t = .obj dn dns db dfs docc ∧ rt = ClassDefA.toTy c ∧ c ∈ I.classes ∧
              I.classes.find? (fun d => d.name = c.name) = some c ∧ I.isSub c.name dn = true)

theorem resolveXsiA_sound {X : FactsXml} (hX : X.xsiTypeCheck = true) {I : IfaceA} (hI : ifaceWfA I = true)
    {t rt : TyA} {key : Text} (h : resolveXsiA X I t key = some rt) : ResolvedFromA I t rt := by
  unfold resolveXsiA at h
  split at h
  · cases h
  · rename_i nt hl
    simp only [hX, if_true] at h
    split at h
    · rename_i dn dns db dfs docc nn nns nb nfs nocc
      split at h
      · rename_i hs
        cases h
        unfold IfaceA.lookup at hl
        split at hl
        · rename_i c hc
          right
          have hmem := List.mem_of_find?_eq_some hc
          have hcc : ClassDefA.toTy c = .obj nn nns nb nfs nocc := Option.some.inj hl
          refine ⟨dn, dns, db, dfs, docc, c, rfl, hcc.symm, hmem, find?_nameA_of_mem _ _ (ifaceWfA_names hI) hmem, ?_⟩
          have : c.name = nn := by
            simp only [ClassDefA.toTy] at hcc; injection hcc
          rw [this]; exact hs
        · exfalso
          obtain ⟨k', hk'⟩ := mem_of_lookup _ _ _ hl
          have := ifaceWfA_others hI _ hk'
          simp at this
      · cases h
    · split at h
      · cases h; left; rfl
      · cases h
    · cases h; left; rfl
    · cases h

theorem hasTyOneA_obj_of_resolved {I : IfaceA} {t : TyA} {cname cns : Text} {cb : Option Text}
    {fields : List (Text × MKind × TyA)} {o : Occ} (hr : ResolvedFromA I t (.obj cname cns cb fields o))
    (st : List (Text × Val)) (hst : hasTyFieldsA I fields st = true) : hasTyOneA I t (.obj cname st) = true := by
  rcases hr with h | ⟨dn, dns, db, dfs, docc, c, ht, hrt, _, hf, hs⟩
  · subst h; simp [hasTyOneA, hst]
  · subst ht
    simp only [ClassDefA.toTy] at hrt
    injection hrt with h1 h2 h3 h4 h5
    subst h1; subst h4
    simp [hasTyOneA, hs, hf, hst]

theorem hasTyOneA_prim_of_kindOk (I : IfaceA) (p : PrimTy) (o : Occ) (v : Val) (h : p.kindOk v = true) :
    hasTyOneA I (.prim p o) v = true := by
  cases p <;> cases v <;> simp_all [hasTyOneA, kindOkA, PrimTy.kindOk]

theorem leafFromElement_soundA {F : Facts08} (L : LeafLaws F) (X : FactsXml) (cfg : Cfg) (I : IfaceA) (p : PrimTy)
    (o : Occ) (text : Option Text) (v : Val) (h : leafFromElement F X cfg p o text = .ok v) :
    hasTyOneA I (.prim p o) v = true := by
  unfold leafFromElement at h
  repeat' (first | split at h | (dsimp only at h; split at h))
  all_goals first
    | (cases h; done)
    | (cases h; simp [hasTyOneA]; done)
    | (cases h; apply hasTyOneA_prim_of_kindOk; simp_all [PrimTy.kindOk]; done)
    | (cases h; apply hasTyOneA_prim_of_kindOk; exact L.sound _ _ _ (by assumption))

theorem lookupA_of_mem : (fs : List (Text × MKind × TyA)) → namesNodupA fs = true →
    ∀ f ∈ fs, lookupA fs f.1 = some f.2
  | [], _, f, h => by cases h
  | (k0, x0) :: fs, hnd, f, h => by
    simp only [namesNodupA, Bool.and_eq_true, Bool.not_eq_true', List.any_eq_false] at hnd
    cases h with
    | head => simp [lookupA, List.lookup]
    | tail _ h =>
      have hne : (f.1 == k0) = false := by
        cases hb : (f.1 == k0) with
        | false => rfl
        | true =>
          have : f.1 = k0 := by simpa using hb
          exact absurd (by simpa using this) (hnd.1 f h)
      simp only [lookupA, List.lookup, hne]
      exact lookupA_of_mem fs hnd.2 f h

theorem wf_of_lookupA : (fs : List (Text × MKind × TyA)) → wfFieldsA fs = true → ∀ k kind mt,
    lookupA fs k = some (kind, mt) → tyWfA mt = true
  | [], _, k, kind, mt, h => by simp [lookupA, List.lookup] at h
  | (k0, kind0, t0) :: fs, hwf, k, kind, mt, h => by
    simp only [wfFieldsA, Bool.and_eq_true] at hwf
    simp only [lookupA, List.lookup] at h
    split at h
    · cases h; exact hwf.1
    · exact wf_of_lookupA fs hwf.2 k kind mt h

mutual
  theorem fromElementA_sound {F : Facts08} (L : LeafLaws F) {X : FactsXml} (hX : X.xsiTypeCheck = true)
      (A : FactsAttr) (cfg : Cfg) {I : IfaceA} (hI : ifaceWfA I = true) (t : TyA) :
      (x : Node) → (v : Val) → tyWfA t = true →
      fromElementA F X A cfg I t x = .ok v → hasTyOneA I t v = true
    | .elem ns name attrs text children, v, hwf, h => by
      unfold fromElementA at h
      split at h
      · split at h <;> cases h <;> simp [hasTyOneA]
      · dsimp only at h
        generalize hrt : (if cfg.parseXsiType = true then _ else some t) = rt at h
        have hres : ∀ rt', rt = some rt' → ResolvedFromA I t rt' := by
          intro rt' hrt'
          subst hrt'
          split at hrt
          · split at hrt
            · cases hrt; exact Or.inl rfl
            · exact resolveXsiA_sound hX hI hrt
          · cases hrt; exact Or.inl rfl
        split at h
        · cases h
        · rename_i p o
          rcases hres _ rfl with h' | ⟨dn, dns, db, dfs, docc, c, ht, hrt', _⟩
          · subst h'; exact leafFromElement_soundA L X cfg I _ _ _ v h
          · simp [ClassDefA.toTy] at hrt'
        · rename_i cname cns cb fields o
          have hnd : namesNodupA fields = true ∧ wfFieldsA fields = true := by
            rcases hres _ rfl with h' | ⟨dn, dns, db, dfs, docc, c, ht, hrt', hmem, _⟩
            · subst h'
              simp only [tyWfA, Bool.and_eq_true] at hwf
              exact ⟨hwf.1.1.1.1, hwf.1.2⟩
            · simp only [ClassDefA.toTy] at hrt'
              injection hrt' with h1 h2 h3 h4 h5
              subst h4
              exact ⟨(ifaceWfA_fields hI c hmem).1, (ifaceWfA_fields hI c hmem).2.2.2⟩
          split at h
          · rename_i st1 h1
            have hs1 := dataPass_sound L A cfg I text fields fields (lookupA_of_mem fields hnd.1) _ st1
              (hasTyFieldsA_init I fields) h1
            split at h
            · rename_i st2 h2
              have hs2 := childLoopA_sound L hX A cfg hI fields hnd.2 children st1 st2 hs1 h2
              split at h
              · rename_i st3 h3
                have hs3 := attrPass_sound L A cfg I fields attrs st2 st3 hs2 h3
                split at h
                · cases h
                · cases h
                  exact hasTyOneA_obj_of_resolved (hres _ rfl) st3 hs3
              · cases h
              · cases h
            · cases h
            · cases h
          · cases h
          · cases h
        · rename_i m elem o
          split at h
          · rename_i vs hal
            cases h
            rcases hres _ rfl with h' | ⟨dn, dns, db, dfs, docc, c, ht, hrt', _⟩
            · subst h'
              simp only [tyWfA, Bool.and_eq_true] at hwf
              have hit := arrayLoopA_sound L hX A cfg hI elem hwf.1 children vs hal
              simp [hasTyOneA, hit]
            · simp [ClassDefA.toTy] at hrt'
          · cases h
          · cases h

  theorem childLoopA_sound {F : Facts08} (L : LeafLaws F) {X : FactsXml} (hX : X.xsiTypeCheck = true)
      (A : FactsAttr) (cfg : Cfg) {I : IfaceA} (hI : ifaceWfA I = true) (fields : List (Text × MKind × TyA))
      (hwf : wfFieldsA fields = true) :
      (cs : List Node) → (st st' : List (Text × Val)) → hasTyFieldsA I fields st = true →
      childLoopA F X A cfg I fields cs st = .ok st' → hasTyFieldsA I fields st' = true
    | [], st, st', hst, h => by
      simp only [childLoopA] at h; cases h; exact hst
    | c :: cs, st, st', hst, h => by
      unfold childLoopA at h
      split at h
      · exact childLoopA_sound L hX A cfg hI fields hwf cs st st' hst h
      · rename_i mt hk
        split at h
        · rename_i v hv
          have hv' := fromElementA_sound L hX A cfg hI mt c v (wf_of_lookupA fields hwf _ _ _ hk) hv
          split at h
          · rename_i st1 hl
            refine childLoopA_sound L hX A cfg hI fields hwf cs st1 st' ?_ h
            refine childAttrLeak_sound L A cfg I fields c.attrs _ st1 ?_ hl
            by_cases hrep : mt.occ.repeated = true
            · simp only [hrep, if_true]
              exact hasTyFieldsA_stAppend fields st _ mt v hst hk hrep hv'
            · simp only [hrep]
              exact hasTyFieldsA_stSet fields st _ .element mt v hst hk
                (by simp only [slotOk]; exact hasTyA_of_one (by simpa using hrep) hv')
          · cases h
          · cases h
        · cases h
        · cases h
      · split at h
        · exact childLoopA_sound L hX A cfg hI fields hwf cs st st' hst h
        · cases h

  theorem arrayLoopA_sound {F : Facts08} (L : LeafLaws F) {X : FactsXml} (hX : X.xsiTypeCheck = true)
      (A : FactsAttr) (cfg : Cfg) {I : IfaceA} (hI : ifaceWfA I = true) (elem : TyA)
      (hwf : tyWfA elem = true) :
      (cs : List Node) → (vs : List Val) → arrayLoopA F X A cfg I elem cs = .ok vs → hasTyItemsA I elem vs = true
    | [], vs, h => by
      simp only [arrayLoopA] at h; cases h; simp [hasTyItemsA]
    | c :: cs, vs, h => by
      unfold arrayLoopA at h
      split at h
      · rename_i v hv
        split at h
        · rename_i ws hws
          cases h
          simp [hasTyItemsA, fromElementA_sound L hX A cfg hI elem c v hwf hv,
                arrayLoopA_sound L hX A cfg hI elem hwf cs ws hws]
        · cases h
        · cases h
      · cases h
      · cases h
end

end Xml
end SpyneModel
