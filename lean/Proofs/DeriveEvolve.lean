/-
  C15 proofs, part 6: append_field / insert_field. With the variants discipline in force, evolution writes the
  class, the keys of its own `_variants` - which are exactly its customised variants - and nothing else.
-/
import Proofs.DeriveKeeps
namespace SpyneModel.Derive

theorem view_cls_of (h : Heap) (c : Nat) (cl : Cls) (hc : h.cls[c]? = some cl) :
    (viewOf h).cls c = some (cl.kind.isComplex, cl.attrs, cl.orig) := by simp [viewOf, hc]

theorem cls_of_view (h : Heap) (c : Nat) (k : Bool) (a : Nat) (o : Option Nat)
    (hv : (viewOf h).cls c = some (k, a, o)) :
    ∃ cl, h.cls[c]? = some cl ∧ cl.kind.isComplex = k ∧ cl.attrs = a ∧ cl.orig = o := by
  simp only [viewOf] at hv
  cases hc : h.cls[c]? with
  | none => simp [hc] at hv
  | some cl =>
    simp only [hc, Option.map_some, Option.some.injEq, Prod.mk.injEq] at hv
    exact ⟨cl, rfl, hv.1, hv.2.1, hv.2.2⟩

theorem variantsOf_own (h : Heap) (c : Nat) (cl : Cls) (hc : h.cls[c]? = some cl) (x : Option (List Nat))
    (hx : (viewOf h).var cl.attrs = some (some x)) : variantsOf h c = x.getD [] := by
  cases hr : h.attrs[cl.attrs]? with
  | none => simp [viewOf, hr] at hx
  | some r =>
    have hv : r.variants = some x := by simpa [viewOf, hr] using hx
    unfold variantsOf variantsH
    simp only [hc]
    rw [chainH_own h.attrs (fun r => r.variants) cl.attrs r x hr hv]
    cases x <;> rfl

/-- with the discipline, the resolved `_variants` of a class of the family is its own cell -/
theorem inv_variantsOf (h : Heap) (ih : Inv h) (c : Nat) (cl : Cls) (hc : h.cls[c]? = some cl)
    (hk : cl.kind.isComplex = true) :
    ∃ x, (viewOf h).var cl.attrs = some (some x) ∧ variantsOf h c = x.getD [] := by
  have hv := view_cls_of h c cl hc
  rw [hk] at hv
  have h1 := ih.range _ _ _ _ hv
  have h2 := ih.own _ _ _ hv
  cases hvar : (viewOf h).var cl.attrs with
  | none => exact absurd hvar h1
  | some y =>
    cases y with
    | none => exact absurd hvar h2
    | some x => exact ⟨x, rfl, variantsOf_own h c cl hc x hvar⟩

/-- all of `vs` are customised variants (of the family, with an original) -/
def AllVar (g : Heap) (vs : List Nat) : Prop :=
  ∀ v, v ∈ vs → ∃ vc, g.cls[v]? = some vc ∧ vc.kind.isComplex = true ∧ vc.orig ≠ none

/-- a customised variant has no variants of its own -/
theorem variantsOf_variant (g : Heap) (ig : Inv g) (v : Nat) (vc : Cls) (hv : g.cls[v]? = some vc)
    (hk : vc.kind.isComplex = true) (ho : vc.orig ≠ none) : variantsOf g v = [] := by
  cases hor : vc.orig with
  | none => exact absurd hor ho
  | some r =>
    have hview := view_cls_of g v vc hv
    rw [hk, hor] at hview
    have := (ig.variant _ _ _ hview).1
    rw [variantsOf_own g v vc hv none this]
    rfl

theorem allVar_of_core (g g2 : Heap) (vs : List Nat) (n na : Nat) (T : List Nat) (e : Ext n na T g g2)
    (hn : g.cls.length ≤ n) (av : AllVar g vs) : AllVar g2 vs := by
  intro v hv
  obtain ⟨vc, hvc, hk, ho⟩ := av v hv
  have hlt : v < g.cls.length := by
    rcases Nat.lt_or_ge v g.cls.length with hl | hl
    · exact hl
    · rw [List.getElem?_eq_none hl] at hvc; cases hvc
  have hc := e.core v (by omega)
  rw [hvc] at hc
  cases h2 : g2.cls[v]? with
  | none => simp [h2] at hc
  | some vc2 =>
    simp only [h2, Option.map_some, Option.some.injEq, Cls.core, Prod.mk.injEq] at hc
    exact ⟨vc2, rfl, by rw [hc.1, hk], by rw [hc.2.2]; exact ho⟩

/-- the implementation part of an evolution step, abstractly: it respects the frame when its target may be
    written, and keeps the discipline -/
structure Impl (impl : Nat → M Unit) : Prop where
  good : ∀ (n na : Nat) (T : List Nat) (v : Nat), (n ≤ v ∨ v ∈ T) → Good n na T (impl v) Any
  keeps : ∀ v, Keeps Tr (impl v) TrQ

theorem forEach_nil (f : Nat → M Unit) (g : Heap) : forEach f [] g = .ok g () := rfl

theorem forEach_cons (f : Nat → M Unit) (v : Nat) (vs : List Nat) (g : Heap) :
    forEach f (v :: vs) g = match f v g with
      | .ok g2 _ => forEach f vs g2
      | .err g2 e => .err g2 e := by
  simp only [forEach, Bind.bind, M.bind]
  cases f v g <;> rfl

/-- for a customised variant, `c.append_field(...)` is just the implementation part -/
theorem evolveVariant_variant (impl : Nat → M Unit) (hi : Impl impl) (g : Heap) (ig : Inv g) (v : Nat)
    (av : AllVar g [v]) :
    evolveVariant impl v g = impl v g := by
  unfold evolveVariant
  simp only [Bind.bind, M.bind]
  cases hr : impl v g with
  | err g2 e => rfl
  | ok g2 u =>
    have e := (hi.good g.cls.length g.attrs.length [v] v (Or.inr (by simp)) g (Nat.le_refl _) (Nat.le_refl _)).1
    rw [hr] at e
    have ig2 : Inv g2 := by
      have := (hi.keeps v g ig trivial).1
      rw [hr] at this; exact this
    have av2 := allVar_of_core g g2 [v] _ _ _ e (Nat.le_refl _) av
    obtain ⟨vc, hvc, hk, ho⟩ := av2 v (by simp)
    simp only [SpyneModel.Derive.getHeap]
    rw [variantsOf_variant g2 ig2 v vc hvc hk ho]
    cases u
    rfl

theorem loop_ext (impl : Nat → M Unit) (hi : Impl impl) (n na : Nat) (T : List Nat) :
    ∀ (vs : List Nat) (g : Heap), Inv g → n ≤ g.cls.length → na ≤ g.attrs.length → AllVar g vs →
      (∀ v, v ∈ vs → n ≤ v ∨ v ∈ T) →
      Ext n na T g (forEach (evolveVariant impl) vs g).heap ∧ Inv (forEach (evolveVariant impl) vs g).heap := by
  intro vs
  induction vs with
  | nil => intro g ig _ _ _ _; exact ⟨Ext.refl _ _ _ _, ig⟩
  | cons v vs ihvs =>
    intro g ig hn hna av ht
    rw [forEach_cons]
    have av1 : AllVar g [v] := fun w hw => av w (by simp at hw; simp [hw])
    rw [evolveVariant_variant impl hi g ig v av1]
    have e := (hi.good n na T v (ht v (by simp)) g hn hna).1
    have k := (hi.keeps v g ig trivial).1
    have e0 := (hi.good g.cls.length g.attrs.length [v] v (Or.inr (by simp)) g (Nat.le_refl _) (Nat.le_refl _)).1
    cases hr : impl v g with
    | err g2 err => rw [hr] at e k; exact ⟨e, k⟩
    | ok g2 u =>
      rw [hr] at e k e0
      simp only [Res.heap] at e k e0
      have av2 : AllVar g2 vs :=
        allVar_of_core g g2 vs _ _ _ e0 (Nat.le_refl _) (fun w hw => av w (by simp [hw]))
      have r := ihvs g2 k (Nat.le_trans hn e.clsLen) (Nat.le_trans hna e.attrsLen) av2
        (fun w hw => ht w (by simp [hw]))
      exact ⟨e.trans r.1, r.2⟩

/-- `append_field` / `insert_field` on a class of the family: everything below the current heap size that is
    neither the class nor a key of its `_variants` keeps its record -/
theorem evolve_ext (impl : Nat → M Unit) (hi : Impl impl) (h : Heap) (ih : Inv h) (c : Nat) (cl : Cls)
    (hc : h.cls[c]? = some cl) (hk : cl.kind.isComplex = true) :
    Ext h.cls.length h.attrs.length (c :: variantsOf h c) h (evolve impl c h).heap
      ∧ Inv (evolve impl c h).heap := by
  unfold evolve
  simp only [Bind.bind, M.bind]
  have e := (hi.good h.cls.length h.attrs.length (c :: variantsOf h c) c (Or.inr (by simp)) h
    (Nat.le_refl _) (Nat.le_refl _)).1
  have k := (hi.keeps c h ih trivial).1
  cases hr : impl c h with
  | err h1 err => rw [hr] at e k; exact ⟨e, k⟩
  | ok h1 u =>
    rw [hr] at e k
    simp only [Res.heap, SpyneModel.Derive.getHeap] at e k ⊢
    -- the class is still of the family; its resolved `_variants` is its own cell
    have hclt : c < h.cls.length := by
      rcases Nat.lt_or_ge c h.cls.length with hl | hl
      · exact hl
      · rw [List.getElem?_eq_none hl] at hc; cases hc
    have hcore := e.core c hclt
    rw [hc] at hcore
    cases hc1 : h1.cls[c]? with
    | none => simp [hc1] at hcore
    | some cl1 =>
      simp only [hc1, Option.map_some, Option.some.injEq, Cls.core, Prod.mk.injEq] at hcore
      have hk1 : cl1.kind.isComplex = true := by rw [hcore.1]; exact hk
      obtain ⟨x1, hx1, hvs1⟩ := inv_variantsOf h1 k c cl1 hc1 hk1
      have hview1 := view_cls_of h1 c cl1 hc1
      rw [hk1] at hview1
      have hsound : ∀ v, v ∈ variantsOf h1 c → ∃ vc, h1.cls[v]? = some vc ∧ vc.kind.isComplex = true ∧ vc.orig = some c := by
        intro v hv
        rw [hvs1] at hv
        cases x1 with
        | none => simp at hv
        | some l =>
          obtain ⟨ax, hax⟩ := k.sound c cl1.attrs cl1.orig l hview1 hx1 v (by simpa using hv)
          obtain ⟨vc, h1v, h2v, _, h4v⟩ := cls_of_view h1 v true ax (some c) hax
          exact ⟨vc, h1v, h2v, h4v⟩
      have av : AllVar h1 (variantsOf h1 c) := by
        intro v hv
        obtain ⟨vc, a1, a2, a3⟩ := hsound v hv
        exact ⟨vc, a1, a2, by rw [a3]; simp⟩
      have ht : ∀ v, v ∈ variantsOf h1 c → h.cls.length ≤ v ∨ v ∈ c :: variantsOf h c := by
        intro v hv
        rcases Nat.lt_or_ge v h.cls.length with hl | hl
        · right
          by_cases hin : v ∈ c :: variantsOf h c
          · exact hin
          · exfalso
            obtain ⟨vc, a1, a2, a3⟩ := hsound v hv
            rw [e.cls v hl hin] at a1
            have hvv := view_cls_of h v vc a1
            rw [a2, a3] at hvv
            obtain ⟨ar, l, b1, b2, b3⟩ := ih.complete v vc.attrs c hvv
            obtain ⟨rc, c1, _, c3, _⟩ := cls_of_view h c true ar none b1
            rw [hc] at c1
            cases c1
            rw [← c3] at b2
            have := variantsOf_own h c cl hc (some l) b2
            apply hin
            simp [this, b3]
        · left; exact hl
      have r := loop_ext impl hi h.cls.length h.attrs.length (c :: variantsOf h c) (variantsOf h1 c) h1 k
        e.clsLen e.attrsLen av ht
      exact ⟨e.trans r.1, r.2⟩

end SpyneModel.Derive
