/-
  The cycle guard of the dict-document encoder (`tags`, hier.py `_object_to_doc` / `_get_member_pairs`).

  When the guard holds the ancestors of the node being written (`glob = false`, the measured switch
  `Facts02.guardPathLocal`), it never fires on a value read off an acyclic object graph: the guarded encoder is the plain
  encoder `encodeS`, whatever Python objects the nodes of the value are. In particular the document depends on the value
  only, not on which sibling positions share an object.
-/
import Proofs.HierBasic
namespace SpyneModel.Hier
open SpyneModel

/-! ### `acyclic` -/

theorem seen_mono {a a' : List Nat} (h : ∀ x, x ∈ a' → x ∈ a) (i : Option Nat) (hs : seen a i = false) :
    seen a' i = false := by
  cases i with
  | none => rfl
  | some n =>
    simp only [seen, List.contains_eq_mem, decide_eq_false_iff_not] at hs ⊢
    exact fun hm => hs (h n hm)

theorem addId_mono {a a' : List Nat} (h : ∀ x, x ∈ a' → x ∈ a) (i : Option Nat) :
    ∀ x, x ∈ addId a' i → x ∈ addId a i := by
  cases i with
  | none => exact h
  | some n =>
    intro x hx
    simp only [addId, List.mem_cons] at hx ⊢
    exact hx.imp id (h x)

theorem mem_addId (a : List Nat) (i : Option Nat) : ∀ x, x ∈ a → x ∈ addId a i := by
  cases i with
  | none => exact fun _ h => h
  | some n => exact fun x h => List.mem_cons_of_mem _ h

mutual
  theorem acyclic_mono : ∀ (k : Ids) (a a' : List Nat), (∀ x, x ∈ a' → x ∈ a) → acyclic a k = true → acyclic a' k = true
    | .node i ks, a, a', h, hk => by
      simp only [acyclic, Bool.and_eq_true, Bool.not_eq_true'] at hk ⊢
      exact ⟨seen_mono h i hk.1, acyclicAll_mono ks (addId a i) (addId a' i) (addId_mono h i) hk.2⟩
  theorem acyclicAll_mono : ∀ (ks : List Ids) (a a' : List Nat), (∀ x, x ∈ a' → x ∈ a) → acyclicAll a ks = true →
      acyclicAll a' ks = true
    | [], _, _, _, _ => by simp [acyclicAll]
    | k :: r, a, a', h, hk => by
      simp only [acyclicAll, Bool.and_eq_true] at hk ⊢
      exact ⟨acyclic_mono k a a' h hk.1, acyclicAll_mono r a a' h hk.2⟩
end

theorem acyclic_unseen {a : List Nat} {ids : Ids} (h : acyclic a ids = true) : seen a ids.id? = false := by
  cases ids with
  | node i ks => simp only [acyclic, Bool.and_eq_true, Bool.not_eq_true'] at h; exact h.1

theorem acyclic_kids_add {a : List Nat} {ids : Ids} (h : acyclic a ids = true) :
    acyclicAll (addId a ids.id?) ids.kids = true := by
  cases ids with
  | node i ks => simp only [acyclic, Bool.and_eq_true] at h; exact h.2

theorem acyclic_kids {a : List Nat} {ids : Ids} (h : acyclic a ids = true) : acyclicAll a ids.kids = true :=
  acyclicAll_mono _ _ _ (mem_addId a ids.id?) (acyclic_kids_add h)

theorem acyclic_anon (a : List Nat) : acyclic a Ids.anon = true := by
  simp [Ids.anon, acyclic, acyclicAll, seen]

theorem acyclicAll_head {a : List Nat} {ks : List Ids} (h : acyclicAll a ks = true) : acyclic a (kidHead ks) = true := by
  cases ks with
  | nil => exact acyclic_anon a
  | cons k r => simp only [acyclicAll, Bool.and_eq_true] at h; exact h.1

theorem acyclicAll_tail {a : List Nat} {ks : List Ids} (h : acyclicAll a ks = true) : acyclicAll a (kidTail ks) = true := by
  cases ks with
  | nil => simp [kidTail, acyclicAll]
  | cons k r => simp only [acyclicAll, Bool.and_eq_true] at h; exact h.2

/-! ### the guard never fires on an acyclic value -/

variable (S : Spell) (R : Registry)

mutual
  theorem encodeG_local (t : Ty) : ∀ (v : Val) (ids : Ids) (tags : List Nat), acyclic tags ids = true →
      encodeG false S R t v ids tags = (encodeS S R t v, tags)
    | .none, ids, tags, _ => by simp [encodeG, encodeS]
    | .list vs, ids, tags, h => by
      cases t with
      | arr m elem o =>
        simp only [encodeG, encodeS, encodeItemsG_local elem vs ids.kids tags (acyclic_kids h)]
      | prim p o =>
        simp only [encodeG, encodeS, encodeItemsG_local (.prim p o) vs ids.kids tags (acyclic_kids h)]
        split <;> rfl
      | obj n ns b fs o =>
        simp only [encodeG, encodeS, encodeItemsG_local (.obj n ns b fs o) vs ids.kids tags (acyclic_kids h)]
        split <;> rfl
    | .obj c fvs, ids, tags, h => by
      cases t with
      | obj n ns b fs o =>
        simp only [encodeG, encodeS,
          encodeFieldsG_local (polyTarget S R n fs c).2 fvs ids.kids (addId tags ids.id?) (acyclic_kids_add h)]
        simp
      | prim p o => simp [encodeG, encodeS]
      | arr m e o => simp [encodeG, encodeS]
    | .int _, _, _, _ => by cases t <;> simp [encodeG, encodeS]
    | .bool _, _, _, _ => by cases t <;> simp [encodeG, encodeS]
    | .str _, _, _, _ => by cases t <;> simp [encodeG, encodeS]
    | .date _, _, _, _ => by cases t <;> simp [encodeG, encodeS]
    | .time _, _, _, _ => by cases t <;> simp [encodeG, encodeS]
    | .dt _, _, _, _ => by cases t <;> simp [encodeG, encodeS]
    | .dur _, _, _, _ => by cases t <;> simp [encodeG, encodeS]
    | .bytes _, _, _, _ => by cases t <;> simp [encodeG, encodeS]
    | .enum _, _, _, _ => by cases t <;> simp [encodeG, encodeS]

  theorem encOneG_local (t : Ty) : ∀ (v : Val) (ids : Ids) (tags : List Nat), acyclic tags ids = true →
      encOneG false S R t v ids tags = (encOne R S t v, tags)
    | .none, ids, tags, _ => by cases t <;> simp [encOneG, encOne]
    | .list ws, ids, tags, h => by
      cases t with
      | arr m elem o =>
        simp only [encOneG, encOne, encodeItemsG_local elem ws ids.kids tags (acyclic_kids h)]
      | prim p o => simp [encOneG, encOne]
      | obj n ns b fs o => simp [encOneG, encOne]
    | .obj c fvs, ids, tags, h => by
      cases t with
      | obj n ns b fs o =>
        simp only [encOneG, encOne,
          encodeFieldsG_local (polyTarget S R n fs c).2 fvs ids.kids (addId tags ids.id?) (acyclic_kids_add h)]
        simp
      | prim p o => simp [encOneG, encOne]
      | arr m e o => simp [encOneG, encOne]
    | .int _, _, _, _ => by cases t <;> simp [encOneG, encOne]
    | .bool _, _, _, _ => by cases t <;> simp [encOneG, encOne]
    | .str _, _, _, _ => by cases t <;> simp [encOneG, encOne]
    | .date _, _, _, _ => by cases t <;> simp [encOneG, encOne]
    | .time _, _, _, _ => by cases t <;> simp [encOneG, encOne]
    | .dt _, _, _, _ => by cases t <;> simp [encOneG, encOne]
    | .dur _, _, _, _ => by cases t <;> simp [encOneG, encOne]
    | .bytes _, _, _, _ => by cases t <;> simp [encOneG, encOne]
    | .enum _, _, _, _ => by cases t <;> simp [encOneG, encOne]

  theorem encodeItemsG_local (t : Ty) : ∀ (vs : List Val) (ks : List Ids) (tags : List Nat), acyclicAll tags ks = true →
      encodeItemsG false S R t vs ks tags = (some (encodeItems S R t vs), tags)
    | [], _, _, _ => by simp [encodeItemsG]
    | v :: vs, ks, tags, h => by
      rw [encodeItemsG, acyclic_unseen (acyclicAll_head h)]
      simp only [Bool.false_eq_true, if_false, encOneG_local t v (kidHead ks) tags (acyclicAll_head h),
        encodeItemsG_local t vs (kidTail ks) tags (acyclicAll_tail h), encodeItems_cons]

  theorem encodeFieldsG_local : ∀ (fs : Fields) (fvs : List (Text × Val)) (ks : List Ids) (tags : List Nat),
      acyclicAll tags ks = true → encodeFieldsG false S R fs fvs ks tags = (encodeFields S R fs fvs, tags)
    | [], _, _, _, _ => by simp [encodeFieldsG, encodeFields]
    | _ :: _, [], _, _, _ => by simp [encodeFieldsG, encodeFields]
    | (n, t) :: fs, (m, v) :: fvs, ks, tags, h => by
      rw [encodeFieldsG, acyclic_unseen (acyclicAll_head h)]
      simp only [Bool.and_false, Bool.false_eq_true, if_false, encodeG_local t v (kidHead ks) tags (acyclicAll_head h),
        encodeFieldsG_local fs fvs (kidTail ks) tags (acyclicAll_tail h), encodeFields]
end

/-- **identity independence**: with a path-local guard the document written for a value does not depend on which Python
    objects its nodes are, as long as no object contains itself -/
theorem encodeG_ids_irrelevant (t : Ty) (v : Val) (ids ids' : Ids) (h : acyclic [] ids = true) (h' : acyclic [] ids' = true) :
    (encodeG false S R t v ids []).1 = (encodeG false S R t v ids' []).1 := by
  rw [encodeG_local S R t v ids [] h, encodeG_local S R t v ids' [] h']

end SpyneModel.Hier
