/-
  Lemmas about the C09 model (SpyneModel/Faults.lean). General in `F : Facts09`.
-/
import SpyneModel.Faults
namespace SpyneModel.Faults
open SpyneModel

/-! ### prefixes -/
theorem isPrefix_iff (p s : Text) : isPrefix p s = true ↔ ∃ r, s = p ++ r := by
  induction p generalizing s with
  | nil => simp [isPrefix]
  | cons a as ih =>
    cases s with
    | nil => simp [isPrefix]
    | cons b bs =>
      simp only [isPrefix, Bool.and_eq_true, beq_iff_eq, ih, List.cons_append, List.cons.injEq]
      constructor
      · rintro ⟨rfl, r, rfl⟩; exact ⟨r, rfl, rfl⟩
      · rintro ⟨r, rfl, rfl⟩; exact ⟨rfl, r, rfl⟩

/-! ### split / join -/
theorem splitOn_ne_nil (c : Char) (s : Text) : splitOn c s ≠ [] := by
  induction s with
  | nil => simp [splitOn]
  | cons x xs ih =>
    simp only [splitOn]
    split
    · simp
    · split <;> simp

theorem joinWith_cons_cons (c : Char) (s r : Text) (rest : List Text) :
    joinWith c (s :: r :: rest) = s ++ c :: joinWith c (r :: rest) := rfl

theorem joinWith_cons_head (c x : Char) (h : Text) (t : List Text) :
    joinWith c ((x :: h) :: t) = x :: joinWith c (h :: t) := by
  cases t <;> simp [joinWith]

/-- `c.join(s.split(c)) == s` for every string -/
theorem joinWith_splitOn (c : Char) (s : Text) : joinWith c (splitOn c s) = s := by
  induction s with
  | nil => simp [splitOn, joinWith]
  | cons x xs ih =>
    simp only [splitOn]
    split
    · next h =>
      have hne := splitOn_ne_nil c xs
      cases hs : splitOn c xs with
      | nil => exact absurd hs hne
      | cons a b => rw [hs] at ih; simp [joinWith, ih, h]
    · cases hs : splitOn c xs with
      | nil => exact absurd hs (splitOn_ne_nil c xs)
      | cons a b => rw [hs] at ih; simp [joinWith_cons_head, ih]

theorem splitOn_append_sep (c : Char) (s : Text) (hs : c ∉ s) (rest : Text) :
    splitOn c (s ++ c :: rest) = s :: splitOn c rest := by
  induction s with
  | nil => simp [splitOn]
  | cons x xs ih =>
    have hx : x ≠ c := by intro h; apply hs; simp [h]
    have hxs : c ∉ xs := by intro h; apply hs; simp [h]
    simp [splitOn, hx, ih hxs]

theorem splitOn_no_sep (c : Char) (s : Text) (hs : c ∉ s) : splitOn c s = [s] := by
  induction s with
  | nil => simp [splitOn]
  | cons x xs ih =>
    have hx : x ≠ c := by intro h; apply hs; simp [h]
    have hxs : c ∉ xs := by intro h; apply hs; simp [h]
    simp [splitOn, hx, ih hxs]

/-- `c.join(segs).split(c) == segs` for a non-empty list of segments free of `c` -/
theorem splitOn_joinWith (c : Char) (segs : List Text) (hne : segs ≠ [])
    (hfree : ∀ s ∈ segs, c ∉ s) : splitOn c (joinWith c segs) = segs := by
  induction segs with
  | nil => exact absurd rfl hne
  | cons s rest ih =>
    cases rest with
    | nil => simp [joinWith, splitOn_no_sep c s (hfree s (by simp))]
    | cons r rest' =>
      rw [joinWith_cons_cons, splitOn_append_sep c s (hfree s (by simp))]
      rw [ih (by simp) (fun x hx => hfree x (by simp [hx]))]

/-! ### QName local part -/
theorem afterColon_append (p : Text) (hp : ':' ∉ p) (rest : Text) :
    afterColon (p ++ ':' :: rest) = some rest := by
  induction p with
  | nil => simp [afterColon]
  | cons x xs ih =>
    have hx : x ≠ ':' := by intro h; apply hp; simp [h]
    have hxs : ':' ∉ xs := by intro h; apply hp; simp [h]
    simp [afterColon, hx, ih hxs]

theorem localPart_prefixed (p : Text) (hp : ':' ∉ p) (rest : Text) :
    localPart (p ++ ':' :: rest) = rest := by
  simp [localPart, afterColon_append p hp rest]


/-! ### detail ⇄ XML -/
theorem kidsToKvs_append (a b : List Xml) : kidsToKvs (a ++ b) = kidsToKvs a ++ kidsToKvs b := by
  induction a with
  | nil => simp [kidsToKvs]
  | cons x xs ih => simp [kidsToKvs, ih]

theorem itemToXml_tag (k : Text) (d : Detail) : (itemToXml EmptyTest.isNone k d).tag = k := by
  cases d <;> simp [itemToXml, Xml.tag]

theorem entryToXml_ne_nil (k : Text) (d : Detail) : ∃ x xs, entryToXml EmptyTest.isNone k d = x :: xs := by
  cases d with
  | null => exact ⟨_, _, by simp only [entryToXml]; rfl⟩
  | leaf t => exact ⟨_, _, by simp only [entryToXml]; rfl⟩
  | node kvs => exact ⟨_, _, by simp only [entryToXml]; rfl⟩
  | list items =>
    cases items with
    | nil => exact ⟨_, _, by simp only [entryToXml]; rfl⟩
    | cons i is => exact ⟨_, _, by simp only [entryToXml, itemsToXml]; rfl⟩
  | scalar t fl => exact ⟨.elem k [] t [], [], by simp [entryToXml]⟩

theorem kvsToXml_cons_ne_nil (k : Text) (d : Detail) (rest : List (Text × Detail)) :
    ∃ x xs, kvsToXml EmptyTest.isNone ((k, d) :: rest) = x :: xs := by
  obtain ⟨x, xs, h⟩ := entryToXml_ne_nil k d
  exact ⟨x, xs ++ kvsToXml EmptyTest.isNone rest, by simp [kvsToXml, h]⟩

mutual
theorem xmlToDetail_itemToXml (k : Text) : ∀ d, xmlToDetail (itemToXml EmptyTest.isNone k d) = normItem d
  | .null => by simp [itemToXml, xmlToDetail, normItem]
  | .leaf t => by simp [itemToXml, xmlToDetail, normItem]
  | .node [] => by simp [itemToXml, kvsToXml, xmlToDetail, normItem]
  | .node ((k', d) :: rest) => by
      have h := kidsToKvs_kvsToXml ((k', d) :: rest)
      obtain ⟨x, xs, hx⟩ := kvsToXml_cons_ne_nil k' d rest
      rw [itemToXml, hx]
      simp only [xmlToDetail, normItem]
      rw [← hx, h]
  | .list _ => by simp [itemToXml, xmlToDetail, normItem]
  | .scalar t fl => by simp [itemToXml, xmlToDetail, normItem]
theorem kidsToKvs_itemsToXml (k : Text) : ∀ is, kidsToKvs (itemsToXml EmptyTest.isNone k is) = normItems k is
  | [] => by simp [itemsToXml, kidsToKvs, normItems]
  | i :: is => by simp [itemsToXml, kidsToKvs, normItems, xmlToDetail_itemToXml k i, kidsToKvs_itemsToXml k is, itemToXml_tag]
theorem kidsToKvs_entryToXml (k : Text) : ∀ d, kidsToKvs (entryToXml EmptyTest.isNone k d) = normEntry k d
  | .null => by simp [entryToXml, kidsToKvs, xmlToDetail, normEntry, Xml.tag]
  | .leaf t => by simp [entryToXml, kidsToKvs, xmlToDetail, normEntry, Xml.tag]
  | .node [] => by simp [entryToXml, kvsToXml, kidsToKvs, xmlToDetail, normEntry, Xml.tag]
  | .node ((k', d) :: rest) => by
      have h := xmlToDetail_itemToXml k (.node ((k', d) :: rest))
      simp only [itemToXml, normItem] at h
      simp [entryToXml, kidsToKvs, normEntry, Xml.tag, h]
  | .list [] => by simp [entryToXml, kidsToKvs, xmlToDetail, normEntry, Xml.tag]
  | .list (i :: is) => by simp only [entryToXml, normEntry]; exact kidsToKvs_itemsToXml k (i :: is)
  | .scalar t fl => by simp [entryToXml, kidsToKvs, xmlToDetail, normEntry, Xml.tag]
theorem kidsToKvs_kvsToXml : ∀ kvs, kidsToKvs (kvsToXml EmptyTest.isNone kvs) = normKvs kvs
  | [] => by simp [kvsToXml, kidsToKvs, normKvs]
  | (k, d) :: rest => by simp [kvsToXml, normKvs, kidsToKvs_append, kidsToKvs_entryToXml k d, kidsToKvs_kvsToXml rest]
end

mutual
theorem normEntry_of_safe (k : Text) : ∀ d : Detail, d.xmlSafe = true → normEntry k d = [(k, d)]
  | .null, _ => by simp [normEntry]
  | .leaf t, h => by
      simp [Detail.xmlSafe] at h
      simp [normEntry, h]
  | .node [], h => by simp [Detail.xmlSafe] at h
  | .node ((k', d) :: rest), h => by
      simp only [Detail.xmlSafe] at h
      simp only [normEntry]
      rw [normKvs_of_safe _ h]
  | .list _, h => by simp [Detail.xmlSafe] at h
  | .scalar _ _, h => by simp [Detail.xmlSafe] at h
theorem normKvs_of_safe : ∀ kvs, kvsSafe kvs = true → normKvs kvs = kvs
  | [], _ => by simp [normKvs]
  | (k, d) :: rest, h => by
      simp only [kvsSafe, Bool.and_eq_true] at h
      simp [normKvs, normEntry_of_safe k d h.1, normKvs_of_safe rest h.2]
end

theorem normKvs_append (a b : List (Text × Detail)) : normKvs (a ++ b) = normKvs a ++ normKvs b := by
  induction a with
  | nil => simp [normKvs]
  | cons x xs ih => rcases x with ⟨k, d⟩; simp [normKvs, ih]


theorem normEntry_ne_nil (k : Text) (d : Detail) : ∃ x xs, normEntry k d = x :: xs := by
  cases d with
  | null => exact ⟨_, _, by simp only [normEntry]; rfl⟩
  | leaf t => exact ⟨_, _, by simp only [normEntry]; rfl⟩
  | node kvs => cases kvs <;> exact ⟨_, _, by simp only [normEntry]; rfl⟩
  | list items =>
    cases items with
    | nil => exact ⟨_, _, by simp only [normEntry]; rfl⟩
    | cons i is => exact ⟨_, _, by simp only [normEntry, normItems]; rfl⟩
  | scalar t fl => exact ⟨_, _, by simp only [normEntry]; rfl⟩

theorem normKvs_cons_ne_nil (k : Text) (d : Detail) (rest : List (Text × Detail)) :
    ∃ x xs, normKvs ((k, d) :: rest) = x :: xs := by
  obtain ⟨x, xs, h⟩ := normEntry_ne_nil k d
  exact ⟨x, xs ++ normKvs rest, by simp [normKvs, h]⟩

mutual
theorem normEntry_normScalar (k : Text) : ∀ d, normEntry k (normScalar d) = [(k, normScalar d)]
  | .null => by simp [normScalar, normEntry]
  | .leaf t => by by_cases h : t = [] <;> simp [normScalar, normEntry, h]
  | .node [] => by simp [normScalar, normEntry]
  | .node ((k', d) :: rest) => by
      obtain ⟨x, xs, hx⟩ := normKvs_cons_ne_nil k' d rest
      have h := normKvs_idem ((k', d) :: rest)
      simp only [normScalar]
      rw [hx] at h ⊢
      simp only [normEntry]
      rw [h]
  | .list _ => by simp [normScalar, normEntry]
  | .scalar t fl => by by_cases h : t = [] <;> simp [normScalar, normEntry, h]
theorem normEntry_normItem (k : Text) : ∀ d, normEntry k (normItem d) = [(k, normItem d)]
  | .null => by
      have : (T "None" = []) = False := by decide
      simp [normItem, normEntry, this]
  | .leaf t => by by_cases h : t = [] <;> simp [normItem, normEntry, h]
  | .node [] => by simp [normItem, normEntry]
  | .node ((k', d) :: rest) => by
      obtain ⟨x, xs, hx⟩ := normKvs_cons_ne_nil k' d rest
      have h := normKvs_idem ((k', d) :: rest)
      simp only [normItem]
      rw [hx] at h ⊢
      simp only [normEntry]
      rw [h]
  | .list _ => by simp [normItem, normEntry]
  | .scalar t fl => by by_cases h : t = [] <;> simp [normItem, normEntry, h]
theorem normKvs_normItems (k : Text) : ∀ is, normKvs (normItems k is) = normItems k is
  | [] => by simp [normItems, normKvs]
  | i :: is => by simp [normItems, normKvs, normEntry_normItem k i, normKvs_normItems k is]
theorem normKvs_normEntry (k : Text) : ∀ d, normKvs (normEntry k d) = normEntry k d
  | .null => by simp [normEntry, normKvs]
  | .leaf t => by by_cases h : t = [] <;> simp [normEntry, normKvs, h]
  | .node [] => by simp [normEntry, normKvs]
  | .node ((k', d) :: rest) => by
      have h := normEntry_normScalar k (.node ((k', d) :: rest))
      simp only [normScalar] at h
      have e : normEntry k (.node ((k', d) :: rest)) = [(k, .node (normKvs ((k', d) :: rest)))] := by
        simp only [normEntry]
      rw [e]
      show normEntry k _ ++ normKvs [] = _
      rw [h]; simp [normKvs]
  | .list [] => by simp [normEntry, normKvs]
  | .list (i :: is) => by simp only [normEntry]; exact normKvs_normItems k (i :: is)
  | .scalar t fl => by by_cases h : t = [] <;> simp [normEntry, normKvs, h]
/-- the reading is a normal form: normalising twice changes nothing -/
theorem normKvs_idem : ∀ kvs, normKvs (normKvs kvs) = normKvs kvs
  | [] => by simp [normKvs]
  | (k, d) :: rest => by
      simp only [normKvs, normKvs_append, normKvs_normEntry k d, normKvs_idem rest]
end

/-! ### detail ⇄ dict document -/
mutual
theorem docToDetail_detailToDoc : ∀ d, docToDetail (detailToDoc d) = d
  | .null => by simp [detailToDoc, docToDetail]
  | .leaf t => by simp [detailToDoc, docToDetail]
  | .node kvs => by simp [detailToDoc, docToDetail, docKvs_kvsToDoc kvs]
  | .list items => by simp [detailToDoc, docToDetail, docItems_itemsToDoc items]
  | .scalar t fl => by simp [detailToDoc, docToDetail]
theorem docKvs_kvsToDoc : ∀ kvs, docKvs (kvsToDoc kvs) = kvs
  | [] => by simp [kvsToDoc, docKvs]
  | (k, d) :: rest => by simp [kvsToDoc, docKvs, docToDetail_detailToDoc d, docKvs_kvsToDoc rest]
theorem docItems_itemsToDoc : ∀ is, docItems (itemsToDoc is) = is
  | [] => by simp [itemsToDoc, docItems]
  | i :: is => by simp [itemsToDoc, docItems, docToDetail_detailToDoc i, docItems_itemsToDoc is]
end

/-! ### tags -/
theorem qn_inj (ns a b : Text) : qn ns a = qn ns b ↔ a = b := by
  simp [qn]


/-! ### text XML can carry -/
theorem xmlText_valid (t : Text) : (xmlText t).all isXmlChar = true := by
  induction t with
  | nil => rfl
  | cons c cs ih =>
    simp only [xmlText, List.map_cons, List.all_cons, Bool.and_eq_true] at ih ⊢
    refine ⟨?_, ih⟩
    by_cases h : isXmlChar c = true
    · simp [h]
    · have h' : isXmlChar c = false := by simpa using h
      simp only [h']
      show isXmlChar (Char.ofNat 65533) = true
      decide

theorem xmlText_of_valid (t : Text) (h : t.all isXmlChar = true) : xmlText t = t := by
  induction t with
  | nil => rfl
  | cons c cs ih =>
    simp only [List.all_cons, Bool.and_eq_true] at h
    simp [xmlText, h.1] 
    exact ih h.2

/-! ### declared members of a fault subclass -/
theorem findTag_membersXml (t : Text) (ms : List (Text × Text)) (h : ∀ m ∈ ms, m.1 ≠ t) :
    findTag t (membersXml ms) = none := by
  induction ms with
  | nil => simp [membersXml, findTag]
  | cons m rest ih =>
    rcases m with ⟨k, x⟩
    have hk : k ≠ t := h (k, x) (by simp)
    simp [membersXml, findTag, leafElem, Xml.tag, hk, ih (fun m hm => h m (by simp [hm]))]

/-! ### SOAP 1.1 -/
theorem xmlToFault11_faultToXml11 (F : Facts09) (hp : ':' ∉ F.env11Prefix) (he : F.emptyTest = .isNone) (f : FaultV)
    (hm : ∀ m ∈ f.members, m.1 ≠ T "detail") :
    xmlToFault11 (faultToXml11 F f) =
      some { code := f.code, str := xmlTextF F f.str, actor := xmlTextF F f.actor, detail := normTop11 f.detail, lang := T "en" } := by
  have e1 : (T "faultcode" = T "faultstring") = False := by decide
  have e2 : (T "faultcode" = T "faultactor") = False := by decide
  have e3 : (T "faultcode" = T "detail") = False := by decide
  have e4 : (T "faultstring" = T "faultactor") = False := by decide
  have e5 : (T "faultstring" = T "detail") = False := by decide
  have e6 : (T "faultactor" = T "detail") = False := by decide
  rcases f with ⟨code, str, actor, detail, lang, members⟩
  have hmem := findTag_membersXml (T "detail") members hm
  rcases detail with _ | _ | ⟨kv, rest⟩ <;>
    simp [xmlToFault11, faultToXml11, Xml.tag, Xml.kids, Xml.text, childText, findTag, leafElem, detail11,
      e1, e2, e3, e4, e5, e6, localPart_prefixed _ hp, normTop11, kidsToKvs_kvsToXml, hmem, he]

theorem unwrapEnvelope_envelope (ns : Text) (x : Xml) (rest : List Xml) :
    unwrapEnvelope ns (envelope ns (x :: rest)) = some x := by
  simp [unwrapEnvelope, envelope, Xml.tag, Xml.kids, findTag]

/-! ### SOAP 1.2 -/
theorem tValue_ne_tSubcode : (tValue = tSubcode) = False := by decide

theorem subcodesIn_value_cons (v : Text) (xs : List Xml) :
    subcodesIn (Xml.elem tValue [] v [] :: xs) = subcodesIn xs := by
  simp [subcodesIn, Xml.tag, tValue_ne_tSubcode]

theorem subcodesIn_chain (v : Text) (rest : List Text) :
    subcodesIn (Xml.elem tValue [] v [] :: subcodeChain rest) = rest := by
  rw [subcodesIn_value_cons]
  induction rest with
  | nil => simp [subcodeChain, subcodesIn]
  | cons r rest ih =>
    simp [subcodeChain, subcodesIn, leafElem, Xml.tag, subcodes, valueText, childText, findTag, Xml.kids, Xml.text,
      tValue_ne_tSubcode, ih]

theorem head12_sender : head12ToCode (T "Sender") = T "Client" := by decide
theorem head12_receiver : head12ToCode (T "Receiver") = T "Server" := by decide

theorem xmlToFault12_faultToXml12 (F : Facts09) (hp : ':' ∉ F.env12Prefix) (he : F.emptyTest = .isNone)
    (hd : F.soap12Detail = .children) (f : FaultV) (first : Text) (rest : List Text)
    (hs : splitOn '.' f.code = first :: rest) (hf : first = T "Client" ∨ first = T "Server")
    (hm : ∀ m ∈ f.members, m.1 ≠ tDetail12) :
    ∃ x, faultToXml12 F f = some x ∧
      xmlToFault12 x = some { code := f.code, str := xmlTextF F f.str, actor := xmlTextF F f.actor,
                              detail := f.detail.map normKvs, lang := f.lang } := by
  have hcode : joinWith '.' (first :: rest) = f.code := by rw [← hs, joinWith_splitOn]
  have e1 : (tCode = tReason) = False := by decide
  have e2 : (tCode = tRole) = False := by decide
  have e3 : (tCode = tDetail12) = False := by decide
  have e4 : (tReason = tRole) = False := by decide
  have e5 : (tReason = tDetail12) = False := by decide
  have e6 : (tRole = tDetail12) = False := by decide
  have e8 : (T "Server" = T "Client") = False := by decide
  rcases f with ⟨code, str, actor, detail, lang, members⟩
  have hmem := findTag_membersXml tDetail12 members hm
  simp only at hs hcode
  rcases hf with rfl | rfl <;> rcases detail with _ | kvs <;>
    simp [faultToXml12, hs, codeHead12, detail12, hd, xmlToFault12, Xml.tag, Xml.kids, Xml.text, Xml.attrs,
      childText, findTag, leafElem, valueText, e1, e2, e3, e4, e5, e6, e8, localPart_prefixed _ hp, subcodes,
      subcodesIn_chain, head12_sender, head12_receiver, kidsToKvs_kvsToXml, hmem, he]
  all_goals exact hcode


/-! ### dict documents -/
theorem docToFault_faultToDict (F : Facts09) (f : FaultV) :
    docToFault (faultToDict F f) = some { f with lang := T "en", members := [] } := by
  have e1 : (T "faultcode" = T "faultstring") = False := by decide
  have e2 : (T "faultcode" = T "faultactor") = False := by decide
  have e3 : (T "faultcode" = T "detail") = False := by decide
  have e4 : (T "faultstring" = T "faultactor") = False := by decide
  have e5 : (T "faultstring" = T "detail") = False := by decide
  have e6 : (T "faultactor" = T "detail") = False := by decide
  have e12 : (T "detail" = T "faultactor") = False := by decide
  rcases f with ⟨code, str, actor, detail, lang, members⟩
  cases hi : F.ignoreEmptyActor <;> rcases detail with _ | kvs <;> rcases actor with _ | ⟨a, as⟩ <;>
    simp [docToFault, faultToDict, lookup, docText, docDetail, hi, e1, e2, e3, e4, e5, e6, e12,
      docKvs_kvsToDoc]

theorem docToFault_faultToList (f : FaultV) :
    docToFault (faultToList f) = some { f with lang := T "en", members := [] } := by
  rcases f with ⟨code, str, actor, detail, lang, members⟩
  rcases detail with _ | kvs <;> simp [docToFault, faultToList, docText, docDetail, docKvs_kvsToDoc]

/-! ### HttpRpc -/
theorem splitBlank_httpText (code s : Text) (hc : '\n' ∉ code) :
    splitBlank (code ++ '\n' :: '\n' :: s) = some (code, s) := by
  induction code with
  | nil => simp [splitBlank]
  | cons a rest ih =>
    have ha : a ≠ '\n' := by intro h; apply hc; simp [h]
    have hr : '\n' ∉ rest := by intro h; apply hc; simp [h]
    have := ih hr
    cases rest with
    | nil => simp [splitBlank, ha]
    | cons b rest' =>
      simp only [List.cons_append] at this ⊢
      simp [splitBlank, ha, this]


/-! ### status -/
theorem isClientCode_iff (code : Text) : isClientCode .eqOrDotPrefix code = true ↔ IsClient code := by
  simp [isClientCode, isPrefix_iff, IsClient, Or.comm]

theorem dedStatus_doc (c : Cls) :
    dedStatus c docTable =
      if c.tooLong then some 413 else if c.notFound then some 404
      else if c.notAllowed then some 405 else if c.invalidCred then some 401 else none := by
  rcases c with ⟨a, b, c, d⟩
  cases a <;> cases b <;> cases c <;> cases d <;> rfl

theorem baseStatus_doc (F : Facts09) (ht : F.dedTable = docTable) (c : Cls) (code : Text) :
    baseStatus F c code =
      if c.tooLong then 413 else if c.notFound then 404 else if c.notAllowed then 405
      else if c.invalidCred then 401
      else if isClientCode F.clientTest code then F.clientStatus else F.defaultStatus := by
  simp only [baseStatus, ht, dedStatus_doc]
  rcases c with ⟨a, b, c, d⟩
  cases a <;> cases b <;> cases c <;> cases d <;> simp

/-! ### funnel and transport -/
theorem faultString_erase (F : Facts09) (t : Text) (h : F.faultString = .constant t) (e : Exc) :
    faultString F e = t := by simp [faultString, h]

theorem funnel_erase (F : Facts09) (t : Text) (h : F.faultString = .constant t) (r : Raised) :
    funnel F r.erase = funnel F r := by
  rcases r with ⟨c, f⟩ | (_ | e) | e <;> simp [Raised.erase, funnel, genericFault, faultString, h]

theorem serializeFailed_erase (F : Facts09) (t : Text) (h : F.faultString = .constant t) (sp p : Proto)
    (preset : Option Nat) (r : Raised) :
    serializeFailed F sp p preset r.erase = serializeFailed F sp p preset r := by
  cases hs : F.serErr
  · simp [serializeFailed, hs, funnel_erase F t h]
  · rcases r with ⟨c, f⟩ | (_ | e) | e <;>
      simp [serializeFailed, hs, Raised.erase, genericFault, faultString, h]
  · rcases r with ⟨c, f⟩ | (_ | e) | e <;>
      simp [serializeFailed, hs, Raised.erase, genericFault, faultString, h]

theorem afterRaise_erase (F : Facts09) (t : Text) (h : F.faultString = .constant t) (o : OutObj) (r : Raised) :
    afterRaise F o r.erase = afterRaise F o r := by
  rcases r with ⟨c, f⟩ | (_ | e) | e <;> simp [Raised.erase, afterRaise, funnel, genericFault, faultString, h]

/-- non-interference: the response is the same whatever the non-Fault exceptions carry -/
theorem wsgiOn_erase (F : Facts09) (t : Text) (h : F.faultString = .constant t) (sp p : Proto)
    (preset : Option Nat) (u : UserCode) : wsgiOn F sp p preset u.erase = wsgiOn F sp p preset u := by
  rcases u with s | ⟨first, later⟩ | ⟨site, level, r, body⟩
  · rcases s with v | r
    · rfl
    · simp [UserCode.erase, Step.erase, wsgiOn, process, afterRaise_erase F t h]
  · rcases first with v | r
    · rcases later with _ | r
      · rfl
      · simp [UserCode.erase, Step.erase, wsgiOn, process, serializeFailed_erase F t h]
    · simp [UserCode.erase, Step.erase, wsgiOn, process, funnel_erase F t h]
  · cases site <;> rcases body with v | r' <;>
      simp [UserCode.erase, Step.erase, wsgiOn, process, afterRaise_erase F t h]

theorem wsgi_erase (F : Facts09) (t : Text) (h : F.faultString = .constant t) (p : Proto)
    (preset : Option Nat) (u : UserCode) : wsgi F p preset u.erase = wsgi F p preset u :=
  wsgiOn_erase F t h p p preset u

/-! ### the spyne clients -/
theorem client11_encode (F : Facts09) (he : F.emptyTest = .isNone) (f : FaultV) (hm : ∀ m ∈ f.members, m.1 ≠ T "detail") :
    client11 (.xml (envelope ns11 [faultToXml11 F f])) =
      some { code := F.env11Prefix ++ ':' :: f.code, str := ctorString (xmlTextF F f.str), detail := normTop11 f.detail } := by
  have e1 : (T "faultcode" = T "faultstring") = False := by decide
  have e3 : (T "faultcode" = T "detail") = False := by decide
  have e5 : (T "faultstring" = T "detail") = False := by decide
  have e6 : (T "faultactor" = T "detail") = False := by decide
  rcases f with ⟨code, str, actor, detail, lang, members⟩
  have hmem := findTag_membersXml (T "detail") members hm
  rcases detail with _ | _ | ⟨kv, rest⟩ <;>
    simp [client11, unwrapEnvelope_envelope, faultToXml11, Xml.tag, Xml.kids, Xml.text, findTag, leafElem, detail11,
      e1, e3, e5, e6, normTop11, kidsToKvs_kvsToXml, hmem, he]

theorem joinWith_append_head (c : Char) (p q : Text) (rest : List Text) :
    joinWith c ((p ++ q) :: rest) = p ++ joinWith c (q :: rest) := by
  cases rest <;> simp [joinWith]

theorem splitOn_free (c : Char) (s : Text) : ∀ x ∈ splitOn c s, c ∉ x := by
  induction s with
  | nil => simp [splitOn]
  | cons a as ih =>
    simp only [splitOn]
    split
    · intro x hx
      simp only [List.mem_cons] at hx
      rcases hx with rfl | hx
      · simp
      · exact ih x hx
    · next hne =>
      cases hs : splitOn c as with
      | nil => simpa using fun e => hne e.symm
      | cons h t =>
        rw [hs] at ih
        intro x hx
        simp only [List.mem_cons] at hx
        rcases hx with rfl | hx
        · have := ih h (by simp)
          simp only [List.mem_cons, not_or]
          exact ⟨fun e => hne e.symm, this⟩
        · exact ih x (by simp [hx])

theorem client12_encode (F : Facts09) (he : F.emptyTest = .isNone) (hn : F.client12Ns = .byNamespace)
    (hd : F.soap12Detail = .children) (f : FaultV) (first : Text) (rest : List Text)
    (hs : splitOn '.' f.code = first :: rest) (hf : first = T "Client" ∨ first = T "Server")
    (hm : ∀ m ∈ f.members, m.1 ≠ tDetail12) :
    ∃ x, faultToXml12 F f = some x ∧
      client12 F (.xml (envelope ns12 [x])) =
        some { code := joinWith '.' ((F.env12Prefix ++ ':' :: (if first = T "Client" then T "Sender" else T "Receiver")) :: rest),
               str := ctorString (if F.client12Strip then strip (xmlTextF F f.str) else xmlTextF F f.str),
               detail := f.detail.map normKvs } := by
  have e1 : (tCode = tReason) = False := by decide
  have e3 : (tCode = tDetail12) = False := by decide
  have e5 : (tReason = tDetail12) = False := by decide
  have e6 : (tRole = tDetail12) = False := by decide
  have e8 : (T "Server" = T "Client") = False := by decide
  rcases f with ⟨code, str, actor, detail, lang, members⟩
  have hmem := findTag_membersXml tDetail12 members hm
  simp only at hs
  rcases hf with rfl | rfl <;> rcases detail with _ | kvs <;>
    simp [faultToXml12, hs, codeHead12, detail12, hd, client12, hn, unwrapEnvelope_envelope, Xml.tag, Xml.kids, Xml.text,
      findTag, leafElem, e1, e3, e5, e6, e8, subcodes, subcodesIn_chain, kidsToKvs_kvsToXml, hmem, he]

/-- the code a SOAP 1.2 client holds, read in spyne's vocabulary, is the raised code -/
theorem code12ToSpyne_client (pfx : Text) (hp : ':' ∉ pfx) (code first : Text) (rest : List Text)
    (hs : splitOn '.' code = first :: rest) (hf : first = T "Client" ∨ first = T "Server") :
    code12ToSpyne (joinWith '.' ((pfx ++ ':' :: (if first = T "Client" then T "Sender" else T "Receiver")) :: rest)) = code := by
  have hfree : ∀ x ∈ rest, '.' ∉ x := fun x hx => splitOn_free '.' code x (by rw [hs]; simp [hx])
  have hcode : joinWith '.' (first :: rest) = code := by rw [← hs, joinWith_splitOn]
  have e8 : (T "Server" = T "Client") = False := by decide
  have hS : '.' ∉ T "Sender" := by decide
  have hR : '.' ∉ T "Receiver" := by decide
  rcases hf with rfl | rfl
  · have : pfx ++ ':' :: T "Sender" = (pfx ++ [':']) ++ T "Sender" := by simp
    simp only [if_true]
    rw [this, joinWith_append_head, List.append_assoc]
    simp only [List.singleton_append]
    rw [code12ToSpyne, localPart_prefixed _ hp,
      splitOn_joinWith '.' (T "Sender" :: rest) (by simp) (by
        intro x hx; simp only [List.mem_cons] at hx; rcases hx with rfl | hx; exact hS; exact hfree x hx)]
    simp [head12_sender, hcode]
  · have : pfx ++ ':' :: T "Receiver" = (pfx ++ [':']) ++ T "Receiver" := by simp
    simp only [e8, if_false]
    rw [this, joinWith_append_head, List.append_assoc]
    simp only [List.singleton_append]
    rw [code12ToSpyne, localPart_prefixed _ hp,
      splitOn_joinWith '.' (T "Receiver" :: rest) (by simp) (by
        intro x hx; simp only [List.mem_cons] at hx; rcases hx with rfl | hx; exact hR; exact hfree x hx)]
    simp [head12_receiver, hcode]

end SpyneModel.Faults
