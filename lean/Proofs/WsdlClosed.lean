/- C07: every type / element reference of the document resolves. -/
import Proofs.WsdlSchema
namespace SpyneModel.Wsdl
open SpyneModel

/-! ## where the entries of the tables come from -/

def TypesFrom (I : IState) (st : SSt) : Prop :=
  ∀ kv ∈ st.infos, ∀ t ∈ kv.2.types, ∃ j ∈ st.tags, (I.cls j).kind ≠ .builtin ∧ kv.1 = (I.cls j).ns ∧
    t = ((I.cls j).tn, nodeOf I (I.cls j))

def ElemsFrom (I : IState) (st : SSt) : Prop :=
  ∀ kv ∈ st.infos, ∀ t ∈ kv.2.elements, ∃ j ∈ st.tags, (I.cls j).kind = .complex ∧ kv.1 = (I.cls j).elemNs I.tns ∧
    t = ((I.cls j).elemName, ⟨(I.cls j).elemName, typeQN (I.cls j)⟩)

def From (I : IState) (st : SSt) : Prop := TypesFrom I st ∧ ElemsFrom I st

theorem from_same_infos (I : IState) (a b : SSt) (hi : b.infos = a.infos) (ht : ∀ j ∈ a.tags, j ∈ b.tags)
    (h : From I a) : From I b := by
  constructor
  · intro kv hkv t htt
    rw [hi] at hkv
    obtain ⟨j, hj, r⟩ := h.1 kv hkv t htt
    exact ⟨j, ht j hj, r⟩
  · intro kv hkv t htt
    rw [hi] at hkv
    obtain ⟨j, hj, r⟩ := h.2 kv hkv t htt
    exact ⟨j, ht j hj, r⟩

theorem from_addType (I : IState) (st : SSt) (i : Nat) (hi : i ∈ st.tags) (hk : (I.cls i).kind ≠ .builtin)
    (h : From I st) : From I (addType st (I.cls i) (nodeOf I (I.cls i))) := by
  constructor
  · intro kv hkv t htt
    rcases mem_modifyInfo _ _ _ kv hkv with hold | ⟨h1, old, h2, h3⟩
    · exact h.1 kv hold t htt
    · rw [h3] at htt
      rcases mem_upsert _ _ _ t htt with rfl | htt
      · exact ⟨i, hi, hk, h1, rfl⟩
      · rcases h2 with rfl | h2
        · cases htt
        · obtain ⟨j, hj, r1, r2, r3⟩ := h.1 _ h2 t htt
          exact ⟨j, hj, r1, h1.trans r2, r3⟩
  · intro kv hkv t htt
    rcases mem_modifyInfo _ _ _ kv hkv with hold | ⟨h1, old, h2, h3⟩
    · exact h.2 kv hold t htt
    · rw [h3] at htt
      rcases h2 with rfl | h2
      · cases htt
      · obtain ⟨j, hj, r1, r2, r3⟩ := h.2 _ h2 t htt
        exact ⟨j, hj, r1, h1.trans r2, r3⟩

theorem from_addElement (I : IState) (st : SSt) (i : Nat) (hi : i ∈ st.tags) (hk : (I.cls i).kind = .complex)
    (h : From I st) : From I (addElement I.tns st (I.cls i) ⟨(I.cls i).elemName, typeQN (I.cls i)⟩) := by
  constructor
  · intro kv hkv t htt
    rcases mem_modifyInfo _ _ _ kv hkv with hold | ⟨h1, old, h2, h3⟩
    · exact h.1 kv hold t htt
    · rw [h3] at htt
      rcases h2 with rfl | h2
      · cases htt
      · obtain ⟨j, hj, r1, r2, r3⟩ := h.1 _ h2 t htt
        exact ⟨j, hj, r1, h1.trans r2, r3⟩
  · intro kv hkv t htt
    rcases mem_modifyInfo _ _ _ kv hkv with hold | ⟨h1, old, h2, h3⟩
    · exact h.2 kv hold t htt
    · rw [h3] at htt
      rcases mem_upsert _ _ _ t htt with rfl | htt
      · exact ⟨i, hi, hk, h1, rfl⟩
      · rcases h2 with rfl | h2
        · cases htt
        · obtain ⟨j, hj, r1, r2, r3⟩ := h.2 _ h2 t htt
          exact ⟨j, hj, r1, h1.trans r2, r3⟩

theorem tags_fieldsLoop (I : IState) (rec : Nat → SSt → SSt) (hrec : ∀ k st, ∀ j ∈ st.tags, j ∈ (rec k st).tags)
    (fs : List Field) (st : SSt) : ∀ j ∈ st.tags, j ∈ (fieldsLoop I rec fs st).tags := by
  induction fs generalizing st with
  | nil => intro j hj; exact hj
  | cons f fs ih =>
    intro j hj
    simp only [fieldsLoop]
    split
    · exact ih st j hj
    · exact ih _ j (hrec f.ty st j hj)

theorem tags_dataLoop (I : IState) (rec : Nat → SSt → SSt) (hrec : ∀ k st, ∀ j ∈ st.tags, j ∈ (rec k st).tags)
    (fs : List Field) (st : SSt) : ∀ j ∈ st.tags, j ∈ (dataLoop I rec fs st).tags := by
  induction fs generalizing st with
  | nil => intro j hj; exact hj
  | cons f fs ih =>
    intro j hj
    simp only [dataLoop]
    split
    · exact ih _ j (hrec f.inner st j hj)
    · exact ih st j hj

theorem from_fieldsLoop (I : IState) (rec : Nat → SSt → SSt) (hrec : ∀ k st, From I st → From I (rec k st))
    (fs : List Field) (st : SSt) (h : From I st) : From I (fieldsLoop I rec fs st) := by
  induction fs generalizing st with
  | nil => exact h
  | cons f fs ih =>
    simp only [fieldsLoop]
    split
    · exact ih st h
    · exact ih _ (from_same_infos I _ _ rfl (fun j hj => hj) (hrec f.ty st h))

theorem from_dataLoop (I : IState) (rec : Nat → SSt → SSt) (hrec : ∀ k st, From I st → From I (rec k st))
    (fs : List Field) (st : SSt) (h : From I st) : From I (dataLoop I rec fs st) := by
  induction fs generalizing st with
  | nil => exact h
  | cons f fs ih =>
    simp only [dataLoop]
    split
    · exact ih _ (from_same_infos I _ _ rfl (fun j hj => hj) (hrec f.inner st h))
    · exact ih st h

theorem tags_addCls (I : IState) (fuel : Nat) : ∀ i st, ∀ j ∈ st.tags, j ∈ (addCls I fuel i st).tags := by
  induction fuel with
  | zero => intro i st j hj; exact hj
  | succ fuel ih =>
    intro i st j hj
    simp only [addCls]
    split
    · exact hj
    · have hj' : j ∈ ({ st with tags := i :: st.tags } : SSt).tags := List.mem_cons_of_mem _ hj
      cases hk : (I.cls i).kind with
      | builtin => exact hj'
      | simple => cases he : (I.cls i).ext <;> simpa [SSt.touchOpt, he, SSt.touch, addType] using hj'
      | enum => simpa [addType, SSt.touch] using hj'
      | complex =>
        simp only [addElement, SSt.touch, addType]
        apply tags_fieldsLoop I (addCls I fuel) ih
        apply tags_dataLoop I (addCls I fuel) ih
        cases he : (I.cls i).ext <;> simpa [SSt.touchOpt, he, SSt.touch] using hj'

theorem from_addCls (I : IState) (fuel : Nat) : ∀ i st, From I st → From I (addCls I fuel i st) := by
  induction fuel with
  | zero => intro i st h; exact h
  | succ fuel ih =>
    intro i st h
    simp only [addCls]
    split
    · exact h
    · have h1 : From I { st with tags := i :: st.tags } :=
        from_same_infos I st _ rfl (fun j hj => List.mem_cons_of_mem _ hj) h
      have hi : i ∈ ({ st with tags := i :: st.tags } : SSt).tags := List.mem_cons_self
      cases hk : (I.cls i).kind with
      | builtin => exact h1
      | simple =>
        simp only
        have hne : (I.cls i).kind ≠ .builtin := by rw [hk]; intro hc; cases hc
        have := from_addType I _ i hi hne h1
        cases he : (I.cls i).ext with
        | none => simpa [SSt.touchOpt] using this
        | some b => exact from_same_infos I _ _ rfl (fun j hj => hj) this
      | enum =>
        simp only
        have hne : (I.cls i).kind ≠ .builtin := by rw [hk]; intro hc; cases hc
        exact from_addType I _ i (by simpa [SSt.touch] using hi) hne
          (from_same_infos I _ _ rfl (fun j hj => hj) h1)
      | complex =>
        simp only
        have hne : (I.cls i).kind ≠ .builtin := by rw [hk]; intro hc; cases hc
        have h0 : From I (({ st with tags := i :: st.tags } : SSt).touchOpt I (I.cls i).ext) := by
          cases he : (I.cls i).ext with
          | none => simpa [SSt.touchOpt] using h1
          | some b => exact from_same_infos I _ _ rfl (fun j hj => hj) h1
        have hi0 : i ∈ (({ st with tags := i :: st.tags } : SSt).touchOpt I (I.cls i).ext).tags := by
          cases he : (I.cls i).ext <;> simp [SSt.touchOpt, SSt.touch]
        have hf := from_fieldsLoop I (addCls I fuel) ih (I.cls i).fields _
          (from_dataLoop I (addCls I fuel) ih (I.cls i).fields _ h0)
        have hif := tags_fieldsLoop I (addCls I fuel) (tags_addCls I fuel) (I.cls i).fields _ i
          (tags_dataLoop I (addCls I fuel) (tags_addCls I fuel) (I.cls i).fields _ i hi0)
        generalize fieldsLoop I (addCls I fuel) (I.cls i).fields
          (dataLoop I (addCls I fuel) (I.cls i).fields
            (({ st with tags := i :: st.tags } : SSt).touchOpt I (I.cls i).ext)) = S at hf hif
        have h2 : From I { S with trace := S.trace ++ attrTrace I (I.cls i).fields } :=
          from_same_infos I S _ rfl (fun j hj => hj) hf
        have h3 := from_addType I _ i (show i ∈ ({ S with trace := S.trace ++ attrTrace I (I.cls i).fields } : SSt).tags from hif) hne h2
        have hi3 : i ∈ (addType { S with trace := S.trace ++ attrTrace I (I.cls i).fields } (I.cls i) (nodeOf I (I.cls i))).tags := by
          simpa [addType] using hif
        generalize addType { S with trace := S.trace ++ attrTrace I (I.cls i).fields } (I.cls i) (nodeOf I (I.cls i)) = S3 at h3 hi3
        have h4 : From I (S3.touch (I.cls i).ns) := from_same_infos I S3 _ rfl (fun j hj => hj) h3
        exact from_addElement I _ i (by simpa [SSt.touch] using hi3) hk h4

/-! ## the main loop -/

theorem mainLoop_spec (I : IState) (hr : Ranked I) (order : List Nat) (ho : ∀ i ∈ order, i < I.classes.length)
    (st : SSt) (hq : Q I [] st) (hf : From I st) :
    Q I [] (mainLoop I order st) ∧ From I (mainLoop I order st) ∧ Le st (mainLoop I order st) ∧
    ∀ i ∈ order, i ∈ (mainLoop I order st).tags := by
  induction order generalizing st with
  | nil => exact ⟨hq, hf, Le.refl st, fun i hi => by cases hi⟩
  | cons i is ih =>
    simp only [mainLoop]
    obtain ⟨q1, l1, t1⟩ := addCls_spec I hr I.classes.length i (ho i List.mem_cons_self) (Nat.le_refl _) [] st hq
    obtain ⟨q2, f2, l2, t2⟩ := ih (fun j hj => ho j (List.mem_cons_of_mem _ hj)) _ q1 (from_addCls I _ i st hf)
    refine ⟨q2, f2, l1.trans l2, ?_⟩
    intro j hj
    rcases List.mem_cons.mp hj with rfl | hj
    · exact l2.tags _ t1
    · exact t2 j hj

/-- the first entry of `XmlSchema.namespaces` is the target namespace -/
def HeadTns (I : IState) (st : SSt) : Prop := ∃ info rest, st.infos = (I.tns, info) :: rest

theorem headTns_modify (tns ns : String) (f : SInfo → SInfo) (infos : List (String × SInfo))
    (h : ∃ info rest, infos = (tns, info) :: rest) : ∃ info rest, modifyInfo ns f infos = (tns, info) :: rest := by
  obtain ⟨info, rest, rfl⟩ := h
  simp only [modifyInfo]
  split
  · rename_i heq
    have heq' : tns = ns := heq
    exact ⟨f info, rest, by rw [heq']⟩
  · exact ⟨info, _, rfl⟩

theorem headTns_fieldsLoop (I : IState) (rec : Nat → SSt → SSt) (hrec : ∀ k st, HeadTns I st → HeadTns I (rec k st))
    (fs : List Field) (st : SSt) (h : HeadTns I st) : HeadTns I (fieldsLoop I rec fs st) := by
  induction fs generalizing st with
  | nil => exact h
  | cons f fs ih =>
    simp only [fieldsLoop]
    split
    · exact ih st h
    · exact ih _ (hrec f.ty st h)

theorem headTns_dataLoop (I : IState) (rec : Nat → SSt → SSt) (hrec : ∀ k st, HeadTns I st → HeadTns I (rec k st))
    (fs : List Field) (st : SSt) (h : HeadTns I st) : HeadTns I (dataLoop I rec fs st) := by
  induction fs generalizing st with
  | nil => exact h
  | cons f fs ih =>
    simp only [dataLoop]
    split
    · exact ih _ (hrec f.inner st h)
    · exact ih st h

theorem headTns_addCls (I : IState) (fuel : Nat) : ∀ i st, HeadTns I st → HeadTns I (addCls I fuel i st) := by
  induction fuel with
  | zero => intro i st h; exact h
  | succ fuel ih =>
    intro i st h
    simp only [addCls]
    split
    · exact h
    · cases hk : (I.cls i).kind with
      | builtin => exact h
      | simple =>
        simp only
        have := headTns_modify I.tns (I.cls i).ns (fun i' => { i' with types := upsert (I.cls i).tn (nodeOf I (I.cls i)) i'.types }) st.infos h
        cases he : (I.cls i).ext <;> simpa [HeadTns, SSt.touchOpt, SSt.touch, addType, he] using this
      | enum =>
        simp only
        exact headTns_modify I.tns (I.cls i).ns _ _ h
      | complex =>
        simp only
        have h0 : HeadTns I (({ st with tags := i :: st.tags } : SSt).touchOpt I (I.cls i).ext) := by
          cases he : (I.cls i).ext <;> simpa [HeadTns, SSt.touchOpt, SSt.touch, he] using h
        have hf := headTns_fieldsLoop I (addCls I fuel) ih (I.cls i).fields _
          (headTns_dataLoop I (addCls I fuel) ih (I.cls i).fields _ h0)
        generalize fieldsLoop I (addCls I fuel) (I.cls i).fields
          (dataLoop I (addCls I fuel) (I.cls i).fields
            (({ st with tags := i :: st.tags } : SSt).touchOpt I (I.cls i).ext)) = S at hf
        exact headTns_modify I.tns _ _ _ (headTns_modify I.tns _ _ _ hf)

theorem headTns_mainLoop (I : IState) (order : List Nat) (st : SSt) (h : HeadTns I st) : HeadTns I (mainLoop I order st) := by
  induction order generalizing st with
  | nil => exact h
  | cons i is ih => simp only [mainLoop]; exact ih _ (headTns_addCls I _ i st h)

/-! ## keys of the odicts are unique -/

theorem upsert_keys {κ β : Type} [DecidableEq κ] (k : κ) (v : β) (l : List (κ × β)) :
    (upsert k v l).map (·.1) = if k ∈ l.map (·.1) then l.map (·.1) else l.map (·.1) ++ [k] := by
  induction l with
  | nil => simp [upsert]
  | cons x r ih =>
    simp only [upsert]
    split
    · rename_i heq
      simp [heq]
    · rename_i hne
      simp only [List.map_cons, ih, List.mem_cons]
      have hne' : ¬ k = x.1 := fun h => hne h.symm
      by_cases hk : k ∈ r.map (·.1)
      · simp [hk]
      · simp [hk, hne']

theorem nodup_append_single {α : Type} (l : List α) (x : α) (h : l.Nodup) (hx : x ∉ l) : (l ++ [x]).Nodup := by
  rw [List.nodup_append]
  refine ⟨h, by simp, ?_⟩
  intro a ha b hb
  simp only [List.mem_singleton] at hb
  subst hb
  intro hab; subst hab; exact hx ha

theorem upsert_keys_nodup {κ β : Type} [DecidableEq κ] (k : κ) (v : β) (l : List (κ × β)) (h : (l.map (·.1)).Nodup) :
    ((upsert k v l).map (·.1)).Nodup := by
  rw [upsert_keys]
  split
  · exact h
  · rename_i hk
    exact nodup_append_single _ _ h hk

theorem modifyInfo_keys (ns : String) (f : SInfo → SInfo) (infos : List (String × SInfo)) :
    (modifyInfo ns f infos).map (·.1) = if ns ∈ infos.map (·.1) then infos.map (·.1) else infos.map (·.1) ++ [ns] := by
  induction infos with
  | nil => simp [modifyInfo]
  | cons x r ih =>
    simp only [modifyInfo]
    split
    · rename_i heq
      simp [heq]
    · rename_i hne
      simp only [List.map_cons, ih, List.mem_cons]
      have hne' : ¬ ns = x.1 := fun h => hne h.symm
      by_cases hk : ns ∈ r.map (·.1)
      · simp [hk]
      · simp [hk, hne']

/-- namespaces, and type / element names inside a namespace, are registered once -/
def KeysNodup (st : SSt) : Prop :=
  (st.infos.map (·.1)).Nodup ∧ ∀ kv ∈ st.infos, (kv.2.types.map (·.1)).Nodup ∧ (kv.2.elements.map (·.1)).Nodup

theorem keysNodup_modify (ns : String) (f : SInfo → SInfo) (infos : List (String × SInfo))
    (hf : ∀ old, ((old.types.map (·.1)).Nodup ∧ (old.elements.map (·.1)).Nodup) →
      (((f old).types.map (·.1)).Nodup ∧ ((f old).elements.map (·.1)).Nodup))
    (h1 : (infos.map (·.1)).Nodup)
    (h2 : ∀ kv ∈ infos, (kv.2.types.map (·.1)).Nodup ∧ (kv.2.elements.map (·.1)).Nodup) :
    ((modifyInfo ns f infos).map (·.1)).Nodup ∧
    ∀ kv ∈ modifyInfo ns f infos, (kv.2.types.map (·.1)).Nodup ∧ (kv.2.elements.map (·.1)).Nodup := by
  constructor
  · rw [modifyInfo_keys]
    split
    · exact h1
    · rename_i hk
      exact nodup_append_single _ _ h1 hk
  · intro kv hkv
    rcases mem_modifyInfo ns f infos kv hkv with h | ⟨_, old, ho, he⟩
    · exact h2 kv h
    · rw [he]
      apply hf
      rcases ho with rfl | ho
      · exact ⟨List.nodup_nil, List.nodup_nil⟩
      · exact h2 _ ho

theorem keysNodup_addType (st : SSt) (c : Cls) (node : TypeDef) (h : KeysNodup st) : KeysNodup (addType st c node) :=
  keysNodup_modify c.ns _ st.infos (fun old ho => ⟨upsert_keys_nodup _ _ _ ho.1, ho.2⟩) h.1 h.2

theorem keysNodup_addElement (tns : String) (st : SSt) (c : Cls) (node : ElemDecl) (h : KeysNodup st) :
    KeysNodup (addElement tns st c node) :=
  keysNodup_modify (c.elemNs tns) _ st.infos (fun old ho => ⟨ho.1, upsert_keys_nodup _ _ _ ho.2⟩) h.1 h.2

theorem keysNodup_fieldsLoop (I : IState) (rec : Nat → SSt → SSt) (hrec : ∀ k st, KeysNodup st → KeysNodup (rec k st))
    (fs : List Field) (st : SSt) (h : KeysNodup st) : KeysNodup (fieldsLoop I rec fs st) := by
  induction fs generalizing st with
  | nil => exact h
  | cons f fs ih =>
    simp only [fieldsLoop]
    split
    · exact ih st h
    · exact ih _ (hrec f.ty st h)

theorem keysNodup_dataLoop (I : IState) (rec : Nat → SSt → SSt) (hrec : ∀ k st, KeysNodup st → KeysNodup (rec k st))
    (fs : List Field) (st : SSt) (h : KeysNodup st) : KeysNodup (dataLoop I rec fs st) := by
  induction fs generalizing st with
  | nil => exact h
  | cons f fs ih =>
    simp only [dataLoop]
    split
    · exact ih _ (hrec f.inner st h)
    · exact ih st h

theorem keysNodup_addCls (I : IState) (fuel : Nat) : ∀ i st, KeysNodup st → KeysNodup (addCls I fuel i st) := by
  induction fuel with
  | zero => intro i st h; exact h
  | succ fuel ih =>
    intro i st h
    simp only [addCls]
    split
    · exact h
    · have h1 : KeysNodup { st with tags := i :: st.tags } := h
      cases hk : (I.cls i).kind with
      | builtin => exact h1
      | simple =>
        simp only
        have := keysNodup_addType _ (I.cls i) (nodeOf I (I.cls i)) h1
        cases he : (I.cls i).ext <;> simpa [KeysNodup, SSt.touchOpt, SSt.touch, he] using this
      | enum =>
        simp only
        exact keysNodup_addType _ (I.cls i) (nodeOf I (I.cls i)) (by simpa [KeysNodup, SSt.touch] using h1)
      | complex =>
        simp only
        have h0 : KeysNodup (({ st with tags := i :: st.tags } : SSt).touchOpt I (I.cls i).ext) := by
          cases he : (I.cls i).ext <;> simpa [KeysNodup, SSt.touchOpt, SSt.touch, he] using h1
        have hf := keysNodup_fieldsLoop I (addCls I fuel) ih (I.cls i).fields _
          (keysNodup_dataLoop I (addCls I fuel) ih (I.cls i).fields _ h0)
        generalize fieldsLoop I (addCls I fuel) (I.cls i).fields
          (dataLoop I (addCls I fuel) (I.cls i).fields
            (({ st with tags := i :: st.tags } : SSt).touchOpt I (I.cls i).ext)) = S at hf
        have h3 := keysNodup_addType { S with trace := S.trace ++ attrTrace I (I.cls i).fields } (I.cls i) (nodeOf I (I.cls i)) hf
        generalize addType { S with trace := S.trace ++ attrTrace I (I.cls i).fields } (I.cls i) (nodeOf I (I.cls i)) = S3 at h3
        exact keysNodup_addElement I.tns (S3.touch (I.cls i).ns) (I.cls i) _ h3

theorem keysNodup_mainLoop (I : IState) (order : List Nat) (st : SSt) (h : KeysNodup st) : KeysNodup (mainLoop I order st) := by
  induction order generalizing st with
  | nil => exact h
  | cons i is ih => simp only [mainLoop]; exact ih _ (keysNodup_addCls I _ i st h)

theorem missingLoop_keys_nodup (I : IState) (pairs : List (String × Nat)) (acc : List (String × ElemDecl) × List String)
    (h : (acc.1.map (·.1)).Nodup) : ((missingLoop I pairs acc).1.map (·.1)).Nodup := by
  induction pairs generalizing acc with
  | nil => exact h
  | cons p ps ih =>
    obtain ⟨name, i⟩ := p
    simp only [missingLoop]
    split
    · exact ih acc h
    · rename_i hc
      apply ih
      simp only [List.map_append, List.map_cons, List.map_nil]
      exact nodup_append_single _ _ h (by simpa using hc)

/-! ## from the tables to the schema nodes -/

def projS (s : Schema) : String × List TypeDef × List ElemDecl := (s.tns, s.types, s.elements)
def projI (kv : String × SInfo) : String × List TypeDef × List ElemDecl :=
  (kv.1, kv.2.types.map (·.2), kv.2.elements.map (·.2))

theorem schemaLoop_ok (F : Facts07) (e : Enum) (I : IState) (infos : List (String × SInfo)) (ss : List Schema)
    (tr : List String) (h : schemaLoop F e I infos = .ok (ss, tr)) : ss.map projS = infos.map projI := by
  induction infos generalizing ss tr with
  | nil => simp only [schemaLoop] at h; injection h with h; injection h with h1 h2; subst h1; rfl
  | cons kv rest ih =>
    obtain ⟨ns, info⟩ := kv
    simp only [schemaLoop] at h
    cases hl : I.imports.lookup ns with
    | none => rw [hl] at h; cases h
    | some imps =>
      rw [hl] at h
      simp only at h
      cases hr : schemaLoop F e I rest with
      | fault => rw [hr] at h; cases h
      | crash x => rw [hr] at h; cases h
      | ok r =>
        obtain ⟨ss', tr'⟩ := r
        rw [hr] at h
        simp only at h
        injection h with h
        injection h with h1 h2
        subst h1
        simp only [List.map_cons, ih ss' tr' hr]
        rfl

theorem missingLoop_mono (I : IState) (pairs : List (String × Nat)) (acc : List (String × ElemDecl) × List String)
    (kv : String × ElemDecl) (h : kv ∈ acc.1) : kv ∈ (missingLoop I pairs acc).1 := by
  induction pairs generalizing acc with
  | nil => exact h
  | cons p ps ih =>
    obtain ⟨name, i⟩ := p
    simp only [missingLoop]
    split
    · exact ih acc h
    · exact ih _ (List.mem_append_left _ h)

theorem missingLoop_has (I : IState) (pairs : List (String × Nat)) (acc : List (String × ElemDecl) × List String)
    (p : String × Nat) (hp : p ∈ pairs) : p.1 ∈ (missingLoop I pairs acc).1.map (·.1) := by
  induction pairs generalizing acc with
  | nil => cases hp
  | cons p' ps ih =>
    obtain ⟨name, i⟩ := p'
    simp only [missingLoop]
    rcases List.mem_cons.mp hp with rfl | hp
    · split
      · rename_i hc
        have : name ∈ acc.1.map (·.1) := by simpa using hc
        obtain ⟨kv, hkv, hn⟩ := List.mem_map.mp this
        exact List.mem_map.mpr ⟨kv, missingLoop_mono I ps acc kv hkv, hn⟩
      · exact List.mem_map.mpr ⟨(name, ⟨name, typeQN (I.cls i)⟩),
          missingLoop_mono I ps _ _ (List.mem_append_right _ List.mem_cons_self), rfl⟩
    · split
      · exact ih acc hp
      · exact ih _ hp

theorem missingLoop_from (I : IState) (pairs : List (String × Nat)) (acc : List (String × ElemDecl) × List String)
    (kv : String × ElemDecl) (h : kv ∈ (missingLoop I pairs acc).1) :
    kv ∈ acc.1 ∨ ∃ p ∈ pairs, kv = (p.1, ⟨p.1, typeQN (I.cls p.2)⟩) := by
  induction pairs generalizing acc with
  | nil => exact Or.inl h
  | cons p' ps ih =>
    obtain ⟨name, i⟩ := p'
    simp only [missingLoop] at h
    split at h
    · rcases ih acc h with h | ⟨p, hp, r⟩
      · exact Or.inl h
      · exact Or.inr ⟨p, List.mem_cons_of_mem _ hp, r⟩
    · rcases ih _ h with h | ⟨p, hp, r⟩
      · rcases List.mem_append.mp h with h | h
        · exact Or.inl h
        · simp only [List.mem_singleton] at h
          exact Or.inr ⟨(name, i), List.mem_cons_self, h⟩
      · exact Or.inr ⟨p, List.mem_cons_of_mem _ hp, r⟩

theorem missingLoop_trace (I : IState) (pairs : List (String × Nat)) (acc : List (String × ElemDecl) × List String)
    (x : String) (h : x ∈ acc.2) : x ∈ (missingLoop I pairs acc).2 := by
  induction pairs generalizing acc with
  | nil => exact h
  | cons p' ps ih =>
    obtain ⟨name, i⟩ := p'
    simp only [missingLoop]
    split
    · exact ih acc h
    · exact ih _ (List.mem_append_left _ h)

/-- what `buildSchemas` returns when it returns -/
theorem buildSchemas_ok (F : Facts07) (e : Enum) (I : IState) (schemas : List Schema) (tr : List String)
    (h : buildSchemas F e I = .ok (schemas, tr)) :
    ∃ tiers ss tr' s0 rest, topo F e I.reprKey I.deps = .ok tiers ∧
      schemaLoop F e I (schemaState I tiers).infos = .ok (ss, tr') ∧ ss = s0 :: rest ∧
      schemas = { s0 with elements := (missingLoop I (missingPairs I)
          ((((schemaState I tiers).infos.lookup I.tns).getD ⟨[], []⟩).elements, [])).1.map (·.2) } :: rest ∧
      tr = (schemaState I tiers).trace ++ tr' ++ (missingLoop I (missingPairs I)
          ((((schemaState I tiers).infos.lookup I.tns).getD ⟨[], []⟩).elements, [])).2 := by
  unfold buildSchemas at h
  cases ht : topo F e I.reprKey I.deps with
  | fault => rw [ht] at h; cases h
  | crash x => rw [ht] at h; cases h
  | ok tiers =>
    rw [ht] at h
    simp only at h
    cases hs : schemaLoop F e I (schemaState I tiers).infos with
    | fault => rw [hs] at h; cases h
    | crash x => rw [hs] at h; cases h
    | ok r =>
      obtain ⟨ss, tr'⟩ := r
      rw [hs] at h
      simp only at h
      cases ss with
      | nil => cases h
      | cons s0 rest =>
        simp only at h
        injection h with h
        injection h with h1 h2
        exact ⟨tiers, s0 :: rest, tr', s0, rest, rfl, hs, rfl, h1.symm, h2.symm⟩

theorem nodeOf_name (I : IState) (c : Cls) : (nodeOf I c).name = c.tn := by
  unfold nodeOf
  cases c.kind <;> rfl

end SpyneModel.Wsdl
