/- C07: every type / element reference of the document resolves. -/
import Proofs.WsdlSchema
namespace SpyneModel.Wsdl
open SpyneModel

/-! ## where the entries of the tables come from -/

def TypesFrom (I : IState) (st : SSt) : Prop :=
  ∀ kv ∈ st.infos, ∀ t ∈ kv.2.types, ∃ j ∈ st.tags, (I.cls j).kind ≠ .builtin ∧ kv.1 = (I.cls j).ns ∧
    t = ((I.cls j).tn, nodeOf I (I.cls j))

def ElemsFrom (I : IState) (st : SSt) : Prop :=
  ∀ kv ∈ st.infos, ∀ t ∈ kv.2.elements, ∃ j ∈ st.tags, (I.cls j).kind = .complex ∧ kv.1 = (I.cls j).elemNs I.tns ∧
    t = ((I.cls j).elemName, ⟨(I.cls j).elemName, typeQN (I.cls j)⟩)

def From (I : IState) (st : SSt) : Prop := TypesFrom I st ∧ ElemsFrom I st

theorem from_same_infos (I : IState) (a b : SSt) (hi : b.infos = a.infos) (ht : ∀ j ∈ a.tags, j ∈ b.tags)
    (h : From I a) : From I b := by
  constructor
  · intro kv hkv t htt
    rw [hi] at hkv
    obtain ⟨j, hj, r⟩ := h.1 kv hkv t htt
    exact ⟨j, ht j hj, r⟩
  · intro kv hkv t htt
    rw [hi] at hkv
    obtain ⟨j, hj, r⟩ := h.2 kv hkv t htt
    exact ⟨j, ht j hj, r⟩

theorem from_addType (I : IState) (st : SSt) (i : Nat) (hi : i ∈ st.tags) (hk : (I.cls i).kind ≠ .builtin)
    (h : From I st) : From I (addType st (I.cls i) (nodeOf I (I.cls i))) := by
  constructor
  · intro kv hkv t htt
    rcases mem_modifyInfo _ _ _ kv hkv with hold | ⟨h1, old, h2, h3⟩
    · exact h.1 kv hold t htt
    · rw [h3] at htt
      rcases mem_upsert _ _ _ t htt with rfl | htt
      · exact ⟨i, hi, hk, h1, rfl⟩
      · rcases h2 with rfl | h2
        · cases htt
        · obtain ⟨j, hj, r1, r2, r3⟩ := h.1 _ h2 t htt
          exact ⟨j, hj, r1, h1.trans r2, r3⟩
  · intro kv hkv t htt
    rcases mem_modifyInfo _ _ _ kv hkv with hold | ⟨h1, old, h2, h3⟩
    · exact h.2 kv hold t htt
    · rw [h3] at htt
      rcases h2 with rfl | h2
      · cases htt
      · obtain ⟨j, hj, r1, r2, r3⟩ := h.2 _ h2 t htt
        exact ⟨j, hj, r1, h1.trans r2, r3⟩

theorem from_addElement (I : IState) (st : SSt) (i : Nat) (hi : i ∈ st.tags) (hk : (I.cls i).kind = .complex)
    (h : From I st) : From I (addElement I.tns st (I.cls i) ⟨(I.cls i).elemName, typeQN (I.cls i)⟩) := by
  constructor
  · intro kv hkv t htt
    rcases mem_modifyInfo _ _ _ kv hkv with hold | ⟨h1, old, h2, h3⟩
    · exact h.1 kv hold t htt
    · rw [h3] at htt
      rcases h2 with rfl | h2
      · cases htt
      · obtain ⟨j, hj, r1, r2, r3⟩ := h.1 _ h2 t htt
        exact ⟨j, hj, r1, h1.trans r2, r3⟩
  · intro kv hkv t htt
    rcases mem_modifyInfo _ _ _ kv hkv with hold | ⟨h1, old, h2, h3⟩
    · exact h.2 kv hold t htt
    · rw [h3] at htt
      rcases mem_upsert _ _ _ t htt with rfl | htt
      · exact ⟨i, hi, hk, h1, rfl⟩
      · rcases h2 with rfl | h2
        · cases htt
        · obtain ⟨j, hj, r1, r2, r3⟩ := h.2 _ h2 t htt
          exact ⟨j, hj, r1, h1.trans r2, r3⟩

theorem tags_fieldsLoop (I : IState) (rec : Nat → SSt → SSt) (hrec : ∀ k st, ∀ j ∈ st.tags, j ∈ (rec k st).tags)
    (fs : List Field) (st : SSt) : ∀ j ∈ st.tags, j ∈ (fieldsLoop I rec fs st).tags := by
  induction fs generalizing st with
  | nil => intro j hj; exact hj
  | cons f fs ih =>
    intro j hj
    simp only [fieldsLoop]
    split
    · exact ih st j hj
    · exact ih _ j (hrec f.ty st j hj)

theorem from_fieldsLoop (I : IState) (rec : Nat → SSt → SSt) (hrec : ∀ k st, From I st → From I (rec k st))
    (fs : List Field) (st : SSt) (h : From I st) : From I (fieldsLoop I rec fs st) := by
  induction fs generalizing st with
  | nil => exact h
  | cons f fs ih =>
    simp only [fieldsLoop]
    split
    · exact ih st h
    · exact ih _ (from_same_infos I _ _ rfl (fun j hj => hj) (hrec f.ty st h))

theorem tags_addCls (I : IState) (fuel : Nat) : ∀ i st, ∀ j ∈ st.tags, j ∈ (addCls I fuel i st).tags := by
  induction fuel with
  | zero => intro i st j hj; exact hj
  | succ fuel ih =>
    intro i st j hj
    simp only [addCls]
    split
    · exact hj
    · have hj' : j ∈ ({ st with tags := i :: st.tags } : SSt).tags := List.mem_cons_of_mem _ hj
      cases hk : (I.cls i).kind with
      | builtin => exact hj'
      | simple => cases he : (I.cls i).ext <;> simpa [SSt.touchOpt, he, SSt.touch, addType] using hj'
      | enum => simpa [addType, SSt.touch] using hj'
      | complex =>
        simp only [addElement, SSt.touch, addType]
        apply tags_fieldsLoop I (addCls I fuel) ih
        cases he : (I.cls i).ext <;> simpa [SSt.touchOpt, he, SSt.touch] using hj'

theorem from_addCls (I : IState) (fuel : Nat) : ∀ i st, From I st → From I (addCls I fuel i st) := by
  induction fuel with
  | zero => intro i st h; exact h
  | succ fuel ih =>
    intro i st h
    simp only [addCls]
    split
    · exact h
    · have h1 : From I { st with tags := i :: st.tags } :=
        from_same_infos I st _ rfl (fun j hj => List.mem_cons_of_mem _ hj) h
      have hi : i ∈ ({ st with tags := i :: st.tags } : SSt).tags := List.mem_cons_self
      cases hk : (I.cls i).kind with
      | builtin => exact h1
      | simple =>
        simp only
        have hne : (I.cls i).kind ≠ .builtin := by rw [hk]; intro hc; cases hc
        have := from_addType I _ i hi hne h1
        cases he : (I.cls i).ext with
        | none => simpa [SSt.touchOpt] using this
        | some b => exact from_same_infos I _ _ rfl (fun j hj => hj) this
      | enum =>
        simp only
        have hne : (I.cls i).kind ≠ .builtin := by rw [hk]; intro hc; cases hc
        exact from_addType I _ i (by simpa [SSt.touch] using hi) hne
          (from_same_infos I _ _ rfl (fun j hj => hj) h1)
      | complex =>
        simp only
        have hne : (I.cls i).kind ≠ .builtin := by rw [hk]; intro hc; cases hc
        have h0 : From I (({ st with tags := i :: st.tags } : SSt).touchOpt I (I.cls i).ext) := by
          cases he : (I.cls i).ext with
          | none => simpa [SSt.touchOpt] using h1
          | some b => exact from_same_infos I _ _ rfl (fun j hj => hj) h1
        have hi0 : i ∈ (({ st with tags := i :: st.tags } : SSt).touchOpt I (I.cls i).ext).tags := by
          cases he : (I.cls i).ext <;> simp [SSt.touchOpt, SSt.touch]
        have hf := from_fieldsLoop I (addCls I fuel) ih (I.cls i).fields _ h0
        have hif := tags_fieldsLoop I (addCls I fuel) (tags_addCls I fuel) (I.cls i).fields _ i hi0
        generalize fieldsLoop I (addCls I fuel) (I.cls i).fields
          (({ st with tags := i :: st.tags } : SSt).touchOpt I (I.cls i).ext) = S at hf hif
        have h2 : From I { S with trace := S.trace ++ attrTrace I (I.cls i).fields } :=
          from_same_infos I S _ rfl (fun j hj => hj) hf
        have h3 := from_addType I _ i (show i ∈ ({ S with trace := S.trace ++ attrTrace I (I.cls i).fields } : SSt).tags from hif) hne h2
        have hi3 : i ∈ (addType { S with trace := S.trace ++ attrTrace I (I.cls i).fields } (I.cls i) (nodeOf I (I.cls i))).tags := by
          simpa [addType] using hif
        generalize addType { S with trace := S.trace ++ attrTrace I (I.cls i).fields } (I.cls i) (nodeOf I (I.cls i)) = S3 at h3 hi3
        have h4 : From I (S3.touch (I.cls i).ns) := from_same_infos I S3 _ rfl (fun j hj => hj) h3
        exact from_addElement I _ i (by simpa [SSt.touch] using hi3) hk h4

/-! ## the main loop -/

theorem mainLoop_spec (I : IState) (hr : Ranked I) (order : List Nat) (ho : ∀ i ∈ order, i < I.classes.length)
    (st : SSt) (hq : Q I [] st) (hf : From I st) :
    Q I [] (mainLoop I order st) ∧ From I (mainLoop I order st) ∧ Le st (mainLoop I order st) ∧
    ∀ i ∈ order, i ∈ (mainLoop I order st).tags := by
  induction order generalizing st with
  | nil => exact ⟨hq, hf, Le.refl st, fun i hi => by cases hi⟩
  | cons i is ih =>
    simp only [mainLoop]
    obtain ⟨q1, l1, t1⟩ := addCls_spec I hr I.classes.length i (ho i List.mem_cons_self) (Nat.le_refl _) [] st hq
    obtain ⟨q2, f2, l2, t2⟩ := ih (fun j hj => ho j (List.mem_cons_of_mem _ hj)) _ q1 (from_addCls I _ i st hf)
    refine ⟨q2, f2, l1.trans l2, ?_⟩
    intro j hj
    rcases List.mem_cons.mp hj with rfl | hj
    · exact l2.tags _ t1
    · exact t2 j hj

/-- the first entry of `XmlSchema.namespaces` is the target namespace -/
def HeadTns (I : IState) (st : SSt) : Prop := ∃ info rest, st.infos = (I.tns, info) :: rest

theorem headTns_modify (tns ns : String) (f : SInfo → SInfo) (infos : List (String × SInfo))
    (h : ∃ info rest, infos = (tns, info) :: rest) : ∃ info rest, modifyInfo ns f infos = (tns, info) :: rest := by
  obtain ⟨info, rest, rfl⟩ := h
  simp only [modifyInfo]
  split
  · rename_i heq
    have heq' : tns = ns := heq
    exact ⟨f info, rest, by rw [heq']⟩
  · exact ⟨info, _, rfl⟩

theorem headTns_fieldsLoop (I : IState) (rec : Nat → SSt → SSt) (hrec : ∀ k st, HeadTns I st → HeadTns I (rec k st))
    (fs : List Field) (st : SSt) (h : HeadTns I st) : HeadTns I (fieldsLoop I rec fs st) := by
  induction fs generalizing st with
  | nil => exact h
  | cons f fs ih =>
    simp only [fieldsLoop]
    split
    · exact ih st h
    · exact ih _ (hrec f.ty st h)

theorem headTns_addCls (I : IState) (fuel : Nat) : ∀ i st, HeadTns I st → HeadTns I (addCls I fuel i st) := by
  induction fuel with
  | zero => intro i st h; exact h
  | succ fuel ih =>
    intro i st h
    simp only [addCls]
    split
    · exact h
    · cases hk : (I.cls i).kind with
      | builtin => exact h
      | simple =>
        simp only
        have := headTns_modify I.tns (I.cls i).ns (fun i' => { i' with types := upsert (I.cls i).tn (nodeOf I (I.cls i)) i'.types }) st.infos h
        cases he : (I.cls i).ext <;> simpa [HeadTns, SSt.touchOpt, SSt.touch, addType, he] using this
      | enum =>
        simp only
        exact headTns_modify I.tns (I.cls i).ns _ _ h
      | complex =>
        simp only
        have h0 : HeadTns I (({ st with tags := i :: st.tags } : SSt).touchOpt I (I.cls i).ext) := by
          cases he : (I.cls i).ext <;> simpa [HeadTns, SSt.touchOpt, SSt.touch, he] using h
        have hf := headTns_fieldsLoop I (addCls I fuel) ih (I.cls i).fields _ h0
        generalize fieldsLoop I (addCls I fuel) (I.cls i).fields
          (({ st with tags := i :: st.tags } : SSt).touchOpt I (I.cls i).ext) = S at hf
        exact headTns_modify I.tns _ _ _ (headTns_modify I.tns _ _ _ hf)

theorem headTns_mainLoop (I : IState) (order : List Nat) (st : SSt) (h : HeadTns I st) : HeadTns I (mainLoop I order st) := by
  induction order generalizing st with
  | nil => exact h
  | cons i is ih => simp only [mainLoop]; exact ih _ (headTns_addCls I _ i st h)

/-! ## from the tables to the schema nodes -/

def projS (s : Schema) : String × List TypeDef × List ElemDecl := (s.tns, s.types, s.elements)
def projI (kv : String × SInfo) : String × List TypeDef × List ElemDecl :=
  (kv.1, kv.2.types.map (·.2), kv.2.elements.map (·.2))

theorem schemaLoop_ok (F : Facts07) (e : Enum) (I : IState) (infos : List (String × SInfo)) (ss : List Schema)
    (tr : List String) (h : schemaLoop F e I infos = .ok (ss, tr)) : ss.map projS = infos.map projI := by
  induction infos generalizing ss tr with
  | nil => simp only [schemaLoop] at h; injection h with h; injection h with h1 h2; subst h1; rfl
  | cons kv rest ih =>
    obtain ⟨ns, info⟩ := kv
    simp only [schemaLoop] at h
    cases hl : I.imports.lookup ns with
    | none => rw [hl] at h; cases h
    | some imps =>
      rw [hl] at h
      simp only at h
      cases hr : schemaLoop F e I rest with
      | fault => rw [hr] at h; cases h
      | crash x => rw [hr] at h; cases h
      | ok r =>
        obtain ⟨ss', tr'⟩ := r
        rw [hr] at h
        simp only at h
        injection h with h
        injection h with h1 h2
        subst h1
        simp only [List.map_cons, ih ss' tr' hr]
        rfl

theorem missingLoop_mono (I : IState) (pairs : List (String × Nat)) (acc : List (String × ElemDecl) × List String)
    (kv : String × ElemDecl) (h : kv ∈ acc.1) : kv ∈ (missingLoop I pairs acc).1 := by
  induction pairs generalizing acc with
  | nil => exact h
  | cons p ps ih =>
    obtain ⟨name, i⟩ := p
    simp only [missingLoop]
    split
    · exact ih acc h
    · exact ih _ (List.mem_append_left _ h)

theorem missingLoop_has (I : IState) (pairs : List (String × Nat)) (acc : List (String × ElemDecl) × List String)
    (p : String × Nat) (hp : p ∈ pairs) : p.1 ∈ (missingLoop I pairs acc).1.map (·.1) := by
  induction pairs generalizing acc with
  | nil => cases hp
  | cons p' ps ih =>
    obtain ⟨name, i⟩ := p'
    simp only [missingLoop]
    rcases List.mem_cons.mp hp with rfl | hp
    · split
      · rename_i hc
        have : name ∈ acc.1.map (·.1) := by simpa using hc
        obtain ⟨kv, hkv, hn⟩ := List.mem_map.mp this
        exact List.mem_map.mpr ⟨kv, missingLoop_mono I ps acc kv hkv, hn⟩
      · exact List.mem_map.mpr ⟨(name, ⟨name, typeQN (I.cls i)⟩),
          missingLoop_mono I ps _ _ (List.mem_append_right _ List.mem_cons_self), rfl⟩
    · split
      · exact ih acc hp
      · exact ih _ hp

theorem missingLoop_from (I : IState) (pairs : List (String × Nat)) (acc : List (String × ElemDecl) × List String)
    (kv : String × ElemDecl) (h : kv ∈ (missingLoop I pairs acc).1) :
    kv ∈ acc.1 ∨ ∃ p ∈ pairs, kv = (p.1, ⟨p.1, typeQN (I.cls p.2)⟩) := by
  induction pairs generalizing acc with
  | nil => exact Or.inl h
  | cons p' ps ih =>
    obtain ⟨name, i⟩ := p'
    simp only [missingLoop] at h
    split at h
    · rcases ih acc h with h | ⟨p, hp, r⟩
      · exact Or.inl h
      · exact Or.inr ⟨p, List.mem_cons_of_mem _ hp, r⟩
    · rcases ih _ h with h | ⟨p, hp, r⟩
      · rcases List.mem_append.mp h with h | h
        · exact Or.inl h
        · simp only [List.mem_singleton] at h
          exact Or.inr ⟨(name, i), List.mem_cons_self, h⟩
      · exact Or.inr ⟨p, List.mem_cons_of_mem _ hp, r⟩

theorem missingLoop_trace (I : IState) (pairs : List (String × Nat)) (acc : List (String × ElemDecl) × List String)
    (x : String) (h : x ∈ acc.2) : x ∈ (missingLoop I pairs acc).2 := by
  induction pairs generalizing acc with
  | nil => exact h
  | cons p' ps ih =>
    obtain ⟨name, i⟩ := p'
    simp only [missingLoop]
    split
    · exact ih acc h
    · exact ih _ (List.mem_append_left _ h)

/-- what `buildSchemas` returns when it returns -/
theorem buildSchemas_ok (F : Facts07) (e : Enum) (I : IState) (schemas : List Schema) (tr : List String)
    (h : buildSchemas F e I = .ok (schemas, tr)) :
    ∃ tiers ss tr' s0 rest, topo F e I.reprKey I.deps = .ok tiers ∧
      schemaLoop F e I (schemaState I tiers).infos = .ok (ss, tr') ∧ ss = s0 :: rest ∧
      schemas = { s0 with elements := (missingLoop I (missingPairs I)
          ((((schemaState I tiers).infos.lookup I.tns).getD ⟨[], []⟩).elements, [])).1.map (·.2) } :: rest ∧
      tr = (schemaState I tiers).trace ++ tr' ++ (missingLoop I (missingPairs I)
          ((((schemaState I tiers).infos.lookup I.tns).getD ⟨[], []⟩).elements, [])).2 := by
  unfold buildSchemas at h
  cases ht : topo F e I.reprKey I.deps with
  | fault => rw [ht] at h; cases h
  | crash x => rw [ht] at h; cases h
  | ok tiers =>
    rw [ht] at h
    simp only at h
    cases hs : schemaLoop F e I (schemaState I tiers).infos with
    | fault => rw [hs] at h; cases h
    | crash x => rw [hs] at h; cases h
    | ok r =>
      obtain ⟨ss, tr'⟩ := r
      rw [hs] at h
      simp only at h
      cases ss with
      | nil => cases h
      | cons s0 rest =>
        simp only at h
        injection h with h
        injection h with h1 h2
        exact ⟨tiers, s0 :: rest, tr', s0, rest, rfl, hs, rfl, h1.symm, h2.symm⟩

theorem nodeOf_name (I : IState) (c : Cls) : (nodeOf I c).name = c.tn := by
  unfold nodeOf
  cases c.kind <;> rfl

end SpyneModel.Wsdl
