/-
  Lemmas about the C13 model (SpyneModel/Wsgi.lean): the bounded body reader, the shape of what
  `process` produces, and the event order of `deliver`. General in `F : Facts13`; the property
  theorems in Props/C13.lean instantiate them with the regenerated facts.
-/
import SpyneModel.Wsgi
namespace SpyneModel.Wsgi
open SpyneModel

/-! ### list observers -/

theorem noneBefore_append_pre (p q : Ev → Bool) (l₁ l₂ : List Ev)
    (h : ∀ e ∈ l₁, p e = false ∧ q e = false) :
    noneBefore p q (l₁ ++ l₂) = noneBefore p q l₂ := by
  induction l₁ with
  | nil => rfl
  | cons e t ih =>
    have he := h e (by simp)
    simp [noneBefore, he.1, he.2]
    exact ih (fun x hx => h x (by simp [hx]))

theorem noneAfter_append_pre (p q : Ev → Bool) (l₁ l₂ : List Ev)
    (h : ∀ e ∈ l₁, q e = false) :
    noneAfter p q (l₁ ++ l₂) = noneAfter p q l₂ := by
  induction l₁ with
  | nil => rfl
  | cons e t ih =>
    have he := h e (by simp)
    simp [noneAfter, he]
    exact ih (fun x hx => h x (by simp [hx]))

theorem bytesGot_append (l₁ l₂ : List Ev) : bytesGot (l₁ ++ l₂) = bytesGot l₁ + bytesGot l₂ := by
  induction l₁ with
  | nil => simp [bytesGot]
  | cons e t ih => cases e <;> simp [bytesGot, ih] <;> omega

theorem bodyBytes_append (l₁ l₂ : List Ev) : bodyBytes (l₁ ++ l₂) = bodyBytes l₁ + bodyBytes l₂ := by
  induction l₁ with
  | nil => simp [bodyBytes]
  | cons e t ih => cases e <;> simp [bodyBytes, ih] <;> omega


/-! ### the bounded body reader -/

/-- a `read` event a well-behaved reader may produce: never asks for more than a block,
    never gets more than it asked for -/
def okRead (cfg : Cfg) : Ev → Prop
  | .read a g => a ≤ cfg.blockLen ∧ g ≤ a
  | _ => False

theorem readLoop_reads (cfg : Cfg) (length : Nat) (br : Nat) (stream : List Nat) :
    ∀ e ∈ (readLoop cfg length br stream).1, okRead cfg e := by
  induction stream generalizing br with
  | nil =>
    simp only [readLoop]
    split
    · split
      · simp
      · intro e he
        simp at he; subst he
        exact ⟨Nat.min_le_left _ _, Nat.zero_le _⟩
    · simp
  | cons a rest ih =>
    simp only [readLoop]
    split
    · split
      · simp
      · split
        · intro e he
          simp at he; subst he
          exact ⟨Nat.min_le_left _ _, Nat.zero_le _⟩
        · intro e he
          simp at he
          rcases he with he | he
          · subst he
            constructor <;> omega
          · exact ih _ e he
    · simp

/-- the loop invariant `bytes_read ≤ length`: whatever the stream does, the bytes obtained stay
    within what was declared -/
theorem readLoop_within (cfg : Cfg) (length : Nat) (br : Nat) (stream : List Nat) (h : br ≤ length) :
    br + bytesGot (readLoop cfg length br stream).1 ≤ length := by
  induction stream generalizing br with
  | nil =>
    simp only [readLoop]
    split
    · split <;> simp [bytesGot] <;> omega
    · simp [bytesGot]; omega
  | cons a rest ih =>
    simp only [readLoop]
    split
    · split
      · simp [bytesGot]; omega
      · split
        · simp [bytesGot]; omega
        · simp only [bytesGot]
          have := ih (br + min (min cfg.blockLen (length - br)) a) (by omega)
          omega
    · simp [bytesGot]; omega

/-- the counter the loop reports is the number of bytes it obtained -/
theorem readLoop_done (cfg : Cfg) (length : Nat) (br : Nat) (stream : List Nat) (n : Nat)
    (h : (readLoop cfg length br stream).2 = .done n) :
    n = br + bytesGot (readLoop cfg length br stream).1 := by
  induction stream generalizing br with
  | nil =>
    simp only [readLoop] at h ⊢
    split at h
    · split at h
      · simp at h
      · rename_i h1 h2
        simp [h1, h2, bytesGot] at h ⊢; omega
    · rename_i h1
      simp [h1, bytesGot] at h ⊢; omega
  | cons a rest ih =>
    simp only [readLoop] at h ⊢
    split at h
    · split at h
      · simp at h
      · split at h
        · rename_i h1 h2 h3
          simp [h1, h2, h3, bytesGot] at h ⊢; omega
        · rename_i h1 h2 h3
          simp only [h1, h2, h3, if_true, if_false, bytesGot]
          have := ih _ h
          omega
    · rename_i h1
      simp [h1, bytesGot] at h ⊢; omega

/-- the guard inside the loop (`bytes_to_read + bytes_read > max_content_length`) is dead code:
    once the declared length passed the check in front of the loop it can never fire -/
theorem readLoop_never_tooLong (cfg : Cfg) (length : Nat) (br : Nat) (stream : List Nat)
    (hmax : length ≤ cfg.maxLen) (h : br ≤ length) :
    (readLoop cfg length br stream).2 ≠ .tooLong := by
  induction stream generalizing br with
  | nil =>
    simp only [readLoop]
    split
    · split
      · omega
      · simp
    · simp
  | cons a rest ih =>
    simp only [readLoop]
    split
    · split
      · omega
      · split
        · simp
        · exact ih _ (by omega)
    · simp

/-- termination is driven by the stream: one `read` per stream element, plus at most one that
    sees the end of the stream -/
theorem readLoop_length (cfg : Cfg) (length : Nat) (br : Nat) (stream : List Nat) :
    (readLoop cfg length br stream).1.length ≤ stream.length + 1 := by
  induction stream generalizing br with
  | nil =>
    simp only [readLoop]
    split
    · split <;> simp
    · simp
  | cons a rest ih =>
    simp only [readLoop]
    split
    · split
      · simp
      · split
        · simp
        · have := ih (br + min (min cfg.blockLen (length - br)) a)
          simp only [List.length_cons]; omega
    · simp



/-! ### readBody -/

theorem readBody_reads (cfg : Cfg) (cl : Option Text) (stream : List Nat) :
    ∀ e ∈ (readBody cfg cl stream).1, okRead cfg e := by
  unfold readBody
  split
  · simp
  · split
    · simp
    · exact readLoop_reads _ _ _ _

/-- whatever the CONTENT_LENGTH says and whatever the stream does, at most `max_content_length`
    bytes are obtained from the input -/
theorem readBody_bounded (cfg : Cfg) (cl : Option Text) (stream : List Nat) :
    bytesGot (readBody cfg cl stream).1 ≤ cfg.maxLen := by
  unfold readBody
  split
  · simp [bytesGot]
  · rename_i len _
    split
    · simp [bytesGot]
    · have := readLoop_within cfg len.toNat 0 stream (Nat.zero_le _)
      omega

/-- ... and never more than the declared length -/
theorem readBody_within_declared (cfg : Cfg) (cl : Option Text) (stream : List Nat) (d : Int)
    (hd : declaredLength cfg cl = some d) :
    bytesGot (readBody cfg cl stream).1 ≤ d.toNat := by
  unfold readBody
  rw [hd]
  simp only
  split
  · simp [bytesGot]
  · have := readLoop_within cfg d.toNat 0 stream (Nat.zero_le _)
    omega

theorem readBody_done (cfg : Cfg) (cl : Option Text) (stream : List Nat) (n : Nat)
    (h : (readBody cfg cl stream).2 = .done n) : n = bytesGot (readBody cfg cl stream).1 := by
  unfold readBody at h ⊢
  split at h
  · simp at h
  · split at h
    · simp at h
    · rename_i h2
      simp only [h2, if_false]
      have := readLoop_done _ _ _ _ _ h
      omega

/-- a declared length above the limit is refused before anything is read -/
theorem readBody_declared_over (cfg : Cfg) (cl : Option Text) (stream : List Nat) (d : Int)
    (hd : declaredLength cfg cl = some d) (h : d > (cfg.maxLen : Int)) :
    readBody cfg cl stream = ([], .tooLong) := by
  unfold readBody
  rw [hd]
  simp [h]

/-- the request-too-long fault can only come from the check in front of the loop -/
theorem readBody_tooLong_iff (cfg : Cfg) (cl : Option Text) (stream : List Nat) :
    (readBody cfg cl stream).2 = .tooLong ↔ ∃ d, declaredLength cfg cl = some d ∧ d > (cfg.maxLen : Int) := by
  unfold readBody
  split
  · rename_i h; simp [h]
  · rename_i len h
    split
    · rename_i h2
      simp only [true_iff]
      exact ⟨len, h, h2⟩
    · rename_i h2
      have := readLoop_never_tooLong cfg len.toNat 0 stream (by omega) (Nat.zero_le _)
      simp only [this, false_iff]
      rintro ⟨d, hd, hgt⟩
      rw [h] at hd
      cases hd
      omega

theorem readBody_length (cfg : Cfg) (cl : Option Text) (stream : List Nat) :
    (readBody cfg cl stream).1.length ≤ stream.length + 1 := by
  unfold readBody
  split
  · simp
  · split
    · simp
    · exact readLoop_length _ _ _ _


/-! ### what `process` hands to `deliver` -/

/-- a response as the property wants it: finalised after the body, bytes only, and a
    Content-Length (when there is one) that is the size of the whole body -/
structure Out.WF (o : Out) : Prop where
  timing : o.timing = .afterBody
  bytes : ∀ c ∈ o.chunks, c.2 = true
  cl : ∀ n, o.cl = some n → n = sum (o.chunks.map (·.1))
  noEscape : o.auxEscapes = false

def Result.WF : Result → Prop
  | .crash _ => False
  | .out o => o.WF ∧ o.closes = .rpc

theorem sum_map_fst_map (l : List Nat) : sum ((l.map (fun n => (n, true))).map (·.1)) = sum l := by
  induction l with
  | nil => rfl
  | cons a t ih => simp [sum] at ih ⊢; exact ih

theorem Good.errMat {F : Facts13} (hF : F.Good) : ∀ k, errMaterialised F k = true := by
  obtain ⟨_, _, _, _, _, _, _, _, _, _, _, h12, h13, _⟩ := id hF
  intro k; cases k
  · rfl
  · exact h12
  · exact h13

/-- with the fault body materialised before it is measured, what is measured is what is sent -/
theorem errBody_eq_measured (F : Facts13) (req : Req) (hm : ∀ k, errMaterialised F k = true) :
    errBody F req = errMeasured req := by
  unfold errBody errMeasured
  cases req.onException with
  | some w => rfl
  | none => simp [hm]

theorem errorOut_wf (F : Facts13) (req : Req) (preset : Option Nat) (fc : FaultClass)
    (h : F.closeTiming = .afterBody) (he : F.errorEventBeforeLength = true)
    (hm : ∀ k, errMaterialised F k = true) :
    (errorOut F req preset fc).WF := by
  refine ⟨⟨h, ?_, ?_, rfl⟩, rfl⟩
  · intro c hc; simp at hc; obtain ⟨a, _, rfl⟩ := hc; rfl
  · intro n hn
    simp only [errLen, he, if_true, Option.some.injEq] at hn
    subst hn
    simp only [errBody_eq_measured F req hm]
    exact (sum_map_fst_map _).symm

theorem successOut_wf (F : Facts13) (cfg : Cfg) (r : Resp)
    (h : F.closeTiming = .afterBody) (hj : F.joinKind = .bytes) : (successOut F cfg r).WF := by
  unfold successOut
  split
  · refine ⟨⟨h, ?_, ?_, rfl⟩, rfl⟩
    · intro c hc; simp at hc; obtain ⟨a, _, rfl⟩ := hc; rfl
    · intro n hn
      simp only at hn
      split at hn
      · cases hn; exact (sum_map_fst_map _).symm
      · cases hn
  · rw [hj]
    refine ⟨⟨h, ?_, ?_, rfl⟩, rfl⟩
    · intro c hc; simp at hc; subst hc; rfl
    · intro n hn; simp at hn; subst hn; simp [sum]

theorem withReturnListener_wf (F : Facts13) (cfg : Cfg) (req : Req) (r : Resp)
    (h : F.closeTiming = .afterBody) (hj : F.joinKind = .bytes) (hr : F.returnEventBeforeLength = true) :
    (withReturnListener F cfg req r).WF := by
  unfold withReturnListener
  split
  · exact successOut_wf _ _ _ h hj
  · simp only [hr, if_true]; exact successOut_wf _ _ _ h hj

/-- a guard that catches everything keeps the auxiliary run from disturbing the answer -/
theorem withAux_wf (req : Req) (runs : Bool) (r : Result) (h : r.WF) : (withAux req runs true r).WF := by
  cases r with
  | crash c => exact h.elim
  | out o =>
    obtain ⟨⟨h1, h2, h3, _⟩, h5⟩ := h
    exact ⟨⟨h1, h2, h3, by simp⟩, h5⟩

theorem respond_wf (F : Facts13) (cfg : Cfg) (req : Req) (r : Resp) (hF : F.Good) :
    (respond F cfg req r).WF := by
  obtain ⟨h1, _, h3, _, _, _, h7, h8, h9, h10, _, _, _, h14⟩ := id hF
  have hm := Good.errMat hF
  have hl : ∀ fc, (lateError F req r fc).WF := by
    intro fc; unfold lateError; rw [h10]; exact withAux_wf _ _ _ (errorOut_wf _ _ _ _ h1 h8 hm)
  unfold respond
  split
  · exact hl _
  · split
    · simp only [joinGuarded, h14, if_true]; exact hl _
    · rw [h9]; exact withAux_wf _ _ _ (withReturnListener_wf _ _ _ _ h1 h3 h7)

theorem afterUser_wf (F : Facts13) (cfg : Cfg) (req : Req) (r : Resp) (hF : F.Good) :
    (afterUser F cfg req r).WF := by
  obtain ⟨h1, _, _, _, h5, _, _, h8, _, h10, _, _, _⟩ := id hF
  have hm := Good.errMat hF
  have hc := respond_wf F cfg req r hF
  unfold afterUser
  simp only [h5, if_true]
  split
  · exact hc
  · exact hc
  · exact hc
  · rw [h10]; exact withAux_wf _ _ _ (errorOut_wf _ _ _ _ h1 h8 hm)

theorem intendedResult_wf (F : Facts13) (cfg : Cfg) (req : Req) (hF : F.Good) :
    (intendedResult F cfg req).2.WF := by
  obtain ⟨h1, _, _, _, _, _, _, h8, _, h10, _, _, _⟩ := id hF
  have hm := Good.errMat hF
  unfold intendedResult
  split
  · exact errorOut_wf _ _ _ _ h1 h8 hm
  · exact errorOut_wf _ _ _ _ h1 h8 hm
  · exact errorOut_wf _ _ _ _ h1 h8 hm
  · exact errorOut_wf _ _ _ _ h1 h8 hm
  · simp only; rw [h10]; exact withAux_wf _ _ _ (errorOut_wf _ _ _ _ h1 h8 hm)
  · exact afterUser_wf _ _ _ _ hF

/-- with the good facts every request is answered: no exception escapes, and the answer is
    finalised after its body -/
theorem process_wf (F : Facts13) (cfg : Cfg) (req : Req) (stream : List Nat) (hF : F.Good) :
    (process F cfg req stream).2.WF := by
  have h1 := hF.1
  obtain ⟨_, _, _, h4, _, h6, _, h8, _, _⟩ := id hF
  have hm := Good.errMat hF
  unfold process
  split
  · exact errorOut_wf _ _ _ _ h1 h8 hm
  · split
    · exact intendedResult_wf _ _ _ hF
    · simp only
      split
      · rw [h4]; exact errorOut_wf _ _ _ _ h1 h8 hm
      · exact errorOut_wf _ _ _ _ h1 h8 hm
      · simp only [h6, Bool.not_true, Bool.and_false, Bool.false_eq_true, if_false]
        split
        · exact errorOut_wf _ _ _ _ h1 h8 hm
        · split
          · exact errorOut_wf _ _ _ _ h1 h8 hm
          · exact intendedResult_wf _ _ _ hF

/-! ### the events in front of the response -/

theorem intendedResult_pre (F : Facts13) (cfg : Cfg) (req : Req) :
    (intendedResult F cfg req).1 = [] ∨ (intendedResult F cfg req).1 = [.user] := by
  unfold intendedResult
  split <;> simp

theorem process_pre (F : Facts13) (cfg : Cfg) (req : Req) (stream : List Nat) :
    ∃ us, (process F cfg req stream).1 =
        (if req.preReject || !req.readsBody then [] else (readBody cfg req.contentLength stream).1) ++ us
      ∧ (us = [] ∨ us = [.user]) := by
  unfold process
  split
  · rename_i h; exact ⟨[], by simp [h], Or.inl rfl⟩
  · rename_i h
    split
    · rename_i h2
      refine ⟨(intendedResult F cfg req).1, by simp [h2], intendedResult_pre _ _ _⟩
    · rename_i h2
      simp only [h, h2, Bool.false_or]
      simp only [Bool.not_eq_true, Bool.not_eq_false'] at h2
      simp only [Bool.false_eq_true, if_false]
      split
      · split
        · exact ⟨[], by simp, Or.inl rfl⟩
        · split <;> exact ⟨[], by simp, Or.inl rfl⟩
      · exact ⟨[], by simp, Or.inl rfl⟩
      · split
        · split <;> exact ⟨[], by simp, Or.inl rfl⟩
        · split
          · exact ⟨[], by simp, Or.inl rfl⟩
          · exact ⟨(intendedResult F cfg req).1, rfl, intendedResult_pre _ _ _⟩


/-! ### handing the body over -/

/-- an event `process` can emit in front of the response -/
def isPre (e : Ev) : Bool := isRead e || isUser e || isHdr e

theorem mem_chunkEvs {cs : List (Nat × Bool)} {e : Ev} (h : e ∈ chunkEvs cs) :
    ∃ n b, e = .chunk n b ∧ (n, b) ∈ cs := by
  simp only [chunkEvs, List.mem_map] at h
  obtain ⟨c, hc, rfl⟩ := h
  exact ⟨c.1, c.2, rfl, hc⟩

theorem countP_chunkEvs (p : Ev → Bool) (hp : ∀ n b, p (.chunk n b) = false) (cs : List (Nat × Bool)) :
    List.countP p (chunkEvs cs) = 0 := by
  rw [List.countP_eq_zero]
  intro e he
  obtain ⟨n, b, rfl, _⟩ := mem_chunkEvs he
  simp [hp]

theorem countP_pre (p : Ev → Bool) (hp : ∀ e, isPre e = true → p e = false) (pre : List Ev)
    (hpre : ∀ e ∈ pre, isPre e = true) : List.countP p pre = 0 := by
  rw [List.countP_eq_zero]
  intro e he
  simp [hp e (hpre e he)]

theorem bodyBytes_chunkEvs (cs : List (Nat × Bool)) : bodyBytes (chunkEvs cs) = sum (cs.map (·.1)) := by
  induction cs with
  | nil => rfl
  | cons c t ih => simp [chunkEvs, bodyBytes, sum] at ih ⊢; omega

theorem bodyBytes_pre (pre : List Ev) (hpre : ∀ e ∈ pre, isPre e = true) : bodyBytes pre = 0 := by
  induction pre with
  | nil => rfl
  | cons e t ih =>
    have he := hpre e (by simp)
    have := ih (fun x hx => hpre x (by simp [hx]))
    cases e <;> simp_all [bodyBytes, isPre, isRead, isUser, isHdr]

theorem bodyBytes_finalOnce (o : Out) : bodyBytes (finalOnce o) = 0 := by
  unfold finalOnce; cases o.closes <;> cases o.onClose <;> rfl

theorem sum_take_le (l : List Nat) (k : Nat) : sum (l.take k) ≤ sum l := by
  induction l generalizing k with
  | nil => simp [sum]
  | cons a t ih =>
    cases k with
    | zero => simp [sum]
    | succ k => have := ih k; simp [sum] at this ⊢; omega

theorem taken_sizes_le (abort : Option Nat) (cs : List (Nat × Bool)) :
    sum ((taken abort cs).map (·.1)) ≤ sum (cs.map (·.1)) := by
  cases abort with
  | none => exact Nat.le_refl _
  | some k => simp only [taken, List.map_take]; exact sum_take_le _ _

theorem taken_sub (abort : Option Nat) (cs : List (Nat × Bool)) : ∀ c ∈ taken abort cs, c ∈ cs := by
  cases abort with
  | none => exact fun _ h => h
  | some k => exact fun _ h => List.mem_of_mem_take h

theorem taken_length_le (k : Nat) (cs : List (Nat × Bool)) : (taken (some k) cs).length ≤ k := by
  simp [taken]; omega

theorem mem_auxEvs {o : Out} {e : Ev} (h : e ∈ auxEvs o) : e = .aux := by
  unfold auxEvs at h; split at h <;> simp at h; exact h

theorem countP_auxEvs (p : Ev → Bool) (hp : p .aux = false) (o : Out) : List.countP p (auxEvs o) = 0 := by
  rw [List.countP_eq_zero]; intro e he; rw [mem_auxEvs he]; simp [hp]

theorem bodyBytes_auxEvs (o : Out) : bodyBytes (auxEvs o) = 0 := by
  unfold auxEvs; split <;> rfl

theorem deliver_after (o : Out) (abort : Option Nat) (h : o.timing = .afterBody) (he : o.auxEscapes = false)
    (ho : o.refinalizes = false) :
    deliver o abort =
      .startResponse o.status o.fault o.cl ::
        (auxEvs o ++ .returned :: (chunkEvs (taken abort o.chunks) ++ finalOnce o)) := by
  simp [deliver, h, he, finalEvs, ho]

/-- the shape every answered request has when the facts are good -/
structure Answered (tr : List Ev) (abort : Option Nat) (pre : List Ev) (o : Out) : Prop where
  eq : tr = pre ++ deliver o abort
  pre : ∀ e ∈ pre, isPre e = true
  timing : o.timing = .afterBody
  cl : ∀ n, o.cl = some n → n = sum (o.chunks.map (·.1))
  noEscape : o.auxEscapes = false
  once : o.refinalizes = false

theorem Answered.start_once {tr abort pre o} (h : Answered tr abort pre o) :
    List.countP isStart tr = 1 := by
  rw [h.eq, deliver_after _ _ h.timing h.noEscape h.once, List.countP_append,
    countP_pre isStart (by intro e; cases e <;> simp [isPre, isRead, isUser, isHdr, isStart]) pre h.pre]
  simp only [List.countP_cons, List.countP_append, isStart,
    countP_chunkEvs isStart (by intros; rfl), countP_auxEvs isStart rfl]
  unfold finalOnce; cases o.closes <;> cases o.onClose <;> simp [rpcFinal, wsdlFinal, isStart]

theorem Answered.start_before_chunks {tr abort pre o} (h : Answered tr abort pre o) :
    noneBefore isChunk isStart tr = true := by
  rw [h.eq, deliver_after _ _ h.timing h.noEscape h.once, noneBefore_append_pre]
  · simp [noneBefore, isStart]
  · intro e he
    have := h.pre e he
    cases e <;> simp_all [isPre, isRead, isUser, isHdr, isChunk, isStart]

theorem mem_finalOnce {o : Out} {e : Ev} (h : e ∈ finalOnce o) :
    e = .ctxClosed ∨ e = .wsgiClose ∨ e = .lraise := by
  cases hc : o.closes <;> cases hl : o.onClose <;> simp [finalOnce, rpcFinal, wsdlFinal, hc, hl] at h <;>
    first
      | (rcases h with rfl | rfl | rfl <;> simp)
      | (rcases h with rfl | rfl <;> simp)
      | (subst h; simp)

theorem mem_finalAgain {o : Out} {e : Ev} (h : e ∈ finalAgain o) : e = .ctxClosed ∨ e = .wsgiClose := by
  cases hc : o.closes <;> simp [finalAgain, hc] at h
  · exact h
  · exact Or.inl h

theorem Answered.no_crash {tr abort pre o} (h : Answered tr abort pre o) :
    ∀ e ∈ tr, isCrash e = false := by
  intro e he
  rw [h.eq, deliver_after _ _ h.timing h.noEscape h.once] at he
  simp only [List.mem_append, List.mem_cons] at he
  rcases he with he | rfl | he | rfl | he | he
  · have := h.pre e he
    cases e <;> simp_all [isPre, isRead, isUser, isHdr, isCrash]
  · rfl
  · rw [mem_auxEvs he]; rfl
  · rfl
  · obtain ⟨n, b, rfl, _⟩ := mem_chunkEvs he; rfl
  · rcases mem_finalOnce he with rfl | rfl | rfl <;> rfl

theorem Answered.content_length {tr abort pre o} (h : Answered tr abort pre o) (s : Nat)
    (f : Option FaultClass) (n : Nat) (hm : Ev.startResponse s f (some n) ∈ tr) :
    bodyBytes tr ≤ n ∧ (abort = none → bodyBytes tr = n) := by
  have hcl : o.cl = some n := by
    rw [h.eq, deliver_after _ _ h.timing h.noEscape h.once] at hm
    simp only [List.mem_append, List.mem_cons] at hm
    rcases hm with hm | hm | hm | hm | hm | hm
    · have := h.pre _ hm; simp [isPre, isRead, isUser, isHdr] at this
    · injection hm with _ _ h3; exact h3.symm
    · cases mem_auxEvs hm
    · cases hm
    · obtain ⟨_, _, h1, _⟩ := mem_chunkEvs hm; cases h1
    · rcases mem_finalOnce hm with h1 | h1 | h1 <;> cases h1
  have hn := h.cl n hcl
  have hb : bodyBytes tr = sum ((taken abort o.chunks).map (·.1)) := by
    rw [h.eq, deliver_after _ _ h.timing h.noEscape h.once, bodyBytes_append, bodyBytes_pre _ h.pre]
    simp only [bodyBytes, bodyBytes_append, bodyBytes_chunkEvs, bodyBytes_finalOnce, bodyBytes_auxEvs]
    omega
  constructor
  · rw [hb, hn]; exact taken_sizes_le _ _
  · intro ha; rw [hb, hn, ha]; rfl

theorem Answered.start_of {tr abort pre o} (h : Answered tr abort pre o) (s : Nat)
    (f : Option FaultClass) (c : Option Nat) (hm : Ev.startResponse s f c ∈ tr) : s = o.status := by
  rw [h.eq, deliver_after _ _ h.timing h.noEscape h.once] at hm
  simp only [List.mem_append, List.mem_cons] at hm
  rcases hm with hm | hm | hm | hm | hm | hm
  · have := h.pre _ hm; simp [isPre, isRead, isUser, isHdr] at this
  · injection hm with h1 _ _
  · cases mem_auxEvs hm
  · cases hm
  · obtain ⟨_, _, h1, _⟩ := mem_chunkEvs hm; cases h1
  · rcases mem_finalOnce hm with h1 | h1 | h1 <;> cases h1

theorem Answered.chunks_of {tr abort pre o} (h : Answered tr abort pre o) (n : Nat) (b : Bool)
    (hm : Ev.chunk n b ∈ tr) : (n, b) ∈ o.chunks := by
  rw [h.eq, deliver_after _ _ h.timing h.noEscape h.once] at hm
  simp only [List.mem_append, List.mem_cons] at hm
  rcases hm with hm | hm | hm | hm | hm | hm
  · have := h.pre _ hm; simp [isPre, isRead, isUser, isHdr] at this
  · cases hm
  · cases mem_auxEvs hm
  · cases hm
  · obtain ⟨n', b', h1, h2⟩ := mem_chunkEvs hm
    cases h1
    exact taken_sub _ _ _ h2
  · rcases mem_finalOnce hm with h1 | h1 | h1 <;> cases h1

theorem Answered.abort_respected {tr pre o} (k : Nat) (h : Answered tr (some k) pre o) :
    List.countP isChunk tr ≤ k := by
  rw [h.eq, deliver_after _ _ h.timing h.noEscape h.once, List.countP_append,
    countP_pre isChunk (by intro e; cases e <;> simp [isPre, isRead, isUser, isHdr, isChunk]) pre h.pre]
  simp only [List.countP_cons, List.countP_append, isChunk, countP_auxEvs isChunk rfl]
  have h1 : List.countP isChunk (chunkEvs (taken (some k) o.chunks)) ≤ k :=
    Nat.le_trans (List.countP_le_length) (by simpa [chunkEvs] using taken_length_le k o.chunks)
  have h2 : List.countP isChunk (finalOnce o) = 0 := by unfold finalOnce; cases o.closes <;> cases o.onClose <;> rfl
  simp at h1 ⊢
  omega

theorem Answered.closed_once {tr abort pre o} (h : Answered tr abort pre o) (hc : o.closes ≠ .never) :
    List.countP isClosed tr = 1 ∧ noneAfter isChunk isClosed tr = true ∧
    noneBefore isClosed isReturned tr = true := by
  have haux : ∀ e ∈ auxEvs o, isClosed e = false ∧ isReturned e = false := by
    intro e he; rw [mem_auxEvs he]; exact ⟨rfl, rfl⟩
  rw [h.eq, deliver_after _ _ h.timing h.noEscape h.once]
  refine ⟨?_, ?_, ?_⟩
  · rw [List.countP_append,
      countP_pre isClosed (by intro e; cases e <;> simp [isPre, isRead, isUser, isHdr, isClosed]) pre h.pre]
    simp only [List.countP_cons, List.countP_append, isClosed,
      countP_chunkEvs isClosed (by intros; rfl), countP_auxEvs isClosed rfl]
    cases hcl : o.closes with
    | rpc => cases hl : o.onClose <;> simp [finalOnce, rpcFinal, wsdlFinal, hcl, hl, isClosed, List.countP_cons]
    | wsdl => cases hl : o.onClose <;> simp [finalOnce, rpcFinal, wsdlFinal, hcl, hl, isClosed, List.countP_cons]
    | never => exact absurd hcl hc
  · rw [noneAfter_append_pre]
    · simp only [noneAfter, isClosed, Bool.false_eq_true, if_false]
      rw [noneAfter_append_pre _ _ _ _ (fun e he => (haux e he).1)]
      simp only [noneAfter, isClosed, Bool.false_eq_true, if_false]
      rw [noneAfter_append_pre]
      · cases hcl : o.closes <;> cases hl : o.onClose <;> simp_all [finalOnce, rpcFinal, wsdlFinal, noneAfter, isClosed, isChunk]
      · intro e he; obtain ⟨n, b, rfl, _⟩ := mem_chunkEvs he; rfl
    · intro e he
      have := h.pre e he
      cases e <;> simp_all [isPre, isRead, isUser, isHdr, isClosed]
  · rw [noneBefore_append_pre]
    · simp only [noneBefore, isReturned, isClosed, Bool.false_eq_true, if_false, Bool.not_false, Bool.true_and]
      rw [noneBefore_append_pre _ _ _ _ (fun e he => haux e he)]
      simp [noneBefore, isReturned]
    · intro e he
      have := h.pre e he
      cases e <;> simp_all [isPre, isRead, isUser, isHdr, isClosed, isReturned]

/-- `wsgi_close` fires once, after the body — unless a `method_context_closed` listener raised, which
    cuts the finalizer short before it gets there -/
theorem Answered.wsgi_close_once {tr abort pre o} (h : Answered tr abort pre o) (hc : o.closes = .rpc) :
    List.countP isWsgiClose tr = (if o.onClose = .ctxClosedRaises then 0 else 1) ∧
    noneAfter isChunk isWsgiClose tr = true := by
  rw [h.eq, deliver_after _ _ h.timing h.noEscape h.once]
  refine ⟨?_, ?_⟩
  · rw [List.countP_append,
      countP_pre isWsgiClose (by intro e; cases e <;> simp [isPre, isRead, isUser, isHdr, isWsgiClose]) pre h.pre]
    cases hl : o.onClose <;>
      simp [List.countP_cons, List.countP_append, isWsgiClose,
        countP_chunkEvs isWsgiClose (by intros; rfl), countP_auxEvs isWsgiClose rfl, hc, hl, finalOnce, rpcFinal, wsdlFinal]
  · rw [noneAfter_append_pre]
    · simp only [noneAfter, isWsgiClose, Bool.false_eq_true, if_false]
      rw [noneAfter_append_pre _ _ _ _ (fun e he => by rw [mem_auxEvs he]; rfl)]
      simp only [noneAfter, isWsgiClose, Bool.false_eq_true, if_false]
      rw [noneAfter_append_pre]
      · cases hl : o.onClose <;> simp [hc, hl, finalOnce, rpcFinal, wsdlFinal, noneAfter, isWsgiClose, isChunk]
      · intro e he; obtain ⟨n, b, rfl, _⟩ := mem_chunkEvs he; rfl
    · intro e he
      have := h.pre e he
      cases e <;> simp_all [isPre, isRead, isUser, isHdr, isWsgiClose]

/-- a listener's exception reaches the server at most once, and only after the context was closed -/
theorem Answered.lraise_once {tr abort pre o} (h : Answered tr abort pre o) :
    List.countP isLraise tr ≤ 1 ∧ noneBefore isLraise isClosed tr = true := by
  rw [h.eq, deliver_after _ _ h.timing h.noEscape h.once]
  have hpre : ∀ e ∈ pre, isLraise e = false ∧ isClosed e = false := by
    intro e he
    have := h.pre e he
    cases e <;> simp_all [isPre, isRead, isUser, isHdr, isLraise, isClosed]
  refine ⟨?_, ?_⟩
  · rw [List.countP_append, List.countP_eq_zero.2 (fun e he => by simp [(hpre e he).1])]
    simp only [List.countP_cons, List.countP_append, isLraise, countP_chunkEvs isLraise (by intros; rfl),
      countP_auxEvs isLraise rfl]
    unfold finalOnce
    cases o.closes <;> cases o.onClose <;> simp [rpcFinal, wsdlFinal, isLraise]
  · rw [noneBefore_append_pre _ _ _ _ (fun e he => hpre e he)]
    simp only [noneBefore, isLraise, isClosed, Bool.false_eq_true, if_false, Bool.not_false, Bool.true_and]
    rw [noneBefore_append_pre _ _ _ _ (fun e he => by rw [mem_auxEvs he]; exact ⟨rfl, rfl⟩)]
    simp only [noneBefore, isLraise, isClosed, Bool.false_eq_true, if_false, Bool.not_false, Bool.true_and]
    rw [noneBefore_append_pre _ _ _ _ (fun e he => by obtain ⟨n, b, rfl, _⟩ := mem_chunkEvs he; exact ⟨rfl, rfl⟩)]
    unfold finalOnce
    cases o.closes <;> cases o.onClose <;> simp [rpcFinal, wsdlFinal, noneBefore, isLraise, isClosed]

/-- the auxiliary method runs after `start_response` and before the hand-over, at most once -/
theorem Answered.aux_between {tr abort pre o} (h : Answered tr abort pre o) :
    List.countP isAux tr ≤ 1 ∧ noneBefore isAux isStart tr = true ∧ noneAfter isAux isReturned tr = true := by
  rw [h.eq, deliver_after _ _ h.timing h.noEscape h.once]
  have hpre : ∀ e ∈ pre, isAux e = false ∧ isStart e = false ∧ isReturned e = false := by
    intro e he
    have := h.pre e he
    cases e <;> simp_all [isPre, isRead, isUser, isHdr, isAux, isStart, isReturned]
  refine ⟨?_, ?_, ?_⟩
  · rw [List.countP_append, List.countP_eq_zero.2 (fun e he => by simp [(hpre e he).1])]
    simp only [List.countP_cons, List.countP_append, isAux, countP_chunkEvs isAux (by intros; rfl)]
    have h2 : List.countP isAux (finalOnce o) = 0 := by unfold finalOnce; cases o.closes <;> cases o.onClose <;> rfl
    have h3 : List.countP isAux (auxEvs o) ≤ 1 := by unfold auxEvs; split <;> simp [isAux]
    simp only [h2]; simp; omega
  · rw [noneBefore_append_pre _ _ _ _ (fun e he => ⟨(hpre e he).1, (hpre e he).2.1⟩)]
    simp [noneBefore, isStart]
  · rw [noneAfter_append_pre _ _ _ _ (fun e he => (hpre e he).2.2)]
    simp only [noneAfter, isReturned, Bool.false_eq_true, if_false]
    rw [noneAfter_append_pre _ _ _ _ (fun e he => by rw [mem_auxEvs he]; rfl)]
    simp only [noneAfter, isReturned, if_true]
    simp only [Bool.not_eq_true', List.any_eq_false, List.mem_append]
    intro e he
    rcases he with he | he
    · obtain ⟨n, b, rfl, _⟩ := mem_chunkEvs he; simp [isAux]
    · rcases mem_finalOnce he with rfl | rfl | rfl <;> simp [isAux]


/-! ### from `handle` to the answered shape -/

theorem mem_hdrPairs {F : Facts13} {k : Nat} {v : HVal} {e : Ev} (h : e ∈ hdrPairs F k v) :
    ∃ key b, e = .hdr key b := by
  cases v with
  | str => simp [hdrPairs] at h; exact ⟨_, _, h⟩
  | list n => simp [hdrPairs] at h; exact ⟨_, _, h.2⟩
  | tuple n =>
    simp only [hdrPairs] at h
    split at h
    · simp at h; exact ⟨_, _, h.2⟩
    · simp at h; exact ⟨_, _, h⟩

theorem mem_hdrEvsFrom {F : Facts13} {hs : List HVal} {k : Nat} {e : Ev} (h : e ∈ hdrEvsFrom F k hs) :
    ∃ key b, e = .hdr key b := by
  induction hs generalizing k with
  | nil => simp [hdrEvsFrom] at h
  | cons v t ih =>
    simp only [hdrEvsFrom, List.mem_append] at h
    rcases h with h | h
    · exact mem_hdrPairs h
    · exact ih h

theorem mem_hdrEvs {F : Facts13} {req : Req} {p : List Ev × Result} {e : Ev} (h : e ∈ hdrEvs F req p) :
    ∃ key b, e = .hdr key b := by
  unfold hdrEvs at h
  split at h
  · simp at h
  · split at h
    · exact mem_hdrEvsFrom h
    · simp at h

theorem bytesGot_hdrs (l : List Ev) (h : ∀ e ∈ l, ∃ key b, e = Ev.hdr key b) : bytesGot l = 0 := by
  induction l with
  | nil => rfl
  | cons e t ih =>
    obtain ⟨k, b, rfl⟩ := h e (by simp)
    simpa [bytesGot] using ih (fun x hx => h x (by simp [hx]))

theorem bytesGot_hdrEvs (F : Facts13) (req : Req) (p : List Ev × Result) : bytesGot (hdrEvs F req p) = 0 :=
  bytesGot_hdrs _ (fun _ he => mem_hdrEvs he)

theorem pre_of_hdrEvs (F : Facts13) (req : Req) (p : List Ev × Result) :
    ∀ e ∈ hdrEvs F req p, isPre e = true := by
  intro e he; obtain ⟨k, b, rfl⟩ := mem_hdrEvs he; rfl

theorem pre_of_process (F : Facts13) (cfg : Cfg) (req : Req) (stream : List Nat) :
    ∀ e ∈ (process F cfg req stream).1, isPre e = true := by
  obtain ⟨us, heq, hus⟩ := process_pre F cfg req stream
  rw [heq]
  intro e he
  simp only [List.mem_append] at he
  rcases he with he | he
  · split at he
    · simp at he
    · have := readBody_reads cfg req.contentLength stream e he
      cases e <;> simp_all [okRead, isPre, isRead]
  · rcases hus with rfl | rfl
    · simp at he
    · simp at he; subst he; rfl

theorem wsdlOut_timing (F : Facts13) (k : WsdlKind) : (wsdlOut F k).timing = F.wsdlCloseTiming := by
  cases k <;> rfl

theorem wsdlOut_cl (F : Facts13) (k : WsdlKind) (n : Nat) (h : (wsdlOut F k).cl = some n) :
    n = sum ((wsdlOut F k).chunks.map (·.1)) := by
  cases k <;> simp [wsdlOut] at h ⊢
  subst h; simp [sum]

/-- with the good facts, every request ends in an answer of the shape `Answered` -/
theorem handle_answered (F : Facts13) (cfg : Cfg) (req : Req) (stream : List Nat) (abort : Option Nat)
    (hF : F.Good) :
    ∃ pre o, Answered (handle F cfg req stream abort) abort pre o ∧ o.onClose = req.closeListener ∧
      (req.wsdl = none → pre = (process F cfg req stream).1 ++ hdrEvs F req (process F cfg req stream) ∧
        (∃ o', (process F cfg req stream).2 = .out o' ∧ o = atServer F req o') ∧
        o.closes = .rpc ∧ ∀ c ∈ o.chunks, c.2 = true) ∧
      (∀ k, req.wsdl = some k → pre = [] ∧ o = atServer F req (wsdlOut F k)) := by
  have hfin : F.finalizeClearedFirst = true := hF.2.2.2.2.2.2.2.2.2.2.1
  cases hw : req.wsdl with
  | some k =>
    refine ⟨[], atServer F req (wsdlOut F k), ⟨?_, ?_, ?_, ?_, ?_, ?_⟩, rfl, ?_, ?_⟩
    · simp [handle, hw]
    · simp
    · show (wsdlOut F k).timing = _; rw [wsdlOut_timing]; exact hF.2.1
    · exact wsdlOut_cl F k
    · cases k <;> rfl
    · simp [atServer, hfin]
    · intro h; cases h
    · intro k' h; cases h; exact ⟨rfl, rfl⟩
  | none =>
    have hwf := process_wf F cfg req stream hF
    cases hr : (process F cfg req stream).2 with
    | crash c => rw [hr] at hwf; exact hwf.elim
    | out o =>
      rw [hr] at hwf
      refine ⟨(process F cfg req stream).1 ++ hdrEvs F req (process F cfg req stream), atServer F req o,
        ⟨?_, ?_, hwf.1.timing, hwf.1.cl, hwf.1.noEscape, ?_⟩, rfl, ?_, ?_⟩
      · simp [handle, hw, hr, finish, Result.atServer]
      · intro e he
        rcases List.mem_append.1 he with he | he
        · exact pre_of_process _ _ _ _ e he
        · exact pre_of_hdrEvs _ _ _ e he
      · simp [atServer, hfin]
      · intro _; exact ⟨rfl, ⟨o, rfl, rfl⟩, hwf.2, hwf.1.bytes⟩
      · intro k h; cases h

/-! ### statements that need no fact at all -/

theorem mem_finalEvs {o : Out} {abort : Option Nat} {e : Ev} (h : e ∈ finalEvs o abort) :
    e = .ctxClosed ∨ e = .wsgiClose ∨ e = .lraise := by
  unfold finalEvs at h
  rcases List.mem_append.1 h with h | h
  · exact mem_finalOnce h
  · split at h
    · rcases mem_finalAgain h with h | h
      · exact Or.inl h
      · exact Or.inr (Or.inl h)
    · simp at h

theorem mem_deliver {o : Out} {abort : Option Nat} {e : Ev} (h : e ∈ deliver o abort) :
    (∃ s f c, e = .startResponse s f c) ∨ e = .aux ∨ e = .returned ∨ (∃ n b, e = .chunk n b) ∨
    e = .ctxClosed ∨ e = .wsgiClose ∨ e = .lraise ∨ (∃ c, e = .crash c) := by
  have hch : ∀ e ∈ chunkEvs (taken abort o.chunks), ∃ n b, e = Ev.chunk n b := by
    intro e he; obtain ⟨n, b, rfl, _⟩ := mem_chunkEvs he; exact ⟨n, b, rfl⟩
  have hfin : ∀ e, (e = Ev.ctxClosed ∨ e = .wsgiClose ∨ e = .lraise) →
      ((∃ s f c, e = Ev.startResponse s f c) ∨ e = .aux ∨ e = .returned ∨ (∃ n b, e = .chunk n b) ∨
        e = .ctxClosed ∨ e = .wsgiClose ∨ e = .lraise ∨ (∃ c, e = .crash c)) := by
    intro e he
    rcases he with he | he | he
    · exact Or.inr (Or.inr (Or.inr (Or.inr (Or.inl he))))
    · exact Or.inr (Or.inr (Or.inr (Or.inr (Or.inr (Or.inl he)))))
    · exact Or.inr (Or.inr (Or.inr (Or.inr (Or.inr (Or.inr (Or.inl he))))))
  unfold deliver at h
  split at h
  · simp only [List.mem_cons, List.mem_append] at h
    rcases h with rfl | h | h | h
    · exact Or.inl ⟨_, _, _, rfl⟩
    · exact Or.inr (Or.inl (mem_auxEvs h))
    · exact Or.inr (Or.inr (Or.inr (Or.inr (Or.inr (Or.inr (Or.inr ⟨_, h⟩))))))
    · cases h
  · split at h <;> simp only [List.mem_cons, List.mem_append] at h
    · rcases h with rfl | h | rfl | h | h
      · exact Or.inl ⟨_, _, _, rfl⟩
      · exact Or.inr (Or.inl (mem_auxEvs h))
      · exact Or.inr (Or.inr (Or.inl rfl))
      · exact Or.inr (Or.inr (Or.inr (Or.inl (hch e h))))
      · exact hfin e (mem_finalEvs h)
    · rcases h with rfl | h | h | rfl | h
      · exact Or.inl ⟨_, _, _, rfl⟩
      · exact Or.inr (Or.inl (mem_auxEvs h))
      · rcases mem_finalAgain h with h | h
        · exact hfin e (Or.inl h)
        · exact hfin e (Or.inr (Or.inl h))
      · exact Or.inr (Or.inr (Or.inl rfl))
      · exact Or.inr (Or.inr (Or.inr (Or.inl (hch e h))))

theorem isRead_deliver (o : Out) (abort : Option Nat) :
    ∀ e ∈ deliver o abort, isRead e = false ∧ isUser e = false ∧ isHdr e = false := by
  intro e he
  rcases mem_deliver he with ⟨_, _, _, rfl⟩ | rfl | rfl | ⟨_, _, rfl⟩ | rfl | rfl | rfl | ⟨_, rfl⟩ <;>
    exact ⟨rfl, rfl, rfl⟩

theorem bytesGot_noread (l : List Ev) (h : ∀ e ∈ l, isRead e = false) : bytesGot l = 0 := by
  induction l with
  | nil => rfl
  | cons e t ih =>
    have he := h e (by simp)
    have := ih (fun x hx => h x (by simp [hx]))
    cases e <;> simp_all [bytesGot, isRead]

theorem bytesGot_deliver (o : Out) (abort : Option Nat) : bytesGot (deliver o abort) = 0 :=
  bytesGot_noread _ (fun e he => (isRead_deliver o abort e he).1)

theorem bytesGot_finish (r : Result) (abort : Option Nat) : bytesGot (finish r abort) = 0 := by
  cases r with
  | crash c => rfl
  | out o => exact bytesGot_deliver o abort

theorem bytesGot_users (us : List Ev) (h : us = [] ∨ us = [.user]) : bytesGot us = 0 := by
  rcases h with rfl | rfl <;> rfl

theorem isRead_finish (r : Result) (abort : Option Nat) : ∀ e ∈ finish r abort, isRead e = false ∧ isUser e = false := by
  cases r with
  | crash c => intro e he; simp [finish] at he; subst he; exact ⟨rfl, rfl⟩
  | out o => exact fun e he => ⟨(isRead_deliver o abort e he).1, (isRead_deliver o abort e he).2.1⟩

/-- an rpc request's trace: what `process` emits, the user-set headers, the answer -/
theorem handle_rpc_eq (F : Facts13) (cfg : Cfg) (req : Req) (stream : List Nat) (abort : Option Nat)
    (hw : req.wsdl = none) :
    handle F cfg req stream abort =
      (process F cfg req stream).1 ++
        (hdrEvs F req (process F cfg req stream) ++
          finish ((process F cfg req stream).2.atServer F req) abort) := by
  simp [handle, hw]

/-- neither the header pairs nor the answer contain a `read` or the user function -/
theorem tail_noread (F : Facts13) (req : Req) (p : List Ev × Result) (abort : Option Nat) :
    ∀ e ∈ hdrEvs F req p ++ finish (p.2.atServer F req) abort, isRead e = false ∧ isUser e = false := by
  intro e he
  rcases List.mem_append.1 he with he | he
  · obtain ⟨k, b, rfl⟩ := mem_hdrEvs he; exact ⟨rfl, rfl⟩
  · exact isRead_finish _ _ e he

theorem bytesGot_tail (F : Facts13) (req : Req) (p : List Ev × Result) (abort : Option Nat) :
    bytesGot (hdrEvs F req p ++ finish (p.2.atServer F req) abort) = 0 :=
  bytesGot_noread _ (fun e he => (tail_noread F req p abort e he).1)

/-- the bytes a request obtains from `wsgi.input` are those of its body reader -/
theorem bytesGot_handle (F : Facts13) (cfg : Cfg) (req : Req) (stream : List Nat) (abort : Option Nat) :
    bytesGot (handle F cfg req stream abort) = 0 ∨
    bytesGot (handle F cfg req stream abort) = bytesGot (readBody cfg req.contentLength stream).1 := by
  cases hw : req.wsdl with
  | some k => left; simp only [handle, hw]; exact bytesGot_deliver _ _
  | none =>
    obtain ⟨us, heq, hus⟩ := process_pre F cfg req stream
    rw [handle_rpc_eq _ _ _ _ _ hw, bytesGot_append, bytesGot_tail, heq, bytesGot_append, bytesGot_users us hus]
    split
    · left; rfl
    · right; omega

/-- for a request whose protocol reads the body, the bytes obtained are exactly those of the reader -/
theorem bytesGot_handle_reads (F : Facts13) (cfg : Cfg) (req : Req) (stream : List Nat) (abort : Option Nat)
    (hw : req.wsdl = none) (hp : req.preReject = false) (hb : req.readsBody = true) :
    bytesGot (handle F cfg req stream abort) = bytesGot (readBody cfg req.contentLength stream).1 := by
  obtain ⟨us, heq, hus⟩ := process_pre F cfg req stream
  rw [handle_rpc_eq _ _ _ _ _ hw, bytesGot_append, bytesGot_tail, heq, bytesGot_append, bytesGot_users us hus]
  simp [hp, hb]

/-! ### user code, the size limit -/

theorem intendedResult_user (F : Facts13) (cfg : Cfg) (req : Req)
    (h : Ev.user ∈ (intendedResult F cfg req).1) :
    (∃ fc p, req.intended = .userFault fc p) ∨ (∃ r, req.intended = .success r) := by
  unfold intendedResult at h
  split at h <;> simp at h
  · rename_i fc p hi; exact Or.inl ⟨fc, p, hi⟩
  · rename_i r hi; exact Or.inr ⟨r, hi⟩

/-- the user function is entered only for a request whose document calls it and, when the
    protocol reads a body, only after the complete document has arrived -/
theorem process_user (F : Facts13) (cfg : Cfg) (req : Req) (stream : List Nat)
    (h : Ev.user ∈ (process F cfg req stream).1) :
    ((∃ fc p, req.intended = .userFault fc p) ∨ (∃ r, req.intended = .success r)) ∧
    req.preReject = false ∧
    (req.readsBody = true →
      0 < bytesGot (readBody cfg req.contentLength stream).1 ∧
      req.docLen ≤ bytesGot (readBody cfg req.contentLength stream).1 ∧
      ∀ d, declaredLength cfg req.contentLength = some d → d ≤ (cfg.maxLen : Int)) := by
  have hnr : ∀ e ∈ (readBody cfg req.contentLength stream).1, e ≠ Ev.user := by
    intro e he hu
    have := readBody_reads cfg req.contentLength stream e he
    subst hu; exact this
  unfold process at h
  split at h
  · simp at h
  · rename_i hp
    simp only [Bool.not_eq_true] at hp
    split at h
    · rename_i hb
      refine ⟨intendedResult_user F cfg req h, hp, ?_⟩
      intro hb'; simp [hb'] at hb
    · simp only at h
      split at h
      · split at h
        · exact absurd rfl (hnr _ h)
        · split at h <;> exact absurd rfl (hnr _ h)
      · exact absurd rfl (hnr _ h)
      · rename_i n hn
        have hdone := readBody_done _ _ _ _ hn
        split at h
        · split at h <;> exact absurd rfl (hnr _ h)
        · split at h
          · exact absurd rfl (hnr _ h)
          · rename_i h0 hdoc
            simp only [List.mem_append] at h
            rcases h with h | h
            · exact absurd rfl (hnr _ h)
            · refine ⟨intendedResult_user F cfg req h, hp, fun _ => ⟨by omega, by omega, ?_⟩⟩
              intro d hd
              by_cases hgt : d > (cfg.maxLen : Int)
              · have := readBody_declared_over cfg req.contentLength stream d hd hgt
                rw [this] at hn; cases hn
              · omega

theorem countP_user_process (F : Facts13) (cfg : Cfg) (req : Req) (stream : List Nat) :
    List.countP isUser (process F cfg req stream).1 ≤ 1 := by
  obtain ⟨us, heq, hus⟩ := process_pre F cfg req stream
  rw [heq, List.countP_append]
  have h1 : List.countP isUser (if (req.preReject || !req.readsBody) = true then []
      else (readBody cfg req.contentLength stream).1) = 0 := by
    rw [List.countP_eq_zero]
    intro e he
    split at he
    · simp at he
    · have := readBody_reads cfg req.contentLength stream e he
      cases e <;> simp_all [okRead, isUser]
  rw [h1]
  rcases hus with rfl | rfl <;> decide

/-- a request whose declared length exceeds the limit: nothing is read, the user function is not
    entered, the answer is the request-too-long fault -/
theorem process_declared_over (F : Facts13) (cfg : Cfg) (req : Req) (stream : List Nat) (d : Int)
    (hp : req.preReject = false) (hb : req.readsBody = true)
    (hd : declaredLength cfg req.contentLength = some d) (h : d > (cfg.maxLen : Int)) :
    process F cfg req stream = ([], errorOut F req none .tooLong) := by
  unfold process
  simp [hp, hb, readBody_declared_over cfg req.contentLength stream d hd h]

theorem noneAfter_of_none (p q : Ev → Bool) (l : List Ev) (h : ∀ e ∈ l, p e = false) :
    noneAfter p q l = true := by
  induction l with
  | nil => rfl
  | cons e t ih =>
    have ht : ∀ x ∈ t, p x = false := fun x hx => h x (by simp [hx])
    simp only [noneAfter]
    split
    · simp only [Bool.not_eq_true', List.any_eq_false]
      intro x hx; simp [ht x hx]
    · exact ih ht

/-- every `read` precedes the user function and `start_response` -/
theorem reads_first (F : Facts13) (cfg : Cfg) (req : Req) (stream : List Nat) (abort : Option Nat) :
    noneAfter isRead (fun e => isUser e || isStart e) (handle F cfg req stream abort) = true := by
  cases hw : req.wsdl with
  | some k =>
    simp only [handle, hw]
    exact noneAfter_of_none _ _ _ (fun e he => (isRead_deliver _ _ e he).1)
  | none =>
    obtain ⟨us, heq, hus⟩ := process_pre F cfg req stream
    rw [handle_rpc_eq _ _ _ _ _ hw, heq, List.append_assoc, noneAfter_append_pre]
    · apply noneAfter_of_none
      intro e he
      simp only [List.mem_append] at he
      rcases he with he | he
      · rcases hus with rfl | rfl <;> simp at he; subst he; rfl
      · exact (tail_noread F req _ abort e (List.mem_append.2 he)).1
    · intro e he
      split at he
      · simp at he
      · have := readBody_reads cfg req.contentLength stream e he
        cases e <;> simp_all [okRead, isUser, isStart]

theorem countP_isRead_le (l : List Ev) : List.countP isRead l ≤ l.length := List.countP_le_length

/-- the reader terminates with the stream: one `read` per element, plus at most one at its end -/
theorem reads_le_stream (F : Facts13) (cfg : Cfg) (req : Req) (stream : List Nat) (abort : Option Nat) :
    List.countP isRead (handle F cfg req stream abort) ≤ stream.length + 1 := by
  have hz : ∀ l : List Ev, (∀ e ∈ l, isRead e = false) → List.countP isRead l = 0 := by
    intro l hl; rw [List.countP_eq_zero]; intro e he; simp [hl e he]
  cases hw : req.wsdl with
  | some k =>
    simp only [handle, hw]
    rw [hz _ (fun e he => (isRead_deliver _ _ e he).1)]; omega
  | none =>
    obtain ⟨us, heq, hus⟩ := process_pre F cfg req stream
    rw [handle_rpc_eq _ _ _ _ _ hw, List.countP_append, hz _ (fun e he => (tail_noread F req _ abort e he).1),
      heq, List.countP_append]
    have h2 : List.countP isRead us = 0 := by rcases hus with rfl | rfl <;> rfl
    rw [h2]
    split
    · simp
    · have := readBody_length cfg req.contentLength stream
      have := countP_isRead_le (readBody cfg req.contentLength stream).1
      omega

/-- every `read` asks for at most a block and obtains at most what it asked for -/
theorem reads_ok (F : Facts13) (cfg : Cfg) (req : Req) (stream : List Nat) (abort : Option Nat)
    (a g : Nat) (h : Ev.read a g ∈ handle F cfg req stream abort) : a ≤ cfg.blockLen ∧ g ≤ a := by
  cases hw : req.wsdl with
  | some k =>
    simp only [handle, hw] at h
    exact absurd (isRead_deliver _ _ _ h).1 (by simp [isRead])
  | none =>
    obtain ⟨us, heq, hus⟩ := process_pre F cfg req stream
    rw [handle_rpc_eq _ _ _ _ _ hw, heq] at h
    simp only [List.mem_append] at h
    rcases h with (h | h) | h
    · split at h
      · simp at h
      · exact readBody_reads cfg req.contentLength stream _ h
    · rcases hus with rfl | rfl <;> simp at h
    · exact absurd (tail_noread F req _ abort _ (List.mem_append.2 h)).1 (by simp [isRead])

/-- the auxiliary run leaves status and Content-Length of the answer alone -/
theorem withAux_out {req : Req} {runs g : Bool} {r : Result} {o : Out} (h : withAux req runs g r = .out o) :
    ∃ o', r = .out o' ∧ o.cl = o'.cl ∧ o.status = o'.status := by
  cases r with
  | crash c => cases h
  | out o' => simp only [withAux, Result.out.injEq] at h; subst h; exact ⟨o', rfl, rfl, rfl⟩

/-! ### Content-Length when not chunked -/

theorem errorOut_cl (F : Facts13) (req : Req) (p : Option Nat) (fc : FaultClass) :
    ∃ o, errorOut F req p fc = .out o ∧ o.cl = some (errLen F req) := ⟨_, rfl, rfl⟩

theorem process_unchunked_cl (F : Facts13) (cfg : Cfg) (req : Req) (stream : List Nat) (o : Out)
    (hF : F.Good) (hc : cfg.chunked = false) (ho : (process F cfg req stream).2 = .out o) :
    ∃ n, o.cl = some n := by
  obtain ⟨_, _, h3, h4, h5, h6, h7, _⟩ := id hF
  have hs0 : ∀ r o, successOut F cfg r = .out o → ∃ n, o.cl = some n := by
    intro r o h; simp [successOut, hc, h3] at h; subst h; exact ⟨_, rfl⟩
  have hs : ∀ r o, withReturnListener F cfg req r = .out o → ∃ n, o.cl = some n := by
    intro r o h
    unfold withReturnListener at h
    split at h
    · exact hs0 _ _ h
    · simp only [h7, if_true] at h; exact hs0 _ _ h
  have he : ∀ p fc o, errorOut F req p fc = .out o → ∃ n, o.cl = some n := by
    intro p fc o h; simp [errorOut] at h; subst h; exact ⟨_, rfl⟩
  have hea : ∀ runs g p fc o, withAux req runs g (errorOut F req p fc) = .out o → ∃ n, o.cl = some n := by
    intro runs g p fc o h
    obtain ⟨o', h1, h2, _⟩ := withAux_out h
    obtain ⟨n, hn⟩ := he _ _ _ h1
    exact ⟨n, by rw [h2, hn]⟩
  have hsa : ∀ runs g r o, withAux req runs g (withReturnListener F cfg req r) = .out o → ∃ n, o.cl = some n := by
    intro runs g r o h
    obtain ⟨o', h1, h2, _⟩ := withAux_out h
    obtain ⟨n, hn⟩ := hs _ _ h1
    exact ⟨n, by rw [h2, hn]⟩
  have hr : ∀ r o, respond F cfg req r = .out o → ∃ n, o.cl = some n := by
    intro r o h
    unfold respond lateError at h
    split at h
    · exact hea _ _ _ _ _ h
    · split at h
      · split at h
        · exact hea _ _ _ _ _ h
        · cases h
      · exact hsa _ _ _ _ h
  have ha : ∀ r o, afterUser F cfg req r = .out o → ∃ n, o.cl = some n := by
    intro r o h
    unfold afterUser at h
    simp only [h5, if_true] at h
    split at h
    all_goals first
      | exact hr _ _ h
      | exact hea _ _ _ _ _ h
  have hi : ∀ o, (intendedResult F cfg req).2 = .out o → ∃ n, o.cl = some n := by
    intro o h
    unfold intendedResult at h
    split at h
    all_goals first | exact he _ _ _ h | exact hea _ _ _ _ _ h | exact ha _ _ h
  unfold process at ho
  split at ho
  · exact he _ _ _ ho
  · split at ho
    · exact hi _ ho
    · simp only at ho
      split at ho
      · rw [h4] at ho; exact he _ _ _ ho
      · exact he _ _ _ ho
      · simp only [h6, Bool.not_true, Bool.and_false, Bool.false_eq_true, if_false] at ho
        split at ho
        · exact he _ _ _ ho
        · split at ho
          · exact he _ _ _ ho
          · exact hi _ ho


/-! ### the status given to `start_response` -/

theorem errorOut_status (F : Facts13) (req : Req) (fc : FaultClass) (o : Out)
    (h : errorOut F req none fc = .out o) : StatusSource F req o.status := by
  simp [errorOut] at h; subst h
  simp only [faultStatus]
  split
  · exact Or.inr (Or.inl ⟨fc, rfl⟩)
  · exact Or.inl ⟨fc, rfl⟩

theorem process_status (F : Facts13) (cfg : Cfg) (req : Req) (stream : List Nat) (o : Out)
    (ho : (process F cfg req stream).2 = .out o) : StatusSource F req o.status := by
  have he : ∀ fc o, errorOut F req none fc = .out o → StatusSource F req o.status := errorOut_status F req
  -- a status the user function chose, or the default
  have hp : ∀ (p : Option Nat) (dflt : Nat), (∀ x, p = some x → x ∈ req.presets) →
      StatusSource F req dflt → StatusSource F req (p.getD dflt) := by
    intro p dflt hp hd
    cases p with
    | none => exact hd
    | some x => exact Or.inr (Or.inr (Or.inr (Or.inr (hp x rfl))))
  have hfs : ∀ fc, StatusSource F req (faultStatus F req fc) := by
    intro fc; simp only [faultStatus]; split
    · exact Or.inr (Or.inl ⟨fc, rfl⟩)
    · exact Or.inl ⟨fc, rfl⟩
  have hok : StatusSource F req F.okStatus := Or.inr (Or.inr (Or.inr (Or.inl rfl)))
  have heP : ∀ (p : Option Nat) fc o, (∀ x, p = some x → x ∈ req.presets) → errorOut F req p fc = .out o →
      StatusSource F req o.status := by
    intro p fc o hpp h
    simp only [errorOut, Result.out.injEq] at h; subst h
    exact hp _ _ hpp (hfs fc)
  have hAux : ∀ runs g r o, withAux req runs g r = .out o →
      (∀ o', r = .out o' → StatusSource F req o'.status) → StatusSource F req o.status := by
    intro runs g r o h hr
    obtain ⟨o', h1, _, h3⟩ := withAux_out h
    rw [h3]; exact hr o' h1
  have hi : ∀ o, (intendedResult F cfg req).2 = .out o → StatusSource F req o.status := by
    intro o h
    unfold intendedResult at h
    split at h
    · exact he _ _ h
    · exact he _ _ h
    · exact he _ _ h
    · exact he _ _ h
    · rename_i fc preset hint
      exact hAux _ _ _ _ h (fun o' h' => heP _ _ _ (by intro x hx; subst hx; simp [Req.presets, hint]) h')
    · rename_i r hint
      have hpr : ∀ x, r.preset = some x → x ∈ req.presets := by
        intro x hx; simp [Req.presets, hint, hx]
      have hs0 : ∀ (r' : Resp) o, (∀ x, r'.preset = some x → x ∈ req.presets) →
          successOut F cfg r' = .out o → StatusSource F req o.status := by
        intro r' o hpr' h
        unfold successOut at h
        split at h
        · simp at h; subst h; exact hp _ _ hpr' hok
        · split at h
          · simp at h; subst h; exact hp _ _ hpr' hok
          · split at h
            · simp at h; subst h; exact hp _ _ hpr' hok
            · cases h
      have hs : ∀ o, withReturnListener F cfg req r = .out o → StatusSource F req o.status := by
        intro o h
        unfold withReturnListener at h
        cases hr : req.onReturn with
        | none => rw [hr] at h; exact hs0 r o hpr h
        | some w =>
          rw [hr] at h
          simp only at h
          cases hb : F.returnEventBeforeLength with
          | true =>
            rw [hb] at h; simp only [if_true] at h
            exact hs0 { r with chunks := w.chunks, sized := w.sized } o hpr h
          | false =>
            rw [hb] at h
            simp only [Bool.false_eq_true, if_false] at h
            cases ho' : successOut F cfg r with
            | crash c => rw [ho'] at h; cases h
            | out o' =>
              rw [ho'] at h
              simp only [Result.out.injEq] at h; subst h
              exact hs0 r o' hpr ho'
      have hle : ∀ fc o, lateError F req r fc = .out o → StatusSource F req o.status := by
        intro fc o h
        unfold lateError at h
        refine hAux _ _ _ _ h (fun o' h' => ?_)
        simp only [errorOut, Result.out.injEq] at h'; subst h'
        cases hk : F.lateErrorKeepsOkStatus
        · simp only [Bool.false_eq_true, if_false, Option.getD_none]; exact hfs _
        · simp only [if_true, Option.getD_some]; exact hp _ _ hpr hok
      have hc : ∀ o, respond F cfg req r = .out o → StatusSource F req o.status := by
        intro o h
        unfold respond at h
        split at h
        · exact hle _ _ h
        · split at h
          · split at h
            · exact hle _ _ h
            · cases h
          · exact hAux _ _ _ _ h (fun o' h' => hs _ h')
      unfold afterUser at h
      simp only at h
      split at h
      · exact hc _ h
      · exact hc _ h
      · split at h
        · exact hc _ h
        · cases h
      · split at h
        · exact hAux _ _ _ _ h (fun o' h' => heP _ _ _ hpr h')
        · cases h
  unfold process at ho
  split at ho
  · simp [errorOut] at ho; subst ho; exact Or.inr (Or.inr (Or.inl rfl))
  · split at ho
    · exact hi _ ho
    · simp only at ho
      split at ho
      · split at ho
        · exact he _ _ ho
        · split at ho
          · cases ho
          · exact he _ _ ho
      · exact he _ _ ho
      · split at ho
        · split at ho
          · cases ho
          · exact he _ _ ho
        · split at ho
          · exact he _ _ ho
          · exact hi _ ho

/-! ### the headers given to `start_response` -/

theorem hdrPairs_str (F : Facts13) (hF : F.headerTuplesExpanded = true) (k0 : Nat) (v : HVal) (k : Nat) (b : Bool)
    (h : Ev.hdr k b ∈ hdrPairs F k0 v) : b = true := by
  cases v with
  | str => simp [hdrPairs] at h; exact h.2
  | list n => simp [hdrPairs] at h; exact h.2.2
  | tuple n => simp [hdrPairs, hF] at h; exact h.2.2

theorem hdrEvsFrom_str (F : Facts13) (hF : F.headerTuplesExpanded = true) (hs : List HVal) (k0 k : Nat) (b : Bool)
    (h : Ev.hdr k b ∈ hdrEvsFrom F k0 hs) : b = true := by
  induction hs generalizing k0 with
  | nil => simp [hdrEvsFrom] at h
  | cons v t ih =>
    simp only [hdrEvsFrom, List.mem_append] at h
    rcases h with h | h
    · exact hdrPairs_str F hF _ _ _ _ h
    · exact ih _ h

/-- every header pair that stems from a user-set header carries a native string -/
theorem hdr_str (F : Facts13) (hF : F.headerTuplesExpanded = true) (cfg : Cfg) (req : Req) (stream : List Nat)
    (abort : Option Nat) (k : Nat) (b : Bool) (h : Ev.hdr k b ∈ handle F cfg req stream abort) : b = true := by
  cases hw : req.wsdl with
  | some kd =>
    simp only [handle, hw] at h
    exact absurd (isRead_deliver _ _ _ h).2.2 (by simp [isHdr])
  | none =>
    rw [handle_rpc_eq _ _ _ _ _ hw] at h
    simp only [List.mem_append] at h
    rcases h with h | h | h
    · obtain ⟨us, heq, hus⟩ := process_pre F cfg req stream
      rw [heq] at h
      simp only [List.mem_append] at h
      rcases h with h | h
      · split at h
        · simp at h
        · exact (readBody_reads cfg req.contentLength stream _ h).elim
      · rcases hus with rfl | rfl <;> simp at h
    · unfold hdrEvs at h
      split at h
      · simp at h
      · split at h
        · exact hdrEvsFrom_str F hF _ _ _ _ h
        · simp at h
    · cases hr : (process F cfg req stream).2 with
      | crash c => rw [hr] at h; simp [finish, Result.atServer] at h
      | out o =>
        rw [hr] at h
        exact absurd (isRead_deliver _ _ _ (by simpa [finish, Result.atServer] using h)).2.2 (by simp [isHdr])

end SpyneModel.Wsgi
