/-
  Lemmas about the C13 model (SpyneModel/Wsgi.lean): the bounded body reader, the shape of what
  `process` produces, and the event order of `deliver`. General in `F : Facts13`; the property
  theorems in Props/C13.lean instantiate them with the regenerated facts.
-/
import SpyneModel.Wsgi
namespace SpyneModel.Wsgi
open SpyneModel

/-! ### list observers -/

theorem noneBefore_append_pre (p q : Ev → Bool) (l₁ l₂ : List Ev)
    (h : ∀ e ∈ l₁, p e = false ∧ q e = false) :
    noneBefore p q (l₁ ++ l₂) = noneBefore p q l₂ := by
  induction l₁ with
  | nil => rfl
  | cons e t ih =>
    have he := h e (by simp)
    simp [noneBefore, he.1, he.2]
    exact ih (fun x hx => h x (by simp [hx]))

theorem noneAfter_append_pre (p q : Ev → Bool) (l₁ l₂ : List Ev)
    (h : ∀ e ∈ l₁, q e = false) :
    noneAfter p q (l₁ ++ l₂) = noneAfter p q l₂ := by
  induction l₁ with
  | nil => rfl
  | cons e t ih =>
    have he := h e (by simp)
    simp [noneAfter, he]
    exact ih (fun x hx => h x (by simp [hx]))

theorem bytesGot_append (l₁ l₂ : List Ev) : bytesGot (l₁ ++ l₂) = bytesGot l₁ + bytesGot l₂ := by
  induction l₁ with
  | nil => simp [bytesGot]
  | cons e t ih => cases e <;> simp [bytesGot, ih] <;> omega

theorem bodyBytes_append (l₁ l₂ : List Ev) : bodyBytes (l₁ ++ l₂) = bodyBytes l₁ + bodyBytes l₂ := by
  induction l₁ with
  | nil => simp [bodyBytes]
  | cons e t ih => cases e <;> simp [bodyBytes, ih] <;> omega


/-! ### the bounded body reader -/

/-- a `read` event a well-behaved reader may produce: never asks for more than a block,
    never gets more than it asked for -/
def okRead (cfg : Cfg) : Ev → Prop
  | .read a g => a ≤ cfg.blockLen ∧ g ≤ a
  | _ => False

theorem readLoop_reads (cfg : Cfg) (length : Nat) (br : Nat) (stream : List Nat) :
    ∀ e ∈ (readLoop cfg length br stream).1, okRead cfg e := by
  induction stream generalizing br with
  | nil =>
    simp only [readLoop]
    split
    · split
      · simp
      · intro e he
        simp at he; subst he
        exact ⟨Nat.min_le_left _ _, Nat.zero_le _⟩
    · simp
  | cons a rest ih =>
    simp only [readLoop]
    split
    · split
      · simp
      · split
        · intro e he
          simp at he; subst he
          exact ⟨Nat.min_le_left _ _, Nat.zero_le _⟩
        · intro e he
          simp at he
          rcases he with he | he
          · subst he
            constructor <;> omega
          · exact ih _ e he
    · simp

/-- the loop invariant `bytes_read ≤ length`: whatever the stream does, the bytes obtained stay
    within what was declared -/
theorem readLoop_within (cfg : Cfg) (length : Nat) (br : Nat) (stream : List Nat) (h : br ≤ length) :
    br + bytesGot (readLoop cfg length br stream).1 ≤ length := by
  induction stream generalizing br with
  | nil =>
    simp only [readLoop]
    split
    · split <;> simp [bytesGot] <;> omega
    · simp [bytesGot]; omega
  | cons a rest ih =>
    simp only [readLoop]
    split
    · split
      · simp [bytesGot]; omega
      · split
        · simp [bytesGot]; omega
        · simp only [bytesGot]
          have := ih (br + min (min cfg.blockLen (length - br)) a) (by omega)
          omega
    · simp [bytesGot]; omega

/-- the counter the loop reports is the number of bytes it obtained -/
theorem readLoop_done (cfg : Cfg) (length : Nat) (br : Nat) (stream : List Nat) (n : Nat)
    (h : (readLoop cfg length br stream).2 = .done n) :
    n = br + bytesGot (readLoop cfg length br stream).1 := by
  induction stream generalizing br with
  | nil =>
    simp only [readLoop] at h ⊢
    split at h
    · split at h
      · simp at h
      · rename_i h1 h2
        simp [h1, h2, bytesGot] at h ⊢; omega
    · rename_i h1
      simp [h1, bytesGot] at h ⊢; omega
  | cons a rest ih =>
    simp only [readLoop] at h ⊢
    split at h
    · split at h
      · simp at h
      · split at h
        · rename_i h1 h2 h3
          simp [h1, h2, h3, bytesGot] at h ⊢; omega
        · rename_i h1 h2 h3
          simp only [h1, h2, h3, if_true, if_false, bytesGot]
          have := ih _ h
          omega
    · rename_i h1
      simp [h1, bytesGot] at h ⊢; omega

/-- the guard inside the loop (`bytes_to_read + bytes_read > max_content_length`) is dead code:
    once the declared length passed the check in front of the loop it can never fire -/
theorem readLoop_never_tooLong (cfg : Cfg) (length : Nat) (br : Nat) (stream : List Nat)
    (hmax : length ≤ cfg.maxLen) (h : br ≤ length) :
    (readLoop cfg length br stream).2 ≠ .tooLong := by
  induction stream generalizing br with
  | nil =>
    simp only [readLoop]
    split
    · split
      · omega
      · simp
    · simp
  | cons a rest ih =>
    simp only [readLoop]
    split
    · split
      · omega
      · split
        · simp
        · exact ih _ (by omega)
    · simp

/-- termination is driven by the stream: one `read` per stream element, plus at most one that
    sees the end of the stream -/
theorem readLoop_length (cfg : Cfg) (length : Nat) (br : Nat) (stream : List Nat) :
    (readLoop cfg length br stream).1.length ≤ stream.length + 1 := by
  induction stream generalizing br with
  | nil =>
    simp only [readLoop]
    split
    · split <;> simp
    · simp
  | cons a rest ih =>
    simp only [readLoop]
    split
    · split
      · simp
      · split
        · simp
        · have := ih (br + min (min cfg.blockLen (length - br)) a)
          simp only [List.length_cons]; omega
    · simp


end SpyneModel.Wsgi
