/-
  C15 proofs, part 10: the derived class carries exactly the requested constraints.
-/
import Proofs.DeriveOrder
namespace SpyneModel.Derive

theorem chainF_fuel {α : Type} (attrs : List AttrRec) (sel : AttrRec → Option α) :
    ∀ f1 f2 a, a < f1 → a < f2 → chainF attrs sel f1 a = chainF attrs sel f2 a := by
  intro f1
  induction f1 with
  | zero => intro f2 a h; omega
  | succ f1 ih =>
    intro f2 a h1 h2
    cases f2 with
    | zero => omega
    | succ f2 =>
      simp only [chainF]
      cases attrs[a]? with
      | none => rfl
      | some r =>
        simp only
        cases sel r with
        | some v => rfl
        | none =>
          simp only
          cases r.parent with
          | none => rfl
          | some p =>
            simp only
            split
            · exact ih f2 p (by omega) (by omega)
            · rfl

/-- lookup in a fresh `class Attributes(parent)`: own writes first, then whatever the parent resolves to -/
theorem attrAt_fresh (h : Heap) (r : AttrRec) (p : Nat) (hp : r.parent = some p) (hlt : p < h.attrs.length)
    (attrs' : List AttrRec) (hpre : ∀ x, x < h.attrs.length → (attrs'[x]?).map AttrRec.pub = (h.attrs[x]?).map AttrRec.pub)
    (hr : (attrs'[h.attrs.length]?).map AttrRec.pub = some r.pub) (cls' : List Cls) (ps : List Kw) (k : String) :
    attrAt { cls := cls', attrs := attrs', prots := ps } h.attrs.length k
      = match kwLookup r.own k with
        | some v => some v
        | none => attrAt h p k := by
  unfold attrAt chain chainH
  cases hr' : attrs'[h.attrs.length]? with
  | none => simp [hr'] at hr
  | some r' =>
    simp only [hr', Option.map_some, Option.some.injEq, AttrRec.pub, Prod.mk.injEq] at hr
    simp only [chainF, hr', hr.1]
    cases kwLookup r.own k with
    | some v => rfl
    | none =>
      simp only [hr.2.1, hp, hlt, if_true]
      rw [chainF_fuel attrs' _ h.attrs.length (p + 1) p hlt (by omega)]
      exact chainF_pub h.attrs attrs' k (p + 1) p (fun x hx => hpre x (by omega))

theorem getCls_ok {c : Nat} {h g : Heap} {cl cl0 : Cls} (e : getCls c h = .ok g cl) (h0 : h.cls[c]? = some cl0) :
    g = h ∧ cl = cl0 := by
  simp only [SpyneModel.Derive.getCls, h0] at e
  cases e; exact ⟨rfl, rfl⟩

theorem guardNone_ok {x : Option String} {h g : Heap} {u : Unit} (e : guardNone x h = .ok g u) : g = h := by
  unfold guardNone at e
  cases x with
  | some s => simp only [SpyneModel.Derive.fail] at e; cases e
  | none => simp only [Pure.pure, M.pure] at e; cases e; rfl

theorem getHeap_ok {h g x : Heap} (e : getHeap h = .ok g x) : g = h ∧ x = h := by
  simp only [SpyneModel.Derive.getHeap] at e
  cases e; exact ⟨rfl, rfl⟩

theorem aliasColWrite_deep (F : Facts15) [d : DeepCopy F] (a : Nat) (kw : Kw) (h : Heap) :
    aliasColWrite F a kw h = .ok h () := by
  unfold aliasColWrite
  simp only [Bind.bind, M.bind, SpyneModel.Derive.getHeap, d.deep, beq_self_eq_true, if_true]
  cases colH h a <;> rfl

theorem allocDerived_ok (F : Facts15) [DeepCopy F] {a : Nat} {kw : Kw} {h h' : Heap} {x : Nat}
    (e : allocDerived F a kw h = .ok h' x) :
    x = h.attrs.length ∧ h' = { h with attrs := h.attrs ++ [newAttrRec F h a kw] } := by
  unfold allocDerived at e
  simp only [Bind.bind, M.bind, SpyneModel.Derive.getHeap, aliasColWrite_deep, SpyneModel.Derive.allocAttrs] at e
  cases e
  exact ⟨rfl, rfl⟩

/-- EXACT (primitives): `Integer(ge=0)`, `Unicode.customize(max_len=5)`, ... - every attribute of the returned class
    is the one written by the keyword loop, or else the one the source class resolves to -/
theorem simpleCustomize_exact (F : Facts15) [DeepCopy F] (src : Nat) (kw : Kw) (h h' : Heap) (id : Nat) (ih : Inv h)
    (sc : Cls) (hsc : h.cls[src]? = some sc) (hr : simpleCustomize F src kw h = .ok h' id) (k : String) :
    attrOf h' id k
      = match kwLookup (newAttrRec F h sc.attrs (if sc.kind == .number then numberKw F h sc.attrs kw else kw)).own k with
        | some v => some v
        | none => attrOf h src k := by
  unfold simpleCustomize at hr
  obtain ⟨g1, sc', e1, hr1⟩ := bind_ok_inv _ _ _ _ _ hr
  obtain ⟨hg1, hsc'⟩ := getCls_ok e1 hsc
  subst hg1; subst hsc'
  obtain ⟨g2, u2, e2, hr2⟩ := bind_ok_inv _ _ _ _ _ hr1
  have hg2 := guardNone_ok e2; subst hg2
  obtain ⟨g3, h0, e3, hr3⟩ := bind_ok_inv _ _ _ _ _ hr2
  obtain ⟨hg3, hh0⟩ := getHeap_ok e3
  subst hg3; subst hh0
  obtain ⟨g4, u4, e4, hr4⟩ := bind_ok_inv _ _ _ _ _ hr3
  have hg4 := guardNone_ok e4; subst hg4
  obtain ⟨g5, a, e5, hr5⟩ := bind_ok_inv _ _ _ _ _ hr4
  obtain ⟨ha5, hg5⟩ := allocDerived_ok F e5
  subst ha5; subst hg5
  obtain ⟨g6, h1, e6, hr6⟩ := bind_ok_inv _ _ _ _ _ hr5
  obtain ⟨hg6, hh1⟩ := getHeap_ok e6
  subst hg6; subst hh1
  simp only [SpyneModel.Derive.allocCls] at hr6
  cases hr6
  have hrange := inv_range _ ih src _ hsc
  unfold attrOf
  simp only [List.getElem?_concat_length, hsc]
  have hattrs : ∀ hh : Heap, (simpleNewCls F hh sc' src g4.attrs.length kw).attrs = g4.attrs.length := by
    intro hh; unfold simpleNewCls; split <;> rfl
  rw [hattrs]
  exact attrAt_fresh g4 _ sc'.attrs rfl hrange _
    (fun x hx => by rw [List.getElem?_append_left hx]) (by simp) _ _ k

/-- all writes of a customisation in one list: the keyword loop processes the keywords in order, so the
    write of a later keyword is found first -/
theorem normKw_eq (kw : Kw) : normKw kw = (kw.reverse.map (fun p => normOne p.1 p.2)).flatten := by
  unfold normKw
  have : ∀ (l : Kw) (acc : Kw), l.foldl (fun acc p => normOne p.1 p.2 ++ acc) acc
      = (l.reverse.map (fun p => normOne p.1 p.2)).flatten ++ acc := by
    intro l
    induction l with
    | nil => intro acc; simp
    | cons p rest ih => intro acc; simp [List.foldl_cons, ih]
  simp [this kw []]


/-- a successful append/insert ran `evolve` on a class of the family -/
theorem evolveOp_ok (impl : Nat → M Unit) (h h' : Heap) (c t : Nat) (r : Option Nat)
    (hr : (do
        let cl ← getCls c
        guardNone (if cl.kind.isComplex then none else some "AttributeError")
        let _ ← getCls t
        evolve impl c
        pure (none : Option Nat)) h = .ok h' r) :
    ∃ cl, h.cls[c]? = some cl ∧ cl.kind.isComplex = true ∧ evolve impl c h = .ok h' () := by
  obtain ⟨g1, cl, e1, hr1⟩ := bind_ok_inv _ _ _ _ _ hr
  cases hc0 : h.cls[c]? with
  | none => simp [SpyneModel.Derive.getCls, hc0] at e1
  | some cl0 =>
    obtain ⟨hg1, hcl⟩ := getCls_ok e1 hc0
    subst hg1; subst hcl
    have hc := hc0
    obtain ⟨g2, u2, e2, hr2⟩ := bind_ok_inv _ _ _ _ _ hr1
    have hk : cl.kind.isComplex = true := by
      cases hkk : cl.kind.isComplex with
      | true => rfl
      | false => simp [hkk, guardNone, SpyneModel.Derive.fail] at e2
    have hg2 := guardNone_ok e2; subst hg2
    obtain ⟨g3, tc, e3, hr3⟩ := bind_ok_inv _ _ _ _ _ hr2
    have hg3 : g3 = g2 := by
      simp only [SpyneModel.Derive.getCls] at e3
      split at e3
      · cases e3; rfl
      · cases e3
    subst hg3
    obtain ⟨g4, u4, e4, hr4⟩ := bind_ok_inv _ _ _ _ _ hr3
    simp only [Pure.pure, M.pure] at hr4
    cases hr4
    cases u4
    exact ⟨cl, rfl, hk, e4⟩

theorem liftExcept_ok {α : Type} {x : Except String α} {h g : Heap} {a : α} (e : liftExcept x h = .ok g a) : g = h := by
  unfold liftExcept at e
  cases x with
  | ok v => simp only [Pure.pure, M.pure] at e; cases e; rfl
  | error s => simp only [SpyneModel.Derive.fail] at e; cases e

/-- registering a subclass changes nobody's fields, original, type name or family -/
theorem regSub_keeps (ext : Option Nat) (n : Nat) (g g' : Heap) (u : Unit) (hr : regSub ext n g = .ok g' u)
    (c : Nat) (cl : Cls) (hc : g.cls[c]? = some cl) :
    ∃ cl', g'.cls[c]? = some cl' ∧ cl'.fields = cl.fields ∧ cl'.orig = cl.orig ∧ cl'.tn = cl.tn ∧ cl'.kind = cl.kind := by
  unfold regSub at hr
  cases ext with
  | none =>
    simp only [Pure.pure, M.pure] at hr
    cases hr
    exact ⟨cl, hc, rfl, rfl, rfl, rfl⟩
  | some e =>
    simp only [SpyneModel.Derive.updCls] at hr
    cases hr
    unfold Heap.updCls
    cases he : g.cls[e]? with
    | none => exact ⟨cl, hc, rfl, rfl, rfl, rfl⟩
    | some ec =>
      simp only
      by_cases hce : e = c
      · subst hce
        have hlt : e < g.cls.length := by
          rcases Nat.lt_or_ge e g.cls.length with hl | hl
          · exact hl
          · rw [List.getElem?_eq_none hl] at he; cases he
        rw [hc] at he
        cases he
        refine ⟨{ cl with subs := some (cl.subs.getD [] ++ [n]) }, ?_, rfl, rfl, rfl, rfl⟩
        simp [List.getElem?_set_self hlt]
      · exact ⟨cl, by simp [List.getElem?_set_ne hce, hc], rfl, rfl, rfl, rfl⟩

theorem regSubVariant_deep (F : Facts15) [d : DeepCopy F] (ext : Option Nat) (n : Nat) (h : Heap) :
    regSubVariant F ext n h = .ok h () := by
  unfold regSubVariant
  have hb : (F.subsRule == SubsRule.alsoVariants) = false := by rw [d.subsClasses]; rfl
  rw [hb]
  rfl

/-- the class a class statement creates -/
theorem subclassOp_result (F : Facts15) (base : Option Nat) (name : String) (ns : Option String)
    (fields : List (String × Nat)) (perm : List Nat) (attrs : Option Kw) (mixins : List Nat) (asMixin : Bool)
    (h h' : Heap) (id : Nat)
    (hr : subclassOp F base name ns fields perm attrs mixins asMixin h = .ok h' id) :
    ∃ cl, h'.cls[id]? = some cl
      ∧ cl.fields = applyOrder h (prependMixins F (mixinFields h mixins) (declaredFields F perm fields)) ∧ cl.orig = none
      ∧ cl.tn = some name ∧ cl.kind = .complex := by
  unfold subclassOp at hr
  obtain ⟨g1, bc, e1, hr1⟩ := bind_ok_inv _ _ _ _ _ hr
  obtain ⟨g2, ext, e2, hr2⟩ := bind_ok_inv _ _ _ _ _ hr1
  unfold subclassRest at hr2
  obtain ⟨g3, h0, e3, hr3⟩ := bind_ok_inv _ _ _ _ _ hr2
  obtain ⟨g4, u4, e4, hr4⟩ := bind_ok_inv _ _ _ _ _ hr3
  obtain ⟨g5, n5, e5, hr5⟩ := bind_ok_inv _ _ _ _ _ hr4
  obtain ⟨g6, u6, e6, hr6⟩ := bind_ok_inv _ _ _ _ _ hr5
  have hg1 : g1 = h := by
    simp only [SpyneModel.Derive.getCls] at e1
    split at e1
    · cases e1; rfl
    · cases e1
  have hg2 := liftExcept_ok e2
  obtain ⟨hg3, hh0⟩ := getHeap_ok e3
  have hg4 := guardNone_ok e4
  subst hg4; subst hh0; subst hg3; subst hg2; subst hg1
  simp only [SpyneModel.Derive.allocBoth] at e5
  cases e5
  simp only [Pure.pure, M.pure] at hr6
  have hh : g6 = h' ∧ g4.cls.length = id := by cases hr6; exact ⟨rfl, rfl⟩
  obtain ⟨hh1, hh2⟩ := hh
  subst hh1; subst hh2
  obtain ⟨cl', c1, c2, c3, c4, c5⟩ := regSub_keeps ext _ _ _ u6 e6 g4.cls.length _ List.getElem?_concat_length
  exact ⟨cl', c1, by rw [c2], by rw [c3], by rw [c4], by rw [c5]⟩


/-- what `newVariant` leaves behind: the new class record and the public part of its fresh `Attributes` -/
theorem newVariant_result (F : Facts15) [DeepCopy F] (sc : Cls) (src : Nat) (ext : Option Nat) (kw : Kw)
    (h hv : Heap) (a n : Nat) (hr0 : newVariant F sc src ext kw h = .ok hv (a, n)) :
    a = h.attrs.length ∧ n = h.cls.length ∧ hv.cls[n]? = some (variantCls sc src a ext kw)
      ∧ (hv.attrs[a]?).map AttrRec.pub = some (newAttrRec F h sc.attrs kw).pub
      ∧ Ext h.cls.length h.attrs.length [] h hv := by
  have hr : newVariantTail (newAttrRec F h sc.attrs kw) sc src ext kw h = .ok hv (a, n) := by
    unfold newVariant at hr0
    simpa only [Bind.bind, M.bind, SpyneModel.Derive.getHeap, aliasColWrite_deep] using hr0
  unfold newVariantTail at hr
  obtain ⟨g1, a1, e1, hr1⟩ := bind_ok_inv _ _ _ _ _ hr
  simp only [SpyneModel.Derive.allocAttrs] at e1
  cases e1
  obtain ⟨g2, n1, e2, hr2⟩ := bind_ok_inv _ _ _ _ _ hr1
  simp only [SpyneModel.Derive.allocCls] at e2
  cases e2
  obtain ⟨g3, u3, e3, hr3⟩ := bind_ok_inv _ _ _ _ _ hr2
  obtain ⟨g4, u4, e4, hr4⟩ := bind_ok_inv _ _ _ _ _ hr3
  simp only [Pure.pure, M.pure] at hr4
  cases hr4
  -- the two bookkeeping steps respect the frame of the heap with the new class and record in it
  let hm : Heap := { cls := h.cls ++ [variantCls sc src h.attrs.length ext kw],
                     attrs := h.attrs ++ [newAttrRec F h sc.attrs kw], prots := h.prots }
  have x3 := (good_copyDca (n := hm.cls.length) (na := hm.attrs.length) (T := []) h.attrs.length hm
    (Nat.le_refl _) (Nat.le_refl _)).1
  rw [e3] at x3
  have x4 := (good_processVariants (n := hm.cls.length) (na := hm.attrs.length) (T := []) (sc.orig.getD src)
    h.cls.length h.attrs.length g3 x3.clsLen x3.attrsLen).1
  rw [e4] at x4
  have x := x3.trans x4
  simp only [Res.heap] at x
  refine ⟨rfl, rfl, ?_, ?_, ?_⟩
  · rw [x.cls h.cls.length (by simp [hm]) (by simp)]
    simp [hm]
  · rw [x.attrs h.attrs.length (by simp [hm])]
    simp [hm]
  · refine ⟨?_, ?_, ?_, ?_, ?_, x.prots⟩
    · have := x.clsLen; simp [hm] at this; omega
    · have := x.attrsLen; simp [hm] at this; omega
    · intro c hc _
      rw [x.cls c (by simp [hm]; omega) (by simp)]
      simp only [hm]
      rw [List.getElem?_append_left hc]
    · intro y hy
      rw [x.attrs y (by simp [hm]; omega)]
      simp only [hm]
      rw [List.getElem?_append_left hy]
    · intro c hc
      rw [x.core c (by simp [hm]; omega)]
      simp only [hm]
      rw [List.getElem?_append_left hc]

/-- EXACT (ComplexModel / Array `customize`, with or without child attributes): the returned class is new, it is
    a class of the same family registered with the same original, and each of its attributes is the value the
    keyword loop wrote for it, or else what the source class resolves to -/
theorem custComplex_exact (F : Facts15) [DeepCopy F] (fuel src : Nat) (kw : Kw) (ca : Option (List (String × Kw))) (caa : Option Kw)
    (h h' : Heap) (id : Nat) (ih : Inv h) (sc : Cls) (hsc : h.cls[src]? = some sc)
    (hr : custComplex F (fuel + 1) src kw ca caa h = .ok h' id) :
    h.cls.length ≤ id
      ∧ (∃ cl, h'.cls[id]? = some cl ∧ cl.kind = sc.kind ∧ cl.orig = some (sc.orig.getD src))
      ∧ ∀ k, attrOf h' id k
          = match kwLookup (newAttrRec F h sc.attrs kw).own k with
            | some v => some v
            | none => attrOf h src k := by
  simp only [custComplex] at hr
  obtain ⟨g1, sc', e1, hr1⟩ := bind_ok_inv _ _ _ _ _ hr
  obtain ⟨hg1, hsc'⟩ := getCls_ok e1 hsc
  subst hg1; subst hsc'
  obtain ⟨g2, u2, e2, hr2⟩ := bind_ok_inv _ _ _ _ _ hr1
  have hg2 := guardNone_ok e2; subst hg2
  obtain ⟨g3, h0, e3, hr3⟩ := bind_ok_inv _ _ _ _ _ hr2
  obtain ⟨hg3, hh0⟩ := getHeap_ok e3
  subst hg3; subst hh0
  obtain ⟨g4, ext, e4, hr4⟩ := bind_ok_inv _ _ _ _ _ hr3
  have hg4 := liftExcept_ok e4; subst hg4
  obtain ⟨hv, an, e5, hr5⟩ := bind_ok_inv _ _ _ _ _ hr4
  obtain ⟨a, n⟩ := an
  obtain ⟨ha, hn, hcls, hpub, hext⟩ := newVariant_result F sc' src ext kw g4 hv a n e5
  obtain ⟨g5', u5', e5', hr5'⟩ := bind_ok_inv _ _ _ _ _ hr5
  rw [regSubVariant_deep] at e5'
  have hg5' : hv = g5' := by cases e5'; rfl
  subst hg5'
  obtain ⟨g6, u6, e6, hr6⟩ := bind_ok_inv _ _ _ _ _ hr5'
  obtain ⟨g7, u7, e7, hr7⟩ := bind_ok_inv _ _ _ _ _ hr6
  simp only [Pure.pure, M.pure] at hr7
  have hh : g7 = h' ∧ n = id := by cases hr7; exact ⟨rfl, rfl⟩
  obtain ⟨hh1, hh2⟩ := hh
  subst hh1; subst hh2
  -- the child-attribute steps may write the new class, nothing else
  have hnlt : n < hv.cls.length := by
    rcases Nat.lt_or_ge n hv.cls.length with hl | hl
    · exact hl
    · rw [List.getElem?_eq_none hl] at hcls; cases hcls
  have halt : a < hv.attrs.length := by
    rcases Nat.lt_or_ge a hv.attrs.length with hl | hl
    · exact hl
    · rw [List.getElem?_eq_none hl] at hpub; simp at hpub
  have x6 := ((goodCust (n := hv.cls.length) (na := hv.attrs.length) (T := [n]) F fuel).processCaa n a sc'.fields ext caa
    (Or.inr (by simp)) hv (Nat.le_refl _) (Nat.le_refl _)).1
  rw [e6] at x6
  have x7 := ((goodCust (n := hv.cls.length) (na := hv.attrs.length) (T := [n]) F fuel).processCa n a ca
    (Or.inr (by simp)) g6 x6.clsLen x6.attrsLen).1
  rw [e7] at x7
  have x := x6.trans x7
  simp only [Res.heap] at x
  have hcore := x.core n hnlt
  rw [hcls] at hcore
  cases hfin : g7.cls[n]? with
  | none => simp [hfin] at hcore
  | some cl =>
    simp only [hfin, Option.map_some, Option.some.injEq, Cls.core, Prod.mk.injEq] at hcore
    refine ⟨by omega, ⟨cl, rfl, ?_, ?_⟩, ?_⟩
    · rw [hcore.1]; rfl
    · rw [hcore.2.2]; rfl
    · intro k
      have hrange := inv_range g4 ih src sc' hsc
      unfold attrOf
      simp only [hfin, hsc, hcore.2.1]
      have hattr : (variantCls sc' src a ext kw).attrs = a := rfl
      rw [hattr, ha]
      have e := attrAt_fresh g4 (newAttrRec F g4 sc'.attrs kw) sc'.attrs rfl hrange g7.attrs
        (fun y hy => by
          rw [x.attrs y (by omega)]
          exact hext.attrs y hy)
        (by rw [← ha, x.attrs a halt]; exact hpub) g7.cls g7.prots k
      exact e



theorem sw1 : ("type_name".startsWith "_") = false := by decide +kernel
theorem sw2 : ("min_occurs".startsWith "_") = false := by decide +kernel
theorem sw3 : ("nillable".startsWith "_") = false := by decide +kernel
theorem sw4 : ("min_len".startsWith "_") = false := by decide +kernel

theorem normOne_type_name (v : AVal) : normOne "type_name" v = [] := by
  simp [normOne, sw1]
theorem normOne_min_occurs (v : AVal) : normOne "min_occurs" v = [("min_occurs", v)] := by
  simp [normOne, sw2]
theorem normOne_nillable (v : AVal) : normOne "nillable" v = [("nillable", v)] := by
  simp [normOne, sw3]
theorem normOne_min_len (v : AVal) : normOne "min_len" v = [("min_len", v)] := by
  simp [normOne, sw4]

theorem mand_lookup (F : Facts15) (sc : Cls) :
    kwLookup (normKw (mandatoryKw F sc)) "min_occurs" = some (.int 1)
      ∧ kwLookup (normKw (mandatoryKw F sc)) "nillable" = some (.bool false)
      ∧ (sc.kind = .unicode → kwLookup (normKw (mandatoryKw F sc)) "min_len" = some (.int 1)) := by
  unfold mandatoryKw
  cases sc.tn <;> cases sc.kind <;>
    simp [normKw, normOne_type_name, normOne_min_occurs, normOne_nillable, normOne_min_len, kwLookup]


theorem mand_no_pattern (F : Facts15) (sc : Cls) : kwLookup (normKw (mandatoryKw F sc)) "pattern" = none := by
  unfold mandatoryKw
  cases sc.tn <;> cases sc.kind <;>
    simp [normKw, normOne_type_name, normOne_min_occurs, normOne_nillable, normOne_min_len, kwLookup]

theorem numberKw_mandatory (F : Facts15) (hF : F.mslRule = .followsRequested) (h : Heap) (a : Nat) (sc : Cls) :
    numberKw F h a (mandatoryKw F sc) = mandatoryKw F sc := by
  unfold numberKw mandatoryKw
  cases sc.tn <;> cases sc.kind <;> simp [kwLookup, odictErase, hF]

/-- EXACT (Mandatory on a primitive): the returned class has `min_occurs = 1`, `nillable = False` (and `min_len = 1`
    for Unicode); by `simpleCustomize_exact` everything else the keyword loop does not write is the source's -/
theorem mandatory_simple_exact (F : Facts15) [DeepCopy F] (hF : F.mslRule = .followsRequested) (fuel src : Nat) (h h' : Heap)
    (id : Nat) (ih : Inv h) (sc : Cls) (hsc : h.cls[src]? = some sc)
    (hk : sc.kind = .number ∨ sc.kind = .unicode ∨ sc.kind = .bytes ∨ sc.kind = .simple)
    (hr : mandatory F (fuel + 2) src h = .ok h' id) :
    attrOf h' id "min_occurs" = some (.int 1) ∧ attrOf h' id "nillable" = some (.bool false)
      ∧ (sc.kind = .unicode → attrOf h' id "min_len" = some (.int 1)) := by
  have harr : sc.kind.isArray = false := by rcases hk with h1 | h1 | h1 | h1 <;> simp [h1, Kind.isArray]
  simp only [mandatory] at hr
  obtain ⟨g1, sc', e1, hr1⟩ := bind_ok_inv _ _ _ _ _ hr
  obtain ⟨hg1, hsc'⟩ := getCls_ok e1 hsc
  subst hg1; subst hsc'
  simp only [harr, Bool.false_and, Bool.false_eq_true, if_false] at hr1
  obtain ⟨g2, r, e2, hr2⟩ := bind_ok_inv _ _ _ _ _ hr1
  obtain ⟨g3, u3, e3, hr3⟩ := bind_ok_inv _ _ _ _ _ hr2
  have hg3 : g3 = g2 := by
    simp only [mandMember, Bool.not_false, if_true, Pure.pure, M.pure] at e3
    cases e3; rfl
  subst hg3
  simp only [Pure.pure, M.pure] at hr3
  have hh : g3 = h' ∧ r = id := by cases hr3; exact ⟨rfl, rfl⟩
  obtain ⟨hh1, hh2⟩ := hh
  subst hh1; subst hh2
  -- customizeAny dispatches to SimpleModel.customize
  simp only [customizeAny] at e2
  obtain ⟨g4, sc2, e4, hr4⟩ := bind_ok_inv _ _ _ _ _ e2
  obtain ⟨hg4, hsc2⟩ := getCls_ok e4 hsc
  subst hg4; subst hsc2
  have hsimple : simpleCustomize F src (mandatoryKw F sc2) g4 = .ok g3 r := by
    rcases hk with h1 | h1 | h1 | h1 <;> simp only [h1] at hr4 <;> exact hr4
  have hex := simpleCustomize_exact F src (mandatoryKw F sc2) g4 g3 r ih sc2 hsc hsimple
  have hkw : (if sc2.kind == Kind.number then numberKw F g4 sc2.attrs (mandatoryKw F sc2) else mandatoryKw F sc2)
      = mandatoryKw F sc2 := by
    split
    · exact numberKw_mandatory F hF g4 sc2.attrs sc2
    · rfl
  rw [hkw] at hex
  obtain ⟨m1, m2, m3⟩ := mand_lookup F sc2
  have hown : ∀ k v, kwLookup (normKw (mandatoryKw F sc2)) k = some v →
      kwLookup (newAttrRec F g4 sc2.attrs (mandatoryKw F sc2)).own k = some v := by
    intro k v hkv
    have hnp := mand_no_pattern F sc2
    simp only [newAttrRec, hnp, List.nil_append]
    simp only [kwLookup, List.find?_append] at hkv ⊢
    cases hf : List.find? (fun p => p.1 == k) (normKw (mandatoryKw F sc2)) with
    | none => simp [hf] at hkv
    | some p => simp [hf] at hkv ⊢; exact hkv
  refine ⟨?_, ?_, ?_⟩
  · rw [hex "min_occurs", hown _ _ m1]
  · rw [hex "nillable", hown _ _ m2]
  · intro hu
    rw [hex "min_len", hown _ _ (m3 hu)]


/-- with a deep copy, the fresh record holds a dict of its own: the source's keywords plus the loop's writes -/
theorem newAttrRec_col (F : Facts15) [d : DeepCopy F] (h : Heap) (a : Nat) (kw : Kw) :
    (newAttrRec F h a kw).colArgs = some (applyCol (((colH h a).map (·.2)).getD []) (colWrites kw)) := by
  unfold newAttrRec
  cases colH h a with
  | none => rfl
  | some p => simp [d.deep]

theorem colH_fresh (attrs' : List AttrRec) (cls' : List Cls) (ps : List Kw) (a : Nat) (r : AttrRec) (dd : Kw)
    (hr : (attrs'[a]?).map AttrRec.pub = some r.pub) (hd : r.colArgs = some dd) :
    colH { cls := cls', attrs := attrs', prots := ps } a = some (a, dd) := by
  cases hr' : attrs'[a]? with
  | none => simp [hr'] at hr
  | some r' =>
    simp only [hr', Option.map_some, Option.some.injEq] at hr
    have hc : r'.colArgs = some dd := by
      have := congrArg (fun p => p.2.2.1) hr
      simp only [AttrRec.pub] at this
      rw [this, hd]
    unfold colH
    rw [chainH_own attrs' colSel a r' (.inl dd) hr' (by simp [colSel, hc])]

/-- EXACT (column keywords, primitives): the derived class's `sqla_column_args[-1]` is a dict of its own holding
    the source's keywords plus `primary_key` / `autoincrement` / `onupdate` / `server_default` as requested -/
theorem simpleCustomize_col (F : Facts15) [DeepCopy F] (src : Nat) (kw : Kw) (h h' : Heap) (id : Nat)
    (sc : Cls) (hsc : h.cls[src]? = some sc) (hr : simpleCustomize F src kw h = .ok h' id) :
    (obs1 F h' id).map (·.col)
      = some (some (applyCol (((colH h sc.attrs).map (·.2)).getD [])
          (colWrites (if sc.kind == .number then numberKw F h sc.attrs kw else kw)))) := by
  unfold simpleCustomize at hr
  obtain ⟨g1, sc', e1, hr1⟩ := bind_ok_inv _ _ _ _ _ hr
  obtain ⟨hg1, hsc'⟩ := getCls_ok e1 hsc
  subst hg1; subst hsc'
  obtain ⟨g2, u2, e2, hr2⟩ := bind_ok_inv _ _ _ _ _ hr1
  have hg2 := guardNone_ok e2; subst hg2
  obtain ⟨g3, h0, e3, hr3⟩ := bind_ok_inv _ _ _ _ _ hr2
  obtain ⟨hg3, hh0⟩ := getHeap_ok e3
  subst hg3; subst hh0
  obtain ⟨g4, u4, e4, hr4⟩ := bind_ok_inv _ _ _ _ _ hr3
  have hg4 := guardNone_ok e4; subst hg4
  obtain ⟨g5, a, e5, hr5⟩ := bind_ok_inv _ _ _ _ _ hr4
  obtain ⟨ha5, hg5⟩ := allocDerived_ok F e5
  subst ha5; subst hg5
  obtain ⟨g6, h1, e6, hr6⟩ := bind_ok_inv _ _ _ _ _ hr5
  obtain ⟨hg6, hh1⟩ := getHeap_ok e6
  subst hg6; subst hh1
  simp only [SpyneModel.Derive.allocCls] at hr6
  cases hr6
  have hattrs : ∀ hh : Heap, (simpleNewCls F hh sc' src g4.attrs.length kw).attrs = g4.attrs.length := by
    intro hh; unfold simpleNewCls; split <;> rfl
  unfold obs1
  simp only [List.getElem?_concat_length, Option.map_some, hattrs]
  rw [colH_fresh _ _ _ g4.attrs.length
    (newAttrRec F g4 sc'.attrs (if (sc'.kind == Kind.number) = true then numberKw F g4 sc'.attrs kw else kw)) _
    (by simp) (newAttrRec_col F g4 sc'.attrs _)]
  rfl

theorem simpleNewCls_same (F : Facts15) (hh : Heap) (sc : Cls) (src a : Nat) (kw : Kw) :
    (simpleNewCls F hh sc src a kw).kind = sc.kind ∧ (simpleNewCls F hh sc src a kw).lo = sc.lo
      ∧ (simpleNewCls F hh sc src a kw).hi = sc.hi := by
  unfold simpleNewCls
  split <;> exact ⟨rfl, rfl, rfl⟩

/-- the class `SimpleModel.customize` returns is of the same kind, with the same hardware bounds -/
theorem simpleCustomize_cls (F : Facts15) [DeepCopy F] (src : Nat) (kw : Kw) (h h' : Heap) (id : Nat)
    (sc : Cls) (hsc : h.cls[src]? = some sc) (hr : simpleCustomize F src kw h = .ok h' id) :
    ∃ cl, h'.cls[id]? = some cl ∧ cl.kind = sc.kind ∧ cl.lo = sc.lo ∧ cl.hi = sc.hi := by
  unfold simpleCustomize at hr
  obtain ⟨g1, sc', e1, hr1⟩ := bind_ok_inv _ _ _ _ _ hr
  obtain ⟨hg1, hsc'⟩ := getCls_ok e1 hsc
  subst hg1; subst hsc'
  obtain ⟨g2, u2, e2, hr2⟩ := bind_ok_inv _ _ _ _ _ hr1
  have hg2 := guardNone_ok e2; subst hg2
  obtain ⟨g3, h0, e3, hr3⟩ := bind_ok_inv _ _ _ _ _ hr2
  obtain ⟨hg3, hh0⟩ := getHeap_ok e3
  subst hg3; subst hh0
  obtain ⟨g4, u4, e4, hr4⟩ := bind_ok_inv _ _ _ _ _ hr3
  have hg4 := guardNone_ok e4; subst hg4
  obtain ⟨g5, a, e5, hr5⟩ := bind_ok_inv _ _ _ _ _ hr4
  obtain ⟨ha5, hg5⟩ := allocDerived_ok F e5
  subst ha5; subst hg5
  obtain ⟨g6, h1, e6, hr6⟩ := bind_ok_inv _ _ _ _ _ hr5
  obtain ⟨hg6, hh1⟩ := getHeap_ok e6
  subst hg6; subst hh1
  simp only [SpyneModel.Derive.allocCls] at hr6
  cases hr6
  exact ⟨_, List.getElem?_concat_length, (simpleNewCls_same _ _ _ _ _ _).1, (simpleNewCls_same _ _ _ _ _ _).2.1,
    (simpleNewCls_same _ _ _ _ _ _).2.2⟩

/-- EXACT (verdicts): the verdict function of the derived type is the verdict function of the requested facets on
    top of the source's - validate_native / validate_string on every probe value decide exactly as the attributes
    written by the keyword loop (including the regex the `pattern` setter compiles) and, for the rest, the
    source's attributes call for -/
theorem simpleCustomize_verdicts (F : Facts15) [DeepCopy F] (src : Nat) (kw : Kw) (h h' : Heap) (id : Nat) (ih : Inv h)
    (sc : Cls) (hsc : h.cls[src]? = some sc) (hr : simpleCustomize F src kw h = .ok h' id) :
    ∃ cl, h'.cls[id]? = some cl ∧ verdicts h' cl = verdictsFn sc.kind sc.lo sc.hi (fun k =>
      match kwLookup (newAttrRec F h sc.attrs (if sc.kind == .number then numberKw F h sc.attrs kw else kw)).own k with
      | some v => some v
      | none => attrOf h src k) := by
  obtain ⟨cl, hcl, hk, hlo, hhi⟩ := simpleCustomize_cls F src kw h h' id sc hsc hr
  refine ⟨cl, hcl, ?_⟩
  have hex := simpleCustomize_exact F src kw h h' id ih sc hsc hr
  have hfun : attrAt h' cl.attrs = fun k =>
      match kwLookup (newAttrRec F h sc.attrs (if sc.kind == .number then numberKw F h sc.attrs kw else kw)).own k with
      | some v => some v
      | none => attrOf h src k := by
    funext k
    have := hex k
    simp only [attrOf, hcl] at this
    exact this
  simp only [verdicts, hk, hlo, hhi, hfun]

/-- customising twice (first with the general keywords `d`, then with the specific ones `e`): the specific
    writes win, then the general ones, then the source -/
theorem simpleCustomize_twice_exact (F : Facts15) [DeepCopy F] (t : Nat) (d e : Kw) (h h1 h2 : Heap) (t1 t2 : Nat)
    (ih : Inv h) (tc : Cls) (htc : h.cls[t]? = some tc)
    (r1 : simpleCustomize F t d h = .ok h1 t1) (r2 : simpleCustomize F t1 e h1 = .ok h2 t2) (k : String) :
    ∃ c1, h1.cls[t1]? = some c1 ∧ c1.kind = tc.kind ∧
      attrOf h2 t2 k =
        match kwLookup (newAttrRec F h1 c1.attrs (if c1.kind == .number then numberKw F h1 c1.attrs e else e)).own k with
        | some v => some v
        | none =>
          match kwLookup (newAttrRec F h tc.attrs (if tc.kind == .number then numberKw F h tc.attrs d else d)).own k with
          | some v => some v
          | none => attrOf h t k := by
  obtain ⟨c1, hc1, hk1, _, _⟩ := simpleCustomize_cls F t d h h1 t1 tc htc r1
  have ih1 : Inv h1 := by
    have := (keeps_simpleCustomize F t d h ih trivial).1
    rw [r1] at this; exact this
  refine ⟨c1, hc1, hk1, ?_⟩
  rw [simpleCustomize_exact F t1 e h1 h2 t2 ih1 c1 hc1 r2 k, simpleCustomize_exact F t d h h1 t1 ih tc htc r1 k]


theorem listInsertAt_zero {β : Type} (l : List β) (x : β) : listInsertAt l 0 x = x :: l := by
  cases l <;> rfl

/-- mixin fields first, in their order, then the declared fields the mixins do not have -/
theorem keysOf_prepend (mf d : List (String × Nat)) (hn : (keysOf mf).Nodup) :
    keysOf (mf.reverse.foldl (fun (acc : List (String × Nat)) (p : String × Nat) => odictInsert acc 0 p.1 p.2) d)
      = keysOf mf ++ (keysOf d).filter (fun k => !(keysOf mf).contains k) := by
  rw [List.foldl_reverse]
  induction mf with
  | nil =>
    simp only [keysOf, List.map_nil, List.foldr_nil, List.nil_append, List.contains_nil, Bool.not_false]
    exact (List.filter_eq_self.mpr (fun _ _ => rfl)).symm
  | cons p rest ih =>
    have hp : p.1 ∉ keysOf rest := (List.nodup_cons.mp hn).1
    have hr : (keysOf rest).Nodup := (List.nodup_cons.mp hn).2
    simp only [List.foldr_cons]
    rw [keysOf_odictInsert, listInsertAt_zero, ih hr]
    simp only [keysOf, List.map_cons, List.cons_append, List.cons.injEq, true_and, List.filter_append]
    congr 1
    · apply List.filter_eq_self.mpr
      intro x hx
      have : x ≠ p.1 := fun e => hp (by simpa [keysOf, e] using hx)
      simp [this]
    · rw [List.filter_filter]
      apply List.filter_congr
      intro x _
      by_cases e : x = p.1 <;> simp [e]


/-- field types without an `order` attribute leave the declared sequence alone -/
theorem applyOrder_none (h : Heap) (fs : List (String × Nat)) (hn : ∀ p, p ∈ fs → orderOf h p.2 = none) :
    applyOrder h fs = fs := by
  unfold applyOrder
  have h1 : fs.filter (fun p => (orderOf h p.2).isSome) = [] := by
    apply List.filter_eq_nil_iff.mpr
    intro p hp
    simp [hn p hp]
  have h2 : fs.filter (fun p => (orderOf h p.2).isNone) = fs := by
    apply List.filter_eq_self.mpr
    intro p hp
    simp [hn p hp]
  rw [h1, h2]
  rfl

end SpyneModel.Derive
