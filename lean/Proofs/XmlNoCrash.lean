import SpyneModel.XmlSpec
import Proofs.Leaf
namespace SpyneModel
namespace Xml

theorem leafFromElement_nocrash {F : Facts08} (L : LeafLaws F) (X : FactsXml) (cfg : Cfg) (p : PrimTy) (o : Occ)
    (text : Option Text) (e : String) : leafFromElement F X cfg p o text ≠ .crash e := by
  unfold leafFromElement
  repeat' (first | split | (dsimp only; split))
  all_goals (try (intro h; cases h; done))
  all_goals (rename_i h; exact absurd h (L.nocrash _ _ _))

theorem childAttrCrash_false {X : FactsXml} (hX : X.childAttrGuard = true) (fields : List (Text × Ty))
    (attrs : List (Text × Text)) : childAttrCrash X fields attrs = false := by
  simp [childAttrCrash, hX]

mutual
  theorem fromElement_nocrash {F : Facts08} (L : LeafLaws F) {X : FactsXml} (hX : X.childAttrGuard = true)
      (cfg : Cfg) (I : Iface) (t : Ty) : (x : Node) → (e : String) → fromElement F X cfg I t x ≠ .crash e
    | .elem ns name attrs text children, e => by
      unfold fromElement
      repeat' (first | split | (dsimp only; split))
      all_goals first
        | (intro h; cases h; done)
        | exact leafFromElement_nocrash L X cfg _ _ _ e
        | (rename_i h; exact absurd h (childLoop_nocrash L hX cfg I _ children _ _))
        | (rename_i h; exact absurd h (arrayLoop_nocrash L hX cfg I _ children _))

  theorem childLoop_nocrash {F : Facts08} (L : LeafLaws F) {X : FactsXml} (hX : X.childAttrGuard = true)
      (cfg : Cfg) (I : Iface) (fields : List (Text × Ty)) :
      (cs : List Node) → (st : List (Text × Val)) → (e : String) → childLoop F X cfg I fields cs st ≠ .crash e
    | [], st, e => by simp [childLoop]
    | c :: cs, st, e => by
      unfold childLoop
      repeat' (first | split | (dsimp only; split))
      all_goals first
        | (intro h; cases h; done)
        | exact childLoop_nocrash L hX cfg I fields cs _ e
        | (rename_i h; simp [childAttrCrash_false hX] at h; done)
        | (rename_i h; exact absurd h (fromElement_nocrash L hX cfg I _ c _))

  theorem arrayLoop_nocrash {F : Facts08} (L : LeafLaws F) {X : FactsXml} (hX : X.childAttrGuard = true)
      (cfg : Cfg) (I : Iface) (elem : Ty) :
      (cs : List Node) → (e : String) → arrayLoop F X cfg I elem cs ≠ .crash e
    | [], e => by simp [arrayLoop]
    | c :: cs, e => by
      unfold arrayLoop
      repeat' (first | split | (dsimp only; split))
      all_goals first
        | (intro h; cases h; done)
        | (rename_i h; exact absurd h (arrayLoop_nocrash L hX cfg I elem cs _))
        | (rename_i h; exact absurd h (fromElement_nocrash L hX cfg I _ c _))
end

end Xml
end SpyneModel
