/-
  C12 lemmas, part 2: request threads over the shared caches / validator.

  Invariant (`RInv`): every cache cell holds nothing or f(key) (`graph`), and every operation any
  thread still has to execute is `Safe`.  Under it a step of any thread leaves every thread's
  sequential response (`soloResponse`) unchanged — so whatever the schedule, a finished thread has
  observed exactly what it observes when it runs alone.
-/
import SpyneModel.ConcCache
set_option linter.unusedSimpArgs false
set_option linter.unusedVariables false
namespace SpyneModel.Conc

theorem rsetLoc_loc (s : RState) (i : Nat) (l : RLocal) (j : Nat) :
    (s.setLoc i l).loc j = if j = i then l else s.loc j := rfl

theorem rrun_append (F : RFacts) (a b : List Nat) :
    ∀ s, rrun F s (a ++ b) = rrun F (rrun F s a) b := by
  induction a with
  | nil => intro s; rfl
  | cons i rest ih => intro s; simp only [List.cons_append, rrun]; exact ih _

/-- every pending operation of the thread is safe -/
def AllSafe (F : RFacts) (l : RLocal) : Prop := ∀ op ∈ l.todo, op.Safe F

structure RInv (F : RFacts) (s : RState) : Prop where
  graph : ∀ k v, s.table k = some v → v = .full
  safe : ∀ i, AllSafe F (s.loc i)

theorem rinv_step (F : RFacts) (s : RState) (i : Nat) (h : RInv F s) : RInv F (rstep F s i) := by
  obtain ⟨hg, hn⟩ := h
  have hni := hn i
  unfold rstep
  generalize hl : s.loc i = l at *
  obtain ⟨arg, inv, todo, obs, hits, err, cells⟩ := l
  cases todo with
  | nil => exact ⟨hg, hn⟩
  | cons op rest =>
    have hrest : ∀ op' ∈ rest, op'.Safe F := fun op' h' => hni op' (List.mem_cons_of_mem _ h')
    have hop : op.Safe F := hni op List.mem_cons_self
    have frame : ∀ (s' : RState), (∀ k v, s'.table k = some v → v = .full) → (s'.loc i).todo = rest →
        (∀ j, j ≠ i → s'.loc j = s.loc j) → RInv F s' := by
      intro s' h1 h2 h3
      refine ⟨h1, fun j => ?_⟩
      by_cases hj : j = i
      · subst hj; intro op' h'; rw [h2] at h'; exact hrest op' h'
      · rw [h3 j hj]; exact hn j
    cases op with
    | probe k =>
      simp only
      split <;> (apply frame _ (by simpa [RState.setLoc] using hg) (by simp [RState.setLoc]) (by intro j hj; simp [RState.setLoc, hj]))
    | publish k =>
      have hno : ¬ (k.c = .bind ∧ F.rebindRaises = true ∧ (s.table k).isSome) := by
        intro ⟨h1, h2, _⟩; have := hop.2 h1; rw [this] at h2; cases h2
      simp only [hno, if_false]
      apply frame _ _ (by simp [RState.setLoc]) (by intro j hj; simp [RState.setLoc, RState.setTable, hj])
      intro k' v; simp only [RState.setLoc, RState.setTable]
      split
      · intro h; cases h; exact hop.1
      · exact hg k' v
    | complete k =>
      apply frame _ _ (by simp [RState.setLoc]) (by intro j hj; simp [RState.setLoc, RState.setTable, hj])
      intro k' v; simp only [RState.setLoc, RState.setTable]
      split
      · intro h; cases h; rfl
      · exact hg k' v
    | validate =>
      apply frame _ (by simpa [RState.setLoc] using hg) (by simp [RState.setLoc]) (by intro j hj; simp [RState.setLoc, hj])
    | readErr =>
      simp only
      split <;> (apply frame _ (by simpa [RState.setLoc] using hg) (by simp [RState.setLoc]) (by intro j hj; simp [RState.setLoc, hj]))
    | park x => exact absurd hop (by simp [ROp.Safe])
    | unpark x => exact absurd hop (by simp [ROp.Safe])
    | setCtx c =>
      have hc : F.ctxShared c = false := hop
      simp only [hc]
      apply frame _ (by simpa [RState.setLoc] using hg) (by simp [RState.setLoc]) (by intro j hj; simp [RState.setLoc, hj])
    | getCtx c =>
      have hc : F.ctxShared c = false := hop
      simp only [hc]
      apply frame _ (by simpa [RState.setLoc] using hg) (by simp [RState.setLoc]) (by intro j hj; simp [RState.setLoc, hj])

/-- under the invariant a step of any thread leaves every thread's sequential response unchanged -/
theorem solo_step (F : RFacts) (s : RState) (i j : Nat) (h : RInv F s) :
    soloResponse ((rstep F s i).loc j) = soloResponse (s.loc j) := by
  obtain ⟨hg, hn⟩ := h
  have hni := hn i
  unfold rstep
  generalize hl : s.loc i = l at *
  obtain ⟨arg, inv, todo, obs, hits, err, cells⟩ := l
  cases todo with
  | nil => rfl
  | cons op rest =>
    have hop : op.Safe F := hni op List.mem_cons_self
    by_cases hj : j = i
    · subst hj
      cases op with
      | probe k =>
        simp only
        split
        · rename_i v hv
          have := hg k v hv; subst this
          simp [RState.setLoc, soloResponse, hl, soloObs]
        · simp [RState.setLoc, soloResponse, hl, soloObs]
      | publish k =>
        have hno : ¬ (k.c = .bind ∧ F.rebindRaises = true ∧ (s.table k).isSome) := by
          intro ⟨h1, h2, _⟩; have := hop.2 h1; rw [this] at h2; cases h2
        simp only [hno, if_false]
        simp [RState.setLoc, RState.setTable, soloResponse, hl, soloObs]
      | complete k => simp [RState.setLoc, RState.setTable, soloResponse, hl, soloObs]
      | validate => simp [RState.setLoc, soloResponse, hl, soloObs, payloadError]
      | readErr =>
        have he : F.errRead = .underLock := hop
        simp only [he]
        simp [RState.setLoc, soloResponse, hl, soloObs]
      | park x => exact absurd hop (by simp [ROp.Safe])
      | unpark x => exact absurd hop (by simp [ROp.Safe])
      | setCtx c =>
        have hc : F.ctxShared c = false := hop
        simp only [hc]
        have hfun : (fun y => List.lookup y ((c, arg) :: cells)) = fun y => if y = c then some arg else List.lookup y cells := by
          funext y
          by_cases hy : y = c
          · subst hy; simp [List.lookup]
          · have : (y == c) = false := by simpa using hy
            simp [List.lookup, this, hy]
        simp [RState.setLoc, soloResponse, hl, soloObs, hfun]
      | getCtx c =>
        have hc : F.ctxShared c = false := hop
        simp only [hc]
        simp [RState.setLoc, soloResponse, hl, soloObs]
    · cases op <;> simp only <;> (try split) <;> simp [RState.setLoc, RState.setTable, hj]

theorem rinv_run (F : RFacts) (sched : List Nat) : ∀ s, RInv F s → RInv F (rrun F s sched) := by
  induction sched with
  | nil => intro s h; exact h
  | cons i rest ih => intro s h; exact ih _ (rinv_step F s i h)

theorem solo_run (F : RFacts) (sched : List Nat) (j : Nat) :
    ∀ s, RInv F s → soloResponse ((rrun F s sched).loc j) = soloResponse (s.loc j) := by
  induction sched with
  | nil => intro s _; rfl
  | cons i rest ih =>
    intro s h
    simp only [rrun]
    rw [ih _ (rinv_step F s i h), solo_step F s i j h]

/-- a finished thread's observations are its sequential response -/
theorem finished_obs (l : RLocal) (h : l.finished = true) : soloResponse l = l.obs := by
  unfold RLocal.finished at h
  have : l.todo = [] := by simpa using h
  simp [soloResponse, this, soloObs]

theorem rinit_loc (reqs : List RLocal) (i : Nat) : (rinit reqs).loc i = reqs.getD i {} := rfl

theorem rinv_init (F : RFacts) (reqs : List RLocal) (h : ∀ l ∈ reqs, AllSafe F l) : RInv F (rinit reqs) := by
  refine ⟨by intro k v; simp [rinit], fun i => ?_⟩
  rw [rinit_loc]
  by_cases hi : i < reqs.length
  · rw [List.getD_eq_getElem?_getD, List.getElem?_eq_getElem hi]
    exact h _ (List.getElem_mem hi)
  · rw [List.getD_eq_getElem?_getD, List.getElem?_eq_none (by omega)]
    intro op hop; simp at hop

/-- MAIN (request threads): for every schedule, a thread that has finished observed exactly what
    the same request observes when it is processed alone -/
theorem requests_alone (F : RFacts) (reqs : List RLocal) (h : ∀ l ∈ reqs, AllSafe F l)
    (sched : List Nat) (i : Nat) (hfin : ((rrun F (rinit reqs) sched).loc i).finished = true) :
    ((rrun F (rinit reqs) sched).loc i).obs = soloResponse ((rinit reqs).loc i) := by
  rw [← finished_obs _ hfin]
  exact solo_run F sched i _ (rinv_init F reqs h)

/-! ### the caches alone: transparent whatever else the requests do -/

/-- only the cache part of the invariant; needs nothing but the publication order -/
theorem graph_step (F : RFacts) (hF : ∀ c, F.order c = .afterInit) (s : RState) (i : Nat)
    (hg : ∀ k v, s.table k = some v → v = .full) :
    ∀ k v, (rstep F s i).table k = some v → v = .full := by
  unfold rstep
  generalize s.loc i = l
  obtain ⟨arg, inv, todo, obs, hits, err, cells⟩ := l
  cases todo with
  | nil => exact hg
  | cons op rest =>
    cases op with
    | probe k => simp only; split <;> simpa [RState.setLoc] using hg
    | publish k =>
      simp only
      split
      · simpa [RState.setLoc] using hg
      · intro k' v; simp only [RState.setLoc, RState.setTable]
        split
        · intro h; cases h; simp [published, hF]
        · exact hg k' v
    | complete k =>
      intro k' v; simp only [RState.setLoc, RState.setTable]
      split
      · intro h; cases h; rfl
      · exact hg k' v
    | validate => simpa [RState.setLoc] using hg
    | readErr => simp only; split <;> simpa [RState.setLoc] using hg
    | park x => simpa [RState.setLoc] using hg
    | unpark x => simpa [RState.setLoc] using hg
    | setCtx c => simp only; split <;> simpa [RState.setLoc] using hg
    | getCtx c => simp only; split <;> simpa [RState.setLoc] using hg

theorem graph_run (F : RFacts) (hF : ∀ c, F.order c = .afterInit) (sched : List Nat) :
    ∀ s, (∀ k v, s.table k = some v → v = .full) →
      ∀ k v, (rrun F s sched).table k = some v → v = .full := by
  induction sched with
  | nil => intro s h; exact h
  | cons i rest ih => intro s h; exact ih _ (graph_step F hF s i h)

/-- every value a lookup ever returned is f(key) -/
def ObsFull (l : RLocal) : Prop := ∀ k v, Obs.val k v ∈ l.obs → v = .full

theorem obsfull_step (F : RFacts) (s : RState) (i j : Nat)
    (hg : ∀ k v, s.table k = some v → v = .full) (ho : ObsFull (s.loc j)) :
    ObsFull ((rstep F s i).loc j) := by
  unfold rstep
  generalize hl : s.loc i = l at *
  obtain ⟨arg, inv, todo, obs, hits, err, cells⟩ := l
  cases todo with
  | nil => exact ho
  | cons op rest =>
    by_cases hj : j = i
    · subst hj
      rw [hl] at ho
      cases op with
      | probe k =>
        simp only
        split
        · rename_i v hv
          have := hg k v hv; subst this
          intro k' v' hm
          simp [RState.setLoc] at hm
          rcases hm with hm | hm
          · exact ho k' v' hm
          · exact hm.2
        · intro k' v' hm
          simp [RState.setLoc] at hm
          rcases hm with hm | hm
          · exact ho k' v' hm
          · exact hm.2
      | publish k =>
        simp only
        split <;> (intro k' v' hm; simp [RState.setLoc, RState.setTable] at hm; exact ho k' v' hm)
      | complete k => intro k' v' hm; simp [RState.setLoc, RState.setTable] at hm; exact ho k' v' hm
      | validate => intro k' v' hm; simp [RState.setLoc] at hm; exact ho k' v' hm
      | readErr =>
        simp only
        split <;> (intro k' v' hm; simp [RState.setLoc] at hm; exact ho k' v' hm)
      | park x => intro k' v' hm; simp [RState.setLoc] at hm; exact ho k' v' hm
      | unpark x => intro k' v' hm; simp [RState.setLoc] at hm; exact ho k' v' hm
      | setCtx c =>
        simp only
        split <;> (intro k' v' hm; simp [RState.setLoc] at hm; exact ho k' v' hm)
      | getCtx c =>
        simp only
        split <;> (intro k' v' hm; simp [RState.setLoc] at hm; exact ho k' v' hm)
    · have : (rstep F s i).loc j = s.loc j := by
        unfold rstep; rw [hl]
        cases op <;> simp only <;> (try split) <;> simp [RState.setLoc, RState.setTable, hj]
      unfold rstep at this; rw [hl] at this; simp only at this
      rw [this]; exact ho

theorem obsfull_run (F : RFacts) (hF : ∀ c, F.order c = .afterInit) (sched : List Nat) (j : Nat) :
    ∀ s, (∀ k v, s.table k = some v → v = .full) → ObsFull (s.loc j) →
      ObsFull ((rrun F s sched).loc j) := by
  induction sched with
  | nil => intro s _ h; exact h
  | cons i rest ih =>
    intro s hg ho
    exact ih _ (graph_step F hF s i hg) (obsfull_step F s i j hg ho)

/-- a thread running alone finishes after as many steps as it has operations -/
theorem todo_step (F : RFacts) (s : RState) (i : Nat) :
    ((rstep F s i).loc i).todo = (s.loc i).todo.tail := by
  unfold rstep
  generalize hl : s.loc i = l
  obtain ⟨arg, inv, todo, obs, hits, err, cells⟩ := l
  cases todo with
  | nil => simp [hl]
  | cons op rest => cases op <;> simp only <;> (try split) <;> simp [RState.setLoc, RState.setTable]

theorem todo_run_alone (F : RFacts) (i : Nat) (n : Nat) :
    ∀ s, (s.loc i).todo.length ≤ n → ((rrun F s (List.replicate n i)).loc i).todo = [] := by
  induction n with
  | zero => intro s h; simpa [rrun] using h
  | succ n ih =>
    intro s h
    simp only [List.replicate, rrun]
    apply ih
    rw [todo_step]
    simp only [List.length_tail]
    omega

end SpyneModel.Conc
