/-
  C15 proofs, part 5: every model program keeps the variants discipline (`Inv`), given the rule that every
  declared class has its own `_variants` entry and the rule that Mandatory copies.
-/
import Proofs.DeriveInv
namespace SpyneModel.Derive

theorem updFields_ok (g : Cls → List (String × Nat)) :
    ∀ cl : Cls, ({ cl with fields := g cl } : Cls).kind = cl.kind ∧ ({ cl with fields := g cl } : Cls).attrs = cl.attrs
      ∧ ({ cl with fields := g cl } : Cls).orig = cl.orig := fun _ => ⟨rfl, rfl, rfl⟩

theorem keeps_simpleCustomize (F : Facts15) (src : Nat) (kw : Kw) : Keeps Tr (simpleCustomize F src kw) TrQ := by
  unfold simpleCustomize
  refine Keeps.bind (Keeps.getCls Tr _) (fun sc => ?_)
  refine Keeps.guardThen _ _ _ _ (fun he => ?_)
  have hk : sc.kind.isComplex = false := by
    cases hc : sc.kind.isComplex with
    | true => simp [hc] at he
    | false => rfl
  refine Keeps.bind (Keeps.getHeap _) (fun h => ?_)
  refine Keeps.bind (Keeps.guardNone _ _) (fun _ => ?_)
  refine Keeps.bind (keeps_allocDerived _ _ _).anyPre (fun a => ?_)
  refine Keeps.bind (Keeps.getHeap _) (fun h1 => ?_)
  refine (Keeps.allocCls_simple _ ?_).weaken (fun _ p => ?_) (fun _ _ q => q)
  · unfold simpleNewCls; split <;> exact hk
  · have : (simpleNewCls F h1 sc src a kw).attrs = a := by unfold simpleNewCls; split <;> rfl
    rw [this]; exact p.1

theorem keeps_xmlCustomize (F : Facts15) (src : Nat) (kw : Kw) : Keeps Tr (xmlCustomize F src kw) TrQ := by
  unfold xmlCustomize
  refine Keeps.bind (Keeps.getCls Tr _) (fun sc => ?_)
  refine Keeps.guardThen _ _ _ _ (fun he => ?_)
  have hk : sc.kind.isComplex = false := by
    cases hc : sc.kind.isComplex with
    | true => simp [hc] at he
    | false => rfl
  refine Keeps.bind (keeps_allocDerived _ _ _).anyPre (fun a => ?_)
  refine (Keeps.allocCls_simple _ ?_).weaken (fun _ p => p) (fun _ _ q => q)
  exact hk

theorem keeps_copyDca (a : Nat) : Keeps Tr (copyDca a) TrQ := by
  unfold copyDca
  exact Keeps.bind (Keeps.getHeap _) (fun h => Keeps.updCells _ _ _ (fun _ => rfl))

theorem keeps_delayRest (c a : Nat) (rest : List (String × Kw)) : Keeps Tr (delayRest c a rest) TrQ := by
  unfold delayRest
  exact Keeps.bind (Keeps.getHeap _) (fun h => Keeps.updCells _ _ _ (fun _ => rfl))

theorem keeps_regSub (ext : Option Nat) (c : Nat) : Keeps Tr (regSub ext c) TrQ := by
  unfold regSub
  split
  · exact Keeps.updCls _ _ _ (fun _ => ⟨rfl, rfl, rfl⟩)
  · exact Keeps.pureT _ _

theorem keeps_regSubVariant (F : Facts15) (ext : Option Nat) (c : Nat) : Keeps Tr (regSubVariant F ext c) TrQ := by
  unfold regSubVariant
  split
  · exact keeps_regSub _ _
  · exact Keeps.pureT _ _

structure KeepsCust (F : Facts15) (fuel : Nat) : Prop where
  custComplex : ∀ src kw ca caa, Keeps Tr (custComplex F fuel src kw ca caa) TrQ
  processCaa : ∀ c a fields ext caa, Keeps Tr (processCaa F fuel c a fields ext caa) TrQ
  processCa : ∀ c a ca, Keeps Tr (processCa F fuel c a ca) TrQ
  custExt : ∀ c ext ca caa, Keeps Tr (custExt F fuel c ext ca caa) TrQ
  customizeAny : ∀ src kw, Keeps Tr (customizeAny F fuel src kw) TrQ
  custField : ∀ c k kw, Keeps Tr (custField F fuel c k kw) TrQ
  custFieldsAll : ∀ c fields d, Keeps Tr (custFieldsAll F fuel c fields d) TrQ
  custFieldsSome : ∀ c cs, Keeps Tr (custFieldsSome F fuel c cs) TrQ

theorem keepsCust (F : Facts15) (fuel : Nat) : KeepsCust F fuel := by
  induction fuel with
  | zero =>
    constructor <;> intros <;> simp only [custComplex, processCaa, processCa, custExt, customizeAny, custField,
      custFieldsAll, custFieldsSome] <;> exact Keeps.fail _ _ _
  | succ fuel ih =>
    constructor
    · intro src kw ca caa
      simp only [custComplex]
      refine Keeps.bind (Keeps.getCls Tr _) (fun sc => ?_)
      refine Keeps.guardThen _ _ _ _ (fun he => ?_)
      have hk : sc.kind.isComplex = true := by
        cases hc : sc.kind.isComplex with
        | true => rfl
        | false => simp [hc] at he
      refine Keeps.bind (Keeps.getHeap _) (fun h0 => ?_)
      refine Keeps.bind (Keeps.liftExcept _ _) (fun ext => ?_)
      refine Keeps.bind ((keeps_newVariant F sc src ext kw hk).weaken (fun _ p => p.1.1.2) (fun _ _ q => q)) (fun an => ?_)
      refine Keeps.bind (keeps_regSubVariant _ _ _).anyPre (fun _ => ?_)
      refine Keeps.bind (ih.processCaa _ _ _ _ _).anyPre (fun _ => ?_)
      refine Keeps.bind (ih.processCa _ _ _).anyPre (fun _ => ?_)
      exact Keeps.pureT _ _
    · intro c a fields ext caa
      unfold processCaa
      split
      · exact Keeps.pureT _ _
      · refine Keeps.bind (ih.custFieldsAll _ _ _) (fun _ => ?_)
        refine Keeps.bind (ih.custExt _ _ _ _).anyPre (fun _ => ?_)
        exact Keeps.updCells _ _ _ (fun _ => rfl)
    · intro c a ca
      unfold processCa
      split
      · exact Keeps.pureT _ _
      · refine Keeps.bind (ih.custFieldsSome _ _) (fun rest => ?_)
        refine Keeps.bind (Keeps.getCls _ _) (fun cn => ?_)
        refine Keeps.bind (ih.custExt _ _ _ _).anyPre (fun _ => ?_)
        exact (keeps_delayRest _ _ _).anyPre
    · intro c ext ca caa
      unfold custExt
      split
      · exact Keeps.pureT _ _
      · refine Keeps.bind (ih.custComplex _ _ _ _) (fun e' => ?_)
        exact Keeps.updCls _ _ _ (fun _ => ⟨rfl, rfl, rfl⟩)
    · intro src kw
      simp only [customizeAny]
      refine Keeps.bind (Keeps.getCls Tr _) (fun sc => ?_)
      split
      · exact (ih.custComplex _ _ _ _).anyPre
      · exact (ih.custComplex _ _ _ _).anyPre
      · exact (ih.custComplex _ _ _ _).anyPre
      · exact (keeps_xmlCustomize _ _ _).anyPre
      · exact (keeps_simpleCustomize _ _ _).anyPre
    · intro c k kw
      simp only [custField]
      refine Keeps.bind (Keeps.getCls Tr _) (fun cn => ?_)
      split
      · refine Keeps.bind (ih.customizeAny _ _).anyPre (fun t' => ?_)
        exact Keeps.updCls _ _ _ (fun _ => ⟨rfl, rfl, rfl⟩)
      · exact Keeps.pureT _ _
    · intro c fields d
      unfold custFieldsAll
      split
      · exact Keeps.pureT _ _
      · refine Keeps.bind (ih.custField _ _ _) (fun _ => ?_)
        exact (ih.custFieldsAll _ _ _).anyPre
    · intro c cs
      unfold custFieldsSome
      split
      · exact Keeps.pureT _ _
      · refine Keeps.bind (Keeps.getCls Tr _) (fun cn => ?_)
        split
        · refine Keeps.bind (ih.custField _ _ _).anyPre (fun _ => ?_)
          exact (ih.custFieldsSome _ _).anyPre
        · refine Keeps.bind (ih.custFieldsSome _ _).anyPre (fun r => ?_)
          exact Keeps.pureT _ _

theorem keeps_customizeAny (F : Facts15) (fuel src : Nat) (kw : Kw) : Keeps Tr (customizeAny F fuel src kw) TrQ :=
  (keepsCust F fuel).customizeAny src kw

theorem keeps_custComplex (F : Facts15) (fuel src : Nat) (kw : Kw) (ca : Option (List (String × Kw))) (caa : Option Kw) :
    Keeps Tr (custComplex F fuel src kw ca caa) TrQ := (keepsCust F fuel).custComplex src kw ca caa

theorem keeps_setSerializer (F : Facts15) (fuel r ser : Nat) (member : Option String) :
    Keeps Tr (setSerializer F fuel r ser member) TrQ := by
  unfold setSerializer
  refine Keeps.bind (Keeps.getCls Tr _) (fun sc => ?_)
  refine Keeps.bind (Keeps.getHeap _) (fun h => ?_)
  refine Keeps.bind (Q := TrQ) ?_ (fun ser' => Keeps.updCls _ _ _ (fun _ => ⟨rfl, rfl, rfl⟩))
  unfold unboundedSer
  split
  · exact (keeps_customizeAny _ _ _ _).anyPre
  · exact Keeps.pureT _ _

theorem keeps_arrayOp (F : Facts15) (fuel src : Nat) (member : Option String) (kw : Kw) (flat iter : Bool) :
    Keeps Tr (arrayOp F fuel src member kw flat iter) TrQ := by
  unfold arrayOp
  refine Keeps.bind (Keeps.getCls Tr _) (fun sc => ?_)
  refine Keeps.bind (Keeps.getHeap _) (fun h => ?_)
  split
  · exact (keeps_customizeAny _ _ _ _).anyPre
  · refine Keeps.bind (keeps_custComplex _ _ _ _ _ _).anyPre (fun r => ?_)
    refine Keeps.bind (keeps_setSerializer _ _ _ _ _).anyPre (fun _ => ?_)
    refine Keeps.bind (Keeps.updCls _ _ _ (fun _ => ⟨rfl, rfl, rfl⟩)) (fun _ => ?_)
    exact Keeps.pureT _ _

theorem keeps_arraySA (F : Facts15) (fuel src : Nat) (sa kw : Kw) (ca : Option (List (String × Kw))) (caa : Option Kw) :
    Keeps Tr (arraySA F fuel src sa kw ca caa) TrQ := by
  unfold arraySA
  refine Keeps.bind (Keeps.getCls Tr _) (fun sc => ?_)
  split
  · refine Keeps.bind (keeps_customizeAny _ _ _ _).anyPre (fun m' => ?_)
    refine Keeps.bind (keeps_custComplex _ _ _ _ _ _).anyPre (fun r1 => ?_)
    refine Keeps.bind (keeps_setSerializer _ _ _ _ _).anyPre (fun _ => ?_)
    exact (keeps_custComplex _ _ _ _ _ _).anyPre
  · exact Keeps.fail _ _ _

structure KeepsMand (F : Facts15) (fuel : Nat) : Prop where
  mandatory : ∀ src, Keeps Tr (mandatory F fuel src) TrQ
  mandMember : ∀ b target, Keeps Tr (mandMember F fuel b target) TrQ

theorem keepsMand (F : Facts15) (fuel : Nat) : KeepsMand F fuel := by
  induction fuel with
  | zero => constructor <;> intros <;> simp only [mandatory, mandMember] <;> exact Keeps.fail _ _ _
  | succ fuel ih =>
    constructor
    · intro src
      simp only [mandatory]
      refine Keeps.bind (Keeps.getCls Tr _) (fun sc => ?_)
      split
      · refine Keeps.bind (ih.mandMember _ _).anyPre (fun _ => ?_)
        exact (keeps_customizeAny _ _ _ _).anyPre
      · refine Keeps.bind (keeps_customizeAny _ _ _ _).anyPre (fun r => ?_)
        refine Keeps.bind (ih.mandMember _ _).anyPre (fun _ => ?_)
        exact Keeps.pureT _ _
    · intro b target
      unfold mandMember
      split
      · exact Keeps.pureT _ _
      · refine Keeps.bind (Keeps.getCls Tr _) (fun tc => ?_)
        split
        · refine Keeps.bind (Keeps.getHeap _) (fun h => ?_)
          split
          · refine Keeps.bind (ih.mandatory _).anyPre (fun m => ?_)
            exact Keeps.updCls _ _ _ (fun _ => ⟨rfl, rfl, rfl⟩)
          · exact Keeps.pureT _ _
        · exact Keeps.fail _ _ _

theorem keeps_subclassOp (F : Facts15) (hF : F.varRule = .ownPerClass) (hX : F.varRuleX = .ownPerClass)
    (base : Option Nat) (name : String) (ns : Option String) (fields : List (String × Nat)) (perm : List Nat)
    (attrs : Option Kw) (mixins : List Nat) (asMixin : Bool) :
    Keeps Tr (subclassOp F base name ns fields perm attrs mixins asMixin) TrQ := by
  unfold subclassOp subclassRest
  refine Keeps.bind (Keeps.getCls Tr _) (fun bc => ?_)
  refine Keeps.bind (Keeps.liftExcept _ _) (fun ext => ?_)
  refine Keeps.bind (Keeps.getHeap _) (fun h0 => ?_)
  refine Keeps.bind (Keeps.guardNone _ _) (fun _ => ?_)
  refine Keeps.bind (Keeps.allocBoth_declared _ _ _ (by cases attrs <;> simp [declaredVariants, hF, hX])
    (fun _ => ⟨rfl, rfl, rfl⟩)) (fun c => ?_)
  refine Keeps.bind (keeps_regSub _ _).anyPre (fun _ => ?_)
  exact Keeps.pureT _ _

theorem keeps_protMerge (F : Facts15) (prot : Option Nat) (kw : Kw) (P : Heap → Prop)
    (hP : ∀ h h' : Heap, h'.cls = h.cls → P h → P h') : Keeps P (protMerge F prot kw) (fun _ h => P h) := by
  unfold protMerge
  split
  · exact (Keeps.pure _ _).weaken (fun _ p => p) (fun _ _ q => q.1)
  · refine Keeps.bind (Keeps.getHeap P) (fun h0 => ?_)
    split
    · exact Keeps.fail _ _ _
    · split
      · exact (Keeps.pure _ _).weaken (fun _ p => p) (fun _ _ q => q.1.1)
      · refine Keeps.bind (Q := fun _ h => P h) ?_ (fun _ => (Keeps.pure _ _).weaken (fun _ p => p) (fun _ _ q => q.1))
        unfold whenM
        split
        · intro h ih p
          exact ⟨ih, fun h' u he => by
            simp only [SpyneModel.Derive.updProt] at he
            cases he
            exact hP h _ rfl p.1⟩
        · exact (Keeps.pure _ _).weaken (fun _ p => p) (fun _ _ q => q.1.1)

theorem keeps_xmlattrOp (F : Facts15) (src : Nat) : Keeps Tr (xmlattrOp F src) TrQ := by
  unfold xmlattrOp
  refine Keeps.bind (Keeps.getCls Tr _) (fun sc => ?_)
  refine Keeps.bind (Keeps.getCls _ _) (fun rc => ?_)
  refine Keeps.guardThen _ _ _ _ (fun he => ?_)
  have hk : rc.kind.isComplex = false := by
    cases hc : rc.kind.isComplex with
    | true => simp [hc] at he
    | false => rfl
  intro h ih p
  have hsc : h.cls[src]? = some sc := p.1.2
  have hex : (viewOf h).var sc.attrs ≠ none :=
    ih.range src sc.kind.isComplex sc.attrs sc.orig (by simp [viewOf, hsc])
  refine Keeps.allocCls_simple _ ?_ h ih hex
  exact hk

theorem keeps_delayedAll (F : Facts15) (fuel c t : Nat) : Keeps Tr (delayedAll F fuel c t) TrQ := by
  unfold delayedAll
  refine Keeps.bind (Keeps.getCls Tr _) (fun cl => ?_)
  refine Keeps.bind (Keeps.getHeap _) (fun h => ?_)
  split
  · exact (keeps_customizeAny _ _ _ _).anyPre
  · exact Keeps.pureT _ _

theorem keeps_delayedOne (F : Facts15) (fuel c : Nat) (name : String) (t : Nat) (pop : Bool) :
    Keeps Tr (delayedOne F fuel c name t pop) TrQ := by
  unfold delayedOne
  refine Keeps.bind (Keeps.getCls Tr _) (fun cl => ?_)
  refine Keeps.bind (Keeps.getHeap _) (fun h => ?_)
  split
  · split
    · refine Keeps.bind (Keeps.whenM _ _ (Keeps.updCells _ _ _ (fun _ => rfl))) (fun _ => ?_)
      exact (keeps_customizeAny _ _ _ _).anyPre
    · exact Keeps.pureT _ _
  · exact Keeps.pureT _ _

theorem keeps_delayedBoth (F : Facts15) (fuel : Nat) (order : DelayOrder) (c : Nat) (name : String) (t : Nat) (pop : Bool) :
    Keeps Tr (delayedBoth F fuel order c name t pop) TrQ := by
  unfold delayedBoth
  cases order with
  | allFirst => exact Keeps.bind (keeps_delayedAll _ _ _ _) (fun t1 => (keeps_delayedOne _ _ _ _ _ _).anyPre)
  | oneFirst => exact Keeps.bind (keeps_delayedOne _ _ _ _ _ _) (fun t1 => (keeps_delayedAll _ _ _ _).anyPre)

theorem keeps_appendImpl (F : Facts15) (fuel : Nat) (name : String) (t c : Nat) :
    Keeps Tr (appendImpl F fuel name t c) TrQ := by
  unfold appendImpl
  refine Keeps.bind (keeps_delayedBoth _ _ _ _ _ _ _) (fun t2 => ?_)
  exact Keeps.updCls _ _ _ (fun _ => ⟨rfl, rfl, rfl⟩)

theorem keeps_insertImpl (F : Facts15) (fuel idx : Nat) (name : String) (t c : Nat) :
    Keeps Tr (insertImpl F fuel idx name t c) TrQ := by
  unfold insertImpl
  refine Keeps.bind (keeps_delayedBoth _ _ _ _ _ _ _) (fun t2 => ?_)
  exact Keeps.updCls _ _ _ (fun _ => ⟨rfl, rfl, rfl⟩)

theorem keeps_forEach (f : Nat → M Unit) (hf : ∀ v, Keeps Tr (f v) TrQ) (l : List Nat) : Keeps Tr (forEach f l) TrQ := by
  induction l with
  | nil => exact Keeps.pureT _ _
  | cons v vs ih =>
    simp only [forEach]
    exact Keeps.bind (hf v) (fun _ => ih.anyPre)

theorem keeps_evolve (impl : Nat → M Unit) (hf : ∀ v, Keeps Tr (impl v) TrQ) (c : Nat) : Keeps Tr (evolve impl c) TrQ := by
  unfold evolve
  refine Keeps.bind (hf c) (fun _ => ?_)
  refine Keeps.bind (Keeps.getHeap _) (fun h => ?_)
  refine (keeps_forEach _ (fun v => ?_) _).anyPre
  unfold evolveVariant
  refine Keeps.bind (hf v) (fun _ => ?_)
  refine Keeps.bind (Keeps.getHeap _) (fun h' => ?_)
  exact (keeps_forEach _ hf _).anyPre

theorem keeps_opProg (F : Facts15) (hF : F.varRule = .ownPerClass) (hX : F.varRuleX = .ownPerClass) (fuel : Nat) (op : Op) :
    Keeps Tr (opProg F fuel op) TrQ := by
  cases op with
  | customize src kw ca caa prot nx sa =>
    simp only [opProg]
    refine Keeps.bind (Keeps.getCls Tr _) (fun sc => ?_)
    refine Keeps.bind (keeps_protMerge F prot kw _ (fun _ _ _ p => p)).anyPre (fun kwE => ?_)
    split
    · split
      · split
        · exact (Keeps.map _ (keeps_arraySA _ _ _ _ _ _ _)).anyPre
        · exact (Keeps.map _ (keeps_custComplex _ _ _ _ _ _)).anyPre
      · exact (Keeps.map _ (keeps_custComplex _ _ _ _ _ _)).anyPre
    · exact (Keeps.map _ (keeps_customizeAny _ _ _ _)).anyPre
  | array src member kw flat iter => exact Keeps.map _ (keeps_arrayOp _ _ _ _ _ _ _)
  | mandatory src => exact Keeps.map _ ((keepsMand F fuel).mandatory src)
  | subclass base name ns fields perm attrs mixins asMixin =>
    exact Keeps.map _ (keeps_subclassOp F hF hX _ _ _ _ _ _ _ _)
  | append c name t =>
    simp only [opProg]
    refine Keeps.bind (Keeps.getCls Tr _) (fun cl => ?_)
    refine Keeps.bind (Keeps.guardNone _ _) (fun _ => ?_)
    refine Keeps.bind (Keeps.getCls _ _) (fun _ => ?_)
    refine Keeps.bind (keeps_evolve _ (fun v => keeps_appendImpl F fuel name t v) c).anyPre (fun _ => ?_)
    exact Keeps.pureT _ _
  | insert c idx name t =>
    simp only [opProg]
    refine Keeps.bind (Keeps.getCls Tr _) (fun cl => ?_)
    refine Keeps.bind (Keeps.guardNone _ _) (fun _ => ?_)
    refine Keeps.bind (Keeps.getCls _ _) (fun _ => ?_)
    refine Keeps.bind (keeps_evolve _ (fun v => keeps_insertImpl F fuel idx name t v) c).anyPre (fun _ => ?_)
    exact Keeps.pureT _ _
  | xmlattr src => exact Keeps.map _ (keeps_xmlattrOp _ _)

/-- every operation - whether it returns or raises - keeps the variants discipline -/
theorem inv_apply (F : Facts15) (hF : F.varRule = .ownPerClass) (hX : F.varRuleX = .ownPerClass) (fuel : Nat) (h : Heap)
    (op : Op) (ih : Inv h) :
    Inv (apply F fuel h op).heap := (keeps_opProg F hF hX fuel op h ih trivial).1

theorem inv_runOps (F : Facts15) (hF : F.varRule = .ownPerClass) (hX : F.varRuleX = .ownPerClass) (fuel : Nat)
    (ops : List Op) :
    ∀ h, Inv h → Inv (runOps F fuel h ops) := by
  induction ops with
  | nil => intro h ih; exact ih
  | cons op ops ihops => intro h ih; exact ihops _ (inv_apply F hF hX fuel h op ih)

end SpyneModel.Derive
