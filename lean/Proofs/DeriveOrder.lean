/-
  C15 proofs, part 9: field order (ordered dict, flat type info, class statement) and deep snapshots.
-/
import Proofs.DeriveReach
namespace SpyneModel.Derive

/-! ## ordered dict -/

theorem keysOf_odictSet {β : Type} (d : List (String × β)) (k : String) (v : β) :
    keysOf (odictSet d k v) = if k ∈ keysOf d then keysOf d else keysOf d ++ [k] := by
  induction d with
  | nil => simp [odictSet, keysOf]
  | cons p rest ih =>
    simp only [odictSet]
    by_cases he : (p.1 == k) = true
    · have : p.1 = k := by simpa using he
      simp [he, keysOf, this]
    · have hne : ¬ p.1 = k := by simpa using he
      have hne' : ¬ k = p.1 := fun x => hne x.symm
      simp only [he, Bool.false_eq_true, if_false, keysOf, List.map_cons, List.mem_cons, hne', false_or] at ih ⊢
      rw [ih]
      by_cases hm : k ∈ List.map (fun x => x.1) rest
      · simp [hm]
      · simp [hm]

theorem keysOf_odictErase {β : Type} (d : List (String × β)) (k : String) :
    keysOf (odictErase d k) = (keysOf d).filter (fun x => !(x == k)) := by
  simp [odictErase, keysOf, List.filter_map, Function.comp_def]

theorem keysOf_listInsertAt {β : Type} (d : List (String × β)) (i : Nat) (k : String) (v : β) :
    keysOf (listInsertAt d i (k, v)) = listInsertAt (keysOf d) i k := by
  induction d generalizing i with
  | nil => cases i <;> simp [listInsertAt, keysOf]
  | cons p rest ih =>
    cases i with
    | zero => simp [listInsertAt, keysOf]
    | succ i => simp only [listInsertAt, keysOf, List.map_cons] at ih ⊢; rw [ih]

/-- `insert_field(i, k, ...)`: the key is taken out if present and put at position `i` (clipped) -/
theorem keysOf_odictInsert {β : Type} (d : List (String × β)) (i : Nat) (k : String) (v : β) :
    keysOf (odictInsert d i k v) = listInsertAt ((keysOf d).filter (fun x => !(x == k))) i k := by
  unfold odictInsert
  rw [keysOf_listInsertAt, keysOf_odictErase]

theorem foldl_odictSet_keys {β : Type} (l : List (String × β)) :
    ∀ acc : List (String × β), keysOf (l.foldl (fun a p => odictSet a p.1 p.2) acc) = mergeKeys (keysOf acc) (keysOf l) := by
  induction l with
  | nil => intro acc; simp [mergeKeys, keysOf]
  | cons p rest ih =>
    intro acc
    simp only [List.foldl_cons, keysOf, List.map_cons, mergeKeys] at ih ⊢
    rw [ih]
    congr 1
    have := keysOf_odictSet acc p.1 p.2
    simp only [keysOf] at this
    rw [this]
    by_cases hm : p.1 ∈ List.map (fun x => x.1) acc
    · simp [hm]
    · simp [hm]

theorem mergeKeys_nodup (ks : List String) :
    ∀ base : List String, ks.Nodup → mergeKeys base ks = base ++ ks.filter (fun k => !base.contains k) := by
  induction ks with
  | nil => intro base _; simp [mergeKeys]
  | cons k ks ih =>
    intro base hn
    have hk : k ∉ ks := (List.nodup_cons.mp hn).1
    have hn' : ks.Nodup := (List.nodup_cons.mp hn).2
    simp only [mergeKeys, List.foldl_cons] at ih ⊢
    by_cases hc : base.contains k = true
    · simp only [hc, if_true]
      rw [ih base hn']
      simp only [List.filter_cons, hc, Bool.not_true, Bool.false_eq_true, if_false]
    · simp only [hc, Bool.false_eq_true, if_false]
      rw [ih (base ++ [k]) hn']
      have : ks.filter (fun x => !(base ++ [k]).contains x) = ks.filter (fun x => !base.contains x) := by
        apply List.filter_congr
        intro x hx
        have : x ≠ k := fun e => hk (e ▸ hx)
        simp [this]
      rw [this]
      have hc' : base.contains k = false := by simpa using hc
      simp only [List.filter_cons, hc', Bool.not_false, if_true, List.append_assoc, List.singleton_append]

theorem mergeKeys_prefix (ks : List String) : ∀ base : List String, base <+: mergeKeys base ks := by
  induction ks with
  | nil => intro base; simp [mergeKeys]
  | cons k ks ih =>
    intro base
    simp only [mergeKeys, List.foldl_cons] at ih ⊢
    split
    · exact ih base
    · exact List.IsPrefix.trans (List.prefix_append base [k]) (ih (base ++ [k]))

/-- a class statement with distinct names: `_type_info` lists them as written -/
theorem keysOf_odictFromList {β : Type} (l : List (String × β)) (hn : (keysOf l).Nodup) :
    keysOf (odictFromList l) = keysOf l := by
  unfold odictFromList
  rw [foldl_odictSet_keys, mergeKeys_nodup _ _ hn]
  simp [keysOf]

/-! ## flat type info: parents first -/

theorem flatKeysF_succ (fuel : Nat) (h : Heap) (c : Nat) (cl : Cls) (hc : h.cls[c]? = some cl) :
    flatKeysF (fuel + 1) h c
      = mergeKeys (match cl.ext with | some e => flatKeysF fuel h e | none => []) (keysOf cl.fields) := by
  simp only [flatKeysF, hc]
  rfl

/-- the flat field list of a class starts with the flat field list of its base -/
theorem flat_parents_first (fuel : Nat) (h : Heap) (c e : Nat) (cl : Cls) (hc : h.cls[c]? = some cl)
    (he : cl.ext = some e) : flatKeysF fuel h e <+: flatKeysF (fuel + 1) h c := by
  rw [flatKeysF_succ fuel h c cl hc, he]
  exact mergeKeys_prefix _ _

/-- ... followed by the own fields that the bases do not have, in `_type_info` order -/
theorem flat_then_own (fuel : Nat) (h : Heap) (c : Nat) (cl : Cls) (hc : h.cls[c]? = some cl)
    (hn : (keysOf cl.fields).Nodup) :
    flatKeysF (fuel + 1) h c
      = (match cl.ext with | some e => flatKeysF fuel h e | none => [])
        ++ (keysOf cl.fields).filter
            (fun k => !(match cl.ext with | some e => flatKeysF fuel h e | none => []).contains k) := by
  rw [flatKeysF_succ fuel h c cl hc]
  exact mergeKeys_nodup _ _ hn

/-! ## deep snapshots -/

/-- the classes a shallow observation refers to -/
def succs (o : Obs1) : List Nat :=
  o.fields.map (·.2) ++ o.ext.toList ++ o.orig.toList ++ o.target.toList ++ o.subs.getD []

theorem obs1_some (F : Facts15) (h : Heap) (c : Nat) (o : Obs1) (ho : obs1 F h c = some o) :
    ∃ cl, h.cls[c]? = some cl ∧ o.fields = cl.fields ∧ o.ext = cl.ext ∧ o.tn = cl.tn := by
  unfold obs1 at ho
  cases hc : h.cls[c]? with
  | none => simp [hc] at ho
  | some cl =>
    simp only [hc, Option.some.injEq] at ho
    subst ho
    exact ⟨cl, rfl, rfl, rfl, rfl⟩

theorem obs1_none (F : Facts15) (h : Heap) (c : Nat) (ho : obs1 F h c = none) : h.cls[c]? = none := by
  unfold obs1 at ho
  cases hc : h.cls[c]? with
  | none => rfl
  | some cl => simp [hc] at ho

theorem flatKeysF_congr (F : Facts15) (h h' : Heap) (S : Nat → Prop)
    (hs : ∀ x, S x → obs1 F h' x = obs1 F h x)
    (hclosed : ∀ x o, S x → obs1 F h x = some o → ∀ y, y ∈ succs o → S y) :
    ∀ fuel c, S c → flatKeysF fuel h' c = flatKeysF fuel h c := by
  intro fuel
  induction fuel with
  | zero => intro c _; rfl
  | succ fuel ih =>
    intro c hc
    have ho' := hs c hc
    cases ho : obs1 F h c with
    | none =>
      rw [ho] at ho'
      simp only [flatKeysF, obs1_none F h c ho, obs1_none F h' c ho']
    | some o =>
      rw [ho] at ho'
      obtain ⟨cl, h1, hf, he, _⟩ := obs1_some F h c o ho
      obtain ⟨cl', h2, hf', he', _⟩ := obs1_some F h' c o ho'
      simp only [flatKeysF, h1, h2, ← hf, ← hf', ← he, ← he']
      cases hext : o.ext with
      | none => rfl
      | some e =>
        simp only
        rw [ih e (hclosed c o hc ho e (by simp [succs, hext]))]

theorem tnOf_congr (F : Facts15) (h h' : Heap) (r : Nat) (ho : obs1 F h' r = obs1 F h r) : tnOf h' r = tnOf h r := by
  unfold tnOf
  cases hr : obs1 F h r with
  | none =>
    rw [hr] at ho
    simp [obs1_none F h r hr, obs1_none F h' r ho]
  | some o =>
    rw [hr] at ho
    obtain ⟨cl, h1, _, _, ht⟩ := obs1_some F h r o hr
    obtain ⟨cl', h2, _, _, ht'⟩ := obs1_some F h' r o ho
    simp [h1, h2, ← ht, ← ht']

theorem obsRefs_sub (o : Obs1) : ∀ p, p ∈ obsRefs o → p.2 ∈ succs o := by
  intro p hp
  unfold obsRefs at hp
  split at hp
  · rename_i t _ ht
    simp only [List.mem_singleton] at hp
    subst hp
    simp [succs, ht]
  · simp only [succs, List.mem_append, List.mem_map]
    left; left; left; left; exact ⟨p, hp, rfl⟩

/-- DEEP FRAME: the deep snapshot of a model is unchanged when the shallow observation of every model it
    (transitively) refers to is unchanged -/
theorem deepObs_congr (F : Facts15) (h h' : Heap) (S : Nat → Prop)
    (hs : ∀ x, S x → obs1 F h' x = obs1 F h x)
    (hclosed : ∀ x o, S x → obs1 F h x = some o → ∀ y, y ∈ succs o → S y) :
    ∀ fuel c, S c → deepObs F fuel h' c = deepObs F fuel h c := by
  intro fuel
  induction fuel with
  | zero => intro c _; rfl
  | succ fuel ih =>
    intro c hc
    simp only [deepObs]
    rw [hs c hc]
    cases ho : obs1 F h c with
    | none => rfl
    | some o =>
      simp only
      have hcl := hclosed c o hc ho
      rw [flatKeysF_congr F h h' S hs hclosed (fuel + 1) c hc]
      have horig : o.orig.map (tnOf h') = o.orig.map (tnOf h) := by
        cases hor : o.orig with
        | none => rfl
        | some r =>
          simp only [Option.map_some]
          rw [tnOf_congr F h h' r (hs r (hcl r (by simp [succs, hor])))]
      have hext : o.ext.map (fun e => deepObs F fuel h' e) = o.ext.map (fun e => deepObs F fuel h e) := by
        cases he : o.ext with
        | none => rfl
        | some e => simp only [Option.map_some]; rw [ih e (hcl e (by simp [succs, he]))]
      have hfs : (obsRefs o).map (fun p => (p.1, deepObs F fuel h' p.2))
          = (obsRefs o).map (fun p => (p.1, deepObs F fuel h p.2)) := by
        apply List.map_congr_left
        intro p hp
        rw [ih p.2 (hcl p.2 (obsRefs_sub o p hp))]
      have hsubs : o.subs.map (fun l => l.map (tnOf h')) = o.subs.map (fun l => l.map (tnOf h)) := by
        cases hsb : o.subs with
        | none => rfl
        | some l =>
          simp only [Option.map_some, Option.some.injEq]
          apply List.map_congr_left
          intro r hr
          exact tnOf_congr F h h' r (hs r (hcl r (by simp [succs, hsb, hr])))
      rw [horig, hext, hfs, hsubs]

end SpyneModel.Derive
