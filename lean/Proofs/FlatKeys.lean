/-
  C03 helper lemmas, part 5: keys as text. `RE_HTTP_ARRAY_INDEX` applied to a rendered key
  `a.b[3].c` removes / finds exactly the indexes that were written, provided names and delimiter
  contain no `[`.
-/
import Proofs.FlatBasic
import Proofs.Text
import Proofs.Prim
import SpyneModel.FlatSpec
namespace SpyneModel.Flat
open SpyneModel

theorem matchIdx_nobr (c : Char) (r : Text) (h : c ≠ '[') : matchIdx (c :: r) = none := by
  unfold matchIdx
  split
  · rename_i heq
    simp only [List.cons.injEq] at heq
    exact absurd heq.1 h
  · rfl

theorem matchIdx_index (i : Nat) (rest : Text) :
    matchIdx ('[' :: (natText i ++ ']' :: rest)) = some (natText i, rest) := by
  simp only [matchIdx, spanDigits_natText i ']' rest (by decide), natText_isEmpty]
  rfl

/-! ### `sub("", key)` -/

theorem stripIdxGo_plain (pre rest : Text) (h : ∀ c, c ∈ pre → c ≠ '[') :
    stripIdxGo 0 (pre ++ rest) = pre ++ stripIdxGo 0 rest := by
  induction pre with
  | nil => rfl
  | cons c p ih =>
    simp only [List.cons_append, stripIdxGo, matchIdx_nobr c _ (h c List.mem_cons_self)]
    rw [ih (fun c' hc' => h c' (List.mem_cons_of_mem _ hc'))]

theorem stripIdxGo_skip (l rest : Text) : stripIdxGo l.length (l ++ rest) = stripIdxGo 0 rest := by
  induction l with
  | nil => rfl
  | cons c l ih => simp only [List.length_cons, List.cons_append, stripIdxGo]; exact ih

theorem stripIdxGo_index (i : Nat) (rest : Text) :
    stripIdxGo 0 ('[' :: (natText i ++ ']' :: rest)) = stripIdxGo 0 rest := by
  simp only [stripIdxGo, matchIdx_index]
  have := stripIdxGo_skip (natText i ++ [']']) rest
  simpa [List.append_assoc] using this

/-! ### `findall(key)` -/

theorem findIdxGo_plain (pre rest : Text) (h : ∀ c, c ∈ pre → c ≠ '[') :
    findIdxGo 0 (pre ++ rest) = findIdxGo 0 rest := by
  induction pre with
  | nil => rfl
  | cons c p ih =>
    simp only [List.cons_append, findIdxGo, matchIdx_nobr c _ (h c List.mem_cons_self)]
    exact ih (fun c' hc' => h c' (List.mem_cons_of_mem _ hc'))

theorem findIdxGo_skip (l rest : Text) : findIdxGo l.length (l ++ rest) = findIdxGo 0 rest := by
  induction l with
  | nil => rfl
  | cons c l ih => simp only [List.length_cons, List.cons_append, findIdxGo]; exact ih

theorem findIdxGo_index (i : Nat) (rest : Text) :
    findIdxGo 0 ('[' :: (natText i ++ ']' :: rest)) = i :: findIdxGo 0 rest := by
  simp only [findIdxGo, matchIdx_index, valNat_natText]
  have := findIdxGo_skip (natText i ++ [']']) rest
  simp only [List.append_assoc, List.length_append, List.length_cons, List.length_nil,
    List.cons_append, List.nil_append] at this
  rw [this]

/-! ### rendered keys -/

theorem stripIdxGo_seg (s : Text × Option Nat) (rest : Text) (h : ∀ c, c ∈ s.1 → c ≠ '[') :
    stripIdxGo 0 (renderSeg s ++ rest) = s.1 ++ stripIdxGo 0 rest := by
  obtain ⟨n, oi⟩ := s
  cases oi with
  | none => exact stripIdxGo_plain n rest h
  | some i =>
    simp only [renderSeg, List.append_assoc, List.cons_append, List.nil_append]
    rw [stripIdxGo_plain n _ h, stripIdxGo_index]

theorem findIdxGo_seg (s : Text × Option Nat) (rest : Text) (h : ∀ c, c ∈ s.1 → c ≠ '[') :
    findIdxGo 0 (renderSeg s ++ rest) = (match s.2 with | some i => [i] | none => []) ++ findIdxGo 0 rest := by
  obtain ⟨n, oi⟩ := s
  cases oi with
  | none => exact findIdxGo_plain n rest h
  | some i =>
    simp only [renderSeg, List.append_assoc, List.cons_append, List.nil_append]
    rw [findIdxGo_plain n _ h, findIdxGo_index]

theorem stripIdxGo_nil : stripIdxGo 0 [] = [] := rfl
theorem findIdxGo_nil : findIdxGo 0 [] = [] := rfl

/-- `RE_HTTP_ARRAY_INDEX.sub("", key)` of a rendered key is the key of the member table -/
theorem stripIdx_renderKey (delim : Text) (segs : List (Text × Option Nat))
    (hd : ∀ c, c ∈ delim → c ≠ '[') (hs : ∀ s, s ∈ segs → ∀ c, c ∈ s.1 → c ≠ '[') :
    stripIdx (renderKey delim segs) = joinKey delim (segs.map Prod.fst) := by
  unfold stripIdx renderKey
  induction segs with
  | nil => rfl
  | cons s r ih =>
    cases r with
    | nil =>
      simp only [List.map_cons, List.map_nil, joinKey]
      have := stripIdxGo_seg s [] (hs s List.mem_cons_self)
      simpa [stripIdxGo_nil] using this
    | cons s2 r2 =>
      simp only [List.map_cons, joinKey, List.append_assoc] at ih ⊢
      rw [stripIdxGo_seg s _ (hs s List.mem_cons_self), stripIdxGo_plain delim _ hd]
      rw [ih (fun s' hs' => hs s' (List.mem_cons_of_mem _ hs'))]

/-- `RE_HTTP_ARRAY_INDEX.findall(key)` of a rendered key: the indexes that were written, in order -/
theorem findIdx_renderKey (delim : Text) (segs : List (Text × Option Nat))
    (hd : ∀ c, c ∈ delim → c ≠ '[') (hs : ∀ s, s ∈ segs → ∀ c, c ∈ s.1 → c ≠ '[') :
    findIdx (renderKey delim segs) = segs.filterMap Prod.snd := by
  unfold findIdx renderKey
  induction segs with
  | nil => rfl
  | cons s r ih =>
    cases r with
    | nil =>
      simp only [List.map_cons, List.map_nil, joinKey]
      have := findIdxGo_seg s [] (hs s List.mem_cons_self)
      simp only [List.append_nil, findIdxGo_nil] at this
      rw [this]
      obtain ⟨n, oi⟩ := s
      cases oi <;> rfl
    | cons s2 r2 =>
      simp only [List.map_cons, joinKey, List.append_assoc] at ih ⊢
      rw [findIdxGo_seg s _ (hs s List.mem_cons_self), findIdxGo_plain delim _ hd]
      rw [ih (fun s' hs' => hs s' (List.mem_cons_of_mem _ hs'))]
      obtain ⟨n, oi⟩ := s
      cases oi <;> rfl

end SpyneModel.Flat
