/-
  C06 lemmas, part 1: what spyne writes for a conformant leaf value is a valid literal of the simple
  type the schema declares for it (lexical space of the XSD built-in + every generated facet).
-/
import SpyneModel.SchemaSpec
import Proofs.LeafGood
namespace SpyneModel
namespace Schema
open Xml

/-! ### whitespace normalisation is the identity on what spyne writes -/

def noWs (s : Text) : Prop := ∀ c ∈ s, isXmlSpace c = false

theorem dropWhile_noWs (s : Text) (h : noWs s) : s.dropWhile isXmlSpace = s := by
  cases s with
  | nil => rfl
  | cons c t => simp [List.dropWhile, h c (by simp)]

theorem xsdTrim_noWs (s : Text) (h : noWs s) : xsdTrim s = s := by
  unfold xsdTrim
  rw [dropWhile_noWs s h]
  have h' : noWs s.reverse := by intro c hc; exact h c (by simpa using hc)
  rw [dropWhile_noWs _ h', List.reverse_reverse]

theorem noWs_append {a b : Text} (ha : noWs a) (hb : noWs b) : noWs (a ++ b) := by
  intro c hc
  rcases List.mem_append.mp hc with h | h
  · exact ha c h
  · exact hb c h

theorem noWs_cons {c : Char} {t : Text} (hc : isXmlSpace c = false) (ht : noWs t) : noWs (c :: t) := by
  intro d hd
  rcases List.mem_cons.mp hd with h | h
  · subst h; exact hc
  · exact ht d h

theorem noWs_nil : noWs [] := by intro c hc; cases hc

theorem isDigit_not_space (c : Char) (h : isDigit c = true) : isXmlSpace c = false := by
  simp only [isDigit, Bool.and_eq_true, decide_eq_true_eq] at h
  simp only [isXmlSpace, Bool.or_eq_false_iff, decide_eq_false_iff_not]
  refine ⟨⟨⟨?_, ?_⟩, ?_⟩, ?_⟩ <;> (intro e; subst e; revert h; decide)

theorem noWs_of_all_digits (s : Text) (h : s.all isDigit = true) : noWs s := by
  intro c hc
  exact isDigit_not_space c (List.all_eq_true.mp h c hc)

theorem noWs_natText (n : Nat) : noWs (natText n) := noWs_of_all_digits _ (natText_all_digits n)

theorem noWs_pad2 (n : Nat) (h : n < 100) : noWs (pad2 n) := by
  apply noWs_of_all_digits
  simp [pad2, isDigit_digitChar (n / 10) (by omega), isDigit_digitChar (n % 10) (by omega)]

theorem noWs_pad4 (n : Nat) (h : n < 10000) : noWs (pad4 n) := by
  apply noWs_of_all_digits
  simp [pad4, isDigit_digitChar (n / 1000) (by omega), isDigit_digitChar (n / 100 % 10) (by omega),
    isDigit_digitChar (n / 10 % 10) (by omega), isDigit_digitChar (n % 10) (by omega)]

theorem noWs_pad6 (n : Nat) (h : n < 1000000) : noWs (pad6 n) := noWs_of_all_digits _ (pad6_all_digits n h)

/-! ### integers -/

theorem xsdInteger_digits (s : Text) (h : allDigits s = true) : xsdInteger s = true ∧ xsdIntVal s = (valNat s : Int) := by
  cases s with
  | nil => simp [allDigits] at h
  | cons c t =>
    have hc : isDigit c = true := by
      simp [allDigits] at h; exact h.1
    have h1 : c ≠ '-' := by intro e; subst e; revert hc; decide
    have h2 : c ≠ '+' := by intro e; subst e; revert hc; decide
    constructor
    · unfold xsdInteger
      split
      · rename_i r e; injection e with e1 _; exact absurd e1 h1
      · rename_i r e; injection e with e1 _; exact absurd e1 h2
      · exact h
    · unfold xsdIntVal
      split
      · rename_i r e; injection e with e1 _; exact absurd e1 h1
      · rename_i r e; injection e with e1 _; exact absurd e1 h2
      · rfl

theorem xsdInteger_intText (i : Int) : xsdInteger (intText i) = true ∧ xsdIntVal (intText i) = i := by
  unfold intText
  by_cases h : i < 0
  · simp only [h, if_true]
    constructor
    · simp [xsdInteger, allDigits_natText]
    · simp only [xsdIntVal, valNat_natText]; omega
  · simp only [h, if_false]
    have := xsdInteger_digits (natText i.natAbs) (allDigits_natText _)
    refine ⟨this.1, ?_⟩
    rw [this.2, valNat_natText]; omega

theorem noWs_intText (i : Int) : noWs (intText i) := by
  unfold intText
  split
  · exact noWs_cons (by decide) (noWs_natText _)
  · exact noWs_natText _

/-! ### range facets -/

theorem filterMap_optFacet (c : Int → Facet) (hc : ∀ i, Facet.enumVal? (c i) = none) (o : Option Int) :
    (optFacet c o).filterMap Facet.enumVal? = [] := by
  cases o <;> simp [optFacet, hc]

theorem enums_intFacets (r : Range) : (intFacets r).filterMap Facet.enumVal? = [] := by
  unfold intFacets
  rw [List.filterMap_append, List.filterMap_append, List.filterMap_append,
    filterMap_optFacet .minExclusive (fun _ => rfl), filterMap_optFacet .minInclusive (fun _ => rfl),
    filterMap_optFacet .maxExclusive (fun _ => rfl), filterMap_optFacet .maxInclusive (fun _ => rfl)]
  rfl

theorem all_optFacet (c : Int → Facet) (p : Facet → Bool) (o : Option Int) :
    (optFacet c o).all p = (match o with | some i => p (c i) | none => true) := by
  cases o <;> simp [optFacet]

theorem facetsOk_intFacets (r : Range) (s : Text) : facetsOk (intFacets r) s = r.holds (xsdIntVal s) := by
  unfold facetsOk
  rw [enums_intFacets]
  simp only [List.isEmpty_nil, Bool.true_or, Bool.true_and, intFacets, List.all_append, all_optFacet, Range.holds, Facet.holds]
  rw [Bool.eq_iff_iff]
  simp only [Bool.and_eq_true]
  constructor
  · rintro ⟨⟨⟨a, b⟩, c⟩, d⟩; exact ⟨⟨⟨b, a⟩, d⟩, c⟩
  · rintro ⟨⟨⟨b, a⟩, d⟩, c⟩; exact ⟨⟨⟨a, b⟩, c⟩, d⟩

/-- a written bound is one of the declared bounds -/
def optSub (a b : Option Int) : Prop := a = none ∨ a = b

theorem clampOpt_sub (F6 : Facts06) (k : IntKind) (o : Option Int) : optSub (clampOpt F6 k o) o := by
  unfold clampOpt optSub
  cases o with
  | none => simp
  | some i => by_cases h : (!F6.clampFacets || inKind k i) = true <;> simp [h]

theorem optSub_trans {a b c : Option Int} (h1 : optSub a b) (h2 : optSub b c) : optSub a c := by
  rcases h1 with h | h
  · exact Or.inl h
  · subst h; exact h2

theorem mergeLower_sub (a b : Option Int) : optSub (mergeLower a b).1 a ∧ optSub (mergeLower a b).2 b := by
  unfold mergeLower optSub
  cases a <;> cases b <;> simp
  rename_i x y
  by_cases h : x ≥ y <;> simp [h]

theorem mergeUpper_sub (a b : Option Int) : optSub (mergeUpper a b).1 a ∧ optSub (mergeUpper a b).2 b := by
  unfold mergeUpper optSub
  cases a <;> cases b <;> simp
  rename_i x y
  by_cases h : x ≤ y <;> simp [h]

theorem holds_mono (r r' : Range) (i : Int) (h1 : optSub r'.ge r.ge) (h2 : optSub r'.gt r.gt)
    (h3 : optSub r'.le r.le) (h4 : optSub r'.lt r.lt) (h : r.holds i = true) : r'.holds i = true := by
  unfold Range.holds at h ⊢
  simp only [Bool.and_eq_true] at h ⊢
  obtain ⟨⟨⟨a, b⟩, c⟩, d⟩ := h
  refine ⟨⟨⟨?_, ?_⟩, ?_⟩, ?_⟩
  · rcases h1 with e | e <;> rw [e]; exact a
  · rcases h2 with e | e <;> rw [e]; exact b
  · rcases h3 with e | e <;> rw [e]; exact c
  · rcases h4 with e | e <;> rw [e]; exact d

theorem holds_writtenRange (F6 : Facts06) (k : IntKind) (r : Range) (i : Int) (h : r.holds i = true) :
    (writtenRange F6 k r).holds i = true := by
  apply holds_mono r _ i _ _ _ _ h
  all_goals
    unfold writtenRange
    dsimp only
    split
  · exact optSub_trans (mergeLower_sub _ _).2 (clampOpt_sub F6 k _)
  · exact clampOpt_sub F6 k _
  · exact optSub_trans (mergeLower_sub _ _).1 (clampOpt_sub F6 k _)
  · exact clampOpt_sub F6 k _
  · exact optSub_trans (mergeUpper_sub _ _).2 (clampOpt_sub F6 k _)
  · exact clampOpt_sub F6 k _
  · exact optSub_trans (mergeUpper_sub _ _).1 (clampOpt_sub F6 k _)
  · exact clampOpt_sub F6 k _

/-! ### string facets -/

theorem filterMap_enumeration (vals : List Text) : (vals.map Facet.enumeration).filterMap Facet.enumVal? = vals := by
  induction vals with
  | nil => rfl
  | cons v vs ih => simp [Facet.enumVal?, ih]

theorem all_enumeration (vals : List Text) (s : Text) : (vals.map Facet.enumeration).all (Facet.holds s) = true := by
  induction vals with
  | nil => rfl
  | cons v vs ih => simp [Facet.holds, ih]

def lenFacets (minLen : Nat) (maxLen : Option Nat) : List Facet :=
  if maxLen = some minLen then [.length minLen]
  else (if minLen ≠ 0 then [.minLength minLen] else []) ++ optFacet .maxLength maxLen

theorem enums_lenFacets (a : Nat) (b : Option Nat) : (lenFacets a b).filterMap Facet.enumVal? = [] := by
  unfold lenFacets
  split
  · rfl
  · cases b <;> (split <;> simp [optFacet, Facet.enumVal?])

theorem all_lenFacets (a : Nat) (b : Option Nat) (s : Text) :
    (lenFacets a b).all (Facet.holds s) =
      (decide (a ≤ s.length) && (match b with | some m => decide (s.length ≤ m) | none => true)) := by
  unfold lenFacets
  split
  · rename_i h; subst h
    simp only [List.all_cons, List.all_nil, Bool.and_true, Facet.holds]
    rw [Bool.eq_iff_iff]; simp only [Bool.and_eq_true, decide_eq_true_eq]; omega
  · cases b with
    | none => by_cases h : a = 0 <;> simp [optFacet, Facet.holds, h]
    | some m => by_cases h : a = 0 <;> simp [optFacet, Facet.holds, h]

theorem primFacets_unicode (F6 : Facts06) (a : Nat) (b : Option Nat) (pat : Option Pattern) (vals : List Text) :
    primFacets F6 (.unicode a b pat vals) = vals.map .enumeration ++ lenFacets a b ++ optFacet .pattern pat := rfl

theorem facetsOk_unicode (F6 : Facts06) (a : Nat) (b : Option Nat) (pat : Option Pattern) (vals : List Text) (s : Text) :
    facetsOk (primFacets F6 (.unicode a b pat vals)) s = (PrimTy.unicode a b pat vals).valueOk (.str s) := by
  rw [primFacets_unicode]
  unfold facetsOk
  cases pat with
  | none =>
    have e : (vals.map Facet.enumeration ++ lenFacets a b ++ optFacet Facet.pattern none).filterMap Facet.enumVal? = vals := by
      rw [List.filterMap_append, List.filterMap_append, filterMap_enumeration, enums_lenFacets]; simp [optFacet]
    rw [e]
    simp only [List.all_append, all_enumeration, all_lenFacets, Bool.true_and, PrimTy.valueOk, optFacet, List.all_nil, Bool.and_true]
    exact Bool.and_comm _ _
  | some q =>
    have e : (vals.map Facet.enumeration ++ lenFacets a b ++ optFacet Facet.pattern (some q)).filterMap Facet.enumVal? = vals := by
      rw [List.filterMap_append, List.filterMap_append, filterMap_enumeration, enums_lenFacets]; simp [optFacet, Facet.enumVal?]
    rw [e]
    simp only [List.all_append, all_enumeration, all_lenFacets, Bool.true_and, PrimTy.valueOk, optFacet, List.all_cons,
      List.all_nil, Bool.and_true, Facet.holds]
    exact Bool.and_comm _ _

/-! ### dates and times -/

theorem date_bounds (d : Date) (h : d.valid = true) : d.y < 10000 ∧ d.m < 100 ∧ d.d < 100 := by
  simp [Date.valid] at h
  have := daysInMonth_le d.y d.m
  omega

theorem xsdDate_isoDate (d : Date) (h : d.valid = true) : xsdDate (isoDate d) = true := by
  obtain ⟨h1, h2, h3⟩ := date_bounds d h
  have := parseDateFields_isoDate d h1 h2 h3 []
  rw [List.append_nil] at this
  simp [xsdDate, this, h, xsdZone]

theorem noWs_isoDate (d : Date) (h : d.valid = true) : noWs (isoDate d) := by
  obtain ⟨h1, h2, h3⟩ := date_bounds d h
  unfold isoDate
  exact noWs_append (noWs_pad4 _ h1) (noWs_cons (by decide) (noWs_append (noWs_pad2 _ h2) (noWs_cons (by decide) (noWs_pad2 _ h3))))

theorem time_bounds (t : Time) (h : t.valid = true) : t.h < 100 ∧ t.mi < 100 ∧ t.s < 100 ∧ t.us < 1000000 := by
  simp [Time.valid] at h
  omega

theorem xsdTime_isoTime (t : Time) (h : t.valid = true) : xsdTime (isoTime t) = true := by
  have := parseTimeFields_isoTime t h [] zoneStart_nil
  rw [List.append_nil] at this
  simp [xsdTime, this, xsdTimeOk, h, xsdZone]

theorem noWs_isoTime (t : Time) (h : t.valid = true) : noWs (isoTime t) := by
  obtain ⟨h1, h2, h3, h4⟩ := time_bounds t h
  unfold isoTime
  refine noWs_append (noWs_pad2 _ h1) (noWs_cons (by decide) (noWs_append (noWs_pad2 _ h2) (noWs_cons (by decide)
    (noWs_append (noWs_pad2 _ h3) ?_))))
  split
  · exact noWs_nil
  · exact noWs_cons (by decide) (noWs_pad6 _ h4)

theorem noWs_fmtOffset (m : Int) (h : m.natAbs < 6000) : noWs (fmtOffset m) := by
  unfold fmtOffset
  refine noWs_cons ?_ (noWs_append (noWs_pad2 _ (by omega)) (noWs_cons (by decide) (noWs_pad2 _ (by omega))))
  split <;> decide

theorem xsdZone_fmtOffset (m : Int) (h1 : -840 ≤ m) (h2 : m ≤ 840) : xsdZone (fmtOffset m) = true := by
  have hp := parseOffsetFields_fmtOffset m (by omega) []
  rw [List.append_nil] at hp
  unfold xsdZone
  split
  · rename_i e; simp [fmtOffset] at e
  · rename_i e; simp [fmtOffset, pad2] at e
  · rw [hp]
    simp only [Bool.or_eq_true, Bool.and_eq_true, decide_eq_true_eq]
    omega

theorem xsdDateTime_isoDateTime (x : DateTime) (h : x.valid = true)
    (htz : match x.tz with | some m => -840 ≤ m ∧ m ≤ 840 | none => True) : xsdDateTime (isoDateTime x) = true := by
  simp only [DateTime.valid, Bool.and_eq_true] at h
  obtain ⟨⟨hd, ht⟩, _⟩ := h
  obtain ⟨h1, h2, h3⟩ := date_bounds x.date hd
  unfold xsdDateTime isoDateTime
  rw [parseDateFields_isoDate x.date h1 h2 h3]
  have key : ∀ tz : Text, zoneStart tz → xsdZone tz = true →
      (match some (x.date, 'T' :: (isoTime x.time ++ tz)) with
        | some (d, 'T' :: r) =>
          (match parseTimeFields r with
           | some (t, rest) => d.valid && xsdTimeOk t && xsdZone rest
           | none => false)
        | _ => false) = true := by
    intro tz hz1 hz2
    split
    · rename_i d r e
      injection e with e; injection e with e1 e2; injection e2 with _ e3
      subst e1; subst e3
      rw [parseTimeFields_isoTime x.time ht tz hz1]
      simp [hd, xsdTimeOk, ht, hz2]
    · rename_i hne
      exact absurd rfl (hne x.date _)
  cases htzv : x.tz with
  | none => exact key [] zoneStart_nil (by simp [xsdZone])
  | some m =>
    rw [htzv] at htz
    exact key (fmtOffset m) (zoneStart_fmtOffset m) (xsdZone_fmtOffset m htz.1 htz.2)

theorem noWs_isoDateTime (x : DateTime) (h : x.valid = true) : noWs (isoDateTime x) := by
  simp only [DateTime.valid, Bool.and_eq_true] at h
  obtain ⟨⟨hd, ht⟩, hz⟩ := h
  unfold isoDateTime
  refine noWs_append (noWs_isoDate _ hd) (noWs_cons (by decide) (noWs_append (noWs_isoTime _ ht) ?_))
  cases htz : x.tz with
  | none => exact noWs_nil
  | some m =>
    rw [htz] at hz
    simp only [Bool.and_eq_true, decide_eq_true_eq] at hz
    exact noWs_fmtOffset m (by omega)

/-! ### durations -/

def durChar (c : Char) : Bool :=
  isDigit c || c = '-' || c = 'P' || c = 'D' || c = 'T' || c = 'H' || c = 'M' || c = 'S' || c = '.'

def allDur (s : Text) : Prop := ∀ c ∈ s, durChar c = true

theorem allDur_append {a b : Text} (ha : allDur a) (hb : allDur b) : allDur (a ++ b) := by
  intro c hc
  rcases List.mem_append.mp hc with h | h
  · exact ha c h
  · exact hb c h

theorem allDur_cons {c : Char} {t : Text} (hc : durChar c = true) (ht : allDur t) : allDur (c :: t) := by
  intro d hd
  rcases List.mem_cons.mp hd with h | h
  · subst h; exact hc
  · exact ht d h

theorem allDur_nil : allDur [] := by intro c hc; cases hc

theorem allDur_digits (s : Text) (h : s.all isDigit = true) : allDur s := by
  intro c hc
  simp [durChar, List.all_eq_true.mp h c hc]

theorem allDur_ite (c : Prop) [Decidable c] (a b : Text) (ha : allDur a) (hb : allDur b) : allDur (if c then a else b) := by
  split <;> assumption

theorem allDur_durTimeText (F : Facts08) (h m s u : Nat) (hu : u < 1000000) : allDur (durTimeText F h m s u) := by
  unfold durTimeText
  refine allDur_append (allDur_ite _ _ _ (allDur_append (allDur_digits _ (natText_all_digits _)) (allDur_cons (by decide) allDur_nil)) allDur_nil)
    (allDur_append (allDur_ite _ _ _ (allDur_append (allDur_digits _ (natText_all_digits _)) (allDur_cons (by decide) allDur_nil)) allDur_nil)
      (allDur_ite _ _ _ (allDur_append (allDur_digits _ (natText_all_digits _))
        (allDur_append (allDur_ite _ _ _ (allDur_cons (by decide) ?_) allDur_nil) (allDur_cons (by decide) allDur_nil))) allDur_nil))
  cases F.durFracFmt
  · exact allDur_digits _ (pad6_all_digits u hu)
  · exact allDur_digits _ (natText_all_digits _)
  · exact allDur_digits _ (natText_all_digits _)

theorem allDur_durToText (F : Facts08) (us : Int) : allDur (durToText F us) := by
  unfold durToText
  dsimp only
  have hhead : allDur ((if us < 0 then ['-', 'P'] else ['P']) ++
      (if us.natAbs / usPerDay ≠ 0 then natText (us.natAbs / usPerDay) ++ ['D'] else [])) := by
    refine allDur_append (allDur_ite _ _ _ ?_ ?_) (allDur_ite _ _ _ ?_ allDur_nil)
    · exact allDur_cons (by decide) (allDur_cons (by decide) allDur_nil)
    · exact allDur_cons (by decide) allDur_nil
    · exact allDur_append (allDur_digits _ (natText_all_digits _)) (allDur_cons (by decide) allDur_nil)
  split
  · exact hhead
  · split
    · exact allDur_append hhead (allDur_cons (by decide) (allDur_cons (by decide) (allDur_cons (by decide) allDur_nil)))
    · refine allDur_append hhead (allDur_cons (by decide) (allDur_durTimeText F _ _ _ _ ?_))
      exact Nat.mod_lt _ (by decide)

theorem durChar_not_space (c : Char) (h : durChar c = true) : isXmlSpace c = false := by
  simp only [durChar, Bool.or_eq_true, decide_eq_true_eq] at h
  rcases h with (((((((h | h) | h) | h) | h) | h) | h) | h) | h
  · exact isDigit_not_space c h
  all_goals (subst h; decide)

theorem noWs_durToText (F : Facts08) (us : Int) : noWs (durToText F us) := by
  intro c hc
  exact durChar_not_space c (allDur_durToText F us c hc)

def endsIn (s : Text) (l : List Char) : Prop := ∃ t c, s = t ++ [c] ∧ c ∈ l

theorem endsIn_append_right (a : Text) {b : Text} {l : List Char} (h : endsIn b l) : endsIn (a ++ b) l := by
  obtain ⟨t, c, e, hc⟩ := h
  exact ⟨a ++ t, c, by rw [e, List.append_assoc], hc⟩

theorem endsIn_mono {s : Text} {l l' : List Char} (h : endsIn s l) (hl : ∀ c ∈ l, c ∈ l') : endsIn s l' := by
  obtain ⟨t, c, e, hc⟩ := h
  exact ⟨t, c, e, hl c hc⟩

theorem getLast_of_endsIn {s : Text} {l : List Char} (h : endsIn s l) : ∃ c, s.getLast? = some c ∧ c ∈ l := by
  obtain ⟨t, c, e, hc⟩ := h
  exact ⟨c, by rw [e]; simp, hc⟩

theorem endsIn_durTimeText (F : Facts08) (h m s u : Nat) (hne : h ≠ 0 ∨ m ≠ 0 ∨ s ≠ 0 ∨ u ≠ 0) :
    endsIn (durTimeText F h m s u) ['H', 'M', 'S'] := by
  unfold durTimeText
  by_cases hs : (decide (s > 0) || decide (u > 0)) = true
  · rw [if_pos hs]
    refine endsIn_append_right _ (endsIn_append_right _ (endsIn_append_right _ ?_))
    exact ⟨_, 'S', rfl, by simp⟩
  · rw [if_neg hs]
    simp only [Bool.or_eq_true, decide_eq_true_eq, not_or] at hs
    by_cases hm : m > 0
    · rw [if_pos hm]
      refine endsIn_append_right _ ?_
      exact ⟨natText m, 'M', by simp, by simp⟩
    · rw [if_neg hm]
      have hh : h > 0 := by omega
      rw [if_pos hh]
      exact ⟨natText h, 'H', by simp, by simp⟩

theorem endsIn_durToText (F : Facts08) (us : Int) : endsIn (durToText F us) ['D', 'H', 'M', 'S'] := by
  unfold durToText
  dsimp only
  split
  · rename_i h
    simp [usPerSec] at h
    have h2 := of_decide_eq_true h.1.2
    have h3 := of_decide_eq_true h.2
    have hd : us.natAbs / usPerDay ≠ 0 := by
      have e : usPerDay = 86400000000 := rfl
      rw [e]; omega
    rw [if_pos hd]
    refine endsIn_append_right _ ?_
    exact ⟨natText (us.natAbs / usPerDay), 'D', rfl, by simp⟩
  · rename_i h
    split
    · exact endsIn_append_right _ ⟨['T', '0'], 'S', rfl, by simp⟩
    · rename_i hv
      refine endsIn_append_right _ ?_
      have : endsIn (durTimeText F (us.natAbs / usPerSec % 86400 / 3600) (us.natAbs / usPerSec % 86400 / 60 % 60)
          (us.natAbs / usPerSec % 86400 % 60) (us.natAbs % usPerSec)) ['H', 'M', 'S'] := by
        apply endsIn_durTimeText
        simp [usPerSec] at h ⊢
        have hv' : us.natAbs ≠ 0 := hv
        by_cases c1 : 1000000 ≤ us.natAbs
        · by_cases c2 : us.natAbs / 1000000 % 86400 = 0
          · have c3 : ¬ us.natAbs % 1000000 = 0 := by
              intro c3
              have := h c1 (decide_eq_true c2)
              exact absurd c3 (of_decide_eq_false this)
            omega
          · omega
        · omega
      obtain ⟨t, c, e, hc⟩ := this
      refine ⟨'T' :: t, c, by rw [e]; rfl, ?_⟩
      simp at hc ⊢
      rcases hc with h | h | h <;> simp [h]

theorem xsdDuration_durToText (F : Facts08) (hF : F.durFracFmt = .pad6) (hP : F.durParse = .exactDecimal)
    (us : Int) (hlo : -86399999913600000000 ≤ us) (hhi : us ≤ 86399999999999999999) :
    xsdDuration (durToText F us) = true := by
  have hr := durFromText_durToText F hF hP us hlo hhi
  have hsome : (parseDurLit (durToText F us)).isSome = true := by
    unfold durFromText at hr
    rw [hP] at hr
    dsimp only at hr
    cases hp : parseDurLit (durToText F us) with
    | none => rw [hp] at hr; cases hr
    | some l => rfl
  obtain ⟨c, hc, hmem⟩ := getLast_of_endsIn (endsIn_durToText F us)
  unfold xsdDuration
  rw [hsome, hc]
  simp at hmem
  rcases hmem with h | h | h | h <;> (subst h; decide)

/-! ### binary encodings -/

theorem hexVal_not_space (c : Char) (h : (hexVal? c).isSome = true) : isXmlSpace c = false := by
  simp only [isXmlSpace, Bool.or_eq_false_iff, decide_eq_false_iff_not]
  refine ⟨⟨⟨?_, ?_⟩, ?_⟩, ?_⟩ <;> (intro e; subst e; revert h; decide)

theorem noWs_of_xsdHexBinary (s : Text) (h : xsdHexBinary s = true) : noWs s := by
  fun_induction xsdHexBinary s with
  | case1 => exact noWs_nil
  | case2 => cases h
  | case3 a b r ih =>
    simp only [Bool.and_eq_true] at h
    exact noWs_cons (hexVal_not_space a h.1.1) (noWs_cons (hexVal_not_space b h.1.2) (ih h.2))

theorem b64Val_not_space (c : Char) (h : (b64Val? false c).isSome = true) : isXmlSpace c = false := by
  simp only [isXmlSpace, Bool.or_eq_false_iff, decide_eq_false_iff_not]
  refine ⟨⟨⟨?_, ?_⟩, ?_⟩, ?_⟩ <;> (intro e; subst e; revert h; decide)

theorem b64Val_match_not_space (c : Char) (k : Nat)
    (h : (match b64Val? false c with | some v => decide (v % k = 0) | none => false) = true) : isXmlSpace c = false := by
  apply b64Val_not_space
  cases hv : b64Val? false c with
  | none => rw [hv] at h; cases h
  | some v => rfl

theorem noWs_of_xsdBase64Binary (s : Text) (h : xsdBase64Binary s = true) : noWs s := by
  fun_induction xsdBase64Binary s with
  | case1 => exact noWs_nil
  | case2 c1 c2 =>
    simp only [Bool.and_eq_true] at h
    exact noWs_cons (b64Val_not_space c1 h.1) (noWs_cons (b64Val_match_not_space c2 16 h.2)
      (noWs_cons (by decide) (noWs_cons (by decide) noWs_nil)))
  | case3 c1 c2 c3 =>
    simp only [Bool.and_eq_true] at h
    exact noWs_cons (b64Val_not_space c1 h.1.1) (noWs_cons (b64Val_not_space c2 h.1.2)
      (noWs_cons (b64Val_match_not_space c3 4 h.2) (noWs_cons (by decide) noWs_nil)))
  | case4 c1 c2 c3 c4 r _ _ ih =>
    simp only [Bool.and_eq_true] at h
    exact noWs_cons (b64Val_not_space c1 h.1.1.1.1) (noWs_cons (b64Val_not_space c2 h.1.1.1.2)
      (noWs_cons (b64Val_not_space c3 h.1.1.2) (noWs_cons (b64Val_not_space c4 h.1.2) (ih h.2))))
  | case5 => cases h

/-! ### every conformant leaf value is written as a valid literal of its declared simple type -/

theorem simpleOk_noWs (b : Builtin) (fs : List Facet) (s : Text) (hw : noWs s) (hl : b.lexOk s = true)
    (hf : facetsOk fs s = true) : simpleOk b fs s = true := by
  have : b.norm s = s := by
    unfold Builtin.norm; split
    · rfl
    · exact xsdTrim_noWs s hw
  simp [simpleOk, this, hl, hf]

theorem facetsOk_nil (s : Text) : facetsOk [] s = true := by simp [facetsOk]

theorem leaf_simpleOk (F : Facts08) (G : F.Good) (F6 : Facts06) (p : PrimTy) (v : Val)
    (hv : p.valueOk v = true) (hr : xsdRepresentable v = true) :
    ∃ s, leafToText F p v = some s ∧ simpleOk (builtinOf p) (primFacets F6 p) s = true := by
  cases p with
  | integer k r =>
    cases v <;> simp [PrimTy.valueOk] at hv
    rename_i i
    refine ⟨intText i, rfl, simpleOk_noWs _ _ _ (noWs_intText i) ?_ ?_⟩
    · have := xsdInteger_intText i
      simp only [builtinOf, Builtin.lexOk, this.1, this.2, inKind, Bool.true_and, Bool.and_eq_true]
      exact hv.1
    · show facetsOk (intFacets (writtenRange F6 k r)) (intText i) = true
      rw [facetsOk_intFacets, (xsdInteger_intText i).2]
      exact holds_writtenRange F6 k r i hv.2
  | boolean =>
    cases v <;> simp [PrimTy.valueOk] at hv
    rename_i b
    refine ⟨boolToText b, rfl, ?_⟩
    show simpleOk .boolean [] (boolToText b) = true
    cases b <;> decide
  | unicode a b c d =>
    cases v <;> simp only [PrimTy.valueOk, Bool.false_eq_true] at hv
    rename_i s
    refine ⟨s, rfl, ?_⟩
    simp only [simpleOk, builtinOf, Builtin.norm, Builtin.isString, if_true, Builtin.lexOk, Bool.true_and]
    rw [facetsOk_unicode]; exact hv
  | date =>
    cases v <;> simp [PrimTy.valueOk] at hv
    rename_i d
    exact ⟨isoDate d, rfl, simpleOk_noWs _ _ _ (noWs_isoDate d hv) (xsdDate_isoDate d hv) (facetsOk_nil _)⟩
  | time =>
    cases v <;> simp [PrimTy.valueOk] at hv
    rename_i t
    exact ⟨isoTime t, rfl, simpleOk_noWs _ _ _ (noWs_isoTime t hv) (xsdTime_isoTime t hv) (facetsOk_nil _)⟩
  | dateTime =>
    cases v <;> simp [PrimTy.valueOk] at hv
    rename_i x
    refine ⟨isoDateTime x, rfl, simpleOk_noWs _ _ _ (noWs_isoDateTime x hv) (xsdDateTime_isoDateTime x hv ?_) (facetsOk_nil _)⟩
    simp only [xsdRepresentable] at hr
    cases htz : x.tz with
    | none => trivial
    | some m => rw [htz] at hr; simpa using hr
  | duration =>
    cases v <;> simp [PrimTy.valueOk] at hv
    rename_i us
    exact ⟨durToText F us, rfl, simpleOk_noWs _ _ _ (noWs_durToText F us)
      (xsdDuration_durToText F G.frac G.dur us hv.1 hv.2) (facetsOk_nil _)⟩
  | bytes enc =>
    cases v <;> simp [PrimTy.valueOk] at hv
    rename_i bs
    have hb : bytesOk bs := hv
    cases enc with
    | base64 =>
      have h := xsdBase64Binary_b64enc bs hb
      exact ⟨_, rfl, simpleOk_noWs _ _ _ (noWs_of_xsdBase64Binary _ h) h (facetsOk_nil _)⟩
    | hex =>
      have h := xsdHexBinary_hexenc bs hb
      exact ⟨_, rfl, simpleOk_noWs _ _ _ (noWs_of_xsdHexBinary _ h) h (facetsOk_nil _)⟩
    | urlsafe =>
      refine ⟨_, rfl, ?_⟩
      simp [simpleOk, builtinOf, Builtin.norm, Builtin.isString, Builtin.lexOk, primFacets, facetsOk]
  | enum names =>
    cases v <;> simp [PrimTy.valueOk] at hv
    rename_i n
    refine ⟨n, rfl, ?_⟩
    simp only [simpleOk, builtinOf, Builtin.norm, Builtin.isString, if_true, Builtin.lexOk, Bool.true_and, primFacets, facetsOk,
      filterMap_enumeration, all_enumeration, Bool.and_true]
    simp [hv]

/-! ### `values=` on the non-string primitives: the enumeration literals are the wire literals -/

theorem leafEq_eq (v w : Val) (h : leafEq v w = true) : v = w := by
  cases v <;> cases w <;> simp [leafEq] at h <;> simp [h]

theorem enums_primFacets (F6 : Facts06) (p : PrimTy) (h : ∀ a b c d, p ≠ .unicode a b c d) (h' : ∀ n, p ≠ .enum n) :
    (primFacets F6 p).filterMap Facet.enumVal? = [] := by
  cases p with
  | integer k r => exact enums_intFacets _
  | unicode a b c d => exact absurd rfl (h a b c d)
  | enum n => exact absurd rfl (h' n)
  | _ => rfl

theorem facetsOk_enum_prefix (lits : List Text) (fs : List Facet) (s : Text) (hfs : fs.filterMap Facet.enumVal? = []) :
    facetsOk (lits.map Facet.enumeration ++ fs) s = ((lits.isEmpty || lits.contains s) && facetsOk fs s) := by
  unfold facetsOk
  rw [List.filterMap_append, filterMap_enumeration, hfs, List.append_nil, List.all_append, all_enumeration]
  simp

theorem extraVals_nonstring (A : App) (p : PrimTy) (h : (A.extraVals p).isEmpty = false) :
    (∀ a b c d, p ≠ .unicode a b c d) ∧ (∀ n, p ≠ .enum n) := by
  constructor
  · intro a b c d e; subst e; simp [App.extraVals] at h
  · intro n e; subst e; simp [App.extraVals] at h

theorem rep_of_leaf (p : PrimTy) (v : Val) (hv : p.valueOk v = true) (ht : tzOk v = true) : xsdRepresentable v = true := by
  cases v with
  | dt x => simpa [xsdRepresentable, tzOk] using ht
  | obj c fs => cases p <;> simp [PrimTy.valueOk] at hv
  | list vs => cases p <;> simp [PrimTy.valueOk] at hv
  | _ => rfl

theorem norm_noWs (b : Builtin) (s : Text) (h : noWs s) : b.norm s = s := by
  unfold Builtin.norm; split
  · rfl
  · exact xsdTrim_noWs s h

/-- whitespace normalisation leaves the written literal alone -/
theorem leaf_norm_id (F : Facts08) (p : PrimTy) (v : Val) (s : Text) (hv : p.valueOk v = true)
    (hs : leafToText F p v = some s) : (builtinOf p).norm s = s := by
  cases p with
  | integer k r =>
    cases v <;> simp [PrimTy.valueOk] at hv
    simp only [leafToText, Option.some.injEq] at hs; subst hs
    exact norm_noWs _ _ (noWs_intText _)
  | boolean =>
    cases v <;> simp [PrimTy.valueOk] at hv
    rename_i b
    simp only [leafToText, Option.some.injEq] at hs; subst hs
    cases b <;> decide
  | unicode a b c d => rfl
  | date =>
    cases v <;> simp [PrimTy.valueOk] at hv
    simp only [leafToText, Option.some.injEq] at hs; subst hs
    exact norm_noWs _ _ (noWs_isoDate _ hv)
  | time =>
    cases v <;> simp [PrimTy.valueOk] at hv
    simp only [leafToText, Option.some.injEq] at hs; subst hs
    exact norm_noWs _ _ (noWs_isoTime _ hv)
  | dateTime =>
    cases v <;> simp [PrimTy.valueOk] at hv
    simp only [leafToText, Option.some.injEq] at hs; subst hs
    exact norm_noWs _ _ (noWs_isoDateTime _ hv)
  | duration =>
    cases v <;> simp [PrimTy.valueOk] at hv
    simp only [leafToText, Option.some.injEq] at hs; subst hs
    exact norm_noWs _ _ (noWs_durToText F _)
  | bytes enc =>
    cases v <;> simp [PrimTy.valueOk] at hv
    rename_i bs
    have hb : bytesOk bs := hv
    cases enc with
    | base64 =>
      simp only [leafToText, Option.some.injEq] at hs; subst hs
      exact norm_noWs _ _ (noWs_of_xsdBase64Binary _ (xsdBase64Binary_b64enc bs hb))
    | hex =>
      simp only [leafToText, Option.some.injEq] at hs; subst hs
      exact norm_noWs _ _ (noWs_of_xsdHexBinary _ (xsdHexBinary_hexenc bs hb))
    | urlsafe => rfl
  | enum names => rfl

/-- a conformant leaf that is one of the declared `values` is written as a literal that passes the
    restriction generated for its member, enumeration facets included -/
theorem leaf_simpleOkA (A : App) (G : A.leaf.Good) (p : PrimTy) (v : Val)
    (hv : p.valueOk v = true) (hc : leafCond A p v = true) :
    ∃ s, leafToText A.leaf p v = some s ∧ simpleOk (builtinOf p) (primFacetsA A p) s = true := by
  simp only [leafCond, Bool.and_eq_true, Bool.or_eq_true] at hc
  obtain ⟨htz, hin⟩ := hc
  obtain ⟨s, hs, hok⟩ := leaf_simpleOk A.leaf G A.facts p v hv (rep_of_leaf p v hv htz)
  refine ⟨s, hs, ?_⟩
  unfold primFacetsA App.enumLits
  cases he : (A.extraVals p).isEmpty with
  | true =>
    simp only [List.isEmpty_iff] at he
    rw [he]; simpa using hok
  | false =>
    rw [he] at hin
    simp only [Bool.false_eq_true, false_or, List.any_eq_true] at hin
    obtain ⟨w, hw, heq⟩ := hin
    have := leafEq_eq v w heq
    subst this
    obtain ⟨h1, h2⟩ := extraVals_nonstring A p he
    simp only [simpleOk, Bool.and_eq_true] at hok ⊢
    refine ⟨hok.1, ?_⟩
    rw [facetsOk_enum_prefix _ _ _ (enums_primFacets A.facts p h1 h2), hok.2, Bool.and_true, Bool.or_eq_true]
    right
    -- the literal of `v` is among the enumeration literals; it contains no blanks or is a string-typed base
    have hmem : s ∈ (A.extraVals p).filterMap (leafToText A.leaf p) := List.mem_filterMap.mpr ⟨v, hw, hs⟩
    rw [leaf_norm_id A.leaf p v s hv hs]
    exact List.contains_iff_mem.mpr hmem

end Schema
end SpyneModel
