/-
  C14 helper lemmas, part 3: the finite table, calling the handlers of one firing, and what each
  listener sees of a run (for every world: arbitrary registrations on every manager).
-/
import SpyneModel.EventsSpec
namespace SpyneModel.Events

/-! ### the table -/

theorem mem_allInj (i : Inj) : i ∈ allInj := by
  obtain ⟨s, k, b⟩ := i
  simp only [allInj, List.mem_flatMap, List.mem_map]
  refine ⟨s, by cases s <;> simp [allStage], k, by cases k <;> simp [allKind], b, by cases b <;> simp, rfl⟩

theorem mem_allOptKind (o : Option ExcKind) : o ∈ allOptKind := by
  cases o with
  | none => simp [allOptKind]
  | some k => cases k <;> simp [allOptKind]

theorem mem_allRows (x : Row) : x ∈ allRows := by
  obtain ⟨a, b, t, st, k, co, ro⟩ := x
  simp only [allRows, List.mem_flatMap, List.mem_map]
  exact ⟨a, by cases a <;> simp, b, by cases b <;> simp, t, by cases t <;> simp [allTransport],
    st, by cases st <;> simp [allStage], k, by cases k <;> simp [allKind],
    co, mem_allOptKind co, ro, mem_allOptKind ro, rfl⟩

theorem row_of_table (F : Facts14) (h : allRows.all (rowOk F) = true) (x : Row) : rowOk F x = true :=
  List.all_eq_true.1 h x (mem_allRows x)

/-! ### calling the handlers of one firing -/

def mkObs (ev : Event) (p : Level × H) : Obs := .call p.1 p.2 ev

/-- the elements up to and including the first one that satisfies `p` -/
def takeThrough {α : Type} (p : α → Bool) : List α → List α
  | [] => []
  | x :: xs => if p x then [x] else x :: takeThrough p xs

theorem takeThrough_prefix {α : Type} (p : α → Bool) (l : List α) : takeThrough p l <+: l := by
  induction l with
  | nil => simp [takeThrough]
  | cons x xs ih =>
    simp only [takeThrough]
    split
    · exact ⟨xs, rfl⟩
    · obtain ⟨r, hr⟩ := ih
      exact ⟨r, by simp [hr]⟩

theorem runHandlers_obs (raises : H → Event → Option ExcKind) (ev : Event) (ts : List (Level × H)) :
    (runHandlers raises ev ts).1 = (takeThrough (fun p => (raises p.2 ev).isSome) ts).map (mkObs ev) := by
  induction ts with
  | nil => rfl
  | cons p ts ih =>
    obtain ⟨l, h⟩ := p
    simp only [runHandlers, takeThrough]
    split
    · rename_i k hr; simp [hr, mkObs]
    · rename_i hr; simp [hr, ih, mkObs]

theorem runHandlers_outcome (raises : H → Event → Option ExcKind) (ev : Event) (ts : List (Level × H)) :
    (runHandlers raises ev ts).2 = (ts.find? (fun p => (raises p.2 ev).isSome)).bind (fun p => raises p.2 ev) := by
  induction ts with
  | nil => rfl
  | cons p ts ih =>
    obtain ⟨l, h⟩ := p
    simp only [runHandlers, List.find?_cons]
    split
    · rename_i k hr; simp [hr]
    · rename_i hr; simp [hr, ih]

theorem runHandlers_quiet (raises : H → Event → Option ExcKind) (ev : Event) (ts : List (Level × H))
    (hq : ∀ p ∈ ts, raises p.2 ev = none) : runHandlers raises ev ts = (ts.map (mkObs ev), none) := by
  induction ts with
  | nil => rfl
  | cons p ts ih =>
    obtain ⟨l, h⟩ := p
    have h1 : raises h ev = none := hq (l, h) (by simp)
    have h2 := ih (fun p hp => hq p (by simp [hp]))
    simp [runHandlers, h1, h2, mkObs]


/-! ### targets -/

theorem mem_tag (l l' : Level) (h : H) (hs : List H) : (l, h) ∈ tag l' hs ↔ l = l' ∧ h ∈ hs := by
  simp only [tag, List.mem_map, Prod.mk.injEq]
  constructor
  · rintro ⟨a, ha, rfl, rfl⟩; exact ⟨rfl, ha⟩
  · rintro ⟨rfl, hh⟩; exact ⟨h, hh, rfl, rfl⟩

theorem mem_methTargets (ev : Event) (ms : List (Mgr Event)) (i : Nat) (l : Level) (h : H)
    (hm : (l, h) ∈ methTargets ev ms i) : ∃ j, l = .meth j := by
  induction ms generalizing i with
  | nil => simp [methTargets] at hm
  | cons m ms ih =>
    simp only [methTargets, List.mem_append, mem_tag] at hm
    rcases hm with ⟨rfl, _⟩ | hm
    · exact ⟨i, rfl⟩
    · exact ih _ hm

/-! ### the first application-level listener sees every firing -/

theorem symView_append (o : H) (a b : List Obs) : symView o (a ++ b) = symView o a ++ symView o b := by
  simp [symView, List.filterMap_append]

/-- listeners other than `(app, o)` contribute nothing to `o`'s view -/
theorem symView_runHandlers_nil (o : H) (raises : H → Event → Option ExcKind) (ev : Event)
    (ts : List (Level × H)) (hno : (Level.app, o) ∉ ts) : symView o (runHandlers raises ev ts).1 = [] := by
  rw [runHandlers_obs]
  obtain ⟨r, hr⟩ := takeThrough_prefix (fun p => (raises p.2 ev).isSome) ts
  have hsub : ∀ p ∈ takeThrough (fun p => (raises p.2 ev).isSome) ts, p ∈ ts := by
    intro p hp; rw [← hr]; exact List.mem_append_left _ hp
  simp only [symView, List.filterMap_map, List.filterMap_eq_nil_iff, Function.comp]
  intro p hp
  obtain ⟨l, h⟩ := p
  have hne : (l, h) ≠ (Level.app, o) := fun c => hno (c ▸ hsub _ hp)
  cases l <;> simp_all [mkObs, symOf]

theorem symView_expand (w : World) (o : H)
    (hfirst : ∀ ev, ∃ rest, w.app ev = o :: rest ∧ o ∉ rest)
    (hquiet : ∀ ev, w.raises o ev = none) (s : Step) :
    symView o (expand w s) = methodView [s] := by
  cases s with
  | user => simp [expand, symView, symOf, methodView]
  | fire src ev =>
    cases src with
    | ctx d =>
      obtain ⟨rest, hr, hnot⟩ := hfirst ev
      have hq := hquiet ev
      have hts : ∃ more, targets w (.ctx d) ev = (Level.app, o) :: more ∧ (Level.app, o) ∉ more := by
        cases d with
        | false =>
          refine ⟨tag .app rest, by simp [targets, hr, tag], ?_⟩
          simp [mem_tag, hnot]
        | true =>
          refine ⟨tag .app rest ++ (methTargets ev w.meths 0 ++ tag .svc (w.svc ev)),
            by simp [targets, hr, tag], ?_⟩
          simp only [List.mem_append, mem_tag, not_or]
          refine ⟨by simp [hnot], ?_, by simp⟩
          intro hm
          obtain ⟨j, hj⟩ := mem_methTargets _ _ _ _ _ hm
          cases hj
      obtain ⟨more, hmore, hno⟩ := hts
      simp only [expand, hmore, runHandlers, hq, methodView]
      have := symView_runHandlers_nil o w.raises ev more hno
      simp only [symView, List.filterMap_cons, symOf, if_true] at this ⊢
      simp [this]
    | inProt =>
      simp only [expand, methodView]
      apply symView_runHandlers_nil
      simp [targets, mem_tag]
    | outProt =>
      simp only [expand, methodView]
      apply symView_runHandlers_nil
      simp [targets, mem_tag]
    | transport =>
      simp only [expand, methodView]
      apply symView_runHandlers_nil
      simp [targets, mem_tag]

theorem methodView_cons (s : Step) (fs : List Step) : methodView (s :: fs) = methodView [s] ++ methodView fs := by
  cases s with
  | user => rfl
  | fire src ev => cases src <;> rfl

/-- A listener that is registered first on the application's manager for every event and never raises
    sees exactly the method-context firings, and an observer in the user function sees its runs:
    together, `methodView`. For every world and every sequence of steps. -/
theorem first_observer_view (w : World) (o : H)
    (hfirst : ∀ ev, ∃ rest, w.app ev = o :: rest ∧ o ∉ rest)
    (hquiet : ∀ ev, w.raises o ev = none) (fs : List Step) :
    symView o (fs.flatMap (expand w)) = methodView fs := by
  induction fs with
  | nil => rfl
  | cons s fs ih =>
    rw [List.flatMap_cons, symView_append, ih, symView_expand w o hfirst hquiet, ← methodView_cons]


/-! ### a world in which no listener raises: every listener's view -/

theorem viewOf_append (lvl : Level) (h : H) (a b : List Obs) :
    viewOf lvl h (a ++ b) = viewOf lvl h a ++ viewOf lvl h b := by
  simp [viewOf, List.filterMap_append]

theorem viewOf_map_mkObs (lvl : Level) (h : H) (ev : Event) (ts : List (Level × H)) :
    viewOf lvl h (ts.map (mkObs ev)) = List.replicate (ts.count (lvl, h)) ev := by
  induction ts with
  | nil => rfl
  | cons p ts ih =>
    obtain ⟨l, h'⟩ := p
    simp only [viewOf, List.map_cons, List.filterMap_cons, mkObs, evOf] at ih ⊢
    by_cases hc : l = lvl ∧ h' = h
    · obtain ⟨rfl, rfl⟩ := hc
      simp [ih, List.replicate_succ]
    · have hne : ((l, h') == (lvl, h)) = false := by
        simp only [beq_eq_false_iff_ne, ne_eq, Prod.mk.injEq]; exact hc
      rw [List.count_cons, hne]; simp [hc, ih]

/-- how often listener `(lvl, h)` is called for a step -/
def callsOf (w : World) (lvl : Level) (h : H) : Step → List Event
  | .fire src ev => List.replicate ((targets w src ev).count (lvl, h)) ev
  | .user => []

theorem quiet_view (w : World) (hq : ∀ h ev, w.raises h ev = none) (lvl : Level) (h : H) (fs : List Step) :
    viewOf lvl h (fs.flatMap (expand w)) = fs.flatMap (callsOf w lvl h) := by
  induction fs with
  | nil => rfl
  | cons s fs ih =>
    rw [List.flatMap_cons, List.flatMap_cons, viewOf_append, ih]
    congr 1
    cases s with
    | user => simp [expand, viewOf, evOf, callsOf]
    | fire src ev =>
      simp only [expand, callsOf]
      rw [runHandlers_quiet _ _ _ (fun p _ => hq p.2 ev)]
      exact viewOf_map_mkObs _ _ _ _

theorem count_tag (l l' : Level) (h : H) (hs : List H) :
    (tag l' hs).count (l, h) = if l = l' then hs.count h else 0 := by
  induction hs with
  | nil => simp [tag]
  | cons x xs ih =>
    simp only [tag, List.map_cons] at ih ⊢
    rw [List.count_cons, ih, List.count_cons]
    by_cases hl : l = l'
    · subst hl
      by_cases hx : x = h
      · subst hx; simp
      · have : ((l, x) == (l, h)) = false := by simp [hx]
        simp [this, hx]
    · have : ((l', x) == (l, h)) = false := by
        simp only [beq_eq_false_iff_ne, ne_eq, Prod.mk.injEq]; exact fun c => hl c.1.symm
      simp [this, hl]

theorem count_methTargets_other (ev : Event) (ms : List (Mgr Event)) (i : Nat) (l : Level) (h : H)
    (hl : ∀ j, l ≠ .meth j) : (methTargets ev ms i).count (l, h) = 0 := by
  rw [List.count_eq_zero]
  intro hm
  obtain ⟨j, hj⟩ := mem_methTargets _ _ _ _ _ hm
  exact hl j hj

theorem replicate_count_nodup (hs : List H) (h : H) (ev : Event) (hn : hs.Nodup) :
    List.replicate (hs.count h) ev = if h ∈ hs then [ev] else [] := by
  rw [hn.count]
  by_cases hm : h ∈ hs <;> simp [hm]

/-- application-level listeners: every method-context event they registered for, once, in order -/
theorem quiet_app_view (w : World) (hq : ∀ h ev, w.raises h ev = none) (h : H)
    (hn : ∀ ev, (w.app ev).Nodup) (fs : List Step) :
    viewOf .app h (fs.flatMap (expand w)) = (ctxEvents fs).filter (fun ev => h ∈ w.app ev) := by
  rw [quiet_view w hq]
  induction fs with
  | nil => rfl
  | cons s fs ih =>
    rw [List.flatMap_cons, ih]
    cases s with
    | user => simp [callsOf, ctxEvents]
    | fire src ev =>
      cases src with
      | ctx d =>
        have : (targets w (.ctx d) ev).count (Level.app, h) = (w.app ev).count h := by
          cases d with
          | false => simp [targets, count_tag]
          | true =>
            simp only [targets, List.count_append, count_tag]
            rw [count_methTargets_other _ _ _ _ _ (by intro j; simp)]
            simp
        simp only [callsOf, this, ctxEvents, List.filter_cons]
        rw [replicate_count_nodup _ _ _ (hn ev)]
        by_cases hm : h ∈ w.app ev <;> simp [hm]
      | inProt => simp [callsOf, targets, count_tag, ctxEvents]
      | outProt => simp [callsOf, targets, count_tag, ctxEvents]
      | transport => simp [callsOf, targets, count_tag, ctxEvents]

/-- service-level listeners: every event fired after dispatch that they registered for, once, in order -/
theorem quiet_svc_view (w : World) (hq : ∀ h ev, w.raises h ev = none) (h : H)
    (hn : ∀ ev, (w.svc ev).Nodup) (fs : List Step) :
    viewOf .svc h (fs.flatMap (expand w)) = (descEvents fs).filter (fun ev => h ∈ w.svc ev) := by
  rw [quiet_view w hq]
  induction fs with
  | nil => rfl
  | cons s fs ih =>
    rw [List.flatMap_cons, ih]
    cases s with
    | user => simp [callsOf, descEvents]
    | fire src ev =>
      cases src with
      | ctx d =>
        cases d with
        | false => simp [callsOf, targets, count_tag, descEvents]
        | true =>
          have : (targets w (.ctx true) ev).count (Level.svc, h) = (w.svc ev).count h := by
            simp only [targets, List.count_append, count_tag]
            rw [count_methTargets_other _ _ _ _ _ (by intro j; simp)]
            simp
          simp only [callsOf, this, descEvents, List.filter_cons]
          rw [replicate_count_nodup _ _ _ (hn ev)]
          by_cases hm : h ∈ w.svc ev <;> simp [hm]
      | inProt => simp [callsOf, targets, count_tag, descEvents]
      | outProt => simp [callsOf, targets, count_tag, descEvents]
      | transport => simp [callsOf, targets, count_tag, descEvents]


theorem count_methTargets (ev : Event) (ms : List (Mgr Event)) (i j : Nat) (h : H) :
    (methTargets ev ms i).count (Level.meth j, h) =
      if i ≤ j then ((ms[j - i]?).map (fun m => (m ev).count h)).getD 0 else 0 := by
  induction ms generalizing i with
  | nil => simp [methTargets]
  | cons m ms ih =>
    simp only [methTargets, List.count_append, count_tag, ih]
    by_cases h1 : j < i
    · have : ¬ i ≤ j := by omega
      have : ¬ i + 1 ≤ j := by omega
      have : Level.meth j ≠ Level.meth i := by intro c; cases c; omega
      simp [*]
    · by_cases h2 : j = i
      · subst h2
        have : ¬ j + 1 ≤ j := by omega
        simp [this]
      · have h3 : i + 1 ≤ j := by omega
        have h4 : i ≤ j := by omega
        have h5 : Level.meth j ≠ Level.meth i := by intro c; cases c; exact h2 rfl
        have h6 : j - i = (j - (i + 1)) + 1 := by omega
        simp only [h3, h4, h5, if_true, if_false, Nat.zero_add]
        rw [h6, List.getElem?_cons_succ]

/-- method-level listeners (the managers given to @rpc): like service-level ones -/
theorem quiet_meth_view (w : World) (hq : ∀ h ev, w.raises h ev = none) (j : Nat) (m : Mgr Event) (h : H)
    (hj : w.meths[j]? = some m) (hn : ∀ ev, (m ev).Nodup) (fs : List Step) :
    viewOf (.meth j) h (fs.flatMap (expand w)) = (descEvents fs).filter (fun ev => h ∈ m ev) := by
  rw [quiet_view w hq]
  induction fs with
  | nil => rfl
  | cons s fs ih =>
    rw [List.flatMap_cons, ih]
    cases s with
    | user => simp [callsOf, descEvents]
    | fire src ev =>
      cases src with
      | ctx d =>
        cases d with
        | false => simp [callsOf, targets, count_tag, descEvents]
        | true =>
          have : (targets w (.ctx true) ev).count (Level.meth j, h) = (m ev).count h := by
            simp only [targets, List.count_append, count_tag, count_methTargets]
            simp [hj]
          simp only [callsOf, this, descEvents, List.filter_cons]
          rw [replicate_count_nodup _ _ _ (hn ev)]
          by_cases hm : h ∈ m ev <;> simp [hm]
      | inProt => simp [callsOf, targets, count_tag, descEvents]
      | outProt => simp [callsOf, targets, count_tag, descEvents]
      | transport => simp [callsOf, targets, count_tag, descEvents]

/-! ### order inside one firing -/

/-- the listeners called for one firing are a prefix of its targets (all of them if none raises):
    registration order, each at most as often as it is a target -/
theorem expand_fire_prefix (w : World) (src : Src) (ev : Event) :
    ∃ pre, pre <+: targets w src ev ∧ expand w (.fire src ev) = pre.map (mkObs ev) := by
  refine ⟨takeThrough (fun p => (w.raises p.2 ev).isSome) (targets w src ev), takeThrough_prefix _ _, ?_⟩
  simp [expand, runHandlers_obs]

theorem expand_fire_quiet (w : World) (src : Src) (ev : Event)
    (hq : ∀ p ∈ targets w src ev, w.raises p.2 ev = none) :
    expand w (.fire src ev) = (targets w src ev).map (mkObs ev) := by
  simp [expand, runHandlers_quiet _ _ _ hq]


/-! ### listeners below the application level only hear firings made with a descriptor -/

theorem viewOf_expand_desc (w : World) (lvl : Level) (h : H) (hl : lvl = .svc ∨ ∃ j, lvl = .meth j)
    (s : Step) (ev : Event) (hm : ev ∈ viewOf lvl h (expand w s)) : s = .fire (.ctx true) ev := by
  cases s with
  | user => simp [expand, viewOf, evOf] at hm
  | fire src ev' =>
    obtain ⟨pre, ⟨r, hr⟩, hobs⟩ := expand_fire_prefix w src ev'
    rw [hobs] at hm
    simp only [viewOf, List.mem_filterMap, List.mem_map] at hm
    obtain ⟨ob, ⟨p, hp, rfl⟩, hev⟩ := hm
    obtain ⟨l, h'⟩ := p
    simp only [mkObs, evOf] at hev
    split at hev
    · rename_i hc
      obtain ⟨rfl, rfl⟩ := hc
      cases hev
      have hpt : (l, h') ∈ targets w src ev := by rw [← hr]; exact List.mem_append_left _ hp
      cases src with
      | ctx d =>
        cases d with
        | true => rfl
        | false =>
          simp only [targets, mem_tag] at hpt
          rcases hl with rfl | ⟨j, rfl⟩ <;> simp at hpt
      | inProt => simp only [targets, mem_tag] at hpt; rcases hl with rfl | ⟨j, rfl⟩ <;> simp at hpt
      | outProt => simp only [targets, mem_tag] at hpt; rcases hl with rfl | ⟨j, rfl⟩ <;> simp at hpt
      | transport => simp only [targets, mem_tag] at hpt; rcases hl with rfl | ⟨j, rfl⟩ <;> simp at hpt
    · cases hev

theorem mem_descEvents (fs : List Step) (ev : Event) (h : Step.fire (.ctx true) ev ∈ fs) : ev ∈ descEvents fs := by
  induction fs with
  | nil => simp at h
  | cons s fs ih =>
    rcases List.mem_cons.1 h with rfl | h
    · simp [descEvents]
    · have := ih h
      cases s with
      | user => simpa [descEvents] using this
      | fire src e =>
        cases src with
        | ctx d => cases d <;> simp [descEvents, this]
        | inProt => simpa [descEvents] using this
        | outProt => simpa [descEvents] using this
        | transport => simpa [descEvents] using this

/-- whatever the listeners do: a method- or service-level listener only ever hears events that were
    fired while the descriptor was set -/
theorem viewOf_subset_desc (w : World) (lvl : Level) (h : H) (hl : lvl = .svc ∨ ∃ j, lvl = .meth j)
    (fs : List Step) (ev : Event) (hm : ev ∈ viewOf lvl h (fs.flatMap (expand w))) : ev ∈ descEvents fs := by
  simp only [viewOf, List.mem_filterMap, List.mem_flatMap] at hm
  obtain ⟨ob, ⟨s, hs, hob⟩, hev⟩ := hm
  have : ev ∈ viewOf lvl h (expand w s) := by
    simp only [viewOf, List.mem_filterMap]; exact ⟨ob, hob, hev⟩
  have := viewOf_expand_desc w lvl h hl s ev this
  subst this
  exact mem_descEvents fs ev hs

/-! ### the protocols' own events (the slots) are invisible to the method-context and transport views -/

theorem methodView_append (a b : List Step) : methodView (a ++ b) = methodView a ++ methodView b := by
  induction a with
  | nil => rfl
  | cons s a ih => rw [List.cons_append, methodView_cons, methodView_cons s a, ih, List.append_assoc]

theorem descEvents_append (a b : List Step) : descEvents (a ++ b) = descEvents a ++ descEvents b := by
  induction a with
  | nil => rfl
  | cons s a ih =>
    cases s with
    | user => simpa [descEvents] using ih
    | fire src e =>
      cases src with
      | ctx d => cases d <;> simp [descEvents, ih]
      | inProt => simpa [descEvents] using ih
      | outProt => simpa [descEvents] using ih
      | transport => simpa [descEvents] using ih

theorem transportView_append (a b : List Step) : transportView (a ++ b) = transportView a ++ transportView b := by
  induction a with
  | nil => rfl
  | cons s a ih =>
    cases s with
    | user => simpa [transportView] using ih
    | fire src e => cases src <;> simp [transportView, ih]

theorem views_fires_prot (src : Src) (hs : src = .inProt ∨ src = .outProt) (l : List Event) :
    methodView (fires src l) = [] ∧ descEvents (fires src l) = [] ∧ transportView (fires src l) = [] := by
  induction l with
  | nil => exact ⟨rfl, rfl, rfl⟩
  | cons e l ih =>
    rcases hs with rfl | rfl <;> simpa [fires, methodView, descEvents, transportView] using ih

theorem views_fill_slot (F : Facts14) (c : Cfg) (inner : Bool) (sl : Slot) :
    methodView (fill F c inner (.slot sl)) = [] ∧ descEvents (fill F c inner (.slot sl)) = [] ∧
    transportView (fill F c inner (.slot sl)) = [] := by
  cases sl <;> simp only [fill]
  · exact views_fires_prot _ (Or.inl rfl) _
  · exact views_fires_prot _ (Or.inl rfl) _
  · split
    · exact views_fires_prot _ (Or.inl rfl) _
    · exact ⟨rfl, rfl, rfl⟩
  · split
    · exact ⟨rfl, rfl, rfl⟩
    · exact views_fires_prot _ (Or.inr rfl) _
  · exact views_fires_prot _ (Or.inr rfl) _
  · split
    · exact views_fires_prot _ (Or.inr rfl) _
    · exact ⟨rfl, rfl, rfl⟩

/-- filling the slots of a skeleton does not change what method-context and transport listeners see -/
theorem views_fill (F : Facts14) (c : Cfg) (inner : Bool) (l : List SStep) :
    methodView (l.flatMap (fill F c inner)) = methodView (unslot l) ∧
    descEvents (l.flatMap (fill F c inner)) = descEvents (unslot l) ∧
    transportView (l.flatMap (fill F c inner)) = transportView (unslot l) := by
  induction l with
  | nil => exact ⟨rfl, rfl, rfl⟩
  | cons x l ih =>
    rw [List.flatMap_cons, methodView_append, descEvents_append, transportView_append, ih.1, ih.2.1, ih.2.2]
    cases x with
    | slot sl =>
      obtain ⟨h1, h2, h3⟩ := views_fill_slot F c inner sl
      simp [h1, h2, h3, unslot]
    | step s =>
      simp only [fill, unslot]
      refine ⟨(methodView_cons s _).symm, ?_, ?_⟩
      · have := descEvents_append [s] (unslot l); simpa using this.symm
      · have := transportView_append [s] (unslot l); simpa using this.symm

theorem truth_inner (s : Stage) (k : ExcKind) (b : Bool) (co ro : Option ExcKind) :
    truth ⟨s, k, b⟩ co ro = truth ⟨s, k, false⟩ co ro := rfl

/-! ### reading a row of the table -/

theorem run_row (F : Facts14) (htable : allRows.all (rowOk F) = true)
    (hsig : ∀ sg pc, F.proc sg pc = F.proc .single pc) (c : Cfg) (inj : Inj)
    (co ro : Option ExcKind) :
    let r := run F c inj co ro
    let tr := truth inj co ro
    r.escaped = (tr.serFail && c.transport == .serverBase) ∧ descScopeOk r.steps = true ∧
    (r.escaped = false →
      final (methodView r.steps) = .done tr.userRan tr.returned tr.faulted ∧
      transportOk c.transport r.steps tr.faulted = true) := by
  have h := row_of_table F htable
    ⟨!c.presetDoc && F.leavesNone c.outp (effShape c inj), F.leavesNoneFault c.outp, c.transport, inj.stage, inj.kind, co, ro⟩
  obtain ⟨v1, v2, v3⟩ := views_fill F c inj.inner (skelOf F c inj co ro).steps
  have hP : F.proc c.sig = F.proc .single := funext (hsig c.sig)
  obtain ⟨st, k, b⟩ := inj
  simp only [rowOk, Bool.and_eq_true, Bool.or_eq_true, beq_iff_eq] at h
  obtain ⟨⟨h1, h2⟩, h3⟩ := h
  simp only [run, skelOf, truth_inner st k b, hP] at v1 v2 v3 ⊢
  refine ⟨h1, ?_, ?_⟩
  · simpa [descScopeOk, v2] using h2
  · intro hne
    rcases h3 with h3 | h3
    · rw [hne] at h3; cases h3
    · refine ⟨by rw [v1]; exact h3.1, ?_⟩
      have := h3.2
      simpa [transportOk, v3] using this

end SpyneModel.Events
