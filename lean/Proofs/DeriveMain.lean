/-
  C15 proofs, part 7: the frame theorem for every operation and for histories.
-/
import Proofs.DeriveEvolve
namespace SpyneModel.Derive

/-- the facts under which the property holds -/
structure GoodFacts (F : Facts15) : Prop where
  mand : F.mandRule = .copies
  var : F.varRule = .ownPerClass
  varX : F.varRuleX = .ownPerClass
  col : F.colCopy = .deep
  prot : F.protCopy = .copied
  subs : F.subsRule = .classStatementsOnly

theorem impl_append (F : Facts15) [DeepCopy F] (fuel : Nat) (name : String) (t : Nat) : Impl (appendImpl F fuel name t) :=
  ⟨fun _ _ _ v hv => good_appendImpl F fuel name t v hv, fun v => keeps_appendImpl F fuel name t v⟩

theorem impl_insert (F : Facts15) [DeepCopy F] (fuel idx : Nat) (name : String) (t : Nat) : Impl (insertImpl F fuel idx name t) :=
  ⟨fun _ _ _ v hv => good_insertImpl F fuel idx name t v hv, fun v => keeps_insertImpl F fuel idx name t v⟩

/-- the program of append/insert around `evolve` -/
theorem evolveOp_ext (impl : Nat → M Unit) (hi : Impl impl) (h : Heap) (ih : Inv h) (c t : Nat) :
    Ext h.cls.length h.attrs.length (c :: variantsOf h c) h
      ((do
        let cl ← getCls c
        guardNone (if cl.kind.isComplex then none else some "AttributeError")
        let _ ← getCls t
        evolve impl c
        pure (none : Option Nat)) h).heap := by
  simp only [Bind.bind, M.bind, SpyneModel.Derive.getCls]
  cases hc : h.cls[c]? with
  | none => exact Ext.refl _ _ _ _
  | some cl =>
    simp only
    cases hk : cl.kind.isComplex with
    | false => simp only [guardNone]; exact Ext.refl _ _ _ _
    | true =>
      simp only [guardNone, Pure.pure, M.pure, if_true]
      cases ht : h.cls[t]? with
      | none => exact Ext.refl _ _ _ _
      | some tc =>
        simp only
        have r := (evolve_ext impl hi h ih c cl hc hk).1
        cases he : evolve impl c h with
        | ok h' u => rw [he] at r; exact r
        | err h' e => rw [he] at r; exact r

theorem map_heap {α β : Type} (f : α → β) (m : M α) (h : Heap) : ((f <$> m) h).heap = (m h).heap := by
  have : (f <$> m) = (m >>= fun a => Pure.pure (f a)) := rfl
  rw [this]
  simp only [Bind.bind, M.bind]
  cases m h <;> rfl

/-- a class statement: the only existing class it may write is the one it extends (its `_subclasses`) -/
theorem subclass_ext (F : Facts15) (h : Heap) (base : Option Nat) (name : String) (ns : Option String)
    (fields : List (String × Nat)) (perm : List Nat) (attrs : Option Kw) (mixins : List Nat) (asMixin : Bool) :
    Ext h.cls.length h.attrs.length (touched F h (.subclass base name ns fields perm attrs mixins asMixin)) h
      (subclassOp F base name ns fields perm attrs mixins asMixin h).heap := by
  unfold subclassOp
  simp only [Bind.bind, M.bind, SpyneModel.Derive.getCls, touched]
  cases hb : h.cls[base.getD F.complexRoot]? with
  | none => exact Ext.refl _ _ _ _
  | some bc =>
    simp only
    cases hx : subclassExtends (base.getD F.complexRoot) bc with
    | error e => simp only [liftExcept, SpyneModel.Derive.fail]; exact Ext.refl _ _ _ _
    | ok ext =>
      simp only [liftExcept, Pure.pure, M.pure]
      refine (good_subclassRest F _ bc ext name ns fields perm attrs mixins asMixin ?_ h (Nat.le_refl _) (Nat.le_refl _)).1
      intro e he
      subst he
      right; simp

/-- FRAME, one step: an operation - returning or raising - leaves the record of every existing class outside
    `touched` and the public part of every existing `Attributes` as they were -/
theorem frame_ext (F : Facts15) (gf : GoodFacts F) (fuel : Nat) (h : Heap) (ih : Inv h) (op : Op) :
    Ext h.cls.length h.attrs.length (touched F h op) h (apply F fuel h op).heap := by
  haveI : DeepCopy F := ⟨gf.col, gf.prot, gf.subs⟩
  cases hop : op.derives with
  | true =>
    have e := derive_ext F gf.mand fuel h op hop
    have ht : touched F h op = [] := by
      cases op <;> simp [touched, Op.derives, gf.mand] at hop ⊢
    rw [ht]; exact e
  | false =>
    cases op with
    | append c name t => exact evolveOp_ext _ (impl_append F fuel name t) h ih c t
    | insert c idx name t => exact evolveOp_ext _ (impl_insert F fuel idx name t) h ih c t
    | customize => simp [Op.derives] at hop
    | array => simp [Op.derives] at hop
    | mandatory => simp [Op.derives] at hop
    | subclass base name ns fields perm attrs mixins asMixin =>
      have := subclass_ext F h base name ns fields perm attrs mixins asMixin
      simp only [apply, opProg, map_heap]
      exact this
    | xmlattr => simp [Op.derives] at hop

theorem inv_range (h : Heap) (ih : Inv h) (c : Nat) (cl : Cls) (hc : h.cls[c]? = some cl) :
    cl.attrs < h.attrs.length := by
  have := ih.range c _ _ _ (view_cls_of h c cl hc)
  simp only [viewOf] at this
  rcases Nat.lt_or_ge cl.attrs h.attrs.length with hl | hl
  · exact hl
  · rw [List.getElem?_eq_none hl] at this; simp at this

/-- FRAME, one step, on observations -/
theorem frame_obs (F : Facts15) (gf : GoodFacts F) (fuel : Nat) (h : Heap) (ih : Inv h) (op : Op) (c : Nat)
    (hc : c < h.cls.length) (ht : c ∉ touched F h op) :
    obs1 F (apply F fuel h op).heap c = obs1 F h c :=
  obs1_ext F (frame_ext F gf fuel h ih op) c hc ht (fun cl hcl => inv_range h ih c cl hcl)

/-- a class is never in `touched` along a history -/
def untouched (F : Facts15) (fuel : Nat) (c : Nat) : Heap → List Op → Prop
  | _, [] => True
  | h, op :: ops => c ∉ touched F h op ∧ untouched F fuel c (apply F fuel h op).heap ops

/-- FRAME, histories: whatever is derived from, appended to or inserted into other models, a model that no
    step is entitled to change has, at the end, the observation it had at the start -/
theorem history_frame (F : Facts15) (gf : GoodFacts F) (fuel : Nat) (ops : List Op) :
    ∀ h, Inv h → ∀ c, c < h.cls.length → untouched F fuel c h ops →
      obs1 F (runOps F fuel h ops) c = obs1 F h c := by
  induction ops with
  | nil => intro h _ c _ _; rfl
  | cons op ops ihops =>
    intro h ih c hc hu
    simp only [runOps]
    have e := frame_ext F gf fuel h ih op
    rw [ihops _ (inv_apply F gf.var gf.varX fuel h op ih) c (Nat.lt_of_lt_of_le hc e.clsLen) hu.2]
    exact frame_obs F gf fuel h ih op c hc hu.1

end SpyneModel.Derive

namespace SpyneModel.Derive

theorem getElem?_zipWith_range {β γ : Type} (f : Nat → β → γ) (l : List β) (i : Nat) :
    ((List.range l.length).zipWith f l)[i]? = (l[i]?).map (f i) := by
  rw [List.getElem?_zipWith]
  rcases Nat.lt_or_ge i l.length with hl | hl
  · simp [List.getElem?_range hl, List.getElem?_eq_getElem hl]
  · simp [List.getElem?_eq_none hl]

theorem inv_init (F : Facts15) (hF : F.varRuleX = .ownPerClass) : Inv (initHeap F) := by
  have hc : ∀ c, (viewOf (initHeap F)).cls c = (F.bases[c]?).map (fun b => (b.kind.isComplex, c, none)) := by
    intro c
    simp only [viewOf, initHeap, getElem?_zipWith_range, Option.map_map]
    rfl
  have hv : ∀ a, (viewOf (initHeap F)).var a = (F.bases[a]?).map (fun _ => some none) := by
    intro a
    simp only [viewOf, initHeap, getElem?_zipWith_range, Option.map_map, hF]
    cases F.bases[a]? <;> simp
  constructor
  · intro c k a o h
    rw [hc] at h
    rw [hv]
    cases hb : F.bases[c]? with
    | none => simp [hb] at h
    | some b => simp [hb] at h; obtain ⟨_, rfl, _⟩ := h; simp [hb]
  · intro c1 c2 a o1 o2 h1 h2
    rw [hc] at h1 h2
    cases hb1 : F.bases[c1]? <;> cases hb2 : F.bases[c2]? <;> simp [hb1, hb2] at h1 h2
    omega
  · intro c a o h
    rw [hc] at h
    rw [hv]
    cases hb : F.bases[c]? with
    | none => simp [hb] at h
    | some b => simp [hb] at h; obtain ⟨_, rfl, _⟩ := h; simp [hb]
  · intro c a r h
    rw [hc] at h
    cases hb : F.bases[c]? <;> simp [hb] at h
  · intro c a o l h hvv
    rw [hc] at h
    rw [hv] at hvv
    cases hb : F.bases[c]? with
    | none => simp [hb] at h
    | some b => simp [hb] at h; obtain ⟨_, rfl, _⟩ := h; simp [hb] at hvv
  · intro x ax r h
    rw [hc] at h
    cases hb : F.bases[x]? <;> simp [hb] at h


/-- with the discipline, the keys of a class's `_variants` are exactly its customised variants -/
theorem variants_exact (h : Heap) (ih : Inv h) (c : Nat) (cl : Cls) (hc : h.cls[c]? = some cl)
    (hk : cl.kind.isComplex = true) (v : Nat) :
    v ∈ variantsOf h c ↔ ∃ vc, h.cls[v]? = some vc ∧ vc.kind.isComplex = true ∧ vc.orig = some c := by
  obtain ⟨x, hx, hvs⟩ := inv_variantsOf h ih c cl hc hk
  have hview := view_cls_of h c cl hc
  rw [hk] at hview
  constructor
  · intro hv
    rw [hvs] at hv
    cases x with
    | none => simp at hv
    | some l =>
      obtain ⟨ax, hax⟩ := ih.sound c cl.attrs cl.orig l hview hx v (by simpa using hv)
      obtain ⟨vc, a1, a2, _, a4⟩ := cls_of_view h v true ax (some c) hax
      exact ⟨vc, a1, a2, a4⟩
  · intro ⟨vc, a1, a2, a3⟩
    have hvv := view_cls_of h v vc a1
    rw [a2, a3] at hvv
    obtain ⟨ar, l, b1, b2, b3⟩ := ih.complete v vc.attrs c hvv
    obtain ⟨rc, c1, _, c3, _⟩ := cls_of_view h c true ar none b1
    rw [hc] at c1
    cases c1
    rw [← c3] at b2
    rw [variantsOf_own h c cl hc (some l) b2]
    simpa using b3

end SpyneModel.Derive
