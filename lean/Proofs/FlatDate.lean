/-
  C03 helper lemmas, part 13: the HTTP date of a DateTime out-header denotes the same instant as
  the value that was set (`_header_to_bytes`: aware values are converted to GMT, naive ones are
  taken as GMT).
-/
import SpyneModel.FlatQs
namespace SpyneModel.Flat
open SpyneModel

theorem isLeap_iff (y : Nat) : isLeap y = true ↔ (y % 4 = 0 ∧ (y % 100 ≠ 0 ∨ y % 400 = 0)) := by
  simp [isLeap]

theorem daysBeforeYear_succ (y : Nat) (hy : 1 ≤ y) :
    daysBeforeYear (y + 1) = daysBeforeYear y + 365 + (if isLeap y then 1 else 0) := by
  unfold daysBeforeYear isLeap
  have e : y + 1 - 1 = y := by omega
  rw [e]
  by_cases h4 : y % 4 = 0 <;> by_cases h100 : y % 100 = 0 <;> by_cases h400 : y % 400 = 0 <;>
    simp only [h4, h100, h400, decide_true, decide_false, Bool.true_and, Bool.false_and, Bool.or_true, Bool.or_false,
      ne_eq, not_true_eq_false, not_false_eq_true, if_true, Bool.false_eq_true, if_false] <;>
    omega

theorem daysBeforeMonth_succ (y m : Nat) (h1 : 1 ≤ m) (h2 : m < 12) :
    daysBeforeMonth y (m + 1) = daysBeforeMonth y m + daysInMonth y m := by
  have : m = 1 ∨ m = 2 ∨ m = 3 ∨ m = 4 ∨ m = 5 ∨ m = 6 ∨ m = 7 ∨ m = 8 ∨ m = 9 ∨ m = 10 ∨ m = 11 := by omega
  rcases this with rfl | rfl | rfl | rfl | rfl | rfl | rfl | rfl | rfl | rfl | rfl <;>
    (cases hl : isLeap y <;> simp [daysBeforeMonth, daysInMonth, hl])

theorem dayNumber_nextDay (d : Date) (hv : d.valid = true) : dayNumber (nextDay d) = dayNumber d + 1 := by
  simp only [Date.valid, Bool.and_eq_true, decide_eq_true_eq] at hv
  obtain ⟨⟨⟨⟨⟨hy1, _⟩, hm1⟩, hm2⟩, hd1⟩, hd2⟩ := hv
  unfold nextDay
  by_cases h1 : d.d < daysInMonth d.y d.m
  · simp only [h1, if_true, dayNumber]; omega
  · have hd : d.d = daysInMonth d.y d.m := by omega
    by_cases h2 : d.m < 12
    · simp only [h1, h2, if_true, if_false, dayNumber, daysBeforeMonth_succ d.y d.m hm1 h2]; omega
    · have hm : d.m = 12 := by omega
      simp only [h1, h2, if_false, dayNumber, daysBeforeYear_succ d.y hy1]
      rw [hd, hm]
      by_cases hl : isLeap d.y = true <;> simp [daysBeforeMonth, daysInMonth, hl] <;> omega

theorem dayNumber_prevDay (d : Date) (hv : d.valid = true) (hfirst : ¬ (d.y = 1 ∧ d.m = 1 ∧ d.d = 1)) :
    dayNumber (prevDay d) + 1 = dayNumber d := by
  simp only [Date.valid, Bool.and_eq_true, decide_eq_true_eq] at hv
  obtain ⟨⟨⟨⟨⟨hy1, _⟩, hm1⟩, hm2⟩, hd1⟩, hd2⟩ := hv
  unfold prevDay
  by_cases h1 : 1 < d.d
  · simp only [h1, if_true, dayNumber]; omega
  · have hd : d.d = 1 := by omega
    by_cases h2 : 1 < d.m
    · simp only [h1, h2, if_true, if_false, dayNumber]
      have := daysBeforeMonth_succ d.y (d.m - 1) (by omega) (by omega)
      have e : d.m - 1 + 1 = d.m := by omega
      rw [e] at this
      omega
    · have hm : d.m = 1 := by omega
      have hy : 2 ≤ d.y := by
        apply Classical.byContradiction
        intro hn
        exact hfirst ⟨by omega, hm, hd⟩
      simp only [h1, h2, if_false, dayNumber]
      have := daysBeforeYear_succ (d.y - 1) (by omega)
      have e : d.y - 1 + 1 = d.y := by omega
      rw [e] at this
      rw [this, hd, hm]
      by_cases hl : isLeap (d.y - 1) = true <;> simp [daysBeforeMonth, hl] <;> omega

/-- the value `_header_to_bytes` formats is in GMT and denotes the instant of the value that was set -/
theorem toUtc_instant (x : DateTime) (hv : x.valid = true)
    (hfirst : ¬ (x.date.y = 1 ∧ x.date.m = 1 ∧ x.date.d = 1)) :
    instantSec (toUtc x) = instantSec x ∧ (toUtc x).tz = some 0 ∧
      (toUtc x).time.h < 24 ∧ (toUtc x).time.mi < 60 ∧ (toUtc x).time.s = x.time.s := by
  simp only [DateTime.valid, Bool.and_eq_true] at hv
  obtain ⟨⟨hd, ht⟩, htz⟩ := hv
  simp only [Time.valid, Bool.and_eq_true, decide_eq_true_eq] at ht
  obtain ⟨⟨⟨hh, hmi⟩, hs⟩, _⟩ := ht
  unfold toUtc
  cases htzv : x.tz with
  | none =>
    simp [instantSec, htzv, hh, hmi]
  | some m =>
    rw [htzv] at htz
    simp only [Bool.and_eq_true, decide_eq_true_eq] at htz
    simp only
    by_cases h1 : ((x.time.h * 60 + x.time.mi : Nat) : Int) - m < 0
    · simp only [h1, if_true, instantSec, Option.getD, htzv]
      have := dayNumber_prevDay x.date hd hfirst
      refine ⟨?_, trivial, ?_, ?_, trivial⟩ <;> omega
    · by_cases h2 : ((x.time.h * 60 + x.time.mi : Nat) : Int) - m ≥ 1440
      · simp only [h1, h2, if_true, if_false, instantSec, Option.getD, htzv]
        have := dayNumber_nextDay x.date hd
        refine ⟨?_, trivial, ?_, ?_, trivial⟩ <;> omega
      · simp only [h1, h2, if_false, instantSec, Option.getD, htzv]
        refine ⟨?_, trivial, ?_, ?_, trivial⟩ <;> omega

end SpyneModel.Flat
