/-
  Leaf-level lemmas of the dict-document codec: what `primIn` does with the encoder's own leaves
  (round trip) — general in `F`, `G`, using only the `LeafLaws`.
-/
import SpyneModel.HierSpec
import Proofs.Leaf
import Proofs.HierUtf8
import Proofs.Prim
namespace SpyneModel.Hier
open SpyneModel

/-! ### ASCII text -/

def isAscii (s : Text) : Bool := s.all (fun c => decide (c.toNat < 128))

theorem utf8Enc_ascii (s : Text) (h : isAscii s = true) : utf8Enc s = s.map Char.toNat := by
  induction s with
  | nil => rfl
  | cons c cs ih =>
    simp only [isAscii, List.all_cons, Bool.and_eq_true, decide_eq_true_eq] at h
    have := ih (by simpa [isAscii] using h.2)
    simp [utf8Enc, utf8EncChar, h.1, this]

theorem asciiOfBytes_map (s : Text) (h : isAscii s = true) : asciiOfBytes (s.map Char.toNat) = some s := by
  unfold asciiOfBytes
  have h1 : (s.map Char.toNat).all (· < 128) = true := by
    simp only [isAscii, List.all_eq_true, decide_eq_true_eq] at h
    simp only [List.all_eq_true, List.mem_map, decide_eq_true_eq]
    rintro _ ⟨c, hc, rfl⟩; exact h c hc
  simp only [h1, if_true, List.map_map]
  congr 1
  have : (Char.ofNat ∘ Char.toNat) = id := by funext c; simp [Char.ofNat_toNat]
  rw [this, List.map_id]

theorem asciiOfBytes_utf8Enc (s : Text) (h : isAscii s = true) : asciiOfBytes (utf8Enc s) = some s := by
  rw [utf8Enc_ascii s h]; exact asciiOfBytes_map s h

theorem utf8Enc_length_ascii (s : Text) (h : isAscii s = true) : (utf8Enc s).length = s.length := by
  rw [utf8Enc_ascii s h]; simp

theorem isAscii_append (a b : Text) : isAscii (a ++ b) = (isAscii a && isAscii b) := by
  simp [isAscii, List.all_append]

theorem isDigit_ascii (c : Char) (h : isDigit c = true) : c.toNat < 128 := by
  simp [isDigit] at h; omega

theorem natText_ascii (n : Nat) : isAscii (natText n) = true := by
  have h := natText_all_digits n
  simp only [isAscii, List.all_eq_true, decide_eq_true_eq] at *
  intro c hc; exact isDigit_ascii c (h c hc)

theorem intText_ascii (i : Int) : isAscii (intText i) = true := by
  unfold intText
  split
  · simp only [isAscii, List.all_cons, Bool.and_eq_true, decide_eq_true_eq]
    exact ⟨by decide, by simpa [isAscii] using natText_ascii i.natAbs⟩
  · exact natText_ascii _

theorem hexDigit_ascii : ∀ n, n < 16 → (hexDigit n).toNat < 128 := by decide

theorem hexenc_ascii (bs : List Nat) (h : bs.all (fun b => decide (b < 256)) = true) : isAscii (hexenc bs) = true := by
  induction bs with
  | nil => rfl
  | cons b r ih =>
    simp only [List.all_cons, Bool.and_eq_true, decide_eq_true_eq] at h
    simp only [hexenc, isAscii, List.all_cons, Bool.and_eq_true, decide_eq_true_eq]
    refine ⟨hexDigit_ascii _ (by omega), hexDigit_ascii _ (by omega), ?_⟩
    simpa [isAscii] using ih h.2

theorem b64Char_ascii : ∀ url, ∀ n, n < 64 → (b64Char url n).toNat < 128 := by decide

theorem b64enc_ascii (url : Bool) : ∀ (bs : List Nat), bs.all (fun b => decide (b < 256)) = true →
    isAscii (b64enc url bs) = true
  | [], _ => rfl
  | [a], h => by
    simp only [List.all_cons, List.all_nil, Bool.and_true, decide_eq_true_eq] at h
    simp only [b64enc, isAscii, List.all_cons, List.all_nil, Bool.and_true, Bool.and_eq_true, decide_eq_true_eq]
    exact ⟨b64Char_ascii _ _ (by omega), b64Char_ascii _ _ (by omega), by decide, by decide⟩
  | [a, b], h => by
    simp only [List.all_cons, List.all_nil, Bool.and_true, Bool.and_eq_true, decide_eq_true_eq] at h
    simp only [b64enc, isAscii, List.all_cons, List.all_nil, Bool.and_true, Bool.and_eq_true, decide_eq_true_eq]
    exact ⟨b64Char_ascii _ _ (by omega), b64Char_ascii _ _ (by omega), b64Char_ascii _ _ (by omega), by decide⟩
  | a :: b :: c :: r, h => by
    simp only [List.all_cons, Bool.and_eq_true, decide_eq_true_eq] at h
    simp only [b64enc, isAscii, List.all_cons, Bool.and_eq_true, decide_eq_true_eq]
    refine ⟨b64Char_ascii _ _ (by omega), b64Char_ascii _ _ (by omega), b64Char_ascii _ _ (by omega),
      b64Char_ascii _ _ (by omega), ?_⟩
    have := b64enc_ascii url r h.2.2.2
    simpa [isAscii] using this

/-! ### leaf round trip -/

variable {F : Facts08}

theorem leaf_text (L : LeafLaws F) (p : PrimTy) (v : Val) (hv : p.valueOk v = true) (hf : leafFits F p v = true) :
    ∃ s, leafToText F p v = some s ∧ leafFromText F p s = .ok v ∧ validateString F p s = true ∧
      validateNative p v = true := by
  obtain ⟨s, h1, h2⟩ := L.roundtrip p v hv hf
  have h3 := L.soft p s v h2
  rw [hv] at h3
  simp only [Bool.and_eq_true] at h3
  exact ⟨s, h1, h2, h3.1, h3.2⟩

theorem validateNative_int (k : IntKind) (r : Range) (i : Int) :
    validateNative (.integer k r) (.int i) = (PrimTy.integer k r).valueOk (.int i) := by
  simp only [validateNative, PrimTy.valueOk]
  cases r.holds i <;> simp <;> rfl

theorem preOk_str (G : Facts02) (cfg : Cfg) (p : PrimTy) (o : Occ) (s : Text) (h : validateString F p s = true) :
    preOk F G cfg p o (.str s) = true := by
  unfold preOk
  cases p <;> cases cfg.proto <;> simp [Doc.isNull, h]

/-- a `str` document holding the canonical text of a non-numeric leaf is read back as the value -/
theorem primIn_str (G : Facts02) (cfg : Cfg) (p : PrimTy) (o : Occ) (v : Val) (s : Text)
    (hp : ∀ k r, p ≠ .integer k r) (hb : p ≠ .boolean)
    (hraw : ∀ enc, p = .bytes enc → isRaw cfg enc = false)
    (h2 : leafFromText F p s = .ok v) (h3 : validateString F p s = true) (h4 : validateNative p v = true) :
    primIn F G cfg p o (.str s) = .good v := by
  unfold primIn
  simp only [preOk_str G cfg p o s h3, strOk, h3, Bool.and_self, Bool.not_true, Bool.and_false, Bool.false_eq_true, if_false]
  cases p with
  | integer k r => exact absurd rfl (hp k r)
  | boolean => exact absurd rfl hb
  | unicode a b c d =>
    simp only [leafFromText, Outcome.ok.injEq] at h2
    subst h2
    simp [leafIn, strIn, postLeaf, Res.good, h4]
  | date => simp [leafIn, textIn, h2, ofOutcome, postLeaf, Res.good, h4]
  | time => simp [leafIn, textIn, h2, ofOutcome, postLeaf, Res.good, h4]
  | dateTime => simp [leafIn, textIn, h2, ofOutcome, postLeaf, Res.good, h4]
  | duration => simp [leafIn, textIn, h2, ofOutcome, postLeaf, Res.good, h4]
  | bytes enc =>
    simp [leafIn, bytesIn, hraw enc rfl, binDec, h2, ofOutcome, postLeaf, Res.good, h4]
  | enum names =>
    simp only [leafFromText] at h2
    split at h2
    · rename_i hc
      simp only [Outcome.ok.injEq] at h2; subst h2
      have hc' : s ∈ names := by simpa using hc
      simp [leafIn, enumIn, hc', postLeaf, Res.good, h4]
    · cases h2


/-- is the integer inside MessagePack's 64-bit window? -/
def inMpWindow (i : Int) : Bool := decide (-9223372036854775808 ≤ i) && decide (i < 18446744073709551616)

theorem primIn_int (G : Facts02) (cfg : Cfg) (k : IntKind) (r : Range) (o : Occ) (i : Int)
    (hv : (PrimTy.integer k r).valueOk (.int i) = true) :
    primIn F G cfg (.integer k r) o (.int i) = .good (.int i) := by
  unfold primIn
  have h4 := (validateNative_int k r i).trans hv
  have hpre : preOk F G cfg (.integer k r) o (.int i) = true := by
    unfold preOk; cases cfg.proto <;> simp [Doc.isNull]
  simp only [hpre, strOk, Bool.and_self, Bool.not_true, Bool.and_false, Bool.false_eq_true, if_false]
  cases hm : cfg.proto.isMsgpack <;> simp [leafIn, hm, intInJson, intInMp, postLeaf, Res.good, h4]

theorem primIn_bool (G : Facts02) (cfg : Cfg) (o : Occ) (b : Bool) :
    primIn F G cfg .boolean o (.bool b) = .good (.bool b) := by
  unfold primIn
  have hpre : preOk F G cfg .boolean o (.bool b) = true := by
    unfold preOk; cases cfg.proto <;> simp [Doc.isNull]
  simp only [hpre, strOk, Bool.and_self, Bool.not_true, Bool.and_false, Bool.false_eq_true, if_false]
  cases hb : cfg.boolPass G <;> simp [leafIn, hb, boolIn, boolPassIn, postLeaf, Res.good, validateNative]


theorem preOk_bytes (G : Facts02) (cfg : Cfg) (p : PrimTy) (o : Occ) (bs : List Nat) (hm : cfg.proto.isMsgpack = true) :
    preOk F G cfg p o (.bytes bs) = true := by
  unfold preOk
  cases p <;> cases hp : cfg.proto <;> simp_all [Doc.isNull, Proto.isMsgpack]

/-- MessagePack: UTF-8 `bin` for a Unicode member -/
theorem primIn_str_bytes (G : Facts02) (cfg : Cfg) (a : Nat) (b : Option Nat) (c : Option Pattern) (d : List Text)
    (o : Occ) (s : Text) (hm : cfg.proto.isMsgpack = true)
    (h3 : validateString F (.unicode a b c d) s = true)
    (h4 : validateNative (.unicode a b c d) (.str s) = true) :
    primIn F G cfg (.unicode a b c d) o (.bytes (utf8Enc s)) = .good (.str s) := by
  unfold primIn
  have hso : strOk F G (.unicode a b c d) (.bytes (utf8Enc s)) = true := by
    simp only [strOk, utf8Dec_utf8Enc, h3]; split <;> rfl
  simp only [preOk_bytes G cfg _ o _ hm, hso, Bool.and_self, Bool.not_true, Bool.and_false, Bool.false_eq_true, if_false]
  simp [leafIn, strIn, utf8Dec_utf8Enc, postLeaf, Res.good, h4]

/-- MessagePack: ASCII text as `bin` for a ByteArray with a text encoding -/
theorem primIn_bin_bytes (G : Facts02) (cfg : Cfg) (enc : BinEnc) (o : Occ) (s : Text) (bs : List Nat)
    (hm : cfg.proto.isMsgpack = true) (hraw : isRaw cfg enc = false) (ha : isAscii s = true)
    (h2 : leafFromText F (.bytes enc) s = .ok (.bytes bs)) :
    primIn F G cfg (.bytes enc) o (.bytes (utf8Enc s)) = .good (.bytes bs) := by
  unfold primIn
  simp only [preOk_bytes G cfg _ o _ hm, strOk, Bool.and_self, Bool.not_true, Bool.and_false, Bool.false_eq_true, if_false]
  simp [leafIn, bytesIn, hraw, asciiOfBytes_utf8Enc s ha, binDec, h2, ofOutcome, postLeaf, Res.good, validateNative]

theorem primIn_raw_bytes (G : Facts02) (cfg : Cfg) (enc : BinEnc) (o : Occ) (bs : List Nat)
    (hm : cfg.proto.isMsgpack = true) (hraw : isRaw cfg enc = true)
    (hall : bs.all (fun b => decide (b < 256)) = true) :
    primIn F G cfg (.bytes enc) o (.bytes bs) = .good (.bytes bs) := by
  unfold primIn
  simp only [preOk_bytes G cfg _ o _ hm, strOk, Bool.and_self, Bool.not_true, Bool.and_false, Bool.false_eq_true, if_false]
  simp only [leafIn, bytesIn, hraw, if_true, hall]
  simp [postLeaf, Res.good, validateNative]

/-- MessagePack: an integer outside the 64-bit window travels as its decimal text in a `bin` -/
theorem primIn_int_bytes (G : Facts02) (cfg : Cfg) (k : IntKind) (r : Range) (o : Occ) (i : Int)
    (hm : cfg.proto.isMsgpack = true) (hv : (PrimTy.integer k r).valueOk (.int i) = true)
    (hfit : (intToText i).length ≤ F.intMaxStrLen k) :
    primIn F G cfg (.integer k r) o (.bytes (utf8Enc (intToText i))) = .good (.int i) := by
  unfold primIn
  have h4 := (validateNative_int k r i).trans hv
  have ha : isAscii (intToText i) = true := intText_ascii i
  simp only [preOk_bytes G cfg _ o _ hm, strOk, Bool.and_self, Bool.not_true, Bool.and_false, Bool.false_eq_true, if_false]
  have hl : ¬ (F.intMaxStrLen k < (utf8Enc (intToText i)).length) := by
    rw [utf8Enc_length_ascii _ ha]; omega
  have hpy : pyInt (intToText i) = some i := pyInt_intText i
  simp [leafIn, hm, intInMp, hl, asciiOfBytes_utf8Enc _ ha, hpy, postLeaf, Res.good, h4]


theorem bounded_in_window (k : IntKind) (r : Range) (i : Int) (hk : k ≠ .unbounded)
    (hv : (PrimTy.integer k r).valueOk (.int i) = true) :
    -9223372036854775808 ≤ i ∧ i < 18446744073709551616 := by
  cases k <;> simp_all [PrimTy.valueOk, IntKind.lo, IntKind.hi] <;> omega

theorem valueOk_bytes_all (enc : BinEnc) (bs : List Nat) (hv : (PrimTy.bytes enc).valueOk (.bytes bs) = true) :
    bs.all (fun b => decide (b < 256)) = true := by simpa [PrimTy.valueOk] using hv

/-- the canonical text of a non-numeric leaf in a `str` document -/
theorem primIn_text (L : LeafLaws F) (G : Facts02) (cfg : Cfg) (p : PrimTy) (o : Occ) (v : Val) (s : Text)
    (hs : leafToText F p v = some s) (hv : p.valueOk v = true) (hf : leafFits F p v = true)
    (hp : ∀ k r, p ≠ .integer k r) (hb : p ≠ .boolean) (hraw : ∀ enc, p = .bytes enc → isRaw cfg enc = false) :
    primIn F G cfg p o (.str s) = .good v := by
  obtain ⟨s', h1, h2, h3, h4⟩ := leaf_text L p v hv hf
  rw [hs] at h1; cases h1
  exact primIn_str G cfg p o v s hp hb hraw h2 h3 h4

/-- every conformant leaf value survives `to_serstr` followed by `_from_dict_value` -/
theorem primIn_leafOut (L : LeafLaws F) (G : Facts02) (cfg : Cfg) (p : PrimTy) (o : Occ) (v : Val)
    (hv : p.valueOk v = true)
    (hfit : cfg.proto.isMsgpack = true → fitsV F v = true)
    (hmp : cfg.proto.isMsgpack = true → mpLeafOk p = true) :
    primIn F G cfg p o (leafOut F cfg p v) = .good v := by
  cases hm : cfg.proto.isMsgpack
  · -- json / yaml
    have nraw : ∀ (q : PrimTy) enc, q = .bytes enc → isRaw cfg enc = false := fun _ enc _ => by simp [isRaw, hm]
    cases p <;> cases v <;> (try (simp [PrimTy.valueOk] at hv; done))
    case integer.int k r i => simpa [leafOut, hm] using primIn_int G cfg k r o i hv
    case boolean.bool b => simpa [leafOut] using primIn_bool G cfg o b
    case unicode.str a b c d s =>
      simpa [leafOut, leafToText, textOut, hm] using
        primIn_text L G cfg _ o _ s rfl hv rfl (by intros; simp) (by simp) (nraw _)
    case date.date x =>
      simpa [leafOut, leafToText, textOut, hm] using
        primIn_text L G cfg _ o _ _ rfl hv rfl (by intros; simp) (by simp) (nraw _)
    case time.time x =>
      simpa [leafOut, leafToText, textOut, hm] using
        primIn_text L G cfg _ o _ _ rfl hv rfl (by intros; simp) (by simp) (nraw _)
    case dateTime.dt x =>
      simpa [leafOut, leafToText, textOut, hm] using
        primIn_text L G cfg _ o _ _ rfl hv rfl (by intros; simp) (by simp) (nraw _)
    case duration.dur x =>
      simpa [leafOut, leafToText, textOut, hm] using
        primIn_text L G cfg _ o _ _ rfl hv rfl (by intros; simp) (by simp) (nraw _)
    case bytes.bytes enc bs =>
      cases enc <;>
      simpa [leafOut, leafToText, textOut, hm] using
        primIn_text L G cfg _ o _ _ rfl hv rfl (by intros; simp) (by simp) (nraw _)
    case enum.enum names n =>
      simpa [leafOut, leafToText, textOut, hm] using
        primIn_text L G cfg _ o _ _ rfl hv rfl (by intros; simp) (by simp) (nraw _)
  · -- msgpack / msgpack-rpc
    have hfit' := hfit hm
    have hmp' := hmp hm
    cases p <;> cases v <;> (try (simp [PrimTy.valueOk] at hv; done)) <;> (try (simp [mpLeafOk] at hmp'; done))
    case integer.int k r i =>
      by_cases hw : -9223372036854775808 ≤ i ∧ i < 18446744073709551616
      · simpa [leafOut, hm, hw] using primIn_int G cfg k r o i hv
      · have hk : k = .unbounded := by
          cases k <;> first | rfl | exact absurd (bounded_in_window _ r i (by simp) hv) hw
        subst hk
        have : (intToText i).length ≤ F.intMaxStrLen .unbounded := by simpa [fitsV, fitsInt] using hfit'
        simpa [leafOut, hm, hw] using primIn_int_bytes G cfg .unbounded r o i hm hv this
    case boolean.bool b => simpa [leafOut] using primIn_bool G cfg o b
    case unicode.str a b c d s =>
      obtain ⟨s', h1, h2, h3, h4⟩ := leaf_text L _ _ hv rfl
      simp only [leafToText, Option.some.injEq] at h1
      subst h1
      simpa [leafOut, leafToText, textOut, hm] using primIn_str_bytes G cfg a b c d o s hm h3 h4
    case time.time x =>
      simpa [leafOut] using
        primIn_text L G cfg _ o _ _ rfl hv rfl (by intros; simp) (by simp) (by intros; simp_all)
    case bytes.bytes enc bs =>
      have hall := valueOk_bytes_all enc bs hv
      obtain ⟨s', h1, h2, h3, h4⟩ := leaf_text L _ _ hv rfl
      cases enc
      · simpa [leafOut, hm] using primIn_raw_bytes G cfg .base64 o bs hm (by simp [isRaw, hm]) hall
      · simp only [leafToText, Option.some.injEq] at h1; subst h1
        simpa [leafOut, leafToText, textOut, hm] using
          primIn_bin_bytes G cfg .hex o _ bs hm (by simp [isRaw]) (hexenc_ascii bs hall) h2
      · simp only [leafToText, Option.some.injEq] at h1; subst h1
        simpa [leafOut, leafToText, textOut, hm] using
          primIn_bin_bytes G cfg .urlsafe o _ bs hm (by simp [isRaw]) (b64enc_ascii true bs hall) h2

end SpyneModel.Hier
