/-
  Leaf-level lemmas of the dict-document codec: what `primIn` does with the encoder's own leaves
  (round trip) — general in `F`, `G`, using only the `LeafLaws`.
-/
import SpyneModel.HierSpec
import Proofs.Leaf
import Proofs.HierUtf8
namespace SpyneModel.Hier
open SpyneModel

/-! ### ASCII text -/

def isAscii (s : Text) : Bool := s.all (fun c => decide (c.toNat < 128))

theorem utf8Enc_ascii (s : Text) (h : isAscii s = true) : utf8Enc s = s.map Char.toNat := by
  induction s with
  | nil => rfl
  | cons c cs ih =>
    simp only [isAscii, List.all_cons, Bool.and_eq_true, decide_eq_true_eq] at h
    have := ih (by simpa [isAscii] using h.2)
    simp [utf8Enc, utf8EncChar, h.1, this]

theorem asciiOfBytes_map (s : Text) (h : isAscii s = true) : asciiOfBytes (s.map Char.toNat) = some s := by
  unfold asciiOfBytes
  have h1 : (s.map Char.toNat).all (· < 128) = true := by
    simp only [isAscii, List.all_eq_true, decide_eq_true_eq] at h
    simp only [List.all_eq_true, List.mem_map, decide_eq_true_eq]
    rintro _ ⟨c, hc, rfl⟩; exact h c hc
  simp only [h1, if_true, List.map_map]
  congr 1
  have : (Char.ofNat ∘ Char.toNat) = id := by funext c; simp [Char.ofNat_toNat]
  rw [this, List.map_id]

theorem asciiOfBytes_utf8Enc (s : Text) (h : isAscii s = true) : asciiOfBytes (utf8Enc s) = some s := by
  rw [utf8Enc_ascii s h]; exact asciiOfBytes_map s h

theorem utf8Enc_length_ascii (s : Text) (h : isAscii s = true) : (utf8Enc s).length = s.length := by
  rw [utf8Enc_ascii s h]; simp

theorem isAscii_append (a b : Text) : isAscii (a ++ b) = (isAscii a && isAscii b) := by
  simp [isAscii, List.all_append]

theorem isDigit_ascii (c : Char) (h : isDigit c = true) : c.toNat < 128 := by
  simp [isDigit] at h; omega

theorem natText_ascii (n : Nat) : isAscii (natText n) = true := by
  have h := natText_all_digits n
  simp only [isAscii, List.all_eq_true, decide_eq_true_eq] at *
  intro c hc; exact isDigit_ascii c (h c hc)

theorem intText_ascii (i : Int) : isAscii (intText i) = true := by
  unfold intText
  split
  · simp only [isAscii, List.all_cons, Bool.and_eq_true, decide_eq_true_eq]
    exact ⟨by decide, by simpa [isAscii] using natText_ascii i.natAbs⟩
  · exact natText_ascii _

theorem hexDigit_ascii : ∀ n, n < 16 → (hexDigit n).toNat < 128 := by decide

theorem hexenc_ascii (bs : List Nat) (h : bs.all (fun b => decide (b < 256)) = true) : isAscii (hexenc bs) = true := by
  induction bs with
  | nil => rfl
  | cons b r ih =>
    simp only [List.all_cons, Bool.and_eq_true, decide_eq_true_eq] at h
    simp only [hexenc, isAscii, List.all_cons, Bool.and_eq_true, decide_eq_true_eq]
    refine ⟨hexDigit_ascii _ (by omega), hexDigit_ascii _ (by omega), ?_⟩
    simpa [isAscii] using ih h.2

theorem b64Char_ascii : ∀ url, ∀ n, n < 64 → (b64Char url n).toNat < 128 := by decide

theorem b64enc_ascii (url : Bool) : ∀ (bs : List Nat), bs.all (fun b => decide (b < 256)) = true →
    isAscii (b64enc url bs) = true
  | [], _ => rfl
  | [a], h => by
    simp only [List.all_cons, List.all_nil, Bool.and_true, decide_eq_true_eq] at h
    simp only [b64enc, isAscii, List.all_cons, List.all_nil, Bool.and_true, Bool.and_eq_true, decide_eq_true_eq]
    exact ⟨b64Char_ascii _ _ (by omega), b64Char_ascii _ _ (by omega), by decide, by decide⟩
  | [a, b], h => by
    simp only [List.all_cons, List.all_nil, Bool.and_true, Bool.and_eq_true, decide_eq_true_eq] at h
    simp only [b64enc, isAscii, List.all_cons, List.all_nil, Bool.and_true, Bool.and_eq_true, decide_eq_true_eq]
    exact ⟨b64Char_ascii _ _ (by omega), b64Char_ascii _ _ (by omega), b64Char_ascii _ _ (by omega), by decide⟩
  | a :: b :: c :: r, h => by
    simp only [List.all_cons, Bool.and_eq_true, decide_eq_true_eq] at h
    simp only [b64enc, isAscii, List.all_cons, Bool.and_eq_true, decide_eq_true_eq]
    refine ⟨b64Char_ascii _ _ (by omega), b64Char_ascii _ _ (by omega), b64Char_ascii _ _ (by omega),
      b64Char_ascii _ _ (by omega), ?_⟩
    have := b64enc_ascii url r h.2.2.2
    simpa [isAscii] using this

end SpyneModel.Hier
