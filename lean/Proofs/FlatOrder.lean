/-
  C03 helper lemmas, part 7: the orders on keys are strict total orders; `sorted(...)` of two
  permutations of a document with distinct keys is the same list.
-/
import Proofs.FlatDoc
namespace SpyneModel.Flat
open SpyneModel

structure StrictTotal {α : Type} (lt : α → α → Bool) : Prop where
  irrefl : ∀ a, lt a a = false
  trans : ∀ a b c, lt a b = true → lt b c = true → lt a c = true
  tri : ∀ a b, a ≠ b → lt a b = true ∨ lt b a = true

theorem StrictTotal.asymm {α : Type} {lt : α → α → Bool} (h : StrictTotal lt) {a b : α}
    (hab : lt a b = true) : lt b a = false := by
  cases hba : lt b a with
  | false => rfl
  | true => have := h.trans a b a hab hba; rw [h.irrefl] at this; exact absurd this (by simp)

/-- "not greater" is transitive -/
theorem StrictTotal.negtrans {α : Type} [DecidableEq α] {lt : α → α → Bool} (h : StrictTotal lt) {a b c : α}
    (hab : lt a b = false) (hbc : lt b c = false) : lt a c = false := by
  cases hac : lt a c with
  | false => rfl
  | true =>
    exfalso
    by_cases e : a = b
    · subst e; rw [hbc] at hac; exact absurd hac (by simp)
    · rcases h.tri a b e with h1 | h1
      · rw [hab] at h1; exact absurd h1 (by simp)
      · have := h.trans b a c h1 hac
        rw [hbc] at this; exact absurd this (by simp)

/-! ### lexicographic lifting -/

theorem lexLt_irrefl {α : Type} [DecidableEq α] {lt : α → α → Bool} (h : StrictTotal lt) :
    ∀ l : List α, lexLt lt l l = false := by
  intro l
  induction l with
  | nil => rfl
  | cons a r ih => simp [lexLt, h.irrefl, ih]

theorem lexLt_trans {α : Type} [DecidableEq α] {lt : α → α → Bool} (h : StrictTotal lt) :
    ∀ a b c : List α, lexLt lt a b = true → lexLt lt b c = true → lexLt lt a c = true := by
  intro a
  induction a with
  | nil =>
    intro b c hab hbc
    cases b with
    | nil => simp [lexLt] at hab
    | cons y ys =>
      cases c with
      | nil => simp [lexLt] at hbc
      | cons z zs => rfl
  | cons x xs ih =>
    intro b c hab hbc
    cases b with
    | nil => simp [lexLt] at hab
    | cons y ys =>
      cases c with
      | nil => simp [lexLt] at hbc
      | cons z zs =>
        simp only [lexLt, Bool.or_eq_true, Bool.and_eq_true, decide_eq_true_eq] at hab hbc ⊢
        rcases hab with hab | ⟨rfl, hab⟩
        · rcases hbc with hbc | ⟨rfl, hbc⟩
          · exact Or.inl (h.trans _ _ _ hab hbc)
          · exact Or.inl hab
        · rcases hbc with hbc | ⟨rfl, hbc⟩
          · exact Or.inl hbc
          · exact Or.inr ⟨rfl, ih ys zs hab hbc⟩

theorem lexLt_tri {α : Type} [DecidableEq α] {lt : α → α → Bool} (h : StrictTotal lt) :
    ∀ a b : List α, a ≠ b → lexLt lt a b = true ∨ lexLt lt b a = true := by
  intro a
  induction a with
  | nil =>
    intro b hne
    cases b with
    | nil => exact absurd rfl hne
    | cons y ys => exact Or.inl rfl
  | cons x xs ih =>
    intro b hne
    cases b with
    | nil => exact Or.inr rfl
    | cons y ys =>
      simp only [lexLt, Bool.or_eq_true, Bool.and_eq_true, decide_eq_true_eq]
      by_cases e : x = y
      · subst e
        have : xs ≠ ys := fun e' => hne (by rw [e'])
        rcases ih ys this with h1 | h1
        · exact Or.inl (Or.inr ⟨rfl, h1⟩)
        · exact Or.inr (Or.inr ⟨rfl, h1⟩)
      · rcases h.tri x y e with h1 | h1
        · exact Or.inl (Or.inl h1)
        · exact Or.inr (Or.inl h1)

theorem lexLt_strictTotal {α : Type} [DecidableEq α] {lt : α → α → Bool} (h : StrictTotal lt) :
    StrictTotal (lexLt lt) := ⟨lexLt_irrefl h, lexLt_trans h, lexLt_tri h⟩

theorem charLt_strictTotal : StrictTotal charLt := by
  refine ⟨?_, ?_, ?_⟩
  · intro a; simp [charLt]
  · intro a b c h1 h2; simp only [charLt, decide_eq_true_eq] at *; omega
  · intro a b hne
    simp only [charLt, decide_eq_true_eq]
    have : a.toNat ≠ b.toNat := by
      intro e
      apply hne
      exact Char.ext (by
        have := e
        simp only [Char.toNat] at this
        exact UInt32.toNat_inj.mp this)
    omega

theorem textLt_strictTotal : StrictTotal textLt := lexLt_strictTotal charLt_strictTotal

theorem tokLt_strictTotal : StrictTotal Tok.lt := by
  refine ⟨?_, ?_, ?_⟩
  · intro a; cases a <;> simp [Tok.lt, textLt_strictTotal.irrefl]
  · intro a b c h1 h2
    cases a <;> cases b <;> cases c <;> simp only [Tok.lt, decide_eq_true_eq] at * <;>
      first | exact textLt_strictTotal.trans _ _ _ h1 h2 | omega | rfl | contradiction
  · intro a b hne
    cases a <;> cases b <;> simp only [Tok.lt, decide_eq_true_eq]
    · rename_i s t
      exact textLt_strictTotal.tri s t (fun e => hne (by rw [e]))
    · exact Or.inl trivial
    · exact Or.inr trivial
    · rename_i m n
      have : m ≠ n := fun e => hne (by rw [e])
      omega

/-! ### the order `sorted(doc.items(), key=...)` uses, through one key function -/

/-- what the keys are compared by -/
def orderKey (F : Facts03) (k : Text) : List Tok :=
  match F.keyOrder with
  | .natural => toks k
  | _ => [.txt k]

theorem keyLt_eq (F : Facts03) (a b : Text) : keyLt F a b = lexLt Tok.lt (orderKey F a) (orderKey F b) := by
  unfold keyLt orderKey
  cases F.keyOrder <;> simp [lexLt, Tok.lt]

/-! ### insertion sort -/

theorem inj_of_nodup_map {α β : Type} (f : α → β) {l : List α} (hn : (l.map f).Nodup) {a b : α}
    (ha : a ∈ l) (hb : b ∈ l) (h : f a = f b) : a = b := by
  induction l with
  | nil => simp at ha
  | cons x xs ih =>
    simp only [List.map_cons, List.nodup_cons] at hn
    rcases List.mem_cons.mp ha with rfl | ha' <;> rcases List.mem_cons.mp hb with rfl | hb'
    · rfl
    · exact absurd (h ▸ List.mem_map_of_mem (f := f) hb') hn.1
    · exact absurd (h ▸ List.mem_map_of_mem (f := f) ha') hn.1
    · exact ih hn.2 ha' hb'

theorem insertFront_sorted {α : Type} (lt : α → α → Bool)
    (asymm : ∀ a b, lt a b = true → lt b a = false)
    (negtrans : ∀ a b c, lt a b = false → lt b c = false → lt a c = false)
    (x : α) (l : List α) (hl : l.Pairwise (fun a b => lt b a = false)) :
    (sortBy.insertFront lt x l).Pairwise (fun a b => lt b a = false) := by
  induction l with
  | nil => simp [sortBy.insertFront]
  | cons y ys ih =>
    simp only [sortBy.insertFront]
    rw [List.pairwise_cons] at hl
    split
    · rename_i hyx
      rw [List.pairwise_cons]
      refine ⟨?_, ih hl.2⟩
      intro z hz
      have hz' := (insertFront_perm lt x ys).subset hz
      rcases List.mem_cons.mp hz' with rfl | hz'
      · exact asymm _ _ hyx
      · exact hl.1 z hz'
    · rename_i hyx
      have hyx' : lt y x = false := by simpa using hyx
      rw [List.pairwise_cons]
      refine ⟨?_, List.pairwise_cons.mpr hl⟩
      intro z hz
      rcases List.mem_cons.mp hz with rfl | hz
      · exact hyx'
      · exact negtrans _ _ _ (hl.1 z hz) hyx'

theorem sortBy_sorted {α : Type} (lt : α → α → Bool)
    (asymm : ∀ a b, lt a b = true → lt b a = false)
    (negtrans : ∀ a b c, lt a b = false → lt b c = false → lt a c = false)
    (l : List α) : (sortBy lt l).Pairwise (fun a b => lt b a = false) := by
  induction l with
  | nil => simp [sortBy]
  | cons x xs ih => exact insertFront_sorted lt asymm negtrans x _ ih

/-- `sorted` of two permutations of a document whose keys are distinct for the order -/
theorem sortDoc_perm (F : Facts03) (doc doc' : Doc) (hp : doc.Perm doc')
    (hn : (doc.map (fun kv => orderKey F kv.1)).Nodup) : sortDoc F doc = sortDoc F doc' := by
  have hst := lexLt_strictTotal tokLt_strictTotal
  have hlt : ∀ a b : Text × List (Option Text), keyLt F a.1 b.1 = lexLt Tok.lt (orderKey F a.1) (orderKey F b.1) :=
    fun a b => keyLt_eq F a.1 b.1
  have asymm : ∀ a b : Text × List (Option Text), keyLt F a.1 b.1 = true → keyLt F b.1 a.1 = false := by
    intro a b h; rw [hlt] at h ⊢; exact hst.asymm h
  have negtrans : ∀ a b c : Text × List (Option Text),
      keyLt F a.1 b.1 = false → keyLt F b.1 c.1 = false → keyLt F a.1 c.1 = false := by
    intro a b c h1 h2; rw [hlt] at h1 h2 ⊢; exact hst.negtrans h1 h2
  unfold sortDoc
  apply List.Perm.eq_of_pairwise (le := fun a b => keyLt F b.1 a.1 = false)
  · intro a b ha hb h1 h2
    -- neither is smaller: same order key, hence the same element of the document
    have ha' : a ∈ doc := (sortBy_perm _ doc).subset ha
    have hb' : b ∈ doc := hp.symm.subset ((sortBy_perm _ doc').subset hb)
    rw [hlt] at h1 h2
    have hk : orderKey F a.1 = orderKey F b.1 := by
      apply Classical.byContradiction
      intro hne
      rcases hst.tri _ _ hne with h | h
      · rw [h] at h2; exact absurd h2 (by simp)
      · rw [h] at h1; exact absurd h1 (by simp)
    exact inj_of_nodup_map (fun kv => orderKey F kv.1) hn ha' hb' hk
  · exact sortBy_sorted _ asymm negtrans doc
  · exact sortBy_sorted _ asymm negtrans doc'
  · exact (sortBy_perm _ doc).trans (hp.trans (sortBy_perm _ doc').symm)

/-- The result of `simple_dict_to_object` does not depend on the order of the keys of the flat
    document — for every document, every signature, every configuration (strict or not, soft or
    not): the keys are sorted first, and the sort puts a document with distinct keys in one order. -/
theorem decode_perm (F : Facts03) (cfg : Cfg) (fields : List Fld) (doc doc' : Doc) (hp : doc.Perm doc')
    (hn : (doc.map (fun kv => orderKey F kv.1)).Nodup) :
    decode F cfg fields doc = decode F cfg fields doc' := by
  unfold decode
  rw [sortDoc_perm F doc doc' hp hn]

theorem nativeOf_soft_ok (F : Facts03) (nillable : Bool) (p : PK) (v : Option Text) (n : Leaf)
    (h : nativeOf F true nillable p v = .ok n) : nativeOf F false nillable p v = .ok n := by
  unfold nativeOf at h ⊢
  simp only [Bool.true_and, Bool.false_and, Bool.false_eq_true, if_false] at h ⊢
  split at h
  · exact absurd h (by simp)
  · cases hl : leafFrom F p v with
    | ok x =>
      rw [hl] at h
      simp only [obind_ok] at h ⊢
      split at h
      · exact absurd h (by simp)
      · exact h
    | fault => rw [hl] at h; exact absurd h (by simp)
    | crash e => rw [hl] at h; exact absurd h (by simp)

theorem toNative_soft_ok (F : Facts03) (nillable : Bool) (p : PK) (vs : List (Option Text)) (ns : List Leaf)
    (h : toNative F true nillable p vs = .ok ns) : toNative F false nillable p vs = .ok ns := by
  induction vs generalizing ns with
  | nil => exact h
  | cons v r ih =>
    simp only [toNative] at h ⊢
    obtain ⟨x, hx, h2⟩ := obind_eq_ok.mp h
    obtain ⟨xs, hxs, h3⟩ := obind_eq_ok.mp h2
    rw [nativeOf_soft_ok F nillable p v x hx, obind_ok, ih xs hxs, obind_ok]
    exact h3

theorem stepKey_soft_ok (F : Facts03) (strict : Bool) (delim : Text) (fields : List Fld)
    (table : List (Text × Member)) (st st' : Attrs × List Ev) (kv : Text × List (Option Text))
    (h : stepKey F ⟨strict, true, delim⟩ fields table st kv = .ok st') :
    stepKey F ⟨strict, false, delim⟩ fields table st kv = .ok st' := by
  unfold stepKey at h ⊢
  cases hg : stiGet table (stripIdx kv.1) with
  | none => rw [hg] at h; exact h
  | some mem =>
    rw [hg] at h
    simp only at h ⊢
    cases hp : mem.prim with
    | none => rw [hp] at h; exact h
    | some p =>
      rw [hp] at h
      simp only at h ⊢
      obtain ⟨vs, hvs, h2⟩ := obind_eq_ok.mp h
      rw [toNative_soft_ok F mem.nillable p kv.2 vs hvs, obind_ok]
      exact h2

theorem foldO_stepKey_soft_ok (F : Facts03) (strict : Bool) (delim : Text) (fields : List Fld)
    (table : List (Text × Member)) (doc : Doc) (st st' : Attrs × List Ev)
    (h : foldO (stepKey F ⟨strict, true, delim⟩ fields table) st doc = .ok st') :
    foldO (stepKey F ⟨strict, false, delim⟩ fields table) st doc = .ok st' := by
  induction doc generalizing st with
  | nil => exact h
  | cons kv r ih =>
    simp only [foldO_cons] at h ⊢
    obtain ⟨s1, hs1, h2⟩ := obind_eq_ok.mp h
    rw [stepKey_soft_ok F strict delim fields table st s1 kv hs1, obind_ok]
    exact ih s1 h2

/-- soft validation only ever rejects: what it accepts is what the unvalidated decoder returns
    (any facts, any document, any signature) -/
theorem decode_soft_ok (F : Facts03) (strict : Bool) (delim : Text) (fields : List Fld) (doc : Doc) (v : Node)
    (h : decode F ⟨strict, true, delim⟩ fields doc = .ok v) :
    decode F ⟨strict, false, delim⟩ fields doc = .ok v := by
  unfold decode at h ⊢
  split at h
  · exact absurd h (by simp)
  · rename_i hc
    simp only [hc, if_false] at ⊢
    obtain ⟨r, hr, h2⟩ := obind_eq_ok.mp h
    rw [foldO_stepKey_soft_ok F strict delim fields _ _ _ r hr, obind_ok]
    simp only [Bool.true_and, Bool.false_and, Bool.false_eq_true, if_false] at h2 ⊢
    split at h2
    · exact absurd h2 (by simp)
    · exact h2

end SpyneModel.Flat
