/-
  Lemmas for round 5 of C11: plain-text pattern addresses (the default address of an address-less HttpPattern),
  and the SOAP front end (SpyneModel/DispatchSoap.lean).
-/
import Proofs.DispatchHttp
import SpyneModel.DispatchSoap
namespace SpyneModel.Dispatch
open SpyneModel

theorem compileAddr_plain (s : Text) (h : ∀ c ∈ s, isOpener c = false) : compileAddr s = lits s := by
  unfold compileAddr
  induction s with
  | nil => rfl
  | cons c r ih =>
    have hc := h c (by simp)
    simp only [compileGo, hc, Bool.false_eq_true, if_false, lits, List.map_cons]
    have := ih (fun x hx => h x (by simp [hx]))
    simp only [lits] at this
    rw [this]

/-- a pattern whose address is a plain text (no placeholder) answers exactly that path -/
theorem matches_plain {p : Pat} {verb path : Text} (hp : ∀ c ∈ p.addr, isOpener c = false)
    (hm : p.matches verb path = true) : withSlash path = p.addr := by
  unfold Pat.matches at hm
  rw [Bool.and_eq_true] at hm
  rw [compileAddr_plain _ hp] at hm
  exact (addrMatches_lits _ _).mp hm.2

/-- the first pattern of a declaration without an address is filled with the public name (good rule) -/
theorem fillPatterns_default (F : Facts11) (hD : F.patternDefault = .publicName) (d : MethodDecl) (name : Text)
    (ps : List (Option (List Text) × Option Text)) :
    fillPatterns F d name ps = ps.map (fun va => (va.1, va.2.getD name)) := by
  induction ps with
  | nil => rfl
  | cons va ps ih =>
    obtain ⟨v, a⟩ := va
    cases a with
    | none => simp [fillPatterns, hD, ih]
    | some a => simp [fillPatterns, ih]

/-! ## SOAP envelopes -/

theorem find_after_nonmatching {α} (p : α → Bool) (pre post : List α) (b : α) (hb : p b = true)
    (hpre : ∀ x ∈ pre, p x = false) : (pre ++ b :: post).find? p = some b := by
  induction pre with
  | nil => simp [hb]
  | cons x xs ih =>
    have hx := hpre x (by simp)
    simp only [List.cons_append, List.find?_cons, hx]
    exact ih (fun y hy => hpre y (by simp [hy]))

/-- the method is named by the first child of the Envelope's own Body; what precedes it (a Header with
    arbitrary content, other blocks) or follows it is never consulted -/
theorem soapMethod_direct (F : Facts11) (hS : F.soapBody = .directChild) (soapNs : Text)
    (pre post rest : List Xml) (m : Xml) (bns : Option Text) (hbns : bns = some soapNs)
    (hpre : ∀ x ∈ pre, x.isTag soapNs "Body".toList = false) :
    soapMethod F soapNs (.node (some soapNs) "Envelope".toList
        (pre ++ .node bns "Body".toList (m :: rest) :: post)) = some (m.ns, m.loc) := by
  subst hbns
  have hb : (Xml.node (some soapNs) "Body".toList (m :: rest)).isTag soapNs "Body".toList = true := by
    simp [Xml.isTag, Xml.ns, Xml.loc]
  have hf := find_after_nonmatching (fun (x : Xml) => x.isTag soapNs "Body".toList) pre post _ hb hpre
  simp [soapMethod, hS, Xml.isTag, Xml.ns, Xml.loc, Xml.children] at hf ⊢
  simp [hf]



theorem envelope_isTag (soapNs : Text) (cs : List Xml) :
    (Xml.node (some soapNs) "Envelope".toList cs).isTag soapNs "Envelope".toList = true := by
  simp [Xml.isTag, Xml.ns, Xml.loc]

theorem serveSoap_of_method (F : Facts11) (r : Routes) (tns soapNs : Text) (env : Xml) (ns : Option Text) (l : Text)
    (h : soapMethod F soapNs env = some (ns, l)) : serveSoap F r tns soapNs env = serve F r tns (.tag ns l) := by
  unfold serveSoap; rw [h]

theorem serveSoap_no_body (F : Facts11) (hS : F.soapBody = .directChild) (soapNs : Text) (cs : List Xml)
    (r : Routes) (tns : Text) (h : ∀ x ∈ cs, x.isTag soapNs "Body".toList = false) :
    serveSoap F r tns soapNs (.node (some soapNs) "Envelope".toList cs) = .clientFault := by
  have hf : cs.find? (fun (x : Xml) => x.isTag soapNs "Body".toList) = none := by
    rw [List.find?_eq_none]; intro x hx; rw [h x hx]; simp
  have hm : soapMethod F soapNs (.node (some soapNs) "Envelope".toList cs) = none := by
    unfold soapMethod
    rw [envelope_isTag]
    simp only [hS, Xml.children, hf, Bool.not_true, Bool.false_eq_true, if_false]
  unfold serveSoap; rw [hm]


/-! ## one protocol instance, one application -/

theorem setApps_bound (F : Facts11) (hP : F.protoSingleApp = true) (a : Nat) (as : List Nat) (st : Option Nat)
    (h : setApps F (some a) as = some st) : st = some a ∧ ∀ x ∈ as, x = a := by
  induction as with
  | nil => simp [setApps] at h; exact ⟨h.symm, by simp⟩
  | cons x xs ih =>
    simp only [setApps, setApp, hP, if_true] at h
    by_cases hx : a = x
    · subst hx
      simp only [if_true] at h
      have ⟨h1, h2⟩ := ih h
      exact ⟨h1, by intro y hy; rcases List.mem_cons.mp hy with rfl | hy; rfl; exact h2 y hy⟩
    · simp [hx] at h

end SpyneModel.Dispatch
