/-
  C05 (HttpRpc) helper lemmas, part 3: from the flat signature vocabulary to the shared one.
  What `ConfFields` says about the object graph built for `ofFields fields` is what the shared
  `conformsFields fields` says about the native values read off that graph (`argsOf`).
-/
import SpyneModel.FlatShared
import Proofs.FlatSound
namespace SpyneModel.Flat
open SpyneModel

theorem valueOk_ofPrim (p : PrimTy) (v : Val) : (ofPrim p).valueOk v = p.valueOk v := by
  cases p with
  | bytes e => cases e <;> cases v <;> rfl
  | _ => rfl

/-- what `conformsFields` asks of one field value -/
def fieldOk (t : SpyneModel.Ty) (v : Val) : Bool :=
  match v with
  | .none => decide (t.occ.minOccurs = 0) || (t.occ.nillable && !t.occ.repeated)
  | v => conforms t v

theorem conformsFields_cons (n : Text) (t : SpyneModel.Ty) (fs : List (Text × SpyneModel.Ty)) (v : Val)
    (vs : List (Text × Val)) :
    conformsFields ((n, t) :: fs) ((n, v) :: vs) = (fieldOk t v && conformsFields fs vs) := by
  cases v <;> simp [conformsFields, fieldOk]

theorem conformsOne_prim (p : PrimTy) (o : SpyneModel.Occ) (nill : Bool) (hn : o.nillable = nill) (v : Val)
    (h : LeafV nill (ofPrim p) v) : conformsOne (.prim p o) v = true := by
  rcases h with ⟨rfl, hnl⟩ | h
  · simp [conformsOne, SpyneModel.Ty.occ, hn, hnl]
  · rw [valueOk_ofPrim] at h
    cases v with
    | none => cases p <;> simp [PrimTy.valueOk] at h
    | _ => simpa [conformsOne] using h

theorem prim_items (p : PrimTy) (o : SpyneModel.Occ) (nill : Bool) (hn : o.nillable = nill) (vs : List Val)
    (h : ∀ v, v ∈ vs → LeafV nill (ofPrim p) v) :
    conformsItems (.prim p o) vs = true ∧ conformsArr (.prim p o) vs = true := by
  induction vs with
  | nil => simp [conformsItems, conformsArr]
  | cons v r ih =>
    have h1 := conformsOne_prim p o nill hn v (h v List.mem_cons_self)
    have h2 := ih (fun v' hv' => h v' (List.mem_cons_of_mem _ hv'))
    simp [conformsItems, conformsArr, h1, h2.1, h2.2]

theorem obj_items (name ns : Text) (base : Option Text) (fields : List (Text × SpyneModel.Ty)) (o : SpyneModel.Occ)
    (ih : ∀ a, ConfFields (ofFields fields) a → conformsFields fields (argsOf fields a) = true)
    (items : List Node) (h : ∀ it, it ∈ items → ∃ a, it = .obj a ∧ ConfFields (ofFields fields) a) :
    conformsItems (.obj name ns base fields o) (items.map fun it =>
        match it with
        | .obj a => .obj name (argsOf fields a)
        | _ => .none) = true ∧
    conformsArr (.obj name ns base fields o) (items.map fun it =>
        match it with
        | .obj a => .obj name (argsOf fields a)
        | _ => .none) = true := by
  induction items with
  | nil => simp [conformsItems, conformsArr]
  | cons it r ihr =>
    obtain ⟨a, rfl, ha⟩ := h it List.mem_cons_self
    have h2 := ihr (fun it' hit' => h it' (List.mem_cons_of_mem _ hit'))
    have h1 : conformsOne (.obj name ns base fields o) (.obj name (argsOf fields a)) = true := by
      simp [conformsOne, ih a ha]
    simp only [List.map_cons, conformsItems, conformsArr, h1, Bool.true_and]
    exact h2

theorem countOk_of (o : SpyneModel.Occ) (many : Bool) (n : Nat) (h : CountOk ⟨many, o.minOccurs, o.maxOccurs, o.nillable⟩ n) :
    o.countOk n = true := by
  obtain ⟨h1, h2⟩ := h
  simp only [SpyneModel.Occ.countOk, Bool.and_eq_true, decide_eq_true_eq]
  refine ⟨h1, ?_⟩
  cases hm : o.maxOccurs with
  | none => rfl
  | some mx => simpa using h2 mx hm

mutual
theorem bridge_ty (t : SpyneModel.Ty) (n : Node) (hf : flatTy t = true)
    (hc : ConfTy (ofTy t).2 (ofTy t).1 n) : fieldOk t (valOf t n) = true := by
  match t, hf, hc with
  | .prim p o, _, hc =>
    simp only [ofTy, ConfTy, ofOcc] at hc
    rcases hc with ⟨rfl, hmin⟩ | ⟨hm, v, rfl, hv⟩ | ⟨hm, vs, rfl, hcnt, hvs⟩
    · simp [valOf, fieldOk, SpyneModel.Ty.occ, hmin]
    · simp only [valOf]
      have h1 := conformsOne_prim p o o.nillable rfl v hv
      cases v with
      | none =>
        have : o.nillable = true := by simpa [conformsOne, SpyneModel.Ty.occ] using h1
        simp [fieldOk, SpyneModel.Ty.occ, hm, this]
      | _ => simpa [fieldOk, conforms, SpyneModel.Ty.occ, hm] using h1
    · simp only [valOf, fieldOk, conforms, SpyneModel.Ty.occ, hm, if_true, Bool.and_eq_true]
      exact ⟨countOk_of o _ _ hcnt, (prim_items p o o.nillable rfl vs hvs).1⟩
  | .obj name ns base fields o, hf, hc =>
    simp only [flatTy, Bool.and_eq_true] at hf
    have ih : ∀ a, ConfFields (ofFields fields) a → conformsFields fields (argsOf fields a) = true :=
      fun a h => bridge_fields fields a hf.2 h
    simp only [ofTy, ConfTy, ofOcc] at hc
    rcases hc with ⟨rfl, hmin⟩ | ⟨hm, a, rfl, ha⟩ | ⟨hm, m, items, rfl, hcnt, hit⟩
    · simp [valOf, fieldOk, SpyneModel.Ty.occ, hmin]
    · simp [valOf, fieldOk, conforms, conformsOne, SpyneModel.Ty.occ, hm, ih a ha]
    · simp only [valOf, fieldOk, conforms, SpyneModel.Ty.occ, hm, if_true, Bool.and_eq_true, List.length_map]
      exact ⟨countOk_of o _ _ hcnt, (obj_items name ns base fields o ih items hit).1⟩
  | .arr member elem o, hf, hc =>
    simp only [flatTy, Bool.and_eq_true, Bool.not_eq_true', Bool.or_eq_true, decide_eq_true_eq] at hf
    obtain ⟨⟨⟨⟨⟨hrep, hopt⟩, hemin⟩, herep⟩, hshape⟩, hfe⟩ := hf
    have hnone : fieldOk (.arr member elem o) .none = true := by
      rcases hopt with h0 | h0 <;> simp [fieldOk, SpyneModel.Ty.occ, hrep, h0]
    match elem, hfe, hshape, hc with
    | .prim p eo, _, _, hc =>
      simp only [ofTy, ConfTy, SpyneModel.Ty.occ] at hc
      rcases hc with ⟨rfl, _⟩ | ⟨hm, _⟩ | ⟨_, vs, rfl, _, hvs⟩
      · simpa [valOf] using hnone
      · exact absurd hm (by simp)
      · simp only [valOf, fieldOk, conforms, SpyneModel.Ty.occ, hrep, Bool.false_eq_true, if_false, conformsOne]
        exact (prim_items p eo eo.nillable rfl vs hvs).2
    | .obj name ns base fields eo, hfe, _, hc =>
      simp only [flatTy, Bool.and_eq_true] at hfe
      have ih : ∀ a, ConfFields (ofFields fields) a → conformsFields fields (argsOf fields a) = true :=
        fun a h => bridge_fields fields a hfe.2 h
      simp only [ofTy, ConfTy, SpyneModel.Ty.occ] at hc
      rcases hc with ⟨rfl, _⟩ | ⟨hm, _⟩ | ⟨_, m, items, rfl, _, hit⟩
      · simpa [valOf] using hnone
      · exact absurd hm (by simp)
      · simp only [valOf, fieldOk, conforms, SpyneModel.Ty.occ, hrep, Bool.false_eq_true, if_false, conformsOne]
        exact (obj_items name ns base fields eo ih items hit).2
    | .arr _ _ _, _, hshape, _ => simp at hshape
theorem bridge_fields (fs : List (Text × SpyneModel.Ty)) (a : Attrs) (hf : flatFields fs = true)
    (hc : ConfFields (ofFields fs) a) : conformsFields fs (argsOf fs a) = true := by
  match fs, hf, hc with
  | [], _, _ => simp [argsOf, conformsFields]
  | (n, t) :: r, hf, hc =>
    simp only [flatFields, Bool.and_eq_true] at hf
    simp only [ofFields, ConfFields] at hc
    simp only [argsOf, conformsFields_cons, Bool.and_eq_true]
    exact ⟨bridge_ty t _ hf.1 hc.1, bridge_fields r a hf.2 hc.2⟩
end


/-! ## the translated signature is a well-formed flat signature -/

theorem namesNodup_nodup : ∀ (l : List Text), namesNodup l = true → l.Nodup := by
  intro l
  induction l with
  | nil => intro _; exact List.nodup_nil
  | cons n r ih =>
    intro h
    simp only [namesNodup, Bool.and_eq_true, Bool.not_eq_true', List.contains_eq_mem, decide_eq_false_iff_not] at h
    exact List.nodup_cons.mpr ⟨h.1, ih h.2⟩

theorem ofFields_names (fs : List (Text × SpyneModel.Ty)) : (ofFields fs).map Prod.fst = fs.map (·.1) := by
  induction fs with
  | nil => rfl
  | cons f r ih => obtain ⟨n, t⟩ := f; simp [ofFields, ih]

theorem namesOk_of (fs : List (Text × SpyneModel.Ty)) (h1 : namesNodup (fs.map (·.1)) = true)
    (h2 : (fs.map (·.1)).all plainName = true) : NamesOk (ofFields fs) := by
  refine ⟨by rw [ofFields_names]; exact namesNodup_nodup _ h1, ?_⟩
  intro n hn
  rw [ofFields_names] at hn
  rw [List.all_eq_true] at h2
  have := h2 n hn
  simpa [plainName] using this

theorem scalar_max (o : SpyneModel.Occ) (h : (ofOcc o).many = false) : ∃ mx, (ofOcc o).maxOcc = some mx ∧ mx ≤ 1 := by
  simp only [ofOcc, SpyneModel.Occ.repeated] at h ⊢
  cases hm : o.maxOccurs with
  | none => rw [hm] at h; simp at h
  | some m => rw [hm] at h; exact ⟨m, rfl, by simpa using h⟩

mutual
theorem wf_of_flatTy (t : SpyneModel.Ty) (hf : flatTy t = true) :
    WfTy (ofTy t).2 ∧ SigOccTy (ofTy t).2 ∧ ((ofTy t).1.many = false → ∃ mx, (ofTy t).1.maxOcc = some mx ∧ mx ≤ 1) := by
  match t, hf with
  | .prim p o, _ => exact ⟨trivial, trivial, scalar_max o⟩
  | .obj name ns base fields o, hf =>
    simp only [flatTy, Bool.and_eq_true] at hf
    obtain ⟨h1, h2⟩ := wf_of_flatFields fields hf.2
    exact ⟨⟨namesOk_of fields hf.1.1 hf.1.2, h1⟩, h2, scalar_max o⟩
  | .arr member elem o, hf =>
    simp only [flatTy, Bool.and_eq_true] at hf
    obtain ⟨h1, h2, _⟩ := wf_of_flatTy elem hf.2
    exact ⟨h1, h2, fun h => absurd h (by simp [ofTy])⟩
theorem wf_of_flatFields (fs : List (Text × SpyneModel.Ty)) (hf : flatFields fs = true) :
    WfFields (ofFields fs) ∧ SigOccFields (ofFields fs) := by
  match fs, hf with
  | [], _ => exact ⟨trivial, trivial⟩
  | (n, t) :: r, hf =>
    simp only [flatFields, Bool.and_eq_true] at hf
    obtain ⟨h1, h2, h3⟩ := wf_of_flatTy t hf.1
    obtain ⟨h4, h5⟩ := wf_of_flatFields r hf.2
    exact ⟨⟨h1, h4⟩, ⟨h3, h2, h5⟩⟩
end

/-! ## the idxmaps do not show in the native values -/

mutual
theorem valOf_erase (t : SpyneModel.Ty) (n : Node) : valOf t (eraseNode n) = valOf t n := by
  match t with
  | .prim p o => cases n <;> simp [valOf, eraseNode]
  | .obj name ns base fields o =>
    cases n with
    | obj a => simp only [eraseNode, valOf, argsOf_erase fields a]
    | arr m items =>
      simp only [eraseNode, valOf, eraseItems_eq_map, List.map_map]
      congr 1
      apply List.map_congr_left
      intro it _
      cases it with
      | obj a => simp only [Function.comp, eraseNode, argsOf_erase fields a]
      | _ => simp [Function.comp, eraseNode]
    | _ => simp [valOf, eraseNode]
  | .arr member elem o => simp only [valOf]; exact valOf_erase elem n
theorem argsOf_erase (fs : List (Text × SpyneModel.Ty)) (a : Attrs) : argsOf fs (eraseAttrs a) = argsOf fs a := by
  match fs with
  | [] => rfl
  | (n, t) :: r => simp only [argsOf, getAttr_eraseAttrs, valOf_erase t, argsOf_erase r a]
end

/-- (⇒) for the flat decoder, against the shared specification: whatever document arrives, what
    soft validation lets through conforms -/
theorem decode_soft_conforms (F : Facts03) (L : LeafLaws F.leaf) (hF : F.freqScope = .perMember)
    (hT : F.freqTouch = true) (strict : Bool) (delim : Text) (fields : List (Text × SpyneModel.Ty))
    (hs : flatSig fields = true)
    (doc : Doc) (node : Node) (h : decode F ⟨strict, true, delim⟩ (ofFields fields) doc = .ok node) :
    ∃ attrs, node = .obj attrs ∧ conformsFields fields (argsOf fields attrs) = true := by
  simp only [flatSig, Bool.and_eq_true] at hs
  have hn := namesOk_of fields hs.1.1 hs.1.2
  obtain ⟨hw, hsig⟩ := wf_of_flatFields fields hs.2
  unfold decode at h
  split at h
  · exact absurd h (by simp)
  · obtain ⟨r, hr, h2⟩ := obind_eq_ok.mp h
    simp only [Bool.true_and] at h2
    split at h2
    · exact absurd h2 (by simp)
    · rename_i hfreq
      simp only [Outcome.ok.injEq] at h2
      subst h2
      have hfr : freqOk (ofFields fields) r.2 = true := by simpa using hfreq
      rw [freqOk_eq, Bool.and_eq_true] at hfr
      have hwc := foldO_stepKey_wc F L hF hT strict delim (ofFields fields) hn hw _ _ r
        (WCFields_fresh strict (ofFields fields)) hr
      have hconf := conf_of_wc_fields strict (ofFields fields) r.1 r.2 hwc hfr.1 hfr.2 hsig
      exact ⟨eraseAttrs r.1, rfl, by rw [argsOf_erase]; exact bridge_fields fields r.1 hs.2 hconf⟩

end SpyneModel.Flat
